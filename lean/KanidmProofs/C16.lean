import KanidmProofs.Lemmas.RefintRepl
/-!
# C16 — no dangling references

Model: `KanidmModel/Refint.lean` (refint.rs, the cascade / recycle parts of delete.rs and
recycle.rs, the `ref_cache` rule of schema.rs), parameterised by `Generated/RefintOps.lean`.

The property: after any sequence of committed operations no reference-valued attribute of a live
entry names an entry that is not live; a write that would create such a reference is refused;
deleting an entry removes the references to it.

Exemptions the code has, all visible in the statements below:
* `Entry.exempt`: `memberof` (every entry) and `dynmember` of a dynamic group are skipped by
  refint's own existence check — they are other plugins' output (memberof / dyngroup, C17 / C18);
* `VS.active`: a *revoked* OAuth2 session keeps its resource-server uuid but no longer refers;
* `stepOk`: an OAuth2 session id must not collide with an entry uuid (`sid_collision_breaks` shows
  the hypothesis is necessary), and the `directmemberof` values that memberof stashes on a deleted
  entry are live groups.
-/
namespace Kanidm.Refint
open Kanidm.Gen.Refint

/-- The operators and flags regenerated from the source are the ones the proofs were written for
(every lemma unfolds the generated definitions; this theorem names them in one place). -/
theorem ops_as_modelled :
    (∀ y : Syn, inRefCache y = (y != .other))
    ∧ sessionRefsSkipRevoked = true ∧ skipMemberOf = true ∧ skipDynMemberOnDynGroup = true
    ∧ newRefsAreDifference = true ∧ existsFastHidesMasked = true ∧ existsSlowHidesMasked = true
    ∧ (∀ a b, fastAllFound a b = (a == b)) ∧ (∀ b, slowMissingWhen b = !b) ∧ (∀ b, refuseWhen b = !b)
    ∧ removeSearchesAllStates = true ∧ removeSweepsEveryRefType = true
    ∧ postDeleteRemovesCandidates = true
    ∧ (∀ a b, becameInactive a b = (!b && (a != b)))
    ∧ replRemovesMissing = true ∧ replRemovesConflicts = true ∧ replRemovesInactive = true
    ∧ cascadeDeletesReferrers = true ∧ pluginHooksCalled = true := by
  refine ⟨fun y => by cases y <;> rfl, rfl, rfl, rfl, rfl, rfl, rfl, fun _ _ => rfl, fun _ => rfl,
    fun _ => rfl, rfl, rfl, rfl, fun _ _ => rfl, rfl, rfl, rfl, rfl, rfl⟩

/-! ## the invariant is kept by every operation, hence by every history -/

theorem inv_step {s : State} (hinv : Inv s) (op : Op) (hok : stepOk s op = true) : Inv (apply s op) := by
  cases op with
  | create es => exact inv_create hinv es
  | modify u m => exact inv_modify hinv u m
  | delete us st => exact inv_delete hinv us st hok
  | revive us => exact inv_revive hinv us
  | purgeRecycled => exact inv_purgeRecycled hinv
  | purgeTombstones => exact inv_purgeTombstones hinv
  | repl c k => exact inv_repl hinv c k hok

theorem inv_of_history {s : State} (hinv : Inv s) (ops : List Op) (hok : histOk s ops = true) :
    Inv (run s ops) := by
  unfold run
  induction ops generalizing s with
  | nil => exact hinv
  | cons op ops ih =>
    simp only [histOk, Bool.and_eq_true] at hok
    simp only [List.foldl_cons]
    exact ih (inv_step hinv op hok.1) hok.2

/-- The property, on a state: every active reference held in a non-exempt attribute of a live
entry is the uuid of a live entry. -/
def NoDangling (s : State) : Prop :=
  ∀ e ∈ s, e.st = .live → ∀ p ∈ e.attrs, e.exempt p.1 = false → ∀ r ∈ p.2.active,
    ∃ t ∈ s, t.uuid = r ∧ t.st = .live

theorem noDangling_of_inv {s : State} (h : Inv s) : NoDangling s := by
  intro e he _ p hp hx r hr
  exact isLive_iff.mp (h.2 e he r (mem_propRefs.mpr ⟨p, hp, hx, hr⟩))

/-- **No dangling references after any history** (create / modify / delete with cascade / revive /
purge of the recycle bin / purge of tombstones / replicated incremental apply of arbitrary
candidates), from any state that satisfies the invariant. -/
theorem noDangling_of_history {s : State} (hinv : Inv s) (ops : List Op) (hok : histOk s ops = true) :
    NoDangling (run s ops) :=
  noDangling_of_inv (inv_of_history hinv ops hok)

theorem inv_empty : Inv [] := ⟨List.nodup_nil, by simp⟩

theorem noDangling_from_empty (ops : List Op) (hok : histOk [] ops = true) : NoDangling (run [] ops) :=
  noDangling_of_history inv_empty ops hok

/-- The invariant is stronger than the property: recycled entries are kept clean too — this is
what makes revival safe. -/
theorem recycled_entries_clean {s : State} (hinv : Inv s) (ops : List Op) (hok : histOk s ops = true) :
    ∀ e ∈ run s ops, e.st = .recycled → ∀ r ∈ e.propRefs, isLive (run s ops) r = true :=
  fun e he _ r hr => (inv_of_history hinv ops hok).2 e he r hr

/-! ## a write that would create a dangling reference is refused -/

/-- `post_modify_inner` answers `ReferentialIntegrity` as soon as one newly added reference is not
a live entry (fast path; the slow path only logs). -/
theorem check_refuses {s1 : State} (hn : (s1.map (·.uuid)).Nodup) {pre : Option (List Entry)}
    {post : List Entry} {r : Nat} (hr : r ∈ newRefs pre post) (hdead : isLive s1 r = false) :
    postModifyInner s1 pre post = some .refint := by
  unfold postModifyInner
  have : existFast s1 (newRefs pre post) = false := by
    cases h : existFast s1 (newRefs pre post)
    · rfl
    · rw [existFast_sound hn h hr] at hdead; simp at hdead
  simp [refuseWhen, this]

/-- A create in which some new entry refers to a uuid that is not live afterwards is refused. -/
theorem create_refuses_dangling {s : State} (hn : (s.map (·.uuid)).Nodup) {es : List Entry}
    {e : Entry} (he : e ∈ es) {r : Nat} (hr : r ∈ e.propRefs)
    (hdead : isLive (s ++ es.map (fun e => { e with st := .live })) r = false) :
    ∃ er, opCreate s es = .err er := by
  unfold opCreate
  simp only
  split
  · exact ⟨_, rfl⟩
  · split
    · exact ⟨_, rfl⟩
    · rename_i hdup
      split
      · exact ⟨_, rfl⟩
      · generalize hes' : es.map (fun e => { e with st := St.live }) = es' at *
        have hnd : nodupNat (es'.map (·.uuid)) = true := by
          cases h1 : nodupNat (es'.map (·.uuid)) <;> simp_all
        have hidx : (es'.map (·.uuid)).any (inIndex s) = false := by
          cases h2 : (es'.map (·.uuid)).any (inIndex s) <;> simp_all
        have hn1 : ((s ++ es').map (·.uuid)).Nodup := by
          rw [List.map_append]
          refine List.nodup_append.mpr ⟨hn, nodupNat_nodup hnd, ?_⟩
          intro a ha b hb hab
          obtain ⟨x, hx, rfl⟩ := List.mem_map.mp ha
          obtain ⟨e1, he1, rfl⟩ := List.mem_map.mp hb
          exact List.any_eq_false.mp hidx e1.uuid (List.mem_map_of_mem he1) (inIndex_iff.mpr ⟨x, hx, hab⟩)
        have hmem : r ∈ newRefs none es' := by
          unfold newRefs
          simp only [newRefsAreDifference, if_true, List.mem_filter]
          refine ⟨mem_refSet.mpr ⟨{ e with st := .live }, ?_, hr⟩, by simp⟩
          rw [← hes']; exact List.mem_map_of_mem he
        rw [check_refuses hn1 hmem hdead]
        exact ⟨_, rfl⟩

/-- A modify that leaves the (live) target with a reference it did not have before, to a uuid that
is not live, is refused. -/
theorem modify_refuses_dangling {s : State} (hn : (s.map (·.uuid)).Nodup) {u : Nat} {mods : List Mod}
    {e e' : Entry} (hfind : s.find? (fun e => e.uuid == u && e.st == .live) = some e)
    (hm : applyMods e mods = some e') {r : Nat} (hr : r ∈ e'.propRefs) (hnew : r ∉ e.propRefs)
    (hdead : isLive s r = false) : ∃ er, opModify s u mods = .err er := by
  unfold opModify
  simp only [hfind, hm]
  split
  · exact ⟨_, rfl⟩
  · obtain ⟨hu', hst'⟩ := applyMods_fields hm
    have hcond : e.uuid = u ∧ e.st = .live := by simpa using List.find?_some hfind
    have hfu : ∀ x ∈ s, ((fun x : Entry => if (x.uuid == u && x.st == St.live) = true then e' else x) x).uuid = x.uuid := by
      intro x _; simp only; split
      · rename_i hc; simp only [Bool.and_eq_true, beq_iff_eq] at hc; rw [hu', hcond.1, hc.1]
      · rfl
    have hn1 : ((s.map (fun x : Entry => if (x.uuid == u && x.st == St.live) = true then e' else x)).map (·.uuid)).Nodup := by
      rw [map_fields_uuid hfu]; exact hn
    have hdead1 : isLive (s.map (fun x : Entry => if (x.uuid == u && x.st == St.live) = true then e' else x)) r = false := by
      cases hl : isLive (s.map (fun x : Entry => if (x.uuid == u && x.st == St.live) = true then e' else x)) r
      · rfl
      · obtain ⟨y, hy, hyu, hyl⟩ := isLive_iff.mp hl
        obtain ⟨x, hx, rfl⟩ := List.mem_map.mp hy
        have : isLive s r = true := by
          split at hyu
          · rename_i hc
            simp only [Bool.and_eq_true, beq_iff_eq] at hc
            exact isLive_iff.mpr ⟨x, hx, by rw [hc.1, ← hcond.1, ← hu']; exact hyu, hc.2⟩
          · split at hyl
            · rename_i h1 h2; exact absurd h2 h1
            · exact isLive_iff.mpr ⟨x, hx, hyu, hyl⟩
        rw [this] at hdead; simp at hdead
    have hmem : r ∈ newRefs (some [e]) [e'] := by
      unfold newRefs
      simp only [newRefsAreDifference, if_true, List.mem_filter]
      refine ⟨mem_refSet.mpr ⟨e', List.mem_singleton.mpr rfl, hr⟩, ?_⟩
      have : r ∉ refSet [e] := fun h => by
        obtain ⟨p, hp, hrp⟩ := mem_refSet.mp h
        rw [List.mem_singleton.mp hp] at hrp
        exact hnew hrp
      simpa using this
    rw [check_refuses hn1 hmem hdead1]
    exact ⟨_, rfl⟩

/-! ## deleting an entry removes the references to it -/

/-- After a successful delete no stored entry — live or recycled, in **any** attribute, `memberof`
and `dynmember` included — holds an active reference to a deleted uuid (the candidates and the
entries deleted with them by cascade). -/
theorem delete_strips_all_refs {s s2 : State} {us : List Nat} {stash : List (Nat × List Nat)}
    (hsid : (stateSids s).all (fun sid => !(s.map (·.uuid)).contains sid) = true)
    (h : opDelete s us stash = .ok s2) :
    ∀ u ∈ deleteTargets s us ++ deleteCascade s (deleteTargets s us),
      ∀ e ∈ s2, ∀ p ∈ e.attrs, u ∉ p.2.active := by
  unfold opDelete at h
  simp only [postDeleteRemovesCandidates, if_true] at h
  generalize htu : deleteTargets s us = tu at h ⊢
  generalize hcu : deleteCascade s tu = cu at h ⊢
  split at h
  · simp at h
  · split at h
    · simp at h
    · cases hrr : removeReferences (recycleAll s stash tu cu) (tu ++ cu) with
      | none => simp [hrr] at h
      | some s3 =>
        simp only [hrr, Res.ok.injEq] at h
        subst h
        unfold removeReferences at hrr
        split at hrr
        · simp at hrr
        · simp only [Option.some.injEq] at hrr
          subst hrr
          -- session ids of the recycled state are session ids of `s`; deleted uuids are entry uuids
          have hD : ∀ d ∈ tu ++ cu, ∃ x ∈ s, x.uuid = d := by
            intro d hd
            rcases List.mem_append.mp hd with h1 | h1
            · subst htu
              obtain ⟨x, hx, rfl⟩ := List.mem_map.mp h1
              exact ⟨x, (List.mem_filter.mp hx).1, rfl⟩
            · subst hcu
              unfold deleteCascade at h1
              split at h1
              · obtain ⟨x, hx, rfl⟩ := List.mem_map.mp h1
                exact ⟨x, (List.mem_filter.mp hx).1, rfl⟩
              · simp at h1
          have hsf : ∀ e1 ∈ recycleAll s stash tu cu, ∀ q ∈ e1.attrs, ∀ d ∈ tu ++ cu, d ∉ q.2.sids := by
            intro e1 he1 q hq d hd hmem
            unfold recycleAll at he1
            obtain ⟨e0, he0, rfl⟩ := List.mem_map.mp he1
            have hq' : q ∈ e0.attrs ∨ q.2.sids = [] := by
              split at hq
              · exact (recycle_attrs hq).imp id (fun h => h.1)
              · split at hq
                · exact (recycle_attrs hq).imp id (fun h => h.1)
                · exact Or.inl hq
            rcases hq' with h1 | h1
            · have hs : d ∈ stateSids s := mem_stateSids.mpr ⟨e0, he0, q, h1, hmem⟩
              simp only [List.all_eq_true, Bool.not_eq_true', List.contains_eq_mem, decide_eq_false_iff_not] at hsid
              obtain ⟨x, hx, hxu⟩ := hD d hd
              exact hsid d hs (List.mem_map.mpr ⟨x, hx, hxu⟩)
            · simp [h1] at hmem
          intro u hu e he p hp hact
          unfold removeRefsState at he
          obtain ⟨e1, he1, rfl⟩ := List.mem_map.mp he
          split at hp
          · -- swept
            simp only [Entry.strip, List.mem_filterMap] at hp
            obtain ⟨q, hq, hf⟩ := hp
            by_cases hc : inRefCache q.2.syn = true
            · simp only [removeSweepsEveryRefType, hc, Bool.and_self, if_true] at hf
              split at hf
              · simp at hf
              · simp only [Option.some.injEq] at hf
                subst hf
                exact (removeAll_active (hsf e1 he1 q hq) hact).2 hu
            · have : (removeSweepsEveryRefType && inRefCache q.2.syn) = false := by simp [hc]
              simp only [this, Bool.false_eq_true, if_false, Option.some.injEq] at hf
              subst hf
              exact hc (refcache_of_active refcache_covers hact)
          · -- not selected by the search: no reference-typed value lists `u`
            rename_i hws
            have hm : e1.matchesAny (tu ++ cu) = false := by
              simpa [Entry.inWorkSet, removeSearchesAllStates] using hws
            have : e1.matchesAny (tu ++ cu) = true := by
              simp only [Entry.matchesAny, List.any_eq_true, Bool.and_eq_true]
              exact ⟨p, hp, refcache_of_active refcache_covers hact, u, hu, active_idxHas hact⟩
            simp [this] at hm

/-! ## revive and replication -/

/-- A successful revive leaves no dangling reference: whatever the revived entries refer to
(their old references, the restored `refers`, the groups they are put back into) is live. -/
theorem revive_restores_only_live_targets {s : State} (hinv : Inv s) (us : List Nat) :
    NoDangling (apply s (.revive us)) :=
  noDangling_of_inv (inv_revive hinv us)

/-- The replication fix-up: whatever entries an incremental apply writes (`cand` is arbitrary:
any states, any attribute contents, unknown uuids, duplicates) and whatever uuid conflicts are
reported, after `post_repl_incremental_conflict` + `post_repl_incremental` nothing dangles. -/
theorem repl_fixup_noDangling {s : State} (hinv : Inv s) (cand : List Entry) (conflicts : List Nat)
    (hok : stepOk s (.repl cand conflicts) = true) : NoDangling (apply s (.repl cand conflicts)) :=
  noDangling_of_inv (inv_repl hinv cand conflicts hok)

/-! ## the exemptions are necessary (kernel-evaluated witnesses) -/

/-- A dangling reference, decidably. -/
def danglingRefs (s : State) : List (Nat × Nat) :=
  (s.filter (·.st == .live)).flatMap (fun e =>
    e.propRefs.filterMap (fun r => if isLive s r then none else some (e.uuid, r)))

/-- Client 11, person 7 with two sessions to 11, one of them with the *session id* 11. -/
def collisionHistory : List Op :=
  [ .create [⟨11, .live, false, [], []⟩],
    .create [⟨7, .live, false, [], [(11, .sessions [⟨11, 11, false⟩, ⟨40, 11, false⟩])]⟩],
    .delete [11] [] ]

/-- Without the session-id hypothesis the invariant fails: `remove(Refer(11))` revokes the session
whose id is 11 and leaves the other session to resource server 11 active. -/
theorem sid_collision_breaks :
    histOk [] collisionHistory = false ∧ danglingRefs (run [] collisionHistory) = [(7, 11)] := by
  decide

/-- Counting revoked sessions as references would make the property false of the code: after the
resource server is deleted the session is revoked, not removed, and still names it. -/
def revokedHistory : List Op :=
  [ .create [⟨11, .live, false, [], []⟩],
    .create [⟨7, .live, false, [], [(11, .sessions [⟨40, 11, false⟩])]⟩],
    .delete [11] [] ]

theorem revoked_session_keeps_rs :
    histOk [] revokedHistory = true
    ∧ run [] revokedHistory =
        [⟨11, .recycled, false, [], []⟩, ⟨7, .live, false, [], [(11, .sessions [⟨40, 11, true⟩])]⟩]
    ∧ danglingRefs (run [] revokedHistory) = [] := by
  decide

/-! ## non-vacuity: a history that meets every hypothesis and exercises every operation -/

def demoHistory : List Op :=
  [ .create [⟨7, .live, false, [], []⟩, ⟨14, .live, false, [aRefers], [(aRefers, .keys .refer [7])]⟩],
    .create [⟨2, .live, false, [], []⟩],
    .create [⟨11, .live, false, [], [(8, .keys .scopeMap [2]), (10, .claims [(1, [2])])]⟩],
    .create [⟨1, .live, false, [], [(aMember, .keys .refer [2, 7, 14]), (7, .keys .refer [2])]⟩],
    .modify 7 [.present 11 (.sess ⟨40, 11, false⟩), .present 12 (.key .appPwd 2)],
    .modify 1 [.present aMember (.key .refer 99)],            -- refused: 99 does not exist
    .delete [2] [],
    .modify 1 [.present aMember (.key .refer 2)],             -- refused: 2 is recycled
    .revive [2],
    .delete [7] [(7, [1])],                                   -- cascades to certificate 14
    .revive [14],                                             -- refused: 7 is still recycled
    .revive [7],                                              -- revives 14 too, puts 7 back into 1
    .delete [11] [],
    .purgeRecycled, .purgeTombstones,
    .repl [⟨2, .recycled, false, [], []⟩, ⟨3, .live, false, [], [(aMember, .keys .refer [2, 7, 55])]⟩] [14] ]

example : histOk [] demoHistory = true := by decide
example : run [] demoHistory =
    [ ⟨7, .live, false, [], [(11, .sessions [⟨40, 11, true⟩])]⟩,
      ⟨14, .live, false, [aRefers], [(aRefers, .keys .refer [7])]⟩,
      ⟨2, .recycled, false, [], []⟩,
      ⟨1, .live, false, [], [(aMember, .keys .refer [7])]⟩,
      ⟨3, .live, false, [], [(aMember, .keys .refer [7])]⟩ ] := by decide
example : NoDangling (run [] demoHistory) := noDangling_from_empty demoHistory (by decide)

end Kanidm.Refint
