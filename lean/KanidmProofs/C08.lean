import KanidmProofs.Lemmas.ReplMerge
import KanidmProofs.Lemmas.ReplClash
import KanidmModel.ReplSystem
/-!
# C08 — replicas converge

The property theorems.  `vm` is `repl_merge_valueset` (hypothesis `hvm`: the default implementation,
`None`; the four overriding value set types are C11's subject), `repl` is `schema.is_replicated`.
Everything is observed on the replicated stratum (`view`: kind, `at`, per replicated attribute its
change cid and value).
-/
namespace Kanidm.ReplMerge
open Kanidm.Cid (Cid cidLt)
open Kanidm.Gen.ReplMergeOps

/-- `merge_state` on two live entries is attribute-level last-writer-wins by change cid: the later
cid and its value (or absence of a value) survive; an attribute known to one side only is kept;
the creation cid is kept. -/
theorem merge_is_lww (vm : Nat → Nat → Option Nat) (hvm : ∀ n o, vm n o = none) (repl : Nat → Bool)
    (L R : Live) (a : Nat) :
    rcell repl (mergeLive vm repl L R) a = lww (rcell repl L a) (rcell repl R a)
      ∧ (mergeLive vm repl L R).crAt = L.crAt :=
  ⟨rcell_mergeLive vm hvm repl L R a, rfl⟩

example : lww (some (⟨5, 1⟩, some 7)) (some (⟨5, 2⟩, none)) = some (⟨5, 2⟩, none) := by decide
example : lww (some (⟨6, 1⟩, some 7)) (some (⟨5, 2⟩, some 8)) = some (⟨6, 1⟩, some 7) := by decide

/-- Which side is incoming and which is in the database does not matter (one cid names one write). -/
theorem merge_comm (vm : Nat → Nat → Option Nat) (hvm : ∀ n o, vm n o = none) (repl : Nat → Bool)
    (s t : St) (h : VCoh (view repl s) (view repl t)) :
    view repl (mergeState vm repl s t) = view repl (mergeState vm repl t s) := by
  rw [view_mergeState vm hvm, view_mergeState vm hvm]
  exact vmerge_comm _ _ h

/-- Grouping does not matter (no hypothesis). -/
theorem merge_assoc (vm : Nat → Nat → Option Nat) (hvm : ∀ n o, vm n o = none) (repl : Nat → Bool)
    (s t u : St) :
    view repl (mergeState vm repl (mergeState vm repl s t) u)
      = view repl (mergeState vm repl s (mergeState vm repl t u)) := by
  simp only [view_mergeState vm hvm]
  exact vmerge_assoc _ _ _

/-- Receiving the same state again changes nothing. -/
theorem merge_idem (vm : Nat → Nat → Option Nat) (hvm : ∀ n o, vm n o = none) (repl : Nat → Bool)
    (s : St) : view repl (mergeState vm repl s s) = view repl s := by
  rw [view_mergeState vm hvm]
  exact vmerge_idem _

/-- The hypothesis of `merge_comm` is necessary: two different values under one cid are order dependent. -/
theorem merge_comm_needs_cid_unique :
    view (fun _ => true) (mergeState (fun _ _ => none) (fun _ => true)
        (.live ⟨⟨1, 1⟩, [(0, ⟨2, 1⟩)], [(0, 7)]⟩) (.live ⟨⟨1, 1⟩, [(0, ⟨2, 1⟩)], [(0, 8)]⟩))
      ≠ view (fun _ => true) (mergeState (fun _ _ => none) (fun _ => true)
        (.live ⟨⟨1, 1⟩, [(0, ⟨2, 1⟩)], [(0, 8)]⟩) (.live ⟨⟨1, 1⟩, [(0, ⟨2, 1⟩)], [(0, 7)]⟩)) := by
  intro h
  have h0 : ∀ {a b : Cid} {f g : Nat → Option (Cid × Option Nat)},
      View.live a f = View.live b g → f 0 = g 0 := by
    intro a b f g e; cases e; rfl
  have := h0 h
  revert this
  decide

/-- `hvm` is necessary for `merge_assoc`: with a value set type that merges instead of choosing (C11's
sessions, keys, audit log) a *purge* of the attribute between two writes makes the result depend on the
grouping — delivered directly, the oldest value is merged back into the newest; delivered through the
purge, it is gone.  (No server code path purges such an attribute; revocations are C11's subject.) -/
theorem merge_assoc_needs_default_valueset_merge :
    let vm : Nat → Nat → Option Nat := fun n o => some (n + o)
    let x : St := .live ⟨⟨1, 1⟩, [(0, ⟨1, 1⟩)], [(0, 1)]⟩
    let y : St := .live ⟨⟨1, 1⟩, [(0, ⟨2, 1⟩)], []⟩
    let z : St := .live ⟨⟨1, 1⟩, [(0, ⟨3, 1⟩)], [(0, 4)]⟩
    mergeState vm (fun _ => true) (mergeState vm (fun _ => true) x y) z
        = .live ⟨⟨1, 1⟩, [(0, ⟨3, 1⟩)], [(0, 4)]⟩
      ∧ mergeState vm (fun _ => true) x (mergeState vm (fun _ => true) y z)
        = .live ⟨⟨1, 1⟩, [(0, ⟨3, 1⟩)], [(0, 5)]⟩ := by
  decide

/-- A tombstone absorbs: merged with anything, on either side, the result is a tombstone, and its
`at` is not later than the tombstone's. -/
theorem tombstone_dominates (vm : Nat → Nat → Option Nat) (repl : Nat → Bool) (a : Cid) (s : St) :
    (∃ b, mergeState vm repl (.tomb a) s = .tomb b ∧ cidLt a b = false)
      ∧ (∃ b, mergeState vm repl s (.tomb a) = .tomb b ∧ cidLt a b = false) := by
  cases s with
  | live e =>
    exact ⟨⟨a, by simp [mergeState, tombLiveKeeps], cidLt_irrefl a⟩,
           ⟨a, by simp [mergeState, liveTombKeeps], cidLt_irrefl a⟩⟩
  | tomb c =>
    constructor
    · cases h : cidLt a c
      · exact ⟨c, by simp [mergeState, tombTombPickLeft, h], h⟩
      · exact ⟨a, by simp [mergeState, tombTombPickLeft, h], cidLt_irrefl a⟩
    · cases h : cidLt c a
      · exact ⟨a, by simp [mergeState, tombTombPickLeft, h], cidLt_irrefl a⟩
      · exact ⟨c, by simp [mergeState, tombTombPickLeft, h], cidLt_asymm h⟩

/-- What any delivery tree evaluates to, in terms of the *set* of delivered states: a tombstone with
the earliest `at` if any delivered state is a tombstone; otherwise a live entry whose every
replicated attribute carries the greatest change cid delivered for it, with that write's value
(`merge (resolve K₁) (resolve K₂) = resolve (K₁ ∪ K₂)`). -/
theorem merge_is_resolve (vm : Nat → Nat → Option Nat) (hvm : ∀ n o, vm n o = none) (repl : Nat → Bool)
    (w : Nat → St) (hcoh : ∀ i j, VCoh (view repl (w i)) (view repl (w j))) (t : Tree) :
    TreeSpec (fun i => view repl (w i)) (fun i => i ∈ t.leaves) (view repl (t.eval vm repl w)) := by
  rw [view_eval vm hvm]
  exact treeSpec_evalV hcoh t

/-- **Replicated attributes converge.**  Two replicas that have received the same set of states of an
entry — in any order, any grouping (directly or merged on intermediate replicas), any number of
times — hold the same kind (live / tombstone), the same `at` and, for every replicated attribute,
the same change cid and the same value. -/
theorem replicated_attrs_converge (vm : Nat → Nat → Option Nat) (hvm : ∀ n o, vm n o = none)
    (repl : Nat → Bool) (w : Nat → St)
    (hcoh : ∀ i j, VCoh (view repl (w i)) (view repl (w j)))
    (t₁ t₂ : Tree) (hset : ∀ i, i ∈ t₁.leaves ↔ i ∈ t₂.leaves) :
    view repl (t₁.eval vm repl w) = view repl (t₂.eval vm repl w) := by
  have h1 := merge_is_resolve vm hvm repl w hcoh t₁
  have h2 := merge_is_resolve vm hvm repl w hcoh t₂
  exact treeSpec_unique hcoh (treeSpec_congr hset h1) h2

/-- non-vacuity: three writers, one of them deletes; two different schedules -/
example :
    let w : Nat → St := fun i =>
      if i = 0 then .live ⟨⟨1, 1⟩, [(0, ⟨1, 1⟩), (1, ⟨1, 1⟩)], [(0, 10), (1, 11)]⟩
      else if i = 1 then .live ⟨⟨1, 1⟩, [(0, ⟨1, 1⟩), (1, ⟨4, 2⟩)], [(0, 10)]⟩
      else .live ⟨⟨1, 1⟩, [(0, ⟨3, 3⟩), (1, ⟨1, 1⟩)], [(0, 12), (1, 11)]⟩
    (Tree.node (.leaf 2) (.node (.leaf 1) (.leaf 0))).eval (fun _ _ => none) (fun _ => true) w
      = .live ⟨⟨1, 1⟩, [(0, ⟨3, 3⟩), (1, ⟨4, 2⟩)], [(0, 12)]⟩
    ∧ (Tree.node (.node (.leaf 0) (.leaf 2)) (.node (.leaf 1) (.leaf 2))).eval (fun _ _ => none) (fun _ => true) w
      = .live ⟨⟨1, 1⟩, [(0, ⟨3, 3⟩), (1, ⟨4, 2⟩)], [(0, 12)]⟩ := by
  decide

/-! ## The coherence hypothesis follows from how states come into being -/

/-- A global write log: `(attribute, cid) ↦ value` is a function. -/
def LogFunctional (log : List (Nat × Cid × Option Nat)) : Prop :=
  ∀ a c v v', (a, c, v) ∈ log → (a, c, v') ∈ log → v = v'

/-- Every replicated cell of the entry is a logged write. -/
def Logged (repl : Nat → Bool) (log : List (Nat × Cid × Option Nat)) (e : Live) : Prop :=
  ∀ a c v, rcell repl e a = some (c, v) → (a, c, v) ∈ log

/-- States whose cells all come from one functional log agree wherever they carry the same cid
(H_cid_unique). -/
theorem agree_of_logged (repl : Nat → Bool) (log : List (Nat × Cid × Option Nat))
    (hf : LogFunctional log) (e₁ e₂ : Live) (h₁ : Logged repl log e₁) (h₂ : Logged repl log e₂) (a : Nat) :
    Agree (rcell repl e₁ a) (rcell repl e₂ a) := by
  intro c v v' hx hy
  exact hf a c v v' (h₁ a c v hx) (h₂ a c v' hy)

/-- A merge never invents a cell: the invariant is preserved by replication. -/
theorem logged_merge (vm : Nat → Nat → Option Nat) (hvm : ∀ n o, vm n o = none) (repl : Nat → Bool)
    (log : List (Nat × Cid × Option Nat)) (L R : Live) (hL : Logged repl log L) (hR : Logged repl log R) :
    Logged repl log (mergeLive vm repl L R) := by
  intro a c v h
  rw [rcell_mergeLive vm hvm] at h
  cases hl : rcell repl L a with
  | none =>
    rw [hl] at h
    cases hr : rcell repl R a with
    | none => rw [hr] at h; simp [lww] at h
    | some y => rw [hr] at h; simp only [lww] at h; exact hR a c v (by rw [hr]; exact h)
  | some x =>
    obtain ⟨cx, vx⟩ := x
    rw [hl] at h
    cases hr : rcell repl R a with
    | none => rw [hr] at h; simp only [lww] at h; exact hL a c v (by rw [hl]; exact h)
    | some y =>
      obtain ⟨cy, vy⟩ := y
      rw [hr] at h
      simp only [lww] at h
      by_cases hlt : cidLt cy cx = true
      · simp only [hlt, if_true] at h; exact hL a c v (by rw [hl]; exact h)
      · simp only [hlt] at h; exact hR a c v (by rw [hr]; exact h)

/-- A local write under a transaction cid that the log has never seen keeps the log functional
(transaction cids are unique per server by C07 and carry the server uuid). -/
theorem log_extend_functional (log : List (Nat × Cid × Option Nat)) (hf : LogFunctional log)
    (txn : Cid) (hfresh : ∀ a v, (a, txn, v) ∉ log)
    (ws : List (Nat × Option Nat)) (hws : ∀ a v v', (a, v) ∈ ws → (a, v') ∈ ws → v = v') :
    LogFunctional (ws.map (fun w => (w.1, txn, w.2)) ++ log) := by
  intro a c v v' h1 h2
  simp only [List.mem_append, List.mem_map] at h1 h2
  rcases h1 with ⟨w1, hw1, e1⟩ | h1 <;> rcases h2 with ⟨w2, hw2, e2⟩ | h2
  · simp only [Prod.mk.injEq] at e1 e2
    obtain ⟨ea1, ec1, ev1⟩ := e1
    obtain ⟨ea2, _, ev2⟩ := e2
    subst ev1 ev2
    exact hws a w1.2 w2.2 (by rw [← ea1]; exact hw1) (by rw [← ea2]; exact hw2)
  · simp only [Prod.mk.injEq] at e1
    obtain ⟨_, ec1, _⟩ := e1
    subst ec1
    exact absurd h2 (hfresh a v')
  · simp only [Prod.mk.injEq] at e2
    obtain ⟨_, ec2, _⟩ := e2
    subst ec2
    exact absurd h1 (hfresh a v)
  · exact hf a c v v' h1 h2

/-! ## The range filter sends enough -/

/-- Applying the range-restricted delta equals applying the supplier's whole state, provided every
attribute state that is *not* sent is already dominated on the consumer (the promise of the update
vector: the consumer has seen that origin up to `ts_min`). -/
theorem delta_sufficient (vm : Nat → Nat → Option Nat) (hvm : ∀ n o, vm n o = none) (repl : Nat → Bool)
    (rg : Ranges) (S K : Live) (hd : Dominated repl rg S K) :
    view repl (mergeState vm repl (delta repl rg (.live S)) (.live K))
      = view repl (mergeState vm repl (.live S) (.live K)) := by
  rw [view_mergeState vm hvm, view_mergeState vm hvm]
  simp only [delta, view, vmerge]
  congr 1
  funext a
  rw [rcell_delta]
  by_cases hk : keySent repl rg S a = true
  · simp [hk]
  · simp only [hk]
    cases hs : rcell repl S a with
    | none => rfl
    | some cv =>
      obtain ⟨c, v⟩ := cv
      have hns : sent repl rg a c = false := by
        rw [← keySent_eq_sent hs]; simpa using hk
      obtain ⟨c', v', hK, hle, hv⟩ := hd a c v hs hns
      rw [hK]
      simp only [Bool.false_eq_true, if_false, lww, hle]

/-- The hypothesis of `delta_sufficient` is what fails for a conflict copy (D17b): the copy is a new
uuid, so the consumer holds nothing for it, yet it inherits the losing entry's old change cids, which
lie below the consumer's `ts_min` for that origin — those attributes are never sent. -/
theorem conflict_copy_delta_loses_attrs :
    let repl : Nat → Bool := fun _ => true
    -- the losing entry on its origin (server 2): created at ts 2, name (attr 1) written at ts 2
    let loser : Live := ⟨⟨2, 2⟩, [(0, ⟨2, 2⟩), (1, ⟨2, 2⟩)], [(0, 100), (1, 101)]⟩
    -- the copy made at ts 5: class (0), uuid (8), source_uuid (9) restamped
    let copy := conflictCopy ⟨9, 8, 0⟩ (200, 201, 202) ⟨5, 2⟩ loser
    -- the other replica has seen server 2 up to ts 2 and asks for (2, 5]
    let rg : Ranges := [(2, (2, 5))]
    -- it has never seen the copy's uuid: the database side is the stub (`at`, no changes)
    let stub : Live := ⟨copy.crAt, [], []⟩
    rcell repl copy 1 = some (⟨2, 2⟩, some 101)
      ∧ (match mergeState (fun _ _ => none) repl (delta repl rg (.live copy)) (.live stub) with
         | .live d => (rcell repl d 1, rcell repl d 9)
         | .tomb _ => (none, none)) = (none, some (⟨5, 2⟩, some 202)) := by
  decide

/-! ## The same uuid created twice -/

/-- Both replicas keep the earlier creation, whichever of them is the consumer; the later creation is
replaced wholesale. -/
theorem conflict_deterministic (vm : Nat → Nat → Option Nat) (repl : Nat → Bool) (tx ty : Cid)
    (X Y : Live) (h : cidLt X.crAt Y.crAt = true) :
    isAddConflict (.live X) (.live Y) = true ∧ isAddConflict (.live Y) (.live X) = true
      ∧ applyEntry vm repl tx (.live X) (.live Y) = sealSt repl (.live X)
      ∧ applyEntry vm repl ty (.live Y) (.live X) = sealSt repl (.live X) := by
  have h' := cidLt_asymm h
  simp [applyEntry, isAddConflict, addConflictWhen, resolveAdd, incomingLoses, h, h']

/-- Sealing does not touch the replicated stratum. -/
theorem view_sealSt (repl : Nat → Bool) (s : St) : view repl (sealSt repl s) = view repl s := by
  cases s with
  | tomb a => rfl
  | live e =>
    simp only [sealSt, view]
    congr 1
    funext a
    unfold rcell
    rw [lookup_filter_key]
    by_cases h : repl a = true <;> simp [h]

/-- Same creation ⇒ no conflict, the attribute merge runs. -/
theorem no_conflict_same_creation (vm : Nat → Nat → Option Nat) (repl : Nat → Bool) (tx : Cid)
    (X Y : Live) (h : X.crAt = Y.crAt) :
    applyEntry vm repl tx (.live X) (.live Y) = sealSt repl (mergeState vm repl (.live X) (.live Y)) := by
  simp [applyEntry, isAddConflict, addConflictWhen, h, cidLt_irrefl]

/-- Exactly one conflict copy system-wide: it is written where the losing creation is replaced, and
only if that replica is the loser's origin; where the later creation arrives second nothing is written. -/
theorem conflict_copy_only_at_origin (txn : Cid) (X Y : Live) (h : cidLt X.crAt Y.crAt = true) :
    (resolveAdd txn X Y).1 = decide (Y.crAt.sUuid = txn.sUuid) ∧ (resolveAdd txn Y X).1 = false := by
  have h' := cidLt_asymm h
  simp [resolveAdd, incomingLoses, h, h', copyOnlyAtOrigin]

example :
    (resolveAdd ⟨9, 2⟩ ⟨⟨1, 1⟩, [(0, ⟨1, 1⟩)], [(0, 5)]⟩ ⟨⟨2, 2⟩, [(0, ⟨2, 2⟩)], [(0, 6)]⟩).1 = true
      ∧ (resolveAdd ⟨9, 3⟩ ⟨⟨1, 1⟩, [(0, ⟨1, 1⟩)], [(0, 5)]⟩ ⟨⟨2, 2⟩, [(0, ⟨2, 2⟩)], [(0, 6)]⟩).1 = false := by
  decide

/-- **Convergence with uuid clashes.**  The same statement for the consumer's whole per-entry step
(`applyEntry`: conflict test, then `resolve_add_conflict` or `merge_state`, then `seal`), with the same
uuid created on several replicas: two replicas that have received the same set of states hold the same
view, namely (`clash_is_resolve`) the tombstone with the earliest `at` if any state is a tombstone, else
the *earliest creation*, whose every replicated attribute carries the greatest change cid delivered
among the states of that creation.  Coherence is only needed within one creation. -/
theorem replicated_attrs_converge_with_clashes (vm : Nat → Nat → Option Nat) (hvm : ∀ n o, vm n o = none)
    (repl : Nat → Bool) (txn₁ txn₂ : Cid) (w : Nat → St)
    (hcoh : ∀ i j, VCohA (view repl (w i)) (view repl (w j)))
    (t₁ t₂ : Tree) (hset : ∀ i, i ∈ t₁.leaves ↔ i ∈ t₂.leaves) :
    view repl (t₁.evalA vm repl txn₁ w) = view repl (t₂.evalA vm repl txn₂ w) := by
  rw [view_evalA vm hvm, view_evalA vm hvm]
  exact treeSpecA_unique hcoh (treeSpecA_congr hset (treeSpecA_evalVA hcoh t₁)) (treeSpecA_evalVA hcoh t₂)

theorem clash_is_resolve (vm : Nat → Nat → Option Nat) (hvm : ∀ n o, vm n o = none) (repl : Nat → Bool)
    (txn : Cid) (w : Nat → St) (hcoh : ∀ i j, VCohA (view repl (w i)) (view repl (w j))) (t : Tree) :
    TreeSpecA (fun i => view repl (w i)) (fun i => i ∈ t.leaves) (view repl (t.evalA vm repl txn w)) := by
  rw [view_evalA vm hvm]
  exact treeSpecA_evalVA hcoh t

/-- non-vacuity: the uuid created at ts 1 on server 1 and at ts 2 on server 2, each edited afterwards;
whatever the order, the earlier creation with its latest description survives -/
example :
    let w : Nat → St := fun i =>
      if i = 0 then .live ⟨⟨1, 1⟩, [(0, ⟨1, 1⟩), (1, ⟨1, 1⟩)], [(0, 10), (1, 11)]⟩
      else if i = 1 then .live ⟨⟨2, 2⟩, [(0, ⟨2, 2⟩), (1, ⟨9, 2⟩)], [(0, 20), (1, 29)]⟩
      else .live ⟨⟨1, 1⟩, [(0, ⟨1, 1⟩), (1, ⟨5, 1⟩)], [(0, 10), (1, 15)]⟩
    (Tree.node (.leaf 1) (.node (.leaf 2) (.leaf 0))).evalA (fun _ _ => none) (fun _ => true) ⟨20, 1⟩ w
      = .live ⟨⟨1, 1⟩, [(0, ⟨1, 1⟩), (1, ⟨5, 1⟩)], [(0, 10), (1, 15)]⟩
    ∧ (Tree.node (.node (.leaf 0) (.leaf 1)) (.leaf 2)).evalA (fun _ _ => none) (fun _ => true) ⟨20, 2⟩ w
      = .live ⟨⟨1, 1⟩, [(0, ⟨1, 1⟩), (1, ⟨5, 1⟩)], [(0, 10), (1, 15)]⟩ := by
  decide

/-! ## The generated operators and sides are the ones the property needs -/

/-- Every regenerated comparison and side is the specified one: the later cid is taken from the left
only if strictly later; of two tombstones the strictly earlier left one is kept; a tombstone arm keeps
the tombstone's change state; a uuid clash is any difference of the creation cids and the later
creation loses; the copy is made on the loser's origin only; an attribute state travels iff it is
replicated and its timestamp lies in `(ts_min, ts_max]` of a requested origin. -/
theorem generated_ops_are_spec :
    (∀ l r : Cid, takeLeft cidLt l r = cidLt r l)
    ∧ (∀ a b : Cid, tombTombPickLeft cidLt a b = cidLt a b)
    ∧ tombLiveKeeps = .left ∧ liveTombKeeps = .right ∧ liveAtFrom = .left ∧ retainReplicated = true
    ∧ leftOnlyArm = ⟨.left, .left⟩ ∧ rightOnlyArm = ⟨.right, .right⟩
    ∧ (∀ a b : Cid, addConflictWhen cidLt a b = true ↔ a ≠ b)
    ∧ (∀ a b : Cid, incomingLoses cidLt a b = cidLt b a)
    ∧ copyOnlyAtOrigin = true
    ∧ (∀ ts lo hi : Nat, withinRange ts lo hi = true ↔ (lo < ts ∧ ts ≤ hi))
    ∧ rangeAbsentDefault = false ∧ rangeRequiresReplicated = true := by
  refine ⟨fun _ _ => rfl, fun _ _ => rfl, rfl, rfl, rfl, rfl, rfl, rfl, ?_, fun _ _ => rfl, rfl, ?_, rfl, rfl⟩
  · intro a b
    simp only [addConflictWhen, Bool.or_eq_true]
    constructor
    · rintro (h | h) e
      · subst e; rw [cidLt_irrefl] at h; cases h
      · subst e; rw [cidLt_irrefl] at h; cases h
    · intro hne
      cases h1 : cidLt a b
      · cases h2 : cidLt b a
        · exact absurd (cidLt_connex h1 h2) hne
        · exact Or.inr rfl
      · exact Or.inl rfl
  · intro ts lo hi
    simp only [withinRange, Bool.and_eq_true, decide_eq_true_eq]
    omega

/-- The value arms, as a function of (left value present, right value present, `take_left`): the side
that is later supplies cid and value; `repl_merge_valueset` is consulted only when both have a value,
with the later side as `self`. -/
theorem generated_arms_are_spec (ls rs tl : Bool) :
    pickArm ls rs tl bothArms = some
      (if tl then ⟨.left, if ls then (if rs then .mergeLeftNewer else .left) else .none⟩
       else ⟨.right, if rs then (if ls then .mergeRightNewer else .right) else .none⟩) := by
  cases ls <;> cases rs <;> cases tl <;> decide

/-- What travels: exactly the replicated attribute states whose change cid lies in the requested
window of its origin. -/
theorem sent_iff (repl : Nat → Bool) (rg : Ranges) (a : Nat) (c : Cid) :
    sent repl rg a c = true ↔
      (repl a = true ∧ ∃ lo hi, lookup rg c.sUuid = some (lo, hi) ∧ lo < c.ts ∧ c.ts ≤ hi) := by
  have hw := generated_ops_are_spec.2.2.2.2.2.2.2.2.2.2.2.1
  simp only [sent, rangeRequiresReplicated, rangeAbsentDefault, if_true, Bool.and_eq_true]
  constructor
  · rintro ⟨hr, h⟩
    refine ⟨hr, ?_⟩
    cases hl : lookup rg c.sUuid with
    | none => rw [hl] at h; cases h
    | some p =>
      obtain ⟨lo, hi⟩ := p
      rw [hl] at h
      exact ⟨lo, hi, rfl, (hw _ _ _).1 h⟩
  · rintro ⟨hr, lo, hi, hl, hlo, hhi⟩
    refine ⟨hr, ?_⟩
    rw [hl]
    exact (hw _ _ _).2 ⟨hlo, hhi⟩

/-! ## The full statement is false of the code (D17) -/

open Kanidm.ReplSystem in
/-- The property as given: after every replica has received every other replica's changes, all
replicas hold identical entries — all uuids, conflict entries included, all attributes. -/
def converge_full : Prop :=
  ∀ (ops : List Op), sameOnAll (run (ops ++ fullMesh ++ fullMesh ++ fullMesh) boot2) = true

open Kanidm.ReplSystem in
/-- D17b: the same uuid created on two replicas, the later creation's origin learns of the earlier one
after the other replica has already seen its creation: the conflict copy arrives on the other replica
without the attributes that kept their old change cids. -/
theorem converge_full_false : ¬ converge_full := by
  intro h
  have := h d17bWitness
  revert this
  decide

end Kanidm.ReplMerge
