import KanidmProofs.Lemmas.Actors
/-!
# C47 — stopping a supervisor stops everything under it

Theorems over `Kanidm.Actors` (model of `libs/actors/src/lib.rs`; statement orders and select
arms regenerated from the source into `Kanidm.Gen.Actors`).  `Reach σ` quantifies over every
tree (built dynamically by `spawnSup`/`spawnActor`, any depth and width) and every interleaving
of task steps and environment events.
-/
namespace Kanidm.Actors
open Kanidm.Gen.Actors

/-- **Safety.** Once `Supervisor::stop` (or `Runtime::exec`) has returned for supervisor `s`, every
task registered under it — transitively, while the registering supervisor's task was running —
has completed, and every such actor completed only after its `cleanup` ran. -/
theorem stop_returned_implies_all_done {σ : State} (h : Reach σ) {s d : Nat} {sn : Node}
    (hs : σ.nodes s = some sn) (hk : sn.kind = .sup) (hr : sn.returned = true)
    (hd : Registered σ s d) :
    ∃ dn, σ.nodes d = some dn ∧ dn.done = true ∧ (dn.kind = .actor → dn.cleaned = true) := by
  have inv := h.inv
  induction hd with
  | refl =>
    refine ⟨sn, hs, ?_, fun e => by rw [hk] at e; cases e⟩
    obtain ⟨_, hl, _⟩ := inv.loc s sn hs
    rw [Node.done_iff]; exact (hl hk).2 hr
  | @child d p dn hdn hp ho _ ih =>
    obtain ⟨pn, hpn, hpd, _⟩ := ih
    have hdd := inv.doneKids d dn p pn hdn hp hpn hpd ho
    refine ⟨dn, hdn, hdd, fun e => ?_⟩
    obtain ⟨_, _, hl⟩ := inv.loc d dn hdn
    rw [Node.done_iff] at hdd
    exact (hl e).1.mpr hdd

example : ∃ σ s d sn, Reach σ ∧ σ.nodes s = some sn ∧ sn.kind = .sup ∧ sn.returned = true ∧
    Registered σ s d ∧ d ≠ s := by
  -- primary 0, subordinate 1, actor 2 under 1; stop 1
  have hr : run init [.spawnSup none, .spawnSup (some 0), .spawnActor 1, .setupDone 2, .ready 2,
      .stopReq 1, .supStep 1, .supStep 1, .stepDone 2, .seeStop 2, .cleanupDone 2, .supStep 1,
      .stopReturn 1] = some _ := rfl
  refine ⟨_, 1, 2, _, reach_run Reach.init hr, rfl, rfl, rfl, ?_, by decide⟩
  exact Registered.child (p := 1) rfl rfl rfl Registered.refl

/-- The same for every descendant, when nothing was registered on a supervisor that had already
broadcast its stop (no late spawn): the tree-level statement of the property. -/
theorem stop_returned_all_descendants_done {σ : State} (h : Reach σ)
    (hno : ∀ i n, σ.nodes i = some n → n.orphan = false) {s d : Nat} {sn : Node}
    (hs : σ.nodes s = some sn) (hk : sn.kind = .sup) (hr : sn.returned = true)
    (hd : Desc σ s d) :
    ∃ dn, σ.nodes d = some dn ∧ dn.done = true ∧ (dn.kind = .actor → dn.cleaned = true) := by
  apply stop_returned_implies_all_done h hs hk hr
  induction hd with
  | refl => exact Registered.refl
  | child hdn hp _ ih => exact Registered.child hdn hp (hno _ _ hdn) ih

/-- It stays that way: in every later state of every continuation the stop is still returned and
the registered tasks are still completed (so they handle nothing further). -/
theorem stop_returned_stable {σ σ' : State} (h : Reach σ) {es : List Ev}
    (hrun : run σ es = some σ') {s d : Nat} {sn : Node}
    (hs : σ.nodes s = some sn) (hk : sn.kind = .sup) (hr : sn.returned = true)
    (hd : Registered σ s d) :
    ∃ dn, σ'.nodes d = some dn ∧ dn.done = true ∧ (dn.kind = .actor → dn.cleaned = true) ∧
      ∀ e ∈ [Ev.setupDone d, .ready d, .stepDone d, .selfStop d, .seeStop d, .cleanupDone d,
        .supStep d], step σ' e = none := by
  obtain ⟨dn, hdn, hdd, hdc⟩ := stop_returned_implies_all_done h hs hk hr hd
  obtain ⟨dn', hdn', hm⟩ := run_mono h hrun hdn
  obtain ⟨m1, _, _, _, m5, _, _, m8⟩ := hm
  have hdd' : dn'.done = true := by rw [Node.done_iff] at *; omega
  refine ⟨dn', hdn', hdd', fun e => m8 (hdc (by rw [← m1]; exact e)), ?_⟩
  have hop : ∀ k, dn'.op ≠ some k := by
    intro k hk; rw [Node.op_iff] at hk; rw [Node.done_iff] at hdd'; omega
  intro e he
  simp only [List.mem_cons, List.mem_nil_iff, or_false] at he
  rcases he with rfl | rfl | rfl | rfl | rfl | rfl | rfl <;>
    simp [step, actorStep, Kanidm.Actors.supStep, hdn', hop] <;>
    cases dn'.kind <;> simp

/-- A completed actor has run its cleanup. -/
theorem exit_implies_cleanup_ran {σ : State} (h : Reach σ) {a : Nat} {n : Node}
    (ha : σ.nodes a = some n) (hk : n.kind = .actor) (hd : n.done = true) : n.cleaned = true := by
  obtain ⟨_, _, hl⟩ := h.inv.loc a n ha
  rw [Node.done_iff] at hd
  exact (hl hk).1.mpr hd

/-- After an actor observed the stop, it handles no further message, in any continuation. -/
theorem no_message_after_stop_observed {σ σ1 σ2 : State} (h : Reach σ) {a : Nat} {es : List Ev}
    (h1 : step σ (.seeStop a) = some σ1) (h2 : run σ1 es = some σ2) :
    step σ2 (.ready a) = none := by
  have r1 : Reach σ1 := Reach.step _ h h1
  have r2 : Reach σ2 := reach_run r1 h2
  simp only [step] at h1
  obtain ⟨n, n', hn, hk, hf, rfl⟩ := actorStep_spec h1
  split at hf
  · injection hf with hf; subst hf
    obtain ⟨m, hm, hmono⟩ := run_mono r1 h2 (j := a)
      (m := { n with pc := n.pc + 1, sawStop := true }) (by simp [State.set])
    obtain ⟨m1, _, _, _, _, m6, _, _⟩ := hmono
    have hsaw : m.sawStop = true := m6 rfl
    obtain ⟨_, _, hl⟩ := r2.inv.loc a m hm
    have hka : m.kind = .actor := by rw [m1]; exact hk
    have := (hl hka).2.1 hsaw
    have hop : m.op ≠ some 1 := by
      intro e; rw [Node.op_iff] at e; omega
    simp [step, actorStep, hm, hka, hop]
  · cases hf

/-- A receiver created after the broadcast is not lost for ever: it observes the stop as soon as
the sender side is gone (parent task completed and the `Supervisor` handle dropped). -/
theorem no_lost_stop {σ : State} {a : Nat} {n : Node}
    (ha : σ.nodes a = some n) (hk : n.kind = .actor) (hl : n.pc = 1) (hi : n.inStep = false)
    (hc : σ.parentClosed n = true) : (step σ (.seeStop a)).isSome = true := by
  have hop : n.op = some 1 := by rw [Node.op_iff]; omega
  simp [step, actorStep, ha, hk, hop, hi, hc, actParentRecvBreaks]

/-- Every way of asking a supervisor task to stop is heard by its select loop: `Supervisor::stop`'s
mailbox message, the parent's broadcast, and the parent side going away. -/
theorem stop_request_is_heard (σ : State) (n : Node)
    (h : n.stopReq = true ∨ n.pending = true ∨ σ.parentClosed n = true) :
    σ.canBreak n = true := by
  rcases h with h | h | h <;>
    simp [State.canBreak, h, supParentRecvBreaks, supMboxStopBreaks]

/-- An actor that is between two messages observes a waiting stop: the step that takes it to its
cleanup is enabled (and `run` is not entered again, see `no_message_after_stop_observed`). -/
theorem pending_stop_is_observable {σ : State} {a : Nat} {n : Node}
    (ha : σ.nodes a = some n) (hk : n.kind = .actor) (hl : n.pc = 1) (hi : n.inStep = false)
    (hp : n.pending = true) : (step σ (.seeStop a)).isSome = true := by
  have hop : n.op = some 1 := by rw [Node.op_iff]; omega
  simp [step, actorStep, ha, hk, hop, hi, hp, actParentRecvBreaks]

/-- `Runtime::exec` leaves its loop on Terminate and Interrupt only. -/
theorem exec_leaves_loop_on_terminate_and_interrupt :
    execSignalBreaks = [true, true, false, false, false, false] := by decide

/-- **No deadlock while stopping** (the safety half of liveness).  As long as nothing was registered
on a supervisor after its broadcast, a supervisor that can leave its loop, or has left it, and has
not completed always has a task below it (or itself) whose next step is enabled: with every actor
step terminating and a fair scheduler the stop therefore completes.  Fairness and termination of
the actor callbacks are the trusted part. -/
theorem stopping_makes_progress {σ : State} (h : Reach σ)
    (hno : ∀ i n, σ.nodes i = some n → n.late = false) {s : Nat} {sn : Node}
    (hs : σ.nodes s = some sn) (hk : sn.kind = .sup)
    (hb : σ.canBreak sn = true ∨ 1 ≤ sn.pc) (hnd : sn.done = false) :
    ∃ d, Desc σ s d ∧ Enabled σ d :=
  stopping_progress_aux h.inv hno (σ.size - s) s sn (Nat.le_refl _) hs hk hb hnd

example : ∃ σ s sn, Reach σ ∧ (∀ i n, σ.nodes i = some n → n.late = false) ∧
    σ.nodes s = some sn ∧ sn.kind = .sup ∧ 1 ≤ sn.pc ∧ sn.done = false := by
  have hr : run init [.spawnSup none, .spawnSup (some 0), .spawnActor 1, .stopReq 1, .supStep 1]
      = some _ := rfl
  refine ⟨_, 1, _, reach_run Reach.init hr, ?_, rfl, rfl, by decide, rfl⟩
  intro i n hi
  have h3 : i < 3 := (reach_run Reach.init hr).inv.lt_size hi
  match i, h3 with
  | 0, _ => injection hi with hi; subst hi; rfl
  | 1, _ => injection hi with hi; subst hi; rfl
  | 2, _ => injection hi with hi; subst hi; rfl

/-- The statement for *all* descendants, including tasks registered on a subordinate handle
after that subordinate's task has completed. -/
def stop_full : Prop :=
  ∀ σ, Reach σ → ∀ s d sn, σ.nodes s = some sn → sn.kind = .sup → sn.returned = true →
    Desc σ s d → ∃ dn, σ.nodes d = some dn ∧ dn.done = true

/-- It is false of the code: `Supervisor::spawn` on a subordinate whose task already stopped
(primary 0, supervisor 1, subordinate 2 of 1; stop 1; 2 completes; spawn actor 3 on handle 2;
1 completes, `stop` returns; actor 3 is alive). -/
theorem stop_full_false : ¬ stop_full := by
  intro hf
  have hr : run init [.spawnSup none, .spawnSup (some 0), .spawnSup (some 1), .stopReq 1,
      .supStep 1, .supStep 1, .supStep 2, .supStep 2, .supStep 2, .spawnActor 2, .supStep 1,
      .stopReturn 1] = some _ := rfl
  obtain ⟨dn, hdn, hdd⟩ := hf _ (reach_run Reach.init hr) 1 3 _ rfl rfl rfl
    (Desc.child (p := 2) rfl rfl (Desc.child (p := 1) rfl rfl Desc.refl))
  injection hdn with hdn
  subst hdn
  simp [Node.done, Node.prog, actorRun] at hdd

/-- The progress statement without the no-late-registration premise. -/
def progress_full : Prop :=
  ∀ σ, Reach σ → ∀ s sn, σ.nodes s = some sn → sn.kind = .sup → 1 ≤ sn.pc → sn.done = false →
    ∃ d, Desc σ s d ∧ Enabled σ d

/-- It is false of the code: primary 0, supervisor 1, subordinate 2 of 1 hosting actor 3; stop 1;
3 completes; before task 2 is polled again actor 4 is spawned on handle 2 (`subscribe()` re-opens
the channel, 4 never gets the message): 2 waits for 4, 1 waits for 2, 4 waits for 2 — no task of
the system can move, `stop` never returns. -/
theorem progress_full_false : ¬ progress_full := by
  intro hf
  have hr : run init [.spawnSup none, .spawnSup (some 0), .spawnSup (some 1), .spawnActor 2,
      .setupDone 3, .stopReq 1, .supStep 1, .supStep 1, .supStep 2, .supStep 2, .seeStop 3,
      .cleanupDone 3, .spawnActor 2, .setupDone 4] = some _ := rfl
  have hreach := reach_run Reach.init hr
  obtain ⟨d, _, e, he, hs⟩ := hf _ hreach 1 _ rfl rfl (by decide) rfl
  have hd : d < 5 ∨ 5 ≤ d := by omega
  rcases hd with hd | hd
  · simp only [List.mem_cons, List.mem_nil_iff, or_false] at he
    match d, hd with
    | 0, _ => rcases he with rfl | rfl | rfl | rfl | rfl <;> revert hs <;> decide
    | 1, _ => rcases he with rfl | rfl | rfl | rfl | rfl <;> revert hs <;> decide
    | 2, _ => rcases he with rfl | rfl | rfl | rfl | rfl <;> revert hs <;> decide
    | 3, _ => rcases he with rfl | rfl | rfl | rfl | rfl <;> revert hs <;> decide
    | 4, _ => rcases he with rfl | rfl | rfl | rfl | rfl <;> revert hs <;> decide
  · have hn := hreach.inv.bound d hd
    simp only [List.mem_cons, List.mem_nil_iff, or_false] at he
    rcases he with rfl | rfl | rfl | rfl | rfl <;>
      simp [step, actorStep, Kanidm.Actors.supStep, hn] at hs

end Kanidm.Actors
