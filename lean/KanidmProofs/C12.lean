import KanidmProofs.Lemmas.StoreCodec
/-!
# C12 — Stored and replicated values read back unchanged

All theorems are about the tables `vtranslate storecodec-tables` regenerates from kanidm's
source on every run (`Kanidm.Gen.StoreCodec`) and about the very functions the driver
`km_c12` executes (`Kanidm.StoreCodec`). Re-introducing D2 (`DbPasswordV1::CRYPT_SHA512 ⇒
Kdf::CRYPT_SHA256`) changes `Gen.password.dec` / `Gen.passwordRec.dec` and breaks
`password_variants_roundtrip`, `password_roundtrip_fields`, `password_verify_preserved`;
re-introducing D20 (`DbValueSetV2::JwsKeyRs256 ⇒ ValueSetJwsKeyEs256::from_dbvs2`) changes
`Gen.valuesetDispatch.dec` and breaks `valueset_dispatch_roundtrip` and everything below it.
-/
namespace Kanidm.StoreCodec
open Kanidm.Gen.StoreCodec

/-! ## The generated tables pass the decidable checks -/

theorem gen_pairs_ok : pairs.all TagPair.ok = true := by decide
theorem gen_dispatch_ok : valuesetDispatch.ok = true := by decide
theorem gen_serde_ok : (valuesetDispatch :: pairs).all TagPair.serdeOk = true := by decide +kernel
theorem gen_passwordRec_ok : passwordRec.ok = true := by decide
theorem gen_intentRec_ok : intentTokenStateRec.ok = true := by decide

/-! ## Enum-coded fields -/

/-- Every variant of every enum-coded field (password Kdf, credential type, TOTP algorithm,
session state / issuer / scope / auth type / ext metadata, OAuth2-session state, API-token
issuer / scope, intent-token state, key usage / status, claim-map join, entry change state,
replication state, and the session record versions written) is stored as a variant that loads
back as the same variant. -/
theorem tag_tables_roundtrip :
    ∀ p ∈ pairs, ∀ a, a < p.nMem → p.roundtrip a = some a := by
  intro p hp a ha
  exact TagPair.ok_sound ((List.all_eq_true.mp gen_pairs_ok) p hp) ha

/-- D2 regression: every `Kdf` variant reloads as itself. -/
theorem password_variants_roundtrip :
    ∀ a, a < password.nMem → password.roundtrip a = some a := by
  intro a ha
  exact tag_tables_roundtrip password (by simp [pairs]) a ha

example : password.nMem = 15 ∧ password.roundtrip 14 = some 14 := by decide

/-- D20 regression: the stored constructor every `ValueSetX::to_db_valueset_v2` builds is
dispatched by `from_db_valueset_v2` to `ValueSetX::from_dbvs2` — the same struct. -/
theorem valueset_dispatch_roundtrip :
    ∀ s, s < valuesetDispatch.nMem → valuesetDispatch.roundtrip s = some s := by
  intro s hs
  exact TagPair.ok_sound gen_dispatch_ok hs

example : valuesetDispatch.nMem = 49 ∧ valuesetDispatch.roundtrip 25 = some 25 := by decide

/-- …hence `syntax()` is the same before and after. -/
theorem valueset_syntax_preserved (s : Nat) (hs : s < valuesetDispatch.nMem) :
    (valuesetDispatch.roundtrip s).bind (structSyntax[·]?) = structSyntax[s]? := by
  rw [valueset_dispatch_roundtrip s hs]; rfl

/-- No two stored constructors of an enum share a serde (JSON) name, so the decoder sees the
constructor the encoder wrote. -/
theorem serde_names_distinct :
    ∀ p ∈ valuesetDispatch :: pairs, ∀ i j, i < p.nDb → j < p.nDb → i ≠ j →
      p.dbSerdeIds[i]? ≠ p.dbSerdeIds[j]? := by
  intro p hp i j hi hj hne
  exact TagPair.serdeOk_sound ((List.all_eq_true.mp gen_serde_ok) p hp) hi hj hne

/-! ## Passwords: variant *and* parameters, and behaviour -/

/-- A password of any `Kdf` variant with any parameter values, stored with
`to_dbpasswordv1` and reloaded with `TryFrom<DbPasswordV1>`, is the identical `Kdf` value:
same variant, every field in its own slot. -/
theorem password_roundtrip_fields :
    ∀ v, passwordRec.wf v → passwordRec.roundtrip v = some v :=
  fun v hv => RecPair.roundtrip_of_ok gen_passwordRec_ok v hv

/-- non-vacuity: a PBKDF2 value (variant 2: cost, salt, hash) and an ARGON2ID value -/
example : passwordRec.wf ⟨2, [10000, 77, 99]⟩ ∧
    passwordRec.roundtrip ⟨2, [10000, 77, 99]⟩ = some ⟨2, [10000, 77, 99]⟩ := by decide
example : passwordRec.wf ⟨1, [4096, 3, 1, 19, 500, 600]⟩ ∧
    passwordRec.encode ⟨1, [4096, 3, 1, 19, 500, 600]⟩ = some ⟨1, [4096, 3, 1, 19, 500, 600]⟩ := by
  decide

/-- "Identical behaviour": whatever the hash primitives are, the reloaded password accepts
exactly the cleartexts the original accepted. -/
theorem password_verify_preserved (prim : Nat → List Nat → Nat → Bool) (v : RVal)
    (hv : passwordRec.wf v) (cleartext : Nat) :
    (passwordRec.roundtrip v).map (verify prim · cleartext) = some (verify prim v cleartext) := by
  rw [password_roundtrip_fields v hv]; rfl

/-- Sensitivity (D2 as it was): with the decoder arm of `CRYPT_SHA512` (14) yielding
`CRYPT_SHA256` (13) the check fails, and there are primitives and a cleartext for which the
reloaded password behaves differently. -/
def d2Dec : List (Nat × Option Nat) :=
  password.dec.map fun (d, a) => if d = 14 then (d, some 13) else (d, a)
example : ({ password with dec := d2Dec } : TagPair).ok = false := by decide
def d2Rec : RecPair :=
  { passwordRec with dec := passwordRec.dec.map fun a => if a.src = 14 then { a with dst := 13 } else a }
example : d2Rec.ok = false := by decide
example : ∃ prim v c, d2Rec.wf v ∧
    (d2Rec.roundtrip v).map (verify prim · c) ≠ some (verify prim v c) :=
  ⟨fun tag _ _ => tag == 14, ⟨14, [7]⟩, 0, by decide, by decide⟩

/-- Intent-token states (with their permission flags) also read back field by field. -/
theorem intent_token_roundtrip_fields :
    ∀ v, intentTokenStateRec.wf v → intentTokenStateRec.roundtrip v = some v :=
  fun v hv => RecPair.roundtrip_of_ok gen_intentRec_ok v hv

example : intentTokenStateRec.wf ⟨1, [3600, 11, 22, 1, 0, 1, 0, 1, 0]⟩ ∧
    intentTokenStateRec.roundtrip ⟨1, [3600, 11, 22, 1, 0, 1, 0, 1, 0]⟩ =
      some ⟨1, [3600, 11, 22, 1, 0, 1, 0, 1, 0]⟩ := by decide

/-! ## Timestamps: the one lossy field (known finding D24) -/

/-- A stored-integer time codec reads a time back unchanged exactly when the time is a whole
number of its units. -/
theorem time_codec_roundtrip_iff (c : TimeCodec) (hpos : 0 < c.unitNs) (t : Nat) :
    c.load (c.store t) = t ↔ t % c.unitNs = 0 := by
  unfold TimeCodec.load TimeCodec.store
  constructor
  · intro h
    rw [← h]
    exact Nat.mul_mod_left _ _
  · intro h
    have := Nat.div_add_mod t c.unitNs
    rw [h, Nat.add_zero, Nat.mul_comm] at this
    exact this

/-- The full statement for the queued message's `expiry_time` (nanoseconds since the epoch):
every expiry time reads back unchanged. -/
def message_expiry_roundtrip_full : Prop :=
  ∀ t : Nat, messageExpiryCodec.load (messageExpiryCodec.store t) = t

/-- D24: it is false of the code as it is — `time::serde::timestamp` keeps whole seconds, the
server computes the expiry from a nanosecond clock. Witness: 1.5 s after the epoch reads back
as 1 s (replayed on the real code by the harness, class `message-expiry-subsecond-lost`). -/
theorem message_expiry_roundtrip_full_false : ¬ message_expiry_roundtrip_full := by
  intro h
  have := h 1500000000
  revert this
  decide

/-- What does hold: an expiry that is a whole number of stored units (whole seconds) reads back
unchanged. -/
theorem message_expiry_roundtrip_partial (t : Nat) (h : t % messageExpiryCodec.unitNs = 0) :
    messageExpiryCodec.load (messageExpiryCodec.store t) = t :=
  (time_codec_roundtrip_iff messageExpiryCodec (by decide) t).mpr h

example : messageExpiryCodec.load (messageExpiryCodec.store 1700000000000000000) = 1700000000000000000 := by
  decide

/-! ## Valuesets and whole entries -/

/-- A valueset of any struct (= any syntax) with any elements reads back from its stored form
as the same struct with the same elements. -/
theorem valueset_roundtrip (v : VS) (hk : v.kind < valuesetDispatch.nMem) :
    (toDbVS valuesetDispatch v).bind (fromDbVS valuesetDispatch) = some v :=
  vs_roundtrip gen_dispatch_ok v hk

example : (toDbVS valuesetDispatch ⟨25, [5, 6]⟩).bind (fromDbVS valuesetDispatch) = some ⟨25, [5, 6]⟩ := by
  decide

/-- Sensitivity (D20 as it was): `JwsKeyRs256` (stored constructor 35) dispatched to
`ValueSetJwsKeyEs256` (struct 24) fails the check. -/
def d20Dec : List (Nat × Option Nat) :=
  valuesetDispatch.dec.map fun (d, a) => if d = 35 then (d, some 24) else (d, a)
example : ({ valuesetDispatch with dec := d20Dec } : TagPair).ok = false := by decide

/-- An entry is well-formed when its change state is live or tombstone and every valueset is
one of the structs. -/
def Entry.wf (e : Entry) : Prop :=
  e.cs.tag < changestate.nMem ∧ ∀ kv ∈ e.attrs, kv.2.kind < valuesetDispatch.nMem

/-- `Entry::to_dbentry` then `Entry::from_dbentry`: the change state and every non-empty
valueset read back identically (an empty valueset is dropped — see
`entry_empty_set_dropped`), provided the uuid attribute is still there. -/
theorem entry_storage_roundtrip (single : VS → Option Nat) (uuidKey : Nat) (e : Entry)
    (hwf : e.wf)
    (huuid : ((e.attrs.filter nonEmptyVS).lookup uuidKey).bind single = some e.uuid) :
    (toDbEntry valuesetDispatch changestate e).bind
        (fun d => fromDbEntry valuesetDispatch changestate single uuidKey d e.id)
      = some { e with attrs := e.attrs.filter nonEmptyVS } := by
  obtain ⟨hcs, hattrs⟩ := hwf
  obtain ⟨l', h1, h2⟩ := attrs_roundtrip gen_dispatch_ok e.attrs hattrs
  have hcst : changestate.ok = true := (List.all_eq_true.mp gen_pairs_ok) changestate (by simp [pairs])
  obtain ⟨c, hc, hd⟩ := TagPair.roundtrip_split (TagPair.ok_sound hcst hcs)
  have hfilter : (l'.filter fun kv => !kv.2.elems.isEmpty) = l'.filter nonEmptyDb := rfl
  simp [toDbEntry, fromDbEntry, convCState, hc, hd, h1, hfilter, h2, huuid]

/-- The full statement: every well-formed entry reads back as itself. -/
def entry_storage_roundtrip_full : Prop :=
  ∀ (single : VS → Option Nat) (uuidKey : Nat) (e : Entry), e.wf →
    (e.attrs.lookup uuidKey).bind single = some e.uuid →
    (toDbEntry valuesetDispatch changestate e).bind
        (fun d => fromDbEntry valuesetDispatch changestate single uuidKey d e.id) = some e

/-- The strongest part that holds: an entry without empty valuesets reads back as itself. -/
theorem entry_storage_roundtrip_partial (single : VS → Option Nat) (uuidKey : Nat) (e : Entry)
    (hwf : e.wf) (hne : ∀ kv ∈ e.attrs, kv.2.elems ≠ [])
    (huuid : (e.attrs.lookup uuidKey).bind single = some e.uuid) :
    (toDbEntry valuesetDispatch changestate e).bind
        (fun d => fromDbEntry valuesetDispatch changestate single uuidKey d e.id) = some e := by
  have hf : e.attrs.filter nonEmptyVS = e.attrs := by
    apply List.filter_eq_self.mpr
    intro kv hkv
    have := hne kv hkv
    simp [nonEmptyVS, this]
  have := entry_storage_roundtrip single uuidKey e hwf (by rw [hf]; exact huuid)
  rw [this, hf]

/-- non-vacuity: a live entry with a uuid (attr 0, struct 47 = `ValueSetUuid`), a name and a
JWS RS256 key set -/
def sampleEntry : Entry :=
  ⟨900, 7, ⟨0, 5, [(0, 5), (1, 5), (2, 6)]⟩, [(0, ⟨47, [900]⟩), (1, ⟨18, [41]⟩), (2, ⟨25, [81, 82]⟩)]⟩
def sampleSingle (v : VS) : Option Nat := if v.kind = 47 then v.elems.head? else none
example : (toDbEntry valuesetDispatch changestate sampleEntry).bind
    (fun d => fromDbEntry valuesetDispatch changestate sampleSingle 0 d 7) = some sampleEntry := by
  decide

/-- What the code does with an in-memory *empty* valueset: it is stored, but not loaded
(finding `empty-valueset-dropped`; the harness replays it on a recycled person whose sessions
were purged). -/
theorem entry_empty_set_dropped :
    ∃ e : Entry, e.wf ∧
      (toDbEntry valuesetDispatch changestate e).bind
        (fun d => fromDbEntry valuesetDispatch changestate sampleSingle 0 d e.id) ≠ some e :=
  ⟨⟨900, 7, ⟨0, 5, []⟩, [(0, ⟨47, [900]⟩), (1, ⟨46, []⟩)]⟩, by
    constructor
    · decide
    · intro kv hkv
      simp at hkv
      rcases hkv with h | h <;> subst h <;> decide, by decide⟩

/-- …so the full statement is false of the code as it is. -/
theorem entry_storage_roundtrip_full_false : ¬ entry_storage_roundtrip_full := by
  intro h
  have := h sampleSingle 0 ⟨900, 7, ⟨0, 5, []⟩, [(0, ⟨47, [900]⟩), (1, ⟨46, []⟩)]⟩
    (by
      constructor
      · decide
      · intro kv hkv
        simp at hkv
        rcases hkv with h | h <;> subst h <;> decide)
    (by decide)
  revert this
  decide

/-! ## Replication -/

/-- `ReplEntryV1::new … rehydrate` (`within k _ = is_replicated k`) and
`ReplIncrementalEntryV1::new … rehydrate` (`within k cid` = replicated ∧ cid in the requested
range): the consumer obtains the entry's uuid, its change state restricted to the supplied
attributes, and for each supplied attribute exactly the supplier's valueset (nothing for an
absent or empty one). -/
theorem repl_roundtrip (rst : TagPair) (hrst : rst = replState ∨ rst = replIncrState)
    (within : Nat → Nat → Bool) (e : Entry)
    (hlive : e.cs.tag = 0)
    (hattrs : ∀ kv ∈ e.attrs, kv.2.kind < valuesetDispatch.nMem)
    (hnodup : (e.cs.changes.map (·.1)).Nodup) :
    (replNew valuesetDispatch rst within e).bind (replRehydrate valuesetDispatch rst)
      = some (e.uuid, (replExpected within e).1, (replExpected within e).2) := by
  have hok : rst.ok = true := by
    rcases hrst with h | h <;> subst h
    · exact (List.all_eq_true.mp gen_pairs_ok) replState (by simp [pairs])
    · exact (List.all_eq_true.mp gen_pairs_ok) replIncrState (by simp [pairs])
  have hn : (0 : Nat) < rst.nMem := by rcases hrst with h | h <;> subst h <;> decide
  obtain ⟨c, hc, hd⟩ := TagPair.roundtrip_split (TagPair.ok_sound hok hn)
  have hsend : (fun (x : Nat × Nat) =>
      match x with
      | (k, cid) => if within k cid = true then
          some (k, ({ cid := cid, attr := replValue valuesetDispatch e.attrs k } : ReplAttr)) else none)
      = sendOne valuesetDispatch within e.attrs := by
    funext x; cases x; simp [sendOne]
  have hexp : (fun (x : Nat × Nat) =>
      match x with
      | (k, cid) => if within k cid = true then
          Option.map (fun vs => (k, vs))
            (Option.filter (fun vs => !vs.elems.isEmpty) (List.lookup k e.attrs)) else none)
      = expectOne within e.attrs := by
    funext x; cases x; simp [expectOne]
  have hloop := rehydrate_filterMap gen_dispatch_ok within hattrs e.cs.changes hnodup
  simp only [replNew, hlive, hc, if_true, Option.bind_some, replRehydrate, hd, hsend, hloop,
    replExpected, hexp]

/-- A tombstone replicates as a tombstone with the same cid. -/
theorem repl_tombstone_roundtrip (rst : TagPair) (hrst : rst = replState ∨ rst = replIncrState)
    (within : Nat → Nat → Bool) (e : Entry) (htomb : e.cs.tag = 1) :
    (replNew valuesetDispatch rst within e).bind (replRehydrate valuesetDispatch rst)
      = some (e.uuid, ⟨1, e.cs.atCid, []⟩, []) := by
  have hok : rst.ok = true := by
    rcases hrst with h | h <;> subst h
    · exact (List.all_eq_true.mp gen_pairs_ok) replState (by simp [pairs])
    · exact (List.all_eq_true.mp gen_pairs_ok) replIncrState (by simp [pairs])
  have hn : (1 : Nat) < rst.nMem := by rcases hrst with h | h <;> subst h <;> decide
  obtain ⟨c, hc, hd⟩ := TagPair.roundtrip_split (TagPair.ok_sound hok hn)
  simp [replNew, htomb, hc, replRehydrate, hd]

/-- non-vacuity: attribute 1 is replicated and non-empty, 2 is replicated but empty in memory,
3 is not replicated, 4 is replicated but absent -/
example :
    (replNew valuesetDispatch replState (fun k _ => k != 3)
      ⟨900, 7, ⟨0, 5, [(1, 5), (2, 6), (3, 6), (4, 7)]⟩,
        [(1, ⟨18, [41]⟩), (2, ⟨46, []⟩), (3, ⟨25, [81]⟩)]⟩).bind
      (replRehydrate valuesetDispatch replState)
    = some (900, ⟨0, 5, [(1, 5), (2, 6), (4, 7)]⟩, [(1, ⟨18, [41]⟩)]) := by decide

/-- the numbering the model relies on: variant 0 of the change state is `Live` -/
example : changestate.memNames = ["Live", "Tombstone"] ∧ replState.memNames = ["Live", "Tombstone"]
    ∧ replIncrState.memNames = ["Live", "Tombstone"] := ⟨rfl, rfl, rfl⟩

/-! ## Derived fields: what a struct keeps but its encoder does not write

`equal`, the stored form and the index keys cannot see such a field (`ValueSetOauth2Session.rs_filter`,
the bit-mask pre-filter behind `contains(Refer(rs_uuid))` / `remove(Refer(rs_uuid))`); only the
decoder can get it wrong. `Gen.decodeCtors` is re-read from every `from_dbvs2` on every run. -/

theorem gen_decodeCtors_ok : decodeCtors.all DecodeCtor.ok = true := by decide
theorem gen_decodeCtors_cover :
    (List.range valuesetDispatch.nMem).all (fun s => decodeCtors.any (·.struct == s)) = true := by decide

/-- Every struct of the dispatch has a decoder in the table, and every decoder reached from
`from_db_valueset_v2` either goes through the struct's canonical in-memory constructor or
builds the struct by literals each of which assigns EVERY field of `pub struct ValueSetX { … }`
from a source that follows the stored data on every path: never a constant, and an accumulator
only if it is updated in the loop body itself or in every arm (stored record version) that
yields an element. -/
theorem decoders_rebuild_every_field :
    (∀ s, s < valuesetDispatch.nMem → ∃ c ∈ decodeCtors, c.struct = s) ∧
    ∀ c ∈ decodeCtors, c.via.isSome = true ∨
      (c.literals ≠ [] ∧ ∀ l ∈ c.literals,
        (∀ f ∈ l, f.ok = true) ∧ ∀ i, i < c.nFields → ∃ f ∈ l, f.field = i) := by
  refine ⟨fun s hs => ?_, fun c hc => ?_⟩
  · have h := (List.all_eq_true.mp gen_decodeCtors_cover) s (List.mem_range.mpr hs)
    obtain ⟨c, hc, he⟩ := List.any_eq_true.mp h
    exact ⟨c, hc, by simpa using he⟩
  · have h := (List.all_eq_true.mp gen_decodeCtors_ok) c hc
    unfold DecodeCtor.ok at h
    rcases Bool.or_eq_true_iff.mp h with h | h
    · exact Or.inl h
    · refine Or.inr ?_
      obtain ⟨hne, hall⟩ := Bool.and_eq_true_iff.mp h
      refine ⟨by intro he; simp [he] at hne, fun l hl => ?_⟩
      have hl' := (List.all_eq_true.mp hall) l hl
      unfold literalOk at hl'
      obtain ⟨h1, h2⟩ := Bool.and_eq_true_iff.mp hl'
      refine ⟨fun f hf => (List.all_eq_true.mp h1) f hf, fun i hi => ?_⟩
      have := (List.all_eq_true.mp h2) i (List.mem_range.mpr hi)
      obtain ⟨f, hf, he⟩ := List.any_eq_true.mp this
      exact ⟨f, hf, by simpa using he⟩

/-- The table is not trivially satisfied: `ValueSetOauth2Session::from_dbvs2` builds the struct by
a literal whose second field `rs_filter` is an accumulator updated in the arms of the `match`
over the three stored record versions. -/
example : ∃ c ∈ decodeCtors, c.structName = "ValueSetOauth2Session" ∧ c.via = none ∧
    ∃ l ∈ c.literals, ∃ f ∈ l, f.kind = 1 ∧ f.uniform = 0 ∧ f.arms.length = 3 := by decide

/-- For ALL stored contents: whatever the stored elements are (`(arm, bits)`: which record
version converts the element, which bits it contributes — `rs_uuid.as_u128()`), the mask an
accumulator field of any decoder ends up with admits every element the decoder keeps:
`bits &&& mask = bits`, the test `contains` / `remove` make before they look at the map. A reloaded
value set therefore never answers "not here" for a member because of its pre-filter. -/
theorem decoded_mask_admits_members :
    ∀ c ∈ decodeCtors, ∀ l ∈ c.literals, ∀ f ∈ l, f.kind = 1 →
      ∀ (els : List (Nat × Nat)), ∀ e ∈ f.kept els, maskAdmits (f.accumulate els) e.2 = true := by
  intro c hc l hl f hf hk els e he
  have hfok : f.ok = true := by
    rcases (decoders_rebuild_every_field.2 c hc) with hv | ⟨_, h⟩
    · -- a decoder that goes through a canonical constructor has no literals in the table
      have hnone : (decodeCtors.all fun c => !c.via.isSome || c.literals.isEmpty) = true := by decide
      have := (List.all_eq_true.mp hnone) c hc
      simp [hv] at this
      simp [this] at hl
    · exact (h l hl).1 f hf
  have := f.foldl_covers (DecodeField.ok_acc hk hfok) els 0 e he
  simp [maskAdmits, DecodeField.accumulate, this]

/-- Sensitivity: drop the update from the arm of the record version the encoder writes
(`rs_filter |= rs_uuid.as_u128()` missing in `V3`) and a stored session is no longer admitted. -/
def rsFilterWithoutV3Update : DecodeField :=
  { field := 1, name := "rs_filter", kind := 1, uniform := 0, remark := "sensitivity witness",
    arms := [⟨"V1", true, true⟩, ⟨"V2", true, true⟩, ⟨"V3", true, false⟩] }

example : rsFilterWithoutV3Update.ok = false ∧
    (2, 5) ∈ rsFilterWithoutV3Update.kept [(2, 5)] ∧
    maskAdmits (rsFilterWithoutV3Update.accumulate [(2, 5)]) 5 = false := by decide

/-- Non-vacuity of the general statement: with the table as generated, a kept element exists and
is admitted. -/
example : ∃ c ∈ decodeCtors, ∃ l ∈ c.literals, ∃ f ∈ l, f.kind = 1 ∧
    (2, 5) ∈ f.kept [(0, 2), (2, 5)] ∧ f.accumulate [(0, 2), (2, 5)] = 7 := by decide

end Kanidm.StoreCodec
