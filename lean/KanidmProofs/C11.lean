import KanidmProofs.Lemmas.SessionMerge
import KanidmProofs.Lemmas.AuditMerge
/-!
# C11 — Replicated session and key revocations are never lost

Property theorems only (helpers: `Lemmas/SessionMerge.lean`, `Lemmas/AuditMerge.lean`).  The model
(`KanidmModel/SessionMerge.lean`) transcribes the `repl_merge_valueset`/`trim` functions of the
session, OAuth2-session, internal-key and audit-log valuesets and the newer/older role choice of
`Entry::merge_state`; the `SessionState` comparison (arm by arm), the `KeyStatus` order, every
comparison operator and both limits are regenerated from the source (`Gen.SessionOrd`).

Maps are compared observationally (`SEq m m' := ∀ k, lookup m k = lookup m' k`; a `BTreeMap`
is determined by its lookups). `KeysNodup` is the `BTreeMap` invariant.

Hypotheses, all explicit:
* **H1** `H_payload a b`: the same session id carries the same immutable fields on both sides
  (`smerge_assoc_needs_payload` shows a 3-replica counterexample without it).
  For keys `H_keydata`: same key id *and same status* ⇒ same record.
* `NoStale t m`: no revocation in `m` is older than the trim cid ("until the changelog window
  expires" — `stale_breaks_assoc` shows the clause is necessary).
* sessions only: total size ≤ `SESSION_MAXIMUM` (48), below which the forced trim is the identity.
-/
namespace Kanidm.SessionMerge
open Kanidm.Gen.SessionOrd

/-! ## 1. The regenerated comparisons are the specified priority order -/

/-- Priority of session states, from the property text: revoked above everything and an
earlier revocation above a later one; expiry by later time; never-expires lowest. -/
def StateAbove : SState → SState → Prop
  | .revokedAt co, .revokedAt cn => co < cn
  | .revokedAt _, _ => True
  | .expiresAt _, .revokedAt _ => False
  | .expiresAt eo, .expiresAt en => en < eo
  | .expiresAt _, .neverExpires => True
  | .neverExpires, _ => False

/-- The older value replaces the newer one in `ValueSetSession::repl_merge_valueset` exactly
when its state has strictly higher priority. Re-reads `Ord for SessionState` and the `>`. -/
theorem sessReplace_spec (o n : SState) : sessReplace o n = true ↔ StateAbove o n := by
  cases o <;> cases n <;> simp [sessReplace, SState.cmp, StateAbove, Nat.compare_eq_gt]

theorem o2Replace_spec (o n : SState) : o2Replace o n = true ↔ StateAbove o n := by
  cases o <;> cases n <;> simp [o2Replace, SState.cmp, StateAbove, Nat.compare_eq_gt]

/-- `Valid < Retained < Revoked`, and replacement only on strictly higher status. -/
theorem keyReplace_spec (o n : KeyStatus) :
    keyReplace o n = true ↔ (o = .revoked ∧ n ≠ .revoked) ∨ (o = .retained ∧ n = .valid) := by
  cases o <;> cases n <;> simp [keyReplace, KeyStatus.rank]

/-- Every trim removes a revocation exactly when its cid is strictly older than the trim cid. -/
theorem trim_spec (c t : Nat) :
    (sessTrim c t = true ↔ c < t) ∧ (o2Trim c t = true ↔ c < t) ∧ (keyTrim c t = true ↔ c < t) := by
  simp [sessTrim, o2Trim, keyTrim]

/-! ## 2. Generic facts for any replace test with the specified order -/

section Generic
variable {rp : SState → SState → Bool} (hrp : ∀ o n, rp o n = true ↔ StateAbove o n)
include hrp

theorem strictWeak_of_spec : StrictWeak rp := by
  refine ⟨?_, ?_, ?_⟩
  · intro a b h
    rw [hrp] at h
    rw [Bool.eq_false_iff, Ne, hrp]
    cases a <;> cases b <;> simp_all [StateAbove] <;> omega
  · intro a b c h1 h2
    rw [hrp] at *
    cases a <;> cases b <;> cases c <;> simp_all [StateAbove] <;> omega
  · intro a b c h1 h2
    rw [Bool.eq_false_iff, Ne, hrp] at *
    cases a <;> cases b <;> cases c <;> simp_all [StateAbove] <;> omega

theorem tie_of_spec (a b : SState) (h1 : rp a b = false) (h2 : rp b a = false) : a = b := by
  rw [Bool.eq_false_iff, Ne, hrp] at *
  cases a <;> cases b <;> simp_all [StateAbove] <;> omega

end Generic

/-- **H1**: same session id ⇒ same non-state fields. -/
def H_payload (a b : SMap) : Prop :=
  ∀ k x y, lookup a k = some x → lookup b k = some y →
    x.issued = y.issued ∧ x.payload = y.payload

theorem tieMaps_of_payload {rp : SState → SState → Bool}
    (hrp : ∀ o n, rp o n = true ↔ StateAbove o n) {a b : SMap} (hp : H_payload a b) :
    TieMaps (fun o n : Sess => rp o.state n.state) a b := by
  intro k x y hx hy h1 h2
  have hs := tie_of_spec hrp x.state y.state h1 h2
  obtain ⟨hi, hpp⟩ := hp k x y hx hy
  cases x; cases y; simp_all

theorem sessRepl_strictWeak : StrictWeak sessRepl :=
  (strictWeak_of_spec sessReplace_spec).comap Sess.state

theorem o2Repl_strictWeak : StrictWeak o2Repl :=
  (strictWeak_of_spec o2Replace_spec).comap Sess.state

/-! ## 3. Login sessions: the merge loop is commutative / associative / idempotent -/

theorem smerge_comm (a b : SMap) (ha : KeysNodup a) (hb : KeysNodup b) (hp : H_payload a b) :
    SEq (smergeCore a b) (smergeCore b a) :=
  core_comm sessRepl_strictWeak a b ha hb (tieMaps_of_payload sessReplace_spec hp)

/-- With the roles fixed, associativity needs no payload hypothesis (left-biased maximum). -/
theorem smerge_assoc (a b c : SMap) (hb : KeysNodup b) (hc : KeysNodup c) :
    SEq (smergeCore (smergeCore a b) c) (smergeCore a (smergeCore b c)) :=
  core_assoc sessRepl_strictWeak a b c hb hc

theorem smerge_idem (a : SMap) (ha : KeysNodup a) : SEq (smergeCore a a) a :=
  core_idem sessRepl_strictWeak a ha

example : H_payload [(1, ⟨.expiresAt 5, 0, 7⟩), (2, ⟨.neverExpires, 1, 8⟩)]
    [(1, ⟨.revokedAt 3, 0, 7⟩), (3, ⟨.revokedAt 9, 2, 9⟩)] ∧
    smergeCore [(1, ⟨.expiresAt 5, 0, 7⟩), (2, ⟨.neverExpires, 1, 8⟩)]
      [(1, ⟨.revokedAt 3, 0, 7⟩), (3, ⟨.revokedAt 9, 2, 9⟩)] =
      [(1, ⟨.revokedAt 3, 0, 7⟩), (2, ⟨.neverExpires, 1, 8⟩), (3, ⟨.revokedAt 9, 2, 9⟩)] := by
  constructor
  · intro k x y hx hy
    by_cases h1 : k = 1
    · subst h1; simp [lookup] at hx hy; subst hx; subst hy; simp
    · by_cases h2 : k = 2
      · subst h2; simp [lookup] at hy
      · simp [lookup, h1, h2] at hx
  · decide

/-! ## 4. The function replication actually calls: role by attribute cid, then trim -/

/-- No revocation older than the trim cid (the changelog window has not expired for any of them). -/
def NoStale (t : Nat) (m : SMap) : Prop :=
  ∀ k s c, lookup m k = some s → s.state = .revokedAt c → ¬ c < t

theorem allKeep_of_noStale {tr : Nat → Nat → Bool} (htr : ∀ c t, tr c t = true ↔ c < t)
    {t : Nat} {m : SMap} (h : NoStale t m) : AllKeep (keepSess tr t) m := by
  intro k v hv
  unfold keepSess
  cases hs : v.state with
  | revokedAt c =>
    have := h k v c hv hs
    cases htc : tr c t with
    | false => simp [htc]
    | true => exact absurd ((htr c t).mp htc) this
  | expiresAt _ => rfl
  | neverExpires => rfl

theorem forceTrim_id (m : SMap) (h : m.length ≤ sessionMaximum) : forceTrim m = m := by
  unfold forceTrim
  simp [Nat.not_lt.mpr h]

/-- Up to `SESSION_MAXIMUM` sessions in total, `ValueSetSession::repl_merge_valueset` is the merge
loop followed by the revocation trim. -/
theorem sessReplMerge_agrees (t : Nat) :
    Agrees sessRepl (keepSess sessTrim t) sessReplMerge t sessionMaximum := by
  intro n o h
  unfold sessReplMerge sessTrimAll
  rw [forceTrim_id]
  · rfl
  · exact Nat.le_trans (List.length_filter_le _ _)
      (Nat.le_trans (length_coreMerge_le _ _ _) h)

theorem o2ReplMerge_agrees (t B : Nat) : Agrees o2Repl (keepSess o2Trim t) o2ReplMerge t B :=
  fun _ _ _ => rfl

/-- Commutativity of the session attribute merge as replication performs it
(`attrMerge sessReplMerge`: role by cid, merge, trim): same cid, same map. -/
theorem sess_attr_comm (t : Nat) (l r : Nat × SMap) (hl : KeysNodup l.2) (hr : KeysNodup r.2)
    (hp : H_payload l.2 r.2) (hB : l.2.length + r.2.length ≤ sessionMaximum) :
    (attrMerge sessReplMerge t l r).1 = (attrMerge sessReplMerge t r l).1 ∧
      SEq (attrMerge sessReplMerge t l r).2 (attrMerge sessReplMerge t r l).2 :=
  attr_comm sessReplMerge t sessionMaximum sessRepl_strictWeak (sessReplMerge_agrees t) l r hl hr
    (tieMaps_of_payload sessReplace_spec hp) hB

/-- Associativity (any grouping), within the changelog window. -/
theorem sess_attr_assoc (t : Nat) (a b c : Nat × SMap)
    (ha : KeysNodup a.2) (hb : KeysNodup b.2) (hc : KeysNodup c.2)
    (sa : NoStale t a.2) (sb : NoStale t b.2) (sc : NoStale t c.2)
    (pab : H_payload a.2 b.2) (pbc : H_payload b.2 c.2) (pac : H_payload a.2 c.2)
    (hB : a.2.length + b.2.length + c.2.length ≤ sessionMaximum) :
    (attrMerge sessReplMerge t (attrMerge sessReplMerge t a b) c).1 =
        (attrMerge sessReplMerge t a (attrMerge sessReplMerge t b c)).1 ∧
      SEq (attrMerge sessReplMerge t (attrMerge sessReplMerge t a b) c).2
        (attrMerge sessReplMerge t a (attrMerge sessReplMerge t b c)).2 :=
  attr_assoc sessReplMerge t sessionMaximum sessRepl_strictWeak (sessReplMerge_agrees t) a b c
    ha hb hc
    (allKeep_of_noStale (fun c t => (trim_spec c t).1) sa)
    (allKeep_of_noStale (fun c t => (trim_spec c t).1) sb)
    (allKeep_of_noStale (fun c t => (trim_spec c t).1) sc)
    (tieMaps_of_payload sessReplace_spec pab) (tieMaps_of_payload sessReplace_spec pbc)
    (tieMaps_of_payload sessReplace_spec pac) hB

/-- Merging a state with itself changes nothing. -/
theorem sess_attr_idem (t : Nat) (l : Nat × SMap) (hl : KeysNodup l.2) (s : NoStale t l.2)
    (hB : l.2.length + l.2.length ≤ sessionMaximum) :
    (attrMerge sessReplMerge t l l).1 = l.1 ∧ SEq (attrMerge sessReplMerge t l l).2 l.2 :=
  attr_idem sessReplMerge t sessionMaximum sessRepl_strictWeak (sessReplMerge_agrees t) l hl
    (allKeep_of_noStale (fun c t => (trim_spec c t).1) s) hB

/-- Non-vacuity of the hypotheses of `sess_attr_comm/assoc/idem`: H1, `NoStale` at the boundary
(revocation cid = trim cid) and a concrete three-replica result. -/
example :
    H_payload [(1, ⟨.expiresAt 5, 0, 7⟩)] [(1, ⟨.revokedAt 6, 0, 7⟩)] ∧
    NoStale 4 [(1, ⟨.revokedAt 4, 0, 7⟩)] ∧
    lookup (attrMerge sessReplMerge 4
      (attrMerge sessReplMerge 4 (3, [(1, ⟨.expiresAt 5, 0, 7⟩)]) (5, [(1, ⟨.revokedAt 6, 0, 7⟩)]))
      (4, [(1, ⟨.revokedAt 4, 0, 7⟩), (2, ⟨.neverExpires, 1, 8⟩)])).2 1
      = some ⟨.revokedAt 4, 0, 7⟩ := by
  refine ⟨?_, ?_, by decide⟩
  · intro k x y hx hy
    by_cases h : k = 1
    · subst h; simp [lookup] at hx hy; subst hx; subst hy; simp
    · simp [lookup, h] at hx
  · intro k s c hs hc
    by_cases h : k = 1
    · subst h; simp [lookup] at hs; subst hs; simp at hc; omega
    · simp [lookup, h] at hs

/-- H1 is necessary: three replicas A (cid 3), B (cid 5, no such session), C (cid 4) holding the
same session id in the same state but with different payloads — the two groupings differ. -/
theorem smerge_assoc_needs_payload :
    let A : Nat × SMap := (3, [(1, ⟨.expiresAt 5, 0, 1⟩)])
    let B : Nat × SMap := (5, [])
    let C : Nat × SMap := (4, [(1, ⟨.expiresAt 5, 0, 2⟩)])
    lookup (attrMerge sessReplMerge 0 (attrMerge sessReplMerge 0 B A) C).2 1 ≠
      lookup (attrMerge sessReplMerge 0 B (attrMerge sessReplMerge 0 A C)).2 1 := by
  decide

/-- "Until the changelog window expires" is necessary: with a revocation older than the trim cid
the groupings differ (the revoked session is trimmed on one path and resurrected on the other). -/
theorem stale_breaks_assoc :
    let A : Nat × SMap := (3, [(1, ⟨.revokedAt 2, 0, 1⟩)])
    let B : Nat × SMap := (5, [(1, ⟨.expiresAt 9, 0, 1⟩)])
    let C : Nat × SMap := (4, [(1, ⟨.expiresAt 9, 0, 1⟩)])
    lookup (attrMerge sessReplMerge 7 (attrMerge sessReplMerge 7 A B) C).2 1 ≠
      lookup (attrMerge sessReplMerge 7 A (attrMerge sessReplMerge 7 B C)).2 1 := by
  decide

/-! ## 5. Revocation dominates, with the earliest cid, until trim -/

/-- The value stored under `k` (if any) is revoked at `c`. -/
def RevOpt (x : Option Sess) (c : Nat) : Prop := ∃ s, x = some s ∧ s.state = .revokedAt c
def RevAt (m : SMap) (k c : Nat) : Prop := RevOpt (lookup m k) c

theorem pick_revoke {rp : SState → SState → Bool} (hrp : ∀ o n, rp o n = true ↔ StateAbove o n)
    (x y : Option Sess) (c : Nat) (h : RevOpt x c ∨ RevOpt y c) :
    ∃ c', RevOpt (pickOpt (fun o n : Sess => rp o.state n.state) x y) c' ∧
      (RevOpt x c' ∨ RevOpt y c') ∧ ∀ c'', RevOpt x c'' ∨ RevOpt y c'' → c' ≤ c'' := by
  cases x with
  | none =>
    rcases h with ⟨s, hs, _⟩ | ⟨s, hs, hst⟩
    · cases hs
    · refine ⟨c, ⟨s, by simpa using hs, hst⟩, Or.inr ⟨s, hs, hst⟩, ?_⟩
      rintro c'' (⟨s', hs', _⟩ | ⟨s', hs', hst'⟩)
      · cases hs'
      · rw [hs] at hs'; cases hs'; rw [hst] at hst'; cases hst'; exact Nat.le_refl _
  | some a =>
    cases y with
    | none =>
      rcases h with ⟨s, hs, hst⟩ | ⟨s, hs, _⟩
      · refine ⟨c, ⟨s, by simpa using hs, hst⟩, Or.inl ⟨s, hs, hst⟩, ?_⟩
        rintro c'' (⟨s', hs', hst'⟩ | ⟨s', hs', _⟩)
        · rw [hs] at hs'; cases hs'; rw [hst] at hst'; cases hst'; exact Nat.le_refl _
        · cases hs'
      · cases hs
    | some b =>
      simp only [pickOpt, pick, RevOpt, Option.some.injEq, exists_eq_left'] at h ⊢
      by_cases hr : rp b.state a.state = true
      · have hab := (hrp _ _).mp hr
        rw [if_pos hr]
        cases hb : b.state with
        | revokedAt cb =>
          refine ⟨cb, rfl, Or.inr rfl, ?_⟩
          rintro c'' (h1 | h1)
          · rw [hb, h1] at hab; simp [StateAbove] at hab; omega
          · cases h1; exact Nat.le_refl _
        | expiresAt eb =>
          rcases h with h | h
          · rw [hb, h] at hab; simp [StateAbove] at hab
          · rw [hb] at h; cases h
        | neverExpires => rw [hb] at hab; simp [StateAbove] at hab
      · have hab : ¬ StateAbove b.state a.state := fun hh => hr ((hrp _ _).mpr hh)
        rw [if_neg hr]
        cases ha : a.state with
        | revokedAt ca =>
          refine ⟨ca, rfl, Or.inl rfl, ?_⟩
          rintro c'' (h1 | h1)
          · cases h1; exact Nat.le_refl _
          · rw [ha, h1] at hab; simp [StateAbove] at hab; omega
        | expiresAt ea =>
          rcases h with h | h
          · rw [ha] at h; cases h
          · rw [ha, h] at hab; simp [StateAbove] at hab
        | neverExpires =>
          rcases h with h | h
          · rw [ha] at h; cases h
          · rw [ha, h] at hab; simp [StateAbove] at hab

theorem filter_keep_rev {tr : Nat → Nat → Bool} (htr : ∀ c t, tr c t = true ↔ c < t)
    (x : Option Sess) (c t : Nat) (h : RevOpt x c) :
    (¬ c < t → RevOpt (x.filter (keepSess tr t)) c) ∧ (c < t → x.filter (keepSess tr t) = none) := by
  obtain ⟨s, rfl, hs⟩ := h
  have hk : keepSess tr t s = !(tr c t) := by simp [keepSess, hs]
  constructor
  · intro hc
    have : tr c t = false := by
      cases h : tr c t with
      | false => rfl
      | true => exact absurd ((htr c t).mp h) hc
    exact ⟨s, by simp [Option.filter, hk, this], hs⟩
  · intro hc
    simp [Option.filter, hk, (htr c t).mpr hc]

/-- **Revocation dominates.** If either replica holds session `k` revoked, then — whichever side
is newer — the merged value set holds `k` revoked with the *earliest* revocation cid `c'` found on
either side, unless that cid is older than the trim cid, in which case (and only then) the
session is dropped altogether; it never comes back unrevoked. -/
theorem revoke_dominates (n o : SMap) (hn : KeysNodup n) (ho : KeysNodup o)
    (hB : n.length + o.length ≤ sessionMaximum) (k c t : Nat)
    (h : RevAt n k c ∨ RevAt o k c) :
    ∃ c', (RevAt n k c' ∨ RevAt o k c') ∧
      (∀ c'', RevAt n k c'' ∨ RevAt o k c'' → c' ≤ c'') ∧
      (¬ c' < t → RevAt (sessReplMerge n o t) k c') ∧
      (c' < t → lookup (sessReplMerge n o t) k = none) := by
  obtain ⟨c', h1, h2, h3⟩ := pick_revoke sessReplace_spec (lookup n k) (lookup o k) c h
  have hl : lookup (sessReplMerge n o t) k =
      (pickOpt sessRepl (lookup n k) (lookup o k)).filter (keepSess sessTrim t) := by
    rw [sessReplMerge_agrees t n o hB, lookup_filtMerge _ _ _ _ hn ho]
  have := filter_keep_rev (fun c t => (trim_spec c t).1) _ c' t h1
  refine ⟨c', h2, h3, ?_, ?_⟩
  · intro hc; unfold RevAt; rw [hl]; exact this.1 hc
  · intro hc; rw [hl]; exact this.2 hc

theorem o2_revoke_dominates (n o : SMap) (hn : KeysNodup n) (ho : KeysNodup o) (k c t : Nat)
    (h : RevAt n k c ∨ RevAt o k c) :
    ∃ c', (RevAt n k c' ∨ RevAt o k c') ∧
      (∀ c'', RevAt n k c'' ∨ RevAt o k c'' → c' ≤ c'') ∧
      (¬ c' < t → RevAt (o2ReplMerge n o t) k c') ∧
      (c' < t → lookup (o2ReplMerge n o t) k = none) := by
  obtain ⟨c', h1, h2, h3⟩ := pick_revoke o2Replace_spec (lookup n k) (lookup o k) c h
  have hl : lookup (o2ReplMerge n o t) k =
      (pickOpt o2Repl (lookup n k) (lookup o k)).filter (keepSess o2Trim t) :=
    lookup_filtMerge _ _ _ _ hn ho k
  have := filter_keep_rev (fun c t => (trim_spec c t).2.1) _ c' t h1
  refine ⟨c', h2, h3, ?_, ?_⟩
  · intro hc; unfold RevAt; rw [hl]; exact this.1 hc
  · intro hc; rw [hl]; exact this.2 hc

theorem lost_only_stale {rp : SState → SState → Bool} {tr : Nat → Nat → Bool}
    (htr : ∀ c t, tr c t = true ↔ c < t) (x y : Option Sess) (t : Nat)
    (h : (pickOpt (fun o n : Sess => rp o.state n.state) x y).filter (keepSess tr t) = none) :
    (x = none ∧ y = none) ∨ ∃ c, c < t ∧ (RevOpt x c ∨ RevOpt y c) := by
  cases hp : pickOpt (fun o n : Sess => rp o.state n.state) x y with
  | none =>
    left
    cases x <;> cases y <;> simp [pickOpt] at hp ⊢
  | some s =>
    right
    rw [hp] at h
    have hk : keepSess tr t s = false := by
      cases hk : keepSess tr t s with
      | false => rfl
      | true => simp [Option.filter, hk] at h
    unfold keepSess at hk
    cases hs : s.state with
    | revokedAt c =>
      simp only [hs, Bool.not_eq_eq_eq_not, Bool.not_false] at hk
      refine ⟨c, (htr c t).mp hk, ?_⟩
      rcases pickOpt_mem (fun o n : Sess => rp o.state n.state) x y with h' | h'
      · left; exact ⟨s, by rw [← h', hp], hs⟩
      · right; exact ⟨s, by rw [← h', hp], hs⟩
    | expiresAt _ => simp [hs] at hk
    | neverExpires => simp [hs] at hk

/-- **Trim removes only expired revocations.** A session id present on either side is absent from
the merged value set only if one side holds it revoked at a cid older than the trim cid. -/
theorem sess_lost_only_stale (n o : SMap) (hn : KeysNodup n) (ho : KeysNodup o)
    (hB : n.length + o.length ≤ sessionMaximum) (k t : Nat)
    (h : lookup (sessReplMerge n o t) k = none) :
    (lookup n k = none ∧ lookup o k = none) ∨ ∃ c, c < t ∧ (RevAt n k c ∨ RevAt o k c) := by
  rw [sessReplMerge_agrees t n o hB, lookup_filtMerge _ _ _ _ hn ho] at h
  exact lost_only_stale (fun c t => (trim_spec c t).1) _ _ t h

theorem o2_lost_only_stale (n o : SMap) (hn : KeysNodup n) (ho : KeysNodup o) (k t : Nat)
    (h : lookup (o2ReplMerge n o t) k = none) :
    (lookup n k = none ∧ lookup o k = none) ∨ ∃ c, c < t ∧ (RevAt n k c ∨ RevAt o k c) := by
  have h' : (pickOpt o2Repl (lookup n k) (lookup o k)).filter (keepSess o2Trim t) = none := by
    rw [← lookup_filtMerge _ _ _ _ hn ho]; exact h
  exact lost_only_stale (fun c t => (trim_spec c t).2.1) _ _ t h'

example : RevAt [(1, ⟨.revokedAt 7, 0, 1⟩)] 1 7 ∧
    sessReplMerge [(1, ⟨.expiresAt 9, 0, 1⟩)] [(1, ⟨.revokedAt 7, 0, 1⟩)] 5
      = [(1, ⟨.revokedAt 7, 0, 1⟩)] ∧
    sessReplMerge [(1, ⟨.revokedAt 8, 0, 1⟩)] [(1, ⟨.revokedAt 7, 0, 1⟩)] 5
      = [(1, ⟨.revokedAt 7, 0, 1⟩)] ∧
    sessReplMerge [(1, ⟨.expiresAt 9, 0, 1⟩)] [(1, ⟨.revokedAt 7, 0, 1⟩)] 8 = [] := by
  refine ⟨⟨_, rfl, rfl⟩, by decide, by decide, by decide⟩

/-! ## 6. OAuth2 sessions: same algebra (no size limit in their `trim`) -/

theorem o2_attr_comm (t : Nat) (l r : Nat × SMap) (hl : KeysNodup l.2) (hr : KeysNodup r.2)
    (hp : H_payload l.2 r.2) :
    (attrMerge o2ReplMerge t l r).1 = (attrMerge o2ReplMerge t r l).1 ∧
      SEq (attrMerge o2ReplMerge t l r).2 (attrMerge o2ReplMerge t r l).2 :=
  attr_comm o2ReplMerge t _ o2Repl_strictWeak (o2ReplMerge_agrees t _) l r hl hr
    (tieMaps_of_payload o2Replace_spec hp) (Nat.le_refl _)

theorem o2_attr_assoc (t : Nat) (a b c : Nat × SMap)
    (ha : KeysNodup a.2) (hb : KeysNodup b.2) (hc : KeysNodup c.2)
    (sa : NoStale t a.2) (sb : NoStale t b.2) (sc : NoStale t c.2)
    (pab : H_payload a.2 b.2) (pbc : H_payload b.2 c.2) (pac : H_payload a.2 c.2) :
    (attrMerge o2ReplMerge t (attrMerge o2ReplMerge t a b) c).1 =
        (attrMerge o2ReplMerge t a (attrMerge o2ReplMerge t b c)).1 ∧
      SEq (attrMerge o2ReplMerge t (attrMerge o2ReplMerge t a b) c).2
        (attrMerge o2ReplMerge t a (attrMerge o2ReplMerge t b c)).2 :=
  attr_assoc o2ReplMerge t _ o2Repl_strictWeak (o2ReplMerge_agrees t _) a b c ha hb hc
    (allKeep_of_noStale (fun c t => (trim_spec c t).2.1) sa)
    (allKeep_of_noStale (fun c t => (trim_spec c t).2.1) sb)
    (allKeep_of_noStale (fun c t => (trim_spec c t).2.1) sc)
    (tieMaps_of_payload o2Replace_spec pab) (tieMaps_of_payload o2Replace_spec pbc)
    (tieMaps_of_payload o2Replace_spec pac) (Nat.le_refl _)

theorem o2_attr_idem (t : Nat) (l : Nat × SMap) (hl : KeysNodup l.2) (s : NoStale t l.2) :
    (attrMerge o2ReplMerge t l l).1 = l.1 ∧ SEq (attrMerge o2ReplMerge t l l).2 l.2 :=
  attr_idem o2ReplMerge t _ o2Repl_strictWeak (o2ReplMerge_agrees t _) l hl
    (allKeep_of_noStale (fun c t => (trim_spec c t).2.1) s) (Nat.le_refl _)

/-! ## 7. Internal keys: `Revoked` is absorbing -/

theorem keyReplace_strictWeak : StrictWeak keyReplace := by
  refine ⟨?_, ?_, ?_⟩
  · intro a b; cases a <;> cases b <;> simp [keyReplace, KeyStatus.rank]
  · intro a b c; cases a <;> cases b <;> cases c <;> simp [keyReplace, KeyStatus.rank]
  · intro a b c; cases a <;> cases b <;> cases c <;> simp [keyReplace, KeyStatus.rank]

theorem keyRepl_strictWeak : StrictWeak keyRepl := keyReplace_strictWeak.comap KeyData.status

/-- Key analogue of H1: the same key id in the same status is the same record on both sides
(in particular two replicas did not revoke the same key independently at different cids). -/
def H_keydata (a b : KMap) : Prop :=
  ∀ k x y, lookup a k = some x → lookup b k = some y → x.status = y.status → x = y

theorem tieMaps_of_keydata {a b : KMap} (hp : H_keydata a b) : TieMaps keyRepl a b := by
  intro k x y hx hy h1 h2
  apply hp k x y hx hy
  revert h1 h2
  unfold keyRepl
  cases x.status <;> cases y.status <;> simp [keyReplace, KeyStatus.rank]

def KNoStale (t : Nat) (m : KMap) : Prop :=
  ∀ k d, lookup m k = some d → d.status = .revoked → ¬ d.statusCid < t

theorem allKeep_of_kNoStale {t : Nat} {m : KMap} (h : KNoStale t m) : AllKeep (keepKey t) m := by
  intro k d hd
  unfold keepKey
  cases hs : d.status with
  | revoked =>
    have := h k d hd hs
    simp [keyTrim, this]
  | valid => rfl
  | retained => rfl

theorem keyReplMerge_agrees (t B : Nat) : Agrees keyRepl (keepKey t) keyReplMerge t B :=
  fun _ _ _ => rfl

theorem key_attr_comm (t : Nat) (l r : Nat × KMap) (hl : KeysNodup l.2) (hr : KeysNodup r.2)
    (hp : H_keydata l.2 r.2) :
    (attrMerge keyReplMerge t l r).1 = (attrMerge keyReplMerge t r l).1 ∧
      SEq (attrMerge keyReplMerge t l r).2 (attrMerge keyReplMerge t r l).2 :=
  attr_comm keyReplMerge t _ keyRepl_strictWeak (keyReplMerge_agrees t _) l r hl hr
    (tieMaps_of_keydata hp) (Nat.le_refl _)

theorem key_attr_assoc (t : Nat) (a b c : Nat × KMap)
    (ha : KeysNodup a.2) (hb : KeysNodup b.2) (hc : KeysNodup c.2)
    (sa : KNoStale t a.2) (sb : KNoStale t b.2) (sc : KNoStale t c.2)
    (pab : H_keydata a.2 b.2) (pbc : H_keydata b.2 c.2) (pac : H_keydata a.2 c.2) :
    (attrMerge keyReplMerge t (attrMerge keyReplMerge t a b) c).1 =
        (attrMerge keyReplMerge t a (attrMerge keyReplMerge t b c)).1 ∧
      SEq (attrMerge keyReplMerge t (attrMerge keyReplMerge t a b) c).2
        (attrMerge keyReplMerge t a (attrMerge keyReplMerge t b c)).2 :=
  attr_assoc keyReplMerge t _ keyRepl_strictWeak (keyReplMerge_agrees t _) a b c ha hb hc
    (allKeep_of_kNoStale sa) (allKeep_of_kNoStale sb) (allKeep_of_kNoStale sc)
    (tieMaps_of_keydata pab) (tieMaps_of_keydata pbc) (tieMaps_of_keydata pac) (Nat.le_refl _)

theorem key_attr_idem (t : Nat) (l : Nat × KMap) (hl : KeysNodup l.2) (s : KNoStale t l.2) :
    (attrMerge keyReplMerge t l l).1 = l.1 ∧ SEq (attrMerge keyReplMerge t l l).2 l.2 :=
  attr_idem keyReplMerge t _ keyRepl_strictWeak (keyReplMerge_agrees t _) l hl
    (allKeep_of_kNoStale s) (Nat.le_refl _)

/-- **Revoked is absorbing.** If either side holds key `k` revoked, the merged set never holds it
valid or retained: it holds it revoked, or — only when the surviving record's status cid is older
than the trim cid — not at all. -/
theorem key_revoked_absorbing (n o : KMap) (hn : KeysNodup n) (ho : KeysNodup o) (k t : Nat)
    (h : (∃ d, lookup n k = some d ∧ d.status = .revoked) ∨
         (∃ d, lookup o k = some d ∧ d.status = .revoked)) :
    (∃ d, lookup (keyReplMerge n o t) k = some d ∧ d.status = .revoked ∧ ¬ d.statusCid < t ∧
        (lookup n k = some d ∨ lookup o k = some d)) ∨
    (lookup (keyReplMerge n o t) k = none ∧
      ∃ d, (lookup n k = some d ∨ lookup o k = some d) ∧ d.status = .revoked ∧ d.statusCid < t) := by
  have hl : lookup (keyReplMerge n o t) k =
      (pickOpt keyRepl (lookup n k) (lookup o k)).filter (keepKey t) :=
    lookup_filtMerge _ _ _ _ hn ho k
  rw [hl]
  -- the picked record is one of the inputs and is revoked
  have hpick : ∃ d, pickOpt keyRepl (lookup n k) (lookup o k) = some d ∧ d.status = .revoked ∧
      (lookup n k = some d ∨ lookup o k = some d) := by
    cases hx : lookup n k with
    | none =>
      rcases h with ⟨d, hd, _⟩ | ⟨d, hd, hs⟩
      · rw [hx] at hd; cases hd
      · exact ⟨d, by simp [hd], hs, Or.inr hd⟩
    | some a =>
      cases hy : lookup o k with
      | none =>
        rcases h with ⟨d, hd, hs⟩ | ⟨d, hd, _⟩
        · rw [hx] at hd; cases hd; exact ⟨a, by simp, hs, Or.inl rfl⟩
        · rw [hy] at hd; cases hd
      | some b =>
        simp only [pickOpt, pick]
        rcases h with ⟨d, hd, hs⟩ | ⟨d, hd, hs⟩
        · rw [hx] at hd; cases hd
          by_cases hr : keyRepl b a = true
          · exfalso
            unfold keyRepl at hr; rw [hs] at hr; revert hr
            cases b.status <;> simp [keyReplace, KeyStatus.rank]
          · rw [if_neg hr]; exact ⟨a, rfl, hs, Or.inl rfl⟩
        · rw [hy] at hd; cases hd
          by_cases hr : keyRepl b a = true
          · rw [if_pos hr]; exact ⟨b, rfl, hs, Or.inr rfl⟩
          · rw [if_neg hr]
            refine ⟨a, rfl, ?_, Or.inl rfl⟩
            unfold keyRepl at hr; rw [hs] at hr; revert hr
            cases a.status <;> simp [keyReplace, KeyStatus.rank]
  obtain ⟨d, hd, hs, hin⟩ := hpick
  rw [hd]
  by_cases hc : d.statusCid < t
  · right
    exact ⟨by simp [Option.filter, keepKey, hs, keyTrim, hc], d, hin, hs, hc⟩
  · left
    exact ⟨d, by simp [Option.filter, keepKey, hs, keyTrim, hc], hs, hc, hin⟩

example : keyReplMerge [(1, ⟨.valid, 2, 0⟩)] [(1, ⟨.revoked, 6, 0⟩)] 5 = [(1, ⟨.revoked, 6, 0⟩)] ∧
    keyReplMerge [(1, ⟨.revoked, 6, 0⟩)] [(1, ⟨.retained, 9, 0⟩)] 5 = [(1, ⟨.revoked, 6, 0⟩)] := by
  decide

/-- Observation kept in the file: without `H_keydata` (two replicas revoke the same key at
different cids) the surviving `status_cid` depends on the grouping. -/
theorem key_assoc_needs_keydata :
    let A : Nat × KMap := (3, [(1, ⟨.revoked, 3, 0⟩)])
    let B : Nat × KMap := (5, [])
    let C : Nat × KMap := (4, [(1, ⟨.revoked, 4, 0⟩)])
    lookup (attrMerge keyReplMerge 0 (attrMerge keyReplMerge 0 B A) C).2 1 ≠
      lookup (attrMerge keyReplMerge 0 B (attrMerge keyReplMerge 0 A C)).2 1 := by
  decide

/-! ## 8. Audit log (`BTreeMap<Cid, String>`, newest `AUDIT_LOG_STRING_CAPACITY` kept) -/

/-- Same cid ⇒ same text. -/
def H_cid_unique (a b : AMap) : Prop :=
  ∀ k x y, lookup a k = some x → lookup b k = some y → x = y

theorem audit_comm (a b : AMap) (t : Nat) (ha : KeysNodup a) (hb : KeysNodup b)
    (hu : H_cid_unique a b) : SEq (auditReplMerge a b t) (auditReplMerge b a t) :=
  audit_comm_aux a b t ha hb hu

/-- A log within capacity merged with itself is unchanged. -/
theorem audit_idem (a : AMap) (t : Nat) (ha : KeysNodup a) (hc : a.length ≤ auditCapacity) :
    SEq (auditReplMerge a a t) a :=
  audit_idem_aux a t ha hc

/-- Associativity with the roles fixed — truncation to the newest `AUDIT_LOG_STRING_CAPACITY`
entries included; no uniqueness hypothesis needed (truncating an operand first never changes
which cids survive the final truncation). -/
theorem audit_assoc (a b c : AMap) (t : Nat) (ha : KeysNodup a) (hb : KeysNodup b)
    (hc : KeysNodup c) :
    SEq (auditReplMerge (auditReplMerge a b t) c t) (auditReplMerge a (auditReplMerge b c t) t) :=
  audit_assoc_aux a b c t ha hb hc

example : auditReplMerge [(1, 10), (3, 30)] [(2, 20), (3, 30)] 0 = [(2, 20), (3, 30), (1, 10)] := by
  decide

end Kanidm.SessionMerge
