import KanidmProofs.Lemmas.Recycle
/-!
# C26 — Recycle bin lifecycle holds

Property theorems only (helpers: `Lemmas/Recycle.lean`).  The model (`KanidmModel/Recycle.lean`)
is a machine over histories of write transactions `(clock reading, operation)`; every transaction
is stamped with C07's generated Lamport step.  The two windows, the comparison operators of both
purge cut-offs, the nil uuid of `Cid::sub_secs`, the field order of `Cid` and the attribute moves
of delete / revive are regenerated from the source on every run (`Generated/RecycleOps.lean`,
`Generated/CidOps.lean`), so editing the source re-states the theorems below.

`Inv` (unique uuids; entries outside the live state carry a committed stamp; tombstones carry
nothing) holds of the empty database and is kept by every transaction (`inv_run`).
-/
namespace Kanidm.Recycle
open Kanidm.Gen.Recycle

/-- The generated parameters are the ones the statements below are about: both windows are the
7 days the production constants document, both cut-offs are strict `<` against a cut-off cid
carrying the nil uuid, live entries are never reaped, and the attribute moves are in place. -/
theorem ops_as_modelled :
    recyclebinMaxAge = 604800 ∧ changelogMaxAge = 604800 ∧
    purgeRecycledWindow = recyclebinMaxAge ∧ trimWindow = changelogMaxAge ∧
    purgeRecycledOp = .lt ∧ canDeleteOp = .lt ∧ trimRangeOp = .lt ∧ canDeleteLive = false ∧
    subSecsUuid = 0 ∧ revivePurgesCascadeDeleted = true ∧ revivePurgesRdmo = true ∧
    reviveRestoresRefers = true ∧ deleteMarksCascade = true ∧ preDeleteStashesDmo = true := by
  decide

/-! ## the invariant -/

/-- Every history from the empty database keeps the invariant. -/
theorem inv_of_history (m sid : Nat) (steps : List (Nat × Op)) : Inv (run ⟨[], m, sid⟩ steps) :=
  inv_run (inv_empty m sid) steps

/-! ## a deleted entry disappears from normal searches and writes -/

/-- A normal search returns exactly the live entries, the recycle-bin search exactly the
recycled ones: a recycled entry or a tombstone is never returned by a normal search, a live entry
or a tombstone never by the recycle-bin search. -/
theorem deleted_invisible (es : List Entry) (x : Nat) :
    (x ∈ searchNormal es ↔ ∃ e ∈ es, e.id = x ∧ e.st = .live) ∧
    (x ∈ searchRecycleBin es ↔ ∃ e ∈ es, e.id = x ∧ e.st = .recycled) := by
  simp only [searchNormal, searchRecycleBin, List.mem_map, List.mem_filter, beq_iff_eq]
  constructor <;> constructor
  · rintro ⟨e, ⟨he, hl⟩, rfl⟩; exact ⟨e, he, rfl, hl⟩
  · rintro ⟨e, he, rfl, hl⟩; exact ⟨e, ⟨he, hl⟩, rfl⟩
  · rintro ⟨e, ⟨he, hl⟩, rfl⟩; exact ⟨e, he, rfl, hl⟩
  · rintro ⟨e, he, rfl, hl⟩; exact ⟨e, ⟨he, hl⟩, rfl⟩

/-- A successful delete moves every live entry it names into the recycle bin, stamped with this
transaction: afterwards the normal search no longer returns it and the recycle-bin search does. -/
theorem delete_recycles {s : State} (hi : Inv s) (ct : Nat) (ids : List Nat) (es' : List Entry)
    (n : Option Nat) (h : apply s ct (.delete ids) = .ok es' n) (x : Nat) (hx : x ∈ ids)
    (hl : isLive s.es x = true) :
    (∃ e', find (next s ct (.delete ids)).es x = some e' ∧ e'.st = .recycled ∧
      e'.lastMod = txnTs s ct) ∧
    x ∉ searchNormal (next s ct (.delete ids)).es ∧
    x ∈ searchRecycleBin (next s ct (.delete ids)).es := by
  have hnext : next s ct (.delete ids) = { s with es := es', maxTs := txnTs s ct } := by
    unfold next; rw [h]; simp [commits]
  have hinv : Inv (next s ct (.delete ids)) := inv_next hi ct _
  rw [hnext] at hinv ⊢
  obtain ⟨e, hfe, hel⟩ : ∃ e, find s.es x = some e ∧ e.st = .live := by
    unfold isLive at hl
    cases hf : find s.es x with
    | none => simp [hf] at hl
    | some e => exact ⟨e, rfl, by simpa [hf] using hl⟩
  obtain ⟨e', hfe', hst, hlm⟩ := delete_find h hfe hel hx
  have hmem := find_some_mem hfe'
  refine ⟨⟨e', hfe', hst, hlm⟩, ?_, ?_⟩
  · rw [(deleted_invisible es' x).1]
    rintro ⟨e2, he2, hid, hl2⟩
    have := find_of_mem_nodup hinv.nodup he2
    rw [hid] at this
    simp only at this
    rw [hfe'] at this
    cases this
    rw [hst] at hl2; cases hl2
  · rw [(deleted_invisible es' x).2]
    exact ⟨e', hmem.1, hmem.2, hst⟩

/-- A normal modify aimed at an entry that is not live changes nothing (the internal modify
finds no candidate), and a delete whose filter matches no live entry is refused. -/
theorem normal_writes_skip_deleted {s : State} (hi : Inv s) (ts : Nat) (trim : Cid.Cid) (x : Nat)
    (hx : isLive s.es x = false) :
    (∃ es', applyOp s ts trim (.touch x) = .ok es' none ∧
      ∀ y e, find s.es y = some e → e.st ≠ .live → find es' y = some e) ∧
    (∀ m, applyOp s ts trim (.addMember x m) = .ok s.es none) ∧
    (∀ m, applyOp s ts trim (.remMember x m) = .ok s.es none) ∧
    applyOp s ts trim (.delete [x]) = .err .noMatch := by
  refine ⟨⟨_, rfl, fun y e hy hnl => find_recompute_nonlive _ hy hnl⟩, ?_, ?_, ?_⟩
  · intro m
    simp only [applyOp, opAdd]
    unfold isLive at hx
    cases hf : find s.es x with
    | none => rfl
    | some e => simp [hf] at hx; simp [hx]
  · intro m
    simp only [applyOp, opRem]
    unfold isLive at hx
    cases hf : find s.es x with
    | none => rfl
    | some e => simp [hf] at hx; simp [hx]
  · simp only [applyOp, opDelete]
    have : s.es.any (inT [x]) = false := by
      rw [List.any_eq_false]
      intro e he hT
      simp only [inT, Bool.and_eq_true, beq_iff_eq, List.contains_cons, List.contains_nil,
        Bool.or_false] at hT
      have := isLive_of_mem hi.nodup he hT.1
      rw [hT.2] at this
      rw [this] at hx; cases hx
    simp [this]

/-! ## revive -/

/-- Only a recycled entry can be revived: a revive of a live entry, of a tombstone or of an
unknown uuid is refused (and a refused operation leaves the database as it was). -/
theorem revive_only_from_recycled (s : State) (ct x : Nat) :
    (∀ es' n, apply s ct (.revive x) = .ok es' n → ∃ e, find s.es x = some e ∧ e.st = .recycled) ∧
    ((∀ e, find s.es x = some e → e.st ≠ .recycled) → next s ct (.revive x) = s) := by
  constructor
  · intro es' n h
    obtain ⟨trim, _, hap⟩ := apply_ok h
    simp only [applyOp] at hap
    obtain ⟨xe, hxe, hst, _⟩ := opRevive_ok hap
    exact ⟨xe, hxe, hst⟩
  · intro hno
    rcases next_eq s ct (.revive x) with h | ⟨trim, es', n, _, hap, _⟩
    · exact h
    · simp only [applyOp] at hap
      obtain ⟨xe, hxe, hst, _⟩ := opRevive_ok hap
      exact absurd hst (hno xe hxe)

/-- A tombstone can no longer be revived, whatever the clock says: the request is an error and
nothing changes. -/
theorem tombstone_not_revivable (s : State) (ct x : Nat) (e : Entry)
    (hx : find s.es x = some e) (ht : e.st = .tomb) :
    (∃ er, apply s ct (.revive x) = .err er) ∧ next s ct (.revive x) = s := by
  have hnext : next s ct (.revive x) = s :=
    (revive_only_from_recycled s ct x).2 (fun e' he' => by
      rw [hx] at he'; cases he'; rw [ht]; decide)
  refine ⟨?_, hnext⟩
  unfold apply
  split
  · exact ⟨_, rfl⟩
  · simp only [applyOp, opRevive, hx]
    have : (e.st != St.recycled) = true := by rw [ht]; decide
    simp [this]

/-- A recycled person or group (nothing it refers to, not itself cascade-deleted) is found by the
recycle-bin search and its revive succeeds at any clock reading, making it live again. -/
theorem recyclebin_can_find_and_revive {s : State} (hi : Inv s) (ct x : Nat) (xe : Entry)
    (hx : find s.es x = some xe) (hr : xe.st = .recycled) (hk : xe.kind ≠ .cert)
    (hrf : xe.refers = none) (hc : xe.casc = none)
    (htime : changelogMaxAge * NS ≤ txnTs s ct) :
    x ∈ searchRecycleBin s.es ∧
    ∃ es', apply s ct (.revive x) = .ok es' none ∧ ∃ e', find es' x = some e' ∧ e'.st = .live := by
  have hmem := find_some_mem hx
  refine ⟨(deleted_invisible s.es x).2.mpr ⟨xe, hmem.1, hmem.2, hr⟩, ?_⟩
  have hsub : subSecs (txnTs s ct) trimWindow = some ⟨txnTs s ct - trimWindow * NS, 0⟩ := by
    unfold subSecs; simp [trimWindow, htime, subSecsUuid]
  have hinRx : inR x xe = true := by simp [inR, hr, hmem.2]
  have hx1 := reviveE_of_inR (ts := txnTs s ct) hinRx
  have hfx1 : find (s.es.map (reviveE x (txnTs s ct))) x = some (reviveE x (txnTs s ct) xe) := by
    rw [find_map _ (reviveE_id x _), hx]; rfl
  have hrrx : revRefers xe = none := by simp [revRefers, hc, hrf]
  -- every revived entry is the target itself or carries its cascade mark
  have hcases : ∀ e ∈ s.es, inR x e = true → e = xe ∨ (e.casc = some x ∧ revRefers e = some x) := by
    intro e he hR
    simp only [inR, Bool.and_eq_true, beq_iff_eq, Bool.or_eq_true] at hR
    rcases hR.2 with h1 | h1
    · exact .inl (live_of_find_nodup hi.nodup hx he h1)
    · exact .inr ⟨h1, by simp [revRefers, reviveRestoresRefers, h1]⟩
  have h1 : s.es.any (fun e => inR x e && e.kind == .cert && (revRefers e).isNone) = false := by
    rw [List.any_eq_false]
    intro e he
    by_cases hR : inR x e = true
    · rcases hcases e he hR with rfl | ⟨_, h2⟩
      · simp [hk]
      · simp [h2]
    · simp [hR]
  have h2 : s.es.any (fun e => inR x e && reviveRefBad (s.es.map (reviveE x (txnTs s ct))) e) = false := by
    rw [List.any_eq_false]
    intro e he
    by_cases hR : inR x e = true
    · rcases hcases e he hR with rfl | ⟨h2, _⟩
      · simp [reviveRefBad, hc]
      · simp [reviveRefBad, h2, isLive, hfx1, hx1.1]
    · simp [hR]
  have h3 : s.es.any (fun e => inR x e && reviveLoopBad (s.es.map (reviveE x (txnTs s ct))) e) = false := by
    rw [List.any_eq_false]
    intro e he
    by_cases hR : inR x e = true
    · rcases hcases e he hR with rfl | ⟨_, h2⟩
      · simp [reviveLoopBad, hrrx]
      · simp [reviveLoopBad, h2, hasRefers, hfx1, hx1.2.1, hrrx]
    · simp [hR]
  have hok := opRevive_eq (ts := txnTs s ct) hx hr h1 h2 h3
  obtain ⟨re', hf', hl', _⟩ := revive_find hok hx hinRx
  refine ⟨_, ?_, re', hf', hl'⟩
  unfold apply
  rw [hsub]
  exact hok

/-- A recycled certificate that was deleted on its own (no cascade mark, still referring to `p`)
can be revived whenever `p` is live: the dependent case of "can be found and revived". -/
theorem recycled_dependent_can_be_revived {s : State} (hi : Inv s) (ct x p : Nat) (xe pe : Entry)
    (hx : find s.es x = some xe) (hr : xe.st = .recycled) (hc : xe.casc = none)
    (hrf : xe.refers = some p) (hp : find s.es p = some pe) (hpl : pe.st = .live)
    (hpr : pe.refers = none) (hnodep : ∀ e ∈ s.es, e.casc ≠ some x)
    (htime : changelogMaxAge * NS ≤ txnTs s ct) :
    x ∈ searchRecycleBin s.es ∧
    ∃ es', apply s ct (.revive x) = .ok es' none ∧
      ∃ e', find es' x = some e' ∧ e'.st = .live ∧ e'.refers = some p := by
  have hmem := find_some_mem hx
  refine ⟨(deleted_invisible s.es x).2.mpr ⟨xe, hmem.1, hmem.2, hr⟩, ?_⟩
  have hsub : subSecs (txnTs s ct) trimWindow = some ⟨txnTs s ct - trimWindow * NS, 0⟩ := by
    unfold subSecs; simp [trimWindow, htime, subSecsUuid]
  have hinRx : inR x xe = true := by simp [inR, hr, hmem.2]
  have hrrx : revRefers xe = some p := by simp [revRefers, hc, hrf]
  have hpnotR : inR x pe = false := by simp [inR, hpl]
  have hfp1 : find (s.es.map (reviveE x (txnTs s ct))) p = some pe := by
    rw [find_map _ (reviveE_id x _), hp]
    simp [reviveE_not_inR hpnotR]
  -- the only revived entry is the target
  have honly : ∀ e ∈ s.es, inR x e = true → e = xe := by
    intro e he hR
    simp only [inR, Bool.and_eq_true, beq_iff_eq, Bool.or_eq_true] at hR
    rcases hR.2 with h1 | h1
    · exact live_of_find_nodup hi.nodup hx he h1
    · exact absurd h1 (hnodep e he)
  have h1 : s.es.any (fun e => inR x e && e.kind == .cert && (revRefers e).isNone) = false := by
    rw [List.any_eq_false]
    intro e he
    by_cases hR : inR x e = true
    · rw [honly e he hR]; simp [hrrx]
    · simp [hR]
  have h2 : s.es.any (fun e => inR x e && reviveRefBad (s.es.map (reviveE x (txnTs s ct))) e) = false := by
    rw [List.any_eq_false]
    intro e he
    by_cases hR : inR x e = true
    · rw [honly e he hR]; simp [reviveRefBad, hc]
    · simp [hR]
  have h3 : s.es.any (fun e => inR x e && reviveLoopBad (s.es.map (reviveE x (txnTs s ct))) e) = false := by
    rw [List.any_eq_false]
    intro e he
    by_cases hR : inR x e = true
    · rw [honly e he hR]; simp [reviveLoopBad, hrrx, hasRefers, hfp1, hpr]
    · simp [hR]
  have hok := opRevive_eq (ts := txnTs s ct) hx hr h1 h2 h3
  obtain ⟨re', hf', hl', hrf', _⟩ := revive_find hok hx hinRx
  refine ⟨_, ?_, re', hf', hl', by rw [hrf', hrrx]⟩
  unfold apply
  rw [hsub]
  exact hok

/-- A successful revive brings back the entry, every recycled entry that was cascade-deleted
with it (referring to it again, cascade mark cleared) and, for each of them, every direct
membership recorded at deletion whose group is live: the group lists it again and its
directmemberof names the group. -/
theorem revive_restores_dependents_and_live_dmo (s : State) (ct x : Nat) (es' : List Entry)
    (n : Option Nat) (h : apply s ct (.revive x) = .ok es' n) :
    (∃ xe e', find s.es x = some xe ∧ xe.st = .recycled ∧ find es' x = some e' ∧ e'.st = .live) ∧
    (∀ c ce, find s.es c = some ce → ce.st = .recycled → ce.casc = some x →
      ∃ ce', find es' c = some ce' ∧ ce'.st = .live ∧ ce'.refers = some x ∧ ce'.casc = none) ∧
    (∀ r re, find s.es r = some re → inR x re = true →
      ∀ g ge, g ∈ re.rdmo → find s.es g = some ge → ge.kind = .group → ge.st = .live →
        ∃ re' ge', find es' r = some re' ∧ g ∈ re'.dmo ∧
          find es' g = some ge' ∧ ge'.st = .live ∧ r ∈ ge'.member) := by
  obtain ⟨trim, _, hap⟩ := apply_ok h
  simp only [applyOp] at hap
  obtain ⟨xe, hxe, hxr, _, _⟩ := opRevive_ok hap
  have hmx := find_some_mem hxe
  refine ⟨?_, ?_, ?_⟩
  · obtain ⟨re', hf', hl', _⟩ := revive_find hap hxe (by simp [inR, hxr, hmx.2])
    exact ⟨xe, re', hxe, hxr, hf', hl'⟩
  · intro c ce hc hcr hcc
    obtain ⟨ce', hf', hl', hrf', hca', _⟩ := revive_find hap hc (by simp [inR, hcr, hcc])
    exact ⟨ce', hf', hl', by rw [hrf']; simp [revRefers, reviveRestoresRefers, hcc], hca'⟩
  · intro r re hr hR g ge hg hfg hgk hgl
    obtain ⟨re', hf', _, _, _, hm⟩ := revive_find hap hr hR
    obtain ⟨hd, ge', hfg', hgl', _, hmem⟩ := hm g ge hg hfg hgk hgl
    exact ⟨re', ge', hf', hd, hfg', hgl', hmem⟩

/-! ## what the bin keeps: memberships of groups that still exist, and the cascade mark -/

/-- A delete stashes the direct memberships: every group in the deleted entry's directmemberof
is in its recycled_directmemberof afterwards — unless the same request deleted that group too. -/
theorem delete_stashes_memberships {s : State} (hi : Inv s) {ct : Nat} {ids : List Nat}
    {es' : List Entry} {n : Option Nat} (h : apply s ct (.delete ids) = .ok es' n) {x : Nat}
    {e : Entry} (hfe : find s.es x = some e) (hel : e.st = .live) (hx : x ∈ ids) :
    ∃ e', find es' x = some e' ∧
      ∀ g ∈ e.dmo, g ∈ e'.rdmo ∨ ∃ ge', find es' g = some ge' ∧ ge'.st = .recycled :=
  delete_stash hi h hfe hel hx

/-- For as long as an entry stays in the recycle bin — through any history of creates, deletes,
revives of other entries and purges at any clock readings — it keeps its cascade mark, and it
keeps the recorded membership of every group that stayed a live group all along. -/
theorem memberships_and_mark_kept_in_bin {s : State} (hi : Inv s) {x : Nat} {e : Entry}
    (hx : find s.es x = some e) (hr : e.st = .recycled) (steps : List (Nat × Op))
    (hbin : Always (InBin x) s steps) :
    ∃ e1, find (run s steps).es x = some e1 ∧ e1.st = .recycled ∧ e1.casc = e.casc ∧
      ∀ g ∈ e.rdmo, Always (LiveGroupIn g) s steps → g ∈ e1.rdmo :=
  kept_while_in_bin steps hi hx hr hbin

/-- **Returning with its direct memberships of groups that still exist.**  An entry that was a
direct member of `g` is deleted; any history follows during which it stays in the bin and `g`
stays a live group; then its revive succeeds.  Afterwards the entry is live, `g` lists it and
its directmemberof names `g`. -/
theorem membership_returns_after_revive {s0 : State} (hi : Inv s0) {ct : Nat} {ids : List Nat}
    {es1 : List Entry} {n : Option Nat} (hdel : apply s0 ct (.delete ids) = .ok es1 n)
    {x g : Nat} {e : Entry} (hx : find s0.es x = some e) (hl : e.st = .live) (hxi : x ∈ ids)
    (hg : g ∈ e.dmo) (steps : List (Nat × Op))
    (hbin : Always (InBin x) (next s0 ct (.delete ids)) steps)
    (hgl : Always (LiveGroupIn g) (next s0 ct (.delete ids)) steps)
    {ct2 : Nat} {es2 : List Entry} {n2 : Option Nat}
    (hrev : apply (run (next s0 ct (.delete ids)) steps) ct2 (.revive x) = .ok es2 n2) :
    ∃ e2 ge2, find es2 x = some e2 ∧ e2.st = .live ∧ g ∈ e2.dmo ∧
      find es2 g = some ge2 ∧ ge2.st = .live ∧ x ∈ ge2.member := by
  have hnext : next s0 ct (.delete ids) = { s0 with es := es1, maxTs := txnTs s0 ct } := by
    unfold next; rw [hdel]; simp [commits]
  have hi1 : Inv (next s0 ct (.delete ids)) := inv_next hi ct _
  obtain ⟨e1, hfe1, hstash⟩ := delete_stash hi hdel hx hl hxi
  have hfe1' : find (next s0 ct (.delete ids)).es x = some e1 := by rw [hnext]; exact hfe1
  obtain ⟨e1', hfe1'', hr1⟩ := hbin.head
  rw [hfe1'] at hfe1''
  cases hfe1''
  have hg1 : g ∈ e1.rdmo := by
    rcases hstash g hg with h1 | ⟨ge', hfg, hst⟩
    · exact h1
    · obtain ⟨ge2, hfg2, hl2, _⟩ := hgl.head
      rw [hnext] at hfg2
      simp only at hfg2
      rw [hfg] at hfg2
      cases hfg2
      rw [hst] at hl2; cases hl2
  obtain ⟨ef, hfef, hrf, _, hkeep⟩ := kept_while_in_bin steps hi1 hfe1' hr1 hbin
  obtain ⟨gef, hfg, hgl', hgk'⟩ := Always.last steps _ hgl
  have hmx := find_some_mem hfef
  obtain ⟨_, _, hm⟩ := revive_restores_dependents_and_live_dmo _ ct2 x es2 n2 hrev
  obtain ⟨re', ge', h1, h2, h3, h4, h5⟩ :=
    hm x ef hfef (by simp [inR, hrf, hmx.2]) g gef (hkeep g hg1 hgl) hfg hgk' hgl'
  obtain ⟨_, hr'⟩ := revive_restores_dependents_and_live_dmo _ ct2 x es2 n2 hrev
  obtain ⟨⟨_, e2, _, _, hfe2, hl2⟩, _⟩ := revive_restores_dependents_and_live_dmo _ ct2 x es2 n2 hrev
  rw [h1] at hfe2
  cases hfe2
  exact ⟨re', ge', h1, hl2, h2, h3, h4, h5⟩

/-- **Returning with its cascade-deleted dependents.**  `c` refers to `x`; `x` is deleted (so `c`
is, carrying the cascade mark); any history follows during which both stay in the bin; then the
revive of `x` succeeds.  Afterwards `c` is live and refers to `x` again. -/
theorem dependent_returns_after_revive {s0 : State} (hi : Inv s0) {ct : Nat} {ids : List Nat}
    {es1 : List Entry} {n : Option Nat} (hdel : apply s0 ct (.delete ids) = .ok es1 n)
    {x c : Nat} {e ce : Entry} (hx : find s0.es x = some e) (hl : e.st = .live) (hxi : x ∈ ids)
    (hc : find s0.es c = some ce) (hcl : ce.st = .live) (hcr : ce.refers = some x)
    (steps : List (Nat × Op))
    (hbin : Always (InBin c) (next s0 ct (.delete ids)) steps)
    {ct2 : Nat} {es2 : List Entry} {n2 : Option Nat}
    (hrev : apply (run (next s0 ct (.delete ids)) steps) ct2 (.revive x) = .ok es2 n2) :
    ∃ c2, find es2 c = some c2 ∧ c2.st = .live ∧ c2.refers = some x ∧ c2.casc = none := by
  have hnext : next s0 ct (.delete ids) = { s0 with es := es1, maxTs := txnTs s0 ct } := by
    unfold next; rw [hdel]; simp [commits]
  have hi1 : Inv (next s0 ct (.delete ids)) := inv_next hi ct _
  obtain ⟨c1, hfc1, hrc1, hcc1⟩ := delete_cascade hdel hx hl hxi hc hcl hcr
  have hfc1' : find (next s0 ct (.delete ids)).es c = some c1 := by rw [hnext]; exact hfc1
  obtain ⟨cf, hfcf, hrcf, hccf, _⟩ := kept_while_in_bin steps hi1 hfc1' hrc1 hbin
  obtain ⟨_, hdep, _⟩ := revive_restores_dependents_and_live_dmo _ ct2 x es2 n2 hrev
  exact hdep c cf hfcf hrcf (by rw [hccf, hcc1])

/-! ## retention: recycled → tombstone -/

/-- `purge_recycled` at a transaction stamped `ts` turns into tombstones exactly the recycled
entries last changed more than `RECYCLEBIN_MAX_AGE` before `ts` (strictly), stamps them `ts`,
strips them of everything, reports their number and touches nothing else. -/
theorem purge_recycled_exact (s : State) (ct : Nat) (es' : List Entry) (n : Option Nat)
    (h : apply s ct .purgeRecycled = .ok es' n) :
    es' = s.es.map (fun e =>
      if e.st = .recycled ∧ e.lastMod + recyclebinMaxAge * NS < txnTs s ct
      then tombE (txnTs s ct) e else e) ∧
    n = some ((s.es.filter (fun e =>
      decide (e.st = .recycled ∧ e.lastMod + recyclebinMaxAge * NS < txnTs s ct))).length) := by
  obtain ⟨trim, _, hap⟩ := apply_ok h
  simp only [applyOp, opPurgeRecycled] at hap
  split at hap
  · cases hap
  · rename_i cut hcut
    cases hap
    constructor
    · apply List.map_congr_left
      intro e _
      unfold purgeE
      by_cases hs : purgeSel s.sid cut e = true
      · rw [if_pos hs, if_pos ((purgeSel_iff hcut e).mp hs)]
      · rw [if_neg hs, if_neg (fun hc => hs ((purgeSel_iff hcut e).mpr hc))]
    · congr 2
      apply List.filter_congr
      intro e _
      by_cases hs : purgeSel s.sid cut e = true
      · rw [hs]; exact (decide_eq_true ((purgeSel_iff hcut e).mp hs)).symm
      · have : purgeSel s.sid cut e = false := by simpa using hs
        rw [this]
        exact (decide_eq_false (fun hc => hs ((purgeSel_iff hcut e).mpr hc))).symm

/-- **Only after the retention period does an entry become a tombstone.**  An entry that is in
the recycle bin, last stamped `d`, is neither a tombstone nor gone in any later state of any
history whose latest committed transaction is stamped at most `d + RECYCLEBIN_MAX_AGE` — whatever
was done in between (purges at any clock reading, revive and renewed delete, deletes of other
entries, clock regressions). -/
theorem tombstone_only_after_retention {s : State} (hi : Inv s) {x : Nat} {e : Entry}
    (hx : find s.es x = some e) (hr : e.st = .recycled) (steps : List (Nat × Op))
    (hwin : (run s steps).maxTs ≤ e.lastMod + recyclebinMaxAge * NS) :
    ∃ e', find (run s steps).es x = some e' ∧ e'.st ≠ .tomb := by
  have hd : e.lastMod ≤ s.maxTs := hi.stamp e (find_some_mem hx).1 (by rw [hr]; decide)
  obtain ⟨e', h1, h2, _⟩ := not_tomb_within steps hi hd
    ⟨e, hx, by rw [hr]; decide, fun _ => Nat.le_refl _⟩ hwin
  exact ⟨e', h1, h2⟩

/-- The same for an entry that is live now: deleted at any later point, it cannot be a tombstone
before a retention period has passed since now. -/
theorem live_not_tombstone_within_retention {s : State} (hi : Inv s) {x : Nat} {e : Entry}
    (hx : find s.es x = some e) (hl : e.st = .live) (steps : List (Nat × Op))
    (hwin : (run s steps).maxTs ≤ s.maxTs + recyclebinMaxAge * NS) :
    ∃ e', find (run s steps).es x = some e' ∧ e'.st ≠ .tomb := by
  obtain ⟨e', h1, h2, _⟩ := not_tomb_within steps hi (Nat.le_refl _)
    ⟨e, hx, by rw [hl]; decide, fun h => by rw [hl] at h; cases h⟩ hwin
  exact ⟨e', h1, h2⟩

/-! ## tombstones -/

/-- `purge_tombstones` at a transaction stamped `ts` removes exactly the tombstones created more
than `CHANGELOG_MAX_AGE` before `ts` (strictly) and nothing else. -/
theorem purge_tombstones_exact (s : State) (ct : Nat) (es' : List Entry) (n : Option Nat)
    (h : apply s ct .purgeTombstones = .ok es' n) :
    es' = s.es.filter (fun e =>
      !decide (e.st = .tomb ∧ e.lastMod + changelogMaxAge * NS < txnTs s ct)) := by
  obtain ⟨trim, htrim, hap⟩ := apply_ok h
  simp only [applyOp, opPurgeTombstones] at hap
  cases hap
  apply List.filter_congr
  intro e _
  by_cases hs : reapSel s.sid trim e = true
  · rw [hs, decide_eq_true ((reapSel_iff htrim e).mp hs)]
  · have : reapSel s.sid trim e = false := by simpa using hs
    rw [this, decide_eq_false (fun hc => hs ((reapSel_iff htrim e).mpr hc))]

/-- A tombstone never changes and never comes back: after any single transaction it is the same
tombstone, or it is gone — and then the transaction was a tombstone purge stamped more than
`CHANGELOG_MAX_AGE` after the tombstone was made. -/
theorem tombstone_final {s : State} (hi : Inv s) {x : Nat} {e : Entry}
    (hx : find s.es x = some e) (ht : e.st = .tomb) (ct : Nat) (op : Op) :
    find (next s ct op).es x = some e ∨
    (find (next s ct op).es x = none ∧ op = .purgeTombstones ∧
      e.lastMod + changelogMaxAge * NS < txnTs s ct) := by
  rcases tomb_step hi hx ht ct op with h | ⟨h1, h2, h3, _⟩
  · exact .inl h
  · exact .inr ⟨h1, h2, h3⟩

/-- **Tombstones are removed only after the changelog window.**  A tombstone made at `a` is
still there, unchanged, in every later state of every history whose latest committed transaction
is stamped at most `a + CHANGELOG_MAX_AGE`. -/
theorem reap_only_after_changelog_window {s : State} (hi : Inv s) {x : Nat} {e : Entry}
    (hx : find s.es x = some e) (ht : e.st = .tomb) (steps : List (Nat × Op))
    (hwin : (run s steps).maxTs ≤ e.lastMod + changelogMaxAge * NS) :
    find (run s steps).es x = some e :=
  tomb_within ht steps hi hx hwin

/-! ## non-vacuity and the known finding -/

def S : Nat := NS
def D : Nat := 86400 * NS
def T0 : Nat := 10000000 * NS

/-- person 1 in group 5 with certificate 9; the person is deleted (the certificate cascades),
survives a purge at exactly the end of the retention period, is revived one ns later with its
certificate and its membership; deleted again, it becomes a tombstone one ns after the period,
cannot be revived, survives a tombstone purge at exactly the end of the changelog window and is
gone one ns later. -/
def demo : List (Nat × Op) :=
  [(T0 + S, .createPerson 1), (T0 + 2 * S, .createGroup 5 [1]), (T0 + 3 * S, .createCert 9 1),
   (T0 + 10 * S, .delete [1]),
   (T0 + 10 * S + 7 * D, .purgeRecycled),
   (T0 + 10 * S + 7 * D + 1, .revive 1),
   (T0 + 20 * S + 7 * D, .delete [1]),
   (T0 + 20 * S + 14 * D + 1, .purgeRecycled),
   (T0 + 20 * S + 14 * D + 2, .revive 1),
   (T0 + 20 * S + 21 * D + 1, .purgeTombstones),
   (T0 + 20 * S + 21 * D + 2, .purgeTombstones)]

def demoAt (k : Nat) : State := run ⟨[], T0, 1⟩ (demo.take k)

def stOf (s : State) (x : Nat) : Option St := (find s.es x).map (·.st)

example : stOf (demoAt 4) 1 = some .recycled ∧ stOf (demoAt 4) 9 = some .recycled ∧
    searchNormal (demoAt 4).es = [5] ∧ searchRecycleBin (demoAt 4).es = [1, 9] := by decide
example : stOf (demoAt 5) 1 = some .recycled := by decide
example : stOf (demoAt 6) 1 = some .live ∧ stOf (demoAt 6) 9 = some .live ∧
    (find (demoAt 6).es 1).map (·.dmo) = some [5] ∧ (find (demoAt 6).es 5).map (·.member) = some [1] ∧
    (find (demoAt 6).es 9).map (·.refers) = some (some 1) := by decide
example : stOf (demoAt 8) 1 = some .tomb ∧ stOf (demoAt 8) 9 = some .tomb := by decide
example : demoAt 9 = demoAt 8 := by decide
example : stOf (demoAt 10) 1 = some .tomb := by decide
example : stOf (demoAt 11) 1 = none ∧ stOf (demoAt 11) 9 = none := by decide

/-- a certificate deleted on its own and revived on its own while its person is live
(`recycled_dependent_can_be_revived`) -/
def demo2 : List (Nat × Op) :=
  [(T0 + S, .createPerson 1), (T0 + 2 * S, .createCert 9 1), (T0 + 3 * S, .delete [9]),
   (T0 + 4 * S, .revive 9)]

example : stOf (run ⟨[], T0, 1⟩ (demo2.take 3)) 9 = some .recycled ∧
    stOf (run ⟨[], T0, 1⟩ demo2) 9 = some .live ∧
    (find (run ⟨[], T0, 1⟩ demo2).es 9).map (·.refers) = some (some 1) := by decide

/-- member ↔ directmemberof for one (group, entry) pair of live entries -/
def coherentAt (es : List Entry) (g y : Nat) : Bool :=
  match find es g, find es y with
  | some ge, some ye =>
    !(ge.st == .live && ye.st == .live && ge.kind == .group && ge.member.contains y) ||
      ye.dmo.contains g
  | _, _ => true

/-- The full statement "memberships are whole again after a revive" also needs the *members*
of a revived group to regain their directmemberof.  They do not (known finding D16). -/
def revive_coherent_full : Prop :=
  ∀ (steps : List (Nat × Op)) (g y : Nat), coherentAt (run ⟨[], T0, 1⟩ steps).es g y = true

def d16 : List (Nat × Op) :=
  [(T0 + S, .createPerson 1), (T0 + 2 * S, .createGroup 5 [1]), (T0 + 3 * S, .delete [5]),
   (T0 + 4 * S, .revive 5)]

/-- person 1 in group 5; the group is deleted and revived: it lists the person again, the
person's directmemberof stays empty. -/
theorem revived_group_members_not_restored_D16 :
    (find (run ⟨[], T0, 1⟩ d16).es 5).map (fun e => (e.st, e.member)) = some (.live, [1]) ∧
    (find (run ⟨[], T0, 1⟩ d16).es 1).map (fun e => (e.st, e.dmo)) = some (.live, []) := by
  decide

theorem revive_coherent_full_false : ¬ revive_coherent_full :=
  fun h => absurd (h d16 5 1) (by decide)

end Kanidm.Recycle
