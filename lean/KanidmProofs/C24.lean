import KanidmProofs.Lemmas.AccessWrite
/-
C24 — Writes need matching grants; protected objects stay protected.

All theorems are about the definitions of `KanidmModel/Access/Write.lean` that the driver `km_c24`
executes, instantiated at the tables `Kanidm.Gen.Access.*` regenerated from the Rust source on
every run. They hold for every identity, every list of profiles, every entry, every sync
agreement map and every modification list.

`specProtected` below is written by hand from the property statement ("protected classes") and the
documentation of `access/protected.rs`; the theorems speak about it, not about the generated
tables — a class dropped from a table in the source makes `spec_subset_*` (and with it the
property theorems) fail to build.
-/
namespace Kanidm.Access.Write
open Kanidm.Filter
open Kanidm.Gen.Access

/-- The protected classes of the property statement. -/
def specProtected : List Nat :=
  [C.System, C.DomainInfo, C.SystemInfo, C.SystemConfig, C.DynGroup, C.SyncObject, C.Tombstone,
   C.Recycled]

/-! ### the generated tables cover the specification -/

theorem spec_subset_strip_pres : ∀ c, c ∈ specProtected → c ∈ modifyStripPres := by decide
theorem spec_subset_strip_rem : ∀ c, c ∈ specProtected → c ≠ C.Recycled → c ∈ modifyStripRem := by
  decide
theorem spec_subset_create_gate : ∀ c, c ∈ specProtected → c ∈ createGateClasses := by decide
theorem spec_subset_delete_gate : ∀ c, c ∈ specProtected → c ∈ deleteGateClasses := by decide
theorem tombstone_in_modify_gate : C.Tombstone ∈ modifyGateClasses := by decide
theorem tombstone_locked_class : C.Tombstone ∈ lockedEntryClasses := by decide
theorem recycled_not_locked : C.Recycled ∉ lockedEntryClasses := by decide

/-! ### what a request adds and removes -/

/-- The attribute a modification adds values to (`Present`, `Set`). -/
def Mod.addsAttr : Mod → Option Nat
  | .present a _ | .set a _ => some a
  | _ => none

/-- The attribute a modification removes values from (`Removed`, `Purged`, `Set`). -/
def Mod.removesAttr : Mod → Option Nat
  | .removed a _ | .purged a | .set a _ => some a
  | _ => none

/-- The request adds class `c` to the entry. -/
def AddsClass (e : Ent) (ml : List Mod) (c : Nat) : Prop :=
  Mod.present A.Class c ∈ ml ∨
    ∃ vs, Mod.set A.Class vs ∈ ml ∧ c ∈ vs ∧ ∀ cur, e.classes = some cur → c ∉ cur

/-- The request removes class `c` from the entry. -/
def RemovesClass (e : Ent) (ml : List Mod) (c : Nat) : Prop :=
  Mod.removed A.Class c ∈ ml ∨
    ∃ vs, Mod.set A.Class vs ∈ ml ∧ c ∉ vs ∧ ∃ cur, e.classes = some cur ∧ c ∈ cur

theorem addsAttr_mem_requestedPres {ml : List Mod} {m : Mod} {a : Nat} (hm : m ∈ ml)
    (ha : m.addsAttr = some a) : a ∈ requestedPres ml := by
  unfold requestedPres
  rw [List.mem_filterMap]
  refine ⟨m, hm, ?_⟩
  cases m <;> simp_all [Mod.addsAttr]

theorem removesAttr_mem_requestedRem {ml : List Mod} {m : Mod} {a : Nat} (hm : m ∈ ml)
    (ha : m.removesAttr = some a) : a ∈ requestedRem ml := by
  unfold requestedRem
  rw [List.mem_filterMap]
  refine ⟨m, hm, ?_⟩
  cases m <;> simp_all [Mod.removesAttr]

theorem requestedClasses_spec (e : Ent) : ∀ (ml : List Mod) (p r : List Nat),
    requestedClasses e ml = some (p, r) →
      (∀ c, AddsClass e ml c → c ∈ p) ∧ (∀ c, RemovesClass e ml c → c ∈ r) := by
  intro ml
  induction ml with
  | nil =>
    intro p r _
    constructor
    · intro c h; rcases h with h | ⟨vs, h, _⟩ <;> cases h
    · intro c h; rcases h with h | ⟨vs, h, _⟩ <;> cases h
  | cons m rest ih =>
    intro p r h
    unfold requestedClasses at h
    cases hrest : requestedClasses e rest with
    | none => simp [hrest] at h
    | some pr =>
      obtain ⟨p0, r0⟩ := pr
      obtain ⟨ihp, ihr⟩ := ih p0 r0 hrest
      simp only [hrest] at h
      -- lift the facts about the tail
      have tailA : ∀ c, AddsClass e (m :: rest) c →
          AddsClass e rest c ∨ m = .present A.Class c ∨
            ∃ vs, m = .set A.Class vs ∧ c ∈ vs ∧ ∀ cur, e.classes = some cur → c ∉ cur := by
        intro c hc
        rcases hc with hc | ⟨vs, hvs, h1, h2⟩
        · rcases List.mem_cons.mp hc with hc | hc
          · exact Or.inr (Or.inl hc.symm)
          · exact Or.inl (Or.inl hc)
        · rcases List.mem_cons.mp hvs with hc | hc
          · exact Or.inr (Or.inr ⟨vs, hc.symm, h1, h2⟩)
          · exact Or.inl (Or.inr ⟨vs, hc, h1, h2⟩)
      have tailR : ∀ c, RemovesClass e (m :: rest) c →
          RemovesClass e rest c ∨ m = .removed A.Class c ∨
            ∃ vs, m = .set A.Class vs ∧ c ∉ vs ∧ ∃ cur, e.classes = some cur ∧ c ∈ cur := by
        intro c hc
        rcases hc with hc | ⟨vs, hvs, h1, h2⟩
        · rcases List.mem_cons.mp hc with hc | hc
          · exact Or.inr (Or.inl hc.symm)
          · exact Or.inl (Or.inl hc)
        · rcases List.mem_cons.mp hvs with hc | hc
          · exact Or.inr (Or.inr ⟨vs, hc.symm, h1, h2⟩)
          · exact Or.inl (Or.inr ⟨vs, hc, h1, h2⟩)
      cases m with
      | present a v =>
        by_cases ha : a = A.Class
        · subst ha
          simp at h
          obtain ⟨rfl, rfl⟩ := h
          constructor
          · intro c hc
            rcases tailA c hc with h | h | ⟨vs, h, _⟩
            · exact List.mem_cons_of_mem _ (ihp c h)
            · cases h; exact List.mem_cons_self
            · cases h
          · intro c hc
            rcases tailR c hc with h | h | ⟨vs, h, _⟩
            · exact ihr c h
            · cases h
            · cases h
        · have : (a == A.Class) = false := by simpa using ha
          simp [this] at h
          obtain ⟨rfl, rfl⟩ := h
          constructor
          · intro c hc
            rcases tailA c hc with h | h | ⟨vs, h, _⟩
            · exact ihp c h
            · cases h; exact absurd rfl ha
            · cases h
          · intro c hc
            rcases tailR c hc with h | h | ⟨vs, h, _⟩
            · exact ihr c h
            · cases h
            · cases h
      | removed a v =>
        by_cases ha : a = A.Class
        · subst ha
          simp at h
          obtain ⟨rfl, rfl⟩ := h
          constructor
          · intro c hc
            rcases tailA c hc with h | h | ⟨vs, h, _⟩
            · exact ihp c h
            · cases h
            · cases h
          · intro c hc
            rcases tailR c hc with h | h | ⟨vs, h, _⟩
            · exact List.mem_cons_of_mem _ (ihr c h)
            · cases h; exact List.mem_cons_self
            · cases h
        · have : (a == A.Class) = false := by simpa using ha
          simp [this] at h
          obtain ⟨rfl, rfl⟩ := h
          constructor
          · intro c hc
            rcases tailA c hc with h | h | ⟨vs, h, _⟩
            · exact ihp c h
            · cases h
            · cases h
          · intro c hc
            rcases tailR c hc with h | h | ⟨vs, h, _⟩
            · exact ihr c h
            · cases h; exact absurd rfl ha
            · cases h
      | purged a =>
        simp at h
        obtain ⟨rfl, rfl⟩ := h
        constructor
        · intro c hc
          rcases tailA c hc with h | h | ⟨vs, h, _⟩
          · exact ihp c h
          · cases h
          · cases h
        · intro c hc
          rcases tailR c hc with h | h | ⟨vs, h, _⟩
          · exact ihr c h
          · cases h
          · cases h
      | assert a v =>
        simp at h
        obtain ⟨rfl, rfl⟩ := h
        constructor
        · intro c hc
          rcases tailA c hc with h | h | ⟨vs, h, _⟩
          · exact ihp c h
          · cases h
          · cases h
        · intro c hc
          rcases tailR c hc with h | h | ⟨vs, h, _⟩
          · exact ihr c h
          · cases h
          · cases h
      | set a vs =>
        by_cases ha : a = A.Class
        · subst ha
          cases hcls : e.classes with
          | none => simp [hcls] at h
          | some cur =>
            simp [hcls] at h
            obtain ⟨rfl, rfl⟩ := h
            constructor
            · intro c hc
              rcases tailA c hc with h | h | ⟨vs', h, h1, h2⟩
              · exact List.mem_append.mpr (Or.inr (ihp c h))
              · cases h
              · cases h
                exact List.mem_append.mpr (Or.inl ((mem_minus _ _ _).mpr ⟨h1, h2 cur hcls⟩))
            · intro c hc
              rcases tailR c hc with h | h | ⟨vs', h, h1, cur', h2, h3⟩
              · exact List.mem_append.mpr (Or.inr (ihr c h))
              · cases h
              · cases h
                rw [hcls] at h2
                cases h2
                exact List.mem_append.mpr (Or.inl ((mem_minus _ _ _).mpr ⟨h3, h1⟩))
        · have : (a == A.Class) = false := by simpa using ha
          simp [this] at h
          obtain ⟨rfl, rfl⟩ := h
          constructor
          · intro c hc
            rcases tailA c hc with h | h | ⟨vs', h, _⟩
            · exact ihp c h
            · cases h
            · cases h; exact absurd rfl ha
          · intro c hc
            rcases tailR c hc with h | h | ⟨vs', h, _⟩
            · exact ihr c h
            · cases h
            · cases h; exact absurd rfl ha

/-- A profile that applies (after `modify_related_acp` and the per-entry conditions) is one of
the configured profiles and matches identity and entry. -/
theorem scopedModify_matches {id : Ident} {acps : List AcpModify} {e : Ent} {p : AcpModify}
    (h : p ∈ scopedModify id (modifyRelatedAcp id acps) e) :
    p ∈ acps ∧ ProfileMatches id p.acp e.managedBy e.fe := by
  unfold scopedModify at h
  rw [List.mem_map] at h
  obtain ⟨r, hr, rfl⟩ := h
  rw [List.mem_filter] at hr
  obtain ⟨hrel, hsc⟩ := hr
  unfold modifyScoped at hsc
  rw [Bool.and_eq_true] at hsc
  exact scoped_matches (prof := (·.acp)) hrel e.managedBy e.fe hsc.1 hsc.2

/-- Unfolding of an allowed per-entry decision for a user. -/
theorem modifyAllow_user_unfold {id : Ident} (hu : IsUser id) (rel : List (Resolved AcpModify))
    (ag : List (Nat × List Nat)) (e : Ent) (ml : List Mod)
    (h : modifyAllowPerEntry id rel ag e ml = true) :
    ∃ a p r, applyModifyAccess id rel ag e = .allow a ∧ requestedClasses e ml = some (p, r) ∧
      subset (requestedPres ml) a.pres = true ∧ subset (requestedRem ml) a.rem = true ∧
      subset p a.presCls = true ∧ subset r a.remCls = true := by
  unfold modifyAllowPerEntry at h
  simp only [] at h
  split at h
  · cases h
  · cases hrc : requestedClasses e ml with
    | none => simp [hrc] at h
    | some pr =>
      obtain ⟨p, r⟩ := pr
      simp only [hrc] at h
      split at h
      · cases h
      · rcases applyModify_user hu rel ag e with hd | ⟨a, ha, _⟩
        · simp [hd] at h
        · simp only [ha, Bool.and_eq_true] at h
          exact ⟨a, p, r, ha, rfl, h.1.1.1, h.1.1.2, h.1.2, h.2⟩

/-! ## The property -/

/-- **Writes need matching grants (modify).** If a user's modification of an entry is allowed,
the user holds a read-write session and every attribute it adds or removes, and every class it
adds or removes, is granted by one of the configured profiles whose receiver matches the user and
whose target matches that entry. -/
theorem modify_allowed_has_grant (id : Ident) (hu : IsUser id) (acps : List AcpModify)
    (ag : List (Nat × List Nat)) (e : Ent) (ml : List Mod)
    (h : modifyAllowPerEntry id (modifyRelatedAcp id acps) ag e ml = true) :
    id.scope = .readWrite ∧
    (∀ m, m ∈ ml → ∀ a, m.addsAttr = some a →
      ∃ p, p ∈ acps ∧ ProfileMatches id p.acp e.managedBy e.fe ∧ a ∈ p.presAttrs) ∧
    (∀ m, m ∈ ml → ∀ a, m.removesAttr = some a →
      ∃ p, p ∈ acps ∧ ProfileMatches id p.acp e.managedBy e.fe ∧ a ∈ p.remAttrs) ∧
    (∀ c, AddsClass e ml c →
      ∃ p, p ∈ acps ∧ ProfileMatches id p.acp e.managedBy e.fe ∧ c ∈ p.presClasses) ∧
    (∀ c, RemovesClass e ml c →
      ∃ p, p ∈ acps ∧ ProfileMatches id p.acp e.managedBy e.fe ∧ c ∈ p.remClasses) := by
  obtain ⟨a, p, r, ha, hrc, h1, h2, h3, h4⟩ := modifyAllow_user_unfold hu _ ag e ml h
  rcases applyModify_user hu (modifyRelatedAcp id acps) ag e with hd | ⟨a', ha', hsc, hp, hr, hpc, hrcl, _, _⟩
  · rw [hd] at ha; cases ha
  rw [ha] at ha'
  cases ha'
  obtain ⟨hadd, hrem⟩ := requestedClasses_spec e ml p r hrc
  refine ⟨hsc, ?_, ?_, ?_, ?_⟩
  · intro m hm x hx
    obtain ⟨q, hq, hxq⟩ := hp x ((subset_iff _ _).mp h1 x (addsAttr_mem_requestedPres hm hx))
    exact ⟨q, (scopedModify_matches hq).1, (scopedModify_matches hq).2, hxq⟩
  · intro m hm x hx
    obtain ⟨q, hq, hxq⟩ := hr x ((subset_iff _ _).mp h2 x (removesAttr_mem_requestedRem hm hx))
    exact ⟨q, (scopedModify_matches hq).1, (scopedModify_matches hq).2, hxq⟩
  · intro c hc
    obtain ⟨_, q, hq, hxq⟩ := hpc c ((subset_iff _ _).mp h3 c (hadd c hc))
    exact ⟨q, (scopedModify_matches hq).1, (scopedModify_matches hq).2, hxq⟩
  · intro c hc
    obtain ⟨_, q, hq, hxq⟩ := hrcl c ((subset_iff _ _).mp h4 c (hrem c hc))
    exact ⟨q, (scopedModify_matches hq).1, (scopedModify_matches hq).2, hxq⟩

/-- **No user can add a protected class** by modifying an entry, whatever the profiles grant. -/
theorem protected_class_never_added (id : Ident) (hu : IsUser id) (acps : List AcpModify)
    (ag : List (Nat × List Nat)) (e : Ent) (ml : List Mod)
    (h : modifyAllowPerEntry id (modifyRelatedAcp id acps) ag e ml = true) :
    ∀ c, c ∈ specProtected → ¬ AddsClass e ml c := by
  intro c hc hadd
  obtain ⟨a, p, r, ha, hrc, _, _, h3, _⟩ := modifyAllow_user_unfold hu _ ag e ml h
  rcases applyModify_user hu (modifyRelatedAcp id acps) ag e with hd | ⟨a', ha', _, _, _, hpc, _, _, _⟩
  · rw [hd] at ha; cases ha
  rw [ha] at ha'
  cases ha'
  have := (requestedClasses_spec e ml p r hrc).1 c hadd
  exact (hpc c ((subset_iff _ _).mp h3 c this)).1 (spec_subset_strip_pres c hc)

/-- **No user can remove a protected class** — other than `recycled` (which is what a revive
removes). -/
theorem protected_class_never_removed_except_recycled (id : Ident) (hu : IsUser id)
    (acps : List AcpModify) (ag : List (Nat × List Nat)) (e : Ent) (ml : List Mod)
    (h : modifyAllowPerEntry id (modifyRelatedAcp id acps) ag e ml = true) :
    ∀ c, c ∈ specProtected → c ≠ C.Recycled → ¬ RemovesClass e ml c := by
  intro c hc hne hrm
  obtain ⟨a, p, r, ha, hrc, _, _, _, h4⟩ := modifyAllow_user_unfold hu _ ag e ml h
  rcases applyModify_user hu (modifyRelatedAcp id acps) ag e with hd | ⟨a', ha', _, _, _, _, hrcl, _, _⟩
  · rw [hd] at ha; cases ha
  rw [ha] at ha'
  cases ha'
  have := (requestedClasses_spec e ml p r hrc).2 c hrm
  exact (hrcl c ((subset_iff _ _).mp h4 c this)).1 (spec_subset_strip_rem c hc hne)

/-- **Purging `class` is refused** for every identity (also the internal ones). -/
theorem purge_class_denied (id : Ident) (rel : List (Resolved AcpModify))
    (ag : List (Nat × List Nat)) (e : Ent) (ml : List Mod) (h : Mod.purged A.Class ∈ ml) :
    modifyAllowPerEntry id rel ag e ml = false := by
  unfold modifyAllowPerEntry
  have : (ml.any fun m => match m with | .purged a => a == A.Class | _ => false) = true := by
    rw [List.any_eq_true]
    exact ⟨_, h, by simp⟩
  simp only []
  split
  · rfl
  · rename_i hn
    exact absurd this hn

/-- **Tombstones are locked**: nobody but the internal System role can modify one. -/
theorem tombstone_locked (id : Ident) (hns : id.origin ≠ .internal .system)
    (rel : List (Resolved AcpModify)) (ag : List (Nat × List Nat)) (e : Ent) (ml : List Mod)
    (cs : List Nat) (hcs : e.classes = some cs) (ht : C.Tombstone ∈ cs) :
    modifyAllowPerEntry id rel ag e ml = false := by
  have hnd : disjoint cs modifyGateClasses = false := not_disjoint_of_mem ht tombstone_in_modify_gate
  have hnl : disjoint cs lockedEntryClasses = false := not_disjoint_of_mem ht tombstone_locked_class
  have hdeny : applyModifyAccess id rel ag e = .deny := by
    cases ho : id.origin with
    | synch u =>
      have : modifyIdentTest id = .deny := modifyIdentTest_synch ⟨u, ho⟩
      simp [applyModifyAccess, this]
    | user u mo =>
      have hp : modifyProtectedAttrs id e = .deny := by
        simp [modifyProtectedAttrs, ho, hcs, hnd, modifyProtectedEntryAttrs, hnl]
      rcases applyModify_user ⟨u, mo, ho⟩ rel ag e with hd | ⟨a, _, _, _, _, _, _, hnp, _⟩
      · exact hd
      · exact absurd hp hnp
    | internal r =>
      cases r with
      | system => exact absurd ho hns
      | migration =>
        have hp : modifyProtectedAttrs id e = .deny := by
          simp [modifyProtectedAttrs, ho, hcs, hnd, modifyProtectedEntryAttrs, hnl]
        simp [applyModifyAccess, hp]
      | accountRequest =>
        have : modifyIdentTest id = .deny := by
          simp [modifyIdentTest, ho, Origin.code, modifyOriginGate]
        simp [applyModifyAccess, this]
      | messageQueue =>
        have : modifyIdentTest id = .deny := by
          simp [modifyIdentTest, ho, Origin.code, modifyOriginGate]
        simp [applyModifyAccess, this]
  unfold modifyAllowPerEntry
  simp only []
  split
  · rfl
  · split
    · rfl
    · split
      · rfl
      · simp [hdeny]

/-- **Read-only identities never write; sync-scoped sessions neither** (modify). -/
theorem readonly_never_modifies (id : Ident) (hu : IsUser id) (hs : id.scope ≠ .readWrite)
    (rel : List (Resolved AcpModify)) (ag : List (Nat × List Nat)) (e : Ent) (ml : List Mod) :
    modifyAllowPerEntry id rel ag e ml = false := by
  cases h : modifyAllowPerEntry id rel ag e ml with
  | false => rfl
  | true =>
    obtain ⟨a, _, _, ha, _⟩ := modifyAllow_user_unfold hu rel ag e ml h
    rcases applyModify_user hu rel ag e with hd | ⟨_, _, hsc, _⟩
    · rw [hd] at ha; cases ha
    · exact absurd hsc hs

/-- **Synchronisation identities cannot modify.** -/
theorem sync_ident_cannot_modify (id : Ident) (hs : IsSynch id)
    (rel : List (Resolved AcpModify)) (ag : List (Nat × List Nat)) (e : Ent) (ml : List Mod) :
    modifyAllowPerEntry id rel ag e ml = false := by
  have hdeny : applyModifyAccess id rel ag e = .deny := by
    simp [applyModifyAccess, modifyIdentTest_synch hs]
  unfold modifyAllowPerEntry
  simp only []
  split
  · rfl
  · split
    · rfl
    · split
      · rfl
      · simp [hdeny]

/-- **Protected objects stay protected (modify).** On a builtin entry (uuid in the system range)
or an entry carrying a class of the modify gate, a user may only touch the attributes the
per-class constraint table leaves open (plus, on a synced entry, what the sync rule leaves
open) — whatever the profiles grant. -/
theorem protected_entry_constrained (id : Ident) (hu : IsUser id) (acps : List AcpModify)
    (ag : List (Nat × List Nat)) (e : Ent) (ml : List Mod) (cs : List Nat)
    (hcs : e.classes = some cs)
    (hprot : e.uuid ≤ uuidAnonymous ∨ ∃ c, c ∈ cs ∧ c ∈ modifyGateClasses)
    (h : modifyAllowPerEntry id (modifyRelatedAcp id acps) ag e ml = true) :
    ∀ m, m ∈ ml → ∀ a, (m.addsAttr = some a ∨ m.removesAttr = some a) →
      a ∈ protectedOpenAttrs cs ∨ a ∈ conOf (modifySyncConstrain id e ag) := by
  obtain ⟨u, mo, ho⟩ := hu
  have hgate : (modifyAnonCmp e.uuid uuidAnonymous && disjoint cs modifyGateClasses) = false := by
    rcases hprot with hle | ⟨c, hc1, hc2⟩
    · have : modifyAnonCmp e.uuid uuidAnonymous = false := by
        simp [modifyAnonCmp]; omega
      simp [this]
    · simp [not_disjoint_of_mem hc1 hc2]
  have hp : modifyProtectedAttrs id e = modifyProtectedEntryAttrs cs := by
    simp [modifyProtectedAttrs, ho, hcs, hgate]
  obtain ⟨a, p, r, ha, _, h1, h2, _, _⟩ := modifyAllow_user_unfold ⟨u, mo, ho⟩ _ ag e ml h
  rcases applyModify_user ⟨u, mo, ho⟩ (modifyRelatedAcp id acps) ag e with hd | ⟨a', ha', _, _, _, _, _, hnp, hcon⟩
  · rw [hd] at ha; cases ha
  rw [ha] at ha'
  cases ha'
  rcases protectedEntry_shape cs with hd | ⟨_, _, hc⟩
  · rw [hp] at hnp; exact absurd hd hnp
  · obtain ⟨hcp, hcr⟩ := hcon _ (by rw [hp]; exact hc)
    intro m hm x hx
    rcases hx with hx | hx
    · exact hcp x ((subset_iff _ _).mp h1 x (addsAttr_mem_requestedPres hm hx))
    · exact hcr x ((subset_iff _ _).mp h2 x (removesAttr_mem_requestedRem hm hx))

end Kanidm.Access.Write
