import KanidmProofs.Lemmas.AccessWrite
/-
C24 — Writes need matching grants; protected objects stay protected.

All theorems are about the definitions of `KanidmModel/Access/Write.lean` that the driver `km_c24`
executes, instantiated at the tables `Kanidm.Gen.Access.*` regenerated from the Rust source on
every run. They hold for every identity, every list of profiles, every entry, every sync
agreement map and every modification list.

`specProtected` below is written by hand from the property statement ("protected classes") and the
documentation of `access/protected.rs`; the theorems speak about it, not about the generated
tables — a class dropped from a table in the source makes `spec_subset_*` (and with it the
property theorems) fail to build.
-/
namespace Kanidm.Access.Write
open Kanidm.Filter
open Kanidm.Gen.Access

/-- The protected classes of the property statement. -/
def specProtected : List Nat :=
  [C.System, C.DomainInfo, C.SystemInfo, C.SystemConfig, C.DynGroup, C.SyncObject, C.Tombstone,
   C.Recycled]

/-! ### the generated tables cover the specification -/

theorem spec_subset_strip_pres : ∀ c, c ∈ specProtected → c ∈ modifyStripPres := by decide
theorem spec_subset_strip_rem : ∀ c, c ∈ specProtected → c ≠ C.Recycled → c ∈ modifyStripRem := by
  decide
theorem spec_subset_create_gate : ∀ c, c ∈ specProtected → c ∈ createGateClasses := by decide
theorem spec_subset_delete_gate : ∀ c, c ∈ specProtected → c ∈ deleteGateClasses := by decide
theorem tombstone_in_modify_gate : C.Tombstone ∈ modifyGateClasses := by decide
theorem tombstone_locked_class : C.Tombstone ∈ lockedEntryClasses := by decide
theorem recycled_not_locked : C.Recycled ∉ lockedEntryClasses := by decide

/-! ### what a request adds and removes -/

/-- The attribute a modification adds values to (`Present`, `Set`). -/
def Mod.addsAttr : Mod → Option Nat
  | .present a _ | .set a _ => some a
  | _ => none

/-- The attribute a modification removes values from (`Removed`, `Purged`, `Set`). -/
def Mod.removesAttr : Mod → Option Nat
  | .removed a _ | .purged a | .set a _ => some a
  | _ => none

/-- The request adds class `c` to the entry. -/
def AddsClass (e : Ent) (ml : List Mod) (c : Nat) : Prop :=
  Mod.present A.Class c ∈ ml ∨
    ∃ vs, Mod.set A.Class vs ∈ ml ∧ c ∈ vs ∧ ∀ cur, e.classes = some cur → c ∉ cur

/-- The request removes class `c` from the entry. -/
def RemovesClass (e : Ent) (ml : List Mod) (c : Nat) : Prop :=
  Mod.removed A.Class c ∈ ml ∨
    ∃ vs, Mod.set A.Class vs ∈ ml ∧ c ∉ vs ∧ ∃ cur, e.classes = some cur ∧ c ∈ cur

theorem addsAttr_mem_requestedPres {ml : List Mod} {m : Mod} {a : Nat} (hm : m ∈ ml)
    (ha : m.addsAttr = some a) : a ∈ requestedPres ml := by
  unfold requestedPres
  rw [List.mem_filterMap]
  refine ⟨m, hm, ?_⟩
  cases m <;> simp_all [Mod.addsAttr]

theorem removesAttr_mem_requestedRem {ml : List Mod} {m : Mod} {a : Nat} (hm : m ∈ ml)
    (ha : m.removesAttr = some a) : a ∈ requestedRem ml := by
  unfold requestedRem
  rw [List.mem_filterMap]
  refine ⟨m, hm, ?_⟩
  cases m <;> simp_all [Mod.removesAttr]

theorem requestedClasses_spec (e : Ent) : ∀ (ml : List Mod) (p r : List Nat),
    requestedClasses e ml = some (p, r) →
      (∀ c, AddsClass e ml c → c ∈ p) ∧ (∀ c, RemovesClass e ml c → c ∈ r) := by
  intro ml
  induction ml with
  | nil =>
    intro p r _
    constructor
    · intro c h; rcases h with h | ⟨vs, h, _⟩ <;> cases h
    · intro c h; rcases h with h | ⟨vs, h, _⟩ <;> cases h
  | cons m rest ih =>
    intro p r h
    unfold requestedClasses at h
    cases hrest : requestedClasses e rest with
    | none => simp [hrest] at h
    | some pr =>
      obtain ⟨p0, r0⟩ := pr
      obtain ⟨ihp, ihr⟩ := ih p0 r0 hrest
      simp only [hrest] at h
      -- lift the facts about the tail
      have tailA : ∀ c, AddsClass e (m :: rest) c →
          AddsClass e rest c ∨ m = .present A.Class c ∨
            ∃ vs, m = .set A.Class vs ∧ c ∈ vs ∧ ∀ cur, e.classes = some cur → c ∉ cur := by
        intro c hc
        rcases hc with hc | ⟨vs, hvs, h1, h2⟩
        · rcases List.mem_cons.mp hc with hc | hc
          · exact Or.inr (Or.inl hc.symm)
          · exact Or.inl (Or.inl hc)
        · rcases List.mem_cons.mp hvs with hc | hc
          · exact Or.inr (Or.inr ⟨vs, hc.symm, h1, h2⟩)
          · exact Or.inl (Or.inr ⟨vs, hc, h1, h2⟩)
      have tailR : ∀ c, RemovesClass e (m :: rest) c →
          RemovesClass e rest c ∨ m = .removed A.Class c ∨
            ∃ vs, m = .set A.Class vs ∧ c ∉ vs ∧ ∃ cur, e.classes = some cur ∧ c ∈ cur := by
        intro c hc
        rcases hc with hc | ⟨vs, hvs, h1, h2⟩
        · rcases List.mem_cons.mp hc with hc | hc
          · exact Or.inr (Or.inl hc.symm)
          · exact Or.inl (Or.inl hc)
        · rcases List.mem_cons.mp hvs with hc | hc
          · exact Or.inr (Or.inr ⟨vs, hc.symm, h1, h2⟩)
          · exact Or.inl (Or.inr ⟨vs, hc, h1, h2⟩)
      cases m with
      | present a v =>
        by_cases ha : a = A.Class
        · subst ha
          simp at h
          obtain ⟨rfl, rfl⟩ := h
          constructor
          · intro c hc
            rcases tailA c hc with h | h | ⟨vs, h, _⟩
            · exact List.mem_cons_of_mem _ (ihp c h)
            · cases h; exact List.mem_cons_self
            · cases h
          · intro c hc
            rcases tailR c hc with h | h | ⟨vs, h, _⟩
            · exact ihr c h
            · cases h
            · cases h
        · have : (a == A.Class) = false := by simpa using ha
          simp [this] at h
          obtain ⟨rfl, rfl⟩ := h
          constructor
          · intro c hc
            rcases tailA c hc with h | h | ⟨vs, h, _⟩
            · exact ihp c h
            · cases h; exact absurd rfl ha
            · cases h
          · intro c hc
            rcases tailR c hc with h | h | ⟨vs, h, _⟩
            · exact ihr c h
            · cases h
            · cases h
      | removed a v =>
        by_cases ha : a = A.Class
        · subst ha
          simp at h
          obtain ⟨rfl, rfl⟩ := h
          constructor
          · intro c hc
            rcases tailA c hc with h | h | ⟨vs, h, _⟩
            · exact ihp c h
            · cases h
            · cases h
          · intro c hc
            rcases tailR c hc with h | h | ⟨vs, h, _⟩
            · exact List.mem_cons_of_mem _ (ihr c h)
            · cases h; exact List.mem_cons_self
            · cases h
        · have : (a == A.Class) = false := by simpa using ha
          simp [this] at h
          obtain ⟨rfl, rfl⟩ := h
          constructor
          · intro c hc
            rcases tailA c hc with h | h | ⟨vs, h, _⟩
            · exact ihp c h
            · cases h
            · cases h
          · intro c hc
            rcases tailR c hc with h | h | ⟨vs, h, _⟩
            · exact ihr c h
            · cases h; exact absurd rfl ha
            · cases h
      | purged a =>
        simp at h
        obtain ⟨rfl, rfl⟩ := h
        constructor
        · intro c hc
          rcases tailA c hc with h | h | ⟨vs, h, _⟩
          · exact ihp c h
          · cases h
          · cases h
        · intro c hc
          rcases tailR c hc with h | h | ⟨vs, h, _⟩
          · exact ihr c h
          · cases h
          · cases h
      | assert a v =>
        simp at h
        obtain ⟨rfl, rfl⟩ := h
        constructor
        · intro c hc
          rcases tailA c hc with h | h | ⟨vs, h, _⟩
          · exact ihp c h
          · cases h
          · cases h
        · intro c hc
          rcases tailR c hc with h | h | ⟨vs, h, _⟩
          · exact ihr c h
          · cases h
          · cases h
      | set a vs =>
        by_cases ha : a = A.Class
        · subst ha
          cases hcls : e.classes with
          | none => simp [hcls] at h
          | some cur =>
            simp [hcls] at h
            obtain ⟨rfl, rfl⟩ := h
            constructor
            · intro c hc
              rcases tailA c hc with h | h | ⟨vs', h, h1, h2⟩
              · exact List.mem_append.mpr (Or.inr (ihp c h))
              · cases h
              · cases h
                exact List.mem_append.mpr (Or.inl ((mem_minus _ _ _).mpr ⟨h1, h2 cur hcls⟩))
            · intro c hc
              rcases tailR c hc with h | h | ⟨vs', h, h1, cur', h2, h3⟩
              · exact List.mem_append.mpr (Or.inr (ihr c h))
              · cases h
              · cases h
                rw [hcls] at h2
                cases h2
                exact List.mem_append.mpr (Or.inl ((mem_minus _ _ _).mpr ⟨h3, h1⟩))
        · have : (a == A.Class) = false := by simpa using ha
          simp [this] at h
          obtain ⟨rfl, rfl⟩ := h
          constructor
          · intro c hc
            rcases tailA c hc with h | h | ⟨vs', h, _⟩
            · exact ihp c h
            · cases h
            · cases h; exact absurd rfl ha
          · intro c hc
            rcases tailR c hc with h | h | ⟨vs', h, _⟩
            · exact ihr c h
            · cases h
            · cases h; exact absurd rfl ha

/-- A profile that applies (after `modify_related_acp` and the per-entry conditions) is one of
the configured profiles and matches identity and entry. -/
theorem scopedModify_matches {id : Ident} {acps : List AcpModify} {e : Ent} {p : AcpModify}
    (h : p ∈ scopedModify id (modifyRelatedAcp id acps) e) :
    p ∈ acps ∧ ProfileMatches id p.acp e.managedBy e.fe := by
  unfold scopedModify at h
  rw [List.mem_map] at h
  obtain ⟨r, hr, rfl⟩ := h
  rw [List.mem_filter] at hr
  obtain ⟨hrel, hsc⟩ := hr
  unfold modifyScoped at hsc
  rw [Bool.and_eq_true] at hsc
  exact scoped_matches (prof := (·.acp)) hrel e.managedBy e.fe hsc.1 hsc.2

/-- Unfolding of an allowed per-entry decision for a user. -/
theorem modifyAllow_user_unfold {id : Ident} (hu : IsUser id) (rel : List (Resolved AcpModify))
    (ag : List (Nat × List Nat)) (e : Ent) (ml : List Mod)
    (h : modifyAllowPerEntry id rel ag e ml = true) :
    ∃ a p r, applyModifyAccess id rel ag e = .allow a ∧ requestedClasses e ml = some (p, r) ∧
      subset (requestedPres ml) a.pres = true ∧ subset (requestedRem ml) a.rem = true ∧
      subset p a.presCls = true ∧ subset r a.remCls = true := by
  unfold modifyAllowPerEntry at h
  simp only [] at h
  split at h
  · cases h
  · cases hrc : requestedClasses e ml with
    | none => simp [hrc] at h
    | some pr =>
      obtain ⟨p, r⟩ := pr
      simp only [hrc] at h
      split at h
      · cases h
      · rcases applyModify_user hu rel ag e with hd | ⟨a, ha, _⟩
        · simp [hd] at h
        · simp only [ha, Bool.and_eq_true] at h
          exact ⟨a, p, r, ha, rfl, h.1.1.1, h.1.1.2, h.1.2, h.2⟩

/-! ## The property -/

/-- **Writes need matching grants (modify).** If a user's modification of an entry is allowed,
the user holds a read-write session and every attribute it adds or removes, and every class it
adds or removes, is granted by one of the configured profiles whose receiver matches the user and
whose target matches that entry. -/
theorem modify_allowed_has_grant (id : Ident) (hu : IsUser id) (acps : List AcpModify)
    (ag : List (Nat × List Nat)) (e : Ent) (ml : List Mod)
    (h : modifyAllowPerEntry id (modifyRelatedAcp id acps) ag e ml = true) :
    id.scope = .readWrite ∧
    (∀ m, m ∈ ml → ∀ a, m.addsAttr = some a →
      ∃ p, p ∈ acps ∧ ProfileMatches id p.acp e.managedBy e.fe ∧ a ∈ p.presAttrs) ∧
    (∀ m, m ∈ ml → ∀ a, m.removesAttr = some a →
      ∃ p, p ∈ acps ∧ ProfileMatches id p.acp e.managedBy e.fe ∧ a ∈ p.remAttrs) ∧
    (∀ c, AddsClass e ml c →
      ∃ p, p ∈ acps ∧ ProfileMatches id p.acp e.managedBy e.fe ∧ c ∈ p.presClasses) ∧
    (∀ c, RemovesClass e ml c →
      ∃ p, p ∈ acps ∧ ProfileMatches id p.acp e.managedBy e.fe ∧ c ∈ p.remClasses) := by
  obtain ⟨a, p, r, ha, hrc, h1, h2, h3, h4⟩ := modifyAllow_user_unfold hu _ ag e ml h
  rcases applyModify_user hu (modifyRelatedAcp id acps) ag e with hd | ⟨a', ha', hsc, hp, hr, hpc, hrcl, _, _⟩
  · rw [hd] at ha; cases ha
  rw [ha] at ha'
  cases ha'
  obtain ⟨hadd, hrem⟩ := requestedClasses_spec e ml p r hrc
  refine ⟨hsc, ?_, ?_, ?_, ?_⟩
  · intro m hm x hx
    obtain ⟨q, hq, hxq⟩ := hp x ((subset_iff _ _).mp h1 x (addsAttr_mem_requestedPres hm hx))
    exact ⟨q, (scopedModify_matches hq).1, (scopedModify_matches hq).2, hxq⟩
  · intro m hm x hx
    obtain ⟨q, hq, hxq⟩ := hr x ((subset_iff _ _).mp h2 x (removesAttr_mem_requestedRem hm hx))
    exact ⟨q, (scopedModify_matches hq).1, (scopedModify_matches hq).2, hxq⟩
  · intro c hc
    obtain ⟨_, q, hq, hxq⟩ := hpc c ((subset_iff _ _).mp h3 c (hadd c hc))
    exact ⟨q, (scopedModify_matches hq).1, (scopedModify_matches hq).2, hxq⟩
  · intro c hc
    obtain ⟨_, q, hq, hxq⟩ := hrcl c ((subset_iff _ _).mp h4 c (hrem c hc))
    exact ⟨q, (scopedModify_matches hq).1, (scopedModify_matches hq).2, hxq⟩

/-- **No user can add a protected class** by modifying an entry, whatever the profiles grant. -/
theorem protected_class_never_added (id : Ident) (hu : IsUser id) (acps : List AcpModify)
    (ag : List (Nat × List Nat)) (e : Ent) (ml : List Mod)
    (h : modifyAllowPerEntry id (modifyRelatedAcp id acps) ag e ml = true) :
    ∀ c, c ∈ specProtected → ¬ AddsClass e ml c := by
  intro c hc hadd
  obtain ⟨a, p, r, ha, hrc, _, _, h3, _⟩ := modifyAllow_user_unfold hu _ ag e ml h
  rcases applyModify_user hu (modifyRelatedAcp id acps) ag e with hd | ⟨a', ha', _, _, _, hpc, _, _, _⟩
  · rw [hd] at ha; cases ha
  rw [ha] at ha'
  cases ha'
  have := (requestedClasses_spec e ml p r hrc).1 c hadd
  exact (hpc c ((subset_iff _ _).mp h3 c this)).1 (spec_subset_strip_pres c hc)

/-- **No user can remove a protected class** — other than `recycled` (which is what a revive
removes). -/
theorem protected_class_never_removed_except_recycled (id : Ident) (hu : IsUser id)
    (acps : List AcpModify) (ag : List (Nat × List Nat)) (e : Ent) (ml : List Mod)
    (h : modifyAllowPerEntry id (modifyRelatedAcp id acps) ag e ml = true) :
    ∀ c, c ∈ specProtected → c ≠ C.Recycled → ¬ RemovesClass e ml c := by
  intro c hc hne hrm
  obtain ⟨a, p, r, ha, hrc, _, _, _, h4⟩ := modifyAllow_user_unfold hu _ ag e ml h
  rcases applyModify_user hu (modifyRelatedAcp id acps) ag e with hd | ⟨a', ha', _, _, _, _, hrcl, _, _⟩
  · rw [hd] at ha; cases ha
  rw [ha] at ha'
  cases ha'
  have := (requestedClasses_spec e ml p r hrc).2 c hrm
  exact (hrcl c ((subset_iff _ _).mp h4 c this)).1 (spec_subset_strip_rem c hc hne)

/-- **Purging `class` is refused** for every identity (also the internal ones). -/
theorem purge_class_denied (id : Ident) (rel : List (Resolved AcpModify))
    (ag : List (Nat × List Nat)) (e : Ent) (ml : List Mod) (h : Mod.purged A.Class ∈ ml) :
    modifyAllowPerEntry id rel ag e ml = false := by
  unfold modifyAllowPerEntry
  have : (ml.any fun m => match m with | .purged a => a == A.Class | _ => false) = true := by
    rw [List.any_eq_true]
    exact ⟨_, h, by simp⟩
  simp only []
  split
  · rfl
  · rename_i hn
    exact absurd this hn

/-- **Tombstones are locked**: nobody but the internal System role can modify one. -/
theorem tombstone_locked (id : Ident) (hns : id.origin ≠ .internal .system)
    (rel : List (Resolved AcpModify)) (ag : List (Nat × List Nat)) (e : Ent) (ml : List Mod)
    (cs : List Nat) (hcs : e.classes = some cs) (ht : C.Tombstone ∈ cs) :
    modifyAllowPerEntry id rel ag e ml = false := by
  have hnd : disjoint cs modifyGateClasses = false := not_disjoint_of_mem ht tombstone_in_modify_gate
  have hnl : disjoint cs lockedEntryClasses = false := not_disjoint_of_mem ht tombstone_locked_class
  have hdeny : applyModifyAccess id rel ag e = .deny := by
    cases ho : id.origin with
    | synch u =>
      have : modifyIdentTest id = .deny := modifyIdentTest_synch ⟨u, ho⟩
      simp [applyModifyAccess, this]
    | user u mo =>
      have hp : modifyProtectedAttrs id e = .deny := by
        simp [modifyProtectedAttrs, ho, hcs, hnd, modifyProtectedEntryAttrs, hnl]
      rcases applyModify_user ⟨u, mo, ho⟩ rel ag e with hd | ⟨a, _, _, _, _, _, _, hnp, _⟩
      · exact hd
      · exact absurd hp hnp
    | internal r =>
      cases r with
      | system => exact absurd ho hns
      | migration =>
        have hp : modifyProtectedAttrs id e = .deny := by
          simp [modifyProtectedAttrs, ho, hcs, hnd, modifyProtectedEntryAttrs, hnl]
        simp [applyModifyAccess, hp]
      | accountRequest =>
        have : modifyIdentTest id = .deny := by
          simp [modifyIdentTest, ho, Origin.code, modifyOriginGate]
        simp [applyModifyAccess, this]
      | messageQueue =>
        have : modifyIdentTest id = .deny := by
          simp [modifyIdentTest, ho, Origin.code, modifyOriginGate]
        simp [applyModifyAccess, this]
  unfold modifyAllowPerEntry
  simp only []
  split
  · rfl
  · split
    · rfl
    · split
      · rfl
      · simp [hdeny]

/-- **Read-only identities never write; sync-scoped sessions neither** (modify). -/
theorem readonly_never_modifies (id : Ident) (hu : IsUser id) (hs : id.scope ≠ .readWrite)
    (rel : List (Resolved AcpModify)) (ag : List (Nat × List Nat)) (e : Ent) (ml : List Mod) :
    modifyAllowPerEntry id rel ag e ml = false := by
  cases h : modifyAllowPerEntry id rel ag e ml with
  | false => rfl
  | true =>
    obtain ⟨a, _, _, ha, _⟩ := modifyAllow_user_unfold hu rel ag e ml h
    rcases applyModify_user hu rel ag e with hd | ⟨_, _, hsc, _⟩
    · rw [hd] at ha; cases ha
    · exact absurd hsc hs

/-- **Synchronisation identities cannot modify.** -/
theorem sync_ident_cannot_modify (id : Ident) (hs : IsSynch id)
    (rel : List (Resolved AcpModify)) (ag : List (Nat × List Nat)) (e : Ent) (ml : List Mod) :
    modifyAllowPerEntry id rel ag e ml = false := by
  have hdeny : applyModifyAccess id rel ag e = .deny := by
    simp [applyModifyAccess, modifyIdentTest_synch hs]
  unfold modifyAllowPerEntry
  simp only []
  split
  · rfl
  · split
    · rfl
    · split
      · rfl
      · simp [hdeny]

/-- **Protected objects stay protected (modify).** On a builtin entry (uuid in the system range)
or an entry carrying a class of the modify gate, a user may only touch the attributes the
per-class constraint table leaves open (plus, on a synced entry, what the sync rule leaves
open) — whatever the profiles grant. -/
theorem protected_entry_constrained (id : Ident) (hu : IsUser id) (acps : List AcpModify)
    (ag : List (Nat × List Nat)) (e : Ent) (ml : List Mod) (cs : List Nat)
    (hcs : e.classes = some cs)
    (hprot : e.uuid ≤ uuidAnonymous ∨ ∃ c, c ∈ cs ∧ c ∈ modifyGateClasses)
    (h : modifyAllowPerEntry id (modifyRelatedAcp id acps) ag e ml = true) :
    ∀ m, m ∈ ml → ∀ a, (m.addsAttr = some a ∨ m.removesAttr = some a) →
      a ∈ protectedOpenAttrs cs ∨ a ∈ conOf (modifySyncConstrain id e ag) := by
  obtain ⟨u, mo, ho⟩ := hu
  have hgate : (modifyAnonCmp e.uuid uuidAnonymous && disjoint cs modifyGateClasses) = false := by
    rcases hprot with hle | ⟨c, hc1, hc2⟩
    · have : modifyAnonCmp e.uuid uuidAnonymous = false := by
        simp [modifyAnonCmp]; omega
      simp [this]
    · simp [not_disjoint_of_mem hc1 hc2]
  have hp : modifyProtectedAttrs id e = modifyProtectedEntryAttrs cs := by
    simp [modifyProtectedAttrs, ho, hcs, hgate]
  obtain ⟨a, p, r, ha, _, h1, h2, _, _⟩ := modifyAllow_user_unfold ⟨u, mo, ho⟩ _ ag e ml h
  rcases applyModify_user ⟨u, mo, ho⟩ (modifyRelatedAcp id acps) ag e with hd | ⟨a', ha', _, _, _, _, _, hnp, hcon⟩
  · rw [hd] at ha; cases ha
  rw [ha] at ha'
  cases ha'
  rcases protectedEntry_shape cs with hd | ⟨_, _, hc⟩
  · rw [hp] at hnp; exact absurd hd hnp
  · obtain ⟨hcp, hcr⟩ := hcon _ (by rw [hp]; exact hc)
    intro m hm x hx
    rcases hx with hx | hx
    · exact hcp x ((subset_iff _ _).mp h1 x (addsAttr_mem_requestedPres hm hx))
    · exact hcr x ((subset_iff _ _).mp h2 x (removesAttr_mem_requestedRem hm hx))


/-! ## create -/

/-- Unfolding of an allowed create for a user. `hwf`: an entry that has classes has the `class`
attribute among its attribute keys (true of every `Entry`). -/
theorem createAllow_user_unfold {id : Ident} (hu : IsUser id) (rel : List (Resolved AcpCreate))
    (e : NewEnt) (hwf : A.Class ∈ e.attrs) (h : createAllowPerEntry id rel e = true) :
    id.scope = .readWrite ∧ createProtectedFilterEntry id e ≠ .deny ∧
      ∃ cls, e.classes = some cls ∧ ∃ r, r ∈ rel ∧ createProfileCovers e cls r = true := by
  obtain ⟨u, mo, ho⟩ := hu
  unfold createAllowPerEntry at h
  cases hcls : e.classes with
  | none => simp [hcls] at h
  | some cls =>
    simp only [hcls] at h
    have hmq : createMessageQueue id e = .ignore := by simp [createMessageQueue, ho]
    have hmg : createMigrationFilterEntry id e = .ignore := by simp [createMigrationFilterEntry, ho]
    by_cases hsc : id.scope = .readWrite
    case neg =>
      have hd := (scope_denied_of_not_rw id.scope hsc).2.1
      have : createFilterEntry id rel e = .deny := by simp [createFilterEntry, ho, hd]
      simp [applyCreateAccess, hmq, hmg, this, IRes.isDeny] at h
    case pos =>
      have hnd : createScopeDenied id.scope.code = false := by rw [hsc]; rfl
      by_cases hany : rel.any (createProfileCovers e cls) = true
      · have hcf : createFilterEntry id rel e = .grant := by
          simp [createFilterEntry, ho, hnd, hcls, hany]
        refine ⟨hsc, ?_, cls, rfl, ?_⟩
        · intro hp
          simp [applyCreateAccess, hmq, hmg, hcf, hp, IRes.isDeny] at h
        · rw [List.any_eq_true] at hany
          exact hany
      · have hcf : createFilterEntry id rel e = .ignore := by
          simp [createFilterEntry, ho, hnd, hcls, hany]
        exfalso
        have hsub : subset e.attrs [] = false := by
          cases hh : subset e.attrs [] with
          | false => rfl
          | true => exact absurd ((subset_iff _ _).mp hh _ hwf) List.not_mem_nil
        cases hpf : createProtectedFilterEntry id e <;>
          simp [applyCreateAccess, hmq, hmg, hcf, hpf, IRes.isDeny, IRes.isGrant, IRes.allowPres,
            IRes.allowCls, hsub] at h

/-- **Writes need matching grants (create): one single profile covers the whole entry.** If a
user's create of an entry is allowed, the session is read-write and there is one configured
profile whose receiver group matches the user, whose target matches the new entry, and which
grants *every* attribute and *every* class of the entry (not a union over profiles). -/
theorem create_single_profile (id : Ident) (hu : IsUser id) (acps : List AcpCreate) (e : NewEnt)
    (hwf : A.Class ∈ e.attrs)
    (h : createAllowPerEntry id (createRelatedAcp id acps) e = true) :
    id.scope = .readWrite ∧
    ∃ cls, e.classes = some cls ∧ ∃ p, p ∈ acps ∧ ProfileMatches id p.acp none e.fe ∧
      (∀ a, a ∈ e.attrs → a ∈ p.attrs) ∧ (∀ c, c ∈ cls → c ∈ p.classes) := by
  obtain ⟨hsc, _, cls, hcls, r, hr, hcov⟩ := createAllow_user_unfold hu _ e hwf h
  refine ⟨hsc, cls, hcls, r.acp, ?_⟩
  unfold createProfileCovers at hcov
  simp only [Bool.and_eq_true] at hcov
  obtain ⟨⟨⟨hrc, ht⟩, ha⟩, hc⟩ := hcov
  have hrc' : (match r.rcond with
      | .groupChecked => true
      | .entryManager => entryManagerCheck id none) = true := by
    cases hk : r.rcond with
    | groupChecked => rfl
    | entryManager => rw [hk] at hrc; cases hrc
  obtain ⟨hmem, hpm⟩ := scoped_matches (prof := (·.acp)) hr none e.fe hrc' ht
  exact ⟨hmem, hpm, (subset_iff _ _).mp ha, (subset_iff _ _).mp hc⟩

/-- **No user can create an entry carrying a protected class, nor one in the builtin uuid
range.** -/
theorem protected_class_never_created (id : Ident) (hu : IsUser id) (acps : List AcpCreate)
    (e : NewEnt) (hwf : A.Class ∈ e.attrs)
    (h : createAllowPerEntry id (createRelatedAcp id acps) e = true) :
    (∀ cls, e.classes = some cls → ∀ c, c ∈ specProtected → c ∉ cls) ∧
    (∀ u, e.uuid = some u → uuidAnonymous < u) := by
  obtain ⟨_, hnp, _⟩ := createAllow_user_unfold hu _ e hwf h
  obtain ⟨u, mo, ho⟩ := hu
  constructor
  · intro cls hcls c hc hmem
    apply hnp
    have : disjoint cls createGateClasses = false :=
      not_disjoint_of_mem hmem (spec_subset_create_gate c hc)
    simp only [createProtectedFilterEntry, ho, hcls, this]
    split <;> simp
  · intro u' hu'
    cases hlt : decide (uuidAnonymous < u') with
    | true => exact of_decide_eq_true hlt
    | false =>
      exfalso
      apply hnp
      have hle : u' ≤ uuidAnonymous := Nat.le_of_not_lt (of_decide_eq_false hlt)
      simp [createProtectedFilterEntry, ho, hu', createAnonCmp, hle]

/-- **Read-only / sync-scoped users never create.** -/
theorem readonly_never_creates (id : Ident) (hu : IsUser id) (hs : id.scope ≠ .readWrite)
    (rel : List (Resolved AcpCreate)) (e : NewEnt) :
    createAllowPerEntry id rel e = false := by
  obtain ⟨u, mo, ho⟩ := hu
  have hd := (scope_denied_of_not_rw id.scope hs).2.1
  have : createFilterEntry id rel e = .deny := by simp [createFilterEntry, ho, hd]
  unfold createAllowPerEntry
  split
  · rfl
  · simp [applyCreateAccess, this, IRes.isDeny]

/-- **Synchronisation identities cannot create.** -/
theorem sync_ident_cannot_create (id : Ident) (hs : IsSynch id)
    (rel : List (Resolved AcpCreate)) (e : NewEnt) :
    createAllowPerEntry id rel e = false := by
  obtain ⟨u, ho⟩ := hs
  have : createFilterEntry id rel e = .deny := by simp [createFilterEntry, ho]
  unfold createAllowPerEntry
  split
  · rfl
  · simp [applyCreateAccess, this, IRes.isDeny]

/-! ## delete -/

/-- **Writes need matching grants (delete).** -/
theorem delete_allowed_has_grant (id : Ident) (hu : IsUser id) (acps : List AcpDelete) (e : Ent)
    (h : applyDeleteAccess id (deleteRelatedAcp id acps) e = true) :
    id.scope = .readWrite ∧ ∃ p, p ∈ acps ∧ ProfileMatches id p.acp e.managedBy e.fe := by
  obtain ⟨u, mo, ho⟩ := hu
  by_cases hsc : id.scope = .readWrite
  case neg =>
    have hd := (scope_denied_of_not_rw id.scope hsc).2.2
    have : deleteFilterEntry id (deleteRelatedAcp id acps) e = .deny := by
      simp [deleteFilterEntry, ho, hd]
    simp [applyDeleteAccess, this] at h
  case pos =>
    have hnd : deleteScopeDenied id.scope.code = false := by rw [hsc]; rfl
    by_cases hany : (deleteRelatedAcp id acps).any (deleteScoped id e) = true
    · rw [List.any_eq_true] at hany
      obtain ⟨r, hr, hsco⟩ := hany
      unfold deleteScoped at hsco
      rw [Bool.and_eq_true] at hsco
      obtain ⟨hmem, hpm⟩ := scoped_matches (prof := (·.acp)) hr e.managedBy e.fe hsco.1 hsco.2
      exact ⟨hsc, r.acp, hmem, hpm⟩
    · have : deleteFilterEntry id (deleteRelatedAcp id acps) e = .ignore := by
        simp [deleteFilterEntry, ho, hnd, hany]
      simp [applyDeleteAccess, this] at h

/-- **Builtin and protected entries cannot be deleted** by anyone but the internal System role,
whatever the profiles grant. -/
theorem builtin_and_protected_delete_denied (id : Ident) (hns : id.origin ≠ .internal .system)
    (rel : List (Resolved AcpDelete)) (e : Ent)
    (hprot : e.uuid ≤ uuidAnonymous ∨
      ∃ cs c, e.classes = some cs ∧ c ∈ cs ∧ c ∈ specProtected) :
    applyDeleteAccess id rel e = false := by
  have hp : deleteProtectedFilterEntry id e = .deny := by
    cases ho : id.origin with
    | synch u => simp [deleteProtectedFilterEntry, ho]
    | user u mo =>
      rcases hprot with hle | ⟨cs, c, hcs, hc1, hc2⟩
      · simp [deleteProtectedFilterEntry, ho, deleteAnonCmp, hle]
      · have := not_disjoint_of_mem hc1 (spec_subset_delete_gate c hc2)
        simp only [deleteProtectedFilterEntry, ho, hcs, this]
        split <;> simp
    | internal r =>
      cases r with
      | system => exact absurd ho hns
      | accountRequest => simp [deleteProtectedFilterEntry, ho]
      | messageQueue => simp [deleteProtectedFilterEntry, ho]
      | migration =>
        rcases hprot with hle | ⟨cs, c, hcs, hc1, hc2⟩
        · simp [deleteProtectedFilterEntry, ho, deleteAnonCmp, hle]
        · have := not_disjoint_of_mem hc1 (spec_subset_delete_gate c hc2)
          simp only [deleteProtectedFilterEntry, ho, hcs, this]
          split <;> simp
  simp [applyDeleteAccess, hp]

/-- **Read-only / sync-scoped users never delete.** -/
theorem readonly_never_deletes (id : Ident) (hu : IsUser id) (hs : id.scope ≠ .readWrite)
    (rel : List (Resolved AcpDelete)) (e : Ent) : applyDeleteAccess id rel e = false := by
  obtain ⟨u, mo, ho⟩ := hu
  have hd := (scope_denied_of_not_rw id.scope hs).2.2
  have : deleteFilterEntry id rel e = .deny := by simp [deleteFilterEntry, ho, hd]
  simp [applyDeleteAccess, this]

/-- **Synchronisation identities cannot delete.** -/
theorem sync_ident_cannot_delete (id : Ident) (hs : IsSynch id)
    (rel : List (Resolved AcpDelete)) (e : Ent) : applyDeleteAccess id rel e = false := by
  obtain ⟨u, ho⟩ := hs
  have : deleteFilterEntry id rel e = .deny := by simp [deleteFilterEntry, ho]
  simp [applyDeleteAccess, this]


/-! ## the operations (result observed by the caller) -/

/-- A modify operation gets past the modelled checks only if there are candidates, every candidate
is allowed, and no candidate enters or leaves the recycled / tombstone state. -/
theorem modifyOp_proceed (id : Ident) (acps : List AcpModify) (ag : List (Nat × List Nat))
    (cands : List Ent) (ml : List Mod) (h : modifyOp id acps ag cands ml = .proceed) :
    cands ≠ [] ∧ ml ≠ [] ∧
    (∀ e, e ∈ cands → modifyAllowPerEntry id (modifyRelatedAcp id acps) ag e ml = true) ∧
    (∀ e, e ∈ cands → maskedTs e.classes = maskedTs (applyClassMods e.classes ml)) := by
  unfold modifyOp at h
  split at h
  · cases h
  · rename_i hml
    split at h
    · split at h <;> cases h
    · rename_i hc
      split at h
      · cases h
      · rename_i hallow
        split at h
        · cases h
        · rename_i hmask
          refine ⟨?_, ?_, ?_, ?_⟩
          · intro hnil; rw [hnil] at hc; exact hc rfl
          · intro hnil; rw [hnil] at hml; exact hml rfl
          · intro e he
            have : modifyAllowOperation id acps ag cands ml = true := by simpa using hallow
            unfold modifyAllowOperation at this
            exact (List.all_eq_true.mp this) e he
          · intro e he
            have : ¬ (maskedTs e.classes != maskedTs (applyClassMods e.classes ml)) = true := by
              intro hne
              exact hmask (List.any_eq_true.mpr ⟨e, he, hne⟩)
            simpa using this

/-- A delete operation proceeds only on candidates every one of which is allowed and none of
which is a tombstone. -/
theorem deleteOp_proceed (id : Ident) (acps : List AcpDelete) (cands : List Ent)
    (h : deleteOp id acps cands = .proceed) :
    cands ≠ [] ∧ (∀ e, e ∈ cands → applyDeleteAccess id (deleteRelatedAcp id acps) e = true) ∧
      (∀ e, e ∈ cands → isTombstone e.classes = false) := by
  unfold deleteOp at h
  split at h
  · cases h
  · rename_i hallow
    split at h
    · cases h
    · rename_i hc
      split at h
      · cases h
      · rename_i ht
        refine ⟨?_, ?_, ?_⟩
        · intro hnil; rw [hnil] at hc; exact hc rfl
        · intro e he
          have : deleteAllowOperation id acps cands = true := by simpa using hallow
          unfold deleteAllowOperation at this
          exact (List.all_eq_true.mp this) e he
        · intro e he
          cases hh : isTombstone e.classes with
          | false => rfl
          | true => exact absurd (List.any_eq_true.mpr ⟨e, he, hh⟩) ht

/-- A create operation proceeds only if every entry of the request is allowed. -/
theorem createOp_proceed (id : Ident) (acps : List AcpCreate) (ents : List NewEnt)
    (h : createOp id acps ents = .proceed) :
    ents ≠ [] ∧ (∀ e, e ∈ ents → createAllowPerEntry id (createRelatedAcp id acps) e = true) ∧
      (∀ e, e ∈ ents → maskedTs e.classes = false) := by
  unfold createOp at h
  split at h
  · cases h
  · rename_i hc
    split at h
    · cases h
    · rename_i hallow
      split at h
      · cases h
      · rename_i hm
        refine ⟨?_, ?_, ?_⟩
        · intro hnil; rw [hnil] at hc; exact hc rfl
        · intro e he
          have : createAllowOperation id acps ents = true := by simpa using hallow
          unfold createAllowOperation at this
          exact (List.all_eq_true.mp this) e he
        · intro e he
          cases hh : maskedTs e.classes with
          | false => rfl
          | true => exact absurd (List.any_eq_true.mpr ⟨e, he, hh⟩) hm

/-- **Revive = modify removing `recycled`, plus the recycled guard.** A revive proceeds only if
every candidate passes the access decision for the modification "remove class `recycled`" and
at least one candidate is recycled. -/
theorem reviveOp_proceed (id : Ident) (acps : List AcpModify) (ag : List (Nat × List Nat))
    (cands : List Ent) (h : reviveOp id acps ag cands = .proceed) :
    cands ≠ [] ∧
    (∀ e, e ∈ cands → modifyAllowPerEntry id (modifyRelatedAcp id acps) ag e reviveModlist = true) ∧
    (∃ e, e ∈ cands ∧ isRecycled e.classes = true) := by
  unfold reviveOp at h
  split at h
  · split at h <;> cases h
  · rename_i hc
    split at h
    · cases h
    · rename_i hallow
      split at h
      · cases h
      · rename_i hall
        refine ⟨?_, ?_, ?_⟩
        · intro hnil; rw [hnil] at hc; exact hc rfl
        · intro e he
          have : modifyAllowOperation id acps ag cands reviveModlist = true := by simpa using hallow
          unfold modifyAllowOperation at this
          exact (List.all_eq_true.mp this) e he
        · have : ¬ ∀ e, e ∈ cands → (!isRecycled e.classes) = true := by
            intro hh
            exact hall (List.all_eq_true.mpr hh)
          apply Classical.byContradiction
          intro hne
          apply this
          intro e he
          cases hr : isRecycled e.classes with
          | false => rfl
          | true => exact absurd ⟨e, he, hr⟩ hne

/-- **Revive needs the grants of a modify that removes `recycled`**: for a user, a revive that
proceeds means a read-write session and, for every candidate, matching profiles that grant
removal of the `class` attribute and removal of the class `recycled`. -/
theorem revive_only_recycled (id : Ident) (hu : IsUser id) (acps : List AcpModify)
    (ag : List (Nat × List Nat)) (cands : List Ent) (h : reviveOp id acps ag cands = .proceed) :
    id.scope = .readWrite ∧ (∃ e, e ∈ cands ∧ isRecycled e.classes = true) ∧
    ∀ e, e ∈ cands →
      (∃ p, p ∈ acps ∧ ProfileMatches id p.acp e.managedBy e.fe ∧ A.Class ∈ p.remAttrs) ∧
      (∃ p, p ∈ acps ∧ ProfileMatches id p.acp e.managedBy e.fe ∧ C.Recycled ∈ p.remClasses) := by
  obtain ⟨hne, hall, hrec⟩ := reviveOp_proceed id acps ag cands h
  have hrec' := hrec
  obtain ⟨e0, he0, _⟩ := hrec'
  have hsc := (modify_allowed_has_grant id hu acps ag e0 reviveModlist (hall e0 he0)).1
  refine ⟨hsc, hrec, ?_⟩
  intro e he
  obtain ⟨_, _, hrem, _, hrc⟩ := modify_allowed_has_grant id hu acps ag e reviveModlist (hall e he)
  constructor
  · exact hrem (.removed A.Class C.Recycled) (by simp [reviveModlist]) A.Class rfl
  · exact hrc C.Recycled (Or.inl (by simp [reviveModlist]))

/-- **Read-only identities can never create, modify, delete or revive** (and neither can a user
whose session has the synchronise scope): none of the four operations gets past the access
decision. -/
theorem readonly_never_writes (id : Ident) (hu : IsUser id) (hs : id.scope ≠ .readWrite)
    (am : List AcpModify) (ac : List AcpCreate) (ad : List AcpDelete)
    (ag : List (Nat × List Nat)) (cands : List Ent) (ents : List NewEnt) (ml : List Mod) :
    modifyOp id am ag cands ml ≠ .proceed ∧ createOp id ac ents ≠ .proceed ∧
      deleteOp id ad cands ≠ .proceed ∧ reviveOp id am ag cands ≠ .proceed := by
  refine ⟨?_, ?_, ?_, ?_⟩
  · intro h
    obtain ⟨hne, _, hall, _⟩ := modifyOp_proceed id am ag cands ml h
    cases cands with
    | nil => exact hne rfl
    | cons e _ =>
      have := hall e List.mem_cons_self
      rw [readonly_never_modifies id hu hs] at this
      cases this
  · intro h
    obtain ⟨hne, hall, _⟩ := createOp_proceed id ac ents h
    cases ents with
    | nil => exact hne rfl
    | cons e _ =>
      have := hall e List.mem_cons_self
      rw [readonly_never_creates id hu hs] at this
      cases this
  · intro h
    obtain ⟨hne, hall, _⟩ := deleteOp_proceed id ad cands h
    cases cands with
    | nil => exact hne rfl
    | cons e _ =>
      have := hall e List.mem_cons_self
      rw [readonly_never_deletes id hu hs] at this
      cases this
  · intro h
    obtain ⟨hne, hall, _⟩ := reviveOp_proceed id am ag cands h
    cases cands with
    | nil => exact hne rfl
    | cons e _ =>
      have := hall e List.mem_cons_self
      rw [readonly_never_modifies id hu hs] at this
      cases this

/-- **Synchronisation identities cannot use these operations at all.** -/
theorem sync_ident_cannot_use_ops (id : Ident) (hs : IsSynch id)
    (am : List AcpModify) (ac : List AcpCreate) (ad : List AcpDelete)
    (ag : List (Nat × List Nat)) (cands : List Ent) (ents : List NewEnt) (ml : List Mod) :
    modifyOp id am ag cands ml ≠ .proceed ∧ createOp id ac ents ≠ .proceed ∧
      deleteOp id ad cands ≠ .proceed ∧ reviveOp id am ag cands ≠ .proceed := by
  refine ⟨?_, ?_, ?_, ?_⟩
  · intro h
    obtain ⟨hne, _, hall, _⟩ := modifyOp_proceed id am ag cands ml h
    cases cands with
    | nil => exact hne rfl
    | cons e _ =>
      have := hall e List.mem_cons_self
      rw [sync_ident_cannot_modify id hs] at this
      cases this
  · intro h
    obtain ⟨hne, hall, _⟩ := createOp_proceed id ac ents h
    cases ents with
    | nil => exact hne rfl
    | cons e _ =>
      have := hall e List.mem_cons_self
      rw [sync_ident_cannot_create id hs] at this
      cases this
  · intro h
    obtain ⟨hne, hall, _⟩ := deleteOp_proceed id ad cands h
    cases cands with
    | nil => exact hne rfl
    | cons e _ =>
      have := hall e List.mem_cons_self
      rw [sync_ident_cannot_delete id hs] at this
      cases this
  · intro h
    obtain ⟨hne, hall, _⟩ := reviveOp_proceed id am ag cands h
    cases cands with
    | nil => exact hne rfl
    | cons e _ =>
      have := hall e List.mem_cons_self
      rw [sync_ident_cannot_modify id hs] at this
      cases this

/-- **A plain modify can neither revive nor recycle nor tombstone**: whoever asks (System
included), a modify that proceeds leaves every candidate on its side of the recycled/tombstone
boundary — removing `recycled` only takes effect through `revive`. -/
theorem modify_keeps_lifecycle (id : Ident) (acps : List AcpModify) (ag : List (Nat × List Nat))
    (cands : List Ent) (ml : List Mod) (h : modifyOp id acps ag cands ml = .proceed) :
    ∀ e, e ∈ cands → maskedTs e.classes = maskedTs (applyClassMods e.classes ml) :=
  (modifyOp_proceed id acps ag cands ml h).2.2.2


/-- **Batch modify is judged entry by entry**: an allowed batch has a modification list for every
entry and each (entry, list) pair passes the per-entry decision — so all per-entry theorems above
apply to every pair of an allowed batch. -/
theorem batch_modify_each_entry_allowed (id : Ident) (acps : List AcpModify)
    (ag : List (Nat × List Nat)) (entries : List (Ent × Option (List Mod)))
    (h : batchModifyAllowOperation id acps ag entries = true) :
    ∀ p, p ∈ entries → ∃ ml, p.2 = some ml ∧
      modifyAllowPerEntry id (modifyRelatedAcp id acps) ag p.1 ml = true := by
  intro p hp
  unfold batchModifyAllowOperation at h
  have := (List.all_eq_true.mp h) p hp
  cases hml : p.2 with
  | none => simp [hml] at this
  | some ml => exact ⟨ml, rfl, by simpa [hml] using this⟩

/-! ## Non-vacuity: concrete states in which the hypotheses hold and the decisions differ -/
namespace Example

def g1 : Nat := 0x10000000000040008000000000000100
def alice : Ident := ⟨.user 0x10000000000040008000000000000200 (some [g1]), .readWrite⟩
def aliceRo : Ident := { alice with scope := .readOnly }
def syncId : Ident := ⟨.synch 0x10000000000040008000000000000500, .readWrite⟩

/-- grants a lot, including protected classes -/
def acp : AcpModify :=
  ⟨⟨.group [g1], some (.pres A.Class)⟩, [A.Description, A.Class, A.Member], [A.Class],
   [C.PosixAccount, C.Recycled, C.System], [C.Recycled, C.System, C.Person]⟩

def fe (cs : List Nat) : Filter.Entry := Entry.ofList [(A.Class, cs.map fun c => .str [c])]
def person : Ent := ⟨0x10000000000040008000000000000300, some [C.Object, C.Person], none, none,
  fe [C.Object, C.Person]⟩
def recycledPerson : Ent := ⟨0x10000000000040008000000000000301,
  some [C.Object, C.Person, C.Recycled], none, none, fe [C.Object, C.Person, C.Recycled]⟩
def tombstone : Ent := ⟨0x10000000000040008000000000000302, some [C.Object, C.Tombstone], none,
  none, fe [C.Object, C.Tombstone]⟩
def builtinGroup : Ent := ⟨1, some [C.Object, C.Group], none, none, fe [C.Object, C.Group]⟩

-- `modify_allowed_has_grant`: an allowed request exists (attribute and class)
example : modifyAllowPerEntry alice (modifyRelatedAcp alice [acp]) [] person
    [.present A.Description 0, .present A.Class C.PosixAccount] = true := by decide
-- … and an ungranted attribute is refused
example : modifyAllowPerEntry alice (modifyRelatedAcp alice [acp]) [] person
    [.present A.DisplayName 0] = false := by decide
-- `protected_class_never_added` / `…_removed_except_recycled`: granted by the profile, still refused
example : modifyAllowPerEntry alice (modifyRelatedAcp alice [acp]) [] person
    [.present A.Class C.System] = false := by decide
example : modifyAllowPerEntry alice (modifyRelatedAcp alice [acp]) [] person
    [.set A.Class [C.Object, C.Person, C.Recycled]] = false := by decide
example : modifyAllowPerEntry alice (modifyRelatedAcp alice [acp]) [] person
    [.removed A.Class C.Person] = true := by decide
-- `readonly_never_writes`, `sync_ident_cannot_use_ops`: the same request with another identity
example : modifyAllowPerEntry aliceRo (modifyRelatedAcp aliceRo [acp]) [] person
    [.present A.Description 0] = false := by decide
example : modifyOp syncId [acp] [] [person] [.present A.Description 0] = .accessDenied := by decide
example : modifyOp alice [acp] [] [person] [.present A.Description 0] = .proceed := by decide
-- `tombstone_locked`, `purge_class_denied`
example : modifyAllowPerEntry alice (modifyRelatedAcp alice [acp]) [] tombstone
    [.present A.Description 0] = false := by decide
example : modifyAllowPerEntry ⟨.internal .system, .readWrite⟩ [] [] person [.purged A.Class] = false := by
  decide
-- `revive_only_recycled` / `modify_keeps_lifecycle`: removing `recycled` proceeds through revive
-- only, and only on a recycled entry
example : reviveOp alice [acp] [] [recycledPerson] = .proceed := by decide
example : modifyOp alice [acp] [] [recycledPerson] reviveModlist = .accessDenied := by decide
example : reviveOp alice [acp] [] [person] = .accessDenied := by decide
-- `protected_entry_constrained`: on a builtin group only `member` is open
example : modifyAllowPerEntry alice (modifyRelatedAcp alice [acp]) [] builtinGroup
    [.present A.Member 0] = true := by decide
example : modifyAllowPerEntry alice (modifyRelatedAcp alice [acp]) [] builtinGroup
    [.present A.Description 0] = false := by decide

def cAttrs : AcpCreate := ⟨⟨.group [g1], some (.pres A.Class)⟩, [A.Class, A.Name], [C.Object]⟩
def cClasses : AcpCreate := ⟨⟨.group [g1], some (.pres A.Class)⟩, [A.Class], [C.Object, C.Person]⟩
def cBoth : AcpCreate :=
  ⟨⟨.group [g1], some (.pres A.Class)⟩, [A.Class, A.Name], [C.Object, C.Person, C.System]⟩
def newPerson : NewEnt := ⟨some 0x10000000000040008000000000000600, some [C.Object, C.Person],
  [A.Class, A.Name], fe [C.Object, C.Person]⟩
def newSystem : NewEnt := { newPerson with classes := some [C.Object, C.System] }
def newBuiltin : NewEnt := { newPerson with uuid := some 5 }

-- `create_single_profile`: one covering profile allows; two profiles covering it only together do not
example : createAllowPerEntry alice (createRelatedAcp alice [cBoth]) newPerson = true := by decide
example : createAllowPerEntry alice (createRelatedAcp alice [cAttrs, cClasses]) newPerson = false := by
  decide
-- `protected_class_never_created`
example : createAllowPerEntry alice (createRelatedAcp alice [cBoth]) newSystem = false := by decide
example : createAllowPerEntry alice (createRelatedAcp alice [cBoth]) newBuiltin = false := by decide

def dAcp : AcpDelete := ⟨⟨.group [g1], some (.pres A.Class)⟩⟩
-- `delete_allowed_has_grant`, `builtin_and_protected_delete_denied`
example : deleteOp alice [dAcp] [person] = .proceed := by decide
example : deleteOp alice [] [person] = .accessDenied := by decide
example : deleteOp alice [dAcp] [builtinGroup] = .accessDenied := by decide
example : deleteOp alice [dAcp] [recycledPerson] = .accessDenied := by decide
example : deleteOp aliceRo [dAcp] [person] = .accessDenied := by decide

end Example

end Kanidm.Access.Write
