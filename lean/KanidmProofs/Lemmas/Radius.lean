import KanidmModel.Radius
/-! Helper lemmas for C46. -/
namespace Kanidm.Radius
open Kanidm.Gen.Radius

/-- Declarative membership: some group of the token is named, by uuid or by spn, in the
configured required list. -/
def Member (cfg : Config) (t : Token) : Prop :=
  ∃ g ∈ t.groups, g.uuid ∈ cfg.required ∨ g.spn ∈ cfg.required

/-- `c` is the configuration in force for spn `s`: the last entry of `radius_groups` with that spn. -/
def MappedTo (cfg : Config) (s : Nat) (c : GroupCfg) : Prop :=
  ∃ pre post, cfg.groups = pre ++ c :: post ∧ c.spn = s ∧ ∀ d ∈ post, d.spn ≠ s

/-- No entry of `radius_groups` has spn `s`. -/
def Unmapped (cfg : Config) (s : Nat) : Prop := ∀ d ∈ cfg.groups, d.spn ≠ s

theorem userInRequired_iff (cfg : Config) (gs : List Group) :
    userInRequired cfg gs = true ↔ ∃ g ∈ gs, g.uuid ∈ cfg.required ∨ g.spn ∈ cfg.required := by
  simp [userInRequired, memberAny, memberPred, List.any_eq_true]

private theorem lookFold_or (s : Nat) (l : List GroupCfg) (acc : Option GroupCfg) :
    l.foldl (fun acc g => if g.spn = s then some g else acc) acc
      = (l.foldl (fun acc g => if g.spn = s then some g else acc) none).or acc := by
  induction l generalizing acc with
  | nil => simp
  | cons d l ih =>
    simp only [List.foldl_cons]
    rw [ih, ih (if d.spn = s then some d else none)]
    by_cases h : d.spn = s
    · simp [h]
    · simp [h]

theorem cfgLookup_cons (d : GroupCfg) (l : List GroupCfg) (s : Nat) :
    cfgLookup (d :: l) s = (cfgLookup l s).or (if d.spn = s then some d else none) := by
  unfold cfgLookup
  simp only [List.foldl_cons]
  rw [lookFold_or]

theorem cfgLookup_nil (s : Nat) : cfgLookup [] s = none := rfl

theorem cfgLookup_none_iff (l : List GroupCfg) (s : Nat) :
    cfgLookup l s = none ↔ ∀ d ∈ l, d.spn ≠ s := by
  induction l with
  | nil => simp [cfgLookup_nil]
  | cons d l ih =>
    rw [cfgLookup_cons]
    by_cases h : d.spn = s
    · simp [h]
    · simp [h, ih]

theorem cfgLookup_some_iff (l : List GroupCfg) (s : Nat) (c : GroupCfg) :
    cfgLookup l s = some c ↔
      ∃ pre post, l = pre ++ c :: post ∧ c.spn = s ∧ ∀ d ∈ post, d.spn ≠ s := by
  induction l with
  | nil => simp [cfgLookup_nil]
  | cons d l ih =>
    rw [cfgLookup_cons]
    cases hl : cfgLookup l s with
    | some c' =>
      simp only [Option.some_or]
      constructor
      · intro h
        cases h
        obtain ⟨pre, post, h1, h2, h3⟩ := (ih.mp hl)
        exact ⟨d :: pre, post, by simp [h1], h2, h3⟩
      · rintro ⟨pre, post, h1, h2, h3⟩
        cases pre with
        | nil =>
          simp at h1
          obtain ⟨_, hl'⟩ := h1
          rw [hl'] at hl
          have := (cfgLookup_none_iff post s).mpr h3
          simp [this] at hl
        | cons p pre =>
          simp at h1
          obtain ⟨_, hl'⟩ := h1
          have := ih.mpr ⟨pre, post, hl', h2, h3⟩
          simp [hl] at this
          simp [this]
    | none =>
      have hn := (cfgLookup_none_iff l s).mp hl
      simp only [Option.none_or]
      constructor
      · intro h
        by_cases hd : d.spn = s
        · simp [hd] at h
          subst h
          exact ⟨[], l, rfl, hd, hn⟩
        · simp [hd] at h
      · rintro ⟨pre, post, h1, h2, h3⟩
        cases pre with
        | nil =>
          simp at h1
          obtain ⟨hd, _⟩ := h1
          simp [hd, h2]
        | cons p pre =>
          simp at h1
          obtain ⟨_, hl'⟩ := h1
          exact absurd h2 (hn c (by simp [hl']))

theorem mappedTo_iff (cfg : Config) (s : Nat) (c : GroupCfg) :
    MappedTo cfg s c ↔ cfgLookup cfg.groups s = some c := (cfgLookup_some_iff _ _ _).symm

theorem unmapped_iff (cfg : Config) (s : Nat) :
    Unmapped cfg s ↔ cfgLookup cfg.groups s = none := (cfgLookup_none_iff _ _).symm

theorem resolveStep_unmapped (cfg : Config) (acc : Resolved) (g : Group)
    (h : Unmapped cfg g.spn) : resolveStep cfg acc g = acc := by
  simp [resolveStep, cfgKey, (unmapped_iff cfg g.spn).mp h]

theorem resolveStep_mapped (cfg : Config) (acc : Resolved) (g : Group) (c : GroupCfg)
    (h : MappedTo cfg g.spn c) : (resolveStep cfg acc g).vlan = c.vlan := by
  simp [resolveStep, cfgKey, (mappedTo_iff cfg g.spn c).mp h]

theorem foldl_unmapped (cfg : Config) (acc : Resolved) (gs : List Group)
    (h : ∀ g ∈ gs, Unmapped cfg g.spn) : gs.foldl (resolveStep cfg) acc = acc := by
  induction gs generalizing acc with
  | nil => rfl
  | cons g gs ih =>
    simp only [List.foldl_cons]
    rw [resolveStep_unmapped cfg acc g (h g (by simp))]
    exact ih acc (fun g' hg' => h g' (by simp [hg']))

/-- Fold lemma: the VLAN after the loop is that of the last mapped group. -/
theorem resolve_vlan_last (cfg : Config) (pre post : List Group) (g : Group) (c : GroupCfg)
    (hg : MappedTo cfg g.spn c) (hpost : ∀ h ∈ post, Unmapped cfg h.spn) :
    (resolve cfg (pre ++ g :: post)).vlan = c.vlan := by
  unfold resolve
  rw [List.foldl_append, List.foldl_cons, foldl_unmapped cfg _ post hpost]
  exact resolveStep_mapped cfg _ g c hg

theorem resolve_vlan_default (cfg : Config) (gs : List Group)
    (h : ∀ g ∈ gs, Unmapped cfg g.spn) : (resolve cfg gs).vlan = cfg.defaultVlan := by
  unfold resolve
  rw [foldl_unmapped cfg _ gs h]

/-- Every group is either mapped to exactly one configuration or unmapped. -/
theorem mapped_or_unmapped (cfg : Config) (s : Nat) :
    Unmapped cfg s ∨ ∃ c, MappedTo cfg s c := by
  cases h : cfgLookup cfg.groups s with
  | none => exact .inl ((unmapped_iff cfg s).mpr h)
  | some c => exact .inr ⟨c, (mappedTo_iff cfg s c).mpr h⟩

/-- A list either has no mapped element or splits at its last mapped element. -/
theorem last_mapped_split (cfg : Config) (gs : List Group) :
    (∀ g ∈ gs, Unmapped cfg g.spn) ∨
    ∃ pre g post c, gs = pre ++ g :: post ∧ MappedTo cfg g.spn c ∧ ∀ h ∈ post, Unmapped cfg h.spn := by
  induction gs with
  | nil => exact .inl (by simp)
  | cons a gs ih =>
    rcases ih with h | ⟨pre, g, post, c, h1, h2, h3⟩
    · rcases mapped_or_unmapped cfg a.spn with hu | ⟨c, hc⟩
      · exact .inl (by intro g hg; rcases List.mem_cons.mp hg with rfl | hg; exact hu; exact h g hg)
      · exact .inr ⟨[], a, gs, c, rfl, hc, h⟩
    · exact .inr ⟨a :: pre, g, post, c, by simp [h1], h2, h3⟩

end Kanidm.Radius
