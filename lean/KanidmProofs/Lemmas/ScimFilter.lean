import KanidmModel.ScimFilter
/-!
Helper lemmas for C42 (SCIM filter text): lexical facts, JSON string escape/decode inverse,
value round trip, leaf round trips and the generic `precedence!{}` round trip.
-/
namespace Kanidm.ScimFilter
open Kanidm.Gen.ScimFilter

/-! ### characters -/

theorem beq_toNat (c d : Char) : (c == d) = (c.toNat == d.toNat) := by
  rw [Bool.eq_iff_iff]
  simp only [beq_iff_eq]
  exact ⟨fun h => by rw [h], fun h => Char.toNat_inj.mp h⟩

theorem eq_toNat (c d : Char) : (c = d) ↔ (c.toNat = d.toNat) :=
  ⟨fun h => by rw [h], fun h => Char.toNat_inj.mp h⟩

theorem attrRest_not_sep {c : Char} (h : isAttrRest c = true) : isSep c = false := by
  simp [isAttrRest, isSep, beq_toNat] at *
  omega

theorem attrFirst_rest {c : Char} (h : isAttrFirst c = true) : isAttrRest c = true := by
  simp [isAttrRest, isAttrFirst, beq_toNat] at *
  omega

theorem numChar_not_op {c : Char} (h : isNumChar c = true) : isOpChar c = false := by
  simp [isNumChar, isDigit, isOpChar, beq_toNat] at *
  omega

theorem numChar_not_cr {c : Char} (h : isNumChar c = true) : isCR c = false := by
  simp [isNumChar, isDigit, isCR, beq_toNat] at *
  omega

theorem numChar_not_quote {c : Char} (h : isNumChar c = true) : c ≠ '"' := by
  simp [isNumChar, isDigit, beq_toNat, eq_toNat] at *
  omega

/-! ### literals, separators, names -/

theorem lit_nil (s : Str) : lit [] s = some s := by cases s <;> rfl

theorem lit_append (k s : Str) : lit k (k ++ s) = some s := by
  induction k with
  | nil => exact lit_nil s
  | cons c k ih => simp [lit, ih]

/-- `s` is empty or starts with a character outside class `p`. -/
def HeadNot (p : Char → Bool) (s : Str) : Prop := ∀ c r, s = c :: r → p c = false

theorem headNot_nil (p : Char → Bool) : HeadNot p [] := by intro c r h; cases h

theorem headNot_cons {p : Char → Bool} {c : Char} (r : Str) (h : p c = false) : HeadNot p (c :: r) := by
  intro c' r' e; cases e; exact h

theorem dropWhile_headNot {p : Char → Bool} {s : Str} (h : HeadNot p s) : s.dropWhile p = s := by
  cases s with
  | nil => rfl
  | cons c r => simp [List.dropWhile, h c r rfl]

theorem takeWhile_headNot {p : Char → Bool} {s : Str} (h : HeadNot p s) : s.takeWhile p = [] := by
  cases s with
  | nil => rfl
  | cons c r => simp [List.takeWhile, h c r rfl]

theorem takeWhile_all_append {p : Char → Bool} (a s : Str) (ha : a.all p = true) (h : HeadNot p s) :
    (a ++ s).takeWhile p = a := by
  induction a with
  | nil => exact takeWhile_headNot h
  | cons c r ih =>
    simp only [List.all_cons, Bool.and_eq_true] at ha
    simp [ha.1, ih ha.2]

theorem dropWhile_all_append {p : Char → Bool} (a s : Str) (ha : a.all p = true) (h : HeadNot p s) :
    (a ++ s).dropWhile p = s := by
  induction a with
  | nil => exact dropWhile_headNot h
  | cons c r ih =>
    simp only [List.all_cons, Bool.and_eq_true] at ha
    simp [ha.1, ih ha.2]

theorem seps1_space {s : Str} (h : HeadNot isSep s) : seps1 (' ' :: s) = some s := by
  simp [seps1, isSep, dropWhile_headNot h]

/-- `rule attrstring()` accepts exactly this. -/
def validName : Str → Bool
  | [] => false
  | c :: r => isAttrFirst c && r.all isAttrRest

theorem lexAttr_name {n : Str} (hn : validName n = true) {s : Str} (h : HeadNot isAttrRest s) :
    lexAttr (n ++ s) = some (n, s) := by
  cases n with
  | nil => simp [validName] at hn
  | cons c r =>
    simp only [validName, Bool.and_eq_true] at hn
    simp [lexAttr, hn.1, takeWhile_all_append r s hn.2 h, dropWhile_all_append r s hn.2 h]

theorem validName_head {n : Str} (hn : validName n = true) : ∃ c r, n = c :: r ∧ isAttrFirst c = true := by
  cases n with
  | nil => simp [validName] at hn
  | cons c r =>
    simp only [validName, Bool.and_eq_true] at hn
    exact ⟨c, r, rfl, hn.1⟩

/-! ### JSON strings: `decodeStr ∘ escapeStr = id`, and the peg scan finds the same end -/

theorem hexVal_hexDigit : ∀ n : Fin 16, hexVal (hexDigit n.val) = some n.val := by decide

theorem hexDigit_plain : ∀ n : Fin 16, hexDigit n.val ≠ '"' ∧ hexDigit n.val ≠ '\\' := by decide

theorem hex4_ctl (n : Nat) (h : n < 32) :
    hex4 '0' '0' (hexDigit (n / 16)) (hexDigit (n % 16)) = some n := by
  have h1 := hexVal_hexDigit ⟨n / 16, by omega⟩
  have h2 := hexVal_hexDigit ⟨n % 16, by omega⟩
  simp only at h1 h2
  have h0 : hexVal '0' = some 0 := by decide
  simp only [hex4, h0, h1, h2]
  congr 1
  omega

theorem decode_escapeChar (c : Char) (more : Str) :
    decodeStr (escapeChar c ++ more) = consRes c (decodeStr more) := by
  unfold escapeChar
  split
  · next h => subst h; simp only [List.cons_append, List.nil_append]; rw [decodeStr.eq_def]; simp [simpleEscape]
  split
  · next h => subst h; simp only [List.cons_append, List.nil_append]; rw [decodeStr.eq_def]; simp [simpleEscape]
  split
  · next h => subst h; simp only [List.cons_append, List.nil_append]; rw [decodeStr.eq_def]; simp [simpleEscape]
  split
  · next h => subst h; simp only [List.cons_append, List.nil_append]; rw [decodeStr.eq_def]; simp [simpleEscape]
  split
  · next h => subst h; simp only [List.cons_append, List.nil_append]; rw [decodeStr.eq_def]; simp [simpleEscape]
  split
  · next h => subst h; simp only [List.cons_append, List.nil_append]; rw [decodeStr.eq_def]; simp [simpleEscape]
  split
  · next h => subst h; simp only [List.cons_append, List.nil_append]; rw [decodeStr.eq_def]; simp [simpleEscape]
  split
  · next h1 h2 h3 h4 h5 h6 h7 h =>
    have hx := hex4_ctl c.toNat h
    simp only [List.cons_append, List.nil_append]
    rw [decodeStr.eq_def]
    simp [hx, Char.ofNat_toNat]
    rw [if_neg (by omega), if_neg (by omega)]
  · next h1 h2 h3 h4 h5 h6 h7 h =>
    simp only [List.cons_append, List.nil_append]
    rw [decodeStr.eq_def]
    simp [h1, h2, h]

theorem decode_escapeStr (s : Str) : decodeStr (escapeStr s ++ ['"']) = some (s, []) := by
  induction s with
  | nil => simp [escapeStr, decodeStr]
  | cons c r ih =>
    simp only [escapeStr, List.append_assoc]
    rw [decode_escapeChar, ih]
    rfl


def scanCons (pre : Str) : Option (Str × Str) → Option (Str × Str)
  | none => none
  | some (b, rest) => some (pre ++ b, rest)

theorem scan_plain {c : Char} (h1 : c ≠ '"') (h2 : c ≠ '\\') (more : Str) :
    scanQuoted (c :: more) = scanCons [c] (scanQuoted more) := by
  rw [scanQuoted.eq_def]
  simp only [h1, h2, if_false]
  cases scanQuoted more with
  | none => rfl
  | some p => rfl

theorem scan_pair (d : Char) (more : Str) :
    scanQuoted ('\\' :: d :: more) = scanCons ['\\', d] (scanQuoted more) := by
  rw [scanQuoted.eq_def]
  simp only [if_true]
  cases scanQuoted more with
  | none => rfl
  | some p => rfl

theorem scanCons_scanCons (a b : Str) (x : Option (Str × Str)) :
    scanCons a (scanCons b x) = scanCons (a ++ b) x := by
  cases x with
  | none => rfl
  | some p => simp [scanCons]

theorem scan_escapeChar (c : Char) (more : Str) :
    scanQuoted (escapeChar c ++ more) = scanCons (escapeChar c) (scanQuoted more) := by
  unfold escapeChar
  split
  · exact scan_pair _ _
  split
  · exact scan_pair _ _
  split
  · exact scan_pair _ _
  split
  · exact scan_pair _ _
  split
  · exact scan_pair _ _
  split
  · exact scan_pair _ _
  split
  · exact scan_pair _ _
  split
  · next h =>
    have ha := hexDigit_plain ⟨c.toNat / 16, by omega⟩
    have hb := hexDigit_plain ⟨c.toNat % 16, by omega⟩
    simp only at ha hb
    simp only [List.cons_append, List.nil_append]
    rw [scan_pair, scan_plain (by decide) (by decide), scan_plain (by decide) (by decide),
      scan_plain ha.1 ha.2, scan_plain hb.1 hb.2]
    simp [scanCons_scanCons]
  · next h1 h2 _ _ _ _ _ _ =>
    exact scan_plain h1 h2 _

theorem scan_escapeStr (s rest : Str) :
    scanQuoted (escapeStr s ++ '"' :: rest) = some (escapeStr s, rest) := by
  induction s with
  | nil => rw [escapeStr, List.nil_append, scanQuoted.eq_def]; simp
  | cons c r ih =>
    simp only [escapeStr, List.append_assoc]
    rw [scan_escapeChar, ih]
    rfl

/-! ### values -/

theorem rtrimCR_noCR {s : Str} (h : s.all (fun c => !isCR c) = true) : rtrimCR s = s := by
  induction s with
  | nil => rfl
  | cons c r ih =>
    simp only [List.all_cons, Bool.and_eq_true, Bool.not_eq_true'] at h
    simp [rtrimCR, ih (by simpa using h.2), h.1]

theorem rtrimCR_quote (x : Str) : rtrimCR (x ++ ['"']) = x ++ ['"'] := by
  induction x with
  | nil => simp [rtrimCR, isCR]
  | cons c r ih => simp [rtrimCR, ih]

/-- scalar values the round trip speaks about: a number is a JSON number token. -/
def wfVal : Val → Prop
  | .num tok => isJsonNumber tok = true
  | _ => True

theorem jsonNumber_head {tok : Str} (h : isJsonNumber tok = true) :
    ∃ c r, tok = c :: r ∧ (c = '-' ∨ isDigit c = true) := by
  cases tok with
  | nil => simp [isJsonNumber, numInt] at h
  | cons c r =>
    refine ⟨c, r, rfl, ?_⟩
    by_cases hc : c = '-'
    · exact Or.inl hc
    · right
      simp only [isJsonNumber, Bool.and_eq_true] at h
      have h2 := h.2
      split at h2
      · next heq => cases heq; exact absurd rfl hc
      · next heq =>
        simp only [numInt] at h2
        split at h2
        · next h0 =>
          have : c = '0' := by simpa using h0
          subst this; decide
        · split at h2
          · next hd => exact hd
          · cases h2

theorem jsonScalar_num {tok : Str} (h : isJsonNumber tok = true) : jsonScalar tok = some (.num tok) := by
  obtain ⟨c, r, rfl, hc⟩ := jsonNumber_head h
  have hall : (c :: r).all isNumChar = true := by
    simp only [isJsonNumber, Bool.and_eq_true] at h; exact h.1
  have hc1 : isNumChar c = true := by
    simp only [List.all_cons, Bool.and_eq_true] at hall; exact hall.1
  have hnocr : (c :: r).all (fun c => !isCR c) = true := by
    rw [List.all_eq_true] at hall ⊢
    intro x hx
    simp [numChar_not_cr (hall x hx)]
  have hq : c ≠ '"' := numChar_not_quote hc1
  unfold jsonScalar
  simp only [List.dropWhile_cons, numChar_not_cr hc1, Bool.false_eq_true, if_false]
  rw [rtrimCR_noCR hnocr]
  simp [hq, hc, h]

theorem jsonScalar_str (s : Str) : jsonScalar ('"' :: escapeStr s ++ ['"']) = some (.str s) := by
  unfold jsonScalar
  have : isCR '"' = false := by decide
  simp only [List.cons_append, List.dropWhile_cons, this, Bool.false_eq_true, if_false]
  rw [show ('"' :: (escapeStr s ++ ['"'])) = ('"' :: escapeStr s) ++ ['"'] from rfl, rtrimCR_quote]
  simp [decode_escapeStr]

theorem parseVal_print {v : Val} (hv : wfVal v) (rest : Str) :
    parseVal (printVal v ++ ')' :: rest) = some (v, ')' :: rest) := by
  cases v with
  | null => simp [parseVal, quotedVal, unquotedVal, printVal, jsonScalar, isOpChar, isCR, rtrimCR, isDigit]
  | bool b =>
    cases b <;> simp [parseVal, quotedVal, unquotedVal, printVal, jsonScalar, isOpChar, isCR, rtrimCR, isDigit]
  | str s =>
    have hs := scan_escapeStr s (')' :: rest)
    have hj := jsonScalar_str s
    simp only [printVal, List.cons_append, List.append_assoc, List.nil_append] at hs hj ⊢
    simp only [parseVal, quotedVal, if_true, List.cons_append, List.nil_append]
    rw [hs]
    simp only []
    rw [hj]
  | num tok =>
    have hv : isJsonNumber tok = true := hv
    obtain ⟨c, r, rfl, hc⟩ := jsonNumber_head hv
    have hall : (c :: r).all isNumChar = true := by
      simp only [isJsonNumber, Bool.and_eq_true] at hv; exact hv.1
    have hc1 : isNumChar c = true := by
      simp only [List.all_cons, Bool.and_eq_true] at hall; exact hall.1
    have hnop : (c :: r).all (fun c => !isOpChar c) = true := by
      rw [List.all_eq_true] at hall ⊢
      intro x hx
      simp [numChar_not_op (hall x hx)]
    have hhead : HeadNot (fun c => !isOpChar c) (')' :: rest) := headNot_cons _ (by decide)
    have hq : c ≠ '"' := numChar_not_quote hc1
    simp only [printVal, parseVal]
    have hquoted : quotedVal (c :: r ++ ')' :: rest) = none := by
      simp [quotedVal, hq]
    rw [hquoted]
    simp only [unquotedVal, takeWhile_all_append _ _ hnop hhead, dropWhile_all_append _ _ hnop hhead,
      jsonScalar_num hv]


theorem printVal_head {v : Val} (hv : wfVal v) (s : Str) : HeadNot isSep (printVal v ++ s) := by
  cases v with
  | null => exact headNot_cons _ (by decide)
  | bool b => cases b <;> exact headNot_cons _ (by decide)
  | str x => exact headNot_cons _ (by decide)
  | num tok =>
    have hv : isJsonNumber tok = true := hv
    obtain ⟨c, r, rfl, hc⟩ := jsonNumber_head hv
    refine headNot_cons _ ?_
    rcases hc with hc | hc
    · subst hc; decide
    · simp [isDigit, isSep, beq_toNat] at *
      omega

/-! ### operator tables -/

theorem tryOps_pres (rest : Str) : tryOps gramOps (dispPr ++ ')' :: rest) = some (none, ')' :: rest) := by
  simp [gramOps, dispPr, tryOps, lit, lit_nil]

theorem tryOpsC_pres (rest : Str) : tryOps gramOpsC (dispPrC ++ ')' :: rest) = some (none, ')' :: rest) := by
  simp [gramOpsC, dispPrC, tryOps, lit, lit_nil]

theorem tryOps_cmp (op : Op) {v : Val} (hv : wfVal v) (rest : Str) :
    tryOps gramOps (dispKw op ++ ' ' :: printVal v ++ ')' :: rest) = some (some (op, v), ')' :: rest) := by
  have h1 : seps1 (' ' :: (printVal v ++ ')' :: rest)) = some (printVal v ++ ')' :: rest) :=
    seps1_space (printVal_head hv _)
  have h2 := parseVal_print hv rest
  cases op <;> simp [gramOps, dispKw, tryOps, lit, lit_nil, h1, h2]

theorem tryOpsC_cmp (op : Op) {v : Val} (hv : wfVal v) (rest : Str) :
    tryOps gramOpsC (dispKwC op ++ ' ' :: printVal v ++ ')' :: rest) = some (some (op, v), ')' :: rest) := by
  have h1 : seps1 (' ' :: (printVal v ++ ')' :: rest)) = some (printVal v ++ ')' :: rest) :=
    seps1_space (printVal_head hv _)
  have h2 := parseVal_print hv rest
  cases op <;> simp [gramOpsC, dispKwC, tryOps, lit, lit_nil, h1, h2]

theorem dispKw_head (op : Op) (s : Str) : HeadNot isSep (dispKw op ++ s) ∧ ∀ s1, dispKw op ++ s ≠ '(' :: s1 := by
  cases op <;> exact ⟨headNot_cons _ (by decide), by simp [dispKw]⟩

theorem dispKwC_head (op : Op) (s : Str) : HeadNot isSep (dispKwC op ++ s) ∧ ∀ s1, dispKwC op ++ s ≠ '(' :: s1 := by
  cases op <;> exact ⟨headNot_cons _ (by decide), by simp [dispKwC]⟩

/-! ### the `not` atom does not fire on a name -/

theorem notGuard (kw : Str) (hk : kw.all isAttrRest = true) :
    ∀ (n x : Str), n.all isAttrRest = true → HeadNot isAttrRest x →
      (∀ s1, seps1 x ≠ some ('(' :: s1)) → ∀ s1, (lit kw (n ++ x)).bind seps1 ≠ some ('(' :: s1) := by
  induction kw with
  | nil =>
    intro n x hn hx hs s1
    rw [lit_nil]
    cases n with
    | nil => simpa using hs s1
    | cons c r =>
      simp only [List.all_cons, Bool.and_eq_true] at hn
      simp [seps1, attrRest_not_sep hn.1]
  | cons k ks ih =>
    simp only [List.all_cons, Bool.and_eq_true] at hk
    intro n x hn hx hs s1
    cases n with
    | nil =>
      cases x with
      | nil => simp [lit]
      | cons c r =>
        have hc := hx c r rfl
        have : k ≠ c := by intro e; subst e; rw [hk.1] at hc; cases hc
        simp [lit, this]
    | cons c r =>
      simp only [List.all_cons, Bool.and_eq_true] at hn
      simp only [List.cons_append, lit]
      split
      · exact ih hk.2 r x hn.2 hx hs s1
      · simp

/-! ### `precedence!{}`: one-step unfoldings -/

section generic
variable {α : Type} (kw : Kws) (lp : LeafP α)

theorem group_ok {inner : Nat → Nat → Str → Option (Tree α × Str)} {close : Char} {m : Nat} {s r : Str}
    {e : Tree α} (hm : m ≠ 0) (h : inner (m - 1) 0 s = some (e, close :: r)) :
    group inner close m s = some (e, r) := by
  simp [group, hm, h]

theorem infixP_succ (f m p : Nat) (s : Str) :
    infixP kw lp (f + 1) m p s =
      match atom kw lp f m s with
      | none => none
      | some (lhs, r) => loop kw lp f m p lhs r := by
  rw [infixP.eq_def]
  rfl

theorem infixP_of_atom {f m p : Nat} {s r : Str} {lhs : Tree α} (h : atom kw lp f m s = some (lhs, r)) :
    infixP kw lp (f + 1) m p s = loop kw lp f m p lhs r := by
  rw [infixP_succ, h]

theorem infixOp_none_of_seps {kwd : Str} {rhs : Str → Option (Tree α × Str)} {s : Str} (h : seps1 s = none) :
    infixOp kwd rhs s = none := by
  simp [infixOp, h]

theorem loop_stop (f m p : Nat) (lhs : Tree α) {s : Str} (h : seps1 s = none) :
    loop kw lp (f + 1) m p lhs s = some (lhs, s) := by
  rw [loop.eq_def]
  simp [infixOp_none_of_seps h]

theorem loop_or {f m : Nat} {lhs rhs : Tree α} {s r : Str}
    (h : infixOp kw.or_ (infixP kw lp f m 1) s = some (rhs, r)) :
    loop kw lp (f + 1) m 0 lhs s = loop kw lp f m 0 (.or lhs rhs) r := by
  rw [loop.eq_def]
  simp [h]

theorem loop_and {f m p : Nat} {lhs rhs : Tree α} {s r : Str} (hp : p ≤ 1)
    (hor : p = 0 → infixOp kw.or_ (infixP kw lp f m 1) s = none)
    (h : infixOp kw.and_ (infixP kw lp f m 2) s = some (rhs, r)) :
    loop kw lp (f + 1) m p lhs s = loop kw lp f m p (.and lhs rhs) r := by
  rw [loop.eq_def]
  by_cases h0 : p = 0
  · simp [h, hor h0, h0]
  · have : ¬ p ≤ 0 := by omega
    simp [h, this, hp]

theorem loop_none {f m p : Nat} {lhs : Tree α} {s : Str}
    (hor : p = 0 → infixOp kw.or_ (infixP kw lp f m 1) s = none)
    (hand : p ≤ 1 → infixOp kw.and_ (infixP kw lp f m 2) s = none) :
    loop kw lp (f + 1) m p lhs s = some (lhs, s) := by
  rw [loop.eq_def]
  by_cases h0 : p = 0
  · simp [hor h0, hand (by omega), h0]
  · have h0' : ¬ p ≤ 0 := by omega
    by_cases h1 : p ≤ 1
    · simp [hand h1, h0', h1]
    · simp [h0', h1]

theorem atom_paren {f m : Nat} {x : Str} (hnot : lit kw.not_ ('(' :: x) = none)
    (hlp : lp f m ('(' :: x) = none) :
    atom kw lp (f + 1) m ('(' :: x) = group (infixP kw lp f) ')' m x := by
  rw [atom.eq_def]
  simp [hnot, hlp]

theorem atom_not {f m : Nat} {x r : Str} {e : Tree α} (y : Str)
    (h1 : (lit kw.not_ y).bind seps1 = some ('(' :: x))
    (h2 : group (infixP kw lp f) ')' m x = some (e, r)) :
    atom kw lp (f + 1) m y = some (.not e, r) := by
  rw [atom.eq_def]
  simp [h1, h2]

theorem atom_leaf_of {f m : Nat} {y r : Str} {l : α}
    (h1 : ∀ s1, (lit kw.not_ y).bind seps1 ≠ some ('(' :: s1))
    (h2 : lp f m y = some (l, r)) :
    atom kw lp (f + 1) m y = some (.leaf l, r) := by
  rw [atom.eq_def]
  have hn : (match (lit kw.not_ y).bind seps1 with
      | some ('(' :: s1) =>
        match group (infixP kw lp f) ')' m s1 with
        | some (e, r) => some (Tree.not e, r)
        | none => none
      | _ => (none : Option (Tree α × Str))) = none := by
    split
    · next s1 h => exact absurd h (h1 s1)
    · rfl
  simp only [hn, h2]

end generic

/-! ### generic round trip of the `or` / `and` / `not` / parenthesis layer -/

def wfT {α : Type} (wfL : α → Prop) : Tree α → Prop
  | .or a b => wfT wfL a ∧ wfT wfL b
  | .and a b => wfT wfL a ∧ wfT wfL b
  | .not a => wfT wfL a
  | .leaf l => wfL l

/-- the least `max_depth` argument of `parse_inner` under which the printed tree parses. -/
def needT {α : Type} (needL : α → Nat) : Tree α → Nat
  | .or a b => max (needT needL a) (needT needL b) + 1
  | .and a b => max (needT needL a) (needT needL b) + 1
  | .not a => needT needL a + 2
  | .leaf l => needL l

def fuelT {α : Type} (fuelL : α → Nat) : Tree α → Nat
  | .or a b => fuelT fuelL a + fuelT fuelL b + 6
  | .and a b => fuelT fuelL a + fuelT fuelL b + 6
  | .not a => fuelT fuelL a + 6
  | .leaf l => fuelL l

/-- what the generic proof needs to know about the keywords (display vs grammar). -/
structure KwOk (kwD kwG : Kws) : Prop where
  or_eq : kwG.or_ = kwD.or_
  and_eq : kwG.and_ = kwD.and_
  not_eq : kwG.not_ = kwD.not_
  or_head : ∀ s, HeadNot isSep (kwD.or_ ++ s)
  and_head : ∀ s, HeadNot isSep (kwD.and_ ++ s)
  or_not_and : ∀ s, lit kwG.or_ (kwD.and_ ++ s) = none
  not_paren : ∀ s, lit kwG.not_ ('(' :: s) = none

/-- what it needs to know about the leaves. -/
structure LeafOk {α : Type} (kwG : Kws) (lp : LeafP α) (pl : α → Str) (wfL : α → Prop)
    (needL fuelL : α → Nat) : Prop where
  atom_leaf : ∀ l, wfL l → ∀ f m rest, fuelL l ≤ f → needL l ≤ m →
    atom kwG lp f m (pl l ++ rest) = some (.leaf l, rest)
  lp_paren : ∀ f m s, lp f m ('(' :: s) = none
  head : ∀ l, wfL l → ∀ s, HeadNot isSep (pl l ++ s)
  need_pos : ∀ l, 1 ≤ needL l
  fuel_pos : ∀ l, 1 ≤ fuelL l

section roundtrip
variable {α : Type} {kwD kwG : Kws} {lp : LeafP α} {pl : α → Str} {wfL : α → Prop} {needL fuelL : α → Nat}

theorem needT_pos (lok : LeafOk kwG lp pl wfL needL fuelL) (t : Tree α) : 1 ≤ needT needL t := by
  cases t with
  | leaf l => exact lok.need_pos l
  | _ => simp [needT]

theorem fuelT_pos (lok : LeafOk kwG lp pl wfL needL fuelL) (t : Tree α) : 1 ≤ fuelT fuelL t := by
  cases t with
  | leaf l => exact lok.fuel_pos l
  | _ => simp [fuelT]

theorem printTree_head (lok : LeafOk kwG lp pl wfL needL fuelL) (t : Tree α) (ht : wfT wfL t) (s : Str) :
    HeadNot isSep (printTree kwD pl t ++ s) := by
  cases t with
  | leaf l => exact lok.head l ht s
  | or a b => exact headNot_cons _ (by decide)
  | and a b => exact headNot_cons _ (by decide)
  | not a => exact headNot_cons _ (by decide)

/-- `separator()+ KW separator()+ rhs` on the text `Display` writes between two operands. -/
theorem infixOp_print {kwd kwg : Str} (heq : kwg = kwd) (hh : ∀ s, HeadNot isSep (kwd ++ s))
    (rhs : Str → Option (Tree α × Str)) {y : Str} (hy : HeadNot isSep y) :
    infixOp kwg rhs (' ' :: kwd ++ ' ' :: y) = rhs y := by
  subst heq
  have h1 : seps1 (' ' :: (kwg ++ ' ' :: y)) = some (kwg ++ ' ' :: y) := seps1_space (hh _)
  simp only [infixOp, List.cons_append] at *
  simp [h1, lit_append, seps1_space hy]

theorem atom_print (kok : KwOk kwD kwG) (lok : LeafOk kwG lp pl wfL needL fuelL) :
    ∀ t, wfT wfL t → ∀ f m rest, fuelT fuelL t ≤ f → needT needL t ≤ m →
      atom kwG lp f m (printTree kwD pl t ++ rest) = some (t, rest) := by
  intro t
  induction t with
  | leaf l =>
    intro ht f m rest hf hm
    exact lok.atom_leaf l ht f m rest hf hm
  | or a b iha ihb =>
    intro ht f m rest hf hm
    simp only [fuelT, needT] at hf hm
    have hpa := fuelT_pos lok a
    have hpb := fuelT_pos lok b
    obtain ⟨g, rfl⟩ : ∃ g, f = g + 4 := ⟨f - 4, by omega⟩
    have hm0 : m ≠ 0 := by omega
    simp only [printTree, List.cons_append, List.append_assoc, List.nil_append]
    rw [atom_paren kwG lp (kok.not_paren _) (lok.lp_paren _ _ _)]
    refine group_ok hm0 ?_
    rw [infixP_of_atom kwG lp (iha ht.1 (g + 2) (m - 1) _ (by omega) (by omega))]
    have hB : HeadNot isSep (printTree kwD pl b ++ ')' :: rest) := printTree_head lok b ht.2 _
    have hb := ihb ht.2 g (m - 1) (')' :: rest) (by omega) (by omega)
    have hor : infixOp kwG.or_ (infixP kwG lp (g + 1) (m - 1) 1)
        (' ' :: kwD.or_ ++ ' ' :: (printTree kwD pl b ++ ')' :: rest)) = some (b, ')' :: rest) := by
      rw [infixOp_print kok.or_eq kok.or_head _ hB, infixP_of_atom kwG lp hb]
      obtain ⟨g', rfl⟩ : ∃ g', g = g' + 1 := ⟨g - 1, by omega⟩
      exact loop_stop kwG lp _ _ _ _ (by simp [seps1, isSep])
    simp only [List.cons_append] at hor
    rw [loop_or kwG lp hor]
    exact loop_stop kwG lp _ _ _ _ (by simp [seps1, isSep])
  | and a b iha ihb =>
    intro ht f m rest hf hm
    simp only [fuelT, needT] at hf hm
    have hpa := fuelT_pos lok a
    have hpb := fuelT_pos lok b
    obtain ⟨g, rfl⟩ : ∃ g, f = g + 4 := ⟨f - 4, by omega⟩
    have hm0 : m ≠ 0 := by omega
    simp only [printTree, List.cons_append, List.append_assoc, List.nil_append]
    rw [atom_paren kwG lp (kok.not_paren _) (lok.lp_paren _ _ _)]
    refine group_ok hm0 ?_
    rw [infixP_of_atom kwG lp (iha ht.1 (g + 2) (m - 1) _ (by omega) (by omega))]
    have hB : HeadNot isSep (printTree kwD pl b ++ ')' :: rest) := printTree_head lok b ht.2 _
    have hb := ihb ht.2 g (m - 1) (')' :: rest) (by omega) (by omega)
    have hand : infixOp kwG.and_ (infixP kwG lp (g + 1) (m - 1) 2)
        (' ' :: kwD.and_ ++ ' ' :: (printTree kwD pl b ++ ')' :: rest)) = some (b, ')' :: rest) := by
      rw [infixOp_print kok.and_eq kok.and_head _ hB, infixP_of_atom kwG lp hb]
      obtain ⟨g', rfl⟩ : ∃ g', g = g' + 1 := ⟨g - 1, by omega⟩
      exact loop_stop kwG lp _ _ _ _ (by simp [seps1, isSep])
    have hor : infixOp kwG.or_ (infixP kwG lp (g + 1) (m - 1) 1)
        (' ' :: kwD.and_ ++ ' ' :: (printTree kwD pl b ++ ')' :: rest)) = none := by
      have h1 : seps1 (' ' :: (kwD.and_ ++ ' ' :: (printTree kwD pl b ++ ')' :: rest))) = some _ :=
        seps1_space (kok.and_head _)
      simp only [infixOp, List.cons_append] at *
      simp [h1, kok.or_not_and]
    simp only [List.cons_append] at hand hor
    rw [loop_and kwG lp (by omega) (fun _ => hor) hand]
    exact loop_stop kwG lp _ _ _ _ (by simp [seps1, isSep])
  | not a iha =>
    intro ht f m rest hf hm
    simp only [fuelT, needT] at hf hm
    have hpa := fuelT_pos lok a
    have hna := needT_pos lok a
    obtain ⟨g, rfl⟩ : ∃ g, f = g + 5 := ⟨f - 5, by omega⟩
    have hm0 : m ≠ 0 := by omega
    have hm1 : m - 1 ≠ 0 := by omega
    simp only [printTree, List.cons_append, List.append_assoc, List.nil_append]
    rw [atom_paren kwG lp (kok.not_paren _) (lok.lp_paren _ _ _)]
    refine group_ok hm0 ?_
    have ha := iha ht g (m - 1 - 1) (')' :: ')' :: rest) (by omega) (by omega)
    have hinner : group (infixP kwG lp (g + 2)) ')' (m - 1) (printTree kwD pl a ++ ')' :: ')' :: rest)
        = some (a, ')' :: rest) := by
      refine group_ok hm1 ?_
      rw [infixP_of_atom kwG lp (f := g + 1) (iha ht (g + 1) (m - 1 - 1) (')' :: ')' :: rest) (by omega) (by omega))]
      exact loop_stop kwG lp _ _ _ _ (by simp [seps1, isSep])
    have hguard : (lit kwG.not_ (kwD.not_ ++ ' ' :: '(' :: (printTree kwD pl a ++ ')' :: ')' :: rest))).bind seps1
        = some ('(' :: (printTree kwD pl a ++ ')' :: ')' :: rest)) := by
      rw [kok.not_eq, lit_append]
      exact seps1_space (headNot_cons _ (by decide))
    rw [infixP_of_atom kwG lp (f := g + 3) (atom_not kwG lp _ hguard hinner)]
    exact loop_stop kwG lp _ _ _ _ (by simp [seps1, isSep])

theorem fuelT_le_length (hl : ∀ l, fuelL l ≤ 3 * (pl l).length) (t : Tree α) :
    fuelT fuelL t ≤ 3 * (printTree kwD pl t).length := by
  induction t with
  | leaf l => exact hl l
  | or a b iha ihb => simp only [fuelT, printTree, List.length_cons, List.length_append]; omega
  | and a b iha ihb => simp only [fuelT, printTree, List.length_cons, List.length_append]; omega
  | not a iha => simp only [fuelT, printTree, List.length_cons, List.length_append]; omega

end roundtrip

/-! ### instances: `ScimComplexFilter` -/

theorem cKwOk : KwOk cKwD cKwG where
  or_eq := rfl
  and_eq := rfl
  not_eq := rfl
  or_head := fun _ => headNot_cons _ (by decide)
  and_head := fun _ => headNot_cons _ (by decide)
  or_not_and := fun s => by simp [cKwG, cKwD, gramOrC, dispAndC, lit]
  not_paren := fun s => by simp [cKwG, gramNotC, lit]

theorem fKwOk : KwOk fKwD fKwG where
  or_eq := rfl
  and_eq := rfl
  not_eq := rfl
  or_head := fun _ => headNot_cons _ (by decide)
  and_head := fun _ => headNot_cons _ (by decide)
  or_not_and := fun s => by simp [fKwG, fKwD, gramOr, dispAnd, lit]
  not_paren := fun s => by simp [fKwG, gramNot, lit]

def wfCLeaf : CLeaf → Prop
  | .pres s => validName s = true
  | .cmp _ s v => validName s = true ∧ wfVal v

theorem validName_all {n : Str} (h : validName n = true) : n.all isAttrRest = true := by
  cases n with
  | nil => simp [validName] at h
  | cons c r =>
    simp only [validName, Bool.and_eq_true] at h
    simp [attrFirst_rest h.1, h.2]

theorem gramNotC_all : cKwG.not_.all isAttrRest = true := by decide
theorem gramNot_all : fKwG.not_.all isAttrRest = true := by decide

theorem seps1_space_ne_paren {y : Str} (h : HeadNot isSep y) (hy : ∀ s1, y ≠ '(' :: s1) :
    ∀ s1, seps1 (' ' :: y) ≠ some ('(' :: s1) := by
  intro s1
  rw [seps1_space h]
  intro e
  exact hy s1 (Option.some.inj e)

theorem cLeafP_paren (f m : Nat) (s : Str) : cLeafP f m ('(' :: s) = none := by
  simp [cLeafP, lexAttr, isAttrFirst]

theorem cLeafP_print {l : CLeaf} (hl : wfCLeaf l) (f m : Nat) (rest : Str) :
    cLeafP f m ((printCLeaf l).tail ++ rest) = some (l, ')' :: rest) := by
  cases l with
  | pres s =>
    have hs : validName s = true := hl
    have h1 : lexAttr (s ++ ' ' :: (dispPrC ++ ')' :: rest)) = some (s, ' ' :: (dispPrC ++ ')' :: rest)) :=
      lexAttr_name hs (headNot_cons _ (by decide))
    have h2 : seps1 (' ' :: (dispPrC ++ ')' :: rest)) = some (dispPrC ++ ')' :: rest) :=
      seps1_space (headNot_cons _ (by decide))
    simp only [printCLeaf, List.tail_cons, List.append_assoc, List.cons_append, List.nil_append]
    simp only [cLeafP, h1, h2, tryOpsC_pres]
  | cmp op s v =>
    have hs : validName s = true := hl.1
    have h1 : lexAttr (s ++ ' ' :: (dispKwC op ++ ' ' :: (printVal v ++ ')' :: rest)))
        = some (s, ' ' :: (dispKwC op ++ ' ' :: (printVal v ++ ')' :: rest))) :=
      lexAttr_name hs (headNot_cons _ (by decide))
    have h2 : seps1 (' ' :: (dispKwC op ++ ' ' :: (printVal v ++ ')' :: rest)))
        = some (dispKwC op ++ ' ' :: (printVal v ++ ')' :: rest)) :=
      seps1_space (dispKwC_head op _).1
    simp only [printCLeaf, List.tail_cons, List.append_assoc, List.cons_append, List.nil_append] at h1 h2 ⊢
    simp only [cLeafP, h1, h2]
    have := tryOpsC_cmp op hl.2 rest
    simp only [List.append_assoc, List.cons_append] at this
    simp only [this]

theorem cLeaf_guard {l : CLeaf} (hl : wfCLeaf l) (rest : Str) :
    ∀ s1, (lit cKwG.not_ ((printCLeaf l).tail ++ rest)).bind seps1 ≠ some ('(' :: s1) := by
  cases l with
  | pres s =>
    simp only [printCLeaf, List.tail_cons, List.append_assoc, List.cons_append, List.nil_append]
    exact notGuard _ gramNotC_all s _ (validName_all hl) (headNot_cons _ (by decide))
      (seps1_space_ne_paren (headNot_cons _ (by decide)) (by simp [dispPrC]))
  | cmp op s v =>
    simp only [printCLeaf, List.tail_cons, List.append_assoc, List.cons_append, List.nil_append]
    exact notGuard _ gramNotC_all s _ (validName_all hl.1) (headNot_cons _ (by decide))
      (seps1_space_ne_paren (dispKwC_head op _).1 (dispKwC_head op _).2)

theorem printCLeaf_cons (l : CLeaf) : printCLeaf l = '(' :: (printCLeaf l).tail := by
  cases l <;> rfl

theorem cLeafOk : LeafOk cKwG cLeafP printCLeaf wfCLeaf (fun _ => 1) (fun _ => 4) where
  atom_leaf := by
    intro l hl f m rest hf hm
    obtain ⟨g, rfl⟩ : ∃ g, f = g + 4 := ⟨f - 4, by omega⟩
    have hm0 : m ≠ 0 := by omega
    rw [printCLeaf_cons, List.cons_append]
    rw [atom_paren cKwG cLeafP (cKwOk.not_paren _) (cLeafP_paren _ _ _)]
    refine group_ok hm0 ?_
    rw [infixP_of_atom cKwG cLeafP (f := g + 2)
      (atom_leaf_of cKwG cLeafP (cLeaf_guard hl rest) (cLeafP_print hl (g + 1) (m - 1) rest))]
    exact loop_stop cKwG cLeafP _ _ _ _ (by simp [seps1, isSep])
  lp_paren := cLeafP_paren
  head := by
    intro l hl s
    rw [printCLeaf_cons]
    exact headNot_cons _ (by decide)
  need_pos := fun _ => Nat.le_refl _
  fuel_pos := fun _ => by omega

/-- `parse_complex_inner(m)` reads back what `Display for ScimComplexFilter` wrote. -/
theorem atomC_print (c : CFilter) (hc : wfT wfCLeaf c) (f m : Nat) (rest : Str)
    (hf : fuelT (fun _ => 4) c ≤ f) (hm : needT (fun _ => 1) c ≤ m) :
    atom cKwG cLeafP f m (printC c ++ rest) = some (c, rest) :=
  atom_print cKwOk cLeafOk c hc f m rest hf hm

/-! ### instances: `ScimFilter` -/

def validPath (p : AttrPath) : Prop :=
  validName p.a = true ∧ match p.s with | some s => validName s = true | none => True

def wfFLeaf : FLeaf → Prop
  | .pres p => validPath p
  | .cmp _ p v => validPath p ∧ wfVal v
  | .complex a c => validName a = true ∧ wfT wfCLeaf c

def needF : FLeaf → Nat
  | .complex _ c => needT (fun _ => 1) c + 1
  | _ => 1

def fuelF : FLeaf → Nat
  | .complex _ c => fuelT (fun _ => 4) c + 4
  | _ => 4

theorem lexPath_print {p : AttrPath} (hp : validPath p) (y : Str) :
    lexPath (printPath p ++ ' ' :: y) = some (p, ' ' :: y) := by
  obtain ⟨a, sub⟩ := p
  cases sub with
  | none =>
    have h1 : lexAttr (a ++ ' ' :: y) = some (a, ' ' :: y) := lexAttr_name hp.1 (headNot_cons _ (by decide))
    simp [lexPath, printPath, h1]
  | some sub =>
    have hs : validName sub = true := hp.2
    have h1 : lexAttr (a ++ '.' :: (sub ++ ' ' :: y)) = some (a, '.' :: (sub ++ ' ' :: y)) :=
      lexAttr_name hp.1 (headNot_cons _ (by decide))
    have h2 : lexAttr (sub ++ ' ' :: y) = some (sub, ' ' :: y) := lexAttr_name hs (headNot_cons _ (by decide))
    simp [lexPath, printPath, h1, h2]

theorem lexAttr_path_not_bracket {p : AttrPath} (hp : validPath p) (y : Str) :
    ∃ a s1, lexAttr (printPath p ++ ' ' :: y) = some (a, s1) ∧ ∀ s2, s1 ≠ '[' :: s2 := by
  obtain ⟨a, sub⟩ := p
  cases sub with
  | none =>
    exact ⟨a, _, lexAttr_name hp.1 (headNot_cons _ (by decide)), by simp⟩
  | some sub =>
    refine ⟨a, '.' :: (sub ++ ' ' :: y), ?_, by simp⟩
    have := lexAttr_name (s := '.' :: (sub ++ ' ' :: y)) hp.1 (headNot_cons _ (by decide))
    simpa [printPath] using this

theorem path_guard {p : AttrPath} (hp : validPath p) {y : Str} (hy : HeadNot isSep y) (hy2 : ∀ s1, y ≠ '(' :: s1) :
    ∀ s1, (lit fKwG.not_ (printPath p ++ ' ' :: y)).bind seps1 ≠ some ('(' :: s1) := by
  obtain ⟨a, sub⟩ := p
  cases sub with
  | none =>
    exact notGuard _ gramNot_all a _ (validName_all hp.1) (headNot_cons _ (by decide))
      (seps1_space_ne_paren hy hy2)
  | some sub =>
    simp only [printPath, List.append_assoc, List.cons_append]
    exact notGuard _ gramNot_all a _ (validName_all hp.1) (headNot_cons _ (by decide))
      (by simp [seps1, isSep])

theorem fLeafP_paren (f m : Nat) (s : Str) : fLeafP f m ('(' :: s) = none := by
  simp [fLeafP, attrexp, lexPath, lexAttr, isAttrFirst]

theorem fLeafP_attrexp {s : Str} {a s1 : Str} (f m : Nat) (h : lexAttr s = some (a, s1)) (hb : ∀ s2, s1 ≠ '[' :: s2) :
    fLeafP f m s = attrexp s := by
  unfold fLeafP
  simp only [h]
  split
  · next heq =>
    split at heq
    · next s2 h2 =>
      cases h2
      exact absurd rfl (hb _)
    · cases heq
  · rfl

theorem attrexp_pres {p : AttrPath} (hp : validPath p) (rest : Str) :
    attrexp (printPath p ++ ' ' :: (dispPr ++ ')' :: rest)) = some (.pres p, ')' :: rest) := by
  have h2 : seps1 (' ' :: (dispPr ++ ')' :: rest)) = some (dispPr ++ ')' :: rest) :=
    seps1_space (headNot_cons _ (by decide))
  simp only [attrexp, lexPath_print hp, h2, tryOps_pres]

theorem attrexp_cmp (op : Op) {p : AttrPath} (hp : validPath p) {v : Val} (hv : wfVal v) (rest : Str) :
    attrexp (printPath p ++ ' ' :: (dispKw op ++ ' ' :: (printVal v ++ ')' :: rest)))
      = some (.cmp op p v, ')' :: rest) := by
  have h2 : seps1 (' ' :: (dispKw op ++ ' ' :: (printVal v ++ ')' :: rest)))
      = some (dispKw op ++ ' ' :: (printVal v ++ ')' :: rest)) :=
    seps1_space (dispKw_head op _).1
  have h3 := tryOps_cmp op hv rest
  simp only [List.append_assoc, List.cons_append] at h3
  simp only [attrexp, lexPath_print hp, h2, h3]

theorem fLeafP_complex {a : Str} (ha : validName a = true) {c : CFilter} (hc : wfT wfCLeaf c)
    (g m : Nat) (rest : Str) (hf : fuelT (fun _ => 4) c ≤ g) (hm : needT (fun _ => 1) c + 1 ≤ m) :
    fLeafP (g + 2) m (a ++ '[' :: (printC c ++ ']' :: rest)) = some (.complex a c, rest) := by
  have h1 : lexAttr (a ++ '[' :: (printC c ++ ']' :: rest)) = some (a, '[' :: (printC c ++ ']' :: rest)) :=
    lexAttr_name ha (headNot_cons _ (by decide))
  have hg : group (infixP cKwG cLeafP (g + 2)) ']' m (printC c ++ ']' :: rest) = some (c, rest) := by
    refine group_ok (by omega) ?_
    rw [infixP_of_atom cKwG cLeafP (f := g + 1) (atomC_print c hc (g + 1) (m - 1) _ (by omega) (by omega))]
    exact loop_stop cKwG cLeafP _ _ _ _ (by simp [seps1, isSep])
  simp only [fLeafP, h1, hg]

theorem fLeafOk : LeafOk fKwG fLeafP printFLeaf wfFLeaf needF fuelF where
  atom_leaf := by
    intro l hl f m rest hf hm
    cases l with
    | pres p =>
      have hp : validPath p := hl
      simp only [fuelF, needF] at hf hm
      obtain ⟨g, rfl⟩ : ∃ g, f = g + 4 := ⟨f - 4, by omega⟩
      simp only [printFLeaf, List.cons_append, List.append_assoc, List.nil_append]
      rw [atom_paren fKwG fLeafP (fKwOk.not_paren _) (fLeafP_paren _ _ _)]
      refine group_ok (by omega) ?_
      obtain ⟨a, s1, hla, hnb⟩ := lexAttr_path_not_bracket hp (dispPr ++ ')' :: rest)
      have hleaf : fLeafP (g + 1) (m - 1) (printPath p ++ ' ' :: (dispPr ++ ')' :: rest))
          = some (.pres p, ')' :: rest) := by
        rw [fLeafP_attrexp _ _ hla hnb, attrexp_pres hp]
      have hguard := path_guard hp (y := dispPr ++ ')' :: rest) (headNot_cons _ (by decide)) (by simp [dispPr])
      rw [infixP_of_atom fKwG fLeafP (f := g + 2) (atom_leaf_of fKwG fLeafP hguard hleaf)]
      exact loop_stop fKwG fLeafP _ _ _ _ (by simp [seps1, isSep])
    | cmp op p v =>
      have hp : validPath p := hl.1
      simp only [fuelF, needF] at hf hm
      obtain ⟨g, rfl⟩ : ∃ g, f = g + 4 := ⟨f - 4, by omega⟩
      simp only [printFLeaf, List.cons_append, List.append_assoc, List.nil_append]
      rw [atom_paren fKwG fLeafP (fKwOk.not_paren _) (fLeafP_paren _ _ _)]
      refine group_ok (by omega) ?_
      obtain ⟨a, s1, hla, hnb⟩ := lexAttr_path_not_bracket hp (dispKw op ++ ' ' :: (printVal v ++ ')' :: rest))
      have hleaf : fLeafP (g + 1) (m - 1) (printPath p ++ ' ' :: (dispKw op ++ ' ' :: (printVal v ++ ')' :: rest)))
          = some (.cmp op p v, ')' :: rest) := by
        rw [fLeafP_attrexp _ _ hla hnb, attrexp_cmp op hp hl.2]
      have hguard := path_guard hp (dispKw_head op (' ' :: (printVal v ++ ')' :: rest))).1
        (dispKw_head op _).2
      rw [infixP_of_atom fKwG fLeafP (f := g + 2) (atom_leaf_of fKwG fLeafP hguard hleaf)]
      exact loop_stop fKwG fLeafP _ _ _ _ (by simp [seps1, isSep])
    | complex a c =>
      simp only [fuelF, needF] at hf hm
      obtain ⟨g, rfl⟩ : ∃ g, f = g + 4 := ⟨f - 4, by omega⟩
      simp only [printFLeaf, List.append_assoc, List.cons_append, List.nil_append]
      have hguard : ∀ s1, (lit fKwG.not_ (a ++ '[' :: (printC c ++ ']' :: rest))).bind seps1 ≠ some ('(' :: s1) :=
        notGuard _ gramNot_all a _ (validName_all hl.1) (headNot_cons _ (by decide)) (by simp [seps1, isSep])
      exact atom_leaf_of fKwG fLeafP hguard (fLeafP_complex hl.1 hl.2 (g + 1) m rest (by omega) hm)
  lp_paren := fLeafP_paren
  head := by
    intro l hl s
    cases l with
    | pres p => exact headNot_cons _ (by decide)
    | cmp op p v => exact headNot_cons _ (by decide)
    | complex a c =>
      obtain ⟨c0, r0, rfl, h0⟩ := validName_head hl.1
      exact headNot_cons _ (attrRest_not_sep (attrFirst_rest h0))
  need_pos := fun l => by cases l <;> simp [needF]
  fuel_pos := fun l => by cases l <;> simp [fuelF]

/-- `parse_inner(m)` reads back what `Display for ScimFilter` wrote. -/
theorem atomF_print (t : Filter) (ht : wfT wfFLeaf t) (f m : Nat) (rest : Str)
    (hf : fuelT fuelF t ≤ f) (hm : needT needF t ≤ m) :
    atom fKwG fLeafP f m (printF t ++ rest) = some (t, rest) :=
  atom_print fKwOk fLeafOk t ht f m rest hf hm

theorem fuelC_le (c : CFilter) : fuelT (fun _ => 4) c ≤ 3 * (printC c).length := by
  refine fuelT_le_length (kwD := cKwD) (pl := printCLeaf) ?_ c
  intro l
  cases l <;> simp [printCLeaf] <;> omega

theorem fuelF_le (t : Filter) : fuelT fuelF t ≤ 3 * (printF t).length := by
  refine fuelT_le_length (kwD := fKwD) (pl := printFLeaf) ?_ t
  intro l
  cases l with
  | pres p => simp [printFLeaf, fuelF]; omega
  | cmp op p v => simp [printFLeaf, fuelF]; omega
  | complex a c =>
    have := fuelC_le c
    simp [printFLeaf, fuelF]; omega

/-! ### separator runs, operand followed by a non-separator, leading parentheses -/

/-- a run accepted by `separator()+`. -/
def IsSepRun (w : Str) : Prop := w ≠ [] ∧ w.all isSep = true

theorem seps1_run {w : Str} (hw : IsSepRun w) {y : Str} (hy : HeadNot isSep y) : seps1 (w ++ y) = some y := by
  obtain ⟨hne, hall⟩ := hw
  cases w with
  | nil => exact absurd rfl hne
  | cons c r =>
    simp only [List.all_cons, Bool.and_eq_true] at hall
    simp [seps1, hall.1, dropWhile_all_append r y hall.2 hy]

theorem infixOp_run {α : Type} {kwd : Str} (hh : ∀ s, HeadNot isSep (kwd ++ s)) {w1 w2 : Str}
    (h1 : IsSepRun w1) (h2 : IsSepRun w2) (rhs : Str → Option (Tree α × Str)) {y : Str} (hy : HeadNot isSep y) :
    infixOp kwd rhs (w1 ++ (kwd ++ (w2 ++ y))) = rhs y := by
  simp [infixOp, seps1_run h1 (hh _), lit_append, seps1_run h2 hy]

theorem infixOp_run_other {α : Type} {kwd kwo : Str} (hh : ∀ s, HeadNot isSep (kwo ++ s))
    (hne : ∀ s, lit kwd (kwo ++ s) = none) {w1 : Str} (h1 : IsSepRun w1)
    (rhs : Str → Option (Tree α × Str)) (y : Str) :
    infixOp kwd rhs (w1 ++ (kwo ++ y)) = none := by
  simp [infixOp, seps1_run h1 (hh _), hne]

def leadingParens : Str → Nat
  | '(' :: r => leadingParens r + 1
  | _ => 0

theorem leadingParens_pos {s : Str} (h : 0 < leadingParens s) : ∃ r, s = '(' :: r ∧ leadingParens s = leadingParens r + 1 := by
  cases s with
  | nil => simp [leadingParens] at h
  | cons c r =>
    by_cases hc : c = '('
    · subst hc; exact ⟨r, rfl, by simp [leadingParens]⟩
    · exfalso
      unfold leadingParens at h
      split at h
      · next heq => cases heq; exact hc rfl
      · omega

theorem atom_deep_none {α : Type} (kw : Kws) (lp : LeafP α) (hnot : ∀ s, lit kw.not_ ('(' :: s) = none)
    (hlp : ∀ f m s, lp f m ('(' :: s) = none) :
    ∀ m f s, m < leadingParens s → atom kw lp f m s = none := by
  intro m
  induction m with
  | zero =>
    intro f s h
    obtain ⟨r, rfl, -⟩ := leadingParens_pos h
    cases f with
    | zero => rw [atom.eq_def]
    | succ f =>
      rw [atom_paren kw lp (hnot _) (hlp _ _ _)]
      simp [group]
  | succ m ih =>
    intro f s h
    obtain ⟨r, rfl, hr⟩ := leadingParens_pos (s := s) (by omega)
    cases f with
    | zero => rw [atom.eq_def]
    | succ f =>
      rw [atom_paren kw lp (hnot _) (hlp _ _ _)]
      have : infixP kw lp f m 0 r = none := by
        cases f with
        | zero => rw [infixP.eq_def]
        | succ f => rw [infixP_succ, ih f r (by omega)]
      simp [group, this]

end Kanidm.ScimFilter
