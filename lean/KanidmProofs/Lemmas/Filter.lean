import KanidmModel.Filter.Optimise
/-
Helper lemmas for C02 (filter rewriting preserves meaning). No Mathlib.
-/
namespace Kanidm.Filter

/-! ### generic list/Bool lemmas -/

theorem all_congr_mem {α} {l : List α} {p q : α → Bool} (h : ∀ a ∈ l, p a = q a) :
    l.all p = l.all q := by
  induction l with
  | nil => rfl
  | cons x xs ih =>
    simp only [List.all_cons, h x (by simp), ih (fun a ha => h a (by simp [ha]))]

theorem any_congr_mem {α} {l : List α} {p q : α → Bool} (h : ∀ a ∈ l, p a = q a) :
    l.any p = l.any q := by
  induction l with
  | nil => rfl
  | cons x xs ih =>
    simp only [List.any_cons, h x (by simp), ih (fun a ha => h a (by simp [ha]))]

theorem all_eq_of_mutual {α} {l1 l2 : List α} {p : α → Bool}
    (h12 : ∀ x ∈ l1, ∃ y ∈ l2, p x = p y) (h21 : ∀ y ∈ l2, ∃ x ∈ l1, p x = p y) :
    l1.all p = l2.all p := by
  rw [Bool.eq_iff_iff]
  simp only [List.all_eq_true]
  constructor
  · intro h y hy
    obtain ⟨x, hx, hxy⟩ := h21 y hy
    rw [← hxy]; exact h x hx
  · intro h x hx
    obtain ⟨y, hy, hxy⟩ := h12 x hx
    rw [hxy]; exact h y hy

theorem any_eq_of_mutual {α} {l1 l2 : List α} {p : α → Bool}
    (h12 : ∀ x ∈ l1, ∃ y ∈ l2, p x = p y) (h21 : ∀ y ∈ l2, ∃ x ∈ l1, p x = p y) :
    l1.any p = l2.any p := by
  rw [Bool.eq_iff_iff]
  simp only [List.any_eq_true]
  constructor
  · rintro ⟨x, hx, hpx⟩
    obtain ⟨y, hy, hxy⟩ := h12 x hx
    exact ⟨y, hy, by rw [← hxy]; exact hpx⟩
  · rintro ⟨y, hy, hpy⟩
    obtain ⟨x, hx, hxy⟩ := h21 y hy
    exact ⟨x, hx, by rw [hxy]; exact hpy⟩

/-! ### `==` implies equal meaning -/

section
variable (S : ValSem) (e : Entry)

theorem beqList_sound_aux : ∀ (l1 : List F),
    (∀ f ∈ l1, ∀ y, f.beq y = true → f.matches S e = y.matches S e) →
    ∀ l2, F.beqList l1 l2 = true →
      l1.all (fun f => f.matches S e) = l2.all (fun f => f.matches S e) ∧
      l1.any (fun f => f.matches S e) = l2.any (fun f => f.matches S e)
  | [], _, l2, h => by
    cases l2 with
    | nil => exact ⟨rfl, rfl⟩
    | cons y ys => simp [F.beqList] at h
  | x :: xs, ih, l2, h => by
    cases l2 with
    | nil => simp [F.beqList] at h
    | cons y ys =>
      simp only [F.beqList, Bool.and_eq_true] at h
      have hx := ih x (by simp) y h.1
      have hr := beqList_sound_aux xs (fun f hf => ih f (by simp [hf])) ys h.2
      simp only [List.all_cons, List.any_cons, hx, hr.1, hr.2, and_self]

/-- Terms that the coded `PartialEq` equates match exactly the same entries. -/
theorem F.beq_sound : ∀ (x y : F), x.beq y = true → x.matches S e = y.matches S e := by
  intro x
  induction x using F.ind with
  | heq a v s =>
    intro y h; cases y <;> simp [F.beq] at h
    obtain ⟨rfl, rfl⟩ := h; simp [F.matches]
  | hcnt a v s =>
    intro y h; cases y <;> simp [F.beq] at h
    obtain ⟨rfl, rfl⟩ := h; simp [F.matches]
  | hstw a v s => intro y h; cases y <;> simp [F.beq] at h
  | henw a v s => intro y h; cases y <;> simp [F.beq] at h
  | hpres a s =>
    intro y h; cases y <;> simp [F.beq] at h
    subst h; simp [F.matches]
  | hlt a v s =>
    intro y h; cases y <;> simp [F.beq] at h
    obtain ⟨rfl, rfl⟩ := h; simp [F.matches]
  | hor l s ih =>
    intro y h; cases y <;> try (simp [F.beq] at h; done)
    simp only [F.beq] at h
    simp only [F.matches_or]
    exact (beqList_sound_aux S e l ih _ h).2
  | hand l s ih =>
    intro y h; cases y <;> try (simp [F.beq] at h; done)
    simp only [F.beq] at h
    simp only [F.matches_and]
    exact (beqList_sound_aux S e l ih _ h).1
  | hinv a => intro y h; cases y <;> simp [F.beq] at h
  | hinc l s ih =>
    intro y h; cases y <;> try (simp [F.beq] at h; done)
    simp only [F.beq] at h
    simp only [F.matches_inclusion]
  | hnot f s ih =>
    intro y h; cases y <;> try (simp [F.beq] at h; done)
    simp only [F.beq] at h
    simp only [F.matches_andnot, ih _ h]

end

/-! ### `dedup` -/

section
variable {p : F → Bool} (hb : ∀ x y, F.beq x y = true → p x = p y)
include hb

theorem dedupAux_all (prev : F) (l : List F) :
    (p prev && (dedupAux prev l).all p) = (p prev && l.all p) := by
  induction l generalizing prev with
  | nil => rfl
  | cons y ys ih =>
    simp only [dedupAux]
    split
    · rename_i h
      have := hb y prev h
      rw [ih prev, List.all_cons, this]
      cases p prev <;> simp
    · rw [List.all_cons, List.all_cons]
      have := ih y
      cases hp : p prev <;> simp [this]

theorem dedupAux_any (prev : F) (l : List F) :
    (p prev || (dedupAux prev l).any p) = (p prev || l.any p) := by
  induction l generalizing prev with
  | nil => rfl
  | cons y ys ih =>
    simp only [dedupAux]
    split
    · rename_i h
      have := hb y prev h
      rw [ih prev, List.any_cons, this]
      cases p prev <;> simp
    · rw [List.any_cons, List.any_cons]
      have := ih y
      cases hp : p prev <;> simp [this]

theorem dedup_all (l : List F) : (dedup l).all p = l.all p := by
  cases l with
  | nil => rfl
  | cons x xs => simp only [dedup, List.all_cons]; exact dedupAux_all hb x xs

theorem dedup_any (l : List F) : (dedup l).any p = l.any p := by
  cases l with
  | nil => rfl
  | cons x xs => simp only [dedup, List.any_cons]; exact dedupAux_any hb x xs

end

/-! ### flattening (`partition` + `append`) -/

theorem foldSame_all {p : F → Bool} {isK : F → Bool} {kids : F → List F}
    (hk : ∀ f, isK f = true → p f = (kids f).all p) (ol : List F) :
    (foldSame isK kids ol).all p = ol.all p := by
  unfold foldSame
  induction ol with
  | nil => rfl
  | cons x xs ih =>
    rw [List.all_append] at ih
    by_cases hx : isK x = true
    · simp only [List.filter_cons, hx, Bool.not_true, Bool.false_eq_true, if_false, if_true,
        List.flatMap_cons, List.all_append, List.all_cons, hk x hx]
      rw [← ih]
      generalize (List.filter (fun f => !isK f) xs).all p = b1
      generalize (kids x).all p = b2
      generalize ((List.filter isK xs).flatMap kids).all p = b3
      cases b1 <;> cases b2 <;> cases b3 <;> rfl
    · have hx' : isK x = false := by simpa using hx
      simp only [List.filter_cons, hx', Bool.not_false, if_true, Bool.false_eq_true, if_false,
        List.all_append, List.all_cons]
      rw [← ih, Bool.and_assoc]

theorem foldSame_any {p : F → Bool} {isK : F → Bool} {kids : F → List F}
    (hk : ∀ f, isK f = true → p f = (kids f).any p) (ol : List F) :
    (foldSame isK kids ol).any p = ol.any p := by
  unfold foldSame
  induction ol with
  | nil => rfl
  | cons x xs ih =>
    rw [List.any_append] at ih
    by_cases hx : isK x = true
    · simp only [List.filter_cons, hx, Bool.not_true, Bool.false_eq_true, if_false, if_true,
        List.flatMap_cons, List.any_append, List.any_cons, hk x hx]
      rw [← ih]
      generalize (List.filter (fun f => !isK f) xs).any p = b1
      generalize (kids x).any p = b2
      generalize ((List.filter isK xs).flatMap kids).any p = b3
      cases b1 <;> cases b2 <;> cases b3 <;> rfl
    · have hx' : isK x = false := by simpa using hx
      simp only [List.filter_cons, hx', Bool.not_false, if_true, Bool.false_eq_true, if_false,
        List.any_append, List.any_cons]
      rw [← ih, Bool.or_assoc]

theorem F.optimiseList_eq_map (sa sd : List F → List F) (l : List F) :
    F.optimiseList sa sd l = l.map (F.optimise sa sd) := by
  induction l with
  | nil => rfl
  | cons x xs ih => simp [F.optimiseList, ih]

/-! ### the order -/

theorem cmpNatList_swap : ∀ a b, cmpNatList b a = (cmpNatList a b).swap
  | [], [] => rfl
  | [], _ :: _ => rfl
  | _ :: _, [] => rfl
  | x :: xs, y :: ys => by
    simp only [cmpNatList]
    by_cases h1 : x < y
    · have : ¬ y < x := by omega
      simp [h1, this]
    · by_cases h2 : y < x
      · simp [h1, h2]
      · simp [h1, h2, cmpNatList_swap xs ys]

theorem cmpNatList_refl : ∀ a, cmpNatList a a = .eq
  | [] => rfl
  | x :: xs => by simp [cmpNatList, cmpNatList_refl xs]

/-- transitivity of `≤` (= "not greater") together with transitivity of the induced equivalence -/
theorem cmpNatList_trans : ∀ a b c, cmpNatList a b ≠ .gt → cmpNatList b c ≠ .gt →
    cmpNatList a c ≠ .gt ∧ (cmpNatList a c = .eq → cmpNatList a b = .eq ∧ cmpNatList b c = .eq)
  | [], [], c, _, h2 => ⟨h2, fun h => ⟨rfl, h⟩⟩
  | [], _ :: _, [], _, h2 => by simp [cmpNatList] at h2
  | [], _ :: _, _ :: _, _, _ => by simp [cmpNatList]
  | _ :: _, [], _, h1, _ => by simp [cmpNatList] at h1
  | _ :: _, _ :: _, [], _, h2 => by simp [cmpNatList] at h2
  | x :: xs, y :: ys, z :: zs, h1, h2 => by
    simp only [cmpNatList] at h1 h2 ⊢
    by_cases hxy : x < y
    · by_cases hyz : y < z
      · have : x < z := by omega
        simp [this]
      · by_cases hzy : z < y
        · simp [hyz, hzy] at h2
        · have : x < z := by omega
          simp [this]
    · by_cases hyx : y < x
      · simp [hxy, hyx] at h1
      · have hxy' : x = y := by omega
        subst hxy'
        simp only [Nat.lt_irrefl, if_false] at h1
        by_cases hyz : x < z
        · simp [hyz]
        · by_cases hzy : z < x
          · simp [hyz, hzy] at h2
          · simp only [hyz, hzy, if_false] at h2 ⊢
            simp only [Nat.lt_irrefl, if_false]
            exact cmpNatList_trans xs ys zs h1 h2

end Kanidm.Filter
