import KanidmModel.MemberOf
/-!
Helper lemmas for C17 (memberof closure).  Everything is phrased through list membership.
-/
namespace Kanidm.MemberOf
open Kanidm.Gen.MemberOf

/-! ## uuid sets -/

theorem mem_ins {a x : Nat} {l : List Nat} : x ∈ ins a l ↔ x = a ∨ x ∈ l := by
  induction l with
  | nil => simp [ins]
  | cons b l ih =>
    unfold ins
    by_cases h1 : a < b
    · simp [h1]
    · by_cases h2 : a = b
      · subst h2; simp
      · simp only [h1, h2, if_false, List.mem_cons, ih]
        constructor
        · rintro (h | h | h)
          · exact Or.inr (Or.inl h)
          · exact Or.inl h
          · exact Or.inr (Or.inr h)
        · rintro (h | h | h)
          · exact Or.inr (Or.inl h)
          · exact Or.inl h
          · exact Or.inr (Or.inr h)

theorem mem_union {x : Nat} {xs ys : List Nat} : x ∈ union xs ys ↔ x ∈ xs ∨ x ∈ ys := by
  induction xs with
  | nil => simp [union]
  | cons a xs ih =>
    have : union (a :: xs) ys = ins a (union xs ys) := rfl
    rw [this, mem_ins, ih]
    simp only [List.mem_cons]
    constructor
    · rintro (h | h | h)
      · exact Or.inl (Or.inl h)
      · exact Or.inl (Or.inr h)
      · exact Or.inr h
    · rintro ((h | h) | h)
      · exact Or.inl h
      · exact Or.inr (Or.inl h)
      · exact Or.inr (Or.inr h)

theorem mem_norm {x : Nat} {xs : List Nat} : x ∈ norm xs ↔ x ∈ xs := by
  simp [norm, mem_union]

theorem mem_sdiff {x : Nat} {a b : List Nat} : x ∈ sdiff a b ↔ x ∈ a ∧ x ∉ b := by
  simp [sdiff]

theorem seteq_iff {a b : List Nat} : seteq a b = true ↔ ∀ x, x ∈ a ↔ x ∈ b := by
  simp only [seteq, Bool.and_eq_true, List.all_eq_true, List.contains_iff_mem]
  constructor
  · rintro ⟨h1, h2⟩ x; exact ⟨h1 x, h2 x⟩
  · intro h; exact ⟨fun x hx => (h x).mp hx, fun x hx => (h x).mpr hx⟩

theorem mem_symdiff {x : Nat} {a b : List Nat} :
    x ∈ applySetOp .symmetricDifference a b ↔ (x ∈ a ∧ x ∉ b) ∨ (x ∈ b ∧ x ∉ a) := by
  simp [applySetOp, mem_union, mem_sdiff]

/-- Folding `union` of a projection over a list of entries. -/
theorem mem_foldr_union {α : Type} (f : α → List Nat) (l : List α) (x : Nat) :
    x ∈ l.foldr (fun e acc => union (f e) acc) [] ↔ ∃ e ∈ l, x ∈ f e := by
  induction l with
  | nil => simp
  | cons a l ih =>
    simp only [List.foldr_cons, mem_union, ih, List.mem_cons]
    constructor
    · rintro (h | ⟨e, he, hx⟩)
      · exact ⟨a, Or.inl rfl, h⟩
      · exact ⟨e, Or.inr he, hx⟩
    · rintro ⟨e, (rfl | he), hx⟩
      · exact Or.inl hx
      · exact Or.inr ⟨e, he, hx⟩

/-! ## the parent search -/

theorem mem_parents {s : State} {x : Nat} {g : Entry} :
    g ∈ parents s x ↔ g ∈ s ∧ isPar x g = true := by
  simp [parents]

theorem isPar_iff {x : Nat} {g : Entry} :
    isPar x g = true ↔ g.grp = true ∧ g.live = true ∧ x ∈ g.member := by
  simp [isPar, and_assoc]

theorem mem_dmoOf {s : State} {x p : Nat} :
    p ∈ dmoOf s x ↔ ∃ g ∈ s, isPar x g = true ∧ g.id = p := by
  simp only [dmoOf, mem_norm, List.mem_map, mem_parents]
  constructor
  · rintro ⟨g, ⟨hg, hp⟩, rfl⟩; exact ⟨g, hg, hp, rfl⟩
  · rintro ⟨g, hg, hp, rfl⟩; exact ⟨g, ⟨hg, hp⟩, rfl⟩

theorem mem_inherited {ps : List Entry} {q : Nat} :
    q ∈ inherited ps ↔ ∃ g ∈ ps, q ∈ g.mo := by
  simpa [inherited] using mem_foldr_union (fun g : Entry => g.mo) ps q

theorem mem_moOf {s : State} {x q : Nat} :
    q ∈ moOf s x ↔ ∃ g ∈ s, isPar x g = true ∧ (g.id = q ∨ q ∈ g.mo) := by
  simp only [moOf, mergeDmoIntoMo, if_true, mem_union, mem_dmoOf, mem_inherited, mem_parents]
  constructor
  · rintro (⟨g, hg, hp, rfl⟩ | ⟨g, ⟨hg, hp⟩, hq⟩)
    · exact ⟨g, hg, hp, Or.inl rfl⟩
    · exact ⟨g, hg, hp, Or.inr hq⟩
  · rintro ⟨g, hg, hp, (rfl | hq)⟩
    · exact Or.inl ⟨g, hg, hp, rfl⟩
    · exact Or.inr ⟨g, ⟨hg, hp⟩, hq⟩

theorem mem_leafMoOf {s : State} {x q : Nat} : q ∈ leafMoOf s x ↔ q ∈ moOf s x := by
  simp only [leafMoOf, moOf, leafInheritsGroupMo, mergeDmoIntoMo, if_true, mem_union]

/-- `changed = false` ⇔ the stored values are the recomputed ones (as sets). -/
theorem changed_eq_false_iff {e : Entry} {d m : List Nat} :
    changed e d m = false ↔ (∀ x, x ∈ e.mo ↔ x ∈ m) ∧ (∀ x, x ∈ e.dmo ↔ x ∈ d) := by
  simp only [changed, changedComb, Bool.or_eq_false_iff, Bool.not_eq_false', seteq_iff]


/-! ## specification vocabulary -/

/-- `p` is a live group that lists `x` (a stored member link). -/
def Edge (s : State) (p x : Nat) : Prop := ∃ g ∈ s, isPar x g = true ∧ g.id = p

/-- `p` reaches `x` through one or more member links between live groups. -/
inductive Reach (s : State) : Nat → Nat → Prop
  | edge {p x : Nat} : Edge s p x → Reach s p x
  | step {p y x : Nat} : Reach s p y → Edge s y x → Reach s p x

/-- One entry per uuid. -/
def WF (s : State) : Prop := (s.map (·.id)).Nodup

/-- Local consistency of one entry: its stored values are what `do_group_memberof` would
compute now from its parents' *stored* values. -/
def LCe (s : State) (e : Entry) : Prop :=
  (∀ q, q ∈ e.mo ↔ q ∈ moOf s e.id) ∧ (∀ p, p ∈ e.dmo ↔ p ∈ dmoOf s e.id)

def LC (s : State) : Prop := ∀ e ∈ s, e.live = true → LCe s e

/-- The property: memberof = reachability closure, directmemberof = direct parents. -/
def Exact (s : State) : Prop :=
  ∀ e ∈ s, e.live = true → (∀ q, q ∈ e.mo ↔ Reach s q e.id) ∧ (∀ p, p ∈ e.dmo ↔ Edge s p e.id)

/-- The membership graph is acyclic: it has a topological ranking. -/
def Ranked (s : State) (rank : Nat → Nat) : Prop := ∀ p x, Edge s p x → rank p < rank x

theorem mem_dmoOf_iff_edge {s : State} {x p : Nat} : p ∈ dmoOf s x ↔ Edge s p x := mem_dmoOf

theorem ranked_acyclic {s : State} {rank : Nat → Nat} (h : Ranked s rank) :
    ∀ p x, Reach s p x → rank p < rank x := by
  intro p x hr
  induction hr with
  | edge he => exact h _ _ he
  | step _ he ih => exact Nat.lt_trans ih (h _ _ he)

/-- `changed = false` on a live entry is local consistency. -/
theorem lce_of_not_changed {s : State} {e : Entry}
    (h : changed e (dmoOf s e.id) (moOf s e.id) = false) : LCe s e :=
  changed_eq_false_iff.mp h

theorem changed_of_not_lce {s : State} {e : Entry} (h : ¬ LCe s e) :
    changed e (dmoOf s e.id) (moOf s e.id) = true := by
  cases hc : changed e (dmoOf s e.id) (moOf s e.id) with
  | true => rfl
  | false => exact absurd (lce_of_not_changed hc) h

/-! ## maps that keep the skeleton (uuid, class, liveness, members) -/

def SameSkel (f : Entry → Entry) : Prop :=
  ∀ e, (f e).id = e.id ∧ (f e).grp = e.grp ∧ (f e).live = e.live ∧ (f e).member = e.member

theorem isPar_map {f : Entry → Entry} (hf : SameSkel f) (x : Nat) (g : Entry) :
    isPar x (f g) = isPar x g := by
  obtain ⟨_, h2, h3, h4⟩ := hf g
  simp [isPar, h2, h3, h4]

theorem mem_moOf_map {f : Entry → Entry} (hf : SameSkel f) {s : State} {x q : Nat} :
    q ∈ moOf (s.map f) x ↔ ∃ g ∈ s, isPar x g = true ∧ (g.id = q ∨ q ∈ (f g).mo) := by
  rw [mem_moOf]
  constructor
  · rintro ⟨g', hg', hp, hq⟩
    obtain ⟨g, hg, rfl⟩ := List.mem_map.mp hg'
    rw [isPar_map hf] at hp
    rw [(hf g).1] at hq
    exact ⟨g, hg, hp, hq⟩
  · rintro ⟨g, hg, hp, hq⟩
    refine ⟨f g, List.mem_map.mpr ⟨g, hg, rfl⟩, ?_, ?_⟩
    · rw [isPar_map hf]; exact hp
    · rw [(hf g).1]; exact hq

theorem mem_dmoOf_map {f : Entry → Entry} (hf : SameSkel f) {s : State} {x p : Nat} :
    p ∈ dmoOf (s.map f) x ↔ p ∈ dmoOf s x := by
  rw [mem_dmoOf, mem_dmoOf]
  constructor
  · rintro ⟨g', hg', hp, hq⟩
    obtain ⟨g, hg, rfl⟩ := List.mem_map.mp hg'
    rw [isPar_map hf] at hp
    rw [(hf g).1] at hq
    exact ⟨g, hg, hp, hq⟩
  · rintro ⟨g, hg, hp, hq⟩
    refine ⟨f g, List.mem_map.mpr ⟨g, hg, rfl⟩, ?_, ?_⟩
    · rw [isPar_map hf]; exact hp
    · rw [(hf g).1]; exact hq

theorem edge_map {f : Entry → Entry} (hf : SameSkel f) {s : State} {p x : Nat} :
    Edge (s.map f) p x ↔ Edge s p x := by
  rw [← mem_dmoOf_iff_edge, ← mem_dmoOf_iff_edge]; exact mem_dmoOf_map hf

/-- If no parent of `x` changes its stored memberof, the recomputation of `x` is unchanged. -/
theorem moOf_map_stable {f : Entry → Entry} (hf : SameSkel f) {s : State} {x : Nat}
    (h : ∀ g ∈ s, isPar x g = true → ∀ q, q ∈ (f g).mo ↔ q ∈ g.mo) :
    ∀ q, q ∈ moOf (s.map f) x ↔ q ∈ moOf s x := by
  intro q
  rw [mem_moOf_map hf, mem_moOf]
  constructor
  · rintro ⟨g, hg, hp, hq⟩
    exact ⟨g, hg, hp, hq.imp id (fun h' => (h g hg hp q).mp h')⟩
  · rintro ⟨g, hg, hp, hq⟩
    exact ⟨g, hg, hp, hq.imp id (fun h' => (h g hg hp q).mpr h')⟩

theorem ids_map {f : Entry → Entry} (hf : SameSkel f) (s : State) :
    (s.map f).map (·.id) = s.map (·.id) := by
  rw [List.map_map]
  apply List.map_congr_left
  intro e _
  exact (hf e).1

/-! ## the group rounds -/

theorem groupUpd_sameSkel (s : State) (w : List Nat) : SameSkel (groupUpd s w) := by
  intro e
  unfold groupUpd
  split <;> simp

theorem leafUpd_sameSkel (s : State) (all : List Nat) : SameSkel (leafUpd s all) := by
  intro e
  unfold leafUpd
  split <;> simp

theorem groupUpd_of_not_dirty {s : State} {w : List Nat} {e : Entry}
    (h : groupDirty s w e = false) : groupUpd s w e = e := by
  simp [groupUpd, h]

/-- A member of a group that changed in this round is in the next work set. -/
theorem mem_next_of_dirty {s : State} {w : List Nat} {g : Entry} {x : Nat}
    (hg : g ∈ s) (hd : groupDirty s w g = true) (hx : x ∈ g.member) :
    x ∈ (roundStep s w).2 := by
  simp only [roundStep, enqueueMembersOnChange, if_true]
  rw [mem_foldr_union (fun e : Entry => e.member)]
  exact ⟨g, List.mem_filter.mpr ⟨hg, hd⟩, hx⟩

/-- The invariant of the worklist: every live entry that is not locally consistent is
still queued (groups: in the work set; leaves: in the all-affected set). -/
def J (s : State) (w all : List Nat) : Prop :=
  ∀ e ∈ s, e.live = true → ¬ LCe s e →
    (e.grp = true ∧ e.id ∈ w) ∨ (e.grp = false ∧ e.id ∈ all)

theorem roundStep_J {s : State} {w all : List Nat} (hJ : J s w all) :
    J (roundStep s w).1 (roundStep s w).2 (union (roundStep s w).2 all) := by
  intro e' he' hlive hnlc
  have hsk := groupUpd_sameSkel s w
  obtain ⟨e, he, rfl⟩ := List.mem_map.mp he'
  have hid : (groupUpd s w e).id = e.id := (hsk e).1
  have hgrp : (groupUpd s w e).grp = e.grp := (hsk e).2.1
  have hlv : (groupUpd s w e).live = e.live := (hsk e).2.2.1
  rw [hlv] at hlive
  rw [hid, hgrp]
  by_cases hpar : ∃ g ∈ s, isPar e.id g = true ∧ groupDirty s w g = true
  · obtain ⟨g, hg, hp, hd⟩ := hpar
    have hx : e.id ∈ (roundStep s w).2 := mem_next_of_dirty hg hd (isPar_iff.mp hp).2.2
    cases hgr : e.grp with
    | true => exact Or.inl ⟨rfl, hx⟩
    | false => exact Or.inr ⟨rfl, mem_union.mpr (Or.inl hx)⟩
  · -- no parent changed: recomputation of `e` is the same before and after the round
    have hstab : ∀ q, q ∈ moOf (s.map (groupUpd s w)) e.id ↔ q ∈ moOf s e.id := by
      apply moOf_map_stable hsk
      intro g hg hp q
      have : groupDirty s w g = false := by
        cases hd : groupDirty s w g with
        | false => rfl
        | true => exact absurd ⟨g, hg, hp, hd⟩ hpar
      rw [groupUpd_of_not_dirty this]
    have hdst : ∀ p, p ∈ dmoOf (s.map (groupUpd s w)) e.id ↔ p ∈ dmoOf s e.id :=
      fun p => mem_dmoOf_map hsk
    -- a recomputed entry is consistent after the round
    have hrecomp : groupDirty s w e = true → LCe (s.map (groupUpd s w)) (groupUpd s w e) := by
      intro hd
      have : groupUpd s w e = { e with mo := moOf s e.id, dmo := dmoOf s e.id } := by
        simp [groupUpd, hd]
      rw [this]
      exact ⟨fun q => (hstab q).symm, fun p => (hdst p).symm⟩
    by_cases hlc : LCe s e
    · exfalso
      apply hnlc
      show LCe (s.map (groupUpd s w)) (groupUpd s w e)
      cases hd : groupDirty s w e with
      | true => exact hrecomp hd
      | false =>
        rw [groupUpd_of_not_dirty hd]
        exact ⟨fun q => (hlc.1 q).trans (hstab q).symm, fun p => (hlc.2 p).trans (hdst p).symm⟩
    · rcases hJ e he hlive hlc with ⟨hg, hw⟩ | ⟨hg, ha⟩
      · exfalso
        apply hnlc
        apply hrecomp
        simp [groupDirty, hg, hlive, hw, changed_of_not_lce hlc]
      · exact Or.inr ⟨hg, mem_union.mpr (Or.inr ha)⟩


theorem roundStep_ids (s : State) (w : List Nat) :
    (roundStep s w).1.map (·.id) = s.map (·.id) :=
  ids_map (groupUpd_sameSkel s w) s

/-- When the loop ends, every live group is locally consistent and every inconsistent live
leaf is in the all-affected set; uuids are untouched. -/
theorem applyGroups_J : ∀ (fuel : Nat) (s : State) (w all : List Nat) (s' : State) (all' : List Nat),
    J s w all → applyGroups fuel s w all = some (s', all') →
    J s' [] all' ∧ s'.map (·.id) = s.map (·.id) := by
  intro fuel
  induction fuel with
  | zero =>
    intro s w all s' all' hJ h
    cases w with
    | nil => simp only [applyGroups, Option.some.injEq, Prod.mk.injEq] at h; obtain ⟨rfl, rfl⟩ := h; exact ⟨hJ, rfl⟩
    | cons a w => simp [applyGroups] at h
  | succ n ih =>
    intro s w all s' all' hJ h
    cases w with
    | nil => simp only [applyGroups, Option.some.injEq, Prod.mk.injEq] at h; obtain ⟨rfl, rfl⟩ := h; exact ⟨hJ, rfl⟩
    | cons a w =>
      simp only [applyGroups] at h
      obtain ⟨h1, h2⟩ := ih _ _ _ _ _ (roundStep_J hJ) h
      exact ⟨h1, h2.trans (roundStep_ids s (a :: w))⟩

/-- The leaf pass turns the loop's exit invariant into local consistency of everything live. -/
theorem leaf_LC {s : State} {all : List Nat} (hJ : J s [] all) : LC (s.map (leafUpd s all)) := by
  intro e' he' hlive
  have hsk := leafUpd_sameSkel s all
  obtain ⟨e, he, rfl⟩ := List.mem_map.mp he'
  have hid : (leafUpd s all e).id = e.id := (hsk e).1
  have hlv : (leafUpd s all e).live = e.live := (hsk e).2.2.1
  rw [hlv] at hlive
  -- parents are groups, and groups are not touched by the leaf pass
  have hstab : ∀ x q, q ∈ moOf (s.map (leafUpd s all)) x ↔ q ∈ moOf s x := by
    intro x
    apply moOf_map_stable hsk
    intro g _ hp q
    have hg : g.grp = true := (isPar_iff.mp hp).1
    have : leafUpd s all g = g := by simp [leafUpd, leafDirty, hg]
    rw [this]
  have hdst : ∀ x p, p ∈ dmoOf (s.map (leafUpd s all)) x ↔ p ∈ dmoOf s x :=
    fun x p => mem_dmoOf_map hsk
  unfold LCe
  rw [hid]
  cases hd : leafDirty s all e with
  | true =>
    have : leafUpd s all e = { e with mo := leafMoOf s e.id, dmo := dmoOf s e.id } := by
      simp [leafUpd, hd]
    rw [this]
    exact ⟨fun q => mem_leafMoOf.trans (hstab e.id q).symm, fun p => (hdst e.id p).symm⟩
  | false =>
    have hu : leafUpd s all e = e := by simp [leafUpd, hd]
    rw [hu]
    have hlc : LCe s e := by
      by_cases hlc : LCe s e
      · exact hlc
      · rcases hJ e he hlive hlc with ⟨_, hw⟩ | ⟨hg, ha⟩
        · cases hw
        · exfalso
          have hch := changed_of_not_lce hlc
          have hch' : changed e (dmoOf s e.id) (leafMoOf s e.id) = true := by
            cases hc : changed e (dmoOf s e.id) (leafMoOf s e.id) with
            | true => rfl
            | false =>
              exfalso
              apply hlc
              have := changed_eq_false_iff.mp hc
              exact ⟨fun q => (this.1 q).trans mem_leafMoOf, this.2⟩
          simp [leafDirty, hg, hlive, ha, hch'] at hd
    exact ⟨fun q => (hlc.1 q).trans (hstab e.id q).symm, fun p => (hlc.2 p).trans (hdst e.id p).symm⟩

/-- `apply_memberof` started with every inconsistent live entry in the affected set ends (if it
ends) with every live entry locally consistent. -/
theorem applyMemberOf_LC {fuel : Nat} {s s' : State} {aff : List Nat}
    (hJ : J s aff aff) (h : applyMemberOf fuel s aff = some s') :
    LC s' ∧ s'.map (·.id) = s.map (·.id) := by
  unfold applyMemberOf at h
  cases hg : applyGroups fuel s aff aff with
  | none => simp [hg] at h
  | some r =>
    obtain ⟨s1, all1⟩ := r
    simp only [hg, Option.some.injEq] at h
    subst h
    obtain ⟨h1, h2⟩ := applyGroups_J _ _ _ _ _ _ hJ hg
    exact ⟨leaf_LC h1, (ids_map (leafUpd_sameSkel s1 all1) s1).trans h2⟩


/-! ## operations establish the worklist invariant -/

theorem J_of_mem {s : State} {aff : List Nat}
    (h : ∀ e ∈ s, e.live = true → ¬ LCe s e → e.id ∈ aff) : J s aff aff := by
  intro e he hl hn
  have := h e he hl hn
  cases hg : e.grp with
  | true => exact Or.inl ⟨rfl, this⟩
  | false => exact Or.inr ⟨rfl, this⟩

theorem mem_moOf_map' {f : Entry → Entry} {s : State} {x q : Nat} :
    q ∈ moOf (s.map f) x ↔ ∃ g ∈ s, isPar x (f g) = true ∧ ((f g).id = q ∨ q ∈ (f g).mo) := by
  rw [mem_moOf]
  constructor
  · rintro ⟨g', hg', hp, hq⟩
    obtain ⟨g, hg, rfl⟩ := List.mem_map.mp hg'
    exact ⟨g, hg, hp, hq⟩
  · rintro ⟨g, hg, hp, hq⟩
    exact ⟨f g, List.mem_map.mpr ⟨g, hg, rfl⟩, hp, hq⟩

theorem mem_dmoOf_map' {f : Entry → Entry} {s : State} {x p : Nat} :
    p ∈ dmoOf (s.map f) x ↔ ∃ g ∈ s, isPar x (f g) = true ∧ (f g).id = p := by
  rw [mem_dmoOf]
  constructor
  · rintro ⟨g', hg', hp, hq⟩
    obtain ⟨g, hg, rfl⟩ := List.mem_map.mp hg'
    exact ⟨g, hg, hp, hq⟩
  · rintro ⟨g, hg, hp, hq⟩
    exact ⟨f g, List.mem_map.mpr ⟨g, hg, rfl⟩, hp, hq⟩

/-- A map that keeps uuid and stored memberof of every entry, and parenthood of `x`. -/
theorem recompute_congr_map {f : Entry → Entry} {s : State} {x : Nat}
    (h : ∀ g ∈ s, (f g).id = g.id ∧ (f g).mo = g.mo ∧ isPar x (f g) = isPar x g) :
    (∀ q, q ∈ moOf (s.map f) x ↔ q ∈ moOf s x) ∧ (∀ p, p ∈ dmoOf (s.map f) x ↔ p ∈ dmoOf s x) := by
  constructor
  · intro q
    rw [mem_moOf_map', mem_moOf]
    constructor
    · rintro ⟨g, hg, hp, hq⟩
      obtain ⟨h1, h2, h3⟩ := h g hg
      rw [h3] at hp; rw [h1, h2] at hq
      exact ⟨g, hg, hp, hq⟩
    · rintro ⟨g, hg, hp, hq⟩
      obtain ⟨h1, h2, h3⟩ := h g hg
      refine ⟨g, hg, ?_, ?_⟩
      · rw [h3]; exact hp
      · rw [h1, h2]; exact hq
  · intro p
    rw [mem_dmoOf_map', mem_dmoOf]
    constructor
    · rintro ⟨g, hg, hp, hq⟩
      obtain ⟨h1, _, h3⟩ := h g hg
      rw [h3] at hp; rw [h1] at hq
      exact ⟨g, hg, hp, hq⟩
    · rintro ⟨g, hg, hp, hq⟩
      obtain ⟨h1, _, h3⟩ := h g hg
      refine ⟨g, hg, ?_, ?_⟩
      · rw [h3]; exact hp
      · rw [h1]; exact hq

theorem ids_map' {f : Entry → Entry} (hf : ∀ e, (f e).id = e.id) (s : State) :
    (s.map f).map (·.id) = s.map (·.id) := by
  rw [List.map_map]
  apply List.map_congr_left
  intro e _
  exact hf e

theorem wf_unique {s : State} (h : WF s) {a b : Entry} (ha : a ∈ s) (hb : b ∈ s)
    (hab : a.id = b.id) : a = b := by
  induction s with
  | nil => cases ha
  | cons c s ih =>
    simp only [WF, List.map_cons, List.nodup_cons, List.mem_map, not_exists, not_and] at h
    rcases List.mem_cons.mp ha with rfl | ha' <;> rcases List.mem_cons.mp hb with rfl | hb'
    · rfl
    · exact absurd hab.symm (h.1 b hb')
    · exact absurd hab (h.1 a ha')
    · exact ih h.2 ha' hb'

theorem find_spec {s : State} {x : Nat} {e : Entry} (h : find s x = some e) : e ∈ s ∧ e.id = x := by
  unfold find at h
  refine ⟨List.mem_of_find?_eq_some h, ?_⟩
  have := List.find?_some h
  simpa using this

theorem find_none_spec {s : State} {x : Nat} (h : (find s x).isSome = false) :
    ∀ e ∈ s, e.id ≠ x := by
  intro e he hx
  unfold find at h
  cases hf : s.find? (fun e => e.id == x) with
  | some _ => simp [hf] at h
  | none =>
    have := List.find?_eq_none.mp hf e he
    simp [hx] at this

/-! ### create -/

theorem create_J {s : State} (hlc : LC s) (id : Nat) (grp : Bool) (ms : List Nat) :
    J (s ++ [⟨id, grp, true, ms, [], [], []⟩]) (id :: ms) (id :: ms) := by
  apply J_of_mem
  intro e he hl hn
  rcases List.mem_append.mp he with he | he
  · by_cases hm : e.id ∈ ms
    · exact List.mem_cons_of_mem _ hm
    · exfalso
      apply hn
      have hlce := hlc e he hl
      -- the new entry is not a parent of `e`
      have hnp : isPar e.id ⟨id, grp, true, ms, [], [], []⟩ = false := by
        cases hp : isPar e.id ⟨id, grp, true, ms, [], [], []⟩ with
        | false => rfl
        | true => exact absurd (isPar_iff.mp hp).2.2 hm
      constructor
      · intro q
        rw [hlce.1 q, mem_moOf, mem_moOf]
        constructor
        · rintro ⟨g, hg, hp, hq⟩; exact ⟨g, List.mem_append_left _ hg, hp, hq⟩
        · rintro ⟨g, hg, hp, hq⟩
          rcases List.mem_append.mp hg with hg | hg
          · exact ⟨g, hg, hp, hq⟩
          · rw [List.mem_singleton.mp hg, hnp] at hp; cases hp
      · intro p
        rw [hlce.2 p, mem_dmoOf, mem_dmoOf]
        constructor
        · rintro ⟨g, hg, hp, hq⟩; exact ⟨g, List.mem_append_left _ hg, hp, hq⟩
        · rintro ⟨g, hg, hp, hq⟩
          rcases List.mem_append.mp hg with hg | hg
          · exact ⟨g, hg, hp, hq⟩
          · rw [List.mem_singleton.mp hg, hnp] at hp; cases hp
  · rw [List.mem_singleton.mp he]
    exact List.mem_cons_self

/-! ### modify of `member` -/

theorem mem_modifyAffected {g x : Nat} {old nw : List Nat}
    (h : (x ∈ old ∧ x ∉ nw) ∨ (x ∈ nw ∧ x ∉ old)) : x ∈ modifyAffected g old nw := by
  unfold modifyAffected
  apply List.mem_cons_of_mem
  split
  · rw [mem_union]; rcases h with h | h
    · exact Or.inl h.1
    · exact Or.inr h.1
  · simp only [modifyDeltaOp]; exact mem_symdiff.mpr h

theorem setMem_J {s : State} (hlc : LC s) (hwf : WF s) {g : Nat} {e0 : Entry}
    (hf : find s g = some e0) (nw : List Nat) :
    J (setMem s g nw) (modifyAffected g e0.member nw) (modifyAffected g e0.member nw) := by
  apply J_of_mem
  intro e1 he1 hl hn
  unfold setMem at he1
  obtain ⟨e, he, rfl⟩ := List.mem_map.mp he1
  by_cases hg : e.id = g
  · have : (if (e.id == g) = true then { e with member := nw } else e).id = g := by
      simp [hg]
    rw [this]; exact List.mem_cons_self
  · have hne : (e.id == g) = false := by simpa using hg
    simp only [hne] at hl hn ⊢
    by_cases hx : (e.id ∈ e0.member ∧ e.id ∉ nw) ∨ (e.id ∈ nw ∧ e.id ∉ e0.member)
    · exact mem_modifyAffected hx
    · exfalso
      apply hn
      have hlce := hlc e he hl
      obtain ⟨h0mem, h0id⟩ := find_spec hf
      have hcong := @recompute_congr_map
        (fun e => if (e.id == g) = true then { e with member := nw } else e) s e.id (by
          intro g1 hg1
          by_cases h1 : g1.id = g
          · have hg10 : g1 = e0 := wf_unique hwf hg1 h0mem (h1.trans h0id.symm)
            have hb : (g1.id == g) = true := by simpa using h1
            simp only [hb, if_true, true_and]
            subst hg10
            -- parenthood of `e.id` is the same with the old and the new member list
            have hiff : e.id ∈ nw ↔ e.id ∈ g1.member := by
              constructor
              · intro h; by_cases h' : e.id ∈ g1.member
                · exact h'
                · exact absurd (Or.inr ⟨h, h'⟩) hx
              · intro h; by_cases h' : e.id ∈ nw
                · exact h'
                · exact absurd (Or.inl ⟨h, h'⟩) hx
            simp [isPar, hiff]
          · have hb : (g1.id == g) = false := by simpa using h1
            simp [hb])
      exact ⟨fun q => (hlce.1 q).trans (hcong.1 q).symm, fun p => (hlce.2 p).trans (hcong.2 p).symm⟩


/-! ### delete -/

/-- `pre_delete` + `to_recycled` + `remove_references` on one entry. -/
def delUpd (t : List Nat) (e : Entry) : Entry := unref t (recycle t e)

theorem delUpd_id (t : List Nat) (e : Entry) : (delUpd t e).id = e.id := by
  unfold delUpd unref recycle; split <;> rfl

theorem delUpd_grp (t : List Nat) (e : Entry) : (delUpd t e).grp = e.grp := by
  unfold delUpd unref recycle; split <;> rfl

theorem delUpd_member (t : List Nat) (e : Entry) : (delUpd t e).member = sdiff e.member t := by
  unfold delUpd unref recycle; split <;> rfl

theorem delUpd_live_iff (t : List Nat) (e : Entry) :
    (delUpd t e).live = true ↔ e.live = true ∧ e.id ∉ t := by
  unfold delUpd unref recycle
  by_cases h : e.id ∈ t
  · simp [List.contains_iff_mem.mpr h, h]
  · have : t.contains e.id = false := by
      cases hc : t.contains e.id with
      | false => rfl
      | true => exact absurd (List.contains_iff_mem.mp hc) h
    simp [this, h]

theorem delUpd_mo_of_not_mem {t : List Nat} {e : Entry} (h : e.id ∉ t) :
    (delUpd t e).mo = sdiff e.mo t ∧ (delUpd t e).dmo = sdiff e.dmo t := by
  have : t.contains e.id = false := by
    cases hc : t.contains e.id with
    | false => rfl
    | true => exact absurd (List.contains_iff_mem.mp hc) h
  unfold delUpd unref recycle
  simp [h]

theorem isPar_delUpd {t : List Nat} {x : Nat} {g : Entry} :
    isPar x (delUpd t g) = true ↔ isPar x g = true ∧ g.id ∉ t ∧ x ∉ t := by
  rw [isPar_iff, isPar_iff, delUpd_grp, delUpd_live_iff, delUpd_member, mem_sdiff]
  constructor
  · rintro ⟨h1, ⟨h2, h3⟩, h4, h5⟩; exact ⟨⟨h1, h2, h4⟩, h3, h5⟩
  · rintro ⟨⟨h1, h2, h4⟩, h3, h5⟩; exact ⟨h1, ⟨h2, h3⟩, h4, h5⟩

theorem mem_deleteAffected {s : State} {t : List Nat} {x : Nat} :
    x ∈ deleteAffected s t ↔ ∃ g ∈ s, g.id ∈ t ∧ g.grp = true ∧ x ∈ g.member := by
  unfold deleteAffected
  rw [mem_foldr_union (fun e : Entry => e.member)]
  constructor
  · rintro ⟨g, hg, hx⟩
    obtain ⟨hg1, hg2⟩ := List.mem_filter.mp hg
    simp only [Bool.and_eq_true, List.contains_iff_mem] at hg2
    exact ⟨g, hg1, hg2.1, hg2.2, hx⟩
  · rintro ⟨g, hg, h1, h2, hx⟩
    refine ⟨g, List.mem_filter.mpr ⟨hg, ?_⟩, hx⟩
    simp [h1, h2]

theorem delete_J {s : State} (hlc : LC s) (t : List Nat) :
    J (s.map (delUpd t)) (deleteAffected s t) (deleteAffected s t) := by
  apply J_of_mem
  intro e2 he2 hl hn
  obtain ⟨e, he, rfl⟩ := List.mem_map.mp he2
  rw [delUpd_id]
  obtain ⟨hlive, hnt⟩ := (delUpd_live_iff t e).mp hl
  by_cases haff : e.id ∈ deleteAffected s t
  · exact haff
  · exfalso
    apply hn
    have hlce := hlc e he hlive
    obtain ⟨hmo, hdmo⟩ := delUpd_mo_of_not_mem hnt
    -- a parent of `e` is not among the deleted entries
    have hpar : ∀ g ∈ s, isPar e.id g = true → g.id ∉ t := by
      intro g hg hp hgt
      obtain ⟨h1, _, h3⟩ := isPar_iff.mp hp
      exact haff (mem_deleteAffected.mpr ⟨g, hg, hgt, h1, h3⟩)
    unfold LCe
    rw [delUpd_id, hmo, hdmo]
    constructor
    · intro q
      rw [mem_sdiff, hlce.1 q, mem_moOf, mem_moOf_map']
      constructor
      · rintro ⟨⟨g, hg, hp, hq⟩, hqt⟩
        have hgt := hpar g hg hp
        refine ⟨g, hg, isPar_delUpd.mpr ⟨hp, hgt, hnt⟩, ?_⟩
        rw [delUpd_id, (delUpd_mo_of_not_mem hgt).1, mem_sdiff]
        exact hq.imp id (fun h => ⟨h, hqt⟩)
      · rintro ⟨g, hg, hp, hq⟩
        obtain ⟨hp', hgt, _⟩ := isPar_delUpd.mp hp
        rw [delUpd_id, (delUpd_mo_of_not_mem hgt).1, mem_sdiff] at hq
        rcases hq with hq | ⟨hq, hqt⟩
        · exact ⟨⟨g, hg, hp', Or.inl hq⟩, hq ▸ hgt⟩
        · exact ⟨⟨g, hg, hp', Or.inr hq⟩, hqt⟩
    · intro p
      rw [mem_sdiff, hlce.2 p, mem_dmoOf, mem_dmoOf_map']
      constructor
      · rintro ⟨⟨g, hg, hp, hq⟩, _⟩
        have hgt := hpar g hg hp
        exact ⟨g, hg, isPar_delUpd.mpr ⟨hp, hgt, hnt⟩, by rw [delUpd_id]; exact hq⟩
      · rintro ⟨g, hg, hp, hq⟩
        obtain ⟨hp', hgt, _⟩ := isPar_delUpd.mp hp
        rw [delUpd_id] at hq
        exact ⟨⟨g, hg, hp', hq⟩, hq ▸ hgt⟩

/-! ### revive (first step: the entry becomes live again) -/

def revUpd (x : Nat) (e : Entry) : Entry :=
  if e.id == x then { e with live := true, rdmo := [] } else e

theorem revUpd_id (x : Nat) (e : Entry) : (revUpd x e).id = e.id := by
  unfold revUpd; split <;> rfl

theorem revive_J {s : State} (hlc : LC s) {x : Nat}
    (hsafe : ∀ e ∈ s, e.id = x → e.grp = true → e.member = []) :
    J (s.map (revUpd x)) [x] [x] := by
  apply J_of_mem
  intro e1 he1 hl hn
  obtain ⟨e, he, rfl⟩ := List.mem_map.mp he1
  rw [revUpd_id]
  by_cases hx : e.id = x
  · simp [hx]
  · exfalso
    apply hn
    have hb : (e.id == x) = false := by simpa using hx
    have hu : revUpd x e = e := by simp [revUpd, hb]
    rw [hu] at hl ⊢
    have hlce := hlc e he hl
    have hcong := @recompute_congr_map (revUpd x) s e.id (by
      intro g hg
      by_cases hgx : g.id = x
      · have hb' : (g.id == x) = true := by simpa using hgx
        refine ⟨revUpd_id x g, by simp [revUpd, hb'], ?_⟩
        cases hgr : g.grp with
        | false => simp [revUpd, hb', isPar, hgr]
        | true => simp [revUpd, hb', isPar, hsafe g hg hgx hgr]
      · have hb' : (g.id == x) = false := by simpa using hgx
        simp [revUpd, hb'])
    exact ⟨fun q => (hlce.1 q).trans (hcong.1 q).symm, fun p => (hlce.2 p).trans (hcong.2 p).symm⟩


/-! ## every operation preserves the invariant -/

/-- The history invariant: every live entry is locally consistent; one entry per uuid. -/
def Inv (s : State) : Prop := LC s ∧ WF s

/-- The one operation shape that breaks local consistency (D16): reviving a group that still
lists members.  Everything else is safe. -/
def SafeOp (s : State) : Op → Prop
  | .revive x => ∀ e ∈ s, e.id = x → e.grp = true → e.member = []
  | _ => True

theorem wf_of_ids {s s' : State} (h : s'.map (·.id) = s.map (·.id)) (hwf : WF s) : WF s' := by
  unfold WF; rw [h]; exact hwf

theorem applyMod_inv {fuel : Nat} {s s' : State} {g : Nat} {e0 : Entry} {nw : List Nat}
    (hinv : Inv s) (hf : find s g = some e0)
    (h : applyMod fuel s g e0.member nw = .ok s') : Inv s' := by
  unfold applyMod at h
  cases ha : applyMemberOf fuel (setMem s g nw) (modifyAffected g e0.member nw) with
  | none => simp [ha] at h
  | some s1 =>
    simp only [ha, Res.ok.injEq] at h
    subst h
    obtain ⟨h1, h2⟩ := applyMemberOf_LC (setMem_J hinv.1 hinv.2 hf nw) ha
    refine ⟨h1, wf_of_ids (h2.trans ?_) hinv.2⟩
    unfold setMem
    apply ids_map'
    intro e; split <;> rfl

theorem opCreate_inv {fuel : Nat} {s s' : State} {id : Nat} {grp : Bool} {ms : List Nat}
    (hinv : Inv s) (h : opCreate fuel s id grp ms = .ok s') : Inv s' := by
  unfold opCreate at h
  dsimp only at h
  generalize (if grp = true then norm ms else []) = ms' at h
  by_cases h1 : (find s id).isSome = true
  · rw [if_pos h1] at h; cases h
  · rw [if_neg h1] at h
    by_cases h2 : (!(ms'.all fun m => m == id || isLive s m)) = true
    · rw [if_pos h2] at h; cases h
    · rw [if_neg h2] at h
      cases ha : applyMemberOf fuel (s ++ [⟨id, grp, true, ms', [], [], []⟩]) (id :: ms') with
      | none => rw [ha] at h; cases h
      | some s1 =>
        rw [ha] at h
        simp only [Res.ok.injEq] at h
        subst h
        obtain ⟨h1', h2'⟩ := applyMemberOf_LC (create_J hinv.1 id grp ms') ha
        refine ⟨h1', ?_⟩
        unfold WF
        rw [h2', List.map_append, List.nodup_append]
        refine ⟨hinv.2, by simp, ?_⟩
        intro a ha' b hb
        simp only [List.map_cons, List.map_nil, List.mem_singleton] at hb
        obtain ⟨e, he, rfl⟩ := List.mem_map.mp ha'
        rw [hb]
        have hn : (find s id).isSome = false := by simpa using h1
        exact find_none_spec hn e he

theorem opSet_inv {fuel : Nat} {s s' : State} {g : Nat} {ms : List Nat}
    (hinv : Inv s) (h : opSet fuel s g ms = .ok s') : Inv s' := by
  unfold opSet at h
  split at h
  · simp only [Res.ok.injEq] at h; subst h; exact hinv
  · rename_i e hf
    split at h
    · simp only [Res.ok.injEq] at h; subst h; exact hinv
    · split at h
      · cases h
      · split at h
        · cases h
        · exact applyMod_inv hinv hf h

theorem opDelete_inv {fuel : Nat} {s s' : State} {ids : List Nat}
    (hinv : Inv s) (h : opDelete fuel s ids = .ok s') : Inv s' := by
  unfold opDelete at h
  simp only at h
  split at h
  · cases h
  · split at h
    · cases h
    · rename_i s1 ha
      simp only [Res.ok.injEq] at h
      subst h
      have hmm : ∀ t, (s.map (recycle t)).map (unref t) = s.map (delUpd t) := by
        intro t; rw [List.map_map]; rfl
      rw [hmm] at ha
      obtain ⟨h1, h2⟩ := applyMemberOf_LC (delete_J hinv.1 _) ha
      exact ⟨h1, wf_of_ids (h2.trans (ids_map' (delUpd_id _) s)) hinv.2⟩

theorem reviveMods_inv {fuel : Nat} {x : Nat} : ∀ (gs : List Nat) (s s' : State),
    Inv s → reviveMods fuel x gs s = .ok s' → Inv s' := by
  intro gs
  induction gs with
  | nil => intro s s' hinv h; simp only [reviveMods, Res.ok.injEq] at h; subst h; exact hinv
  | cons g gs ih =>
    intro s s' hinv h
    simp only [reviveMods] at h
    cases ha : addMemberAny fuel s g x with
    | err => simp [ha] at h
    | diverge => simp [ha] at h
    | ok s1 =>
      simp only [ha] at h
      apply ih s1 s' _ h
      unfold addMemberAny at ha
      split at ha
      · simp only [Res.ok.injEq] at ha; subst ha; exact hinv
      · rename_i e hf
        exact applyMod_inv hinv hf ha

theorem J_of_LC {s : State} (hlc : LC s) (a : List Nat) : J s a a :=
  fun e he hl hn => absurd (hlc e he hl) hn

theorem reviveTail_inv {fuel : Nat} {x : Nat} {e : Entry} {s1 s' : State}
    (hinv : Inv s1) (h : reviveTail fuel x e s1 = .ok s') : Inv s' := by
  unfold reviveTail at h
  split at h
  · exact reviveMods_inv _ _ _ hinv h
  · split at h
    · cases h
    · rename_i s2 ha
      obtain ⟨h1, h2⟩ := applyMemberOf_LC (J_of_LC hinv.1 _) ha
      exact reviveMods_inv _ _ _ ⟨h1, wf_of_ids h2 hinv.2⟩ h

theorem opRevive_inv {fuel : Nat} {s s' : State} {x : Nat}
    (hinv : Inv s) (hsafe : SafeOp s (.revive x)) (h : opRevive fuel s x = .ok s') : Inv s' := by
  unfold opRevive at h
  split at h
  · cases h
  · rename_i e hf
    split at h
    · cases h
    · split at h
      · cases h
      · rename_i s1 ha
        have ha' : applyMemberOf fuel (s.map (revUpd x)) [x] = some s1 := ha
        obtain ⟨h1, h2⟩ := applyMemberOf_LC (revive_J hinv.1 hsafe) ha'
        exact reviveTail_inv ⟨h1, wf_of_ids (h2.trans (ids_map' (revUpd_id x) s)) hinv.2⟩ h

theorem step_inv {fuel : Nat} {s s' : State} {op : Op}
    (hinv : Inv s) (hsafe : SafeOp s op) (h : step fuel s op = .ok s') : Inv s' := by
  cases op with
  | create id grp ms => exact opCreate_inv hinv h
  | setMembers g ms => exact opSet_inv hinv h
  | delete ids => exact opDelete_inv hinv h
  | revive x => exact opRevive_inv hinv hsafe h


/-! ## termination on ranked (acyclic) graphs, non-termination on a closed orbit -/

theorem mem_next_iff {s : State} {w : List Nat} {x : Nat} :
    x ∈ (roundStep s w).2 ↔ ∃ g ∈ s, groupDirty s w g = true ∧ x ∈ g.member := by
  simp only [roundStep, enqueueMembersOnChange, if_true]
  rw [mem_foldr_union (fun e : Entry => e.member)]
  constructor
  · rintro ⟨g, hg, hx⟩
    obtain ⟨h1, h2⟩ := List.mem_filter.mp hg
    exact ⟨g, h1, h2, hx⟩
  · rintro ⟨g, h1, h2, hx⟩
    exact ⟨g, List.mem_filter.mpr ⟨h1, h2⟩, hx⟩

theorem groupDirty_spec {s : State} {w : List Nat} {g : Entry} (h : groupDirty s w g = true) :
    g.grp = true ∧ g.live = true ∧ g.id ∈ w := by
  simp only [groupDirty, Bool.and_eq_true, List.contains_iff_mem] at h
  exact ⟨h.1.1.1, h.1.1.2, h.1.2⟩

/-- On a ranked graph the work set climbs one rank per round, so `R + 1` rounds suffice
when no rank exceeds `R`. -/
theorem applyGroups_terminates_ranked (rank : Nat → Nat) (R : Nat) :
    ∀ (fuel k : Nat) (s : State) (w all : List Nat),
      Ranked s rank → (∀ g ∈ s, ∀ m ∈ g.member, rank m ≤ R) →
      (∀ x ∈ w, k ≤ rank x ∧ rank x ≤ R) → R < fuel + k →
      ∃ r, applyGroups fuel s w all = some r := by
  intro fuel
  induction fuel with
  | zero =>
    intro k s w all _ _ hw hk
    cases w with
    | nil => exact ⟨_, rfl⟩
    | cons a w =>
      have := hw a List.mem_cons_self
      omega
  | succ n ih =>
    intro k s w all hr hm hw hk
    cases w with
    | nil => exact ⟨_, rfl⟩
    | cons a w =>
      simp only [applyGroups]
      apply ih (k + 1)
      · intro p x he
        exact hr p x ((edge_map (groupUpd_sameSkel s (a :: w))).mp he)
      · intro g' hg' m hmem
        obtain ⟨g, hg, rfl⟩ := List.mem_map.mp hg'
        rw [(groupUpd_sameSkel s (a :: w) g).2.2.2] at hmem
        exact hm g hg m hmem
      · intro x hx
        obtain ⟨g, hg, hd, hxm⟩ := mem_next_iff.mp hx
        obtain ⟨h1, h2, h3⟩ := groupDirty_spec hd
        have hedge : Edge s g.id x := ⟨g, hg, isPar_iff.mpr ⟨h1, h2, hxm⟩, rfl⟩
        have := hr _ _ hedge
        have := (hw g.id h3).1
        exact ⟨by omega, hm g hg x hxm⟩
      · omega

/-- A finite set of worklist configurations closed under `roundStep`, none with an empty
work set: the loop never ends, whatever the fuel. -/
theorem applyGroups_none_of_orbit (C : List (State × List Nat))
    (hC : ∀ c ∈ C, c.2 ≠ [] ∧ roundStep c.1 c.2 ∈ C) :
    ∀ (fuel : Nat) (s : State) (w all : List Nat), (s, w) ∈ C → applyGroups fuel s w all = none := by
  intro fuel
  induction fuel with
  | zero =>
    intro s w all hc
    cases w with
    | nil => exact absurd rfl (hC _ hc).1
    | cons a w => rfl
  | succ n ih =>
    intro s w all hc
    cases w with
    | nil => exact absurd rfl (hC _ hc).1
    | cons a w =>
      simp only [applyGroups]
      exact ih _ _ _ (hC _ hc).2

/-! ## the executable reference closure is reachability -/

theorem Reach.head {s : State} {p q x : Nat} (he : Edge s p q) (hr : Reach s q x) : Reach s p x := by
  induction hr with
  | edge h => exact Reach.step (Reach.edge he) h
  | step _ h ih => exact Reach.step ih h

theorem mem_closureIter_succ {s : State} {x p k : Nat} :
    p ∈ closureIter s x (k + 1) ↔
      p ∈ closureIter s x k ∨ ∃ q ∈ closureIter s x k, Edge s p q := by
  show p ∈ union (closureIter s x k)
      ((closureIter s x k).foldr (fun q acc => union (dmoOf s q) acc) []) ↔ _
  rw [mem_union, mem_foldr_union (fun q : Nat => dmoOf s q)]
  constructor
  · rintro (h | ⟨q, hq, hp⟩)
    · exact Or.inl h
    · exact Or.inr ⟨q, hq, mem_dmoOf_iff_edge.mp hp⟩
  · rintro (h | ⟨q, hq, hp⟩)
    · exact Or.inl h
    · exact Or.inr ⟨q, hq, mem_dmoOf_iff_edge.mpr hp⟩

theorem reach_of_mem_closureIter {s : State} {x : Nat} :
    ∀ (k p : Nat), p ∈ closureIter s x k → Reach s p x := by
  intro k
  induction k with
  | zero => intro p h; exact Reach.edge (mem_dmoOf_iff_edge.mp h)
  | succ k ih =>
    intro p h
    rcases mem_closureIter_succ.mp h with h | ⟨q, hq, he⟩
    · exact ih p h
    · exact Reach.head he (ih q hq)

theorem mem_closureIter_of_reach {s : State} {x p : Nat} (hr : Reach s p x) :
    ∃ k, p ∈ closureIter s x k := by
  -- generalised: anything reaching an already collected node (or `x` itself) gets collected
  have key : ∀ y, Reach s p y → (y = x ∨ ∃ k, y ∈ closureIter s x k) → ∃ k, p ∈ closureIter s x k := by
    intro y hy
    induction hy with
    | edge he =>
      rintro (rfl | ⟨k, hk⟩)
      · exact ⟨0, mem_dmoOf_iff_edge.mpr he⟩
      · exact ⟨k + 1, mem_closureIter_succ.mpr (Or.inr ⟨_, hk, he⟩)⟩
    | step _ he ih =>
      rintro (rfl | ⟨k, hk⟩)
      · exact ih (Or.inr ⟨0, mem_dmoOf_iff_edge.mpr he⟩)
      · exact ih (Or.inr ⟨k + 1, mem_closureIter_succ.mpr (Or.inr ⟨_, hk, he⟩)⟩)
  exact key x hr (Or.inl rfl)

end Kanidm.MemberOf
