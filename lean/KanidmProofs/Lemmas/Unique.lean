import KanidmModel.Unique
/-!
Helper lemmas for C19 (unique values stay unique).
-/
namespace Kanidm.Unique
open Kanidm.Gen

/-! ## the invariant -/

/-- No uuid twice in the database, whatever the state of the entries. -/
def IdsNodup (s : State) : Prop := (s.map (·.id)).Nodup

/-- Two live entries that share a value of a unique attribute are the same uuid. -/
def KeysUnique (s : State) : Prop :=
  ∀ e1 ∈ s, ∀ e2 ∈ s, e1.isLive = true → e2.isLive = true →
    ∀ k, k ∈ e1.keys → k ∈ e2.keys → e1.id = e2.id

def Uniq (s : State) : Prop := IdsNodup s ∧ KeysUnique s

/-! ## lists -/

theorem nodupB_iff (l : List Nat) : nodupB l = true ↔ l.Nodup := by
  induction l with
  | nil => simp [nodupB]
  | cons a l ih =>
    simp only [nodupB, Bool.and_eq_true, Bool.not_eq_true', List.contains_eq_mem,
      decide_eq_false_iff_not, ih, List.nodup_cons]

theorem eq_of_nodup_map_id {s : State} (h : IdsNodup s) {a b : Entry} (ha : a ∈ s) (hb : b ∈ s)
    (hid : a.id = b.id) : a = b := by
  unfold IdsNodup at h
  induction s with
  | nil => simp at ha
  | cons x xs ih =>
    simp only [List.map_cons, List.nodup_cons, List.mem_map, not_exists, not_and] at h
    rcases List.mem_cons.mp ha with rfl | ha'
    · rcases List.mem_cons.mp hb with rfl | hb'
      · rfl
      · exact absurd hid.symm (h.1 b hb')
    · rcases List.mem_cons.mp hb with rfl | hb'
      · exact absurd hid (h.1 a ha')
      · exact ih h.2 ha' hb'

theorem map_id_congr {s : State} {f : Entry → Entry} (hf : ∀ e, (f e).id = e.id) :
    (s.map f).map (·.id) = s.map (·.id) := by
  simp only [List.map_map]
  apply List.map_congr_left
  intro e _
  exact hf e

/-! ## enforce_unique -/

theorem mem_claims {cands : List Entry} {k : Key} {u : Nat} :
    (k, u) ∈ claims cands ↔ ∃ c ∈ cands, c.isLive = true ∧ k ∈ c.keys ∧ c.id = u := by
  simp only [claims, UniqueOps.candMaskHidesRecycled, Bool.not_true, Bool.false_or,
    List.mem_flatMap, List.mem_filter, List.mem_map, Prod.mk.injEq]
  constructor
  · rintro ⟨c, ⟨hc, hl⟩, k', hk', rfl, rfl⟩
    exact ⟨c, hc, hl, hk', rfl⟩
  · rintro ⟨c, hc, hl, hk, rfl⟩
    exact ⟨c, ⟨hc, hl⟩, k, hk, rfl, rfl⟩

/-- **What `enforce_unique` decides**: it accepts exactly when no value is claimed by two
candidates with different uuids and no live entry of the database with another uuid holds a
claimed value. -/
theorem enforceUnique_iff (db cands : List Entry) :
    enforceUnique db cands = true ↔
      (∀ c1 ∈ cands, ∀ c2 ∈ cands, c1.isLive = true → c2.isLive = true →
        ∀ k, k ∈ c1.keys → k ∈ c2.keys → c1.id = c2.id) ∧
      (∀ c ∈ cands, c.isLive = true → ∀ e ∈ db, e.isLive = true →
        ∀ k, k ∈ c.keys → k ∈ e.keys → e.id = c.id) := by
  simp only [enforceUnique, UniqueOps.inRequestDupRejected, UniqueOps.dbHitRejected, dbHit,
    UniqueOps.dbLookupLiveOnly, UniqueOps.dbLookupExcludesSelf, Bool.not_true, Bool.false_or,
    Bool.true_and, Bool.and_eq_true, List.all_eq_true, Bool.or_eq_true, bne_iff_ne, ne_eq,
    beq_iff_eq, Bool.not_eq_true', Bool.and_eq_false_iff, Bool.not_eq_false',
    List.contains_eq_mem, decide_eq_false_iff_not]
  constructor
  · rintro ⟨h1, h2⟩
    refine ⟨?_, ?_⟩
    · intro c1 hc1 c2 hc2 hl1 hl2 k hk1 hk2
      have m1 : (k, c1.id) ∈ claims cands := mem_claims.mpr ⟨c1, hc1, hl1, hk1, rfl⟩
      have m2 : (k, c2.id) ∈ claims cands := mem_claims.mpr ⟨c2, hc2, hl2, hk2, rfl⟩
      rcases h1 (k, c2.id) m2 (k, c1.id) m1 with h | h
      · exact absurd rfl h
      · exact h
    · intro c hc hl e he hle k hkc hke
      have m : (k, c.id) ∈ claims cands := mem_claims.mpr ⟨c, hc, hl, hkc, rfl⟩
      rcases h2 (k, c.id) m e he with (h | h) | h
      · rw [hle] at h; cases h
      · exact h
      · exact absurd hke h
  · rintro ⟨h1, h2⟩
    refine ⟨?_, ?_⟩
    · rintro ⟨k, u⟩ m ⟨k', u'⟩ m'
      obtain ⟨c, hc, hl, hk, rfl⟩ := mem_claims.mp m
      obtain ⟨c', hc', hl', hk', rfl⟩ := mem_claims.mp m'
      by_cases hkk : k' = k
      · subst hkk
        exact Or.inr (h1 c' hc' c hc hl' hl k' hk' hk)
      · exact Or.inl hkk
    · rintro ⟨k, u⟩ m e he
      obtain ⟨c, hc, hl, hk, rfl⟩ := mem_claims.mp m
      by_cases hle : e.isLive = true
      · by_cases hke : k ∈ e.keys
        · exact Or.inl (Or.inr (h2 c hc hl e he hle k hk hke))
        · exact Or.inr hke
      · exact Or.inl (Or.inl (by simpa using hle))

theorem uniqueHook_iff (db cands : List Entry) : uniqueHook db cands = enforceUnique db cands := by
  simp [uniqueHook, UniqueOps.pluginRegistered]

/-- Base accepts a create exactly when the candidate uuids are pairwise distinct and unknown to
the database in every state. -/
theorem baseOk_iff (db cands : List Entry) :
    baseOk db cands = true ↔
      (cands.map (·.id)).Nodup ∧ ∀ c ∈ cands, ∀ e ∈ db, e.id ≠ c.id := by
  simp only [baseOk, UniqueOps.baseRejectsRequestDup, UniqueOps.baseRejectsExisting,
    UniqueOps.baseLooksAtHidden, Bool.not_true, Bool.false_or, Bool.true_or, Bool.true_and,
    Bool.and_eq_true, nodupB_iff, List.all_eq_true, Bool.not_eq_true', beq_eq_false_iff_ne, ne_eq]

theorem setKeys_fields (e : Entry) (sets : List (Nat × List Nat)) :
    (setKeys e sets).id = e.id ∧ (setKeys e sets).st = e.st := ⟨rfl, rfl⟩

/-! ## replication: value clashes -/

/-- Two live entries of the database with different uuids that share a unique value. -/
def Clash (db : List Entry) (e1 e2 : Entry) : Prop :=
  e1 ∈ db ∧ e2 ∈ db ∧ e1.isLive = true ∧ e2.isLive = true ∧ e1.id ≠ e2.id ∧
    ∃ k, k ∈ e1.keys ∧ k ∈ e2.keys

theorem Clash.symm {db : List Entry} {e1 e2 : Entry} (h : Clash db e1 e2) : Clash db e2 e1 := by
  obtain ⟨a, b, c, d, e, k, hk1, hk2⟩ := h
  exact ⟨b, a, d, c, fun h => e h.symm, k, hk2, hk1⟩

/-- Every clash involves an entry that arrived in this replication step (the consumer was
consistent before, cf. the comment in `post_repl_incremental_conflict`). -/
def Covered (db : List Entry) (candIds : List Nat) : Prop :=
  ∀ e1 e2, Clash db e1 e2 → e1.id ∈ candIds ∨ e2.id ∈ candIds

theorem mem_partners {db : List Entry} {c : Entry} {u : Nat} :
    u ∈ partners db c ↔ ∃ e ∈ db, e.isLive = true ∧ e.id ≠ c.id ∧
      (∃ k, k ∈ c.keys ∧ k ∈ e.keys) ∧ e.id = u := by
  simp only [partners, UniqueOps.conflictSearchLiveOnly, UniqueOps.conflictSearchExcludesSelf,
    Bool.not_true, Bool.false_or, Bool.true_and, List.mem_map, List.mem_filter, Bool.and_eq_true,
    Bool.not_eq_true', beq_eq_false_iff_ne, ne_eq, List.any_eq_true, List.contains_eq_mem,
    decide_eq_true_eq]
  constructor
  · rintro ⟨e, ⟨he, ⟨hl, hne⟩, k, hk1, hk2⟩, rfl⟩
    exact ⟨e, he, hl, hne, ⟨k, hk1, hk2⟩, rfl⟩
  · rintro ⟨e, he, hl, hne, ⟨k, hk1, hk2⟩, rfl⟩
    exact ⟨e, ⟨he, ⟨hl, hne⟩, k, hk1, hk2⟩, rfl⟩

theorem mem_conflictSet {db : List Entry} {candIds : List Nat} {u : Nat} :
    u ∈ conflictSet db candIds ↔ ∃ c ∈ db, c.id ∈ candIds ∧ c.isLive = true ∧
      partners db c ≠ [] ∧ (u = c.id ∨ u ∈ partners db c) := by
  simp only [conflictSet, UniqueOps.candMaskHidesRecycled, UniqueOps.conflictMarksCandidate,
    UniqueOps.conflictMarksPartners, Bool.not_true, Bool.false_or, if_true, List.mem_flatMap,
    List.mem_filter, Bool.and_eq_true, List.contains_eq_mem, decide_eq_true_eq]
  constructor
  · rintro ⟨c, ⟨hc, hcand, hl⟩, hu⟩
    by_cases hp : (partners db c).isEmpty = true
    · simp [hp] at hu
    · simp only [hp] at hu
      have hne : partners db c ≠ [] := by simpa using hp
      refine ⟨c, hc, hcand, hl, hne, ?_⟩
      simpa using hu
  · rintro ⟨c, hc, hcand, hl, hne, hu⟩
    refine ⟨c, ⟨hc, hcand, hl⟩, ?_⟩
    have hp : (partners db c).isEmpty = false := by simpa using hne
    simp only [hp]
    simpa using hu

/-- **The conflict set is the set of clashing entries**, whichever of them arrived. -/
theorem conflictSet_iff {db : List Entry} {candIds : List Nat} (hcov : Covered db candIds) (u : Nat) :
    u ∈ conflictSet db candIds ↔ ∃ e1 e2, Clash db e1 e2 ∧ u = e1.id := by
  rw [mem_conflictSet]
  constructor
  · rintro ⟨c, hc, _, hl, hne, hu⟩
    rcases hu with rfl | hu
    · -- the candidate itself: it has a partner
      cases hps : partners db c with
      | nil => exact absurd hps hne
      | cons p ps =>
        have hp : p ∈ partners db c := by rw [hps]; exact List.mem_cons_self
        obtain ⟨e, he, hle, hid, ⟨k, hk1, hk2⟩, _⟩ := mem_partners.mp hp
        exact ⟨c, e, ⟨hc, he, hl, hle, fun h => hid h.symm, k, hk1, hk2⟩, rfl⟩
    · obtain ⟨e, he, hle, hid, ⟨k, hk1, hk2⟩, rfl⟩ := mem_partners.mp hu
      exact ⟨e, c, ⟨he, hc, hle, hl, hid, k, hk2, hk1⟩, rfl⟩
  · rintro ⟨e1, e2, hcl, rfl⟩
    have hcl' := hcl
    obtain ⟨h1, h2, hl1, hl2, hne, k, hk1, hk2⟩ := hcl
    rcases hcov e1 e2 hcl' with hc | hc
    · have hp : e2.id ∈ partners db e1 :=
        mem_partners.mpr ⟨e2, h2, hl2, fun h => hne h.symm, ⟨k, hk1, hk2⟩, rfl⟩
      exact ⟨e1, h1, hc, hl1, List.ne_nil_of_mem hp, Or.inl rfl⟩
    · have hp : e1.id ∈ partners db e2 :=
        mem_partners.mpr ⟨e1, h1, hl1, hne, ⟨k, hk2, hk1⟩, rfl⟩
      exact ⟨e2, h2, hc, hl2, List.ne_nil_of_mem hp, Or.inr hp⟩

theorem conflictStep_ids (db : List Entry) (candIds : List Nat) :
    (conflictStep db candIds).map (·.id) = db.map (·.id) := by
  unfold conflictStep
  apply map_id_congr
  intro e
  split <;> rfl

end Kanidm.Unique
