import KanidmModel.AuthSession
/-!
Helper definitions and lemmas for C27 (`KanidmProofs/C27.lean`).
-/
namespace Kanidm.AuthSession
open Kanidm.Gen.AuthSession

/-- Terminal states: `Success`, `Denied`, and "no session was stored". -/
def State.terminal : State → Bool
  | .noSession | .success | .denied _ => true
  | _ => false

/-- The factors a handler still requires (by `AuthCredential` variant, in order), or `none`
if it is in a state from which it can never succeed. -/
def remaining : Handler → Option (List CredKind)
  | .anonymous => some (acceptedCreds .anonymous)
  | .password _ => some (acceptedCreds .password)
  | .passwordTotp .init .init => some (acceptedCreds .passwordTotp)
  | .passwordTotp .success .init => some ((acceptedCreds .passwordTotp).drop 1)
  | .passwordBackupCode .init .init => some (acceptedCreds .passwordBackupCode)
  | .passwordBackupCode .success .init => some ((acceptedCreds .passwordBackupCode).drop 1)
  | .passwordSecurityKey .init .init => some (acceptedCreds .passwordSecurityKey)
  | .passwordSecurityKey .success .init => some ((acceptedCreds .passwordSecurityKey).drop 1)
  | .passkey .init => some (acceptedCreds .passkey)
  | .attestedPasskey .init => some (acceptedCreds .attestedPasskey)
  | .oAuth2Trust => some (acceptedCreds .oAuth2Trust)
  | _ => none

/-- A handler as `AuthSession::new` builds it: nothing verified yet. -/
def fresh (h : Handler) : Bool := remaining h == some (acceptedCreds h.kind)

/-- The verifier(s) the handler kind consults accepted this credential. -/
def verifiedFor (k : HKind) : Cred → Bool
  | .passkey ok idKnown attOk => ok && idKnown && (k != .attestedPasskey || attOk)
  | c => c.verified

/-- `get_credential_uuid` is `Some` for this handler kind: `auth` consults the soft lock. -/
def lockConsulted : HKind → Bool
  | .password | .passwordTotp | .passwordBackupCode => true
  | _ => false

theorem step_terminal (s : State) (hs : s.terminal = true) (st : Step) :
    (step s st).1 = s ∧ (step s st).2.isErr = true := by
  obtain ⟨act, locked⟩ := st
  cases s <;> simp [State.terminal] at hs <;> cases act <;>
    simp [step, authBegin, authCred, startSession, credUuid, Reply.isErr]

theorem runState_terminal (s : State) (hs : s.terminal = true) (steps : List Step) :
    runState s steps = s := by
  induction steps with
  | nil => rfl
  | cons st rest ih => simp [runState, (step_terminal s hs st).1, ih]

theorem run_terminal (s : State) (hs : s.terminal = true) (steps : List Step) :
    ∀ r ∈ run s steps, r.isErr = true := by
  induction steps with
  | nil => simp [run]
  | cons st rest ih =>
    intro r hr
    simp only [run, (step_terminal s hs st).1, List.mem_cons] at hr
    rcases hr with h | h
    · rw [h]; exact (step_terminal s hs st).2
    · exact ih r h

theorem accepted_terminal (s : State) (hs : s.terminal = true) (steps : List Step) :
    accepted s steps = [] := by
  induction steps with
  | nil => rfl
  | cons st rest ih =>
    simp [accepted, (step_terminal s hs st).1, (step_terminal s hs st).2, ih]

/-- What one step does to a session in progress (`h` not the OAuth2 handler), as a
decidable check: an error leaves the state alone; a denial is terminal; `Continue` consumes
exactly the next required factor, verified and not soft-locked; `Success` consumes the
last one. -/
def stepSpec (h : Handler) (st : Step) : Bool :=
  let r := step (.inProgress h) st
  match r.2 with
  | .err _ => r.1 == .inProgress h
  | .denied x => r.1 == .denied x
  | .success _ =>
    r.1 == .success &&
    (match st.act with
     | .cred c => remaining h == some [c.kind] && verifiedFor h.kind c &&
                  !(lockConsulted h.kind && st.locked)
     | .begin _ => false)
  | .continue_ _ =>
    (match st.act, r.1 with
     | .cred c, .inProgress h' =>
        h'.kind == h.kind && (remaining h').isSome &&
        remaining h == (remaining h').map (c.kind :: ·) && verifiedFor h.kind c &&
        !(lockConsulted h.kind && st.locked)
     | _, _ => false)
  | .external => false
  | .choose _ => false

def VState.all : List VState := [.init, .success, .fail]
def boolAll : List Bool := [false, true]

/-- Every handler value except the OAuth2 one. -/
def allHandlers : List Handler :=
  [.anonymous, .password false, .password true] ++
  (VState.all.flatMap fun m => VState.all.flatMap fun p =>
    [.passwordTotp m p, .passwordBackupCode m p, .passwordSecurityKey m p]) ++
  VState.all.map .passkey ++ VState.all.map .attestedPasskey

def allCreds : List Cred :=
  [.anonymous] ++
  (boolAll.flatMap fun a => boolAll.map fun b => .password a b) ++
  boolAll.map .totp ++ boolAll.map .securityKey ++ boolAll.map .backupCode ++
  (boolAll.flatMap fun a => boolAll.flatMap fun b => boolAll.map fun c => .passkey a b c) ++
  [.oauth2 .success, .oauth2 .external, .oauth2 .denied]

def allSteps : List Step :=
  (Mech.all.map Act.begin ++ allCreds.map Act.cred).flatMap fun a =>
    boolAll.map fun l => ⟨a, l⟩

theorem mem_allHandlers (h : Handler) (hne : h.kind ≠ .oAuth2Trust) : h ∈ allHandlers := by
  rcases h with _ | g | ⟨m, p⟩ | ⟨m, p⟩ | ⟨m, p⟩ | st | st | _
  · decide
  · cases g <;> decide
  · cases m <;> cases p <;> decide
  · cases m <;> cases p <;> decide
  · cases m <;> cases p <;> decide
  · cases st <;> decide
  · cases st <;> decide
  · exact absurd rfl hne

theorem mem_allCreds (c : Cred) : c ∈ allCreds := by
  rcases c with _ | ⟨a, b⟩ | a | a | a | ⟨a, b, d⟩ | o
  · decide
  · cases a <;> cases b <;> decide
  · cases a <;> decide
  · cases a <;> decide
  · cases a <;> decide
  · cases a <;> cases b <;> cases d <;> decide
  · cases o <;> decide

theorem mem_allSteps (st : Step) : st ∈ allSteps := by
  obtain ⟨act, locked⟩ := st
  simp only [allSteps, List.mem_flatMap, List.mem_map, List.mem_append]
  refine ⟨act, ?_, locked, by cases locked <;> decide, rfl⟩
  cases act with
  | begin m => exact Or.inl ⟨m, by cases m <;> decide, rfl⟩
  | cred c => exact Or.inr ⟨c, mem_allCreds c, rfl⟩

theorem stepSpec_table : allHandlers.all (fun h => allSteps.all (fun st => stepSpec h st)) = true := by
  decide +kernel

theorem stepSpec_all (h : Handler) (hne : h.kind ≠ .oAuth2Trust) (st : Step) :
    stepSpec h st = true := by
  have := stepSpec_table
  rw [List.all_eq_true] at this
  have h1 := this h (mem_allHandlers h hne)
  rw [List.all_eq_true] at h1
  exact h1 st (mem_allSteps st)

/-- Trace lemma for a session in progress: if some later step returns `Success`, the accepted
steps up to and including it are exactly one verified credential per remaining factor. -/
theorem inProgress_trace (t : AuthType) :
    ∀ (pre : List Step) (h : Handler) (st : Step), h.kind ≠ .oAuth2Trust →
      (step (runState (.inProgress h) pre) st).2 = .success t →
      ∃ cs : List Cred,
        remaining h = some (cs.map Cred.kind) ∧
        (accepted (.inProgress h) (pre ++ [st])).map (·.act) = cs.map Act.cred ∧
        (∀ c ∈ cs, verifiedFor h.kind c = true) ∧
        (lockConsulted h.kind = true →
          ∀ x ∈ accepted (.inProgress h) (pre ++ [st]), x.locked = false) := by
  intro pre
  induction pre with
  | nil =>
    intro h st hne hs
    have sp := stepSpec_all h hne st
    simp only [runState] at hs
    unfold stepSpec at sp
    simp only [hs] at sp
    obtain ⟨act, locked⟩ := st
    cases act with
    | begin m => simp at sp
    | cred c =>
      simp only [Bool.and_eq_true, beq_iff_eq, Bool.not_eq_true'] at sp
      obtain ⟨_, ⟨hrem, hver⟩, hlock⟩ := sp
      refine ⟨[c], by simpa using hrem, ?_, ?_, ?_⟩
      · simp [accepted, hs, Reply.isErr]
      · intro c' hc'; simp at hc'; subst hc'; exact hver
      · intro hl x hx
        simp [accepted, hs, Reply.isErr] at hx
        subst hx
        simpa [hl] using hlock
  | cons p pre ih =>
    intro h st hne hs
    have sp := stepSpec_all h hne p
    unfold stepSpec at sp
    simp only [runState] at hs
    cases hr : (step (.inProgress h) p).2 with
    | err e =>
      simp only [hr, beq_iff_eq] at sp
      rw [sp] at hs
      obtain ⟨cs, h1, h2, h3, h4⟩ := ih h st hne hs
      refine ⟨cs, h1, ?_, h3, ?_⟩
      · simpa [accepted, hr, Reply.isErr, sp] using h2
      · intro hl x hx
        apply h4 hl x
        simpa [accepted, hr, Reply.isErr, sp] using hx
    | denied x =>
      simp only [hr, beq_iff_eq] at sp
      rw [sp, runState_terminal _ rfl] at hs
      have := (step_terminal (.denied x) rfl st).2
      rw [hs] at this; simp [Reply.isErr] at this
    | success t' =>
      simp only [hr, Bool.and_eq_true, beq_iff_eq] at sp
      rw [sp.1, runState_terminal _ rfl] at hs
      have := (step_terminal .success rfl st).2
      rw [hs] at this; simp [Reply.isErr] at this
    | external => simp [hr] at sp
    | choose ms => simp [hr] at sp
    | continue_ al =>
      simp only [hr] at sp
      obtain ⟨act, locked⟩ := p
      cases act with
      | begin m => simp at sp
      | cred c =>
        cases hst : (step (.inProgress h) ⟨.cred c, locked⟩).1 with
        | inProgress h' =>
          simp only [hst, Bool.and_eq_true, beq_iff_eq, Bool.not_eq_true'] at sp
          obtain ⟨⟨⟨⟨hk, hsome⟩, hrem⟩, hver⟩, hlock⟩ := sp
          rw [hst] at hs
          have hne' : h'.kind ≠ .oAuth2Trust := by rw [hk]; exact hne
          obtain ⟨cs, h1, h2, h3, h4⟩ := ih h' st hne' hs
          refine ⟨c :: cs, ?_, ?_, ?_, ?_⟩
          · rw [hrem, h1]; rfl
          · simp [accepted, hr, Reply.isErr, hst, h2]
          · intro c' hc'
            rcases List.mem_cons.mp hc' with rfl | hc'
            · exact hver
            · rw [← hk]; exact h3 c' hc'
          · intro hl x hx
            simp only [List.cons_append, accepted, hr, Reply.isErr, hst] at hx
            rcases List.mem_cons.mp hx with rfl | hx
            · simpa [hl] using hlock
            · exact h4 (by rw [hk]; exact hl) x hx
        | noSession => simp [hst] at sp
        | init hs' => simp [hst] at sp
        | success => simp [hst] at sp
        | denied r => simp [hst] at sp

theorem credUuid_inProgress (h : Handler) :
    credUuid (.inProgress h) = some (lockConsulted h.kind) := by
  cases h <;> rfl

theorem nextAuthState_not_err (h : Handler) : (nextAuthState h).isErr = false := by
  cases h <;> rfl

theorem nextAuthState_not_success (h : Handler) (t : AuthType) : nextAuthState h ≠ .success t := by
  cases h <;> simp [nextAuthState]

theorem mem_of_getLast?_filter {p : Handler → Bool} {hs : List Handler} {h : Handler}
    (hl : (hs.filter p).getLast? = some h) : h ∈ hs ∧ p h = true := by
  obtain ⟨ys, hys⟩ := List.getLast?_eq_some_iff.mp hl
  have : h ∈ hs.filter p := by rw [hys]; simp
  exact List.mem_filter.mp this

theorem step_init_cred (hs : List Handler) (c : Cred) (l : Bool) :
    step (.init hs) ⟨.cred c, l⟩ = (.init hs, .err .au0001InvalidState) := by
  simp [step, authCred, credUuid]

/-- `Begin` on a fresh session: the *last* handler matching the mechanism is selected; no
match ends the session (and `auth` answers `AU0001InvalidState`). -/
theorem step_init_begin (hs : List Handler) (m : Mech) (l : Bool) :
    step (.init hs) ⟨.begin m, l⟩ =
      match (hs.filter fun h => canProceed h.kind m).getLast? with
      | none => (.denied .badCredentials, .err .au0001InvalidState)
      | some h => if lockConsulted h.kind && l then (.denied .locked, .denied .locked)
                  else (.inProgress h, nextAuthState h) := by
  simp only [step, authBegin, startSession]
  cases hl : (hs.filter fun h => canProceed h.kind m).getLast? with
  | none => simp [credUuid]
  | some h => simp [credUuid_inProgress]

/-- Trace lemma for a whole session (from `Init`). -/
theorem init_trace (t : AuthType) :
    ∀ (pre : List Step) (hs : List Handler) (st : Step),
      (∀ h ∈ hs, h.kind ≠ .oAuth2Trust) → (∀ h ∈ hs, fresh h = true) →
      (step (runState (.init hs) pre) st).2 = .success t →
      ∃ (m : Mech) (h : Handler) (cs : List Cred),
        h ∈ hs ∧ canProceed h.kind m = true ∧
        (accepted (.init hs) (pre ++ [st])).map (·.act) = .begin m :: cs.map Act.cred ∧
        cs.map Cred.kind = acceptedCreds h.kind ∧
        (∀ c ∈ cs, verifiedFor h.kind c = true) ∧
        (lockConsulted h.kind = true →
          ∀ x ∈ accepted (.init hs) (pre ++ [st]), x.locked = false) := by
  intro pre
  induction pre with
  | nil =>
    intro hs st _ _ hsucc
    obtain ⟨act, l⟩ := st
    simp only [runState] at hsucc
    cases act with
    | cred c => simp [step_init_cred] at hsucc
    | begin m =>
      rw [step_init_begin] at hsucc
      split at hsucc
      · simp at hsucc
      · split at hsucc
        · simp at hsucc
        · exact absurd hsucc (nextAuthState_not_success _ t)
  | cons p pre ih =>
    intro hs st hne hfresh hsucc
    obtain ⟨act, l⟩ := p
    simp only [runState] at hsucc
    cases act with
    | cred c =>
      rw [step_init_cred] at hsucc
      obtain ⟨m, h, cs, h1, h2, h3, h4, h5, h6⟩ := ih hs st hne hfresh hsucc
      refine ⟨m, h, cs, h1, h2, ?_, h4, h5, ?_⟩
      · simpa [accepted, step_init_cred, Reply.isErr] using h3
      · intro hl x hx
        apply h6 hl x
        simpa [accepted, step_init_cred, Reply.isErr] using hx
    | begin m =>
      have hb := step_init_begin hs m l
      cases hl : (hs.filter fun h => canProceed h.kind m).getLast? with
      | none =>
        simp only [hl] at hb
        rw [hb, runState_terminal _ rfl] at hsucc
        have := (step_terminal (.denied .badCredentials) rfl st).2
        rw [hsucc] at this; simp [Reply.isErr] at this
      | some h =>
        simp only [hl] at hb
        obtain ⟨hmem, hcp⟩ := mem_of_getLast?_filter hl
        by_cases hlk : (lockConsulted h.kind && l) = true
        · simp only [hlk, if_true] at hb
          rw [hb, runState_terminal _ rfl] at hsucc
          have := (step_terminal (.denied .locked) rfl st).2
          rw [hsucc] at this; simp [Reply.isErr] at this
        · have hlk' : (lockConsulted h.kind && l) = false := by
            cases hv : (lockConsulted h.kind && l) with
            | true => exact absurd hv hlk
            | false => rfl
          simp only [hlk', Bool.false_eq_true, if_false] at hb
          rw [hb] at hsucc
          obtain ⟨cs, h1, h2, h3, h4⟩ := inProgress_trace t pre h st (hne h hmem) hsucc
          have hfr := hfresh h hmem
          simp only [fresh, beq_iff_eq] at hfr
          rw [hfr] at h1
          refine ⟨m, h, cs, hmem, hcp, ?_, (Option.some.inj h1).symm, h3, ?_⟩
          · simp [accepted, hb, nextAuthState_not_err, h2]
          · intro hl' x hx
            simp only [List.cons_append, accepted, hb, nextAuthState_not_err] at hx
            rcases List.mem_cons.mp hx with rfl | hx
            · simpa [hl'] using hlk'
            · exact h4 hl' x hx

end Kanidm.AuthSession
