import KanidmModel.BaseProtect
/-
Helper lemmas for C20 (`KanidmProofs/C20.lean`).
-/
namespace Kanidm.BaseProtect
open Kanidm.Filter
open Kanidm.Access.Write
open Kanidm.Gen.Access
open Kanidm.Gen.BaseProtect

/-! ### value sets under `apply_modlist` -/

/-- the modification mutates the value set of attribute `a` -/
def touches (a : Nat) (m : Mod) : Bool := applyMutates (modKind m) && modAttr m == a

theorem stepAva_noop {a : Nat} {cur : Option (List Nat)} {m : Mod} (h : touches a m = false) :
    stepAva a cur m = cur := by
  unfold stepAva
  unfold touches at h
  simp [h]

theorem applyAva_noop {a : Nat} (ml : List Mod) (cur : Option (List Nat))
    (h : ∀ m ∈ ml, touches a m = false) : applyAva a cur ml = cur := by
  induction ml generalizing cur with
  | nil => rfl
  | cons m rest ih =>
    simp only [applyAva]
    rw [stepAva_noop (h m (by simp))]
    exact ih cur (fun m' hm' => h m' (by simp [hm']))

theorem modKind_lt (m : Mod) : modKind m < 5 := by
  cases m <;> simp [modKind]

/-- every variant `apply_modlist` mutates with is inspected by `Base::pre_modify` -/
theorem mutates_checked_modify : ∀ k, k < 5 → applyMutates k = true → preModifyChecks k = true := by
  decide

theorem mutates_checked_batch : ∀ k, k < 5 → applyMutates k = true → preBatchModifyChecks k = true := by
  decide

theorem preModifyAttr_is_uuid : preModifyAttr = A.Uuid := by decide
theorem preBatchModifyAttr_is_uuid : preBatchModifyAttr = A.Uuid := by decide

theorem touches_rejected_modify {m : Mod} (h : touches A.Uuid m = true) : preModifyRejects m = true := by
  unfold touches at h
  unfold preModifyRejects
  simp only [Bool.and_eq_true] at h ⊢
  exact ⟨mutates_checked_modify _ (modKind_lt m) h.1, by rw [preModifyAttr_is_uuid]; exact h.2⟩

theorem touches_rejected_batch {m : Mod} (h : touches A.Uuid m = true) :
    preBatchModifyRejects m = true := by
  unfold touches at h
  unfold preBatchModifyRejects
  simp only [Bool.and_eq_true] at h ⊢
  exact ⟨mutates_checked_batch _ (modKind_lt m) h.1, by rw [preBatchModifyAttr_is_uuid]; exact h.2⟩

theorem runPreModify_eq (ml : List Mod) : runPreModify ml = basePreModify ml := by
  unfold runPreModify
  have : runPreModifyBase.isSome = true := by decide
  cases h : runPreModifyBase with
  | none => rw [h] at this; simp at this
  | some _ => rfl

theorem runPreBatchModify_eq (ms : List (List Mod)) : runPreBatchModify ms = basePreBatchModify ms := by
  unfold runPreBatchModify
  have : runPreBatchModifyBase.isSome = true := by decide
  cases h : runPreBatchModifyBase with
  | none => rw [h] at this; simp at this
  | some _ => rfl

theorem runPreModify_of_touch {ml : List Mod} (h : ∃ m ∈ ml, touches A.Uuid m = true) :
    runPreModify ml = true := by
  rw [runPreModify_eq]
  obtain ⟨m, hm, ht⟩ := h
  exact List.any_eq_true.mpr ⟨m, hm, touches_rejected_modify ht⟩

theorem runPreBatchModify_of_touch {ms : List (List Mod)}
    (h : ∃ ml ∈ ms, ∃ m ∈ ml, touches A.Uuid m = true) : runPreBatchModify ms = true := by
  rw [runPreBatchModify_eq]
  obtain ⟨ml, hml, m, hm, ht⟩ := h
  exact List.any_eq_true.mpr ⟨ml, hml, List.any_eq_true.mpr ⟨m, hm, touches_rejected_batch ht⟩⟩

/-- If the modlist passed `modifyStage`, nothing in it mutates the `uuid` value set. -/
theorem modifyStage_proceed_no_touch {id : Ident} {acps : List AcpModify} {ag : List (Nat × List Nat)}
    {cands : List Ent} {ml : List Mod} (h : modifyStage id acps ag cands ml = .proceed) :
    ∀ m ∈ ml, touches A.Uuid m = false := by
  intro m hm
  cases ht : touches A.Uuid m with
  | false => rfl
  | true =>
    have hr : runPreModify ml = true := runPreModify_of_touch ⟨m, hm, ht⟩
    unfold modifyStage at h
    rw [hr] at h
    repeat' split at h
    all_goals first | exact absurd h (by decide) | skip
    all_goals simp_all

theorem batchStage_proceed_no_touch {id : Ident} {acps : List AcpModify} {ag : List (Nat × List Nat)}
    {n : Nat} {pairs : List (Ent × Option (List Mod))} (h : batchStage id acps ag n pairs = .proceed) :
    ∀ p ∈ pairs, ∀ m ∈ p.2.getD [], touches A.Uuid m = false := by
  intro p hp m hm
  cases ht : touches A.Uuid m with
  | false => rfl
  | true =>
    have hr : runPreBatchModify (pairs.map (fun p => p.2.getD [])) = true :=
      runPreBatchModify_of_touch ⟨p.2.getD [], List.mem_map.mpr ⟨p, hp, rfl⟩, m, hm, ht⟩
    unfold batchStage at h
    rw [hr] at h
    repeat' split at h
    all_goals first | exact absurd h (by decide) | skip
    all_goals simp_all

/-! ### `Base::pre_create_transform` -/

theorem validateUuid_some {l : Option (List Nat)} {u : Nat} (h : validateUuid l = some u) :
    l = some [u] := by
  unfold validateUuid at h
  split at h
  · simp_all
  · simp at h

/-- first loop succeeded: every uuid a request names is the uuid of a candidate of the second loop -/
theorem assignUuids_ok_mem (fresh : Nat → Nat) :
    ∀ (cands : List Cand) (k : Nat) (l : List (Nat × List Nat)),
      assignUuids fresh k cands = .ok l →
      ∀ c ∈ cands, ∀ us, c.uuids = some us → ∀ u ∈ us, ∃ cls, (u, cls) ∈ l := by
  intro cands
  induction cands with
  | nil => intro k l _ c hc; simp at hc
  | cons c0 rest ih =>
    intro k l h c hc us hus u hu
    unfold assignUuids at h
    simp only at h
    split at h
    · -- no uuid: fresh
      rename_i hnone
      split at h
      · rename_i l' hrest
        simp only [Except.ok.injEq] at h
        subst h
        rcases List.mem_cons.mp hc with rfl | hc'
        · rw [hnone] at hus; simp at hus
        · obtain ⟨cls, hm⟩ := ih (k + 1) l' hrest c hc' us hus u hu
          exact ⟨cls, List.mem_cons_of_mem _ hm⟩
      · simp at h
    · rename_i l0 hsome
      split at h
      · simp at h
      · split at h
        · simp at h
        · rename_i u0 hval
          split at h
          · rename_i r hrest
            simp only [Except.ok.injEq] at h
            subst h
            have hl0 := validateUuid_some hval
            rcases List.mem_cons.mp hc with rfl | hc'
            · rw [hsome] at hus
              have : us = [u0] := by
                have := Option.some.inj hus
                have h2 := Option.some.inj hl0
                rw [← this, h2]
              subst this
              have : u = u0 := by simpa using hu
              subst this
              exact ⟨_, List.mem_cons_self⟩
            · obtain ⟨cls, hm⟩ := ih k r hrest c hc' us hus u hu
              exact ⟨cls, List.mem_cons_of_mem _ hm⟩
          · simp at h

/-- every candidate of the second loop is a request's uuid or a fresh one -/
theorem assignUuids_ok_origin (fresh : Nat → Nat) :
    ∀ (cands : List Cand) (k : Nat) (l : List (Nat × List Nat)),
      assignUuids fresh k cands = .ok l →
      ∀ p ∈ l, (∃ j, p.1 = fresh j) ∨ (∃ c ∈ cands, c.uuids = some [p.1]) := by
  intro cands
  induction cands with
  | nil =>
    intro k l h p hp
    unfold assignUuids at h
    simp only [Except.ok.injEq] at h
    subst h; simp at hp
  | cons c0 rest ih =>
    intro k l h p hp
    unfold assignUuids at h
    simp only at h
    split at h
    · split at h
      · rename_i l' hrest
        simp only [Except.ok.injEq] at h
        subst h
        rcases List.mem_cons.mp hp with rfl | hp'
        · exact Or.inl ⟨k, rfl⟩
        · rcases ih (k + 1) l' hrest p hp' with hj | ⟨c, hc, hcu⟩
          · exact Or.inl hj
          · exact Or.inr ⟨c, List.mem_cons_of_mem _ hc, hcu⟩
      · simp at h
    · rename_i l0 hsome
      split at h
      · simp at h
      · split at h
        · simp at h
        · rename_i u0 hval
          split at h
          · rename_i r hrest
            simp only [Except.ok.injEq] at h
            subst h
            have hl0 := validateUuid_some hval
            rcases List.mem_cons.mp hp with rfl | hp'
            · refine Or.inr ⟨c0, List.mem_cons_self, ?_⟩
              rw [hsome]; exact hl0
            · rcases ih k r hrest p hp' with hj | ⟨c, hc, hcu⟩
              · exact Or.inl hj
              · exact Or.inr ⟨c, List.mem_cons_of_mem _ hc, hcu⟩
          · simp at h

theorem createRangeCmp_iff (u : Nat) :
    createRangeCmp u dynamicRangeMinimum = true ↔ u < dynamicRangeMinimum := by
  simp [createRangeCmp]

/-- second loop, non-internal identity: the flag is sticky and set by every uuid in the range;
the uuids are passed on unchanged -/
theorem rangeLoop_user :
    ∀ (l : List (Nat × List Nat)) (seen : List Nat) (flag : Bool)
      (l' : List (Nat × List Nat)) (s : List Nat) (f : Bool),
      rangeLoop false l seen flag = .ok (l', s, f) →
      l'.map (·.1) = l.map (·.1) ∧
      (f = true ↔ (flag = true ∨ ∃ p ∈ l, p.1 < dynamicRangeMinimum)) := by
  intro l
  induction l with
  | nil =>
    intro seen flag l' s f h
    unfold rangeLoop at h
    simp only [Except.ok.injEq, Prod.mk.injEq] at h
    obtain ⟨rfl, rfl, rfl⟩ := h
    simp
  | cons p rest ih =>
    intro seen flag l' s f h
    obtain ⟨u, cls⟩ := p
    unfold rangeLoop at h
    simp only at h
    split at h
    · simp at h
    · split at h
      · rename_i l2 s2 f2 hrest
        simp only [Except.ok.injEq, Prod.mk.injEq] at h
        obtain ⟨rfl, rfl, rfl⟩ := h
        obtain ⟨hmap, hflag⟩ := ih _ _ _ _ _ hrest
        refine ⟨by simp [hmap], ?_⟩
        rw [hflag]
        have hset : createRangeFlagSet = true := by decide
        by_cases hu : u < dynamicRangeMinimum
        · have : createRangeCmp u dynamicRangeMinimum = true := (createRangeCmp_iff u).mpr hu
          simp [this, hset, hu]
        · have : createRangeCmp u dynamicRangeMinimum = false := by
            cases hc : createRangeCmp u dynamicRangeMinimum with
            | false => rfl
            | true => exact absurd ((createRangeCmp_iff u).mp hc) hu
          simp [this, hu]
      · simp at h

theorem zero_mem_postLoopChecks : 0 ∈ createPostLoopChecks := by decide

theorem postLoopChecks_flag (seen db : List Nat) :
    ∀ checks : List Nat, 0 ∈ checks → postLoopChecks seen db true checks ≠ none := by
  intro checks
  induction checks with
  | nil => intro h; simp at h
  | cons c rest ih =>
    intro h
    unfold postLoopChecks
    by_cases hc : c = 0
    · subst hc; simp
    · have hr : 0 ∈ rest := by
        rcases List.mem_cons.mp h with h0 | h0
        · exact absurd h0.symm hc
        · exact h0
      simp only
      split
      · simp
      · exact ih hr

/-- `Base::pre_create_transform` for a non-internal identity: accepted ⇒ no uuid of the request is
below `DYNAMIC_RANGE_MINIMUM_UUID`, and every resulting uuid is one of the request or a fresh one
— and all of them are at or above the minimum. -/
theorem base_ok_user {fresh : Nat → Nat} {db : List Nat} {cands : List Cand}
    {l : List (Nat × List Nat)} (h : basePreCreateTransform false fresh db cands = .ok l) :
    (∀ p ∈ l, dynamicRangeMinimum ≤ p.1) ∧
    (∀ c ∈ cands, ∀ us, c.uuids = some us → ∀ u ∈ us, dynamicRangeMinimum ≤ u) := by
  unfold basePreCreateTransform at h
  split at h
  · simp at h
  · rename_i l1 h1
    split at h
    · simp at h
    · rename_i l2 seen flag h2
      split at h
      · simp at h
      · rename_i h3
        simp only [Except.ok.injEq] at h
        subst h
        obtain ⟨hmap, hflag⟩ := rangeLoop_user _ _ _ _ _ _ h2
        have hf : flag = false := by
          cases hfl : flag with
          | false => rfl
          | true =>
            rw [hfl] at h3
            exact absurd h3 (postLoopChecks_flag seen db _ zero_mem_postLoopChecks)
        have hall : ∀ p ∈ l1, dynamicRangeMinimum ≤ p.1 := by
          intro p hp
          cases Nat.lt_or_ge p.1 dynamicRangeMinimum with
          | inl hlt =>
            have : flag = true := hflag.mpr (Or.inr ⟨p, hp, hlt⟩)
            rw [hf] at this; simp at this
          | inr hge => exact hge
        constructor
        · intro p hp
          have : p.1 ∈ l2.map (·.1) := List.mem_map.mpr ⟨p, hp, rfl⟩
          rw [hmap] at this
          obtain ⟨q, hq, hqe⟩ := List.mem_map.mp this
          rw [← hqe]; exact hall q hq
        · intro c hc us hus u hu
          obtain ⟨cls, hm⟩ := assignUuids_ok_mem fresh cands 0 l1 h1 c hc us hus u hu
          exact hall (u, cls) hm

theorem runPreCreateTransform_eq (internal : Bool) (fresh : Nat → Nat) (db : List Nat)
    (cands : List Cand) :
    runPreCreateTransform internal fresh db cands = basePreCreateTransform internal fresh db cands := by
  unfold runPreCreateTransform
  have : runPreCreateTransformBase.isSome = true := by decide
  cases h : runPreCreateTransformBase with
  | none => rw [h] at this; simp at this
  | some _ => rfl

end Kanidm.BaseProtect
