import KanidmModel.BaseProtect
/-
Helper lemmas for C20 (`KanidmProofs/C20.lean`).
-/
namespace Kanidm.BaseProtect
open Kanidm.Filter
open Kanidm.Access.Write
open Kanidm.Gen.Access
open Kanidm.Gen.BaseProtect

/-! ### value sets under `apply_modlist` -/

/-- the modification mutates the value set of attribute `a` -/
def touches (a : Nat) (m : Mod) : Bool := applyMutates (modKind m) && modAttr m == a

theorem stepAva_noop {a : Nat} {cur : Option (List Nat)} {m : Mod} (h : touches a m = false) :
    stepAva a cur m = cur := by
  unfold stepAva
  unfold touches at h
  simp [h]

theorem applyAva_noop {a : Nat} (ml : List Mod) (cur : Option (List Nat))
    (h : ∀ m ∈ ml, touches a m = false) : applyAva a cur ml = cur := by
  induction ml generalizing cur with
  | nil => rfl
  | cons m rest ih =>
    simp only [applyAva]
    rw [stepAva_noop (h m (by simp))]
    exact ih cur (fun m' hm' => h m' (by simp [hm']))

theorem modKind_lt (m : Mod) : modKind m < 5 := by
  cases m <;> simp [modKind]

/-- every variant `apply_modlist` mutates with is inspected by `Base::pre_modify` -/
theorem mutates_checked_modify : ∀ k, k < 5 → applyMutates k = true → preModifyChecks k = true := by
  decide

theorem mutates_checked_batch : ∀ k, k < 5 → applyMutates k = true → preBatchModifyChecks k = true := by
  decide

theorem preModifyAttr_is_uuid : preModifyAttr = A.Uuid := by decide
theorem preBatchModifyAttr_is_uuid : preBatchModifyAttr = A.Uuid := by decide

theorem touches_rejected_modify {m : Mod} (h : touches A.Uuid m = true) : preModifyRejects m = true := by
  unfold touches at h
  unfold preModifyRejects
  simp only [Bool.and_eq_true] at h ⊢
  exact ⟨mutates_checked_modify _ (modKind_lt m) h.1, by rw [preModifyAttr_is_uuid]; exact h.2⟩

theorem touches_rejected_batch {m : Mod} (h : touches A.Uuid m = true) :
    preBatchModifyRejects m = true := by
  unfold touches at h
  unfold preBatchModifyRejects
  simp only [Bool.and_eq_true] at h ⊢
  exact ⟨mutates_checked_batch _ (modKind_lt m) h.1, by rw [preBatchModifyAttr_is_uuid]; exact h.2⟩

theorem runPreModify_eq (ml : List Mod) : runPreModify ml = basePreModify ml := by
  unfold runPreModify
  have : runPreModifyBase.isSome = true := by decide
  cases h : runPreModifyBase with
  | none => rw [h] at this; simp at this
  | some _ => rfl

theorem runPreBatchModify_eq (ms : List (List Mod)) : runPreBatchModify ms = basePreBatchModify ms := by
  unfold runPreBatchModify
  have : runPreBatchModifyBase.isSome = true := by decide
  cases h : runPreBatchModifyBase with
  | none => rw [h] at this; simp at this
  | some _ => rfl

theorem runPreModify_of_touch {ml : List Mod} (h : ∃ m ∈ ml, touches A.Uuid m = true) :
    runPreModify ml = true := by
  rw [runPreModify_eq]
  obtain ⟨m, hm, ht⟩ := h
  exact List.any_eq_true.mpr ⟨m, hm, touches_rejected_modify ht⟩

theorem runPreBatchModify_of_touch {ms : List (List Mod)}
    (h : ∃ ml ∈ ms, ∃ m ∈ ml, touches A.Uuid m = true) : runPreBatchModify ms = true := by
  rw [runPreBatchModify_eq]
  obtain ⟨ml, hml, m, hm, ht⟩ := h
  exact List.any_eq_true.mpr ⟨ml, hml, List.any_eq_true.mpr ⟨m, hm, touches_rejected_batch ht⟩⟩

/-- If the modlist passed `modifyStage`, nothing in it mutates the `uuid` value set. -/
theorem modifyStage_proceed_no_touch {id : Ident} {acps : List AcpModify} {ag : List (Nat × List Nat)}
    {cands : List Ent} {ml : List Mod} (h : modifyStage id acps ag cands ml = .proceed) :
    ∀ m ∈ ml, touches A.Uuid m = false := by
  intro m hm
  cases ht : touches A.Uuid m with
  | false => rfl
  | true =>
    have hr : runPreModify ml = true := runPreModify_of_touch ⟨m, hm, ht⟩
    unfold modifyStage at h
    rw [hr] at h
    repeat' split at h
    all_goals first | exact absurd h (by decide) | skip
    all_goals simp_all

theorem batchStage_proceed_no_touch {id : Ident} {acps : List AcpModify} {ag : List (Nat × List Nat)}
    {n : Nat} {pairs : List (Ent × Option (List Mod))} (h : batchStage id acps ag n pairs = .proceed) :
    ∀ p ∈ pairs, ∀ m ∈ p.2.getD [], touches A.Uuid m = false := by
  intro p hp m hm
  cases ht : touches A.Uuid m with
  | false => rfl
  | true =>
    have hr : runPreBatchModify (pairs.map (fun p => p.2.getD [])) = true :=
      runPreBatchModify_of_touch ⟨p.2.getD [], List.mem_map.mpr ⟨p, hp, rfl⟩, m, hm, ht⟩
    unfold batchStage at h
    rw [hr] at h
    repeat' split at h
    all_goals first | exact absurd h (by decide) | skip
    all_goals simp_all

end Kanidm.BaseProtect
