import KanidmModel.BaseProtect
/-
Helper lemmas for C20 (`KanidmProofs/C20.lean`).
-/
namespace Kanidm.BaseProtect
open Kanidm.Filter
open Kanidm.Access.Write
open Kanidm.Gen.Access
open Kanidm.Gen.BaseProtect

/-! ### value sets under `apply_modlist` -/

/-- the modification mutates the value set of attribute `a` -/
def touches (a : Nat) (m : Mod) : Bool := applyMutates (modKind m) && modAttr m == a

theorem stepAva_noop {a : Nat} {cur : Option (List Nat)} {m : Mod} (h : touches a m = false) :
    stepAva a cur m = cur := by
  unfold stepAva
  unfold touches at h
  simp [h]

theorem applyAva_noop {a : Nat} (ml : List Mod) (cur : Option (List Nat))
    (h : ∀ m ∈ ml, touches a m = false) : applyAva a cur ml = cur := by
  induction ml generalizing cur with
  | nil => rfl
  | cons m rest ih =>
    simp only [applyAva]
    rw [stepAva_noop (h m (by simp))]
    exact ih cur (fun m' hm' => h m' (by simp [hm']))

theorem modKind_lt (m : Mod) : modKind m < 5 := by
  cases m <;> simp [modKind]

/-- every variant `apply_modlist` mutates with is inspected by `Base::pre_modify` -/
theorem mutates_checked_modify : ∀ k, k < 5 → applyMutates k = true → preModifyChecks k = true := by
  decide

theorem mutates_checked_batch : ∀ k, k < 5 → applyMutates k = true → preBatchModifyChecks k = true := by
  decide

theorem preModifyAttr_is_uuid : preModifyAttr = A.Uuid := by decide
theorem preBatchModifyAttr_is_uuid : preBatchModifyAttr = A.Uuid := by decide

theorem touches_rejected_modify {m : Mod} (h : touches A.Uuid m = true) : preModifyRejects m = true := by
  unfold touches at h
  unfold preModifyRejects
  simp only [Bool.and_eq_true] at h ⊢
  exact ⟨mutates_checked_modify _ (modKind_lt m) h.1, by rw [preModifyAttr_is_uuid]; exact h.2⟩

theorem touches_rejected_batch {m : Mod} (h : touches A.Uuid m = true) :
    preBatchModifyRejects m = true := by
  unfold touches at h
  unfold preBatchModifyRejects
  simp only [Bool.and_eq_true] at h ⊢
  exact ⟨mutates_checked_batch _ (modKind_lt m) h.1, by rw [preBatchModifyAttr_is_uuid]; exact h.2⟩

theorem runPreModify_eq (ml : List Mod) : runPreModify ml = basePreModify ml := by
  unfold runPreModify
  have : runPreModifyBase.isSome = true := by decide
  cases h : runPreModifyBase with
  | none => rw [h] at this; simp at this
  | some _ => rfl

theorem runPreBatchModify_eq (ms : List (List Mod)) : runPreBatchModify ms = basePreBatchModify ms := by
  unfold runPreBatchModify
  have : runPreBatchModifyBase.isSome = true := by decide
  cases h : runPreBatchModifyBase with
  | none => rw [h] at this; simp at this
  | some _ => rfl

theorem runPreModify_of_touch {ml : List Mod} (h : ∃ m ∈ ml, touches A.Uuid m = true) :
    runPreModify ml = true := by
  rw [runPreModify_eq]
  obtain ⟨m, hm, ht⟩ := h
  exact List.any_eq_true.mpr ⟨m, hm, touches_rejected_modify ht⟩

theorem runPreBatchModify_of_touch {ms : List (List Mod)}
    (h : ∃ ml ∈ ms, ∃ m ∈ ml, touches A.Uuid m = true) : runPreBatchModify ms = true := by
  rw [runPreBatchModify_eq]
  obtain ⟨ml, hml, m, hm, ht⟩ := h
  exact List.any_eq_true.mpr ⟨ml, hml, List.any_eq_true.mpr ⟨m, hm, touches_rejected_batch ht⟩⟩

/-- If the modlist passed `modifyStage`, nothing in it mutates the `uuid` value set. -/
theorem modifyStage_proceed_no_touch {id : Ident} {acps : List AcpModify} {ag : List (Nat × List Nat)}
    {cands : List Ent} {ml : List Mod} (h : modifyStage id acps ag cands ml = .proceed) :
    ∀ m ∈ ml, touches A.Uuid m = false := by
  intro m hm
  cases ht : touches A.Uuid m with
  | false => rfl
  | true =>
    have hr : runPreModify ml = true := runPreModify_of_touch ⟨m, hm, ht⟩
    unfold modifyStage at h
    rw [hr] at h
    repeat' split at h
    all_goals first | exact absurd h (by decide) | skip
    all_goals simp_all

theorem batchStage_proceed_no_touch {id : Ident} {acps : List AcpModify} {ag : List (Nat × List Nat)}
    {n : Nat} {pairs : List (Ent × Option (List Mod))} (h : batchStage id acps ag n pairs = .proceed) :
    ∀ p ∈ pairs, ∀ m ∈ p.2.getD [], touches A.Uuid m = false := by
  intro p hp m hm
  cases ht : touches A.Uuid m with
  | false => rfl
  | true =>
    have hr : runPreBatchModify (pairs.map (fun p => p.2.getD [])) = true :=
      runPreBatchModify_of_touch ⟨p.2.getD [], List.mem_map.mpr ⟨p, hp, rfl⟩, m, hm, ht⟩
    unfold batchStage at h
    rw [hr] at h
    repeat' split at h
    all_goals first | exact absurd h (by decide) | skip
    all_goals simp_all

/-! ### `Base::pre_create_transform` -/

theorem validateUuid_some {l : Option (List Nat)} {u : Nat} (h : validateUuid l = some u) :
    l = some [u] := by
  unfold validateUuid at h
  split at h
  · simp_all
  · simp at h

/-- first loop succeeded: every uuid a request names is the uuid of a candidate of the second loop -/
theorem assignUuids_ok_mem (fresh : Nat → Nat) :
    ∀ (cands : List Cand) (k : Nat) (l : List (Nat × List Nat)),
      assignUuids fresh k cands = .ok l →
      ∀ c ∈ cands, ∀ us, c.uuids = some us → ∀ u ∈ us, ∃ cls, (u, cls) ∈ l := by
  intro cands
  induction cands with
  | nil => intro k l _ c hc; simp at hc
  | cons c0 rest ih =>
    intro k l h c hc us hus u hu
    unfold assignUuids at h
    simp only at h
    split at h
    · -- no uuid: fresh
      rename_i hnone
      split at h
      · rename_i l' hrest
        simp only [Except.ok.injEq] at h
        subst h
        rcases List.mem_cons.mp hc with rfl | hc'
        · rw [hnone] at hus; simp at hus
        · obtain ⟨cls, hm⟩ := ih (k + 1) l' hrest c hc' us hus u hu
          exact ⟨cls, List.mem_cons_of_mem _ hm⟩
      · simp at h
    · rename_i l0 hsome
      split at h
      · simp at h
      · split at h
        · simp at h
        · rename_i u0 hval
          split at h
          · rename_i r hrest
            simp only [Except.ok.injEq] at h
            subst h
            have hl0 := validateUuid_some hval
            rcases List.mem_cons.mp hc with rfl | hc'
            · rw [hsome] at hus
              have : us = [u0] := by
                have := Option.some.inj hus
                have h2 := Option.some.inj hl0
                rw [← this, h2]
              subst this
              have : u = u0 := by simpa using hu
              subst this
              exact ⟨_, List.mem_cons_self⟩
            · obtain ⟨cls, hm⟩ := ih k r hrest c hc' us hus u hu
              exact ⟨cls, List.mem_cons_of_mem _ hm⟩
          · simp at h

/-- every candidate of the second loop is a request's uuid or a fresh one -/
theorem assignUuids_ok_origin (fresh : Nat → Nat) :
    ∀ (cands : List Cand) (k : Nat) (l : List (Nat × List Nat)),
      assignUuids fresh k cands = .ok l →
      ∀ p ∈ l, (∃ j, p.1 = fresh j) ∨ (∃ c ∈ cands, c.uuids = some [p.1]) := by
  intro cands
  induction cands with
  | nil =>
    intro k l h p hp
    unfold assignUuids at h
    simp only [Except.ok.injEq] at h
    subst h; simp at hp
  | cons c0 rest ih =>
    intro k l h p hp
    unfold assignUuids at h
    simp only at h
    split at h
    · split at h
      · rename_i l' hrest
        simp only [Except.ok.injEq] at h
        subst h
        rcases List.mem_cons.mp hp with rfl | hp'
        · exact Or.inl ⟨k, rfl⟩
        · rcases ih (k + 1) l' hrest p hp' with hj | ⟨c, hc, hcu⟩
          · exact Or.inl hj
          · exact Or.inr ⟨c, List.mem_cons_of_mem _ hc, hcu⟩
      · simp at h
    · rename_i l0 hsome
      split at h
      · simp at h
      · split at h
        · simp at h
        · rename_i u0 hval
          split at h
          · rename_i r hrest
            simp only [Except.ok.injEq] at h
            subst h
            have hl0 := validateUuid_some hval
            rcases List.mem_cons.mp hp with rfl | hp'
            · refine Or.inr ⟨c0, List.mem_cons_self, ?_⟩
              rw [hsome]; exact hl0
            · rcases ih k r hrest p hp' with hj | ⟨c, hc, hcu⟩
              · exact Or.inl hj
              · exact Or.inr ⟨c, List.mem_cons_of_mem _ hc, hcu⟩
          · simp at h

theorem createRangeCmp_iff (u : Nat) :
    createRangeCmp u dynamicRangeMinimum = true ↔ u < dynamicRangeMinimum := by
  simp [createRangeCmp]

/-- second loop, non-internal identity: the flag is sticky and set by every uuid in the range;
the uuids are passed on unchanged -/
theorem rangeLoop_user :
    ∀ (l : List (Nat × List Nat)) (seen : List Nat) (flag : Bool)
      (l' : List (Nat × List Nat)) (s : List Nat) (f : Bool),
      rangeLoop false l seen flag = .ok (l', s, f) →
      l'.map (·.1) = l.map (·.1) ∧
      (f = true ↔ (flag = true ∨ ∃ p ∈ l, p.1 < dynamicRangeMinimum)) := by
  intro l
  induction l with
  | nil =>
    intro seen flag l' s f h
    unfold rangeLoop at h
    simp only [Except.ok.injEq, Prod.mk.injEq] at h
    obtain ⟨rfl, rfl, rfl⟩ := h
    simp
  | cons p rest ih =>
    intro seen flag l' s f h
    obtain ⟨u, cls⟩ := p
    unfold rangeLoop at h
    simp only at h
    split at h
    · simp at h
    · split at h
      · rename_i l2 s2 f2 hrest
        simp only [Except.ok.injEq, Prod.mk.injEq] at h
        obtain ⟨rfl, rfl, rfl⟩ := h
        obtain ⟨hmap, hflag⟩ := ih _ _ _ _ _ hrest
        refine ⟨by simp [hmap], ?_⟩
        rw [hflag]
        have hset : createRangeFlagSet = true := by decide
        by_cases hu : u < dynamicRangeMinimum
        · have : createRangeCmp u dynamicRangeMinimum = true := (createRangeCmp_iff u).mpr hu
          simp [this, hset, hu]
        · have : createRangeCmp u dynamicRangeMinimum = false := by
            cases hc : createRangeCmp u dynamicRangeMinimum with
            | false => rfl
            | true => exact absurd ((createRangeCmp_iff u).mp hc) hu
          simp [this, hu]
      · simp at h

theorem zero_mem_postLoopChecks : 0 ∈ createPostLoopChecks := by decide

theorem postLoopChecks_flag (seen db : List Nat) :
    ∀ checks : List Nat, 0 ∈ checks → postLoopChecks seen db true checks ≠ none := by
  intro checks
  induction checks with
  | nil => intro h; simp at h
  | cons c rest ih =>
    intro h
    unfold postLoopChecks
    by_cases hc : c = 0
    · subst hc; simp
    · have hr : 0 ∈ rest := by
        rcases List.mem_cons.mp h with h0 | h0
        · exact absurd h0.symm hc
        · exact h0
      simp only
      split
      · simp
      · exact ih hr

/-- `Base::pre_create_transform` for a non-internal identity: accepted ⇒ no uuid of the request is
below `DYNAMIC_RANGE_MINIMUM_UUID`, and every resulting uuid is one of the request or a fresh one
— and all of them are at or above the minimum. -/
theorem base_ok_user {fresh : Nat → Nat} {db : List Nat} {cands : List Cand}
    {l : List (Nat × List Nat)} (h : basePreCreateTransform false fresh db cands = .ok l) :
    (∀ p ∈ l, dynamicRangeMinimum ≤ p.1) ∧
    (∀ c ∈ cands, ∀ us, c.uuids = some us → ∀ u ∈ us, dynamicRangeMinimum ≤ u) := by
  unfold basePreCreateTransform at h
  split at h
  · simp at h
  · rename_i l1 h1
    split at h
    · simp at h
    · rename_i l2 seen flag h2
      split at h
      · simp at h
      · rename_i h3
        simp only [Except.ok.injEq] at h
        subst h
        obtain ⟨hmap, hflag⟩ := rangeLoop_user _ _ _ _ _ _ h2
        have hf : flag = false := by
          cases hfl : flag with
          | false => rfl
          | true =>
            rw [hfl] at h3
            exact absurd h3 (postLoopChecks_flag seen db _ zero_mem_postLoopChecks)
        have hall : ∀ p ∈ l1, dynamicRangeMinimum ≤ p.1 := by
          intro p hp
          cases Nat.lt_or_ge p.1 dynamicRangeMinimum with
          | inl hlt =>
            have : flag = true := hflag.mpr (Or.inr ⟨p, hp, hlt⟩)
            rw [hf] at this; simp at this
          | inr hge => exact hge
        constructor
        · intro p hp
          have : p.1 ∈ l2.map (·.1) := List.mem_map.mpr ⟨p, hp, rfl⟩
          rw [hmap] at this
          obtain ⟨q, hq, hqe⟩ := List.mem_map.mp this
          rw [← hqe]; exact hall q hq
        · intro c hc us hus u hu
          obtain ⟨cls, hm⟩ := assignUuids_ok_mem fresh cands 0 l1 h1 c hc us hus u hu
          exact hall (u, cls) hm

theorem runPreCreateTransform_eq (internal : Bool) (fresh : Nat → Nat) (db : List Nat)
    (cands : List Cand) :
    runPreCreateTransform internal fresh db cands = basePreCreateTransform internal fresh db cands := by
  unfold runPreCreateTransform
  have : runPreCreateTransformBase.isSome = true := by decide
  cases h : runPreCreateTransformBase with
  | none => rw [h] at this; simp at this
  | some _ => rfl

/-! ### lists with positions -/

theorem updateFrom_getElem? (f : Nat → Ent → Ent) :
    ∀ (l : List Ent) (k i : Nat), (updateFrom f k l)[i]? = (l[i]?).map (f (k + i)) := by
  intro l
  induction l with
  | nil => intro k i; simp [updateFrom]
  | cons e es ih =>
    intro k i
    cases i with
    | zero => simp [updateFrom]
    | succ j =>
      simp only [updateFrom, List.getElem?_cons_succ]
      rw [ih (k + 1) j]
      have : k + 1 + j = k + (j + 1) := by omega
      rw [this]

theorem updateFrom_length (f : Nat → Ent → Ent) :
    ∀ (l : List Ent) (k : Nat), (updateFrom f k l).length = l.length := by
  intro l
  induction l with
  | nil => intro k; simp [updateFrom]
  | cons e es ih => intro k; simp [updateFrom, ih]

theorem mem_selectFrom (sel : Nat → Bool) :
    ∀ (l : List Ent) (k i : Nat) (e : Ent), l[i]? = some e → sel (k + i) = true →
      e ∈ selectFrom sel k l := by
  intro l
  induction l with
  | nil => intro k i e h; simp at h
  | cons e0 es ih =>
    intro k i e h hs
    cases i with
    | zero =>
      simp only [List.getElem?_cons_zero, Option.some.injEq] at h
      subst h
      simp only [Nat.add_zero] at hs
      simp [selectFrom, hs]
    | succ j =>
      simp only [List.getElem?_cons_succ] at h
      have hs' : sel (k + 1 + j) = true := by
        have : k + 1 + j = k + (j + 1) := by omega
        rw [this]; exact hs
      have := ih (k + 1) j e h hs'
      unfold selectFrom
      split
      · exact List.mem_cons_of_mem _ this
      · exact this

theorem newFrom_getElem? (h : Havoc) :
    ∀ (es : List (Nat × List Nat)) (k i : Nat) (e : Ent), (newFrom h k es)[i]? = some e →
      ∃ p ∈ es, e.uuid = p.1 := by
  intro es
  induction es with
  | nil => intro k i e hh; simp [newFrom] at hh
  | cons p rest ih =>
    intro k i e hh
    obtain ⟨u, cls⟩ := p
    cases i with
    | zero =>
      simp only [newFrom, List.getElem?_cons_zero, Option.some.injEq] at hh
      subst hh
      exact ⟨(u, cls), List.mem_cons_self, rfl⟩
    | succ j =>
      simp only [newFrom, List.getElem?_cons_succ] at hh
      obtain ⟨q, hq, hqe⟩ := ih (k + 1) j e hh
      exact ⟨q, List.mem_cons_of_mem _ hq, hqe⟩

theorem getElem?_append_some {l r : List Ent} {i : Nat} {e : Ent} (h : l[i]? = some e) :
    (l ++ r)[i]? = some e := by
  have hi : i < l.length := by
    cases Nat.lt_or_ge i l.length with
    | inl h' => exact h'
    | inr h' => rw [List.getElem?_eq_none h'] at h; simp at h
  rw [List.getElem?_append_left hi]; exact h

/-! ### one request -/

theorem modified_uuid {h : Havoc} {i : Nat} {e : Ent} {ml : List Mod}
    (hno : ∀ m ∈ ml, touches A.Uuid m = false) : (modified h i e ml).uuid = e.uuid := by
  unfold modified
  simp only
  rw [applyAva_noop ml _ hno]
  simp [validateUuid]

/-- The uuid stored at a position never changes, whoever asks, whatever the profiles. -/
theorem step_uuid_preserved (id : Ident) (h : Havoc) (st : State) (r : Req) (i : Nat) (e : Ent)
    (he : st[i]? = some e) : ∃ e', (step id h st r)[i]? = some e' ∧ e'.uuid = e.uuid := by
  cases r with
  | create acps fresh reqs =>
    simp only [step]
    split
    · split
      · exact ⟨e, getElem?_append_some he, rfl⟩
      · exact ⟨e, he, rfl⟩
    · exact ⟨e, he, rfl⟩
  | modify acps ag sel ml =>
    simp only [step]
    split
    · rename_i hst
      split
      · rw [updateFrom_getElem?, he]
        simp only [Option.map_some, Nat.zero_add]
        refine ⟨_, rfl, ?_⟩
        split
        · exact modified_uuid (modifyStage_proceed_no_touch hst)
        · rfl
      · exact ⟨e, he, rfl⟩
    · exact ⟨e, he, rfl⟩
  | batch acps ag sel modset =>
    simp only [step]
    split
    · rename_i hst
      split
      · rw [updateFrom_getElem?, he]
        simp only [Option.map_some, Nat.zero_add]
        refine ⟨_, rfl, ?_⟩
        split
        · rename_i hb
          have hmem : e ∈ selectFrom (batchSel sel modset st) 0 st :=
            mem_selectFrom _ st 0 i e he (by simpa using hb)
          have hp : (e, modset.lookup e.uuid) ∈
              (selectFrom (batchSel sel modset st) 0 st).map (fun e => (e, modset.lookup e.uuid)) :=
            List.mem_map.mpr ⟨e, hmem, rfl⟩
          exact modified_uuid (batchStage_proceed_no_touch hst _ hp)
        · rfl
      · exact ⟨e, he, rfl⟩
    · exact ⟨e, he, rfl⟩
  | delete acps sel =>
    simp only [step]
    split
    · split
      · rw [updateFrom_getElem?, he]
        simp only [Option.map_some, Nat.zero_add]
        refine ⟨_, rfl, ?_⟩
        split <;> rfl
      · exact ⟨e, he, rfl⟩
    · exact ⟨e, he, rfl⟩

theorem step_length_le (id : Ident) (h : Havoc) (st : State) (r : Req) :
    st.length ≤ (step id h st r).length := by
  cases r <;> simp only [step] <;> repeat' split
  all_goals first | exact Nat.le_refl _ | simp [updateFrom_length]

/-- the fresh uuids of a create request are version-4 style: at or above the dynamic minimum -/
def Req.freshOk : Req → Prop
  | .create _ fresh _ => ∀ k, dynamicRangeMinimum ≤ fresh k
  | _ => True

/-- What a position holds after a request of a non-internal identity: what it held before (same
uuid), or a new entry whose uuid is at or above `DYNAMIC_RANGE_MINIMUM_UUID`. -/
theorem step_origin (id : Ident) (hid : id.isInternal = false) (h : Havoc) (st : State) (r : Req)
    (hf : r.freshOk) (i : Nat) (e' : Ent) (he' : (step id h st r)[i]? = some e') :
    (∃ e, st[i]? = some e ∧ e.uuid = e'.uuid) ∨ (st.length ≤ i ∧ dynamicRangeMinimum ≤ e'.uuid) := by
  cases Nat.lt_or_ge i st.length with
  | inl hi =>
    left
    have hsome : st[i]? = some st[i] := List.getElem?_eq_getElem hi
    obtain ⟨e2, h2, h2u⟩ := step_uuid_preserved id h st r i st[i] hsome
    rw [h2] at he'
    have : e2 = e' := Option.some.inj he'
    subst this
    exact ⟨st[i], hsome, h2u.symm⟩
  | inr hi =>
    right
    refine ⟨hi, ?_⟩
    cases r with
    | create acps fresh reqs =>
      simp only [step] at he'
      split at he'
      · rename_i es hst
        split at he'
        · rw [List.getElem?_append_right hi] at he'
          obtain ⟨p, hp, hpe⟩ := newFrom_getElem? h es _ _ e' he'
          rw [hpe]
          unfold createStage at hst
          split at hst
          · simp at hst
          · split at hst
            · rename_i es' hrun
              simp only [CreateOut.proceed.injEq] at hst
              subst hst
              rw [runPreCreateTransform_eq, hid] at hrun
              exact (base_ok_user hrun).1 p hp
            · simp at hst
          · simp at hst
        · rw [List.getElem?_eq_none hi] at he'; simp at he'
      · rw [List.getElem?_eq_none hi] at he'; simp at he'
    | modify acps ag sel ml =>
      have hl : (step id h st (.modify acps ag sel ml)).length = st.length := by
        simp only [step]; repeat' split
        all_goals first | rfl | simp [updateFrom_length]
      rw [List.getElem?_eq_none (by rw [hl]; exact hi)] at he'; simp at he'
    | batch acps ag sel modset =>
      have hl : (step id h st (.batch acps ag sel modset)).length = st.length := by
        simp only [step]; repeat' split
        all_goals first | rfl | simp [updateFrom_length]
      rw [List.getElem?_eq_none (by rw [hl]; exact hi)] at he'; simp at he'
    | delete acps sel =>
      have hl : (step id h st (.delete acps sel)).length = st.length := by
        simp only [step]; repeat' split
        all_goals first | rfl | simp [updateFrom_length]
      rw [List.getElem?_eq_none (by rw [hl]; exact hi)] at he'; simp at he'

/-! ### delete -/

theorem deleteAnonCmp_iff (u : Nat) :
    deleteAnonCmp u Kanidm.Gen.Access.uuidAnonymous = true ↔ u ≤ Kanidm.Gen.Access.uuidAnonymous := by
  simp [deleteAnonCmp]

/-- The protected gate of delete denies every entry in the system range for every identity but
the internal system role, and that denial is final whatever the profiles grant. -/
theorem applyDeleteAccess_builtin (id : Ident) (hns : id.origin ≠ .internal .system)
    (rel : List (Resolved AcpDelete)) (e : Ent) (hu : e.uuid ≤ Kanidm.Gen.Access.uuidAnonymous) :
    applyDeleteAccess id rel e = false := by
  have hp : deleteProtectedFilterEntry id e = .deny := by
    unfold deleteProtectedFilterEntry
    have hc := (deleteAnonCmp_iff e.uuid).mpr hu
    split
    · rename_i ho; exact absurd ho hns
    · rfl
    · rfl
    · rfl
    · simp [hc]
    · simp [hc]
  unfold applyDeleteAccess
  simp [hp]

theorem deleteOp_builtin (id : Ident) (hns : id.origin ≠ .internal .system)
    (acps : List AcpDelete) (cands : List Ent)
    (h : ∃ e ∈ cands, e.uuid ≤ Kanidm.Gen.Access.uuidAnonymous) :
    deleteOp id acps cands = .accessDenied := by
  obtain ⟨e, he, hu⟩ := h
  unfold deleteOp
  have : deleteAllowOperation id acps cands = false := by
    unfold deleteAllowOperation
    simp only
    apply Bool.eq_false_iff.mpr
    intro hall
    have := List.all_eq_true.mp hall e he
    rw [applyDeleteAccess_builtin id hns _ e hu] at this
    simp at this
  simp [this]

theorem anon_succ_eq_dynMin : Kanidm.Gen.Access.uuidAnonymous + 1 = dynamicRangeMinimum := by decide

theorem maskChanged_false {h : Havoc} {i : Nat} {e : Ent} {ml : List Mod}
    (hm : maskChanged e ml = false) :
    maskedTs (modified h i e ml).classes = maskedTs e.classes := by
  unfold maskChanged at hm
  simp only [modified]
  have : maskedTs e.classes = maskedTs (applyClassMods e.classes ml) := by simpa using hm
  exact this.symm

/-- lifecycle of a system-range entry survives any request of a non-system identity -/
theorem step_builtin (id : Ident) (hns : id.origin ≠ .internal .system) (h : Havoc) (st : State)
    (r : Req) (i : Nat) (e : Ent) (he : st[i]? = some e) (hu : e.uuid < dynamicRangeMinimum) :
    ∃ e', (step id h st r)[i]? = some e' ∧ e'.uuid = e.uuid ∧
      maskedTs e'.classes = maskedTs e.classes := by
  have hanon : e.uuid ≤ Kanidm.Gen.Access.uuidAnonymous := by
    have := anon_succ_eq_dynMin; omega
  cases r with
  | create acps fresh reqs =>
    simp only [step]
    split
    · split
      · exact ⟨e, getElem?_append_some he, rfl, rfl⟩
      · exact ⟨e, he, rfl, rfl⟩
    · exact ⟨e, he, rfl, rfl⟩
  | modify acps ag sel ml =>
    simp only [step]
    split
    · rename_i hst
      split
      · rw [updateFrom_getElem?, he]
        simp only [Option.map_some, Nat.zero_add]
        refine ⟨_, rfl, ?_⟩
        split
        · rename_i hs
          refine ⟨modified_uuid (modifyStage_proceed_no_touch hst), ?_⟩
          have hmem : e ∈ selectFrom sel 0 st := mem_selectFrom _ st 0 i e he (by simpa using hs)
          -- the lifecycle guard of modify_pre_apply
          have hmask : maskChanged e ml = false := by
            unfold modifyStage at hst
            repeat' split at hst
            all_goals first | exact absurd hst (by decide) | skip
            rename_i hmk _
            cases hm : maskChanged e ml with
            | false => rfl
            | true => exact absurd (List.any_eq_true.mpr ⟨e, hmem, hm⟩) hmk
          exact (maskChanged_false hmask)
        · exact ⟨rfl, rfl⟩
      · exact ⟨e, he, rfl, rfl⟩
    · exact ⟨e, he, rfl, rfl⟩
  | batch acps ag sel modset =>
    simp only [step]
    split
    · rename_i hst
      split
      · rw [updateFrom_getElem?, he]
        simp only [Option.map_some, Nat.zero_add]
        refine ⟨_, rfl, ?_⟩
        split
        · rename_i hb
          have hmem : e ∈ selectFrom (batchSel sel modset st) 0 st :=
            mem_selectFrom _ st 0 i e he (by simpa using hb)
          have hp : (e, modset.lookup e.uuid) ∈
              (selectFrom (batchSel sel modset st) 0 st).map (fun e => (e, modset.lookup e.uuid)) :=
            List.mem_map.mpr ⟨e, hmem, rfl⟩
          refine ⟨modified_uuid (batchStage_proceed_no_touch hst _ hp), ?_⟩
          have hmask : maskChanged e ((modset.lookup e.uuid).getD []) = false := by
            unfold batchStage at hst
            repeat' split at hst
            all_goals first | exact absurd hst (by decide) | skip
            rename_i hmk _
            cases hm : maskChanged e ((modset.lookup e.uuid).getD []) with
            | false => rfl
            | true => exact absurd (List.any_eq_true.mpr ⟨_, hp, hm⟩) hmk
          exact (maskChanged_false hmask)
        · exact ⟨rfl, rfl⟩
      · exact ⟨e, he, rfl, rfl⟩
    · exact ⟨e, he, rfl, rfl⟩
  | delete acps sel =>
    simp only [step]
    split
    · rename_i hst
      split
      · rw [updateFrom_getElem?, he]
        simp only [Option.map_some, Nat.zero_add]
        refine ⟨_, rfl, ?_⟩
        split
        · rename_i hs
          have hmem : e ∈ selectFrom sel 0 st := mem_selectFrom _ st 0 i e he (by simpa using hs)
          have := deleteOp_builtin id hns acps _ ⟨e, hmem, hanon⟩
          unfold deleteStage at hst
          rw [this] at hst
          exact absurd hst (by decide)
        · exact ⟨rfl, rfl⟩
      · exact ⟨e, he, rfl, rfl⟩
    · exact ⟨e, he, rfl, rfl⟩

end Kanidm.BaseProtect
