import KanidmModel.PamAuth
/-!
Helper lemmas for C43 (`KanidmProofs/C43.lean`): the generated reply table never yields
`PAM_SUCCESS` except for the `Success` reply; handler interactions of a sane handler never yield
`PAM_SUCCESS`; the request / reply loop, by induction over the daemon script.
-/
namespace Kanidm.Pam
open Kanidm.Gen.Pam

/-! ## The generated tables -/

theorem stepAction_ret (k : StepKind) (c : PamCode) (h : stepAction k = .ret c) :
    c = .success ↔ k = .success := by
  cases k <;> simp [stepAction] at h <;> subst h <;> decide

theorem stepAction_retIf (k : StepKind) (a b : PamCode) (h : stepAction k = .retIf a b) :
    a ≠ .success ∧ b ≠ .success ∧ k ≠ .success := by
  cases k <;> simp [stepAction] at h <;> obtain ⟨rfl, rfl⟩ := h <;> decide

theorem stepAction_cont (k : StepKind) (i : Interact) (u : Bool) (q : ReqKind)
    (h : stepAction k = .cont i u q) : k ≠ .success := by
  cases k <;> simp [stepAction] at h <;> decide

theorem otherCode_ne_success (k : OtherKind) : otherCode k ≠ .success := by
  cases k <;> decide

theorem callErrCode_ne_success : callErrCode ≠ .success := by decide
theorem noneCode_ne_success : noneCode ≠ .success := by decide
theorem exhaustedCode_ne_success : exhaustedCode ≠ .success := by decide

/-! ## Handler interactions -/

def AllSane (ps : List PRes) : Prop := ∀ p ∈ ps, p.Sane

theorem AllSane.tail {p : PRes} {ps : List PRes} (h : AllSane (p :: ps)) : AllSane ps :=
  fun q hq => h q (List.mem_cons_of_mem _ hq)

theorem AllSane.head {c : PamCode} {ps : List PRes} (h : AllSane (.err c :: ps)) : c ≠ .success :=
  h (.err c) (List.mem_cons_self ..)

theorem allSane_nil : AllSane [] := fun _ hq => by cases hq

theorem inl_ne {α : Type} {c0 : PamCode} (h : c0 ≠ .success) :
    ∀ c, (Sum.inl c0 : PamCode ⊕ α) = Sum.inl c → c ≠ .success := by
  intro c hc
  cases hc
  exact h

theorem nextPrompt_sane (ps : List PRes) (h : AllSane ps) :
    AllSane (nextPrompt ps).2 ∧ ∀ c, (nextPrompt ps).1 = .err c → c ≠ .success := by
  cases ps with
  | nil =>
    refine ⟨allSane_nil, ?_⟩
    intro c hc
    simp only [nextPrompt, PRes.err.injEq] at hc
    subst hc
    exact exhaustedCode_ne_success
  | cons p ps =>
    refine ⟨h.tail, ?_⟩
    intro c hc
    simp only [nextPrompt] at hc
    subst hc
    exact h.head

theorem setupPinLoop_sane : ∀ (n : Nat) (ps : List PRes), ps.length ≤ n → AllSane ps →
    AllSane (setupPinLoop ps).2.2 ∧ ∀ c, (setupPinLoop ps).1 = .inl c → c ≠ .success := by
  intro n
  induction n with
  | zero =>
    intro ps hl _
    have : ps = [] := List.length_eq_zero_iff.mp (Nat.le_zero.mp hl)
    subst this
    unfold setupPinLoop
    exact ⟨allSane_nil, inl_ne exhaustedCode_ne_success⟩
  | succ n ih =>
    intro ps hl hs
    unfold setupPinLoop
    split
    · exact ⟨allSane_nil, inl_ne exhaustedCode_ne_success⟩
    · exact ⟨hs.tail, inl_ne hs.head⟩
    · exact ⟨hs.tail, inl_ne noneCode_ne_success⟩
    · exact ⟨allSane_nil, inl_ne exhaustedCode_ne_success⟩
    · exact ⟨hs.tail.tail, inl_ne hs.tail.head⟩
    · exact ⟨hs.tail.tail, inl_ne noneCode_ne_success⟩
    · rename_i pin confirm ps'
      by_cases heq : pin = confirm
      · simp only [heq, if_true]
        exact ⟨hs.tail.tail, fun c hc => by cases hc⟩
      · simp only [heq, if_false]
        split
        · exact ⟨allSane_nil, inl_ne exhaustedCode_ne_success⟩
        · rename_i e ps''
          exact ⟨hs.tail.tail.tail, inl_ne hs.tail.tail.head⟩
        · rename_i v ps''
          have hlen : ps''.length ≤ n := by
            simp only [List.length_cons] at hl
            omega
          exact ih ps'' hlen hs.tail.tail.tail
def IRes.Sane (r : IRes) : Prop := AllSane r.2.2.2 ∧ ∀ c, r.1 = .inl c → c ≠ .success

theorem askOne_sane (c : Call) (st : Option Nat) (ps : List PRes) (h : AllSane ps) :
    (askOne c st ps).Sane := by
  cases ps with
  | nil => exact ⟨allSane_nil, inl_ne exhaustedCode_ne_success⟩
  | cons p ps =>
    cases p with
    | err e => exact ⟨h.tail, inl_ne h.head⟩
    | ok v =>
      cases v with
      | none => exact ⟨h.tail, inl_ne noneCode_ne_success⟩
      | some v => exact ⟨h.tail, fun c' hc => by cases hc⟩

theorem showMsg_sane (c : Call) (st : Option Nat) (ps : List PRes) (h : AllSane ps) :
    (showMsg c st ps).Sane := by
  cases ps with
  | nil => exact ⟨allSane_nil, inl_ne exhaustedCode_ne_success⟩
  | cons p ps =>
    cases p with
    | err e => exact ⟨h.tail, inl_ne h.head⟩
    | ok v => exact ⟨h.tail, fun c' hc => by cases hc⟩

theorem askCred_sane (c : Call) (u : Bool) (st : Option Nat) (ps : List PRes) (h : AllSane ps) :
    (askCred c u st ps).Sane := by
  unfold askCred
  cases u with
  | false => exact askOne_sane c st ps h
  | true =>
    cases st with
    | none => exact askOne_sane c none ps h
    | some v => exact ⟨h, fun c' hc => by cases hc⟩

theorem askSetupPin_sane (st : Option Nat) (ps : List PRes) (h : AllSane ps) :
    (askSetupPin st ps).Sane := by
  have key : ∀ rest, AllSane rest →
      IRes.Sane (match setupPinLoop rest with
        | (.inl c, cs, rest') => ((.inl c, .message :: cs, st, rest') : IRes)
        | (.inr pin, cs, rest') => (.inr (some pin), .message :: cs, st, rest')) := by
    intro rest hr
    obtain ⟨h1, h2⟩ := setupPinLoop_sane rest.length rest (Nat.le_refl _) hr
    cases hl : setupPinLoop rest with
    | mk res p =>
      obtain ⟨cs, rest'⟩ := p
      rw [hl] at h1 h2
      cases res with
      | inl c => exact ⟨h1, inl_ne (h2 c rfl)⟩
      | inr pin => exact ⟨h1, fun c' hc => by cases hc⟩
  cases ps with
  | nil => exact ⟨allSane_nil, inl_ne exhaustedCode_ne_success⟩
  | cons p ps =>
    cases p with
    | err e => exact ⟨h.tail, inl_ne h.head⟩
    | ok v => exact key ps h.tail

theorem interact_sane (i : Interact) (u : Bool) (st : Option Nat) (ps : List PRes) (h : AllSane ps) :
    (interact i u st ps).Sane := by
  cases i with
  | none => exact ⟨h, fun c' hc => by cases hc⟩
  | message => exact showMsg_sane _ st ps h
  | deviceGrant => exact showMsg_sane _ st ps h
  | password => exact askCred_sane _ u st ps h
  | mfaCode => exact askCred_sane _ u st ps h
  | pin => exact askCred_sane _ u st ps h
  | setupPin => exact askSetupPin_sane st ps h

/-! ## The request / reply loop -/

/-- The last daemon event consumed is an explicit `Success` reply. -/
def EndsInSuccess (consumed : List DEvent) : Prop :=
  ∃ sid, consumed.getLast? = some (.reply (.step .success sid))

theorem endsInSuccess_single (ev : DEvent) :
    EndsInSuccess [ev] ↔ ∃ sid, ev = .reply (.step .success sid) := by
  simp [EndsInSuccess]

theorem endsInSuccess_cons (ev : DEvent) (l : List DEvent) (h : l ≠ []) :
    EndsInSuccess (ev :: l) ↔ EndsInSuccess l := by
  unfold EndsInSuccess
  rw [List.getLast?_cons_of_ne_nil h]

/-- The loop, for every script, stacked token, handler answers and pending request. -/
theorem connLoop_spec (opts : Opts) : ∀ (script : List DEvent) (stacked : Option Nat) (ps : List PRes)
    (req : Req), AllSane ps →
    (((connLoop opts script stacked ps req).code = .success ↔
        EndsInSuccess (connLoop opts script stacked ps req).consumed) ∧
     (connLoop opts script stacked ps req).consumed <+: script ∧
     ((connLoop opts script stacked ps req).consumed = [] → script = [])) := by
  intro script
  induction script with
  | nil =>
    intro stacked ps req _
    simp only [connLoop]
    refine ⟨⟨fun h => absurd h callErrCode_ne_success, fun ⟨_, h⟩ => by simp at h⟩, List.prefix_refl _, fun _ => trivial⟩
  | cons ev rest ih =>
    intro stacked ps req hs
    cases ev with
    | fail =>
      simp only [connLoop]
      refine ⟨⟨fun h => absurd h callErrCode_ne_success, fun ⟨_, h⟩ => by simp at h⟩, ?_, fun h => by simp at h⟩
      exact ⟨rest, rfl⟩
    | reply r =>
      have hpre : [DEvent.reply r] <+: DEvent.reply r :: rest := ⟨rest, rfl⟩
      cases r with
      | pamStatus o =>
        simp only [connLoop]
        exact ⟨⟨fun h => absurd h (otherCode_ne_success _), fun ⟨_, h⟩ => by simp at h⟩, hpre, fun h => by simp at h⟩
      | other k =>
        simp only [connLoop]
        exact ⟨⟨fun h => absurd h (otherCode_ne_success _), fun ⟨_, h⟩ => by simp at h⟩, hpre, fun h => by simp at h⟩
      | step k sid =>
        simp only [connLoop]
        cases hact : stepAction k with
        | ret c =>
          simp only
          refine ⟨?_, hpre, fun h => by simp at h⟩
          rw [endsInSuccess_single]
          constructor
          · intro hc
            have := (stepAction_ret k c hact).mp hc
            subst this
            exact ⟨sid, rfl⟩
          · rintro ⟨sid', he⟩
            simp only [DEvent.reply.injEq, Reply.step.injEq] at he
            exact (stepAction_ret k c hact).mpr he.1
        | retIf a b =>
          simp only
          obtain ⟨ha, hb, hk⟩ := stepAction_retIf k a b hact
          refine ⟨?_, hpre, fun h => by simp at h⟩
          rw [endsInSuccess_single]
          constructor
          · intro hc
            by_cases hi : opts.ignoreUnknownUser = true
            · simp [hi] at hc; exact absurd hc ha
            · simp [hi] at hc; exact absurd hc hb
          · rintro ⟨sid', he⟩
            simp only [DEvent.reply.injEq, Reply.step.injEq] at he
            exact absurd he.1 hk
        | cont i u q =>
          simp only
          have hk := stepAction_cont k i u q hact
          obtain ⟨hs', hne⟩ := interact_sane i u stacked ps hs
          cases hint : interact i u stacked ps with
          | mk res p =>
            obtain ⟨cs, stacked', ps'⟩ := p
            rw [hint] at hs' hne
            cases res with
            | inl c =>
              simp only
              refine ⟨?_, hpre, fun h => by simp at h⟩
              rw [endsInSuccess_single]
              constructor
              · intro hc; exact absurd hc (hne c rfl)
              · rintro ⟨sid', he⟩
                simp only [DEvent.reply.injEq, Reply.step.injEq] at he
                exact absurd he.1 hk
            | inr cred =>
              simp only
              obtain ⟨h1, h2, h3⟩ := ih stacked' ps' (.step q cred sid) hs'
              refine ⟨?_, ?_, fun h => by simp at h⟩
              · by_cases hemp : (connLoop opts rest stacked' ps' (.step q cred sid)).consumed = []
                · -- nothing more was consumed: the script ended, the call failed
                  have hrest := h3 hemp
                  subst hrest
                  simp only [connLoop]
                  rw [endsInSuccess_single]
                  constructor
                  · intro hc; exact absurd hc callErrCode_ne_success
                  · rintro ⟨sid', he⟩
                    simp only [DEvent.reply.injEq, Reply.step.injEq] at he
                    exact absurd he.1 hk
                · rw [endsInSuccess_cons _ _ hemp]
                  exact h1
              · obtain ⟨t, ht⟩ := h2
                refine ⟨t, ?_⟩
                rw [List.cons_append, ht]

end Kanidm.Pam
