import KanidmModel.Bearer
/-!
C32 — invariants of the write side over arbitrary histories (`run`/`step`), proved by induction:

* `LiveHist`: a session that is present and not revoked was put there by a `record` event after
  which no event killed it (revocation, deletion of the account, a credential change that drops
  the issuing credential, or a write to the account at or after the session's expiry).
* `ApiHist`: an api-token record that is present was put there by an `apiIssue` event after which
  it was neither destroyed nor its account deleted.
* revoked sessions, revoked keys and deleted accounts stay that way.
-/
namespace Kanidm.Bearer
open Kanidm.Gen.Bearer

/-! ### What an event does to one account -/

/-- The time at which `op` modifies the entry of account `a` (so that the consistency plugin runs
on it), if it does. -/
def Op.touchTime (a : Nat) : Op → Option Nat
  | .record a' _ _ _ t => if a' = a then some t else none
  | .revoke a' _ t => if a' = a then some t else none
  | .setCred a' _ t => if a' = a then some t else none
  | .setValid a' _ _ t => if a' = a then some t else none
  | .apiIssue a' _ _ _ t => if a' = a then some t else none
  | .apiDestroy a' _ t => if a' = a then some t else none
  | _ => none

/-- Does `op` end the life of session `s` of account `a` (issued with credential `c`, recorded
in state `st`)? -/
def kills (op : Op) (a s c : Nat) (st : SState) : Bool :=
  (match op with
   | .revoke a' s' _ => decide (a' = a ∧ s' = s)
   | .delete a' => decide (a' = a)
   | .setCred a' c' _ => decide (a' = a ∧ c' ≠ some c)
   | _ => false)
  || (match op.touchTime a, st with
      | some t, .expiresAt e => decide (e ≤ t)
      | _, _ => false)

/-- History (newest event first) in which session `(a, s)` with credential `c` and recorded state
`st` is live: some `record` event wrote it and nothing after that killed it. -/
inductive LiveHist : List Op → Nat → Nat → Nat → SState → Prop
  | recorded (h : List Op) (a s c : Nat) (e : Option Nat) (t : Nat) :
      LiveHist (.record a s c e t :: h) a s c (stateOf e)
  | kept (h : List Op) (op : Op) (a s c : Nat) (st : SState) :
      LiveHist h a s c st → kills op a s c st = false → LiveHist (op :: h) a s c st

/-- The readable form of `LiveHist`. -/
theorem LiveHist.decompose {h : List Op} {a s c : Nat} {st : SState} (hl : LiveHist h a s c st) :
    ∃ later earlier e t, h = later ++ .record a s c e t :: earlier ∧ st = stateOf e ∧
      ∀ op ∈ later, kills op a s c st = false := by
  induction hl with
  | recorded h a s c e t => exact ⟨[], h, e, t, rfl, rfl, by simp⟩
  | kept h op a s c st _ hk ih =>
    obtain ⟨later, earlier, e, t, rfl, hst, hall⟩ := ih
    refine ⟨op :: later, earlier, e, t, rfl, hst, ?_⟩
    intro o ho
    rcases List.mem_cons.mp ho with rfl | ho
    · exact hk
    · exact hall o ho

/-! ### The plugin -/

theorem sweep_live {cred : Option Nat} {t : Nat} {v : Session}
    (h : (sweepSession cred t v).state ≠ .revokedAt) :
    sweepSession cred t v = v ∧ cred = some v.cred ∧
      ∀ e, v.state = .expiresAt e → ¬ e ≤ t := by
  unfold sweepSession at h ⊢
  cases hs : v.state with
  | revokedAt => simp [hs] at h
  | neverExpires =>
    simp only [hs] at h ⊢
    by_cases hc : cred = some v.cred
    · simp [hc]
    · simp [hc, revokeSession] at h
  | expiresAt e =>
    simp only [hs] at h ⊢
    by_cases hc : cred = some v.cred
    · by_cases hx : sweepExpired e t = true
      · simp [hc, hx, revokeSession] at h
      · have : ¬ e ≤ t := by simpa [sweepExpired] using hx
        simp only [hc, hx, if_true, Bool.false_eq_true, if_false, true_and]
        intro e' he'; cases he'; exact this
    · simp [hc, revokeSession] at h

theorem sweep_revoked {cred : Option Nat} {t : Nat} {v : Session}
    (h : v.state = .revokedAt) : (sweepSession cred t v).state = .revokedAt := by
  unfold sweepSession; simp [h]

theorem touch_sessions (acc : Account) (t s : Nat) :
    (touch acc t).sessions s = (acc.sessions s).map (sweepSession acc.cred t) := rfl

theorem touch_api (acc : Account) (t : Nat) : (touch acc t).apiTokens = acc.apiTokens := rfl

theorem touch_cred (acc : Account) (t : Nat) : (touch acc t).cred = acc.cred := rfl

/-! ### Reading the world after a step -/

theorem setAccount_accounts (w : World) (a : Nat) (acc : Account) (k : Nat) :
    (setAccount w a acc).accounts k = if k = a then some acc else w.accounts k := rfl

theorem modifyAccount_same {w : World} {a t : Nat} {f : Account → Account} {acc : Account}
    (h : w.accounts a = some acc) :
    (modifyAccount w a t f).accounts a = some (touch (f acc) t) := by
  simp [modifyAccount, h, setAccount]

theorem modifyAccount_other {w : World} {a t : Nat} {f : Account → Account} {k : Nat}
    (h : k ≠ a) : (modifyAccount w a t f).accounts k = w.accounts k := by
  unfold modifyAccount
  cases w.accounts a <;> simp [setAccount, h]

theorem modifyAccount_none {w : World} {a t : Nat} {f : Account → Account}
    (h : w.accounts a = none) : modifyAccount w a t f = w := by
  simp [modifyAccount, h]

theorem modifyAccount_keys (w : World) (a t : Nat) (f : Account → Account) :
    (modifyAccount w a t f).keys = w.keys := by
  unfold modifyAccount; cases w.accounts a <;> rfl

theorem modifyAccount_ids (w : World) (a t : Nat) (f : Account → Account) :
    (modifyAccount w a t f).ids = w.ids := by
  unfold modifyAccount; cases w.accounts a <;> rfl

/-- The account `op` modifies through `modifyAccount`, with time and entry transformer. -/
def Op.asModify : Op → Option (Nat × Nat × (Account → Account))
  | .record a s c e t => some (a, t, fun acc => insertSession acc s ⟨stateOf e, c⟩)
  | .revoke a s t => some (a, t, fun acc => removeSession acc s)
  | .setCred a c t => some (a, t, fun acc => { acc with cred := c })
  | .setValid a vf ex t => some (a, t, fun acc => { acc with validFrom := vf, expire := ex })
  | .apiIssue a tid e iat t => some (a, t, fun acc => insertApi acc tid ⟨e, iat⟩)
  | .apiDestroy a tid t => some (a, t, fun acc => removeApi acc tid)
  | _ => none

theorem step_asModify {op : Op} {a t : Nat} {f : Account → Account}
    (h : op.asModify = some (a, t, f)) (w : World) : step w op = modifyAccount w a t f := by
  cases op <;> simp [Op.asModify] at h <;> obtain ⟨rfl, rfl, rfl⟩ := h <;> rfl

theorem touchTime_of_asModify {op : Op} {a t : Nat} {f : Account → Account}
    (h : op.asModify = some (a, t, f)) (k : Nat) :
    op.touchTime k = if a = k then some t else none := by
  cases op <;> simp [Op.asModify] at h <;> obtain ⟨rfl, rfl, rfl⟩ := h <;> rfl

/-! ### Sessions: every live session has a live history -/

/-- Every present, non-revoked session of the world has a live history. -/
def SessInv (w : World) (h : List Op) : Prop :=
  ∀ a acc s v, w.accounts a = some acc → acc.sessions s = some v → v.state ≠ .revokedAt →
    LiveHist h a s v.cred v.state

theorem kills_other_account {op : Op} {a t : Nat} {f : Account → Account}
    (hm : op.asModify = some (a, t, f)) {k : Nat} (hk : k ≠ a) (s c : Nat) (st : SState) :
    kills op k s c st = false := by
  have ht := touchTime_of_asModify hm k
  have hak : ¬ a = k := fun h => hk h.symm
  unfold kills
  rw [ht]
  cases op <;> simp [Op.asModify] at hm <;> obtain ⟨rfl, rfl, rfl⟩ := hm <;> simp [hak]

theorem sessInv_step {w : World} {h : List Op} (hi : SessInv w h) (op : Op) :
    SessInv (step w op) (op :: h) := by
  intro a acc s v hacc hs hv
  cases hm : op.asModify with
  | some m =>
    obtain ⟨a0, t, f⟩ := m
    rw [step_asModify hm] at hacc
    by_cases hk : a = a0
    · subst hk
      cases h0 : w.accounts a with
      | none =>
        rw [modifyAccount_none h0] at hacc
        rw [h0] at hacc; cases hacc
      | some acc0 =>
        rw [modifyAccount_same h0] at hacc
        cases hacc
        rw [touch_sessions] at hs
        cases hf : (f acc0).sessions s with
        | none => simp [hf] at hs
        | some v0 =>
          simp only [hf, Option.map_some, Option.some.injEq] at hs
          subst hs
          obtain ⟨hsame, hcred, hexp⟩ := sweep_live hv
          rw [hsame] at hv ⊢
          have htt := touchTime_of_asModify hm a
          simp only [if_true] at htt
          -- the sweep did not kill it
          have hsweep : (match op.touchTime a, v0.state with
              | some t, .expiresAt e => decide (e ≤ t)
              | _, _ => false) = false := by
            rw [htt]
            cases hst : v0.state with
            | expiresAt e => simpa using hexp e hst
            | neverExpires => rfl
            | revokedAt => rfl
          -- now by event kind
          cases op <;> simp [Op.asModify] at hm
          case record a' s' c' e' t' =>
            obtain ⟨rfl, rfl, rfl⟩ := hm
            by_cases hss : s = s'
            · subst hss
              cases hprev : acc0.sessions s with
              | none =>
                simp [insertSession, hprev] at hf
                subst hf
                exact LiveHist.recorded h a' s c' e' t'
              | some vp =>
                simp [insertSession, hprev] at hf
                subst hf
                refine LiveHist.kept _ _ _ _ _ _ (hi a' acc0 s vp h0 hprev hv) ?_
                simp [kills, hsweep]
            · have : acc0.sessions s = some v0 := by
                unfold insertSession at hf
                cases hprev : acc0.sessions s' <;> simp [hprev, hss] at hf <;> exact hf
              refine LiveHist.kept _ _ _ _ _ _ (hi a' acc0 s v0 h0 this hv) ?_
              simp [kills, hsweep]
          case revoke a' s' t' =>
            obtain ⟨rfl, rfl, rfl⟩ := hm
            by_cases hss : s = s'
            · subst hss
              exfalso
              unfold removeSession at hf
              cases hprev : acc0.sessions s with
              | none => simp [hprev] at hf
              | some vp =>
                simp [hprev] at hf
                subst hf
                exact hv rfl
            · have : acc0.sessions s = some v0 := by
                unfold removeSession at hf
                cases hprev : acc0.sessions s' <;> simp [hprev, hss] at hf <;> exact hf
              refine LiveHist.kept _ _ _ _ _ _ (hi a' acc0 s v0 h0 this hv) ?_
              have : ¬ s' = s := fun h => hss h.symm
              simp [kills, hsweep, this]
          case setCred a' c' t' =>
            obtain ⟨rfl, rfl, rfl⟩ := hm
            have hf' : acc0.sessions s = some v0 := hf
            refine LiveHist.kept _ _ _ _ _ _ (hi a' acc0 s v0 h0 hf' hv) ?_
            have : c' = some v0.cred := hcred
            subst this
            simp [kills, hsweep]
          case setValid a' vf ex t' =>
            obtain ⟨rfl, rfl, rfl⟩ := hm
            have hf' : acc0.sessions s = some v0 := hf
            refine LiveHist.kept _ _ _ _ _ _ (hi a' acc0 s v0 h0 hf' hv) ?_
            simp [kills, hsweep]
          case apiIssue a' tid e' iat t' =>
            obtain ⟨rfl, rfl, rfl⟩ := hm
            have hf' : acc0.sessions s = some v0 := by
              unfold insertApi at hf
              cases hprev : acc0.apiTokens tid <;> simp [hprev] at hf <;> exact hf
            refine LiveHist.kept _ _ _ _ _ _ (hi a' acc0 s v0 h0 hf' hv) ?_
            simp [kills, hsweep]
          case apiDestroy a' tid t' =>
            obtain ⟨rfl, rfl, rfl⟩ := hm
            have hf' : acc0.sessions s = some v0 := hf
            refine LiveHist.kept _ _ _ _ _ _ (hi a' acc0 s v0 h0 hf' hv) ?_
            simp [kills, hsweep]
    · rw [modifyAccount_other hk] at hacc
      exact LiveHist.kept _ _ _ _ _ _ (hi a acc s v hacc hs hv) (kills_other_account hm hk _ _ _)
  | none =>
    cases op <;> simp [Op.asModify] at hm
    case addAccount a0 c0 =>
      simp only [step] at hacc
      by_cases hc : w.ids.contains a0 = true
      · simp only [hc, if_true] at hacc
        exact LiveHist.kept _ _ _ _ _ _ (hi a acc s v hacc hs hv) (by simp [kills, Op.touchTime])
      · simp only [hc, Bool.false_eq_true, if_false, setAccount] at hacc
        by_cases hk : a = a0
        · simp [hk] at hacc
          subst hacc
          simp at hs
        · simp only [hk, if_false] at hacc
          exact LiveHist.kept _ _ _ _ _ _ (hi a acc s v hacc hs hv) (by simp [kills, Op.touchTime])
    case delete a0 =>
      simp only [step] at hacc
      by_cases hk : a = a0
      · simp [hk] at hacc
      · simp only [hk, if_false] at hacc
        have : ¬ a0 = a := fun h => hk h.symm
        exact LiveHist.kept _ _ _ _ _ _ (hi a acc s v hacc hs hv) (by simp [kills, Op.touchTime, this])
    case keyAdd k0 =>
      have : (step w (.keyAdd k0)).accounts = w.accounts := by
        simp only [step]; cases w.keys k0 <;> rfl
      rw [this] at hacc
      exact LiveHist.kept _ _ _ _ _ _ (hi a acc s v hacc hs hv) (by simp [kills, Op.touchTime])
    case keyRevoke k0 =>
      have : (step w (.keyRevoke k0)).accounts = w.accounts := rfl
      rw [this] at hacc
      exact LiveHist.kept _ _ _ _ _ _ (hi a acc s v hacc hs hv) (by simp [kills, Op.touchTime])

theorem sessInv_empty : SessInv World.empty [] := by
  intro a acc s v hacc; simp [World.empty] at hacc

theorem sessInv_run {w : World} {h : List Op} (hi : SessInv w h) (ops : List Op) :
    SessInv (run w ops) (ops.reverse ++ h) := by
  induction ops generalizing w h with
  | nil => simpa [run] using hi
  | cons op rest ih =>
    have := ih (sessInv_step hi op)
    simpa [run, List.foldl_cons, List.reverse_cons, List.append_assoc] using this

/-! ### Api tokens: every present record has a history -/

/-- Does `op` remove the api-token record `tid` of account `a`? -/
def killsApi (op : Op) (a tid : Nat) : Bool :=
  match op with
  | .apiDestroy a' tid' _ => decide (a' = a ∧ tid' = tid)
  | .delete a' => decide (a' = a)
  | _ => false

/-- History (newest first) in which the api-token record `(a, tid)` with contents `r` is present:
an `apiIssue` wrote it and nothing after that destroyed it or deleted the account. -/
inductive ApiHist : List Op → Nat → Nat → ApiRec → Prop
  | issued (h : List Op) (a tid : Nat) (e : Option Nat) (iat t : Nat) :
      ApiHist (.apiIssue a tid e iat t :: h) a tid ⟨e, iat⟩
  | kept (h : List Op) (op : Op) (a tid : Nat) (r : ApiRec) :
      ApiHist h a tid r → killsApi op a tid = false → ApiHist (op :: h) a tid r

theorem ApiHist.decompose {h : List Op} {a tid : Nat} {r : ApiRec} (hl : ApiHist h a tid r) :
    ∃ later earlier t, h = later ++ .apiIssue a tid r.expiry r.issuedAt t :: earlier ∧
      ∀ op ∈ later, killsApi op a tid = false := by
  induction hl with
  | issued h a tid e iat t => exact ⟨[], h, t, rfl, by simp⟩
  | kept h op a tid r _ hk ih =>
    obtain ⟨later, earlier, t, rfl, hall⟩ := ih
    refine ⟨op :: later, earlier, t, rfl, ?_⟩
    intro o ho
    rcases List.mem_cons.mp ho with rfl | ho
    · exact hk
    · exact hall o ho

def ApiInv (w : World) (h : List Op) : Prop :=
  ∀ a acc tid r, w.accounts a = some acc → acc.apiTokens tid = some r → ApiHist h a tid r

theorem apiInv_step {w : World} {h : List Op} (hi : ApiInv w h) (op : Op) :
    ApiInv (step w op) (op :: h) := by
  intro a acc tid r hacc hr
  cases hm : op.asModify with
  | some m =>
    obtain ⟨a0, t, f⟩ := m
    rw [step_asModify hm] at hacc
    by_cases hk : a = a0
    · subst hk
      cases h0 : w.accounts a with
      | none =>
        rw [modifyAccount_none h0] at hacc
        rw [h0] at hacc; cases hacc
      | some acc0 =>
        rw [modifyAccount_same h0] at hacc
        cases hacc
        rw [touch_api] at hr
        cases op <;> simp [Op.asModify] at hm
        case record a' s' c' e' t' =>
          obtain ⟨rfl, rfl, rfl⟩ := hm
          have : acc0.apiTokens tid = some r := by
            unfold insertSession at hr
            cases hprev : acc0.sessions s' <;> simp [hprev] at hr <;> exact hr
          exact ApiHist.kept _ _ _ _ _ (hi a' acc0 tid r h0 this) (by simp [killsApi])
        case revoke a' s' t' =>
          obtain ⟨rfl, rfl, rfl⟩ := hm
          have : acc0.apiTokens tid = some r := by
            unfold removeSession at hr
            cases hprev : acc0.sessions s' <;> simp [hprev] at hr <;> exact hr
          exact ApiHist.kept _ _ _ _ _ (hi a' acc0 tid r h0 this) (by simp [killsApi])
        case setCred a' c' t' =>
          obtain ⟨rfl, rfl, rfl⟩ := hm
          exact ApiHist.kept _ _ _ _ _ (hi a' acc0 tid r h0 hr) (by simp [killsApi])
        case setValid a' vf ex t' =>
          obtain ⟨rfl, rfl, rfl⟩ := hm
          exact ApiHist.kept _ _ _ _ _ (hi a' acc0 tid r h0 hr) (by simp [killsApi])
        case apiIssue a' tid' e' iat t' =>
          obtain ⟨rfl, rfl, rfl⟩ := hm
          by_cases htt : tid = tid'
          · subst htt
            cases hprev : acc0.apiTokens tid with
            | none =>
              simp [insertApi, hprev] at hr
              subst hr
              exact ApiHist.issued h a' tid e' iat t'
            | some rp =>
              simp [insertApi, hprev] at hr
              subst hr
              exact ApiHist.kept _ _ _ _ _ (hi a' acc0 tid rp h0 hprev) (by simp [killsApi])
          · have : acc0.apiTokens tid = some r := by
              unfold insertApi at hr
              cases hprev : acc0.apiTokens tid' <;> simp [hprev, htt] at hr <;> exact hr
            exact ApiHist.kept _ _ _ _ _ (hi a' acc0 tid r h0 this) (by simp [killsApi])
        case apiDestroy a' tid' t' =>
          obtain ⟨rfl, rfl, rfl⟩ := hm
          by_cases htt : tid = tid'
          · subst htt; simp [removeApi] at hr
          · have : acc0.apiTokens tid = some r := by
              simpa [removeApi, htt] using hr
            have hne : ¬ tid' = tid := fun h => htt h.symm
            exact ApiHist.kept _ _ _ _ _ (hi a' acc0 tid r h0 this) (by simp [killsApi, hne])
    · rw [modifyAccount_other hk] at hacc
      refine ApiHist.kept _ _ _ _ _ (hi a acc tid r hacc hr) ?_
      have hak : ¬ a0 = a := fun h => hk h.symm
      cases op <;> simp [Op.asModify] at hm <;> obtain ⟨rfl, rfl, rfl⟩ := hm <;> simp [killsApi, hak]
  | none =>
    cases op <;> simp [Op.asModify] at hm
    case addAccount a0 c0 =>
      simp only [step] at hacc
      by_cases hc : w.ids.contains a0 = true
      · simp only [hc, if_true] at hacc
        exact ApiHist.kept _ _ _ _ _ (hi a acc tid r hacc hr) (by simp [killsApi])
      · simp only [hc, Bool.false_eq_true, if_false, setAccount] at hacc
        by_cases hk : a = a0
        · simp [hk] at hacc
          subst hacc
          simp at hr
        · simp only [hk, if_false] at hacc
          exact ApiHist.kept _ _ _ _ _ (hi a acc tid r hacc hr) (by simp [killsApi])
    case delete a0 =>
      simp only [step] at hacc
      by_cases hk : a = a0
      · simp [hk] at hacc
      · simp only [hk, if_false] at hacc
        have : ¬ a0 = a := fun h => hk h.symm
        exact ApiHist.kept _ _ _ _ _ (hi a acc tid r hacc hr) (by simp [killsApi, this])
    case keyAdd k0 =>
      have : (step w (.keyAdd k0)).accounts = w.accounts := by
        simp only [step]; cases w.keys k0 <;> rfl
      rw [this] at hacc
      exact ApiHist.kept _ _ _ _ _ (hi a acc tid r hacc hr) (by simp [killsApi])
    case keyRevoke k0 =>
      have : (step w (.keyRevoke k0)).accounts = w.accounts := rfl
      rw [this] at hacc
      exact ApiHist.kept _ _ _ _ _ (hi a acc tid r hacc hr) (by simp [killsApi])

theorem apiInv_empty : ApiInv World.empty [] := by
  intro a acc tid r hacc; simp [World.empty] at hacc

theorem apiInv_run {w : World} {h : List Op} (hi : ApiInv w h) (ops : List Op) :
    ApiInv (run w ops) (ops.reverse ++ h) := by
  induction ops generalizing w h with
  | nil => simpa [run] using hi
  | cons op rest ih =>
    have := ih (apiInv_step hi op)
    simpa [run, List.foldl_cons, List.reverse_cons, List.append_assoc] using this

/-! ### Absorbing states: revoked keys, revoked sessions, deleted accounts -/

theorem step_addAccount_old {w : World} {a0 : Nat} (c0 : Option Nat)
    (h : w.ids.contains a0 = true) : step w (.addAccount a0 c0) = w := by
  simp only [step, h, if_true]

theorem step_addAccount_new {w : World} {a0 : Nat} (c0 : Option Nat)
    (h : ¬ w.ids.contains a0 = true) :
    step w (.addAccount a0 c0) =
      { accounts := fun k => if k = a0 then some ⟨none, none, c0, fun _ => none, fun _ => none⟩
                             else w.accounts k,
        ids := w.ids ++ [a0], keys := w.keys } := by
  simp only [step, h, Bool.false_eq_true, if_false]; rfl

theorem run_cons (w : World) (op : Op) (ops : List Op) : run w (op :: ops) = run (step w op) ops := rfl

theorem step_key_revoked {w : World} {k : Nat} (h : w.keys k = some true) (op : Op) :
    (step w op).keys k = some true := by
  cases hm : op.asModify with
  | some m =>
    obtain ⟨a0, t, f⟩ := m
    rw [step_asModify hm, modifyAccount_keys]; exact h
  | none =>
    cases op <;> simp [Op.asModify] at hm
    case addAccount a0 c0 =>
      by_cases hc : w.ids.contains a0 = true
      · rw [step_addAccount_old c0 hc]; exact h
      · rw [step_addAccount_new c0 hc]; exact h
    case delete a0 => simpa [step] using h
    case keyAdd k0 =>
      simp only [step]
      cases hk : w.keys k0 with
      | some b => simpa using h
      | none =>
        by_cases hkk : k = k0
        · subst hkk; rw [hk] at h; cases h
        · simp [hkk, h]
    case keyRevoke k0 =>
      simp only [step]
      by_cases hkk : k = k0 <;> simp [hkk, h]

theorem run_key_revoked {w : World} {k : Nat} (h : w.keys k = some true) (ops : List Op) :
    (run w ops).keys k = some true := by
  induction ops generalizing w with
  | nil => exact h
  | cons op rest ih => rw [run_cons]; exact ih (step_key_revoked h op)

/-- The uuid was created once and its entry is either gone or carries session `s` as revoked:
no token for `(a, s)` can be honoured, now or later. -/
def Dead (w : World) (a s : Nat) : Prop :=
  a ∈ w.ids ∧ (w.accounts a = none ∨
    ∃ acc v, w.accounts a = some acc ∧ acc.sessions s = some v ∧ v.state = .revokedAt)

theorem step_ids_mono {w : World} {a : Nat} (h : a ∈ w.ids) (op : Op) : a ∈ (step w op).ids := by
  cases hm : op.asModify with
  | some m =>
    obtain ⟨a0, t, f⟩ := m
    rw [step_asModify hm, modifyAccount_ids]; exact h
  | none =>
    cases op <;> simp [Op.asModify] at hm
    case addAccount a0 c0 =>
      by_cases hc : w.ids.contains a0 = true
      · rw [step_addAccount_old c0 hc]; exact h
      · rw [step_addAccount_new c0 hc]; exact List.mem_append_left _ h
    case delete a0 => simpa [step] using h
    case keyAdd k0 => simp only [step]; cases w.keys k0 <;> exact h
    case keyRevoke k0 => simpa [step] using h

theorem step_dead {w : World} {a s : Nat} (h : Dead w a s) (op : Op) : Dead (step w op) a s := by
  obtain ⟨hid, hd⟩ := h
  refine ⟨step_ids_mono hid op, ?_⟩
  cases hm : op.asModify with
  | some m =>
    obtain ⟨a0, t, f⟩ := m
    rw [step_asModify hm]
    by_cases hk : a = a0
    · subst hk
      rcases hd with hn | ⟨acc, v, hacc, hs, hv⟩
      · left; rw [modifyAccount_none hn]; exact hn
      · right
        rw [modifyAccount_same hacc]
        -- the transformer keeps a revoked session revoked
        have hf : ∃ v', (f acc).sessions s = some v' ∧ v'.state = .revokedAt := by
          cases op <;> simp [Op.asModify] at hm
          case record a' s' c' e' t' =>
            obtain ⟨rfl, rfl, rfl⟩ := hm
            by_cases hss : s = s'
            · subst hss; exact ⟨v, by simp [insertSession, hs], hv⟩
            · refine ⟨v, ?_, hv⟩
              simp only [insertSession]
              cases acc.sessions s' <;> simp [hss, hs]
          case revoke a' s' t' =>
            obtain ⟨rfl, rfl, rfl⟩ := hm
            by_cases hss : s = s'
            · subst hss; exact ⟨revokeSession v, by simp [removeSession, hs], rfl⟩
            · refine ⟨v, ?_, hv⟩
              simp only [removeSession]
              cases acc.sessions s' <;> simp [hss, hs]
          case setCred a' c' t' => obtain ⟨rfl, rfl, rfl⟩ := hm; exact ⟨v, hs, hv⟩
          case setValid a' vf ex t' => obtain ⟨rfl, rfl, rfl⟩ := hm; exact ⟨v, hs, hv⟩
          case apiIssue a' tid e' iat t' =>
            obtain ⟨rfl, rfl, rfl⟩ := hm
            refine ⟨v, ?_, hv⟩
            simp only [insertApi]
            cases acc.apiTokens tid <;> simp [hs]
          case apiDestroy a' tid t' => obtain ⟨rfl, rfl, rfl⟩ := hm; exact ⟨v, hs, hv⟩
        obtain ⟨v', hs', hv'⟩ := hf
        exact ⟨_, sweepSession (f acc).cred t v', rfl, by simp [touch_sessions, hs'], sweep_revoked hv'⟩
    · rw [modifyAccount_other hk]; exact hd
  | none =>
    cases op <;> simp [Op.asModify] at hm
    case addAccount a0 c0 =>
      by_cases hc : w.ids.contains a0 = true
      · rw [step_addAccount_old c0 hc]; exact hd
      · have hne : a ≠ a0 := by
          intro h; subst h
          exact hc (by simpa using hid)
        rw [step_addAccount_new c0 hc]
        simpa [hne] using hd
    case delete a0 =>
      simp only [step]
      by_cases hk : a = a0
      · left; simp [hk]
      · simpa [hk] using hd
    case keyAdd k0 =>
      have : (step w (.keyAdd k0)).accounts = w.accounts := by
        simp only [step]; cases w.keys k0 <;> rfl
      rw [this]; exact hd
    case keyRevoke k0 => exact hd

theorem run_dead {w : World} {a s : Nat} (h : Dead w a s) (ops : List Op) : Dead (run w ops) a s := by
  induction ops generalizing w with
  | nil => exact h
  | cons op rest ih => rw [run_cons]; exact ih (step_dead h op)

/-- Well-formedness reached from the empty world: a searchable entry's uuid is registered. -/
def WF (w : World) : Prop := ∀ a, (w.accounts a).isSome = true → a ∈ w.ids

theorem wf_empty : WF World.empty := by intro a h; simp [World.empty] at h

theorem wf_step {w : World} (h : WF w) (op : Op) : WF (step w op) := by
  intro a ha
  cases hm : op.asModify with
  | some m =>
    obtain ⟨a0, t, f⟩ := m
    rw [step_asModify hm] at ha ⊢
    rw [modifyAccount_ids]
    apply h
    by_cases hk : a = a0
    · subst hk
      cases h0 : w.accounts a with
      | none => rw [modifyAccount_none h0, h0] at ha; exact ha
      | some _ => rfl
    · rwa [modifyAccount_other hk] at ha
  | none =>
    cases op <;> simp [Op.asModify] at hm
    case addAccount a0 c0 =>
      by_cases hc : w.ids.contains a0 = true
      · rw [step_addAccount_old c0 hc] at ha ⊢; exact h a ha
      · rw [step_addAccount_new c0 hc] at ha ⊢
        by_cases hk : a = a0
        · subst hk; exact List.mem_append_right _ (by simp)
        · simp only [hk, if_false] at ha
          exact List.mem_append_left _ (h a ha)
    case delete a0 =>
      simp only [step] at ha ⊢
      by_cases hk : a = a0
      · simp [hk] at ha
      · simp only [hk, if_false] at ha; exact h a ha
    case keyAdd k0 =>
      have h1 : (step w (.keyAdd k0)).accounts = w.accounts := by
        simp only [step]; cases w.keys k0 <;> rfl
      have h2 : (step w (.keyAdd k0)).ids = w.ids := by
        simp only [step]; cases w.keys k0 <;> rfl
      rw [h1] at ha; rw [h2]; exact h a ha
    case keyRevoke k0 => exact h a ha

theorem wf_run {w : World} (h : WF w) (ops : List Op) : WF (run w ops) := by
  induction ops generalizing w with
  | nil => exact h
  | cons op rest ih => rw [run_cons]; exact ih (wf_step h op)

theorem run_append (w : World) (xs ys : List Op) : run w (xs ++ ys) = run (run w xs) ys := by
  simp [run, List.foldl_append]

/-! ### A live session's issuing credential is still the account's credential -/

def CredInv (w : World) : Prop :=
  ∀ a acc s v, w.accounts a = some acc → acc.sessions s = some v → v.state ≠ .revokedAt →
    acc.cred = some v.cred

theorem credInv_step {w : World} (hi : CredInv w) (op : Op) : CredInv (step w op) := by
  intro a acc s v hacc hs hv
  cases hm : op.asModify with
  | some m =>
    obtain ⟨a0, t, f⟩ := m
    rw [step_asModify hm] at hacc
    by_cases hk : a = a0
    · subst hk
      cases h0 : w.accounts a with
      | none =>
        rw [modifyAccount_none h0] at hacc
        rw [h0] at hacc; cases hacc
      | some acc0 =>
        rw [modifyAccount_same h0] at hacc
        cases hacc
        rw [touch_sessions] at hs
        cases hf : (f acc0).sessions s with
        | none => simp [hf] at hs
        | some v0 =>
          simp only [hf, Option.map_some, Option.some.injEq] at hs
          subst hs
          obtain ⟨hsame, hcred, _⟩ := sweep_live hv
          rw [hsame, touch_cred]; exact hcred
    · rw [modifyAccount_other hk] at hacc
      exact hi a acc s v hacc hs hv
  | none =>
    cases op <;> simp [Op.asModify] at hm
    case addAccount a0 c0 =>
      by_cases hc : w.ids.contains a0 = true
      · rw [step_addAccount_old c0 hc] at hacc; exact hi a acc s v hacc hs hv
      · rw [step_addAccount_new c0 hc] at hacc
        by_cases hk : a = a0
        · simp [hk] at hacc
          subst hacc
          simp at hs
        · simp only [hk, if_false] at hacc
          exact hi a acc s v hacc hs hv
    case delete a0 =>
      simp only [step] at hacc
      by_cases hk : a = a0
      · simp [hk] at hacc
      · simp only [hk, if_false] at hacc
        exact hi a acc s v hacc hs hv
    case keyAdd k0 =>
      have : (step w (.keyAdd k0)).accounts = w.accounts := by
        simp only [step]; cases w.keys k0 <;> rfl
      rw [this] at hacc
      exact hi a acc s v hacc hs hv
    case keyRevoke k0 => exact hi a acc s v hacc hs hv

theorem credInv_empty : CredInv World.empty := by
  intro a acc s v hacc; simp [World.empty] at hacc

theorem credInv_run {w : World} (hi : CredInv w) (ops : List Op) : CredInv (run w ops) := by
  induction ops generalizing w with
  | nil => exact hi
  | cons op rest ih => rw [run_cons]; exact ih (credInv_step hi op)

end Kanidm.Bearer
