import KanidmModel.OAuth2.Token
import KanidmProofs.Lemmas.SessionPlugin
import KanidmProofs.C36
/-!
Helper lemmas for C39: the vocabulary of the property (`Revoked`, `ExpiredAt`, `LiveAt`, read off
the property text), the closed form of `check_oauth2_account_uuid_valid`, lookups through a write
transaction, and "a revoked session stays revoked under every write — or is trimmed away, never live
again" (on C36's `DeadO2` / `DeadUat` and its `dead_…_stays_dead_write` lemmas; C36's write step starts
with the `Entry::invalidate` trim).
-/
namespace Kanidm.OAuth2.Token
open Kanidm.OAuth2 Kanidm.Gen.OAuth2Token Kanidm.SessionPlugin Kanidm.SessionMerge Kanidm.Gen.SessionOrd

/-! ## Vocabulary -/

/-- The session was revoked (by whatever change). -/
def Revoked (s : Sess) : Prop := ∃ c, s.state = .revokedAt c

/-- The session has an expiry and it has passed: expired *at* its expiry instant. -/
def ExpiredAt (s : Sess) (ct : Nat) : Prop := ∃ x, s.state = .expiresAt x ∧ x ≤ ct

/-- Neither revoked nor expired at `ct`. -/
def LiveAt (s : Sess) (ct : Nat) : Prop := ¬ Revoked s ∧ ¬ ExpiredAt s ct

/-- Five minutes in nanoseconds, as the property text of C36 has it. -/
def fiveMinutesNs : Nat := 300 * 1000000000

/-- The account's login session `p`, if on record. -/
def uatOf (e : Entry) (p : Nat) : Option Sess := e.uats.bind (fun m => lookup m p)

theorem stateLive_iff (s : Sess) (ct : Nat) : stateLive s.state ct = true ↔ LiveAt s ct := by
  unfold stateLive liveRevoked liveExpires liveNever LiveAt Revoked ExpiredAt
  cases h : s.state with
  | revokedAt c => simp
  | expiresAt x => simp
  | neverExpires => simp

theorem stateLive_false_iff (s : Sess) (ct : Nat) : stateLive s.state ct = false ↔ (Revoked s ∨ ExpiredAt s ct) := by
  rw [← Bool.not_eq_true, stateLive_iff]
  unfold LiveAt
  constructor
  · intro h
    by_cases hr : Revoked s
    · exact Or.inl hr
    · by_cases he : ExpiredAt s ct
      · exact Or.inr he
      · exact absurd ⟨hr, he⟩ h
  · rintro (h | h) ⟨h1, h2⟩
    · exact h1 h
    · exact h2 h

/-- The exact condition under which `check_oauth2_account_uuid_valid` lets a token through. -/
theorem acctValid_true_iff (e : Entry) (sid : Nat) (parent : Option Nat) (iat ct : Nat) :
    acctValid e sid parent iat ct = true ↔
      withinWindow e ct = true ∧
      ((∃ o, lookup e.o2s sid = some o ∧ LiveAt o ct ∧
          ∀ p, parent = some p →
            (∃ u, uatOf e p = some u ∧ LiveAt u ct) ∨
            (uatOf e p = none ∧ (p ∈ e.apis ∨ ct < iat * 1000000000 + fiveMinutesNs))) ∨
       (lookup e.o2s sid = none ∧ ct < iat * 1000000000 + fiveMinutesNs)) := by
  unfold acctValid validOutsideWindow validGrace validO2Dead validParentOk validParentMissing
    validO2Missing validGraceWindowSecs fiveMinutesNs
  cases hw : withinWindow e ct
  · simp
  · cases ho : lookup e.o2s sid with
    | none => simp
    | some o =>
      by_cases hlo : LiveAt o ct
      · have hl : stateLive o.state ct = true := (stateLive_iff o ct).mpr hlo
        cases parent with
        | none => simp [hl, hlo]
        | some p =>
          have hfold : (e.uats.bind fun m => lookup m p) = uatOf e p := rfl
          simp only [hfold]
          cases hu : uatOf e p with
          | none =>
            by_cases ha : p ∈ e.apis
            · simp [hl, hlo, ha, hu]
            · by_cases hg : ct < iat * 1000000000 + 300 * 1000000000
              · simp [hl, hlo, ha, hg, hu]
              · simp [hl, hlo, ha, hg, hu]
          | some u =>
            by_cases hlu : LiveAt u ct
            · have hul : stateLive u.state ct = true := (stateLive_iff u ct).mpr hlu
              simp [hl, hlo, hul, hlu, hu]
            · have hul : stateLive u.state ct = false := by
                rw [← Bool.not_eq_true, stateLive_iff]; exact hlu
              simp [hl, hlo, hul, hlu, hu]
      · have hl : stateLive o.state ct = false := by
          rw [← Bool.not_eq_true, stateLive_iff]; exact hlo
        simp [hl, hlo]

/-! ## Lookups through a write transaction -/

theorem lookup_setAcct (l : List (Nat × Entry)) (a : Nat) (e : Entry) (b : Nat) :
    lookup (setAcct l a e) b = if b = a then (lookup l a).map (fun _ => e) else lookup l b := by
  induction l with
  | nil => simp [setAcct, lookup]
  | cons hd tl ih =>
    obtain ⟨k, v⟩ := hd
    unfold setAcct at ih ⊢
    by_cases hk : k = a
    · subst hk
      by_cases hb : b = k
      · subst hb; simp [lookup]
      · simp [lookup, hb]
        simpa [hb] using ih
    · by_cases hb : b = a
      · subst hb
        have : ¬ b = k := fun h => hk h.symm
        simp [lookup, hk, this]
        simpa using ih
      · by_cases hbk : b = k
        · subst hbk; simp [lookup, hk]
        · simp [lookup, hk, hbk]
          simpa [hb] using ih

/-- What a write transaction leaves behind. -/
theorem update_spec {w w' : World} {a : Nat} {f : Entry → Entry} {m : Mod} {ct : Nat}
    (h : w.update a f m ct = some w') :
    ∃ e, w.acct a = some e ∧ w'.acct a = some (Kanidm.SessionPlugin.step (f e) (.write m ct w.cid)) ∧
      (∀ b, b ≠ a → w'.acct b = w.acct b) ∧ w'.reg = w.reg ∧ w'.nextSid = w.nextSid := by
  unfold World.update at h
  cases he : w.acct a with
  | none => simp [he] at h
  | some e =>
    simp only [he, Option.some.injEq] at h
    subst h
    refine ⟨e, rfl, ?_, ?_, rfl, rfl⟩
    · simp only [World.acct] at he ⊢
      rw [lookup_setAcct]; simp [he]
    · intro b hb
      simp only [World.acct]
      rw [lookup_setAcct]; simp [hb]

theorem write_spec {w w' : World} {a : Nat} {m : Mod} {ct : Nat} (h : w.write a m ct = some w') :
    ∃ e, w.acct a = some e ∧ w'.acct a = some (Kanidm.SessionPlugin.step e (.write m ct w.cid)) ∧
      (∀ b, b ≠ a → w'.acct b = w.acct b) ∧ w'.reg = w.reg ∧ w'.nextSid = w.nextSid :=
  update_spec (f := id) h

theorem update_isSome {w : World} {a : Nat} {e : Entry} (f : Entry → Entry) (m : Mod) (ct : Nat)
    (h : w.acct a = some e) : ∃ w', w.update a f m ct = some w' := by
  unfold World.update; simp [h]

/-! ## Through the trim every write starts with (`Entry::invalidate`) -/

theorem keepSess_of_fresh {f : Nat → Nat → Bool} {t : Nat} {s : Sess}
    (h : ∀ c, s.state = .revokedAt c → f c t = false) : keepSess f t s = true := by
  unfold keepSess
  cases hs : s.state with
  | revokedAt c => simp [h c hs]
  | expiresAt _ => rfl
  | neverExpires => rfl

/-- A value the trim test keeps is still found under its key after the trim, whatever else the
trim drops. -/
theorem lookup_trimRevoked_keep {f : Nat → Nat → Bool} {t : Nat} {m : SMap} {k : Nat} {s : Sess}
    (h : lookup m k = some s) (hk : keepSess f t s = true) : lookup (trimRevoked f t m) k = some s := by
  induction m with
  | nil => simp [lookup] at h
  | cons hd tl ih =>
    obtain ⟨k', v⟩ := hd
    unfold trimRevoked at ih ⊢
    by_cases hkk : k = k'
    · subst hkk
      simp only [lookup, if_true, Option.some.injEq] at h
      subst h
      simp [hk, lookup]
    · simp only [lookup, hkk, if_false] at h
      by_cases hv : keepSess f t v = true
      · simp only [List.filter_cons, hv, if_true, lookup, hkk, if_false]
        exact ih h
      · simp only [List.filter_cons, hv, Bool.false_eq_true, if_false]
        exact ih h

/-- The trim keeps an OAuth2 session that is not a revocation older than the trim id. -/
theorem lookup_trim_o2s {t : Nat} {e : Entry} {k : Nat} {s : Sess} (h : lookup e.o2s k = some s)
    (hk : ∀ c, s.state = .revokedAt c → ¬ c < t) : lookup (trimEntry t e).o2s k = some s :=
  lookup_trimRevoked_keep h (keepSess_of_fresh (fun c hc => by simpa [o2Trim] using hk c hc))

/-- The trim keeps a login session that is not a revocation older than the trim id, as long as the
account holds at most `SESSION_MAXIMUM` of them (no forced trim). -/
theorem uatOf_trim {t : Nat} {e : Entry} {k : Nat} {s : Sess} (h : uatOf e k = some s)
    (hB : ∀ m, e.uats = some m → m.length ≤ sessionMaximum)
    (hk : ∀ c, s.state = .revokedAt c → ¬ c < t) : uatOf (trimEntry t e) k = some s := by
  unfold uatOf at h ⊢
  cases hm : e.uats with
  | none => simp [hm] at h
  | some m =>
    simp only [hm, Option.bind_some] at h
    simp only [trimEntry, hm, Option.map_some, Option.bind_some]
    unfold sessTrimAll
    have hlen : (trimRevoked sessTrim t m).length ≤ sessionMaximum :=
      Nat.le_trans (List.length_filter_le _ _) (hB m hm)
    rw [forceTrim_id _ hlen]
    exact lookup_trimRevoked_keep h (keepSess_of_fresh (fun c hc => by simpa [sessTrim] using hk c hc))

/-! ## Revoked stays revoked (one write)

The modlist and the plugin never touch a revoked session (`…_stepCore`); the trim in front of them
(`SessionPlugin.step` = trim, modlist, plugin) drops a revocation older than the changelog window, so
through a whole write the same record is kept exactly when the trim keeps it (`…_write`).  The
unconditional form — revoked or gone, never live again — is C36's `dead_oauth2_stays_dead_write` /
`dead_stays_dead_write` (`DeadO2`, `DeadUat`). -/

/-- The value under `k` is a revoked session. -/
def RevokedIn (m : SMap) (k : Nat) : Prop := ∃ s, lookup m k = some s ∧ Revoked s

theorem revokedIn_o2s_stepCore (e : Entry) (md : Mod) (ct cid k : Nat) (h : RevokedIn e.o2s k) :
    RevokedIn (stepCore e md ct cid).o2s k := by
  obtain ⟨s, hs, c, hr⟩ := h
  have h1 : ∃ s1, lookup (applyMod cid e md).o2s k = some s1 ∧ s1.state = .revokedAt c := by
    cases md with
    | grant o parent exp issued =>
      refine ⟨s, ?_, hr⟩
      simp only [applyMod]
      rw [lookup_insertO2, hs]
      have : Kanidm.Gen.SessionPlugin.o2InsertReplaces (SState.cmp (stateOf exp) s.state) = false := by
        rw [hr]; cases exp <;> simp [stateOf, SState.cmp, Kanidm.Gen.SessionPlugin.o2InsertReplaces]
      simp [this]
    | revokeO2 o =>
      refine ⟨s, ?_, hr⟩
      simp only [applyMod]
      rw [lookup_revokeKey, hs]
      simp [revoke_of_revoked hr]
    | _ => exact ⟨s, hs, hr⟩
  obtain ⟨s1, hs1, hr1⟩ := h1
  refine ⟨s1, ?_, c, hr1⟩
  simp only [stepCore]
  rw [plugin_o2s, lookup_mapVals, hs1]
  simp [o2Post_of_revoked hr1]

theorem revokedIn_o2s_write (e : Entry) (md : Mod) (ct cid k : Nat) (h : RevokedIn e.o2s k)
    (hkeep : ∀ s c, lookup e.o2s k = some s → s.state = .revokedAt c → ¬ c < trimCidOf cid) :
    RevokedIn (Kanidm.SessionPlugin.step e (.write md ct cid)).o2s k := by
  obtain ⟨s, hs, hr⟩ := h
  exact revokedIn_o2s_stepCore _ md ct cid k ⟨s, lookup_trim_o2s hs (fun c hc => hkeep s c hs hc), hr⟩

/-- The login session `k` of the entry is on record and revoked. -/
def UatRevoked (e : Entry) (k : Nat) : Prop := ∃ s, uatOf e k = some s ∧ Revoked s

theorem uatRevoked_stepCore (e : Entry) (md : Mod) (ct cid k : Nat) (h : UatRevoked e k) :
    UatRevoked (stepCore e md ct cid) k := by
  obtain ⟨s, hs, c, hr⟩ := h
  unfold uatOf at hs
  cases hm : e.uats with
  | none => simp [hm] at hs
  | some m =>
    simp only [hm, Option.bind_some] at hs
    have h1 : ∃ m1 s1, (applyMod cid e md).uats = some m1 ∧ lookup m1 k = some s1 ∧ s1.state = .revokedAt c := by
      cases md with
      | record s' cred exp issued =>
        refine ⟨insertVacant m s' ⟨stateOf exp, issued, cred⟩, s, by simp [applyMod, hm], ?_, hr⟩
        rw [lookup_insertVacant, hs]
      | revoke s' =>
        refine ⟨revokeKey cid s' m, s, by simp [applyMod, hm], ?_, hr⟩
        rw [lookup_revokeKey, hs]; simp [revoke_of_revoked hr]
      | purgeUats =>
        refine ⟨revokeAll cid m, s, by simp [applyMod, hm], ?_, hr⟩
        rw [lookup_revokeAll, hs]; simp [revoke_of_revoked hr]
      | _ => exact ⟨m, s, by simp [applyMod, hm], hs, hr⟩
    obtain ⟨m1, s1, hm1, hs1, hr1⟩ := h1
    refine ⟨s1, ?_, c, hr1⟩
    unfold uatOf
    simp only [stepCore, plugin_uats, hm1, Option.map_some, Option.bind_some]
    rw [lookup_mapVals, hs1]
    simp [uatPost_of_revoked hr1]

theorem uatRevoked_write (e : Entry) (md : Mod) (ct cid k : Nat) (h : UatRevoked e k)
    (hB : ∀ m, e.uats = some m → m.length ≤ sessionMaximum)
    (hkeep : ∀ s c, uatOf e k = some s → s.state = .revokedAt c → ¬ c < trimCidOf cid) :
    UatRevoked (Kanidm.SessionPlugin.step e (.write md ct cid)) k := by
  obtain ⟨s, hs, hr⟩ := h
  exact uatRevoked_stepCore _ md ct cid k ⟨s, uatOf_trim hs hB (fun c hc => hkeep s c hs hc), hr⟩

/-! ## Revoked or gone (C36's `DeadO2` / `DeadUat`) read through `lookup` -/

theorem deadO2_lookup {e : Entry} {k : Nat} {s : Sess} (h : DeadO2 e k) (hs : lookup e.o2s k = some s) :
    Revoked s := h s (mem_of_lookup hs)

theorem deadUat_lookup {e : Entry} {k : Nat} {s : Sess} (h : DeadUat e k) (hs : uatOf e k = some s) :
    Revoked s := by
  unfold uatOf at hs
  cases hm : e.uats with
  | none => simp [hm] at hs
  | some m =>
    simp only [hm, Option.bind_some] at hs
    exact h s ⟨m, hm, mem_of_lookup hs⟩

/-- With distinct keys (a `BTreeMap`) "on record and revoked" is a case of "revoked or gone". -/
theorem deadO2_of_revokedIn {e : Entry} {k : Nat} (hn : KeysNodup e.o2s) (h : RevokedIn e.o2s k) :
    DeadO2 e k := by
  obtain ⟨s, hs, hr⟩ := h
  intro s' hs'
  have := lookup_of_mem hn hs'
  rw [hs] at this; cases this
  exact hr

theorem deadUat_of_uatRevoked {e : Entry} {k : Nat} (hn : ∀ m, e.uats = some m → KeysNodup m)
    (h : UatRevoked e k) : DeadUat e k := by
  obtain ⟨s, hs, hr⟩ := h
  rintro s' ⟨m, hm, hmem⟩
  unfold uatOf at hs
  simp only [hm, Option.bind_some] at hs
  have := lookup_of_mem (hn m hm) hmem
  rw [hs] at this; cases this
  exact hr

/-- A write whose modlist revokes OAuth2 session `k` leaves everything under `k` revoked. -/
theorem deadO2_revokeO2_write (e : Entry) (ct cid k : Nat) :
    DeadO2 (Kanidm.SessionPlugin.step e (.write (.revokeO2 k) ct cid)) k := by
  intro s' hs'
  simp only [Kanidm.SessionPlugin.step, stepCore] at hs'
  rw [plugin_o2s] at hs'
  obtain ⟨s1, hm1, rfl⟩ := mem_mapVals hs'
  simp only [applyMod] at hm1
  rw [revokeKey_eq] at hm1
  obtain ⟨⟨a, s0⟩, hm0, he⟩ := List.mem_map.mp hm1
  simp only [Prod.mk.injEq] at he
  obtain ⟨rfl, rfl⟩ := he
  simp only [if_true]
  obtain ⟨c, hc⟩ := revoke_revoked cid s0
  exact ⟨c, by rw [o2Post_of_revoked hc]; exact hc⟩

/-- Everything under a dead OAuth2 session id fails the validity test once the token's grace window
has passed: a revoked session at once, a session the trim has dropped like any session not on record. -/
theorem deadO2_not_valid {e : Entry} {sid : Nat} (h : DeadO2 e sid) (parent : Option Nat) {iat ct : Nat}
    (hg : iat * 1000000000 + fiveMinutesNs ≤ ct) : acctValid e sid parent iat ct = false := by
  cases hv : acctValid e sid parent iat ct with
  | false => rfl
  | true =>
    obtain ⟨_, ⟨o, ho, hlo, _⟩ | ⟨_, hn⟩⟩ := (acctValid_true_iff e sid parent iat ct).mp hv
    · exact absurd (deadO2_lookup h ho) hlo.1
    · omega

/-- The same for a token whose parent login session is dead (and not an api token of the account). -/
theorem deadUat_not_valid {e : Entry} {p : Nat} (h : DeadUat e p) (hapi : p ∉ e.apis) (sid : Nat)
    {iat ct : Nat} (hg : iat * 1000000000 + fiveMinutesNs ≤ ct) :
    acctValid e sid (some p) iat ct = false := by
  cases hv : acctValid e sid (some p) iat ct with
  | false => rfl
  | true =>
    obtain ⟨_, ⟨o, _, _, hp⟩ | ⟨_, hn⟩⟩ := (acctValid_true_iff e sid (some p) iat ct).mp hv
    · rcases hp p rfl with ⟨u, hu, hlu⟩ | ⟨_, ha | hn⟩
      · exact absurd (deadUat_lookup h hu) hlu.1
      · exact absurd ha hapi
      · omega
    · omega

theorem revokedIn_plugin (e : Entry) (ct cid k : Nat) (h : RevokedIn e.o2s k) :
    RevokedIn (plugin ct cid e).o2s k := by
  obtain ⟨s, hs, c, hr⟩ := h
  refine ⟨s, ?_, c, hr⟩
  rw [plugin_o2s, lookup_mapVals, hs]
  simp [o2Post_of_revoked hr]

/-- The plugin leaves `issued_at` of every OAuth2 session alone. -/
theorem plugin_o2s_issued (e : Entry) (ct cid k : Nat) (s : Sess) (h : lookup e.o2s k = some s) :
    ∃ s', lookup (plugin ct cid e).o2s k = some s' ∧ s'.issued = s.issued := by
  refine ⟨o2Post (plugin ct cid e).uats ct cid s, ?_, o2Post_issued _ _ _ _⟩
  rw [plugin_o2s, lookup_mapVals, h]; rfl

end Kanidm.OAuth2.Token
