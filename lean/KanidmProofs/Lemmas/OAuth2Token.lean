import KanidmModel.OAuth2.Token
import KanidmProofs.Lemmas.SessionPlugin
/-!
Helper lemmas for C39: the vocabulary of the property (`Revoked`, `ExpiredAt`, `LiveAt`, read off
the property text), the closed form of `check_oauth2_account_uuid_valid`, lookups through a write
transaction, and "a revoked session stays revoked under every write".
-/
namespace Kanidm.OAuth2.Token
open Kanidm.OAuth2 Kanidm.Gen.OAuth2Token Kanidm.SessionPlugin Kanidm.SessionMerge Kanidm.Gen.SessionOrd

/-! ## Vocabulary -/

/-- The session was revoked (by whatever change). -/
def Revoked (s : Sess) : Prop := ∃ c, s.state = .revokedAt c

/-- The session has an expiry and it has passed: expired *at* its expiry instant. -/
def ExpiredAt (s : Sess) (ct : Nat) : Prop := ∃ x, s.state = .expiresAt x ∧ x ≤ ct

/-- Neither revoked nor expired at `ct`. -/
def LiveAt (s : Sess) (ct : Nat) : Prop := ¬ Revoked s ∧ ¬ ExpiredAt s ct

/-- Five minutes in nanoseconds, as the property text of C36 has it. -/
def fiveMinutesNs : Nat := 300 * 1000000000

/-- The account's login session `p`, if on record. -/
def uatOf (e : Entry) (p : Nat) : Option Sess := e.uats.bind (fun m => lookup m p)

theorem stateLive_iff (s : Sess) (ct : Nat) : stateLive s.state ct = true ↔ LiveAt s ct := by
  unfold stateLive liveRevoked liveExpires liveNever LiveAt Revoked ExpiredAt
  cases h : s.state with
  | revokedAt c => simp
  | expiresAt x => simp
  | neverExpires => simp

theorem stateLive_false_iff (s : Sess) (ct : Nat) : stateLive s.state ct = false ↔ (Revoked s ∨ ExpiredAt s ct) := by
  rw [← Bool.not_eq_true, stateLive_iff]
  unfold LiveAt
  constructor
  · intro h
    by_cases hr : Revoked s
    · exact Or.inl hr
    · by_cases he : ExpiredAt s ct
      · exact Or.inr he
      · exact absurd ⟨hr, he⟩ h
  · rintro (h | h) ⟨h1, h2⟩
    · exact h1 h
    · exact h2 h

/-- The exact condition under which `check_oauth2_account_uuid_valid` lets a token through. -/
theorem acctValid_true_iff (e : Entry) (sid : Nat) (parent : Option Nat) (iat ct : Nat) :
    acctValid e sid parent iat ct = true ↔
      withinWindow e ct = true ∧
      ((∃ o, lookup e.o2s sid = some o ∧ LiveAt o ct ∧
          ∀ p, parent = some p →
            (∃ u, uatOf e p = some u ∧ LiveAt u ct) ∨
            (uatOf e p = none ∧ (p ∈ e.apis ∨ ct < iat * 1000000000 + fiveMinutesNs))) ∨
       (lookup e.o2s sid = none ∧ ct < iat * 1000000000 + fiveMinutesNs)) := by
  unfold acctValid validOutsideWindow validGrace validO2Dead validParentOk validParentMissing
    validO2Missing validGraceWindowSecs fiveMinutesNs
  cases hw : withinWindow e ct
  · simp
  · cases ho : lookup e.o2s sid with
    | none => simp
    | some o =>
      by_cases hlo : LiveAt o ct
      · have hl : stateLive o.state ct = true := (stateLive_iff o ct).mpr hlo
        cases parent with
        | none => simp [hl, hlo]
        | some p =>
          have hfold : (e.uats.bind fun m => lookup m p) = uatOf e p := rfl
          simp only [hfold]
          cases hu : uatOf e p with
          | none =>
            by_cases ha : p ∈ e.apis
            · simp [hl, hlo, ha, hu]
            · by_cases hg : ct < iat * 1000000000 + 300 * 1000000000
              · simp [hl, hlo, ha, hg, hu]
              · simp [hl, hlo, ha, hg, hu]
          | some u =>
            by_cases hlu : LiveAt u ct
            · have hul : stateLive u.state ct = true := (stateLive_iff u ct).mpr hlu
              simp [hl, hlo, hul, hlu, hu]
            · have hul : stateLive u.state ct = false := by
                rw [← Bool.not_eq_true, stateLive_iff]; exact hlu
              simp [hl, hlo, hul, hlu, hu]
      · have hl : stateLive o.state ct = false := by
          rw [← Bool.not_eq_true, stateLive_iff]; exact hlo
        simp [hl, hlo]

/-! ## Lookups through a write transaction -/

theorem lookup_setAcct (l : List (Nat × Entry)) (a : Nat) (e : Entry) (b : Nat) :
    lookup (setAcct l a e) b = if b = a then (lookup l a).map (fun _ => e) else lookup l b := by
  induction l with
  | nil => simp [setAcct, lookup]
  | cons hd tl ih =>
    obtain ⟨k, v⟩ := hd
    unfold setAcct at ih ⊢
    by_cases hk : k = a
    · subst hk
      by_cases hb : b = k
      · subst hb; simp [lookup]
      · simp [lookup, hb]
        simpa [hb] using ih
    · by_cases hb : b = a
      · subst hb
        have : ¬ b = k := fun h => hk h.symm
        simp [lookup, hk, this]
        simpa using ih
      · by_cases hbk : b = k
        · subst hbk; simp [lookup, hk]
        · simp [lookup, hk, hbk]
          simpa [hb] using ih

/-- What a write transaction leaves behind. -/
theorem update_spec {w w' : World} {a : Nat} {f : Entry → Entry} {m : Mod} {ct : Nat}
    (h : w.update a f m ct = some w') :
    ∃ e, w.acct a = some e ∧ w'.acct a = some (Kanidm.SessionPlugin.step (f e) (.write m ct w.cid)) ∧
      (∀ b, b ≠ a → w'.acct b = w.acct b) ∧ w'.reg = w.reg ∧ w'.nextSid = w.nextSid := by
  unfold World.update at h
  cases he : w.acct a with
  | none => simp [he] at h
  | some e =>
    simp only [he, Option.some.injEq] at h
    subst h
    refine ⟨e, rfl, ?_, ?_, rfl, rfl⟩
    · simp only [World.acct] at he ⊢
      rw [lookup_setAcct]; simp [he]
    · intro b hb
      simp only [World.acct]
      rw [lookup_setAcct]; simp [hb]

theorem write_spec {w w' : World} {a : Nat} {m : Mod} {ct : Nat} (h : w.write a m ct = some w') :
    ∃ e, w.acct a = some e ∧ w'.acct a = some (Kanidm.SessionPlugin.step e (.write m ct w.cid)) ∧
      (∀ b, b ≠ a → w'.acct b = w.acct b) ∧ w'.reg = w.reg ∧ w'.nextSid = w.nextSid :=
  update_spec (f := id) h

theorem update_isSome {w : World} {a : Nat} {e : Entry} (f : Entry → Entry) (m : Mod) (ct : Nat)
    (h : w.acct a = some e) : ∃ w', w.update a f m ct = some w' := by
  unfold World.update; simp [h]

/-! ## Revoked stays revoked (one write) -/

/-- The value under `k` is a revoked session. -/
def RevokedIn (m : SMap) (k : Nat) : Prop := ∃ s, lookup m k = some s ∧ Revoked s

theorem revokedIn_o2s_write (e : Entry) (md : Mod) (ct cid k : Nat) (h : RevokedIn e.o2s k) :
    RevokedIn (Kanidm.SessionPlugin.step e (.write md ct cid)).o2s k := by
  obtain ⟨s, hs, c, hr⟩ := h
  have h1 : ∃ s1, lookup (applyMod cid e md).o2s k = some s1 ∧ s1.state = .revokedAt c := by
    cases md with
    | grant o parent exp issued =>
      refine ⟨s, ?_, hr⟩
      simp only [applyMod]
      rw [lookup_insertO2, hs]
      have : Kanidm.Gen.SessionPlugin.o2InsertReplaces (SState.cmp (stateOf exp) s.state) = false := by
        rw [hr]; cases exp <;> simp [stateOf, SState.cmp, Kanidm.Gen.SessionPlugin.o2InsertReplaces]
      simp [this]
    | revokeO2 o =>
      refine ⟨s, ?_, hr⟩
      simp only [applyMod]
      rw [lookup_revokeKey, hs]
      simp [revoke_of_revoked hr]
    | _ => exact ⟨s, hs, hr⟩
  obtain ⟨s1, hs1, hr1⟩ := h1
  refine ⟨s1, ?_, c, hr1⟩
  simp only [Kanidm.SessionPlugin.step]
  rw [plugin_o2s, lookup_mapVals, hs1]
  simp [o2Post_of_revoked hr1]

/-- The login session `k` of the entry is on record and revoked. -/
def UatRevoked (e : Entry) (k : Nat) : Prop := ∃ s, uatOf e k = some s ∧ Revoked s

theorem uatRevoked_write (e : Entry) (md : Mod) (ct cid k : Nat) (h : UatRevoked e k) :
    UatRevoked (Kanidm.SessionPlugin.step e (.write md ct cid)) k := by
  obtain ⟨s, hs, c, hr⟩ := h
  unfold uatOf at hs
  cases hm : e.uats with
  | none => simp [hm] at hs
  | some m =>
    simp only [hm, Option.bind_some] at hs
    have h1 : ∃ m1 s1, (applyMod cid e md).uats = some m1 ∧ lookup m1 k = some s1 ∧ s1.state = .revokedAt c := by
      cases md with
      | record s' cred exp issued =>
        refine ⟨insertVacant m s' ⟨stateOf exp, issued, cred⟩, s, by simp [applyMod, hm], ?_, hr⟩
        rw [lookup_insertVacant, hs]
      | revoke s' =>
        refine ⟨revokeKey cid s' m, s, by simp [applyMod, hm], ?_, hr⟩
        rw [lookup_revokeKey, hs]; simp [revoke_of_revoked hr]
      | purgeUats =>
        refine ⟨revokeAll cid m, s, by simp [applyMod, hm], ?_, hr⟩
        rw [lookup_revokeAll, hs]; simp [revoke_of_revoked hr]
      | _ => exact ⟨m, s, by simp [applyMod, hm], hs, hr⟩
    obtain ⟨m1, s1, hm1, hs1, hr1⟩ := h1
    refine ⟨s1, ?_, c, hr1⟩
    unfold uatOf
    simp only [Kanidm.SessionPlugin.step, plugin_uats, hm1, Option.map_some, Option.bind_some]
    rw [lookup_mapVals, hs1]
    simp [uatPost_of_revoked hr1]

theorem revokedIn_plugin (e : Entry) (ct cid k : Nat) (h : RevokedIn e.o2s k) :
    RevokedIn (plugin ct cid e).o2s k := by
  obtain ⟨s, hs, c, hr⟩ := h
  refine ⟨s, ?_, c, hr⟩
  rw [plugin_o2s, lookup_mapVals, hs]
  simp [o2Post_of_revoked hr]

/-- The plugin leaves `issued_at` of every OAuth2 session alone. -/
theorem plugin_o2s_issued (e : Entry) (ct cid k : Nat) (s : Sess) (h : lookup e.o2s k = some s) :
    ∃ s', lookup (plugin ct cid e).o2s k = some s' ∧ s'.issued = s.issued := by
  refine ⟨o2Post (plugin ct cid e).uats ct cid s, ?_, o2Post_issued _ _ _ _⟩
  rw [plugin_o2s, lookup_mapVals, h]; rfl

end Kanidm.OAuth2.Token
