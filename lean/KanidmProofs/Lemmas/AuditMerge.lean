import KanidmProofs.Lemmas.SessionMerge
/-!
Helper lemmas for the audit-log part of C11: `mergemaps!` is the merge loop with an
always-true replace test; `remove_oldest` through `lookup`; `above` only depends on the key set.
-/
namespace Kanidm.SessionMerge
open Kanidm.Gen.SessionOrd

variable {α : Type}

theorem insertOver_eq (m : List (Nat × α)) (k : Nat) (v : α) :
    insertOver m k v = mergeOne (fun _ _ => true) m k v := by
  induction m with
  | nil => rfl
  | cons hd tl ih =>
    obtain ⟨k', v'⟩ := hd
    by_cases hk : k = k' <;> simp [insertOver, mergeOne, hk, ih]

theorem mergemaps_eq (a b : List (Nat × α)) : mergemaps a b = coreMerge (fun _ _ => true) a b := by
  unfold mergemaps coreMerge
  congr 1
  funext m e
  exact insertOver_eq m e.1 e.2

theorem pickOpt_true (x y : Option α) : pickOpt (fun _ _ => true) x y = y.orElse (fun _ => x) := by
  cases x <;> cases y <;> simp [pickOpt, pick]

/-- `mergemaps!(a, b)`: `b` wins. -/
theorem lookup_mergemaps (a b : List (Nat × α)) (hb : KeysNodup b) (j : Nat) :
    lookup (mergemaps a b) j = (lookup b j).orElse (fun _ => lookup a j) := by
  rw [mergemaps_eq, lookup_coreMerge _ _ _ hb, pickOpt_true]

theorem keysNodup_mergemaps (a b : List (Nat × α)) (ha : KeysNodup a) : KeysNodup (mergemaps a b) := by
  rw [mergemaps_eq]; exact keysNodup_coreMerge _ _ _ ha

theorem length_mergemaps_le (a b : List (Nat × α)) : (mergemaps a b).length ≤ a.length + b.length := by
  rw [mergemaps_eq]; exact length_coreMerge_le _ _ _

theorem mem_keys_coreMerge (repl : α → α → Bool) (a b : List (Nat × α)) (j : Nat) :
    j ∈ (coreMerge repl a b).map (·.1) ↔ j ∈ a.map (·.1) ∨ j ∈ b.map (·.1) := by
  unfold coreMerge
  induction b generalizing a with
  | nil => simp
  | cons hd tl ih =>
    obtain ⟨k, v⟩ := hd
    simp only [List.foldl_cons, List.map_cons, List.mem_cons]
    rw [ih, keys_mergeOne]
    by_cases hm : k ∈ a.map (·.1)
    · simp only [hm, if_true]
      constructor
      · rintro (h | h)
        · exact Or.inl h
        · exact Or.inr (Or.inr h)
      · rintro (h | h | h)
        · exact Or.inl h
        · subst h; exact Or.inl hm
        · exact Or.inr h
    · simp only [hm, if_false, List.mem_append, List.mem_singleton]
      constructor
      · rintro ((h | h) | h)
        · exact Or.inl h
        · exact Or.inr (Or.inl h)
        · exact Or.inr (Or.inr h)
      · rintro (h | h | h)
        · exact Or.inl (Or.inl h)
        · exact Or.inl (Or.inr h)
        · exact Or.inr h

theorem above_eq_keys (m : List (Nat × α)) (k : Nat) :
    above m k = ((m.map (·.1)).filter (fun j => decide (k < j))).length := by
  unfold above
  rw [List.filter_map, List.length_map]
  rfl

/-- `above` only depends on the set of keys. -/
theorem above_congr (m m' : List (Nat × α)) (hm : KeysNodup m) (hm' : KeysNodup m')
    (h : ∀ j, j ∈ m.map (·.1) ↔ j ∈ m'.map (·.1)) (k : Nat) : above m k = above m' k := by
  rw [above_eq_keys, above_eq_keys]
  exact ((List.perm_ext_iff_of_nodup hm hm').mpr h |>.filter _).length_eq

theorem above_lt_length (m : List (Nat × α)) (k : Nat) (hk : k ∈ m.map (·.1)) :
    above m k < m.length := by
  rw [above_eq_keys]
  have : ((m.map (·.1)).filter (fun j => decide (k < j))).length < (m.map (·.1)).length := by
    rw [List.length_filter_lt_length_iff_exists]
    exact ⟨k, hk, by simp⟩
  simpa using this

theorem lookup_removeOldest (cap : Nat) (m : AMap) (hm : KeysNodup m) (k : Nat) :
    lookup (removeOldest cap m) k = if above m k < cap then lookup m k else none := by
  unfold removeOldest
  rw [lookup_filter' _ m hm k]
  cases lookup m k with
  | none => simp
  | some v => by_cases h : above m k < cap <;> simp [Option.filter, h]

theorem removeOldest_id (cap : Nat) (m : AMap) (h : m.length ≤ cap) : removeOldest cap m = m := by
  unfold removeOldest
  rw [List.filter_eq_self]
  intro e he
  have := above_lt_length m e.1 (List.mem_map_of_mem (f := (·.1)) he)
  simp only [decide_eq_true_eq]
  omega

theorem lookup_audit (newer older : AMap) (t : Nat) (hn : KeysNodup newer) (ho : KeysNodup older)
    (k : Nat) :
    lookup (auditReplMerge newer older t) k =
      if above (mergemaps older newer) k < auditCapacity
      then (lookup newer k).orElse (fun _ => lookup older k) else none := by
  unfold auditReplMerge
  rw [lookup_removeOldest _ _ (keysNodup_mergemaps _ _ ho), lookup_mergemaps _ _ hn]

theorem audit_comm_aux (a b : AMap) (t : Nat) (ha : KeysNodup a) (hb : KeysNodup b)
    (hu : ∀ k x y, lookup a k = some x → lookup b k = some y → x = y) :
    SEq (auditReplMerge a b t) (auditReplMerge b a t) := by
  intro k
  rw [lookup_audit a b t ha hb, lookup_audit b a t hb ha]
  have habove : above (mergemaps b a) k = above (mergemaps a b) k := by
    apply above_congr _ _ (keysNodup_mergemaps _ _ hb) (keysNodup_mergemaps _ _ ha)
    intro j
    rw [mergemaps_eq, mergemaps_eq, mem_keys_coreMerge, mem_keys_coreMerge]
    exact Or.comm
  rw [habove]
  have hval : (lookup a k).orElse (fun _ => lookup b k) = (lookup b k).orElse (fun _ => lookup a k) := by
    cases hx : lookup a k with
    | none => cases lookup b k <;> simp
    | some x =>
      cases hy : lookup b k with
      | none => simp
      | some y => simp [hu k x y hx hy]
  rw [hval]

theorem keys_coreMerge_sub (repl : α → α → Bool) (a b : List (Nat × α))
    (h : ∀ j, j ∈ b.map (·.1) → j ∈ a.map (·.1)) :
    (coreMerge repl a b).map (·.1) = a.map (·.1) := by
  unfold coreMerge
  induction b generalizing a with
  | nil => rfl
  | cons hd tl ih =>
    obtain ⟨k, v⟩ := hd
    have hk : k ∈ a.map (·.1) := h k (by simp)
    have hkeys : (mergeOne repl a k v).map (·.1) = a.map (·.1) := by
      rw [keys_mergeOne]; simp only [hk, if_true]
    simp only [List.foldl_cons]
    rw [ih (mergeOne repl a k v) (by
      intro j hj; rw [hkeys]; exact h j (by simp only [List.map_cons, List.mem_cons]; exact Or.inr hj)),
      hkeys]

theorem audit_idem_aux (a : AMap) (t : Nat) (ha : KeysNodup a) (hc : a.length ≤ auditCapacity) :
    SEq (auditReplMerge a a t) a := by
  intro k
  rw [lookup_audit a a t ha ha]
  have hval : (lookup a k).orElse (fun _ => lookup a k) = lookup a k := by
    cases lookup a k <;> simp
  rw [hval]
  cases hx : lookup a k with
  | none => simp
  | some x =>
    have hkeys : (mergemaps a a).map (·.1) = a.map (·.1) := by
      rw [mergemaps_eq]; exact keys_coreMerge_sub _ a a (fun _ h => h)
    have hlen : (mergemaps a a).length = a.length := by
      have := congrArg List.length hkeys
      simpa using this
    have := above_lt_length (mergemaps a a) k (by rw [hkeys]; exact mem_keys_of_lookup hx)
    have hlt : above (mergemaps a a) k < auditCapacity := by omega
    simp [hlt]

theorem audit_assoc_small (a b c : AMap) (t : Nat) (ha : KeysNodup a) (hb : KeysNodup b)
    (_hc : KeysNodup c) (hsz : a.length + b.length + c.length ≤ auditCapacity) :
    SEq (auditReplMerge (auditReplMerge a b t) c t) (auditReplMerge a (auditReplMerge b c t) t) := by
  have l1 := length_mergemaps_le b a
  have l2 := length_mergemaps_le c b
  have e1 : auditReplMerge a b t = mergemaps b a := removeOldest_id _ _ (by omega)
  have e2 : auditReplMerge b c t = mergemaps c b := removeOldest_id _ _ (by omega)
  have l3 := length_mergemaps_le c (mergemaps b a)
  have l4 := length_mergemaps_le (mergemaps c b) a
  have e3 : auditReplMerge (mergemaps b a) c t = mergemaps c (mergemaps b a) :=
    removeOldest_id _ _ (by omega)
  have e4 : auditReplMerge a (mergemaps c b) t = mergemaps (mergemaps c b) a :=
    removeOldest_id _ _ (by omega)
  rw [e1, e2, e3, e4]
  intro k
  rw [lookup_mergemaps _ _ (keysNodup_mergemaps _ _ hb), lookup_mergemaps _ _ ha,
    lookup_mergemaps _ _ ha, lookup_mergemaps _ _ hb]
  cases lookup a k <;> simp

/-! ### Truncation: full associativity -/

def cnt (l : List Nat) (k : Nat) : Nat := (l.filter (fun j => decide (k < j))).length

theorem above_eq_cnt {α : Type} (m : List (Nat × α)) (k : Nat) : above m k = cnt (m.map (·.1)) k :=
  above_eq_keys m k

theorem max_exists (l : List Nat) (p : Nat → Prop) (h : ∃ x, x ∈ l ∧ p x) :
    ∃ x, x ∈ l ∧ p x ∧ ∀ y, y ∈ l → p y → y ≤ x := by
  induction l with
  | nil => obtain ⟨x, hx, _⟩ := h; cases hx
  | cons a tl ih =>
    by_cases htl : ∃ x, x ∈ tl ∧ p x
    · obtain ⟨x, hx, hpx, hmax⟩ := ih htl
      by_cases hpa : p a
      · by_cases hax : a ≤ x
        · refine ⟨x, List.mem_cons_of_mem _ hx, hpx, ?_⟩
          intro y hy hpy
          rcases List.mem_cons.mp hy with rfl | hy'
          · exact hax
          · exact hmax y hy' hpy
        · refine ⟨a, List.mem_cons_self, hpa, ?_⟩
          intro y hy hpy
          rcases List.mem_cons.mp hy with rfl | hy'
          · exact Nat.le_refl _
          · have := hmax y hy' hpy; omega
      · refine ⟨x, List.mem_cons_of_mem _ hx, hpx, ?_⟩
        intro y hy hpy
        rcases List.mem_cons.mp hy with rfl | hy'
        · exact absurd hpy hpa
        · exact hmax y hy' hpy
    · obtain ⟨x, hx, hpx⟩ := h
      rcases List.mem_cons.mp hx with rfl | hx'
      · refine ⟨x, List.mem_cons_self, hpx, ?_⟩
        intro y hy hpy
        rcases List.mem_cons.mp hy with rfl | hy'
        · exact Nat.le_refl _
        · exact absurd ⟨y, hy', hpy⟩ htl
      · exact absurd ⟨x, hx', hpx⟩ htl

theorem length_filter_le_of_subset (X Y : List Nat) (hY : Y.Nodup) (p q : Nat → Bool)
    (h : ∀ y, y ∈ Y → p y = true → y ∈ X ∧ q y = true) :
    (Y.filter p).length ≤ (X.filter q).length := by
  apply List.Nodup.length_le_of_subset (hY.filter _)
  intro y hy
  rw [List.mem_filter] at hy ⊢
  exact h y hy.1 hy.2

/-- If `Y ⊆ X` contains every element of `X` with fewer than `N` larger elements, then "fewer
than `N` larger elements" means the same in `Y` and in `X`. -/
theorem star (X Y : List Nat) (N : Nat) (hX : X.Nodup) (hY : Y.Nodup)
    (hsub : ∀ y, y ∈ Y → y ∈ X) (htop : ∀ x, x ∈ X → cnt X x < N → x ∈ Y) (k : Nat) :
    cnt Y k < N ↔ cnt X k < N := by
  constructor
  · intro hlt
    apply Classical.byContradiction
    intro hge
    have hge : N ≤ cnt X k := by omega
    by_cases hall : ∀ x, x ∈ X → k < x → x ∈ Y
    · have : cnt X k ≤ cnt Y k := by
        unfold cnt
        apply length_filter_le_of_subset Y X hX
        intro x hx hp
        exact ⟨hall x hx (by simpa using hp), hp⟩
      omega
    · have hex : ∃ x, x ∈ X ∧ (k < x ∧ x ∉ Y) := by
        apply Classical.byContradiction
        intro hne
        apply hall
        intro x hx hkx
        apply Classical.byContradiction
        intro hxy
        exact hne ⟨x, hx, hkx, hxy⟩
      obtain ⟨k', hk'X, ⟨hkk', hk'Y⟩, hmax⟩ := max_exists X (fun x => k < x ∧ x ∉ Y) hex
      have h1 : N ≤ cnt X k' := by
        apply Classical.byContradiction
        intro hh
        exact hk'Y (htop k' hk'X (by omega))
      have h2 : cnt X k' ≤ cnt Y k := by
        unfold cnt
        apply length_filter_le_of_subset Y X hX
        intro x hx hp
        have hk'x : k' < x := by simpa using hp
        have hxY : x ∈ Y := by
          apply Classical.byContradiction
          intro hxy
          have := hmax x hx ⟨by omega, hxy⟩
          omega
        exact ⟨hxY, by simp; omega⟩
      omega
  · intro hlt
    have : cnt Y k ≤ cnt X k := by
      unfold cnt
      apply length_filter_le_of_subset X Y hY
      intro y hy hp
      exact ⟨hsub y hy, hp⟩
    omega

theorem above_mono {α : Type} (m m' : List (Nat × α)) (hm : KeysNodup m)
    (h : ∀ j, j ∈ m.map (·.1) → j ∈ m'.map (·.1)) (k : Nat) : above m k ≤ above m' k := by
  rw [above_eq_cnt, above_eq_cnt]
  unfold cnt
  apply length_filter_le_of_subset _ _ hm
  intro y hy hp
  exact ⟨h y hy, hp⟩

theorem mem_keys_removeOldest (N : Nat) (m : AMap) (k : Nat) :
    k ∈ (removeOldest N m).map (·.1) ↔ k ∈ m.map (·.1) ∧ above m k < N := by
  unfold removeOldest
  simp only [List.mem_map, List.mem_filter, decide_eq_true_eq]
  constructor
  · rintro ⟨e, ⟨he, hlt⟩, rfl⟩
    exact ⟨⟨e, he, rfl⟩, hlt⟩
  · rintro ⟨⟨e, he, rfl⟩, hlt⟩
    exact ⟨e, ⟨he, hlt⟩, rfl⟩

theorem keysNodup_removeOldest (N : Nat) (m : AMap) (h : KeysNodup m) : KeysNodup (removeOldest N m) :=
  keysNodup_filter _ _ h

/-- Truncating one operand first does not change which cids survive the final truncation. -/
theorem trunc_iff (N : Nat) (x y m : AMap) (other : List Nat) (hx : KeysNodup x) (hy : KeysNodup y)
    (hm : KeysNodup m)
    (memX : ∀ j, j ∈ x.map (·.1) ↔ j ∈ m.map (·.1) ∨ j ∈ other)
    (memY : ∀ j, j ∈ y.map (·.1) ↔ j ∈ (removeOldest N m).map (·.1) ∨ j ∈ other) (k : Nat) :
    above y k < N ↔ above x k < N := by
  rw [above_eq_cnt, above_eq_cnt]
  apply star _ _ N hx hy
  · intro j hj
    rcases (memY j).mp hj with h | h
    · exact (memX j).mpr (Or.inl ((mem_keys_removeOldest N m j).mp h).1)
    · exact (memX j).mpr (Or.inr h)
  · intro j hj hlt
    rcases (memX j).mp hj with h | h
    · refine (memY j).mpr (Or.inl ((mem_keys_removeOldest N m j).mpr ⟨h, ?_⟩))
      have := above_mono m x hm (fun i hi => (memX i).mpr (Or.inl hi)) j
      rw [above_eq_cnt x] at this
      omega
    · exact (memY j).mpr (Or.inr h)

theorem lookup_trunc_of_lt (N : Nat) (m x : AMap) (hm : KeysNodup m)
    (hsub : ∀ j, j ∈ m.map (·.1) → j ∈ x.map (·.1)) (k : Nat) (hlt : above x k < N) :
    lookup (removeOldest N m) k = lookup m k := by
  rw [lookup_removeOldest N m hm]
  cases hl : lookup m k with
  | none => simp
  | some v =>
    have := above_mono m x hm hsub k
    have hk : above m k < N := by omega
    simp [hk]

/-- Audit log: full associativity (fixed roles), truncation included. -/
theorem audit_assoc_aux (a b c : AMap) (t : Nat) (ha : KeysNodup a) (hb : KeysNodup b)
    (hc : KeysNodup c) :
    SEq (auditReplMerge (auditReplMerge a b t) c t) (auditReplMerge a (auditReplMerge b c t) t) := by
  intro k
  have nab : KeysNodup (auditReplMerge a b t) := keysNodup_removeOldest _ _ (keysNodup_mergemaps _ _ hb)
  have nbc : KeysNodup (auditReplMerge b c t) := keysNodup_removeOldest _ _ (keysNodup_mergemaps _ _ hc)
  have nu1 : KeysNodup (mergemaps b a) := keysNodup_mergemaps _ _ hb
  have nu2 : KeysNodup (mergemaps c b) := keysNodup_mergemaps _ _ hc
  rw [lookup_audit _ c t nab hc, lookup_audit a _ t ha nbc]
  -- left: truncating (a·b) first is invisible
  have keysmm : ∀ (p q : AMap) (j : Nat), j ∈ (mergemaps p q).map (·.1) ↔ j ∈ p.map (·.1) ∨ j ∈ q.map (·.1) := by
    intro p q j; rw [mergemaps_eq]; exact mem_keys_coreMerge _ p q j
  have hL := trunc_iff auditCapacity (mergemaps c (mergemaps b a)) (mergemaps c (auditReplMerge a b t))
    (mergemaps b a) (c.map (·.1)) (keysNodup_mergemaps _ _ hc) (keysNodup_mergemaps _ _ hc) nu1
    (fun j => by rw [keysmm]; exact Or.comm) (fun j => by rw [keysmm]; exact Or.comm) k
  have hR := trunc_iff auditCapacity (mergemaps (mergemaps c b) a) (mergemaps (auditReplMerge b c t) a)
    (mergemaps c b) (a.map (·.1)) (keysNodup_mergemaps _ _ nu2) (keysNodup_mergemaps _ _ nbc) nu2
    (fun j => by rw [keysmm]) (fun j => by rw [keysmm]; rfl) k
  have hsame : above (mergemaps c (mergemaps b a)) k = above (mergemaps (mergemaps c b) a) k := by
    apply above_congr _ _ (keysNodup_mergemaps _ _ hc) (keysNodup_mergemaps _ _ nu2)
    intro j
    rw [keysmm, keysmm, keysmm, keysmm]
    constructor
    · rintro (h | h | h)
      · exact Or.inl (Or.inl h)
      · exact Or.inl (Or.inr h)
      · exact Or.inr h
    · rintro ((h | h) | h)
      · exact Or.inl h
      · exact Or.inr (Or.inl h)
      · exact Or.inr (Or.inr h)
  by_cases hlt : above (mergemaps c (mergemaps b a)) k < auditCapacity
  · have hlt' : above (mergemaps (mergemaps c b) a) k < auditCapacity := by omega
    rw [if_pos (hL.mpr hlt), if_pos (hR.mpr hlt')]
    have e1 : lookup (auditReplMerge a b t) k = lookup (mergemaps b a) k :=
      lookup_trunc_of_lt _ _ _ nu1 (fun j hj => (keysmm _ _ j).mpr (Or.inr hj)) k hlt
    have e2 : lookup (auditReplMerge b c t) k = lookup (mergemaps c b) k :=
      lookup_trunc_of_lt _ _ _ nu2 (fun j hj => (keysmm _ _ j).mpr (Or.inl hj)) k hlt'
    rw [e1, e2, lookup_mergemaps _ _ ha, lookup_mergemaps _ _ hb]
    cases lookup a k <;> simp
  · have hlt' : ¬ above (mergemaps (mergemaps c b) a) k < auditCapacity := by omega
    rw [if_neg (fun h => hlt (hL.mp h)), if_neg (fun h => hlt' (hR.mp h))]


end Kanidm.SessionMerge
