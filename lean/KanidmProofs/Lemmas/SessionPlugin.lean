import KanidmModel.SessionPlugin
import KanidmProofs.Lemmas.SessionMerge
/-!
Helper lemmas for C36: per-session closed form of the three sweeps of
`SessionConsistency::modify_inner`, `lookup` through `map`, preservation facts of the modlist
operations.
-/
namespace Kanidm.SessionPlugin
open Kanidm.Gen.SessionOrd Kanidm.SessionMerge Kanidm.Gen.SessionPlugin

/-- A session that is not `RevokedAt`. -/
def Live (s : Sess) : Prop := isRevoked s.state = false

instance (s : Sess) : Decidable (Live s) := by unfold Live; infer_instance

/-- What one sweep does to one session. -/
def sw (cid : Nat) (sel : Sess → Bool) (s : Sess) : Sess := if sel s then revoke cid s else s

/-- Map over the values of an association list. -/
def mapVals (f : Sess → Sess) (m : SMap) : SMap := m.map (fun e => (e.1, f e.2))

theorem sweep_eq (cid : Nat) (sel : Sess → Bool) (m : SMap) : sweep cid sel m = mapVals (sw cid sel) m := by
  unfold sweep mapVals sw
  apply List.map_congr_left
  intro e _
  split <;> rfl

theorem mapVals_mapVals (f g : Sess → Sess) (m : SMap) : mapVals g (mapVals f m) = mapVals (g ∘ f) m := by
  simp [mapVals, List.map_map, Function.comp_def]

theorem lookup_mapVals (f : Sess → Sess) (m : SMap) (k : Nat) :
    lookup (mapVals f m) k = (lookup m k).map f := by
  induction m with
  | nil => rfl
  | cons hd tl ih =>
    obtain ⟨k', v⟩ := hd
    by_cases h : k = k'
    · simp [mapVals, lookup, h]
    · simp only [mapVals, List.map_cons, lookup, h, if_false]
      exact ih

theorem mem_mapVals {f : Sess → Sess} {m : SMap} {k : Nat} {s' : Sess} (h : (k, s') ∈ mapVals f m) :
    ∃ s, (k, s) ∈ m ∧ s' = f s := by
  unfold mapVals at h
  obtain ⟨⟨k0, s0⟩, hm, he⟩ := List.mem_map.mp h
  simp only [Prod.mk.injEq] at he
  exact ⟨s0, he.1 ▸ hm, he.2.symm⟩

theorem mem_mapVals_of_mem {f : Sess → Sess} {m : SMap} {k : Nat} {s : Sess} (h : (k, s) ∈ m) :
    (k, f s) ∈ mapVals f m := List.mem_map.mpr ⟨(k, s), h, rfl⟩

theorem keys_mapVals (f : Sess → Sess) (m : SMap) : (mapVals f m).map (·.1) = m.map (·.1) := by
  simp [mapVals, List.map_map, Function.comp_def]

theorem lookup_of_mem {m : SMap} (hn : KeysNodup m) {k : Nat} {s : Sess} (h : (k, s) ∈ m) :
    lookup m k = some s := by
  induction m with
  | nil => cases h
  | cons hd tl ih =>
    obtain ⟨k', v⟩ := hd
    unfold KeysNodup at hn
    simp only [List.map_cons, List.nodup_cons] at hn
    rcases List.mem_cons.mp h with h2 | h2
    · cases h2; simp [lookup]
    · have : k ≠ k' := by
        intro hk
        exact hn.1 (hk ▸ List.mem_map.mpr ⟨(k, s), h2, rfl⟩)
      simp only [lookup, this, if_false]
      exact ih hn.2 h2

theorem mem_of_lookup {m : SMap} {k : Nat} {s : Sess} (h : lookup m k = some s) : (k, s) ∈ m := by
  induction m with
  | nil => simp [lookup] at h
  | cons hd tl ih =>
    obtain ⟨k', v⟩ := hd
    by_cases hk : k = k'
    · subst hk
      simp [lookup] at h
      simp [h]
    · simp only [lookup, hk, if_false] at h
      exact List.mem_cons_of_mem _ (ih h)

/-! ### `revoke` -/

theorem revoke_revoked (cid : Nat) (s : Sess) : ∃ c, (revoke cid s).state = .revokedAt c := by
  unfold revoke
  cases h : s.state with
  | revokedAt c => exact ⟨c, by simp [h]⟩
  | expiresAt e => exact ⟨cid, by simp⟩
  | neverExpires => exact ⟨cid, by simp⟩

theorem revoke_of_revoked {cid : Nat} {s : Sess} {c : Nat} (h : s.state = .revokedAt c) : revoke cid s = s := by
  unfold revoke; simp [h]

theorem revoke_payload (cid : Nat) (s : Sess) : (revoke cid s).payload = s.payload := by
  unfold revoke; split <;> rfl

theorem revoke_issued (cid : Nat) (s : Sess) : (revoke cid s).issued = s.issued := by
  unfold revoke; split <;> rfl

theorem not_live_revoke (cid : Nat) (s : Sess) : ¬ Live (revoke cid s) := by
  obtain ⟨c, h⟩ := revoke_revoked cid s
  simp [Live, h, isRevoked]

theorem sw_payload (cid : Nat) (sel : Sess → Bool) (s : Sess) : (sw cid sel s).payload = s.payload := by
  unfold sw; split
  · exact revoke_payload cid s
  · rfl

theorem sw_issued (cid : Nat) (sel : Sess → Bool) (s : Sess) : (sw cid sel s).issued = s.issued := by
  unfold sw; split
  · exact revoke_issued cid s
  · rfl

theorem sw_of_revoked {cid : Nat} {sel : Sess → Bool} {s : Sess} {c : Nat} (h : s.state = .revokedAt c) :
    sw cid sel s = s := by
  unfold sw; split
  · exact revoke_of_revoked h
  · rfl

/-- A sweep either leaves a session alone or leaves it revoked. -/
theorem sw_cases (cid : Nat) (sel : Sess → Bool) (s : Sess) :
    (sel s = false ∧ sw cid sel s = s) ∨ (sel s = true ∧ ¬ Live (sw cid sel s)) := by
  unfold sw
  cases h : sel s
  · left; simp
  · right; simp [not_live_revoke]

theorem live_sw {cid : Nat} {sel : Sess → Bool} {s : Sess} (h : Live (sw cid sel s)) :
    sel s = false ∧ sw cid sel s = s := by
  rcases sw_cases cid sel s with h' | h'
  · exact h'
  · exact absurd h h'.2

/-! ### The per-session closed form of the login-session sweeps -/

/-- What the plugin does to one login session. -/
def uatPost (creds : List Nat) (ct cid : Nat) (s : Sess) : Sess :=
  sw cid (selUatExpired ct) (sw cid (selCredGone creds) s)

/-- What the plugin does to one OAuth2 session, given the swept login sessions. -/
def o2Post (uats : Option SMap) (ct cid : Nat) (s : Sess) : Sess := sw cid (selO2 uats ct) s

theorem plugin_primary (ct cid : Nat) (e : Entry) : (plugin ct cid e).primary = e.primary := by
  simp [plugin, passOrder, List.foldl, applyPass]
theorem plugin_passkeys (ct cid : Nat) (e : Entry) : (plugin ct cid e).passkeys = e.passkeys := by
  simp [plugin, passOrder, List.foldl, applyPass]
theorem plugin_attested (ct cid : Nat) (e : Entry) : (plugin ct cid e).attested = e.attested := by
  simp [plugin, passOrder, List.foldl, applyPass]
theorem plugin_oauth2Cred (ct cid : Nat) (e : Entry) : (plugin ct cid e).oauth2Cred = e.oauth2Cred := by
  simp [plugin, passOrder, List.foldl, applyPass]
theorem plugin_apis (ct cid : Nat) (e : Entry) : (plugin ct cid e).apis = e.apis := by
  simp [plugin, passOrder, List.foldl, applyPass]

theorem plugin_uats (ct cid : Nat) (e : Entry) :
    (plugin ct cid e).uats = e.uats.map (mapVals (uatPost (credIds e) ct cid)) := by
  simp only [plugin, passOrder, List.foldl, applyPass]
  cases e.uats with
  | none => rfl
  | some m =>
    simp only [Option.map_some, sweep_eq, mapVals_mapVals]
    rfl

theorem plugin_o2s (ct cid : Nat) (e : Entry) :
    (plugin ct cid e).o2s = mapVals (o2Post (plugin ct cid e).uats ct cid) e.o2s := by
  simp only [plugin, passOrder, List.foldl, applyPass, sweep_eq]
  rfl

theorem credIds_plugin (ct cid : Nat) (e : Entry) : credIds (plugin ct cid e) = credIds e := by
  simp [credIds, credsFrom, credSources, plugin_primary, plugin_passkeys, plugin_attested, plugin_oauth2Cred]

/-- A login session that is live after the plugin was live before, is untouched, its credential
is in `cred_ids` and it has not reached its expiry. -/
theorem live_uatPost {creds : List Nat} {ct cid : Nat} {s : Sess} (h : Live (uatPost creds ct cid s)) :
    uatPost creds ct cid s = s ∧ Live s ∧ credOf s ∈ creds ∧ (∀ exp, s.state = .expiresAt exp → ct < exp) := by
  unfold uatPost at h ⊢
  obtain ⟨h2, e2⟩ := live_sw h
  rw [e2] at h
  obtain ⟨h1, e1⟩ := live_sw h
  rw [e1] at h2 e2 h ⊢
  refine ⟨e2, h, ?_, ?_⟩
  · have hl : Live s := h
    unfold selCredGone credPassLiveArm at h1
    cases hs : s.state with
    | revokedAt c => simp [Live, hs, isRevoked] at hl
    | expiresAt x =>
      simp only [hs] at h1
      simpa using h1
    | neverExpires =>
      simp only [hs] at h1
      simpa using h1
  · intro exp hs
    unfold selUatExpired uatExpiredGuard uatExpiredArm uatOtherArm at h2
    simp only [hs] at h2
    by_cases hx : exp ≤ ct
    · simp [hx] at h2
    · omega

/-- Conversely the plugin leaves a healthy login session exactly as it was. -/
theorem uatPost_healthy {creds : List Nat} {ct cid : Nat} {s : Sess}
    (hc : credOf s ∈ creds) (hx : ∀ exp, s.state = .expiresAt exp → ct < exp) :
    uatPost creds ct cid s = s := by
  unfold uatPost
  have h1 : sw cid (selCredGone creds) s = s := by
    unfold sw selCredGone credPassLiveArm credPassRevokedArm
    have : creds.contains (credOf s) = true := by simpa using hc
    cases hs : s.state <;> simp [hc]
  rw [h1]
  unfold sw selUatExpired uatExpiredGuard uatExpiredArm uatOtherArm
  cases hs : s.state with
  | revokedAt c => simp
  | neverExpires => simp
  | expiresAt x =>
    have := hx x hs
    have hn : ¬ x ≤ ct := by omega
    simp [hn]

theorem uatPost_of_revoked {creds : List Nat} {ct cid : Nat} {s : Sess} {c : Nat}
    (h : s.state = .revokedAt c) : uatPost creds ct cid s = s := by
  unfold uatPost
  rw [sw_of_revoked h, sw_of_revoked h]

theorem uatPost_payload (creds : List Nat) (ct cid : Nat) (s : Sess) :
    (uatPost creds ct cid s).payload = s.payload := by
  unfold uatPost; rw [sw_payload, sw_payload]

/-- The plugin either keeps a login session or revokes it (never drops or rewrites it). -/
theorem uatPost_cases (creds : List Nat) (ct cid : Nat) (s : Sess) :
    uatPost creds ct cid s = s ∨ uatPost creds ct cid s = revoke cid s := by
  unfold uatPost
  rcases sw_cases cid (selCredGone creds) s with ⟨_, h1⟩ | ⟨h1, _⟩
  · rw [h1]
    unfold sw; split
    · right; rfl
    · left; rfl
  · have hr : sw cid (selCredGone creds) s = revoke cid s := by unfold sw; simp [h1]
    rw [hr]
    obtain ⟨c, hc⟩ := revoke_revoked cid s
    right
    exact sw_of_revoked hc

/-! ### OAuth2 sweep -/

/-- The parent test as a proposition: the login-session attribute exists and the session names
no parent or a parent that is present and not revoked. -/
def ParentLive (uats : Option SMap) (s : Sess) : Prop :=
  ∃ m, uats = some m ∧ (parentOf s = none ∨ ∃ p ps, parentOf s = some p ∧ lookup m p = some ps ∧ Live ps)

theorem parentValid_iff (uats : Option SMap) (s : Sess) : parentValid uats s = true ↔ ParentLive uats s := by
  unfold parentValid ParentLive parentNoSessionMap parentNoId parentNotFound parentFound
  cases uats with
  | none => simp
  | some m =>
    cases hp : parentOf s with
    | none => simp
    | some p =>
      cases hl : lookup m p with
      | none => simp [hl]
      | some ps => simp [hl, Live]

theorem live_o2Post {uats : Option SMap} {ct cid : Nat} {s : Sess} (h : Live (o2Post uats ct cid s)) :
    o2Post uats ct cid s = s ∧ Live s ∧ (∀ exp, s.state = .expiresAt exp → ct < exp) ∧
      (ParentLive uats s ∨ ct < s.issued + graceWindow) := by
  unfold o2Post at h ⊢
  obtain ⟨h1, e1⟩ := live_sw h
  rw [e1] at h
  refine ⟨e1, h, ?_, ?_⟩
  · intro exp hs
    unfold selO2 o2ExpiredGuard o2ExpiredArm at h1
    simp only [hs] at h1
    by_cases hx : exp ≤ ct
    · simp [hx] at h1
    · omega
  · have horph : selOrphan uats ct s = false := by
      unfold selO2 o2ExpiredGuard o2ExpiredArm o2RevokedArm at h1
      cases hs : s.state with
      | revokedAt c => simp [Live, hs, isRevoked] at h
      | neverExpires => simpa [hs] using h1
      | expiresAt x =>
        simp only [hs] at h1
        by_cases hx : x ≤ ct
        · simp [hx] at h1
        · simpa [hx] using h1
    unfold selOrphan parentValidArm orphanArm at horph
    by_cases hp : parentValid uats s = true
    · left; exact (parentValid_iff uats s).mp hp
    · right
      simp only [hp] at horph
      by_cases hg : s.issued + graceWindow ≤ ct
      · simp [hg] at horph
      · omega

theorem o2Post_healthy {uats : Option SMap} {ct cid : Nat} {s : Sess}
    (hx : ∀ exp, s.state = .expiresAt exp → ct < exp)
    (hp : ParentLive uats s ∨ ct < s.issued + graceWindow) : o2Post uats ct cid s = s := by
  unfold o2Post sw
  have horph : selOrphan uats ct s = false := by
    unfold selOrphan parentValidArm orphanArm
    rcases hp with hp | hp
    · simp [(parentValid_iff uats s).mpr hp]
    · have : ¬ s.issued + graceWindow ≤ ct := by omega
      simp [this]
  have : selO2 uats ct s = false := by
    unfold selO2 o2ExpiredGuard o2ExpiredArm o2RevokedArm
    cases hs : s.state with
    | revokedAt c => rfl
    | neverExpires => simpa using horph
    | expiresAt x =>
      have := hx x hs
      have hn : ¬ x ≤ ct := by omega
      simp [hn, horph]
  simp [this]

theorem o2Post_of_revoked {uats : Option SMap} {ct cid : Nat} {s : Sess} {c : Nat}
    (h : s.state = .revokedAt c) : o2Post uats ct cid s = s := sw_of_revoked h

theorem o2Post_payload (uats : Option SMap) (ct cid : Nat) (s : Sess) :
    (o2Post uats ct cid s).payload = s.payload := sw_payload _ _ _

theorem o2Post_issued (uats : Option SMap) (ct cid : Nat) (s : Sess) :
    (o2Post uats ct cid s).issued = s.issued := sw_issued _ _ _

/-! ### The modlist operations keep what is revoked -/

theorem lookup_append_single (m : SMap) (k j : Nat) (v : Sess) :
    lookup (m ++ [(k, v)]) j = match lookup m j with | some x => some x | none => if j = k then some v else none := by
  induction m with
  | nil => simp [lookup]
  | cons hd tl ih =>
    obtain ⟨k', v'⟩ := hd
    by_cases h : j = k'
    · simp [lookup, h]
    · simp only [List.cons_append, lookup, h, if_false]
      exact ih

theorem lookup_insertVacant (m : SMap) (k j : Nat) (v : Sess) :
    lookup (insertVacant m k v) j = match lookup m j with | some x => some x | none => if j = k then some v else none := by
  unfold insertVacant
  cases hk : lookup m k with
  | some x =>
    simp only
    cases hj : lookup m j with
    | some y => rfl
    | none =>
      by_cases h : j = k
      · subst h; rw [hk] at hj; cases hj
      · simp [h]
  | none => simp only; exact lookup_append_single m k j v

theorem revokeKey_eq (cid k : Nat) (m : SMap) :
    revokeKey cid k m = m.map (fun e => (e.1, if e.1 = k then revoke cid e.2 else e.2)) := by
  unfold revokeKey
  apply List.map_congr_left
  intro e _
  split <;> rfl

theorem lookup_mapKV (f : Nat → Sess → Sess) (m : SMap) (k : Nat) :
    lookup (m.map (fun e => (e.1, f e.1 e.2))) k = (lookup m k).map (f k) := by
  induction m with
  | nil => rfl
  | cons hd tl ih =>
    obtain ⟨k', v⟩ := hd
    by_cases h : k = k'
    · simp [lookup, h]
    · simp only [List.map_cons, lookup, h, if_false]
      exact ih

theorem lookup_revokeKey (cid k : Nat) (m : SMap) (j : Nat) :
    lookup (revokeKey cid k m) j = (lookup m j).map (fun s => if j = k then revoke cid s else s) := by
  rw [revokeKey_eq]
  exact lookup_mapKV (fun a s => if a = k then revoke cid s else s) m j

theorem lookup_revokeAll (cid : Nat) (m : SMap) (j : Nat) :
    lookup (revokeAll cid m) j = (lookup m j).map (revoke cid) := lookup_mapVals (revoke cid) m j

theorem lookup_insertO2 (m : SMap) (k j : Nat) (v : Sess) :
    lookup (insertO2 m k v) j =
      match lookup m j with
      | some x => some (if j = k ∧ o2InsertReplaces (SState.cmp v.state x.state) = true then v else x)
      | none => if j = k then some v else none := by
  unfold insertO2
  cases hk : lookup m k with
  | none =>
    simp only
    rw [lookup_append_single]
    cases hj : lookup m j with
    | none => rfl
    | some x =>
      have : j ≠ k := by intro h; subst h; rw [hk] at hj; cases hj
      simp [this]
  | some y =>
    simp only
    have hm : (m.map (fun e => if e.1 = k then
        (if o2InsertReplaces (SState.cmp v.state e.2.state) then (k, v) else e) else e)) =
        m.map (fun e => (e.1, (fun a s => if a = k ∧ o2InsertReplaces (SState.cmp v.state s.state) = true then v else s) e.1 e.2)) := by
      apply List.map_congr_left
      intro e _
      obtain ⟨a, b⟩ := e
      by_cases h1 : a = k
      · by_cases h2 : o2InsertReplaces (SState.cmp v.state b.state) = true
        · simp [h1, h2]
        · simp [h1, h2]
      · simp [h1]
    rw [hm, lookup_mapKV (fun a s => if a = k ∧ o2InsertReplaces (SState.cmp v.state s.state) = true then v else s)]
    cases hj : lookup m j with
    | none =>
      have : j ≠ k := by intro h; subst h; rw [hk] at hj; cases hj
      simp [this]
    | some x => simp

end Kanidm.SessionPlugin
