import KanidmModel.ReplReap
import KanidmProofs.Lemmas.ReplMerge
/-! Helper lemmas for C09 (`KanidmProofs/C09.lean`). -/
namespace Kanidm.ReplReap
open Kanidm.Cid (Cid cidLt)
open Kanidm.ReplMerge
open Kanidm.RangeDiff (Range Ruv)
open Kanidm.Gen.ReapOps

/-! ## min / max of a timestamp list -/

theorem foldl_min_le (l : List Nat) (a : Nat) : l.foldl Nat.min a ≤ a := by
  induction l generalizing a with
  | nil => exact Nat.le_refl a
  | cons x xs ih => exact Nat.le_trans (ih (Nat.min a x)) (Nat.min_le_left a x)

theorem foldl_min_le_mem (l : List Nat) (a x : Nat) (h : x ∈ l) : l.foldl Nat.min a ≤ x := by
  induction l generalizing a with
  | nil => cases h
  | cons y ys ih =>
    rcases List.mem_cons.mp h with e | h'
    · subst e; exact Nat.le_trans (foldl_min_le ys (Nat.min a x)) (Nat.min_le_right a x)
    · exact ih (Nat.min a y) h'

theorem le_foldl_min (l : List Nat) (a b : Nat) (ha : b ≤ a) (hl : ∀ x ∈ l, b ≤ x) : b ≤ l.foldl Nat.min a := by
  induction l generalizing a with
  | nil => exact ha
  | cons y ys ih =>
    exact ih (Nat.min a y) (Nat.le_min.mpr ⟨ha, hl y (List.mem_cons_self ..)⟩)
      (fun x hx => hl x (List.mem_cons_of_mem _ hx))

theorem le_foldl_max (l : List Nat) (a : Nat) : a ≤ l.foldl Nat.max a := by
  induction l generalizing a with
  | nil => exact Nat.le_refl a
  | cons x xs ih => exact Nat.le_trans (Nat.le_max_left a x) (ih (Nat.max a x))

theorem mem_le_foldl_max (l : List Nat) (a x : Nat) (h : x ∈ l) : x ≤ l.foldl Nat.max a := by
  induction l generalizing a with
  | nil => cases h
  | cons y ys ih =>
    rcases List.mem_cons.mp h with e | h'
    · subst e; exact Nat.le_trans (Nat.le_max_right a x) (le_foldl_max ys (Nat.max a x))
    · exact ih (Nat.max a y) h'

theorem minList_le_mem {l : List Nat} {x : Nat} (h : x ∈ l) : minList l ≤ x := by
  cases l with
  | nil => cases h
  | cons y ys =>
    rcases List.mem_cons.mp h with e | h'
    · subst e; exact foldl_min_le ys x
    · exact foldl_min_le_mem ys y x h'

theorem mem_le_maxList {l : List Nat} {x : Nat} (h : x ∈ l) : x ≤ maxList l := by
  cases l with
  | nil => cases h
  | cons y ys =>
    rcases List.mem_cons.mp h with e | h'
    · subst e; exact le_foldl_max ys x
    · exact mem_le_foldl_max ys y x h'

theorem le_minList {l : List Nat} {b : Nat} (hne : l ≠ []) (hl : ∀ x ∈ l, b ≤ x) : b ≤ minList l := by
  cases l with
  | nil => exact absurd rfl hne
  | cons y ys =>
    exact le_foldl_min ys y b (hl y (List.mem_cons_self ..)) (fun x hx => hl x (List.mem_cons_of_mem _ hx))

theorem minList_le_maxList {l : List Nat} (hne : l ≠ []) : minList l ≤ maxList l := by
  cases l with
  | nil => exact absurd rfl hne
  | cons y ys => exact Nat.le_trans (minList_le_mem (List.mem_cons_self ..)) (mem_le_maxList (List.mem_cons_self ..))

/-! ## `sortDedup` yields distinct keys -/

theorem pairwise_insertKey (x : Nat) (l : List Nat) (h : l.Pairwise (· < ·)) :
    (insertKey x l).Pairwise (· < ·) := by
  induction l with
  | nil => simp [insertKey]
  | cons y ys ih =>
    have hy := List.pairwise_cons.mp h
    unfold insertKey
    by_cases h1 : x < y
    · simp only [h1, if_true]
      refine List.pairwise_cons.mpr ⟨?_, h⟩
      intro z hz
      rcases List.mem_cons.mp hz with e | hz'
      · subst e; exact h1
      · exact Nat.lt_trans h1 (hy.1 z hz')
    · by_cases h2 : x = y
      · subst h2; simp only [Nat.lt_irrefl, if_false, if_true]; exact h
      · simp only [h1, h2, if_false]
        refine List.pairwise_cons.mpr ⟨?_, ih hy.2⟩
        intro z hz
        rcases (mem_insertKey x z ys).mp hz with e | hz'
        · subst e; omega
        · exact hy.1 z hz'

theorem pairwise_sortDedup (l : List Nat) : (sortDedup l).Pairwise (· < ·) := by
  induction l with
  | nil => simp [sortDedup]
  | cons x xs ih =>
    have : sortDedup (x :: xs) = insertKey x (sortDedup xs) := rfl
    rw [this]; exact pairwise_insertKey x _ ih

theorem nodup_sortDedup (l : List Nat) : (sortDedup l).Nodup :=
  (pairwise_sortDedup l).imp (fun h => Nat.ne_of_lt h)

/-! ## `rangesOf` -/

theorem keys_rangesOf (d : RuvData) : (rangesOf d).map (·.1) = sortDedup (d.map (·.sUuid)) := by
  simp [rangesOf, List.map_map, Function.comp_def]

theorem nodup_rangesOf (d : RuvData) : ((rangesOf d).map (·.1)).Nodup := by
  rw [keys_rangesOf]; exact nodup_sortDedup _

theorem rd_lookup_map (f : Nat → Range) (ks : List Nat) (s : Nat) :
    Kanidm.RangeDiff.lookup (ks.map (fun k => (k, f k))) s = if s ∈ ks then some (f s) else none := by
  induction ks with
  | nil => simp [Kanidm.RangeDiff.lookup]
  | cons k tl ih =>
    simp only [List.map, Kanidm.RangeDiff.lookup, List.mem_cons]
    by_cases h : k = s
    · subst h; simp
    · have h' : ¬ s = k := fun e => h e.symm
      simp [h, h', ih]

theorem lookup_rangesOf (d : RuvData) (s : Nat) :
    Kanidm.RangeDiff.lookup (rangesOf d) s
      = if s ∈ d.map (·.sUuid) then some ⟨minList (tsOf d s), maxList (tsOf d s)⟩ else none := by
  unfold rangesOf
  rw [rd_lookup_map (fun s => ⟨minList (tsOf d s), maxList (tsOf d s)⟩)]
  simp only [mem_sortDedup]

theorem mem_tsOf (d : RuvData) (s x : Nat) : x ∈ tsOf d s ↔ (⟨x, s⟩ : Cid) ∈ d := by
  unfold tsOf
  simp only [List.mem_map, List.mem_filter, beq_iff_eq]
  constructor
  · rintro ⟨c, ⟨hc, hs⟩, hx⟩
    cases c; simp only at hs hx; subst hs hx; exact hc
  · intro h; exact ⟨⟨x, s⟩, ⟨h, rfl⟩, rfl⟩

theorem tsOf_ne_nil {d : RuvData} {s : Nat} (h : s ∈ d.map (·.sUuid)) : tsOf d s ≠ [] := by
  obtain ⟨c, hc, hs⟩ := List.mem_map.mp h
  intro e
  have : c.ts ∈ tsOf d s := by
    rw [mem_tsOf]; cases c; simp only at hs; subst hs; exact hc
  rw [e] at this; cases this

/-- A range reported by `current_ruv_range` is well formed. -/
theorem rangesOf_min_le_max {d : RuvData} {s : Nat} {r : Range}
    (h : Kanidm.RangeDiff.lookup (rangesOf d) s = some r) : r.tsMin ≤ r.tsMax := by
  rw [lookup_rangesOf] at h
  by_cases hm : s ∈ d.map (·.sUuid)
  · simp only [hm, if_true, Option.some.injEq] at h
    subst h
    exact minList_le_maxList (tsOf_ne_nil hm)
  · simp [hm] at h

/-! ## `trim_up_to` -/

theorem mem_trimUpTo (t : Cid) (d : RuvData) (x : Cid) :
    x ∈ trimUpTo t d ↔ x ∈ d ∧ cidLt x t = false := by
  simp [trimUpTo, trimRemoves]

theorem ts_ge_of_not_lt {x t : Cid} (h : cidLt x t = false) : t.ts ≤ x.ts := by
  cases hlt : decide (x.ts < t.ts) with
  | false => simpa using hlt
  | true =>
    have : cidLt x t = true := (cidLt_iff x t).mpr (Or.inl (by simpa using hlt))
    rw [h] at this; cases this

/-- After `trim_up_to(t)` every range starts at or after `t`. -/
theorem trimmed_min_ge {t : Cid} {d : RuvData} {s : Nat} {r : Range}
    (h : Kanidm.RangeDiff.lookup (rangesOf (trimUpTo t d)) s = some r) : t.ts ≤ r.tsMin := by
  rw [lookup_rangesOf] at h
  by_cases hm : s ∈ (trimUpTo t d).map (·.sUuid)
  · simp only [hm, if_true, Option.some.injEq] at h
    subst h
    refine le_minList (tsOf_ne_nil hm) ?_
    intro x hx
    have := (mem_tsOf _ _ _).mp hx
    have h2 := ((mem_trimUpTo t d _).mp this).2
    exact ts_ge_of_not_lt h2
  · simp [hm] at h

/-! ## `filter_ruv_range` -/

theorem rd_lookup_filter (p : Nat × Range → Bool) (r : Ruv) (hn : (r.map (·.1)).Nodup) (s : Nat) (x : Range) :
    Kanidm.RangeDiff.lookup (r.filter p) s = some x ↔ (Kanidm.RangeDiff.lookup r s = some x ∧ p (s, x) = true) := by
  induction r with
  | nil => simp [Kanidm.RangeDiff.lookup]
  | cons hd tl ih =>
    obtain ⟨k, v⟩ := hd
    have hn' := List.nodup_cons.mp hn
    have ih' := ih hn'.2
    have hnot : ∀ y, Kanidm.RangeDiff.lookup tl k = some y → False := by
      intro y hy
      apply hn'.1
      clear ih ih' hn hn'
      induction tl with
      | nil => simp [Kanidm.RangeDiff.lookup] at hy
      | cons h2 t2 ih2 =>
        obtain ⟨k2, v2⟩ := h2
        simp only [Kanidm.RangeDiff.lookup] at hy
        by_cases e : k2 = k
        · subst e; simp
        · simp only [e, if_false] at hy
          simp only [List.map, List.mem_cons]
          exact Or.inr (ih2 hy)
    simp only [List.filter_cons]
    by_cases hp : p (k, v) = true
    · simp only [hp, if_true, Kanidm.RangeDiff.lookup]
      by_cases e : k = s
      · subst e
        simp only [if_true, Option.some.injEq]
        constructor
        · intro h; subst h; exact ⟨rfl, hp⟩
        · intro h; exact h.1
      · simp only [e, if_false]; exact ih'
    · simp only [hp, Kanidm.RangeDiff.lookup]
      by_cases e : k = s
      · subst e
        simp only [if_true, Option.some.injEq]
        constructor
        · intro h
          exact absurd ((ih').mp h).1 (fun h' => hnot x h')
        · rintro ⟨h1, h2⟩; subst h1; exact absurd h2 hp
      · simp only [e, if_false]; exact ih'

theorem nodup_filterView (t : Cid) (r : Ruv) (hn : (r.map (·.1)).Nodup) : ((filterView t r).map (·.1)).Nodup := by
  unfold filterView
  exact (List.Nodup.sublist ((List.filter_sublist).map _) hn)

theorem lookup_filterView {t : Cid} {r : Ruv} (hn : (r.map (·.1)).Nodup) {s : Nat} {x : Range} :
    Kanidm.RangeDiff.lookup (filterView t r) s = some x ↔
      (Kanidm.RangeDiff.lookup r s = some x ∧ ¬ x.tsMax < t.ts) := by
  unfold filterView
  rw [rd_lookup_filter _ r hn]
  simp [filterDrops]

end Kanidm.ReplReap
