import KanidmProofs.Lemmas.SyncScopePhases
/-
C50: the frame of a whole `scim_sync_apply` (`Kanidm.SyncScope.apply`), composed from the phases.
-/
namespace Kanidm.SyncScope
open Kanidm.Access.Write
open Kanidm.Gen.Access
open Kanidm.Gen.SyncScope

/-- the yield-authority set phase 1 reads from the agreement's stored entry -/
def authorityOf (st : State) (su : Nat) : List Nat :=
  match st.find? (fun e => e.uuid == su && !e.masked) with
  | some se => se.yieldAuth.getD []
  | none => []

theorem scope_of_not_denied (s : Scope) (h : phase1ScopeDenied s.code = false) :
    s = .synchronise := by
  cases s <;> first | rfl | (exfalso; revert h; decide)

theorem phase1_ok (id : Ident) (st : State) (req : Request) (p1 : P1)
    (h : phase1 id st req = .ok p1) :
    id.origin = .synch p1.syncUuid ∧ id.scope = .synchronise ∧
      p1.authority = authorityOf st p1.syncUuid ∧ p1.ce = changeEntries req.entries := by
  unfold phase1 at h
  split at h
  · cases h
  · cases ho : id.origin with
    | user u mo => simp [ho] at h
    | internal r => simp [ho] at h
    | synch su =>
      simp only [ho] at h
      split at h
      · cases h
      · rename_i hsc
        cases hf : st.find? (fun e => e.uuid == su && !e.masked) with
        | none => simp [hf] at h
        | some se =>
          simp only [hf] at h
          split at h
          · cases h
          · injection h with h
            subst h
            refine ⟨rfl, scope_of_not_denied _ (by simpa using hsc), ?_, rfl⟩
            simp [authorityOf, hf]

theorem IsNew.of_frame {sch : Schema} {su : Nat} {auth : List Nat} {ok : Nat → Prop} {st : State}
    {x x' : Entry} (n : IsNew su st x) (f : Frame sch su auth ok x x') : IsNew su st x' where
  parent := by rw [f.parent]; exact n.parent
  fresh := by rw [f.uuid]; exact n.fresh
  range := by rw [f.uuid]; exact n.range
  cls := f.clsKeep _ n.cls

/-- **Frame of one sync request**: the stored entries afterwards are the stored entries before,
position by position related by `Frame`, followed by the entries the request created. -/
theorem apply_frame (sch : Schema) (id : Ident) (st : State) (req : Request) (st' : State)
    (h : apply sch id st req = .ok st') :
    ∃ su, id.origin = .synch su ∧ id.scope = .synchronise ∧
      (∃ pre' news, st' = pre' ++ news ∧
        Rel2 (Frame sch su (authorityOf st su) (okIn su st')) st pre' ∧
        ∀ x, x ∈ news → IsNew su st x) ∧
      (∀ e, e ∈ st → e.uuid ∈ ceIds (changeEntries req.entries) → e.masked = false) := by
  unfold apply at h
  cases h1 : phase1 id st req with
  | error e => simp [h1] at h
  | ok p1 =>
    simp only [h1] at h
    obtain ⟨ho, hsc, hauth, hce⟩ := phase1_ok id st req p1 h1
    cases h2 : phase2 st p1.ce p1.syncUuid with
    | error e => simp [h2] at h
    | ok out2 =>
      simp only [h2] at h
      cases hc : (if p1.refresh then refreshCleanup sch out2 p1.ce p1.syncUuid else .ok out2) with
      | error e => simp [hc] at h
      | ok out2c =>
        simp only [hc] at h
        cases h3 : phase3 sch out2c p1.ce p1.syncUuid p1.authority with
        | error e => simp [h3] at h
        | ok out3 =>
          simp only [h3] at h
          cases h4 : phase4 sch out3 req.retain p1.syncUuid with
          | error e => simp [h4] at h
          | ok out4 =>
            simp only [h4] at h
            -- abbreviations
            refine ⟨p1.syncUuid, ho, hsc, ?_, ?_⟩
            · rw [← hauth]
              have r5 := phase5_frame sch p1.syncUuid p1.authority (okIn p1.syncUuid st') out4 st'
                req.toState h
              have r4 := phase4_frame sch p1.syncUuid p1.authority out3 out4 req.retain h4
              have r3 := phase3_frame sch p1.syncUuid p1.authority (okIn p1.syncUuid st') out2c out3
                p1.ce h3
              have rc : Rel2 (Frame sch p1.syncUuid p1.authority (okIn p1.syncUuid out2)) out2 out2c := by
                by_cases hr : p1.refresh = true
                · simp only [hr, if_true] at hc
                  exact refreshCleanup_frame sch p1.syncUuid p1.authority out2 out2c p1.ce hc
                · have hr' : p1.refresh = false := by simpa using hr
                  simp only [hr'] at hc
                  injection hc with hc
                  subst hc
                  exact Rel2.refl (Frame.refl _ _ _ _) _
              have ok4 : ∀ d, okIn p1.syncUuid out3 d → okIn p1.syncUuid st' d := fun d hd =>
                okIn_of_rel2 r5 d (okIn_of_rel2 r4 d hd)
              have ok2 : ∀ d, okIn p1.syncUuid out2 d → okIn p1.syncUuid st' d := fun d hd =>
                ok4 d (okIn_of_rel2 r3 d (okIn_of_rel2 rc d hd))
              have r4' := Rel2.mono (fun _ _ f => Frame.mono ok4 f) r4
              have rc' := Rel2.mono (fun _ _ f => Frame.mono ok2 f) rc
              have tr := fun (a b c : Entry)
                (f : Frame sch p1.syncUuid p1.authority (okIn p1.syncUuid st') a b)
                (g : Frame sch p1.syncUuid p1.authority (okIn p1.syncUuid st') b c) => Frame.trans f g
              have rall : Rel2 (Frame sch p1.syncUuid p1.authority (okIn p1.syncUuid st')) out2 st' :=
                Rel2.trans tr (Rel2.trans tr (Rel2.trans tr rc' r3) r4') r5
              obtain ⟨⟨pre2, news2, he2, r2, hn2⟩, _⟩ :=
                phase2_frame sch p1.syncUuid p1.authority (okIn p1.syncUuid st') st out2 p1.ce h2
              rw [he2] at rall
              obtain ⟨pre', news', he', rp, rn⟩ := Rel2.split_append rall
              refine ⟨pre', news', he', Rel2.trans tr r2 rp, ?_⟩
              intro x' hx'
              obtain ⟨x, hx, f⟩ := rn.mem_right hx'
              exact (hn2 x hx).of_frame f
            · rw [← hce]
              exact (phase2_frame sch p1.syncUuid p1.authority (fun _ => True) st out2 p1.ce h2).2

/-! ### ids of the change set -/

theorem mem_ceIds_insertCE (s : ScimEntry) : ∀ (l : List ScimEntry) (x : Nat),
    x ∈ ceIds (insertCE s l) ↔ x = s.id ∨ x ∈ ceIds l := by
  intro l
  induction l with
  | nil => intro x; simp [insertCE, ceIds]
  | cons t rest ih =>
    intro x
    unfold insertCE
    by_cases h1 : s.id < t.id
    · simp [h1, ceIds]
    · simp only [h1, if_false]
      by_cases h2 : (s.id == t.id) = true
      · simp only [h2, if_true]
        have : s.id = t.id := by simpa using h2
        simp [ceIds, this]
      · have h2' : (s.id == t.id) = false := by simpa using h2
        simp only [h2']
        rw [if_neg (by simp)]
        have := ih x
        simp only [ceIds, List.map, List.mem_cons] at this ⊢
        rw [this]
        constructor
        · rintro (h | h | h)
          · exact .inr (.inl h)
          · exact .inl h
          · exact .inr (.inr h)
        · rintro (h | h | h)
          · exact .inr (.inl h)
          · exact .inl h
          · exact .inr (.inr h)

theorem mem_ceIds_foldl (es : List ScimEntry) : ∀ (acc : List ScimEntry) (x : Nat),
    x ∈ ceIds (es.foldl (fun acc s => insertCE s acc) acc) ↔ x ∈ ceIds es ∨ x ∈ ceIds acc := by
  induction es with
  | nil => intro acc x; simp [ceIds]
  | cons s rest ih =>
    intro acc x
    simp only [List.foldl]
    rw [ih, mem_ceIds_insertCE]
    simp only [ceIds, List.map, List.mem_cons]
    constructor
    · rintro (h | h | h)
      · exact .inl (.inr h)
      · exact .inl (.inl h)
      · exact .inr h
    · rintro ((h | h) | h)
      · exact .inr (.inl h)
      · exact .inl h
      · exact .inr (.inr h)

theorem mem_ceIds_changeEntries (es : List ScimEntry) (x : Nat) :
    x ∈ ceIds (changeEntries es) ↔ x ∈ ceIds es := by
  unfold changeEntries
  rw [mem_ceIds_foldl]
  simp [ceIds]

end Kanidm.SyncScope
