import KanidmModel.OAuth2.Authorise
/-! Helper lemmas for C38: what each stage of `authorise` establishes when it lets a request pass. -/
namespace Kanidm.OAuth2
open Kanidm.Gen.OAuth2Authz

/-- An outcome that hands out authority: a code, or a consent token that `permit` turns into one. -/
def Outcome.isGrant : Outcome → Bool
  | .permitted .. => true
  | .consentRequested .. => true
  | _ => false

/-- The code of a directly permitted request. -/
def Outcome.code? : Outcome → Option ExchangeCode
  | .permitted code _ _ => some code
  | _ => none

theorem lookup_mem {α β : Type} [BEq α] [LawfulBEq α] {l : List (α × β)} {k : α} {v : β}
    (h : l.lookup k = some v) : (k, v) ∈ l := by
  induction l with
  | nil => simp [List.lookup] at h
  | cons x xs ih =>
    obtain ⟨a, b⟩ := x
    by_cases hk : k == a
    · simp [List.lookup, hk] at h
      have : k = a := by simpa using hk
      subst this; subst h; simp
    · simp [List.lookup, hk] at h
      exact List.mem_cons_of_mem _ (ih h)

theorem rsSetGet_mem {reg : Registry} {id : List Char} {c : Client}
    (h : rsSetGet reg id = some c) : (id.map Char.toLower, c) ∈ reg :=
  lookup_mem h

theorem isMemberOf_iff {i : Ident} {g : Nat} :
    i.isMemberOf g = true ↔ i.kind = .user ∧ g ∈ i.memberOf := by
  unfold Ident.isMemberOf
  cases hk : i.kind <;> simp

theorem heldScopes_mem {maps : List (Nat × List Nat)} {i : Ident} {s : Nat} :
    s ∈ heldScopes maps i ↔
      ∃ g m, (g, m) ∈ maps ∧ i.kind = .user ∧ g ∈ i.memberOf ∧ s ∈ m := by
  unfold heldScopes
  simp only [List.mem_flatMap, List.mem_filter]
  constructor
  · rintro ⟨⟨g, m⟩, ⟨hmem, hmo⟩, hs⟩
    have := isMemberOf_iff.mp hmo
    exact ⟨g, m, hmem, this.1, this.2, hs⟩
  · rintro ⟨g, m, hmem, hk, hg, hs⟩
    exact ⟨(g, m), ⟨hmem, isMemberOf_iff.mpr ⟨hk, hg⟩⟩, hs⟩

theorem allowLocalhost_iff {c : Client} :
    c.allowLocalhostRedirect = true ↔ c.ctype = .pub true := by
  unfold Client.allowLocalhostRedirect
  cases h : c.ctype with
  | basic p q => simp [allowLocalhostRedirectBasic]
  | pub l => simp [allowLocalhostRedirectPublic]

/-- PKCE may be off only for a basic (confidential) client whose `enable_pkce` is false. -/
theorem requirePkce_false_iff {c : Client} :
    c.requirePkce = false ↔ ∃ q, c.ctype = .basic false q := by
  unfold Client.requirePkce
  cases h : c.ctype with
  | basic p q => simp [requirePkceBasic]
  | pub l => simp [requirePkcePublic]

theorem shapeStage_ok {req : Request} {mode : SupportedResponseMode}
    (h : shapeStage req = .ok mode) :
    req.responseType = .code ∧
    (∃ rm, getResponseMode req.responseMode req.responseType = some rm ∧ supportedMode rm = some mode) ∧
    req.prompt.length ≤ 4 ∧ Prompt.invalid ∉ req.prompt ∧
    (Prompt.none ∈ req.prompt → req.prompt.length ≤ 1) := by
  unfold shapeStage at h
  split at h
  · simp at h
  · rename_i hrt
    split at h
    · simp at h
    · rename_i rm hrm
      split at h
      · simp at h
      · rename_i m hm
        split at h
        · simp at h
        · rename_i hlen
          split at h
          · simp at h
          · rename_i hinv
            split at h
            · simp at h
            · rename_i hnone
              simp only [Except.ok.injEq] at h
              subst h
              refine ⟨?_, ⟨rm, hrm, hm⟩, ?_, ?_, ?_⟩
              · cases hr : req.responseType <;> simp_all [ResponseType.idx, requiredResponseType]
              · simp [promptTooMany] at hlen; omega
              · intro hmem
                apply hinv
                simp only [List.any_eq_true]
                exact ⟨_, hmem, by simp⟩
              · intro hmem
                simp only [promptNoneConflict, Bool.and_eq_true, decide_eq_true_eq, not_and] at hnone
                have := hnone (by simpa using hmem)
                omega

theorem redirectStage_ok {c : Client} {u : Uri} {lb : Bool}
    (h : redirectStage c u = .ok lb) :
    lb = (checkIsLoopback u && c.allowLocalhostRedirect) ∧
    (lb = true ∨ u.atom ∈ c.redirectUris ∨ u.atom ∈ c.opaqueOrigins) ∧
    (c.originSecureRequired = true →
      u.atom ∈ c.opaqueOrigins ∨ checkIsLoopback u = true ∨ u.https = true) := by
  by_cases h3 : u.atom ∈ c.redirectUris <;> by_cases h4 : u.atom ∈ c.opaqueOrigins <;>
    cases h1 : checkIsLoopback u <;> cases h2 : c.allowLocalhostRedirect <;>
    cases h5 : c.originSecureRequired <;> cases h6 : u.https <;>
    simp_all [redirectStage, validMatchCondition, insecureOriginRejected, redirectOriginIsSecure,
      loopbackUriMatched]

theorem pkceStage_ok {c : Client} {p : Option Pkce} {ch : Option Nat}
    (h : pkceStage c p = .ok ch) :
    ch = p.map (·.challenge) ∧ (∀ pk, p = some pk → pk.isS256 = true) ∧
    (c.requirePkce = true → ∃ pk, p = some pk ∧ pk.isS256 = true ∧ ch = some pk.challenge) := by
  unfold pkceStage at h
  cases p with
  | none =>
    simp only at h
    split at h
    · simp at h
    · rename_i hr
      simp only [Except.ok.injEq] at h
      subst h
      simp_all
  | some pk =>
    simp only at h
    split at h
    · simp at h
    · rename_i hm
      simp only [Except.ok.injEq] at h
      subst h
      simp only [pkceMethodRejected, Bool.not_eq_true', Bool.not_eq_false] at hm
      simp [hm]

theorem processRequestedScopes_ok {scopeOk : Nat → Bool} {c : Client} {i : Ident} {req r g : List Nat}
    (h : processRequestedScopes scopeOk c i req = .ok (r, g)) :
    r = req ∧ req ≠ [] ∧ (∀ s ∈ req, scopeOk s = true) ∧
    (∀ s ∈ req, s ∈ heldScopes c.scopeMaps i) ∧ g = heldScopes c.supScopeMaps i ++ req := by
  unfold processRequestedScopes at h
  split at h
  · simp at h
  · rename_i he
    split at h
    · simp at h
    · rename_i hv
      simp only at h
      split at h
      · simp at h
      · rename_i hs
        simp only [Except.ok.injEq, Prod.mk.injEq] at h
        refine ⟨h.1.symm, ?_, ?_, ?_, h.2.symm⟩
        · intro hnil; simp [hnil] at he
        · simpa using hv
        · simpa [scopesDenied] using hs

/-- Everything `authorise` has checked when it hands out a code or a consent token. -/
theorem authorise_grant_inv {scopeOk : Nat → Bool} {reg : Registry} {ident : Option Ident}
    {req : Request} {resumed : Bool} {ct : Nat} {o : Outcome}
    (h : authorise scopeOk reg ident req resumed ct = o) (hg : o.isGrant = true) :
    ∃ mode c lb ch i g,
      shapeStage req = .ok mode ∧ rsSetGet reg req.clientId = some c ∧
      redirectStage c req.redirectUri = .ok lb ∧ pkceStage c req.pkce = .ok ch ∧
      ident = some i ∧ reauthRequired req i resumed ct = false ∧
      isAnonymous i.uuid uuidAnonymous = false ∧
      processRequestedScopes scopeOk c i req.scope = .ok (req.scope, g) ∧
      o = finishStage c i req mode lb ch req.scope g ct := by
  unfold authorise at h
  split at h
  · subst h; simp [Outcome.isGrant] at hg
  · rename_i mode hmode
    split at h
    · subst h; simp [Outcome.isGrant] at hg
    · rename_i c hc
      split at h
      · subst h; simp [Outcome.isGrant] at hg
      · rename_i lb hlb
        split at h
        · subst h; simp [Outcome.isGrant] at hg
        · rename_i ch hch
          split at h
          · split at h <;> (subst h; simp [Outcome.isGrant] at hg)
          · rename_i i
            split at h
            · subst h; simp [Outcome.isGrant] at hg
            · rename_i hre
              split at h
              · subst h; simp [Outcome.isGrant] at hg
              · rename_i han
                split at h
                · subst h; simp [Outcome.isGrant] at hg
                · rename_i rs g hps
                  have hrs := (processRequestedScopes_ok hps).1
                  subst hrs
                  exact ⟨mode, c, lb, ch, i, g, hmode, hc, hlb, hch, rfl, by simpa using hre,
                    by simpa using han, hps, h.symm⟩

end Kanidm.OAuth2
