import KanidmModel.Recycle
/-! Helper lemmas for C26 (`KanidmProofs/C26.lean`): cut-off arithmetic, lookups through the
per-entry maps the operations are made of, the per-entry evolution relation and the state
invariant. -/
namespace Kanidm.Recycle
open Kanidm.Gen.Recycle

/-! ## cut-offs -/

theorem cidLt_cut (a sid c : Nat) : Cid.cidLt ⟨a, sid⟩ ⟨c, 0⟩ = decide (a < c) := by
  by_cases h : a < c <;> simp [Cid.cidLt, Cid.lexLt, Kanidm.Gen.Cid.ordFields, Cid.fieldVal, h]

theorem subSecs_some {ts secs : Nat} {cut : Cid.Cid} (h : subSecs ts secs = some cut) :
    cut = ⟨ts - secs * NS, 0⟩ ∧ secs * NS ≤ ts := by
  unfold subSecs at h
  split at h
  · simp [subSecsUuid] at h
    exact ⟨h.symm, by assumption⟩
  · simp at h

/-- `purge_recycled` selects exactly the recycled entries last changed more than
`RECYCLEBIN_MAX_AGE` before this transaction. -/
theorem purgeSel_iff {ts sid : Nat} {cut : Cid.Cid} (h : subSecs ts purgeRecycledWindow = some cut)
    (e : Entry) :
    purgeSel sid cut e = true ↔ e.st = .recycled ∧ e.lastMod + recyclebinMaxAge * NS < ts := by
  obtain ⟨rfl, hle⟩ := subSecs_some h
  simp only [purgeSel, purgeRecycledOp, cmpCid, cidLt_cut, Bool.and_eq_true, beq_iff_eq,
    decide_eq_true_eq, purgeRecycledWindow] at *
  constructor
  · rintro ⟨h1, h2⟩; exact ⟨h1, by omega⟩
  · rintro ⟨h1, h2⟩; exact ⟨h1, by omega⟩

/-- `reap_tombstones` removes exactly the tombstones created more than `CHANGELOG_MAX_AGE`
before this transaction. -/
theorem reapSel_iff {ts sid : Nat} {trim : Cid.Cid} (h : subSecs ts trimWindow = some trim)
    (e : Entry) :
    reapSel sid trim e = true ↔ e.st = .tomb ∧ e.lastMod + changelogMaxAge * NS < ts := by
  obtain ⟨rfl, hle⟩ := subSecs_some h
  simp only [trimWindow] at hle
  by_cases ht : e.st = .tomb
  · simp only [reapSel, trimRangeOp, canDeleteOp, cmpCid, cidLt_cut, ht, beq_self_eq_true,
      if_true, Bool.and_self, decide_eq_true_eq, true_and, trimWindow]
    omega
  · have : (e.st == St.tomb) = false := by simpa using ht
    simp [reapSel, this, canDeleteLive, ht]

theorem txnTs_gt (s : State) (ct : Nat) : s.maxTs < txnTs s ct := by
  unfold txnTs Kanidm.Gen.Cid.lamportTs Kanidm.Gen.Cid.keepTs
  split
  · rename_i h; simpa using h
  · omega

theorem txnTs_ge_clock (s : State) (ct : Nat) : ct ≤ txnTs s ct := by
  unfold txnTs Kanidm.Gen.Cid.lamportTs Kanidm.Gen.Cid.keepTs
  split
  · omega
  · rename_i h; simp at h; omega

/-! ## lookups -/

theorem find_map (f : Entry → Entry) (hf : ∀ e, (f e).id = e.id) (es : List Entry) (x : Nat) :
    find (es.map f) x = (find es x).map f := by
  induction es with
  | nil => rfl
  | cons a l ih =>
    simp only [find, List.map_cons, List.find?_cons] at *
    rw [hf a]
    split
    · rfl
    · exact ih

theorem find_some_mem {es : List Entry} {x : Nat} {e : Entry} (h : find es x = some e) :
    e ∈ es ∧ e.id = x := by
  unfold find at h
  exact ⟨List.mem_of_find?_eq_some h, by simpa using List.find?_some h⟩

theorem find_none_iff {es : List Entry} {x : Nat} : find es x = none ↔ ∀ e ∈ es, e.id ≠ x := by
  unfold find
  simp [List.find?_eq_none]

theorem find_of_mem_nodup {es : List Entry} (hnd : (es.map (·.id)).Nodup) {e : Entry} (he : e ∈ es) :
    find es e.id = some e := by
  induction es with
  | nil => cases he
  | cons a l ih =>
    simp only [List.map_cons, List.nodup_cons] at hnd
    simp only [find, List.find?_cons]
    rcases List.mem_cons.mp he with rfl | hl
    · simp
    · have hne : a.id ≠ e.id := by
        intro heq
        exact hnd.1 (heq ▸ List.mem_map_of_mem hl)
      have : (a.id == e.id) = false := by simpa using hne
      rw [this]
      exact ih hnd.2 hl

theorem find_append (es : List Entry) (n : Entry) (x : Nat) :
    find (es ++ [n]) x = (find es x).or (if n.id == x then some n else none) := by
  simp only [find, List.find?_append, List.find?_cons, List.find?_nil]
  cases es.find? (fun e => e.id == x) <;> simp <;> split <;> simp_all

theorem find_filter_nodup {es : List Entry} (hnd : (es.map (·.id)).Nodup) (q : Entry → Bool)
    (x : Nat) :
    find (es.filter q) x = (find es x).bind (fun e => if q e then some e else none) := by
  induction es with
  | nil => rfl
  | cons a l ih =>
    simp only [List.map_cons, List.nodup_cons] at hnd
    by_cases hax : a.id = x
    · subst hax
      have hnone : find l a.id = none := by
        rw [find_none_iff]
        intro e he heq
        exact hnd.1 (heq ▸ List.mem_map_of_mem he)
      have hnone' : find (l.filter q) a.id = none := by
        rw [find_none_iff]
        intro e he
        exact (find_none_iff.mp hnone) e (List.mem_filter.mp he).1
      by_cases hq : q a = true
      · simp [find, hq]
      · have hq' : q a = false := by simpa using hq
        simp only [List.filter_cons, hq', Bool.false_eq_true, if_false]
        rw [hnone']
        simp [find, hq']
    · have hb : (a.id == x) = false := by simpa using hax
      by_cases hq : q a = true
      · simp only [List.filter_cons, hq, if_true]
        simp only [find, List.find?_cons, hb]
        exact ih hnd.2
      · have hq' : q a = false := by simpa using hq
        simp only [List.filter_cons, hq', Bool.false_eq_true, if_false]
        simp only [find, List.find?_cons, hb]
        exact ih hnd.2

/-! ## what one transaction can do to one entry -/

/-- `to_tombstone` leaves nothing but uuid, class and cids. -/
def Wiped (e : Entry) : Prop :=
  e.member = [] ∧ e.dmo = [] ∧ e.rdmo = [] ∧ e.refers = none ∧ e.casc = none

/-- What one committed transaction stamped `ts` can do to an entry that stays in the database;
`del` = the uuids this transaction moved into the recycle bin. -/
structure Evol (ts : Nat) (del : List Nat) (e e' : Entry) : Prop where
  id : e'.id = e.id
  kind : e'.kind = e.kind
  live : e.st = .live → e'.st = .live ∨ (e'.st = .recycled ∧ e'.lastMod = ts)
  recy : e.st = .recycled →
    (e'.st = .recycled ∧ (e'.lastMod = e.lastMod ∨ e'.lastMod = ts)) ∨ e'.st = .live ∨
    (e'.st = .tomb ∧ e'.lastMod = ts ∧ e.lastMod + recyclebinMaxAge * NS < ts ∧ Wiped e')
  tomb : e.st = .tomb → e' = e
  /-- while an entry stays in the bin its cascade mark is kept … -/
  cascKeep : e.st = .recycled → e'.st = .recycled → e'.casc = e.casc
  /-- … and so is every recorded membership, except of groups deleted by this transaction -/
  rdmoKeep : e.st = .recycled → e'.st = .recycled → ∀ g ∈ e.rdmo, g ∈ e'.rdmo ∨ g ∈ del

theorem Evol.rfl' (ts : Nat) (del : List Nat) (e : Entry) : Evol ts del e e :=
  ⟨rfl, rfl, fun _ => .inl ‹_›, fun h => .inl ⟨h, .inl rfl⟩, fun _ => rfl, fun _ _ => rfl,
    fun _ _ _ hg => .inl hg⟩

theorem recE_id (aff : Entry → Bool) (es0 : List Entry) (e : Entry) : (recE aff es0 e).id = e.id := by
  unfold recE; split <;> rfl

theorem recE_fields (aff : Entry → Bool) (es0 : List Entry) (e : Entry) :
    (recE aff es0 e).kind = e.kind ∧ (recE aff es0 e).st = e.st ∧ (recE aff es0 e).lastMod = e.lastMod ∧
    (recE aff es0 e).member = e.member ∧ (recE aff es0 e).rdmo = e.rdmo ∧
    (recE aff es0 e).refers = e.refers ∧ (recE aff es0 e).casc = e.casc := by
  unfold recE; split <;> simp

theorem recE_not_live (aff : Entry → Bool) (es0 : List Entry) (e : Entry) (h : e.st ≠ .live) :
    recE aff es0 e = e := by
  unfold recE
  have : (e.st == St.live) = false := by simpa using h
  simp [this]

theorem Evol.through_rec {ts : Nat} {del : List Nat} {e e1 : Entry} (h : Evol ts del e e1)
    (aff : Entry → Bool) (es0 : List Entry) : Evol ts del e (recE aff es0 e1) := by
  obtain ⟨hk, hs, hl, _, hrd, _, hca⟩ := recE_fields aff es0 e1
  refine ⟨by rw [recE_id]; exact h.id, by rw [hk]; exact h.kind, ?_, ?_, ?_,
    fun h1 h2 => by rw [hca]; exact h.cascKeep h1 (by rw [← hs]; exact h2),
    fun h1 h2 g hg => by rw [hrd]; exact h.rdmoKeep h1 (by rw [← hs]; exact h2) g hg⟩
  · intro hl'; rw [hs, hl]; exact h.live hl'
  · intro hr
    rcases h.recy hr with h1 | h1 | ⟨h1, h2, h3, h4⟩
    · exact .inl (by rw [hs, hl]; exact h1)
    · exact .inr (.inl (by rw [hs]; exact h1))
    · have : recE aff es0 e1 = e1 := recE_not_live aff es0 e1 (by rw [h1]; decide)
      rw [this]; exact .inr (.inr ⟨h1, h2, h3, h4⟩)
  · intro ht
    have he := h.tomb ht
    subst he
    exact recE_not_live aff es0 e1 (by rw [ht]; decide)

/-- an update of `member` only, never applied to a tombstone -/
theorem Evol.member_only (ts : Nat) (del : List Nat) (e : Entry) (ms : List Nat) (c : Bool)
    (hc : e.st = .tomb → c = false) : Evol ts del e (if c then { e with member := ms } else e) := by
  cases c with
  | false => simpa using Evol.rfl' ts del e
  | true =>
    refine ⟨rfl, rfl, fun h => .inl h, fun h => .inl ⟨h, .inl rfl⟩, fun h => ?_, fun _ _ => rfl,
      fun _ _ _ hg => .inl hg⟩
    simpa using hc h

theorem inD_live {es : List Entry} {ids : List Nat} {e : Entry} (h : inD es ids e = true) : e.st = .live := by
  unfold inD inT inC at h
  simp only [Bool.or_eq_true, Bool.and_eq_true, beq_iff_eq] at h
  rcases h with h | h <;> exact h.1

theorem inR_recycled {x : Nat} {e : Entry} (h : inR x e = true) : e.st = .recycled := by
  unfold inR at h
  simp only [Bool.and_eq_true, beq_iff_eq] at h
  exact h.1

theorem refsAny_wiped {d : List Nat} {e : Entry} (h : Wiped e) : refsAny d e = false := by
  obtain ⟨h1, h2, h3, h4, _⟩ := h
  simp [refsAny, h1, h2, h3, h4]

theorem unrefE_id (d : List Nat) (ts : Nat) (e : Entry) : (unrefE d ts e).id = e.id := by
  unfold unrefE; split <;> rfl

theorem recycleE_id (es : List Entry) (ids : List Nat) (ts : Nat) (e : Entry) :
    (recycleE es ids ts e).id = e.id := by
  unfold recycleE; split <;> rfl

theorem reviveE_id (x ts : Nat) (e : Entry) : (reviveE x ts e).id = e.id := by
  unfold reviveE; split <;> rfl

theorem reviveAddE_id (es : List Entry) (x : Nat) (e : Entry) : (reviveAddE es x e).id = e.id := by
  unfold reviveAddE; split <;> rfl

theorem purgeE_id (sid : Nat) (cut : Cid.Cid) (ts : Nat) (e : Entry) : (purgeE sid cut ts e).id = e.id := by
  unfold purgeE tombE; split <;> rfl

theorem addMemE_id (g m : Nat) (e : Entry) : (addMemE g m e).id = e.id := by
  unfold addMemE; split <;> rfl

theorem remMemE_id (g m : Nat) (e : Entry) : (remMemE g m e).id = e.id := by
  unfold remMemE; split <;> rfl

theorem unref_recycle_st (es : List Entry) (ids d : List Nat) (ts : Nat) {e : Entry}
    (hD : inD es ids e = true) :
    (unrefE d ts (recycleE es ids ts e)).st = .recycled ∧
    (unrefE d ts (recycleE es ids ts e)).lastMod = ts ∧
    (unrefE d ts (recycleE es ids ts e)).kind = e.kind := by
  have h1 : (recycleE es ids ts e).st = .recycled ∧ (recycleE es ids ts e).lastMod = ts ∧
      (recycleE es ids ts e).kind = e.kind := by
    unfold recycleE; simp [hD]
  unfold unrefE; split <;> simp [h1]

/-- delete: `pre_delete` + `to_recycled`, then `refint::remove_references`. -/
theorem evol_delete (es : List Entry) (ids d : List Nat) (ts : Nat) (e : Entry)
    (hw : e.st = .tomb → Wiped e) : Evol ts d e (unrefE d ts (recycleE es ids ts e)) := by
  by_cases hD : inD es ids e = true
  · have hl := inD_live hD
    have h1 : (recycleE es ids ts e).st = .recycled ∧ (recycleE es ids ts e).lastMod = ts ∧
        (recycleE es ids ts e).kind = e.kind := by
      unfold recycleE; simp [hD]
    have h2 : (unrefE d ts (recycleE es ids ts e)).st = .recycled ∧
        (unrefE d ts (recycleE es ids ts e)).lastMod = ts ∧
        (unrefE d ts (recycleE es ids ts e)).kind = e.kind := by
      unfold unrefE; split <;> simp [h1]
    refine ⟨by rw [unrefE_id, recycleE_id], h2.2.2, fun _ => .inr ⟨h2.1, h2.2.1⟩, ?_, ?_, ?_, ?_⟩
    · intro h; rw [hl] at h; cases h
    · intro h; rw [hl] at h; cases h
    · intro h; rw [hl] at h; cases h
    · intro h; rw [hl] at h; cases h
  · have hD' : inD es ids e = false := by simpa using hD
    have hr : recycleE es ids ts e = e := by unfold recycleE; simp [hD']
    rw [hr]
    by_cases hrf : refsAny d e = true
    · have h2 : (unrefE d ts e).st = e.st ∧ (unrefE d ts e).lastMod = ts ∧ (unrefE d ts e).kind = e.kind := by
        unfold unrefE; simp [hrf]
      have h3 : (unrefE d ts e).casc = e.casc ∧
          (unrefE d ts e).rdmo = e.rdmo.filter (fun m => !d.contains m) := by
        unfold unrefE; simp [hrf]
      refine ⟨unrefE_id d ts e, h2.2.2, fun h => .inl (by rw [h2.1]; exact h),
        fun h => .inl ⟨by rw [h2.1]; exact h, .inr h2.2.1⟩, fun h => ?_, fun _ _ => h3.1, ?_⟩
      · rw [refsAny_wiped (hw h)] at hrf; cases hrf
      · intro _ _ g hg
        rw [h3.2]
        by_cases hgd : g ∈ d
        · exact .inr hgd
        · exact .inl (List.mem_filter.mpr ⟨hg, by simpa using hgd⟩)
    · have : unrefE d ts e = e := by unfold unrefE; simp [hrf]
      rw [this]; exact Evol.rfl' ts d e

/-- revive: `to_revived`, then the membership mods of the revive tail. -/
theorem evol_revive (es : List Entry) (x ts : Nat) (e : Entry) :
    Evol ts [] e (reviveAddE es x (reviveE x ts e)) := by
  by_cases hR : inR x e = true
  · have hrec := inR_recycled hR
    have h1 : (reviveE x ts e).st = .live ∧ (reviveE x ts e).kind = e.kind := by
      unfold reviveE; simp [hR]
    have h2 : (reviveAddE es x (reviveE x ts e)).st = .live ∧
        (reviveAddE es x (reviveE x ts e)).kind = e.kind := by
      unfold reviveAddE; split <;> simp [h1]
    refine ⟨by rw [reviveAddE_id, reviveE_id], h2.2, ?_, fun _ => .inr (.inl h2.1), ?_, ?_, ?_⟩
    · intro h; rw [hrec] at h; cases h
    · intro h; rw [hrec] at h; cases h
    · intro _ h; rw [h2.1] at h; cases h
    · intro _ h; rw [h2.1] at h; cases h
  · have : reviveE x ts e = e := by
      have hR' : inR x e = false := by simpa using hR
      unfold reviveE; simp [hR']
    rw [this]
    unfold reviveAddE
    exact Evol.member_only ts [] e _ _ (fun h => by simp [h])

/-- `purge_recycled`: `to_tombstone` of the selected entries. -/
theorem evol_purge {ts sid : Nat} {cut : Cid.Cid} (h : subSecs ts purgeRecycledWindow = some cut)
    (e : Entry) : Evol ts [] e (purgeE sid cut ts e) := by
  by_cases hs : purgeSel sid cut e = true
  · obtain ⟨hrec, hlt⟩ := (purgeSel_iff h e).mp hs
    have : purgeE sid cut ts e = tombE ts e := by unfold purgeE; simp [hs]
    rw [this]
    refine ⟨rfl, rfl, ?_, fun _ => .inr (.inr ⟨rfl, rfl, hlt, rfl, rfl, rfl, rfl, rfl⟩), ?_, ?_, ?_⟩
    · intro h; rw [hrec] at h; cases h
    · intro h; rw [hrec] at h; cases h
    · intro _ h; cases h
    · intro _ h; cases h
  · have : purgeE sid cut ts e = e := by
      have hs' : purgeSel sid cut e = false := by simpa using hs
      unfold purgeE; simp [hs']
    rw [this]; exact Evol.rfl' ts [] e

/-! ## the state invariant and the shape of every successful operation -/

structure Inv (s : State) : Prop where
  nodup : (s.es.map (·.id)).Nodup
  /-- entries outside the live state were last stamped by a committed transaction -/
  stamp : ∀ e ∈ s.es, e.st ≠ .live → e.lastMod ≤ s.maxTs
  wiped : ∀ e ∈ s.es, e.st = .tomb → Wiped e

/-- The entries after a successful operation: every old entry rewritten by some `F` that keeps
uuids and evolves each entry legally, plus at most one new live entry with a fresh uuid. -/
def Shape (es : List Entry) (ts : Nat) (del : List Nat) (es' : List Entry) : Prop :=
  ∃ (F : Entry → Entry) (tail : List Entry),
    es' = es.map F ++ tail ∧ (∀ e, (F e).id = e.id) ∧ (∀ e ∈ es, Evol ts del e (F e)) ∧
    (tail = [] ∨ ∃ nw, tail = [nw] ∧ nw.st = .live ∧ find es nw.id = none) ∧
    (∀ g ∈ del, ∃ ge ∈ es, ge.id = g ∧ (F ge).st = .recycled)

theorem Shape.same (es : List Entry) (ts : Nat) : Shape es ts [] es :=
  ⟨id, [], by simp, fun _ => rfl, fun e _ => Evol.rfl' ts [] e, .inl rfl, by simp⟩

theorem Shape.rec (es : List Entry) (ts : Nat) (aff : Entry → Bool) : Shape es ts [] (recompute aff es) :=
  ⟨recE aff es, [], by simp [recompute], recE_id aff es,
    fun e _ => (Evol.rfl' ts [] e).through_rec aff es, .inl rfl, by simp⟩

theorem Shape.map_rec (es : List Entry) (ts : Nat) (del : List Nat) (aff : Entry → Bool) (G : Entry → Entry)
    (hid : ∀ e, (G e).id = e.id) (hev : ∀ e ∈ es, Evol ts del e (G e))
    (hdel : ∀ g ∈ del, ∃ ge ∈ es, ge.id = g ∧ (G ge).st = .recycled) :
    Shape es ts del (recompute aff (es.map G)) :=
  ⟨fun e => recE aff (es.map G) (G e), [], by simp [recompute, List.map_map, Function.comp_def],
    fun e => by rw [recE_id]; exact hid e, fun e he => (hev e he).through_rec aff _, .inl rfl,
    fun g hg => by
      obtain ⟨ge, he, hid', hst⟩ := hdel g hg
      exact ⟨ge, he, hid', by rw [(recE_fields _ _ _).2.1]; exact hst⟩⟩

theorem live_of_find_nodup {es : List Entry} (hnd : (es.map (·.id)).Nodup) {g : Nat} {ge e : Entry}
    (hg : find es g = some ge) (he : e ∈ es) (hid : e.id = g) : e = ge := by
  have := find_of_mem_nodup hnd he
  rw [hid, hg] at this
  exact (Option.some.inj this).symm

theorem opCreate_shape (es : List Entry) (ts id : Nat) (k : Kind) (ms : List Nat) (r : Option Nat)
    (es' : List Entry) (n : Option Nat) (h : opCreate es ts id k ms r = .ok es' n) : Shape es ts [] es' := by
  unfold opCreate at h
  split at h
  · cases h
  · rename_i hfresh
    have hnone : find es id = none := by
      cases hf : find es id with
      | none => rfl
      | some _ => simp [hf] at hfresh
    have key : ∀ aff, Shape es ts [] (recompute aff (es ++ [newEntry id k ts ms r])) := by
      intro aff
      refine ⟨recE aff (es ++ [newEntry id k ts ms r]), [recE aff (es ++ [newEntry id k ts ms r]) (newEntry id k ts ms r)],
        by simp [recompute], recE_id aff _, fun e _ => (Evol.rfl' ts [] e).through_rec aff _, .inr ⟨_, rfl, ?_, ?_⟩, by simp⟩
      · rw [(recE_fields aff _ _).2.1]; rfl
      · rw [recE_id]; exact hnone
    split at h
    · cases h
    · split at h
      · cases h
      · split at h
        · cases h; exact key _
        · split at h
          · cases h
          · split at h
            · cases h
            · split at h
              · cases h
              · cases h; exact key _

theorem opAdd_shape (es : List Entry) (hnd : (es.map (·.id)).Nodup) (ts g m : Nat)
    (es' : List Entry) (n : Option Nat) (h : opAdd es g m = .ok es' n) : Shape es ts [] es' := by
  unfold opAdd at h
  split at h
  · cases h; exact Shape.same es ts
  · rename_i ge hg
    split at h
    · cases h; exact Shape.same es ts
    · rename_i hlive
      have hl : ge.st = .live := by simpa using hlive
      split at h
      · cases h
      · split at h
        · cases h
        · split at h
          · cases h; exact Shape.rec es ts _
          · split at h
            · cases h
            · cases h
              refine Shape.map_rec es ts [] _ (addMemE g m) (addMemE_id g m) (fun e he => ?_) (by simp)
              unfold addMemE
              refine Evol.member_only ts [] e _ _ (fun ht => ?_)
              by_cases hid : e.id = g
              · have := live_of_find_nodup hnd hg he hid
                rw [this, hl] at ht; cases ht
              · simpa using hid

theorem opRem_shape (es : List Entry) (hnd : (es.map (·.id)).Nodup) (ts g m : Nat)
    (es' : List Entry) (n : Option Nat) (h : opRem es g m = .ok es' n) : Shape es ts [] es' := by
  unfold opRem at h
  split at h
  · cases h; exact Shape.same es ts
  · rename_i ge hg
    split at h
    · cases h; exact Shape.same es ts
    · rename_i hlive
      have hl : ge.st = .live := by simpa using hlive
      split at h
      · cases h; exact Shape.rec es ts _
      · cases h
        refine Shape.map_rec es ts [] _ (remMemE g m) (remMemE_id g m) (fun e he => ?_) (by simp)
        unfold remMemE
        refine Evol.member_only ts [] e _ _ (fun ht => ?_)
        by_cases hid : e.id = g
        · have := live_of_find_nodup hnd hg he hid
          rw [this, hl] at ht; cases ht
        · simpa using hid

theorem opDelete_shape (es : List Entry) (hw : ∀ e ∈ es, e.st = .tomb → Wiped e) (ts : Nat) (ids : List Nat)
    (es' : List Entry) (n : Option Nat) (h : opDelete es ts ids = .ok es' n) : ∃ del, Shape es ts del es' := by
  unfold opDelete at h
  split at h
  · cases h
  · split at h
    · cases h
    · split at h
      · cases h
      · simp only [List.map_map] at h
        cases h
        refine ⟨_, Shape.map_rec es ts _ _ _ (fun e => by simp [unrefE_id, recycleE_id])
          (fun e he => evol_delete es ids _ ts e (hw e he)) ?_⟩
        intro g hg
        obtain ⟨ge, hge, rfl⟩ := List.mem_map.mp hg
        obtain ⟨he, hD⟩ := List.mem_filter.mp hge
        exact ⟨ge, he, rfl, (unref_recycle_st es ids _ ts hD).1⟩

theorem opRevive_shape (es : List Entry) (ts x : Nat)
    (es' : List Entry) (n : Option Nat) (h : opRevive es ts x = .ok es' n) : Shape es ts [] es' := by
  unfold opRevive at h
  split at h
  · cases h
  · split at h
    · cases h
    · split at h
      · cases h
      · split at h
        · cases h
        · split at h
          · cases h
          · simp only [List.map_map] at h
            cases h
            exact Shape.map_rec es ts [] _ _ (fun e => by simp [reviveAddE_id, reviveE_id])
              (fun e _ => evol_revive es x ts e) (by simp)

theorem opPurgeRecycled_shape (es : List Entry) (ts sid : Nat)
    (es' : List Entry) (n : Option Nat) (h : opPurgeRecycled es ts sid = .ok es' n) : Shape es ts [] es' := by
  unfold opPurgeRecycled at h
  split at h
  · cases h
  · rename_i cut hcut
    cases h
    exact ⟨purgeE sid cut ts, [], by simp, purgeE_id sid cut ts, fun e _ => evol_purge hcut e, .inl rfl, by simp⟩

theorem applyOp_shape (s : State) (hi : Inv s) (ts : Nat) (trim : Cid.Cid) (op : Op)
    (es' : List Entry) (n : Option Nat) (hop : op ≠ .purgeTombstones)
    (h : applyOp s ts trim op = .ok es' n) : ∃ del, Shape s.es ts del es' := by
  cases op <;> simp only [applyOp] at h
  case createPerson id => exact ⟨_, opCreate_shape _ _ _ _ _ _ _ _ h⟩
  case createGroup id ms => exact ⟨_, opCreate_shape _ _ _ _ _ _ _ _ h⟩
  case createCert id p => exact ⟨_, opCreate_shape _ _ _ _ _ _ _ _ h⟩
  case addMember g m => exact ⟨_, opAdd_shape _ hi.nodup _ _ _ _ _ h⟩
  case remMember g m => exact ⟨_, opRem_shape _ hi.nodup _ _ _ _ _ h⟩
  case touch x => cases h; exact ⟨_, Shape.rec _ _ _⟩
  case delete ids => exact opDelete_shape _ hi.wiped _ _ _ _ h
  case revive x => exact ⟨_, opRevive_shape _ _ _ _ _ h⟩
  case purgeRecycled => exact ⟨_, opPurgeRecycled_shape _ _ _ _ _ h⟩
  case purgeTombstones => exact absurd rfl hop

/-! ## one transaction, seen from one uuid -/

theorem next_eq (s : State) (ct : Nat) (op : Op) :
    next s ct op = s ∨ ∃ trim es' n, subSecs (txnTs s ct) trimWindow = some trim ∧
      applyOp s (txnTs s ct) trim op = .ok es' n ∧
      next s ct op = { s with es := es', maxTs := txnTs s ct } := by
  unfold next apply
  cases hsub : subSecs (txnTs s ct) trimWindow with
  | none => exact .inl rfl
  | some trim =>
    simp only
    cases hap : applyOp s (txnTs s ct) trim op with
    | ok es' n =>
      simp only
      split
      · exact .inr ⟨trim, es', n, rfl, hap, rfl⟩
      · exact .inl rfl
    | err e => exact .inl rfl
    | unsupported => exact .inl rfl
    | panic => exact .inl rfl

/-- What a committed transaction stamped `ts` did, seen from uuid `x`. -/
structure StepFacts (s s' : State) (ts : Nat) (op : Op) (x : Nat) (del : List Nat) : Prop where
  maxTs : s'.maxTs = ts
  sid : s'.sid = s.sid
  /-- the uuids this transaction deleted are in the recycle bin afterwards -/
  dead : ∀ g ∈ del, ∃ ge', find s'.es g = some ge' ∧ ge'.st = .recycled
  old : ∀ e, find s.es x = some e →
    (∃ e', find s'.es x = some e' ∧ Evol ts del e e') ∨
    (find s'.es x = none ∧ op = .purgeTombstones ∧ e.st = .tomb ∧ e.lastMod + changelogMaxAge * NS < ts)
  fresh : find s.es x = none → find s'.es x = none ∨ ∃ e', find s'.es x = some e' ∧ e'.st = .live

theorem find_append' (l1 l2 : List Entry) (x : Nat) : find (l1 ++ l2) x = (find l1 x).or (find l2 x) := by
  simp [find, List.find?_append]

theorem shape_find {es es' : List Entry} {ts : Nat} {del : List Nat} (h : Shape es ts del es') (x : Nat) :
    (∀ e, find es x = some e → ∃ e', find es' x = some e' ∧ Evol ts del e e') ∧
    (find es x = none → find es' x = none ∨ ∃ e', find es' x = some e' ∧ e'.st = .live) := by
  obtain ⟨F, tail, rfl, hid, hev, htail, _⟩ := h
  constructor
  · intro e he
    refine ⟨F e, ?_, hev e (find_some_mem he).1⟩
    rw [find_append', find_map F hid, he]; rfl
  · intro hn
    rw [find_append', find_map F hid, hn]
    rcases htail with rfl | ⟨nw, rfl, hl, _⟩
    · exact .inl rfl
    · by_cases hx : nw.id = x
      · exact .inr ⟨nw, by simp [find, hx], hl⟩
      · exact .inl (by simp [find, hx])

theorem shape_inv {s : State} (hi : Inv s) {ts : Nat} (hts : s.maxTs < ts) {es' : List Entry}
    {del : List Nat} (h : Shape s.es ts del es') : Inv { s with es := es', maxTs := ts } := by
  obtain ⟨F, tail, rfl, hid, hev, htail, _⟩ := h
  have hmapid : (s.es.map F).map (·.id) = s.es.map (·.id) := by
    simp [List.map_map, Function.comp_def, hid]
  refine ⟨?_, ?_, ?_⟩
  · simp only [List.map_append, hmapid]
    rcases htail with rfl | ⟨nw, rfl, _, hfresh⟩
    · simpa using hi.nodup
    · rw [List.nodup_append]
      refine ⟨hi.nodup, by simp, ?_⟩
      intro a ha b hb
      simp only [List.map_cons, List.map_nil, List.mem_singleton] at hb
      subst hb
      obtain ⟨e, he, rfl⟩ := List.mem_map.mp ha
      exact fun heq => (find_none_iff.mp hfresh) e he heq
  · intro e' he' hnl
    simp only [List.mem_append] at he'
    rcases he' with he' | he'
    · obtain ⟨e, he, rfl⟩ := List.mem_map.mp he'
      have ev := hev e he
      cases hst : e.st with
      | live =>
        rcases ev.live hst with h1 | ⟨_, h2⟩
        · exact absurd h1 hnl
        · simp only; omega
      | recycled =>
        have := hi.stamp e he (by rw [hst]; decide)
        rcases ev.recy hst with ⟨_, h2 | h2⟩ | h1 | ⟨_, h2, _⟩
        · simp only; omega
        · simp only; omega
        · exact absurd h1 hnl
        · simp only; omega
      | tomb =>
        have := hi.stamp e he (by rw [hst]; decide)
        rw [ev.tomb hst]; simp only; omega
    · rcases htail with rfl | ⟨nw, rfl, hl, _⟩
      · cases he'
      · simp only [List.mem_singleton] at he'
        subst he'; exact absurd hl hnl
  · intro e' he' ht
    simp only [List.mem_append] at he'
    rcases he' with he' | he'
    · obtain ⟨e, he, rfl⟩ := List.mem_map.mp he'
      have ev := hev e he
      cases hst : e.st with
      | live =>
        rcases ev.live hst with h1 | ⟨h1, _⟩ <;> rw [h1] at ht <;> cases ht
      | recycled =>
        rcases ev.recy hst with ⟨h1, _⟩ | h1 | ⟨_, _, _, h4⟩
        · rw [h1] at ht; cases ht
        · rw [h1] at ht; cases ht
        · exact h4
      | tomb => rw [ev.tomb hst]; exact hi.wiped e he hst
    · rcases htail with rfl | ⟨nw, rfl, hl, _⟩
      · cases he'
      · simp only [List.mem_singleton] at he'
        subst he'; rw [hl] at ht; cases ht

theorem inv_next {s : State} (hi : Inv s) (ct : Nat) (op : Op) : Inv (next s ct op) := by
  rcases next_eq s ct op with h | ⟨trim, es', n, hsub, hap, hnext⟩
  · rw [h]; exact hi
  · rw [hnext]
    by_cases hop : op = .purgeTombstones
    · subst hop
      simp only [applyOp, opPurgeTombstones] at hap
      cases hap
      have hgt := txnTs_gt s ct
      refine ⟨?_, ?_, ?_⟩
      · exact (List.filter_sublist.map _).nodup hi.nodup
      · intro e he hnl
        have := hi.stamp e (List.mem_filter.mp he).1 hnl
        simp only; omega
      · intro e he
        exact hi.wiped e (List.mem_filter.mp he).1
    · obtain ⟨del, hsh⟩ := applyOp_shape s hi _ trim op es' n hop hap
      exact shape_inv hi (txnTs_gt s ct) hsh

theorem next_facts {s : State} (hi : Inv s) (ct : Nat) (op : Op) (x : Nat) :
    next s ct op = s ∨ ∃ del, StepFacts s (next s ct op) (txnTs s ct) op x del := by
  rcases next_eq s ct op with h | ⟨trim, es', n, hsub, hap, hnext⟩
  · exact .inl h
  · refine .inr ?_
    have hinv' := inv_next hi ct op
    rw [hnext] at hinv' ⊢
    by_cases hop : op = .purgeTombstones
    · subst hop
      simp only [applyOp, opPurgeTombstones] at hap
      cases hap
      refine ⟨[], rfl, rfl, by simp, ?_, ?_⟩
      · intro e he
        simp only
        rw [find_filter_nodup hi.nodup, he]
        by_cases hr : reapSel s.sid trim e = true
        · obtain ⟨h1, h2⟩ := (reapSel_iff hsub e).mp hr
          exact .inr ⟨by simp [hr], trivial, h1, h2⟩
        · exact .inl ⟨e, by simp [hr], Evol.rfl' _ _ e⟩
      · intro hn
        simp only
        rw [find_filter_nodup hi.nodup, hn]
        exact .inl rfl
    · obtain ⟨del, hsh⟩ := applyOp_shape s hi _ trim op es' n hop hap
      have hs := shape_find hsh x
      refine ⟨del, rfl, rfl, ?_, fun e he => .inl (hs.1 e he), hs.2⟩
      intro g hg
      obtain ⟨F, tail, rfl, hid, _, _, hdel⟩ := hsh
      obtain ⟨ge, he, hgid, hst⟩ := hdel g hg
      refine ⟨F ge, ?_, hst⟩
      have hm : F ge ∈ s.es.map F ++ tail := List.mem_append_left _ (List.mem_map_of_mem he)
      have := find_of_mem_nodup hinv'.nodup hm
      rw [hid, hgid] at this
      exact this

theorem inv_run {s : State} (hi : Inv s) (steps : List (Nat × Op)) : Inv (run s steps) := by
  induction steps generalizing s with
  | nil => exact hi
  | cons st rest ih => exact ih (inv_next hi st.1 st.2)

theorem maxTs_next (s : State) (ct : Nat) (op : Op) : s.maxTs ≤ (next s ct op).maxTs := by
  rcases next_eq s ct op with h | ⟨_, _, _, _, _, hnext⟩
  · rw [h]; exact Nat.le_refl _
  · rw [hnext]; exact Nat.le_of_lt (txnTs_gt s ct)

theorem maxTs_run (s : State) (steps : List (Nat × Op)) : s.maxTs ≤ (run s steps).maxTs := by
  induction steps generalizing s with
  | nil => exact Nat.le_refl _
  | cons st rest ih => exact Nat.le_trans (maxTs_next s st.1 st.2) (ih _)

theorem inv_empty (m sid : Nat) : Inv ⟨[], m, sid⟩ :=
  ⟨by simp, by simp, by simp⟩

/-! ## helpers for the property theorems -/

theorem apply_ok {s : State} {ct : Nat} {op : Op} {es' : List Entry} {n : Option Nat}
    (h : apply s ct op = .ok es' n) :
    ∃ trim, subSecs (txnTs s ct) trimWindow = some trim ∧ applyOp s (txnTs s ct) trim op = .ok es' n := by
  unfold apply at h
  split at h
  · cases h
  · rename_i trim htrim; exact ⟨trim, htrim, h⟩

theorem find_recompute (aff : Entry → Bool) (es : List Entry) (x : Nat) :
    find (recompute aff es) x = (find es x).map (recE aff es) :=
  find_map _ (recE_id aff es) es x

theorem find_recompute_nonlive (aff : Entry → Bool) {es : List Entry} {y : Nat} {e : Entry}
    (hy : find es y = some e) (hnl : e.st ≠ .live) : find (recompute aff es) y = some e := by
  rw [find_recompute, hy]
  simp [recE_not_live aff es e hnl]

theorem isLive_of_mem {es : List Entry} (hnd : (es.map (·.id)).Nodup) {e : Entry} (he : e ∈ es)
    (hl : e.st = .live) : isLive es e.id = true := by
  unfold isLive
  rw [find_of_mem_nodup hnd he]
  simpa using hl

/-- What a successful delete does to a live entry its filter names. -/
theorem delete_find {s : State} {ct : Nat} {ids : List Nat} {es' : List Entry} {n : Option Nat}
    (h : apply s ct (.delete ids) = .ok es' n) {x : Nat} {e : Entry}
    (hfe : find s.es x = some e) (hel : e.st = .live) (hx : x ∈ ids) :
    ∃ e', find es' x = some e' ∧ e'.st = .recycled ∧ e'.lastMod = txnTs s ct := by
  obtain ⟨trim, _, hap⟩ := apply_ok h
  simp only [applyOp, opDelete] at hap
  split at hap
  · cases hap
  · split at hap
    · cases hap
    · split at hap
      · cases hap
      · simp only [List.map_map] at hap
        cases hap
        have hidx : e.id = x := (find_some_mem hfe).2
        have hD : inD s.es ids e = true := by
          simp [inD, inT, hel, hidx, hx]
        rw [find_recompute, find_map _ (fun a => by simp [unrefE_id, recycleE_id]), hfe]
        simp only [Option.map_some, Function.comp_apply]
        have h1 : (recycleE s.es ids (txnTs s ct) e).st = .recycled ∧
            (recycleE s.es ids (txnTs s ct) e).lastMod = txnTs s ct := by
          unfold recycleE; simp [hD]
        generalize recycleE s.es ids (txnTs s ct) e = r at h1
        have h2 : ∀ d, (unrefE d (txnTs s ct) r).st = .recycled ∧ (unrefE d (txnTs s ct) r).lastMod = txnTs s ct := by
          intro d; unfold unrefE; split <;> simp [h1]
        refine ⟨_, rfl, ?_, ?_⟩
        · rw [(recE_fields _ _ _).2.1]; exact (h2 _).1
        · rw [(recE_fields _ _ _).2.2.1]; exact (h2 _).2

/-- `pre_delete` stashes the direct memberships: every group of the deleted entry's
directmemberof is in its recycled_directmemberof afterwards, unless the same request deleted
the group too (then the group is in the bin afterwards). -/
theorem delete_stash {s : State} (hi : Inv s) {ct : Nat} {ids : List Nat} {es' : List Entry}
    {n : Option Nat} (h : apply s ct (.delete ids) = .ok es' n) {x : Nat} {e : Entry}
    (hfe : find s.es x = some e) (hel : e.st = .live) (hx : x ∈ ids) :
    ∃ e', find es' x = some e' ∧
      ∀ g ∈ e.dmo, g ∈ e'.rdmo ∨ ∃ ge', find es' g = some ge' ∧ ge'.st = .recycled := by
  obtain ⟨trim, _, hap⟩ := apply_ok h
  simp only [applyOp, opDelete] at hap
  split at hap
  · cases hap
  · split at hap
    · cases hap
    · split at hap
      · cases hap
      · simp only [List.map_map] at hap
        cases hap
        have hidx : e.id = x := (find_some_mem hfe).2
        have hD : inD s.es ids e = true := by
          simp [inD, inT, hel, hidx, hx]
        have hidF : ∀ a : Entry, (((unrefE ((s.es.filter (inD s.es ids)).map (·.id)) (txnTs s ct)) ∘
            recycleE s.es ids (txnTs s ct)) a).id = a.id := fun a => by
          simp [unrefE_id, recycleE_id]
        refine ⟨_, by rw [find_recompute, find_map _ hidF, hfe]; rfl, ?_⟩
        intro g hg
        rw [(recE_fields _ _ _).2.2.2.2.1]
        simp only [Function.comp_apply]
        have h1 : (recycleE s.es ids (txnTs s ct) e).rdmo = e.dmo := by
          unfold recycleE; simp [hD, preDeleteStashesDmo]
        by_cases hgd : g ∈ (s.es.filter (inD s.es ids)).map (·.id)
        · right
          obtain ⟨ge, hge, rfl⟩ := List.mem_map.mp hgd
          obtain ⟨he, hDg⟩ := List.mem_filter.mp hge
          refine ⟨_, by rw [find_recompute, find_map _ hidF, find_of_mem_nodup hi.nodup he]; rfl, ?_⟩
          rw [(recE_fields _ _ _).2.1]
          exact (unref_recycle_st s.es ids _ _ hDg).1
        · left
          unfold unrefE
          split
          · simp only [h1]
            exact List.mem_filter.mpr ⟨hg, by simpa using hgd⟩
          · rw [h1]; exact hg

/-- The entries after a successful revive, spelled out. -/
theorem opRevive_ok {es : List Entry} {ts x : Nat} {es' : List Entry} {n : Option Nat}
    (h : opRevive es ts x = .ok es' n) :
    ∃ xe, find es x = some xe ∧ xe.st = .recycled ∧ n = none ∧
      es' = recompute
        (fun e => ((es.filter (inR x)).map (·.id)).contains e.id ||
          (es.any (fun e => inR x e && e.kind == .person) && e.kind == .person))
        (es.map (fun e => reviveAddE es x (reviveE x ts e))) := by
  unfold opRevive at h
  split at h
  · cases h
  · rename_i xe hxe
    split at h
    · cases h
    · rename_i hst
      split at h
      · cases h
      · split at h
        · cases h
        · split at h
          · cases h
          · simp only [List.map_map] at h
            cases h
            exact ⟨xe, hxe, by simpa using hst, rfl, rfl⟩

theorem reviveE_of_inR {x ts : Nat} {e : Entry} (h : inR x e = true) :
    (reviveE x ts e).st = .live ∧ (reviveE x ts e).refers = revRefers e ∧
    (reviveE x ts e).casc = none ∧ (reviveE x ts e).kind = e.kind ∧ (reviveE x ts e).id = e.id := by
  unfold reviveE
  simp [h, revivePurgesCascadeDeleted]

theorem reviveE_not_inR {x ts : Nat} {e : Entry} (h : inR x e = false) : reviveE x ts e = e := by
  unfold reviveE; simp [h]

theorem reviveAddE_fields (es : List Entry) (x : Nat) (e : Entry) :
    (reviveAddE es x e).st = e.st ∧ (reviveAddE es x e).kind = e.kind ∧
    (reviveAddE es x e).refers = e.refers ∧ (reviveAddE es x e).casc = e.casc ∧
    (reviveAddE es x e).id = e.id := by
  unfold reviveAddE; split <;> simp

/-- One transaction from a state where `x` is not a tombstone and the bound has not passed. -/
theorem not_tomb_step {s : State} (hi : Inv s) {d x : Nat} (hd : d ≤ s.maxTs) (ct : Nat) (op : Op)
    (hp : ∃ e, find s.es x = some e ∧ e.st ≠ .tomb ∧ (e.st = .recycled → d ≤ e.lastMod))
    (hwin : (next s ct op).maxTs ≤ d + recyclebinMaxAge * NS) :
    ∃ e, find (next s ct op).es x = some e ∧ e.st ≠ .tomb ∧ (e.st = .recycled → d ≤ e.lastMod) := by
  rcases next_facts hi ct op x with h | ⟨del, hf⟩
  · rw [h]; exact hp
  · obtain ⟨e, hfe, hnt, hrd⟩ := hp
    have hgt := txnTs_gt s ct
    rcases hf.old e hfe with ⟨e', hfe', ev⟩ | ⟨_, _, ht, _⟩
    · refine ⟨e', hfe', ?_, ?_⟩
      · cases hst : e.st with
        | live => rcases ev.live hst with h1 | ⟨h1, _⟩ <;> rw [h1] <;> decide
        | recycled =>
          rcases ev.recy hst with ⟨h1, _⟩ | h1 | ⟨_, _, h3, _⟩
          · rw [h1]; decide
          · rw [h1]; decide
          · have := hrd hst
            rw [hf.maxTs] at hwin
            omega
        | tomb => exact absurd hst hnt
      · intro hr'
        cases hst : e.st with
        | live =>
          rcases ev.live hst with h1 | ⟨_, h2⟩
          · rw [h1] at hr'; cases hr'
          · omega
        | recycled =>
          have := hrd hst
          rcases ev.recy hst with ⟨_, h2 | h2⟩ | h1 | ⟨h1, _⟩
          · omega
          · omega
          · rw [h1] at hr'; cases hr'
          · rw [h1] at hr'; cases hr'
        | tomb => exact absurd hst hnt
    · exact absurd ht hnt

theorem not_tomb_within {d x : Nat} : ∀ (steps : List (Nat × Op)) {s : State}, Inv s → d ≤ s.maxTs →
    (∃ e, find s.es x = some e ∧ e.st ≠ .tomb ∧ (e.st = .recycled → d ≤ e.lastMod)) →
    (run s steps).maxTs ≤ d + recyclebinMaxAge * NS →
    ∃ e, find (run s steps).es x = some e ∧ e.st ≠ .tomb ∧ (e.st = .recycled → d ≤ e.lastMod)
  | [], _, _, _, hp, _ => hp
  | (ct, op) :: rest, s, hi, hd, hp, hwin => by
    have hmono := maxTs_run (next s ct op) rest
    simp only [run] at hwin ⊢
    exact not_tomb_within rest (inv_next hi ct op) (Nat.le_trans hd (maxTs_next s ct op))
      (not_tomb_step hi hd ct op hp (Nat.le_trans hmono hwin)) hwin

theorem tomb_step {s : State} (hi : Inv s) {x : Nat} {e : Entry} (hx : find s.es x = some e)
    (ht : e.st = .tomb) (ct : Nat) (op : Op) :
    find (next s ct op).es x = some e ∨
    (find (next s ct op).es x = none ∧ op = .purgeTombstones ∧
      e.lastMod + changelogMaxAge * NS < txnTs s ct ∧ (next s ct op).maxTs = txnTs s ct) := by
  rcases next_facts hi ct op x with h | ⟨del, hf⟩
  · rw [h]; exact .inl hx
  · rcases hf.old e hx with ⟨e', hfe', ev⟩ | ⟨h1, h2, _, h4⟩
    · rw [ev.tomb ht] at hfe'; exact .inl hfe'
    · exact .inr ⟨h1, h2, h4, hf.maxTs⟩

theorem tomb_within {x : Nat} {e : Entry} (ht : e.st = .tomb) : ∀ (steps : List (Nat × Op)) {s : State},
    Inv s → find s.es x = some e → (run s steps).maxTs ≤ e.lastMod + changelogMaxAge * NS →
    find (run s steps).es x = some e
  | [], _, _, hx, _ => hx
  | (ct, op) :: rest, s, hi, hx, hwin => by
    have hmono := maxTs_run (next s ct op) rest
    simp only [run] at hwin ⊢
    rcases tomb_step hi hx ht ct op with h | ⟨_, _, h3, h4⟩
    · exact tomb_within ht rest (inv_next hi ct op) h hwin
    · omega

/-- `revive_recycled` succeeds when none of its three checks (schema, referential integrity,
reference loop) fires. -/
theorem opRevive_eq {es : List Entry} {ts x : Nat} {xe : Entry} (hx : find es x = some xe)
    (hr : xe.st = .recycled)
    (h1 : es.any (fun e => inR x e && e.kind == .cert && (revRefers e).isNone) = false)
    (h2 : es.any (fun e => inR x e && reviveRefBad (es.map (reviveE x ts)) e) = false)
    (h3 : es.any (fun e => inR x e && reviveLoopBad (es.map (reviveE x ts)) e) = false) :
    opRevive es ts x = .ok (recompute
        (fun e => ((es.filter (inR x)).map (·.id)).contains e.id ||
          (es.any (fun e => inR x e && e.kind == .person) && e.kind == .person))
        (es.map (fun e => reviveAddE es x (reviveE x ts e)))) none := by
  unfold opRevive
  simp only [hx]
  have : (xe.st != St.recycled) = false := by rw [hr]; decide
  simp only [this, h1, h2, h3, Bool.false_eq_true, if_false, List.map_map]
  rfl

theorem recE_dmo {aff : Entry → Bool} {es0 : List Entry} {e : Entry} (hl : e.st = .live)
    (ha : aff e = true) : (recE aff es0 e).dmo = dmoOf es0 e.id := by
  unfold recE; simp [hl, ha]

/-- What a successful revive does to every entry it revives (the target and the recycled
entries carrying its cascade mark). -/
theorem revive_find {es : List Entry} {ts x : Nat} {es' : List Entry} {n : Option Nat}
    (h : opRevive es ts x = .ok es' n) {r : Nat} {re : Entry} (hr : find es r = some re)
    (hR : inR x re = true) :
    ∃ re', find es' r = some re' ∧ re'.st = .live ∧ re'.refers = revRefers re ∧ re'.casc = none ∧
      (∀ g ge, g ∈ re.rdmo → find es g = some ge → ge.kind = .group → ge.st = .live →
        g ∈ re'.dmo ∧ ∃ ge', find es' g = some ge' ∧ ge'.st = .live ∧ ge'.kind = .group ∧ r ∈ ge'.member) := by
  obtain ⟨xe, hxe, hxr, _, rfl⟩ := opRevive_ok h
  have hmr := find_some_mem hr
  have hre := reviveE_of_inR (ts := ts) hR
  have hra := reviveAddE_fields es x (reviveE x ts re)
  -- the list before the recomputation
  have hid2 : ∀ e, (reviveAddE es x (reviveE x ts e)).id = e.id := fun e => by
    rw [reviveAddE_id, reviveE_id]
  have hlive2 : (reviveAddE es x (reviveE x ts re)).st = .live := by rw [hra.1]; exact hre.1
  have haff : ((es.filter (inR x)).map (·.id)).contains (reviveAddE es x (reviveE x ts re)).id = true := by
    rw [hid2]
    simp only [List.contains_iff_mem, List.mem_map, List.mem_filter]
    exact ⟨re, ⟨hmr.1, hR⟩, rfl⟩
  refine ⟨_, by rw [find_recompute, find_map _ hid2, hr]; rfl, ?_, ?_, ?_, ?_⟩
  · rw [(recE_fields _ _ _).2.1]; exact hlive2
  · rw [(recE_fields _ _ _).2.2.2.2.2.1, hra.2.2.1]; exact hre.2.1
  · rw [(recE_fields _ _ _).2.2.2.2.2.2, hra.2.2.2.1]; exact hre.2.2.1
  · intro g ge hg hfg hgk hgl
    have hmg := find_some_mem hfg
    -- the group is not revived by this request, so only its member list changes
    have hnotR : inR x ge = false := by
      simp [inR, hgl]
    have hge1 : reviveE x ts ge = ge := reviveE_not_inR hnotR
    have hmem : r ∈ (reviveAddE es x ge).member := by
      unfold reviveAddE
      have : (ge.kind == Kind.group && ge.st != St.tomb) = true := by simp [hgk, hgl]
      simp only [this, if_true]
      by_cases hin : r ∈ ge.member
      · exact List.mem_append_left _ hin
      · refine List.mem_append_right _ ?_
        simp only [reviveAdds, List.mem_map, List.mem_filter, Bool.and_eq_true, Bool.not_eq_true',
          List.contains_iff_mem]
        refine ⟨re, ⟨hmr.1, ⟨hR, ?_⟩, ?_⟩, hmr.2⟩
        · rw [hmg.2]; exact hg
        · rw [hmr.2]; simpa using hin
    have hf2 := reviveAddE_fields es x ge
    constructor
    · -- directmemberof of the revived entry is recomputed from the new member lists
      rw [recE_dmo hlive2 (by simp only [haff, Bool.true_or]), hid2]
      simp only [dmoOf, List.mem_map, List.mem_filter, Bool.and_eq_true, beq_iff_eq,
        List.contains_iff_mem]
      refine ⟨reviveAddE es x (reviveE x ts ge), ⟨⟨⟨ge, hmg.1, rfl⟩, ⟨?_, ?_⟩, ?_⟩, ?_⟩⟩
      · rw [hge1, hf2.2.1]; exact hgk
      · rw [hge1, hf2.1]; exact hgl
      · rw [hge1, hmr.2] ; exact hmem
      · rw [hid2]; exact hmg.2
    · refine ⟨_, by rw [find_recompute, find_map _ hid2, hfg]; rfl, ?_, ?_, ?_⟩
      · rw [(recE_fields _ _ _).2.1]; simp only [hge1, hf2.1]; exact hgl
      · rw [(recE_fields _ _ _).1]; simp only [hge1, hf2.2.1]; exact hgk
      · rw [(recE_fields _ _ _).2.2.2.1]; simp only [hge1]; exact hmem

/-! ## what an entry keeps while it stays in the recycle bin -/

/-- `P` holds in every state the history passes through (the first and the last included). -/
def Always (P : State → Prop) : State → List (Nat × Op) → Prop
  | s, [] => P s
  | s, (ct, op) :: rest => P s ∧ Always P (next s ct op) rest

/-- the entry is in the recycle bin -/
def InBin (x : Nat) (s : State) : Prop := ∃ e, find s.es x = some e ∧ e.st = .recycled

/-- the uuid is a live group -/
def LiveGroupIn (g : Nat) (s : State) : Prop :=
  ∃ ge, find s.es g = some ge ∧ ge.st = .live ∧ ge.kind = .group

theorem Always.head {P : State → Prop} : ∀ {s : State} {steps : List (Nat × Op)}, Always P s steps → P s
  | _, [], h => h
  | _, _ :: _, h => h.1

theorem kept_step {s : State} (hi : Inv s) {x : Nat} {e : Entry} (hx : find s.es x = some e)
    (hr : e.st = .recycled) (ct : Nat) (op : Op) (hx' : InBin x (next s ct op)) :
    ∃ e', find (next s ct op).es x = some e' ∧ e'.st = .recycled ∧ e'.casc = e.casc ∧
      ∀ g ∈ e.rdmo, LiveGroupIn g (next s ct op) → g ∈ e'.rdmo := by
  rcases next_facts hi ct op x with h | ⟨del, hf⟩
  · rw [h]; exact ⟨e, hx, hr, rfl, fun g hg _ => hg⟩
  · obtain ⟨e2, hfe2, hr2⟩ := hx'
    rcases hf.old e hx with ⟨e', hfe', ev⟩ | ⟨hnone, _⟩
    · rw [hfe2] at hfe'
      cases hfe'
      refine ⟨e2, hfe2, hr2, ev.cascKeep hr hr2, ?_⟩
      intro g hg hlive
      rcases ev.rdmoKeep hr hr2 g hg with h1 | h1
      · exact h1
      · obtain ⟨ge', hfg, hst⟩ := hf.dead g h1
        obtain ⟨ge2, hfg2, hl2, _⟩ := hlive
        rw [hfg] at hfg2
        cases hfg2
        rw [hst] at hl2; cases hl2
    · rw [hnone] at hfe2; cases hfe2

theorem kept_while_in_bin {x : Nat} : ∀ (steps : List (Nat × Op)) {s : State} {e : Entry}, Inv s →
    find s.es x = some e → e.st = .recycled → Always (InBin x) s steps →
    ∃ e1, find (run s steps).es x = some e1 ∧ e1.st = .recycled ∧ e1.casc = e.casc ∧
      ∀ g ∈ e.rdmo, Always (LiveGroupIn g) s steps → g ∈ e1.rdmo
  | [], _, e, _, hx, hr, _ => ⟨e, hx, hr, rfl, fun _ hg _ => hg⟩
  | (ct, op) :: rest, s, e, hi, hx, hr, hal => by
    obtain ⟨e', hfe', hr', hc', hg'⟩ := kept_step hi hx hr ct op hal.2.head
    obtain ⟨e1, hf1, hr1, hc1, hg1⟩ := kept_while_in_bin rest (inv_next hi ct op) hfe' hr' hal.2
    refine ⟨e1, hf1, hr1, by rw [hc1, hc'], ?_⟩
    intro g hg hlive
    exact hg1 g (hg' g hg hlive.2.head) hlive.2

theorem Always.last {P : State → Prop} : ∀ (steps : List (Nat × Op)) (s : State), Always P s steps → P (run s steps)
  | [], _, h => h
  | (ct, op) :: rest, s, h => Always.last rest (next s ct op) h.2

/-- A live entry referring to a deleted entry is deleted with it and carries the cascade mark. -/
theorem delete_cascade {s : State} {ct : Nat} {ids : List Nat} {es' : List Entry}
    {n : Option Nat} (h : apply s ct (.delete ids) = .ok es' n) {x c : Nat} {e ce : Entry}
    (hfe : find s.es x = some e) (hel : e.st = .live) (hx : x ∈ ids)
    (hfc : find s.es c = some ce) (hcl : ce.st = .live) (hcr : ce.refers = some x) :
    ∃ ce', find es' c = some ce' ∧ ce'.st = .recycled ∧ ce'.casc = some x := by
  obtain ⟨trim, _, hap⟩ := apply_ok h
  simp only [applyOp, opDelete] at hap
  split at hap
  · cases hap
  · split at hap
    · cases hap
    · split at hap
      · cases hap
      · rename_i hnopanic
        simp only [List.map_map] at hap
        cases hap
        have hme := find_some_mem hfe
        have hT : inT ids e = true := by simp [inT, hel, hme.2, hx]
        have hC : inC s.es ids ce = true := by
          simp only [inC, hcl, hcr, beq_self_eq_true, Bool.true_and, List.any_eq_true, Bool.and_eq_true,
            beq_iff_eq]
          exact ⟨e, hme.1, hT, hme.2⟩
        have hD : inD s.es ids ce = true := by simp [inD, hC]
        have hidF : ∀ a : Entry, (((unrefE ((s.es.filter (inD s.es ids)).map (·.id)) (txnTs s ct)) ∘
            recycleE s.es ids (txnTs s ct)) a).id = a.id := fun a => by
          simp [unrefE_id, recycleE_id]
        refine ⟨_, by rw [find_recompute, find_map _ hidF, hfc]; rfl, ?_, ?_⟩
        · rw [(recE_fields _ _ _).2.1]
          exact (unref_recycle_st s.es ids _ _ hD).1
        · rw [(recE_fields _ _ _).2.2.2.2.2.2]
          simp only [Function.comp_apply]
          have h1 : (recycleE s.es ids (txnTs s ct) ce).casc = some x := by
            unfold recycleE; simp [hD, hC, deleteMarksCascade, hcr]
          unfold unrefE
          split <;> simp [h1]

end Kanidm.Recycle
