import KanidmModel.SoftLock
/-!
Helper lemmas for C28 (soft lock): window arithmetic, facts about the generated table,
the reachability invariant, and the window-budget induction.
-/
namespace Kanidm.SoftLock
open Kanidm.Gen.SoftLock

theorem NS_pos : 0 < NS := by decide

/-! ## Window arithmetic -/

/-- `e - e % w` with `e = s + w` is the end of the window containing `s`. -/
theorem windowReset_eq {w : Nat} (hw : 0 < w) (ct : Nat) :
    windowReset w ct = (asSecs ct / w + 1) * w * NS := by
  unfold windowReset fromSecs
  simp only [Nat.add_mod_right]
  have h := Nat.div_add_mod (asSecs ct) w
  have h2 : asSecs ct % w ≤ asSecs ct := Nat.mod_le _ _
  have : asSecs ct + w - asSecs ct % w = (asSecs ct / w + 1) * w := by
    rw [Nat.add_mul, Nat.one_mul, Nat.mul_comm]
    generalize asSecs ct / w = q at *
    generalize asSecs ct % w = m at *
    generalize w * q = x at *
    omega
  rw [this]

theorem lt_of_window {w k t : Nat} (hw : 0 < w) (h : asSecs t / w = k) : t < (k + 1) * w * NS := by
  have h1 : asSecs t < (k + 1) * w := by
    have := Nat.lt_mul_div_succ (asSecs t) hw
    rw [h, Nat.mul_comm] at this
    exact this
  unfold asSecs at h1
  exact (Nat.div_lt_iff_lt_mul NS_pos).mp h1

theorem windowReset_of_window {w k t : Nat} (hw : 0 < w) (h : asSecs t / w = k) :
    windowReset w t = (k + 1) * w * NS := by
  rw [windowReset_eq hw, h]

theorem windowReset_gt {w : Nat} (hw : 0 < w) (ct : Nat) : ct < windowReset w ct := by
  rw [windowReset_eq hw]
  exact lt_of_window hw rfl

theorem window_mono {w a b : Nat} (h : a ≤ b) : asSecs a / w ≤ asSecs b / w :=
  Nat.div_le_div_right (Nat.div_le_div_right h)

theorem windowReset_mono {w : Nat} (hw : 0 < w) {a b : Nat} (h : a ≤ b) :
    windowReset w a ≤ windowReset w b := by
  rw [windowReset_eq hw, windowReset_eq hw]
  have := window_mono (w := w) h
  exact Nat.mul_le_mul_right _ (Nat.mul_le_mul_right _ (by omega))

/-! ## The generated table -/

/-- Delay (seconds) of the first row whose threshold exceeds `count`; `none` = the final `else`. -/
def rowDelay : List (Nat × Nat) → Nat → Option Nat
  | [], _ => none
  | (t, d) :: rest, count => if count < t then some d else rowDelay rest count

theorem rowsUnlock_eq (rows : List (Nat × Nat)) (c ct r : Nat) :
    rowsUnlock rows c ct r = match rowDelay rows c with
      | some d => ct + fromSecs d
      | none => r := by
  induction rows with
  | nil => rfl
  | cons hd tl ih =>
    obtain ⟨t, d⟩ := hd
    unfold rowsUnlock rowDelay
    by_cases h : c < t
    · simp [h]
    · simp [h, ih]

theorem rowDelay_mem {rows : List (Nat × Nat)} {c d : Nat} (h : rowDelay rows c = some d) :
    ∃ t, (t, d) ∈ rows := by
  induction rows with
  | nil => simp [rowDelay] at h
  | cons hd tl ih =>
    obtain ⟨t, d'⟩ := hd
    unfold rowDelay at h
    by_cases hc : c < t
    · simp [hc] at h; subst h; exact ⟨t, List.mem_cons_self⟩
    · simp [hc] at h
      obtain ⟨t', ht'⟩ := ih h
      exact ⟨t', List.mem_cons_of_mem _ ht'⟩

/-- Every threshold is at most `cap` ⇒ counts from `cap` on take the final `else`. -/
theorem rowDelay_none_of_cap {rows : List (Nat × Nat)} {cap c : Nat}
    (h : ∀ r ∈ rows, r.1 ≤ cap) (hc : cap ≤ c) : rowDelay rows c = none := by
  induction rows with
  | nil => rfl
  | cons hd tl ih =>
    obtain ⟨t, d⟩ := hd
    unfold rowDelay
    have ht : t ≤ cap := h (t, d) List.mem_cons_self
    have : ¬ c < t := by omega
    simp only [this, if_false]
    exact ih (fun r hr => h r (List.mem_cons_of_mem _ hr))

/-- Delays never decrease along the table (checked on the generated rows by evaluation). -/
def rowsMono : List (Nat × Nat) → Bool
  | [] => true
  | (_, d) :: rest => rest.all (fun r => decide (d ≤ r.2)) && rowsMono rest

theorem rowDelay_mono {rows : List (Nat × Nat)} (hm : rowsMono rows = true) {c c' d' : Nat}
    (hc : c ≤ c') (h : rowDelay rows c' = some d') : ∃ d, rowDelay rows c = some d ∧ d ≤ d' := by
  induction rows with
  | nil => simp [rowDelay] at h
  | cons hd tl ih =>
    obtain ⟨t, d0⟩ := hd
    simp only [rowsMono, Bool.and_eq_true, List.all_eq_true, decide_eq_true_eq] at hm
    unfold rowDelay at h ⊢
    by_cases h1 : c' < t
    · have : c < t := by omega
      simp only [h1, if_true, Option.some.injEq] at h
      simp only [this, if_true]
      exact ⟨d0, rfl, by omega⟩
    · simp only [h1, if_false] at h
      by_cases h2 : c < t
      · simp only [h2, if_true]
        obtain ⟨t', ht'⟩ := rowDelay_mem h
        exact ⟨d0, rfl, hm.1 (t', d') ht'⟩
      · simp only [h2, if_false]
        exact ih hm.2 h

/-- Largest threshold of the Password table: from this count on the lock lasts until `reset_at`. -/
def passwordCap : Nat := (passwordRows.map (·.1)).foldl max 0

theorem passwordRows_le_cap : ∀ r ∈ passwordRows, r.1 ≤ passwordCap := by decide
theorem passwordRows_mono : rowsMono passwordRows = true := by decide
theorem passwordRows_pos : ∀ r ∈ passwordRows, 0 < r.2 := by decide

/-! ## Policies in closed form -/

/-- `Totp(0)` panics in the code (`% 0`); every other policy value is meaningful. -/
def Policy.WF : Policy → Prop
  | .totp step => 0 < step
  | _ => True

/-- `reset_at` computed by the policy table for a failure at `ct`: the end of the window. -/
def windowEndOf : Policy → Nat → Nat
  | .password, ct => windowReset oneDay ct
  | .totp step, ct => windowReset step ct
  | .webauthn, ct => ct + fromSecs webauthnReset
  | .unrestricted, _ => 0

/-- Delay (seconds) of the lock written by a failure with count `c`; `none` = until the window end. -/
def delayOf : Policy → Nat → Option Nat
  | .password, c => rowDelay passwordRows c
  | .totp _, c => if c ≥ totpCap then none else some totpDelay
  | .webauthn, _ => some webauthnUnlock
  | .unrestricted, _ => none

/-- `unlock_at` written by a failure with count `c` at `ct`. -/
def unlockOf (p : Policy) (c ct : Nat) : Nat :=
  match delayOf p c with
  | some d => ct + fromSecs d
  | none => windowEndOf p ct

theorem failureNextStateInner_eq {p : Policy} (hp : p ≠ .unrestricted) (c ct : Nat) :
    failureNextStateInner p c ct = .locked c (windowEndOf p ct) (unlockOf p c ct) := by
  cases p with
  | password => simp [failureNextStateInner, windowEndOf, unlockOf, delayOf, rowsUnlock_eq]
  | totp step =>
    by_cases h : c ≥ totpCap <;> simp [failureNextStateInner, windowEndOf, unlockOf, delayOf, h]
  | webauthn => simp [failureNextStateInner, windowEndOf, unlockOf, delayOf]
  | unrestricted => exact absurd rfl hp

/-- The wrapper keeps count and `unlock_at`, and never lowers `reset_at`. -/
theorem clamp_locked (c r u : Nat) :
    ∃ r', clamp (.locked c r u) = .locked c r' u ∧ r ≤ r' ∧ (r' = r ∨ r' = u) := by
  unfold clamp
  by_cases h : clampResets r u = true
  · refine ⟨u, by simp [h], ?_, Or.inr rfl⟩
    simp [clampResets] at h <;> omega
  · exact ⟨r, by simp [h], Nat.le_refl _, Or.inl rfl⟩

/-- With the wrapper in place `reset_at` is never before `unlock_at`. (False of a source
without the wrapper, where `clampResets` is constantly `false`.) -/
theorem clamp_ge_unlock {c r u r' : Nat} (h : clamp (.locked c r u) = .locked c r' u) : u ≤ r' := by
  unfold clamp at h
  by_cases hc : clampResets r u = true
  · simp [hc] at h; omega
  · simp [hc] at h
    simp [clampResets] at hc
    omega

theorem failureNextState_eq {p : Policy} (hp : p ≠ .unrestricted) (c ct : Nat) :
    ∃ r, failureNextState p c ct = .locked c r (unlockOf p c ct) ∧ windowEndOf p ct ≤ r ∧
      (r = windowEndOf p ct ∨ r = unlockOf p c ct) := by
  unfold failureNextState
  rw [failureNextStateInner_eq hp]
  exact clamp_locked _ _ _

theorem failureNextState_unrestricted (c ct : Nat) : failureNextState .unrestricted c ct = .init := rfl

theorem oneDay_pos : 0 < oneDay := by decide

theorem windowEndOf_gt {p : Policy} (hwf : p.WF) (hp : p ≠ .unrestricted) (ct : Nat) :
    ct < windowEndOf p ct := by
  cases p with
  | password => exact windowReset_gt oneDay_pos ct
  | totp step => exact windowReset_gt hwf ct
  | webauthn =>
    have : 0 < fromSecs webauthnReset := by decide
    simp only [windowEndOf]; omega
  | unrestricted => exact absurd rfl hp

theorem windowEndOf_mono {p : Policy} (hwf : p.WF) {a b : Nat} (h : a ≤ b) :
    windowEndOf p a ≤ windowEndOf p b := by
  cases p with
  | password => exact windowReset_mono oneDay_pos h
  | totp step => exact windowReset_mono hwf h
  | webauthn => simp only [windowEndOf]; omega
  | unrestricted => simp [windowEndOf]

theorem fromSecs_mono {a b : Nat} (h : a ≤ b) : fromSecs a ≤ fromSecs b :=
  Nat.mul_le_mul_right _ h

theorem fromSecs_pos {a : Nat} (h : 0 < a) : 0 < fromSecs a := Nat.mul_pos h NS_pos

theorem delayOf_pos {p : Policy} {c d : Nat} (h : delayOf p c = some d) : 0 < d := by
  cases p with
  | password =>
    obtain ⟨t, ht⟩ := rowDelay_mem h
    exact passwordRows_pos (t, d) ht
  | totp step =>
    simp only [delayOf] at h
    split at h
    · cases h
    · cases h; decide
  | webauthn => simp only [delayOf] at h; cases h; decide
  | unrestricted => simp [delayOf] at h

theorem delayOf_mono {p : Policy} {c c' d' : Nat} (hc : c ≤ c') (h : delayOf p c' = some d') :
    ∃ d, delayOf p c = some d ∧ d ≤ d' := by
  cases p with
  | password => exact rowDelay_mono passwordRows_mono hc h
  | totp step =>
    simp only [delayOf] at h ⊢
    split at h
    · cases h
    · cases h
      have : ¬ c ≥ totpCap := by omega
      simp only [this, if_false]
      exact ⟨_, rfl, Nat.le_refl _⟩
  | webauthn => simp only [delayOf] at h ⊢; exact ⟨_, rfl, by cases h; exact Nat.le_refl _⟩
  | unrestricted => simp [delayOf] at h

theorem unlockOf_gt {p : Policy} (hwf : p.WF) (hp : p ≠ .unrestricted) (c ct : Nat) :
    ct < unlockOf p c ct := by
  unfold unlockOf
  cases h : delayOf p c with
  | none => exact windowEndOf_gt hwf hp ct
  | some d =>
    have := fromSecs_pos (delayOf_pos h)
    simp only; omega

/-! ## Single operations -/

theorem failCountLocked_ge (c : Nat) : c + 1 ≤ failCountLocked c := by simp [failCountLocked]
theorem failCountUnlocked_ge (c : Nat) : c + 1 ≤ failCountUnlocked c := by simp [failCountUnlocked]
theorem failCountInit_ge : 1 ≤ failCountInit := by decide

/-- The count a failure writes, as a function of the previous state. -/
def nextCount : LockState → Nat
  | .init => failCountInit
  | .locked c _ _ => failCountLocked c
  | .unlocked c _ => failCountUnlocked c

theorem nextCount_gt (st : LockState) : countOf st + 1 ≤ nextCount st := by
  cases st with
  | init => exact failCountInit_ge
  | locked c r u => exact failCountLocked_ge c
  | unlocked c r => exact failCountUnlocked_ge c

theorem recordFailure_state (s : SoftLock) (ct : Nat) :
    (recordFailure s ct).state = failureNextState s.policy (nextCount s.state) ct := by
  unfold recordFailure nextCount
  cases s.state <;> rfl

theorem recordFailure_policy (s : SoftLock) (ct : Nat) : (recordFailure s ct).policy = s.policy := rfl

theorem applyTimeStep_policy (s : SoftLock) (ct : Nat) (e : Option Nat) :
    (applyTimeStep s ct e).policy = s.policy := by
  unfold applyTimeStep
  cases s.state <;> rfl

theorem attempt_policy (s : SoftLock) (ct : Nat) (e : Option Nat) (ok : Bool) :
    (attempt s ct e ok).1.policy = s.policy := by
  unfold attempt
  simp only
  split
  · split
    · exact applyTimeStep_policy s ct e
    · rw [recordFailure_policy]; exact applyTimeStep_policy s ct e
  · exact applyTimeStep_policy s ct e

theorem exec_policy (s : SoftLock) (e : Event) : (exec s e).policy = s.policy := by
  cases e with
  | step ct x => exact applyTimeStep_policy s ct x
  | fail ct => rfl
  | attempt ct x ok => exact attempt_policy s ct x ok

/-- State after a time step, spelled out (`b` = the admin-bounded `reset_at`). -/
theorem applyTimeStep_state (s : SoftLock) (ct : Nat) (e : Option Nat) :
    (applyTimeStep s ct e).state =
      match s.state with
      | .init => .init
      | .locked c r u =>
        if lockedResets ct (boundReset s.lastExpireAt r e).2 then .init
        else if lockedUnlocks ct u then .unlocked c (boundReset s.lastExpireAt r e).2
        else .locked c (boundReset s.lastExpireAt r e).2 u
      | .unlocked c r => if unlockedResets ct r then .init else .unlocked c r := by
  unfold applyTimeStep
  split <;> simp_all

theorem boundReset_none (last r : Nat) : boundReset last r none = (last, r) := rfl

theorem locked_stays {s : SoftLock} {c r u t : Nat} (h : s.state = .locked c r u)
    (hr : t ≤ r) (hu : t ≤ u) : (applyTimeStep s t none).state = .locked c r u := by
  rw [applyTimeStep_state, h]
  have h1 : lockedResets t r = false := by simp [lockedResets]; omega
  have h2 : lockedUnlocks t u = false := by simp [lockedUnlocks]; omega
  simp [boundReset_none, h1, h2]

/-- Refusal at `t` (after a bare time step), spelled out. -/
theorem refused_iff (s : SoftLock) (t : Nat) :
    isValid (applyTimeStep s t none) = false ↔
      ∃ c r u, s.state = .locked c r u ∧ t ≤ r ∧ t ≤ u := by
  unfold isValid
  rw [applyTimeStep_state]
  cases h : s.state with
  | init => simp
  | locked c r u =>
    simp only [boundReset_none]
    constructor
    · intro hv
      refine ⟨c, r, u, rfl, ?_, ?_⟩
      · apply Nat.le_of_not_lt
        intro hlt
        have e1 : lockedResets t r = true := by simp [lockedResets]; omega
        simp [e1] at hv
      · apply Nat.le_of_not_lt
        intro hlt
        by_cases e1 : lockedResets t r = true
        · simp [e1] at hv
        · have e2 : lockedUnlocks t u = true := by simp [lockedUnlocks]; omega
          simp [e1, e2] at hv
    · rintro ⟨c', r', u', heq, h1, h2⟩
      cases heq
      have e1 : lockedResets t r = false := by simp [lockedResets]; omega
      have e2 : lockedUnlocks t u = false := by simp [lockedUnlocks]; omega
      simp [e1, e2]
  | unlocked c r =>
    by_cases h1 : unlockedResets t r = true <;> simp [h1]

/-! ## Reachability invariant -/

/-- What every state reached under monotone time satisfies at time `now`: a delayed lock ends no
later than `now + delay(count)`. -/
def Inv (now : Nat) (s : SoftLock) : Prop :=
  match s.state with
  | .locked c _ u => ∀ d, delayOf s.policy c = some d → u ≤ now + fromSecs d
  | _ => True

theorem inv_step {now ct : Nat} {s : SoftLock} (h : Inv now s) (hm : now ≤ ct)
    (e : Option Nat) : Inv ct (applyTimeStep s ct e) := by
  unfold Inv at h ⊢
  rw [applyTimeStep_policy, applyTimeStep_state]
  cases hs : s.state with
  | init => simp
  | locked c r u =>
    rw [hs] at h
    simp only at h ⊢
    by_cases e1 : lockedResets ct (boundReset s.lastExpireAt r e).2 = true
    · simp [e1]
    · by_cases e2 : lockedUnlocks ct u = true
      · simp [e1, e2]
      · simp only [e1, e2]
        intro d hd
        have := h d hd
        omega
  | unlocked c r =>
    by_cases e1 : unlockedResets ct r = true <;> simp [e1]

theorem inv_fail {ct : Nat} (s : SoftLock) : Inv ct (recordFailure s ct) := by
  unfold Inv
  rw [recordFailure_policy, recordFailure_state]
  by_cases hp : s.policy = .unrestricted
  · simp [hp, failureNextState_unrestricted]
  · obtain ⟨r, hr, _, _⟩ := failureNextState_eq hp (nextCount s.state) ct
    rw [hr]
    intro d hd
    simp [unlockOf, hd]

theorem inv_exec {now : Nat} {s : SoftLock} (h : Inv now s) (e : Event)
    (hm : now ≤ e.time) : Inv e.time (exec s e) := by
  cases e with
  | step ct x => exact inv_step h hm x
  | fail ct => exact inv_fail s
  | attempt ct x ok =>
    simp only [exec, attempt, Event.time]
    split
    · split
      · exact inv_step h hm x
      · exact inv_fail _
    · exact inv_step h hm x

/-- Time of the last event (or `now` for the empty history). -/
def lastTime : Nat → List Event → Nat
  | now, [] => now
  | _, e :: es => lastTime e.time es

theorem inv_run {now : Nat} {s : SoftLock} (h : Inv now s) (es : List Event)
    (hm : Mono now es) : Inv (lastTime now es) (run s es) := by
  induction es generalizing now s with
  | nil => exact h
  | cons e es ih =>
    simp only [run, List.foldl_cons, lastTime]
    exact ih (inv_exec h e hm.1) hm.2

theorem run_policy (s : SoftLock) (es : List Event) : (run s es).policy = s.policy := by
  induction es generalizing s with
  | nil => rfl
  | cons e es ih => simp only [run, List.foldl_cons]; exact (ih (exec s e)).trans (exec_policy s e)

/-- A failure never shortens a lock inside the failure's own window, for any state satisfying the
invariant (raw failures while locked included). -/
theorem fail_keeps_refusal {now ct t : Nat} {s : SoftLock}
    (hp : s.policy ≠ .unrestricted) (hinv : Inv now s) (h1 : now ≤ ct)
    (h3 : t ≤ windowEndOf s.policy ct)
    (href : isValid (applyTimeStep s t none) = false) :
    isValid (applyTimeStep (recordFailure s ct) t none) = false := by
  rw [refused_iff] at href ⊢
  obtain ⟨c, r, u, hs, htr, htu⟩ := href
  unfold Inv at hinv
  rw [hs] at hinv
  obtain ⟨r', hr', hwr, _⟩ := failureNextState_eq hp (nextCount s.state) ct
  rw [recordFailure_state, hr']
  refine ⟨_, _, _, rfl, by omega, ?_⟩
  rw [hs]
  simp only [nextCount, unlockOf]
  cases hd : delayOf s.policy (failCountLocked c) with
  | none => simp only; omega
  | some d' =>
    obtain ⟨d, hd0, hle⟩ := delayOf_mono (Nat.le_of_succ_le (failCountLocked_ge c)) hd
    have := hinv d hd0
    have := fromSecs_mono hle
    simp only; omega

/-! ## Window budget -/

/-- A policy whose failures write a `reset_at` no earlier than the end of the `w`-second window
containing `ct`, and from count `cap` on lock at least until then. -/
def Windowed (p : Policy) (w cap : Nat) : Prop :=
  0 < w ∧ ∀ c ct, ∃ r u, failureNextState p c ct = .locked c r u ∧ windowReset w ct ≤ r ∧
    (cap ≤ c → windowReset w ct ≤ u)

theorem windowed_password : Windowed .password oneDay passwordCap := by
  refine ⟨oneDay_pos, fun c ct => ?_⟩
  obtain ⟨r, hr, hwr, _⟩ := failureNextState_eq (p := .password) (by decide) c ct
  refine ⟨r, _, hr, hwr, fun hc => ?_⟩
  simp only [unlockOf, delayOf, rowDelay_none_of_cap passwordRows_le_cap hc]
  exact Nat.le_refl _

theorem windowed_totp {step : Nat} (h : 0 < step) : Windowed (.totp step) step totpCap := by
  refine ⟨h, fun c ct => ?_⟩
  obtain ⟨r, hr, hwr, _⟩ := failureNextState_eq (p := .totp step) (by simp) c ct
  refine ⟨r, _, hr, hwr, fun hc => ?_⟩
  have : c ≥ totpCap := hc
  simp only [unlockOf, delayOf, this, if_true]
  exact Nat.le_refl _

/-- No event carries an administrator-set soft-lock expiry. -/
def NoAdmin (es : List Event) : Prop := ∀ e ∈ es, e.expire = none

/-- The history follows the server's protocol: failures are recorded only through `attempt`. -/
def Protocol (es : List Event) : Prop := ∀ e ∈ es, ∀ ct, e ≠ .fail ct

theorem failsIn_past {w k : Nat} (es : List Event) (s : SoftLock) (now : Nat)
    (hm : Mono now es) (hk : k < asSecs now / w) : failsIn w k s es = 0 := by
  induction es generalizing s now with
  | nil => rfl
  | cons e es ih =>
    have h1 : asSecs now / w ≤ asSecs e.time / w := window_mono hm.1
    have hne : ¬ asSecs e.time / w = k := by omega
    simp only [failsIn, hne, decide_false, Bool.and_false, Bool.false_eq_true, if_false, Nat.zero_add]
    exact ih _ _ hm.2 (by omega)

/-- Budget invariant for window `k` (ending at `E = (k+1)·w` s) after `n` in-window failures. -/
def BInv (w cap k n : Nat) (st : LockState) : Prop :=
  n = 0 ∨
  (∃ c r u, st = .locked c r u ∧ (k + 1) * w * NS ≤ r ∧ n ≤ c ∧ (cap ≤ c → (k + 1) * w * NS ≤ u)) ∨
  (∃ c r, st = .unlocked c r ∧ (k + 1) * w * NS ≤ r ∧ n ≤ c ∧ c < cap)

theorem binv_step {w cap k n t : Nat} {s : SoftLock} (hw : 0 < w) (ht : asSecs t / w = k)
    (h : BInv w cap k n s.state) : BInv w cap k n (applyTimeStep s t none).state := by
  have hlt := lt_of_window hw ht
  rw [applyTimeStep_state]
  rcases h with h | ⟨c, r, u, hs, hr, hn, hcap⟩ | ⟨c, r, hs, hr, hn, hc⟩
  · exact Or.inl h
  · rw [hs]
    simp only [boundReset_none]
    have h1 : lockedResets t r = false := by simp [lockedResets]; omega
    simp only [h1, Bool.false_eq_true, if_false]
    by_cases h2 : lockedUnlocks t u = true
    · simp only [h2, if_true]
      refine Or.inr (Or.inr ⟨c, r, rfl, hr, hn, ?_⟩)
      apply Nat.lt_of_not_le
      intro hle
      have := hcap hle
      simp [lockedUnlocks] at h2
      omega
    · simp only [h2]
      exact Or.inr (Or.inl ⟨c, r, u, rfl, hr, hn, hcap⟩)
  · rw [hs]
    have h1 : unlockedResets t r = false := by simp [unlockedResets]; omega
    simp only [h1, Bool.false_eq_true, if_false]
    exact Or.inr (Or.inr ⟨c, r, rfl, hr, hn, hc⟩)

theorem budget_aux {p : Policy} {w cap : Nat} (hW : Windowed p w cap) (hcap : 0 < cap) (k : Nat)
    (es : List Event) : ∀ (s : SoftLock) (now n : Nat), s.policy = p → Mono now es → NoAdmin es →
      Protocol es → BInv w cap k n s.state → (n = 0 ∨ k ≤ asSecs now / w) → n ≤ cap →
      n + failsIn w k s es ≤ cap := by
  induction es with
  | nil => intro s now n _ _ _ _ _ _ hn; simpa [failsIn] using hn
  | cons e es ih =>
    intro s now n hs hm hna hpr hb hk hn
    have hw := hW.1
    have hna' : NoAdmin es := fun x hx => hna x (List.mem_cons_of_mem _ hx)
    have hpr' : Protocol es := fun x hx => hpr x (List.mem_cons_of_mem _ hx)
    have hpol : (exec s e).policy = p := (exec_policy s e).trans hs
    have hwin := window_mono (w := w) hm.1
    rcases Nat.lt_trichotomy (asSecs e.time / w) k with hlt | heq | hgt
    · -- before the window: nothing counted yet
      have hn0 : n = 0 := by
        rcases hk with h | h
        · exact h
        · omega
      have hne : ¬ asSecs e.time / w = k := by omega
      simp only [failsIn, hne, decide_false, Bool.and_false, Bool.false_eq_true, if_false, Nat.zero_add]
      exact ih _ e.time n hpol hm.2 hna' hpr' (Or.inl hn0) (Or.inl hn0) hn
    · -- inside the window
      have hexp : e.expire = none := hna e List.mem_cons_self
      simp only [failsIn, heq, decide_true, Bool.and_true]
      cases e with
      | fail ct => exact absurd rfl (hpr _ List.mem_cons_self ct)
      | step ct x =>
        simp only [Event.expire] at hexp
        subst hexp
        simp only [recorded, Bool.false_eq_true, if_false, Nat.zero_add, exec]
        exact ih _ ct n ((applyTimeStep_policy _ _ _).trans hs) hm.2 hna' hpr'
          (binv_step hw heq hb) (Or.inr (Nat.le_of_eq heq.symm)) hn
      | attempt ct x ok =>
        simp only [Event.expire] at hexp
        subst hexp
        simp only [Event.time] at heq hm
        have hb1 := binv_step (cap := cap) (n := n) hw heq hb
        have hp1 : (applyTimeStep s ct none).policy = p := (applyTimeStep_policy _ _ _).trans hs
        simp only [recorded, exec, attempt]
        by_cases hv : isValid (applyTimeStep s ct none) = true
        · cases ok with
          | true =>
            simp only [hv, if_true]
            have : ((Outcome.success == Outcome.failed) = true) = False := by decide
            simp only [this, if_false, Nat.zero_add]
            exact ih _ ct n hp1 hm.2 hna' hpr' hb1 (Or.inr (Nat.le_of_eq heq.symm)) hn
          | false =>
            simp only [hv, if_true, Bool.false_eq_true, if_false]
            have : ((Outcome.failed == Outcome.failed) = true) = True := by decide
            simp only [this, if_true]
            -- the new state
            obtain ⟨r, u, hfs, hr, hu⟩ := hW.2 (nextCount (applyTimeStep s ct none).state) ct
            rw [windowReset_of_window hw heq] at hr hu
            have hst : (recordFailure (applyTimeStep s ct none) ct).state =
                .locked (nextCount (applyTimeStep s ct none).state) r u := by
              rw [recordFailure_state, hp1, hfs]
            -- count bound
            have hcnt : n + 1 ≤ nextCount (applyTimeStep s ct none).state ∧ n + 1 ≤ cap := by
              have hgt := nextCount_gt (applyTimeStep s ct none).state
              rcases hb1 with h0 | ⟨c, r0, u0, hs0, _, _, _⟩ | ⟨c, r0, hs0, _, hnc, hcc⟩
              · subst h0; exact ⟨by omega, by omega⟩
              · simp [isValid, hs0] at hv
              · rw [hs0] at hgt ⊢; simp only [countOf] at hgt; exact ⟨by omega, by omega⟩
            have hrp : (recordFailure (applyTimeStep s ct none) ct).policy = p := by
              rw [recordFailure_policy]; exact hp1
            have := ih _ ct (n + 1) hrp hm.2 hna' hpr'
              (by rw [hst]; exact Or.inr (Or.inl ⟨_, r, u, rfl, hr, hcnt.1, hu⟩))
              (Or.inr (Nat.le_of_eq heq.symm)) hcnt.2
            omega
        · have hv' : isValid (applyTimeStep s ct none) = false := by
            cases h : isValid (applyTimeStep s ct none) <;> simp_all
          simp only [hv', Bool.false_eq_true, if_false]
          have : ((Outcome.refused == Outcome.failed) = true) = False := by decide
          simp only [this, if_false, Nat.zero_add]
          exact ih _ ct n hp1 hm.2 hna' hpr' hb1 (Or.inr (Nat.le_of_eq heq.symm)) hn
    · -- past the window: nothing more is counted
      have hne : ¬ asSecs e.time / w = k := by omega
      simp only [failsIn, hne, decide_false, Bool.and_false, Bool.false_eq_true, if_false, Nat.zero_add]
      rw [failsIn_past es _ e.time hm.2 hgt]
      exact hn

/-- **Window budget**: under monotone time, without admin expiry, following the protocol, from
*any* starting state, at most `cap` failures are recorded inside any one window. -/
theorem window_budget {p : Policy} {w cap : Nat} (hW : Windowed p w cap) (hcap : 0 < cap)
    (s : SoftLock) (hs : s.policy = p) (es : List Event) (now k : Nat)
    (hm : Mono now es) (hna : NoAdmin es) (hpr : Protocol es) : failsIn w k s es ≤ cap := by
  have := budget_aux hW hcap k es s now 0 hs hm hna hpr (Or.inl rfl) (Or.inl rfl) (Nat.zero_le _)
  omega

end Kanidm.SoftLock
