import KanidmModel.PwFormat
/-!
Helper lemmas for C30: string splitting, decimal / hex / base64 round trips.
-/
namespace Kanidm.PwFormat
open Kanidm.Gen.PwFormat

/-! ## strings -/

theorem stripPrefix_append (p r : List Char) : stripPrefix p (p ++ r) = some r := by
  induction p with
  | nil => simp [stripPrefix]
  | cons c cs ih => simp [stripPrefix, ih]

theorem splitChar_ne_nil (sep : Char) (s : List Char) : splitChar sep s ≠ [] := by
  cases s with
  | nil => simp [splitChar]
  | cons c cs =>
    unfold splitChar
    split
    · simp
    · split <;> simp

/-- a field without the separator, followed by the separator, is split off -/
theorem splitChar_field (sep : Char) (a b : List Char) (ha : sep ∉ a) :
    splitChar sep (a ++ sep :: b) = a :: splitChar sep b := by
  induction a with
  | nil => simp [splitChar]
  | cons c cs ih =>
    have hc : c ≠ sep := fun h => ha (by simp [h])
    have hcs : sep ∉ cs := fun h => ha (by simp [h])
    simp only [List.cons_append]
    rw [splitChar, if_neg hc, ih hcs]

/-- a last field without the separator -/
theorem splitChar_last (sep : Char) (a : List Char) (ha : sep ∉ a) : splitChar sep a = [a] := by
  induction a with
  | nil => simp [splitChar]
  | cons c cs ih =>
    have hc : c ≠ sep := fun h => ha (by simp [h])
    have hcs : sep ∉ cs := fun h => ha (by simp [h])
    rw [splitChar, if_neg hc, ih hcs]

theorem splitOnce_field (sep : Char) (a b : List Char) (ha : sep ∉ a) :
    splitOnce sep (a ++ sep :: b) = some (a, b) := by
  induction a with
  | nil => simp [splitOnce]
  | cons c cs ih =>
    have hc : c ≠ sep := fun h => ha (by simp [h])
    have hcs : sep ∉ cs := fun h => ha (by simp [h])
    simp only [List.cons_append]
    rw [splitOnce, if_neg hc, ih hcs]

theorem splitOnce_none (sep : Char) (a : List Char) (ha : sep ∉ a) : splitOnce sep a = none := by
  induction a with
  | nil => simp [splitOnce]
  | cons c cs ih =>
    have hc : c ≠ sep := fun h => ha (by simp [h])
    have hcs : sep ∉ cs := fun h => ha (by simp [h])
    rw [splitOnce, if_neg hc, ih hcs]

/-! ## hex -/

theorem hexVal_hexDigit : ∀ (up : Bool) (v : Fin 16), hexVal (hexDigit up v.val) = some v.val := by decide

theorem hexDecode_hexEncode (up : Bool) (bs : Bytes) (h : ∀ b ∈ bs, b < 256) :
    hexDecode (hexEncode up bs) = some bs := by
  induction bs with
  | nil => simp [hexEncode, hexDecode]
  | cons b rest ih =>
    have hb : b < 256 := h b (by simp)
    have hr : ∀ x ∈ rest, x < 256 := fun x hx => h x (by simp [hx])
    have h1 := hexVal_hexDigit up ⟨b / 16, by omega⟩
    have h2 := hexVal_hexDigit up ⟨b % 16, by omega⟩
    simp only [hexEncode, hexDecode, h1, h2, ih hr]
    congr 2
    omega

/-! ## base64 -/

theorem symVal_symChar_std : ∀ (v : Fin 64), symVal .standard (symChar .standard v.val) = some v.val := by decide
theorem symVal_symChar_url : ∀ (v : Fin 64), symVal .urlSafe (symChar .urlSafe v.val) = some v.val := by decide
theorem symChar_ne_pad_std : ∀ (v : Fin 64), symChar .standard v.val ≠ '=' := by decide
theorem symChar_ne_pad_url : ∀ (v : Fin 64), symChar .urlSafe v.val ≠ '=' := by decide

/-- the two RFC 4648 alphabets -/
def Rfc (a : Alphabet) : Prop := a = .standard ∨ a = .urlSafe

theorem symVal_symChar {a : Alphabet} (ha : Rfc a) {v : Nat} (hv : v < 64) :
    symVal a (symChar a v) = some v := by
  rcases ha with rfl | rfl
  · exact symVal_symChar_std ⟨v, hv⟩
  · exact symVal_symChar_url ⟨v, hv⟩

theorem symChar_ne_pad {a : Alphabet} (ha : Rfc a) {v : Nat} (hv : v < 64) : symChar a v ≠ '=' := by
  rcases ha with rfl | rfl
  · exact symChar_ne_pad_std ⟨v, hv⟩
  · exact symChar_ne_pad_url ⟨v, hv⟩

theorem b64Encode_eq_nil {a : Alphabet} {pad : Bool} {bs : Bytes} (h : b64Encode a pad bs = []) : bs = [] := by
  match bs with
  | [] => rfl
  | [_] => simp [b64Encode] at h
  | [_, _] => simp [b64Encode] at h
  | _ :: _ :: _ :: _ => simp [b64Encode] at h

theorem b64Decode_b64Encode_pad {a : Alphabet} (ha : Rfc a) (allow : Bool) :
    ∀ (bs : Bytes), (∀ b ∈ bs, b < 256) →
      b64Decode a .requireCanonical allow (b64Encode a true bs) = some bs
  | [], _ => by simp [b64Encode, b64Decode]
  | [b0], h => by
    have hb0 : b0 < 256 := h b0 (by simp)
    have e0 := symVal_symChar ha (v := b0 / 4) (by omega)
    have e1 := symVal_symChar ha (v := (b0 % 4) * 16) (by omega)
    have n0 := symChar_ne_pad ha (v := b0 / 4) (by omega)
    have n1 := symChar_ne_pad ha (v := (b0 % 4) * 16) (by omega)
    simp [b64Encode, b64Decode, decodeSuffix, scanSuffix, suffixBytes, e0, e1, n0, n1]
    omega
  | [b0, b1], h => by
    have hb0 : b0 < 256 := h b0 (by simp)
    have hb1 : b1 < 256 := h b1 (by simp)
    have e0 := symVal_symChar ha (v := b0 / 4) (by omega)
    have e1 := symVal_symChar ha (v := (b0 % 4) * 16 + b1 / 16) (by omega)
    have e2 := symVal_symChar ha (v := (b1 % 16) * 4) (by omega)
    have n0 := symChar_ne_pad ha (v := b0 / 4) (by omega)
    have n1 := symChar_ne_pad ha (v := (b0 % 4) * 16 + b1 / 16) (by omega)
    have n2 := symChar_ne_pad ha (v := (b1 % 16) * 4) (by omega)
    simp [b64Encode, b64Decode, decodeSuffix, scanSuffix, suffixBytes, e0, e1, e2, n0, n1, n2]
    omega
  | b0 :: b1 :: b2 :: rest, h => by
    have hb0 : b0 < 256 := h b0 (by simp)
    have hb1 : b1 < 256 := h b1 (by simp)
    have hb2 : b2 < 256 := h b2 (by simp)
    have hr : ∀ x ∈ rest, x < 256 := fun x hx => h x (by simp [hx])
    have ih := b64Decode_b64Encode_pad ha allow rest hr
    have e0 := symVal_symChar ha (v := b0 / 4) (by omega)
    have e1 := symVal_symChar ha (v := (b0 % 4) * 16 + b1 / 16) (by omega)
    have e2 := symVal_symChar ha (v := (b1 % 16) * 4 + b2 / 64) (by omega)
    have e3 := symVal_symChar ha (v := b2 % 64) (by omega)
    have n0 := symChar_ne_pad ha (v := b0 / 4) (by omega)
    have n1 := symChar_ne_pad ha (v := (b0 % 4) * 16 + b1 / 16) (by omega)
    have n2 := symChar_ne_pad ha (v := (b1 % 16) * 4 + b2 / 64) (by omega)
    have n3 := symChar_ne_pad ha (v := b2 % 64) (by omega)
    cases hrest : b64Encode a true rest with
    | nil =>
      have : rest = [] := b64Encode_eq_nil hrest
      subst this
      simp [b64Encode, b64Decode, decodeSuffix, scanSuffix, suffixBytes, e0, e1, e2, e3, n0, n1, n2, n3]
      omega
    | cons c cs =>
      rw [hrest] at ih
      simp [b64Encode, hrest, b64Decode, e0, e1, e2, e3, ih]
      omega

theorem symChar_std_ne_dot : ∀ (v : Fin 64), symChar .standard v.val ≠ '.' := by decide

theorem dotToPlus_plusToDot_symChar {v : Nat} (hv : v < 64) :
    dotToPlus (plusToDot (symChar .standard v)) = symChar .standard v := by
  have h := symChar_std_ne_dot ⟨v, hv⟩
  unfold dotToPlus plusToDot
  by_cases hp : symChar .standard v = '+'
  · simp [hp]
  · simp [hp, h]

theorem ab64ToB64_quad (c0 c1 c2 c3 : Char) (cs : List Char) :
    ab64ToB64 (c0 :: c1 :: c2 :: c3 :: cs) =
      dotToPlus c0 :: dotToPlus c1 :: dotToPlus c2 :: dotToPlus c3 :: ab64ToB64 cs := by
  unfold ab64ToB64
  have : (cs.length + 1 + 1 + 1 + 1) % 4 = cs.length % 4 := by omega
  simp only [List.map_cons, List.length_cons, List.length_map, this]
  split <;> simp

theorem ab64_to_b64_correct : ∀ (bs : Bytes), (∀ b ∈ bs, b < 256) →
    ab64ToB64 (ab64Encode bs) = b64Encode .standard true bs
  | [], _ => by simp [ab64Encode, b64Encode, ab64ToB64]
  | [b0], h => by
    have hb0 : b0 < 256 := h b0 (by simp)
    have e0 := dotToPlus_plusToDot_symChar (v := b0 / 4) (by omega)
    have e1 := dotToPlus_plusToDot_symChar (v := (b0 % 4) * 16) (by omega)
    simp [ab64Encode, b64Encode, ab64ToB64, e0, e1]
  | [b0, b1], h => by
    have hb0 : b0 < 256 := h b0 (by simp)
    have hb1 : b1 < 256 := h b1 (by simp)
    have e0 := dotToPlus_plusToDot_symChar (v := b0 / 4) (by omega)
    have e1 := dotToPlus_plusToDot_symChar (v := (b0 % 4) * 16 + b1 / 16) (by omega)
    have e2 := dotToPlus_plusToDot_symChar (v := (b1 % 16) * 4) (by omega)
    simp [ab64Encode, b64Encode, ab64ToB64, e0, e1, e2]
  | b0 :: b1 :: b2 :: rest, h => by
    have hb0 : b0 < 256 := h b0 (by simp)
    have hb1 : b1 < 256 := h b1 (by simp)
    have hb2 : b2 < 256 := h b2 (by simp)
    have hr : ∀ x ∈ rest, x < 256 := fun x hx => h x (by simp [hx])
    have ih := ab64_to_b64_correct rest hr
    have e0 := dotToPlus_plusToDot_symChar (v := b0 / 4) (by omega)
    have e1 := dotToPlus_plusToDot_symChar (v := (b0 % 4) * 16 + b1 / 16) (by omega)
    have e2 := dotToPlus_plusToDot_symChar (v := (b1 % 16) * 4 + b2 / 64) (by omega)
    have e3 := dotToPlus_plusToDot_symChar (v := b2 % 64) (by omega)
    simp only [ab64Encode] at ih ⊢
    simp only [b64Encode, List.map_cons, ab64ToB64_quad, ih, e0, e1, e2, e3]

theorem decodeAb64_ab64Encode (bs : Bytes) (h : ∀ b ∈ bs, b < 256) : decodeAb64 (ab64Encode bs) = some bs := by
  unfold decodeAb64
  rw [ab64_to_b64_correct bs h]
  exact b64Decode_b64Encode_pad (Or.inl rfl) true bs h

theorem b64Decode_b64Encode_nopad {a : Alphabet} (ha : Rfc a) (allow : Bool) :
    ∀ (bs : Bytes), (∀ b ∈ bs, b < 256) →
      b64Decode a .requireNone allow (b64Encode a false bs) = some bs
  | [], _ => by simp [b64Encode, b64Decode]
  | [b0], h => by
    have hb0 : b0 < 256 := h b0 (by simp)
    have e0 := symVal_symChar ha (v := b0 / 4) (by omega)
    have e1 := symVal_symChar ha (v := (b0 % 4) * 16) (by omega)
    have n0 := symChar_ne_pad ha (v := b0 / 4) (by omega)
    have n1 := symChar_ne_pad ha (v := (b0 % 4) * 16) (by omega)
    simp [b64Encode, b64Decode, decodeSuffix, scanSuffix, suffixBytes, e0, e1, n0, n1]
    omega
  | [b0, b1], h => by
    have hb0 : b0 < 256 := h b0 (by simp)
    have hb1 : b1 < 256 := h b1 (by simp)
    have e0 := symVal_symChar ha (v := b0 / 4) (by omega)
    have e1 := symVal_symChar ha (v := (b0 % 4) * 16 + b1 / 16) (by omega)
    have e2 := symVal_symChar ha (v := (b1 % 16) * 4) (by omega)
    have n0 := symChar_ne_pad ha (v := b0 / 4) (by omega)
    have n1 := symChar_ne_pad ha (v := (b0 % 4) * 16 + b1 / 16) (by omega)
    have n2 := symChar_ne_pad ha (v := (b1 % 16) * 4) (by omega)
    simp [b64Encode, b64Decode, decodeSuffix, scanSuffix, suffixBytes, e0, e1, e2, n0, n1, n2]
    omega
  | b0 :: b1 :: b2 :: rest, h => by
    have hb0 : b0 < 256 := h b0 (by simp)
    have hb1 : b1 < 256 := h b1 (by simp)
    have hb2 : b2 < 256 := h b2 (by simp)
    have hr : ∀ x ∈ rest, x < 256 := fun x hx => h x (by simp [hx])
    have ih := b64Decode_b64Encode_nopad ha allow rest hr
    have e0 := symVal_symChar ha (v := b0 / 4) (by omega)
    have e1 := symVal_symChar ha (v := (b0 % 4) * 16 + b1 / 16) (by omega)
    have e2 := symVal_symChar ha (v := (b1 % 16) * 4 + b2 / 64) (by omega)
    have e3 := symVal_symChar ha (v := b2 % 64) (by omega)
    have n0 := symChar_ne_pad ha (v := b0 / 4) (by omega)
    have n1 := symChar_ne_pad ha (v := (b0 % 4) * 16 + b1 / 16) (by omega)
    have n2 := symChar_ne_pad ha (v := (b1 % 16) * 4 + b2 / 64) (by omega)
    have n3 := symChar_ne_pad ha (v := b2 % 64) (by omega)
    cases hrest : b64Encode a false rest with
    | nil =>
      have : rest = [] := b64Encode_eq_nil hrest
      subst this
      simp [b64Encode, b64Decode, decodeSuffix, scanSuffix, suffixBytes, e0, e1, e2, e3, n0, n1, n2, n3]
      omega
    | cons c cs =>
      rw [hrest] at ih
      simp [b64Encode, hrest, b64Decode, e0, e1, e2, e3, ih]
      omega

/-- a padded encoding read by the no-padding decoder: accepted (with the same bytes) or refused -/
theorem b64Decode_nopad_of_padded {a : Alphabet} (ha : Rfc a) (allow : Bool) :
    ∀ (bs : Bytes), (∀ b ∈ bs, b < 256) →
      b64Decode a .requireNone allow (b64Encode a true bs) = some bs ∨
      b64Decode a .requireNone allow (b64Encode a true bs) = none
  | [], _ => by simp [b64Encode, b64Decode]
  | [b0], h => by
    have hb0 : b0 < 256 := h b0 (by simp)
    have e0 := symVal_symChar ha (v := b0 / 4) (by omega)
    have e1 := symVal_symChar ha (v := (b0 % 4) * 16) (by omega)
    have n0 := symChar_ne_pad ha (v := b0 / 4) (by omega)
    have n1 := symChar_ne_pad ha (v := (b0 % 4) * 16) (by omega)
    right
    simp [b64Encode, b64Decode, decodeSuffix, scanSuffix, e0, e1, n0, n1]
  | [b0, b1], h => by
    have hb0 : b0 < 256 := h b0 (by simp)
    have hb1 : b1 < 256 := h b1 (by simp)
    have e0 := symVal_symChar ha (v := b0 / 4) (by omega)
    have e1 := symVal_symChar ha (v := (b0 % 4) * 16 + b1 / 16) (by omega)
    have e2 := symVal_symChar ha (v := (b1 % 16) * 4) (by omega)
    have n0 := symChar_ne_pad ha (v := b0 / 4) (by omega)
    have n1 := symChar_ne_pad ha (v := (b0 % 4) * 16 + b1 / 16) (by omega)
    have n2 := symChar_ne_pad ha (v := (b1 % 16) * 4) (by omega)
    right
    simp [b64Encode, b64Decode, decodeSuffix, scanSuffix, e0, e1, e2, n0, n1, n2]
  | b0 :: b1 :: b2 :: rest, h => by
    have hb0 : b0 < 256 := h b0 (by simp)
    have hb1 : b1 < 256 := h b1 (by simp)
    have hb2 : b2 < 256 := h b2 (by simp)
    have hr : ∀ x ∈ rest, x < 256 := fun x hx => h x (by simp [hx])
    have ih := b64Decode_nopad_of_padded ha allow rest hr
    have e0 := symVal_symChar ha (v := b0 / 4) (by omega)
    have e1 := symVal_symChar ha (v := (b0 % 4) * 16 + b1 / 16) (by omega)
    have e2 := symVal_symChar ha (v := (b1 % 16) * 4 + b2 / 64) (by omega)
    have e3 := symVal_symChar ha (v := b2 % 64) (by omega)
    have n0 := symChar_ne_pad ha (v := b0 / 4) (by omega)
    have n1 := symChar_ne_pad ha (v := (b0 % 4) * 16 + b1 / 16) (by omega)
    have n2 := symChar_ne_pad ha (v := (b1 % 16) * 4 + b2 / 64) (by omega)
    have n3 := symChar_ne_pad ha (v := b2 % 64) (by omega)
    cases hrest : b64Encode a true rest with
    | nil =>
      have : rest = [] := b64Encode_eq_nil hrest
      subst this
      left
      simp [b64Encode, b64Decode, decodeSuffix, scanSuffix, suffixBytes, e0, e1, e2, e3, n0, n1, n2, n3]
      omega
    | cons c cs =>
      rw [hrest] at ih
      rcases ih with ih | ih
      · left
        simp [b64Encode, hrest, b64Decode, e0, e1, e2, e3, ih]
        omega
      · right
        simp [b64Encode, hrest, b64Decode, e0, e1, e2, e3, ih]

/-! ## base64: characters outside the alphabet -/

theorem scanSuffix_bad (a : Alphabet) (c : Char) (hc : symVal a c = none) (hp : c ≠ '=') :
    ∀ (suf : List Char) (i pads : Nat) (ms : List Nat), c ∈ suf → scanSuffix a suf i pads ms = none
  | [], _, _, _, h => by cases h
  | x :: xs, i, pads, ms, h => by
    unfold scanSuffix
    by_cases hx : x = '='
    · have hm : c ∈ xs := by
        rcases List.mem_cons.mp h with h | h
        · exact absurd (h.trans hx) hp
        · exact h
      rw [if_pos hx]
      split
      · rfl
      · exact scanSuffix_bad a c hc hp xs _ _ _ hm
    · rw [if_neg hx]
      split
      · rfl
      · rcases List.mem_cons.mp h with h | h
        · subst h; rw [hc]
        · cases hv : symVal a x with
          | none => rfl
          | some v => exact scanSuffix_bad a c hc hp xs _ _ _ h

/-- a character outside the selected alphabet (and not `=`) anywhere in the text: refused -/
theorem b64Decode_bad_char (a : Alphabet) (pm : PadMode) (allow : Bool) (c : Char)
    (hc : symVal a c = none) (hp : c ≠ '=') :
    ∀ (s : List Char), c ∈ s → b64Decode a pm allow s = none
  | [], h => by cases h
  | [x0], h => by
    simp only [b64Decode, decodeSuffix, scanSuffix_bad a c hc hp _ 0 0 [] h]
  | [x0, x1], h => by
    simp only [b64Decode, decodeSuffix, scanSuffix_bad a c hc hp _ 0 0 [] h]
  | [x0, x1, x2], h => by
    simp only [b64Decode, decodeSuffix, scanSuffix_bad a c hc hp _ 0 0 [] h]
  | [x0, x1, x2, x3], h => by
    simp only [b64Decode, decodeSuffix, scanSuffix_bad a c hc hp _ 0 0 [] h]
  | x0 :: x1 :: x2 :: x3 :: x4 :: rest, h => by
    unfold b64Decode
    by_cases hin : c ∈ x4 :: rest
    · rw [b64Decode_bad_char a pm allow c hc hp (x4 :: rest) hin]
      split <;> rfl
    · have h4 : c = x0 ∨ c = x1 ∨ c = x2 ∨ c = x3 := by
        simp only [List.mem_cons] at h hin
        rcases h with h | h | h | h | h
        · exact Or.inl h
        · exact Or.inr (Or.inl h)
        · exact Or.inr (Or.inr (Or.inl h))
        · exact Or.inr (Or.inr (Or.inr h))
        · exact absurd h hin
      rcases h4 with h | h | h | h <;> subst h <;> simp [hc]

/-! ## decimal -/

theorem digitChar_toNat : ∀ (k : Fin 10), (Char.ofNat (k.val + 48)).toNat = k.val + 48 := by decide
theorem digitChar_isDigit : ∀ (k : Fin 10), isDigit (Char.ofNat (k.val + 48)) = true := by decide

def dstep (acc : Nat) (c : Char) : Nat := acc * 10 + (c.toNat - 48)

theorem natDigitsAux_spec : ∀ (fuel n : Nat) (acc : List Char), n < fuel →
    ∃ pre, natDigitsAux fuel n acc = pre ++ acc ∧ pre ≠ [] ∧ pre.all isDigit = true ∧
      ∀ init, pre.foldl dstep init = init * 10 ^ pre.length + n
  | 0, _, _, h => by omega
  | fuel + 1, n, acc, h => by
    have hd := digitChar_toNat ⟨n % 10, by omega⟩
    have hi := digitChar_isDigit ⟨n % 10, by omega⟩
    simp only at hd hi
    unfold natDigitsAux
    by_cases hz : n / 10 = 0
    · refine ⟨[Char.ofNat (n % 10 + 48)], by simp [hz], by simp, by simp [hi], ?_⟩
      intro init
      simp [dstep, hd]
      omega
    · have hlt : n / 10 < fuel := by omega
      obtain ⟨pre, he, hne, hall, hval⟩ := natDigitsAux_spec fuel (n / 10) (Char.ofNat (n % 10 + 48) :: acc) hlt
      refine ⟨pre ++ [Char.ofNat (n % 10 + 48)], by simp [hz, he], by simp, by simp [hall, hi], ?_⟩
      intro init
      rw [List.foldl_append, hval init]
      simp only [List.foldl_cons, List.foldl_nil, dstep, hd, List.length_append, List.length_cons, List.length_nil]
      have hp : 10 ^ (pre.length + (0 + 1)) = 10 ^ pre.length * 10 := by
        rw [Nat.zero_add, Nat.pow_succ]
      rw [hp, Nat.add_mul, Nat.mul_assoc]
      omega

theorem parseU32_natDigits (n : Nat) (h : n < 2 ^ 32) : parseU32 (natDigits n) = some n := by
  obtain ⟨pre, he, hne, hall, hval⟩ := natDigitsAux_spec (n + 1) n [] (by omega)
  simp only [List.append_nil] at he
  unfold natDigits
  rw [he]
  have hv : digitsVal pre = n := by
    have := hval 0
    have hf : dstep = fun acc c => acc * 10 + (c.toNat - 48) := rfl
    unfold digitsVal
    rw [← hf, this]
    omega
  cases pre with
  | nil => exact absurd rfl hne
  | cons c cs =>
    have hc : isDigit c = true := by simp at hall; exact hall.1
    have hplus : c ≠ '+' := by
      intro hcp; subst hcp; revert hc; decide
    unfold parseU32 parseUnsigned
    split
    · rename_i heq; cases heq; exact absurd rfl hplus
    · simp [parseDigits, hall, hv, h]

theorem parseUnsigned_natDigits (bound n : Nat) :
    parseUnsigned bound (natDigits n) = if n < bound then some n else none := by
  obtain ⟨pre, he, hne, hall, hval⟩ := natDigitsAux_spec (n + 1) n [] (by omega)
  simp only [List.append_nil] at he
  unfold natDigits
  rw [he]
  have hv : digitsVal pre = n := by
    have := hval 0
    have hf : dstep = fun acc c => acc * 10 + (c.toNat - 48) := rfl
    unfold digitsVal
    rw [← hf, this]
    omega
  cases pre with
  | nil => exact absurd rfl hne
  | cons c cs =>
    have hc : isDigit c = true := by simp at hall; exact hall.1
    have hplus : c ≠ '+' := by
      intro hcp; subst hcp; revert hc; decide
    unfold parseUnsigned
    split
    · rename_i heq; cases heq; exact absurd rfl hplus
    · by_cases h : n < bound <;> simp [parseDigits, hall, hv, h]

/-! ## rendered fields contain no separator -/

theorem natDigits_no_sep (n : Nat) (sep : Char) (hs : isDigit sep = false) : sep ∉ natDigits n := by
  obtain ⟨pre, he, _, hall, _⟩ := natDigitsAux_spec (n + 1) n [] (by omega)
  simp only [List.append_nil] at he
  unfold natDigits
  rw [he]
  intro hm
  have := (List.all_eq_true.mp hall) sep hm
  rw [hs] at this
  exact Bool.noConfusion this

theorem b64Encode_mem {a : Alphabet} {pad : Bool} : ∀ (bs : Bytes), (∀ b ∈ bs, b < 256) →
    ∀ c ∈ b64Encode a pad bs, c = '=' ∨ ∃ v, v < 64 ∧ c = symChar a v
  | [], _ => by simp [b64Encode]
  | [b0], h => by
    have hb0 : b0 < 256 := h b0 (by simp)
    intro c hc
    cases pad <;> simp [b64Encode] at hc
    · rcases hc with rfl | rfl
      · exact Or.inr ⟨_, by omega, rfl⟩
      · exact Or.inr ⟨_, by omega, rfl⟩
    · rcases hc with rfl | rfl | rfl
      · exact Or.inr ⟨_, by omega, rfl⟩
      · exact Or.inr ⟨_, by omega, rfl⟩
      · exact Or.inl rfl
  | [b0, b1], h => by
    have hb0 : b0 < 256 := h b0 (by simp)
    have hb1 : b1 < 256 := h b1 (by simp)
    intro c hc
    cases pad <;> simp [b64Encode] at hc
    · rcases hc with rfl | rfl | rfl
      · exact Or.inr ⟨_, by omega, rfl⟩
      · exact Or.inr ⟨_, by omega, rfl⟩
      · exact Or.inr ⟨_, by omega, rfl⟩
    · rcases hc with rfl | rfl | rfl | rfl
      · exact Or.inr ⟨_, by omega, rfl⟩
      · exact Or.inr ⟨_, by omega, rfl⟩
      · exact Or.inr ⟨_, by omega, rfl⟩
      · exact Or.inl rfl
  | b0 :: b1 :: b2 :: rest, h => by
    have hb0 : b0 < 256 := h b0 (by simp)
    have hb1 : b1 < 256 := h b1 (by simp)
    have hb2 : b2 < 256 := h b2 (by simp)
    have hr : ∀ x ∈ rest, x < 256 := fun x hx => h x (by simp [hx])
    have ih := b64Encode_mem (a := a) (pad := pad) rest hr
    intro c hc
    simp only [b64Encode, List.mem_cons] at hc
    rcases hc with rfl | rfl | rfl | rfl | hc
    · exact Or.inr ⟨_, by omega, rfl⟩
    · exact Or.inr ⟨_, by omega, rfl⟩
    · exact Or.inr ⟨_, by omega, rfl⟩
    · exact Or.inr ⟨_, by omega, rfl⟩
    · exact ih c hc

theorem symChar_ne_dollar_std : ∀ (v : Fin 64), symChar .standard v.val ≠ '$' := by decide
theorem symChar_ne_dollar_url : ∀ (v : Fin 64), symChar .urlSafe v.val ≠ '$' := by decide

theorem b64Encode_no_dollar {a : Alphabet} (ha : Rfc a) {pad : Bool} (bs : Bytes) (h : ∀ b ∈ bs, b < 256) :
    '$' ∉ b64Encode a pad bs := by
  intro hm
  rcases b64Encode_mem bs h _ hm with he | ⟨v, hv, he⟩
  · revert he; decide
  · rcases ha with rfl | rfl
    · exact symChar_ne_dollar_std ⟨v, hv⟩ he.symm
    · exact symChar_ne_dollar_url ⟨v, hv⟩ he.symm

theorem ab64Encode_no_dollar (bs : Bytes) (h : ∀ b ∈ bs, b < 256) : '$' ∉ ab64Encode bs := by
  intro hm
  unfold ab64Encode at hm
  rw [List.mem_map] at hm
  obtain ⟨c, hc, he⟩ := hm
  have hnd := b64Encode_no_dollar (a := .standard) (Or.inl rfl) (pad := false) bs h
  unfold plusToDot at he
  by_cases hp : c = '+'
  · rw [if_pos hp] at he; revert he; decide
  · rw [if_neg hp] at he; subst he; exact hnd hc

/-! ## tables -/

theorem lookup_mem {β : Type} {k : List Char} {v : β} : ∀ {tbl : List (List Char × β)}, lookup k tbl = some v → (k, v) ∈ tbl
  | [], h => by simp [lookup] at h
  | (k', v') :: t, h => by
    unfold lookup at h
    by_cases hk : k = k'
    · rw [if_pos hk] at h; cases h; subst hk; simp
    · rw [if_neg hk] at h; exact List.mem_cons_of_mem _ (lookup_mem h)

theorem firstPrefix_none : ∀ (tbl : List (List Char × Bool × TopParser)) (v : List Char),
    (∀ e ∈ tbl, stripPrefix e.1 v = none) → firstPrefix tbl v = none
  | [], _, _ => rfl
  | (p, s, k) :: t, v, h => by
    have h0 := h (p, s, k) (by simp)
    simp only at h0
    simp only [firstPrefix, h0]
    exact firstPrefix_none t v (fun e he => h e (by simp [he]))

/-! ## the verify wrapper -/

theorem lookupTag_verifyTable (t : KdfTag) : lookupTag t verifyTable = some (specPrim t) := by
  cases t <;> decide

end Kanidm.PwFormat
