import KanidmModel.ProtoFilter
/-!
Helper lemmas for C41: induction principle for the nested `LF`, the single-component cases of the
RFC 4511 substring match, inversion lemmas for the translation steps.
-/
namespace Kanidm.ProtoFilter
open Kanidm.Filter

set_option linter.unusedSectionVars false

/-! ### induction over `LF` -/

section
variable {P : LF → Prop}
  (hand : ∀ l, (∀ f ∈ l, P f) → P (.and l))
  (hor : ∀ l, (∀ f ∈ l, P f) → P (.or l))
  (hnot : ∀ f, P f → P (.not f))
  (heq : ∀ a v, P (.equality a v))
  (hsub : ∀ a i any f, P (.substring a i any f))
  (hge : ∀ a v, P (.greaterOrEqual a v))
  (hle : ∀ a v, P (.lessOrEqual a v))
  (hpres : ∀ a, P (.present a))
  (happrox : ∀ a v, P (.approx a v))
  (hext : P .extensible)
include hand hor hnot heq hsub hge hle hpres happrox hext

mutual
theorem LF.ind : ∀ f, P f
  | .and l => hand l (LF.indList l)
  | .or l => hor l (LF.indList l)
  | .not f => hnot f (LF.ind f)
  | .equality a v => heq a v
  | .substring a i any f => hsub a i any f
  | .greaterOrEqual a v => hge a v
  | .lessOrEqual a v => hle a v
  | .present a => hpres a
  | .approx a v => happrox a v
  | .extensible => hext
theorem LF.indList : ∀ (l : List LF), ∀ f ∈ l, P f
  | [], _, h => absurd h (List.not_mem_nil)
  | x :: xs, f, h => by
    cases h with
    | head => exact LF.ind x
    | tail _ h' => exact LF.indList xs f h'
end
end

/-! ### the budget prelude -/

theorem enter_ok {d n nd ne : Nat} (h : enter d n = .ok (nd, ne)) : d = nd + 1 ∧ n = ne + 1 := by
  unfold enter at h
  cases d with
  | zero => cases h
  | succ d' =>
    cases n with
    | zero => cases h
    | succ n' => simp at h; omega

/-! ### single-component substring matches -/

theorem isInfix_nil_left : ∀ (x : List Nat), isInfix [] x = true
  | [] => by simp [isInfix]
  | y :: ys => by simp [isInfix]

theorem afterFirst_isSome (p : List Nat) : ∀ (x : List Nat), (afterFirst p x).isSome = isInfix p x
  | [] => by
    unfold afterFirst isInfix
    cases p <;> simp
  | y :: ys => by
    unfold afterFirst isInfix
    by_cases h : p.isPrefixOf (y :: ys) = true
    · simp [h]
    · simp only [h, Bool.false_eq_true, if_false, Bool.false_or]
      exact afterFirst_isSome p ys

theorem subMatch_ini (i x : List Nat) : subMatchStr (some i) [] none x = i.isPrefixOf x := by
  unfold subMatchStr
  by_cases h : i.isPrefixOf x = true <;> simp [h, matchAny]

theorem subMatch_any (p x : List Nat) : subMatchStr none [p] none x = isInfix p x := by
  unfold subMatchStr
  simp only [matchAny]
  rw [← afterFirst_isSome]
  cases afterFirst p x <;> simp

theorem subMatch_fin (f x : List Nat) : subMatchStr none [] (some f) x = f.isSuffixOf x := by
  unfold subMatchStr
  simp [matchAny]

/-! ### folded comparisons -/

theorem foldSem_num_needle (fold : Nat → Nat) (x : Val) (n : Nat) :
    (foldSem fold).sub x (.num n) = false ∧ (foldSem fold).stw x (.num n) = false ∧
      (foldSem fold).enw x (.num n) = false := by
  cases x <;> simp [foldSem]


theorem compText_ok {env : Env} {a : Nat} {r : List Nat} {v : Val} (h : env.ldapVal a r = .ok v) :
    compText env a r = strOf v := by simp [compText, h]

theorem any_sub_num (fold : Nat → Nat) (l : List Val) (n : Nat) :
    l.any (fun x => (foldSem fold).sub x (.num n)) = false := by
  induction l with
  | nil => rfl
  | cons x xs ih => simp [List.any_cons, ih, (foldSem_num_needle fold x n).1]
theorem any_stw_num (fold : Nat → Nat) (l : List Val) (n : Nat) :
    l.any (fun x => (foldSem fold).stw x (.num n)) = false := by
  induction l with
  | nil => rfl
  | cons x xs ih => simp [List.any_cons, ih, (foldSem_num_needle fold x n).2.1]
theorem any_enw_num (fold : Nat → Nat) (l : List Val) (n : Nat) :
    l.any (fun x => (foldSem fold).enw x (.num n)) = false := by
  induction l with
  | nil => rfl
  | cons x xs ih => simp [List.any_cons, ih, (foldSem_num_needle fold x n).2.2]

theorem subTerm_stw (fold : Nat → Nat) (env : Env) (self : Val) (uuidA : Nat) (e : Entry) (a : Nat)
    (i : List Nat) (ts : List FC)
    (ht : subTerms env .stw .cnt .enw a (some i) [] none = .ok ts) :
    FC.matchesAll (foldSem fold) self uuidA e ts = ldapSubSem fold env e a (some i) [] none := by
  unfold subTerms subOptTerm at ht
  cases hv : env.ldapVal a i with
  | error err => simp [hv] at ht
  | ok v =>
    simp [hv, subAnyTerms] at ht
    subst ht
    simp only [ldapSubSem, compTextOpt, compText_ok hv, compTextList]
    cases v with
    | num n =>
      simp [strOf, SubK.term, FC.matchesAll, FC.matches, any_stw_num]
    | str s =>
      simp only [strOf, SubK.term, FC.matchesAll, FC.matches, Option.map, Bool.and_true, List.map]
      congr 1
      funext x
      cases x with
      | num n => simp [foldSem]
      | str xs => simp [foldSem, subMatch_ini]

theorem subTerm_cnt (fold : Nat → Nat) (env : Env) (self : Val) (uuidA : Nat) (e : Entry) (a : Nat)
    (p : List Nat) (ts : List FC)
    (ht : subTerms env .stw .cnt .enw a none [p] none = .ok ts) :
    FC.matchesAll (foldSem fold) self uuidA e ts = ldapSubSem fold env e a none [p] none := by
  unfold subTerms subOptTerm subAnyTerms at ht
  cases hv : env.ldapVal a p with
  | error err => simp [hv] at ht
  | ok v =>
    simp [hv, subAnyTerms] at ht
    subst ht
    simp only [ldapSubSem, compTextOpt, compText_ok hv, compTextList]
    cases v with
    | num n =>
      simp [strOf, SubK.term, FC.matchesAll, FC.matches, any_sub_num]
    | str s =>
      simp only [strOf, SubK.term, FC.matchesAll, FC.matches, Option.map, Bool.and_true, List.map]
      congr 1
      funext x
      cases x with
      | num n => simp [foldSem]
      | str xs => simp [foldSem, subMatch_any]

theorem subTerm_enw (fold : Nat → Nat) (env : Env) (self : Val) (uuidA : Nat) (e : Entry) (a : Nat)
    (f : List Nat) (ts : List FC)
    (ht : subTerms env .stw .cnt .enw a none [] (some f) = .ok ts) :
    FC.matchesAll (foldSem fold) self uuidA e ts = ldapSubSem fold env e a none [] (some f) := by
  unfold subTerms subOptTerm subAnyTerms at ht
  cases hv : env.ldapVal a f with
  | error err => simp [hv] at ht
  | ok v =>
    simp [hv] at ht
    subst ht
    simp only [ldapSubSem, compTextOpt, compText_ok hv, compTextList]
    cases v with
    | num n =>
      simp [strOf, SubK.term, FC.matchesAll, FC.matches, any_enw_num]
    | str s =>
      simp only [strOf, SubK.term, FC.matchesAll, FC.matches, Option.map, Bool.and_true, List.map]
      congr 1
      funext x
      cases x with
      | num n => simp [foldSem]
      | str xs => simp [foldSem, subMatch_fin]

/-- a substring assertion with exactly one component: the independent terms of the translation
and the ordered match of the standard coincide -/
theorem subTerms_single (fold : Nat → Nat) (env : Env) (self : Val) (uuidA : Nat) (e : Entry) (a : Nat)
    (ini : Option (List Nat)) (any : List (List Nat)) (fin : Option (List Nat)) (ts : List FC)
    (h1 : (optCount ini + any.length + optCount fin == 1) = true)
    (ht : subTerms env .stw .cnt .enw a ini any fin = .ok ts) :
    FC.matchesAll (foldSem fold) self uuidA e ts = ldapSubSem fold env e a ini any fin := by
  cases ini with
  | some i =>
    cases any with
    | cons p ps => simp [optCount] at h1 <;> omega
    | nil =>
      cases fin with
      | some f => simp [optCount] at h1 <;> omega
      | none => exact subTerm_stw fold env self uuidA e a i ts ht
  | none =>
    cases any with
    | nil =>
      cases fin with
      | none => simp [optCount] at h1 <;> omega
      | some f => exact subTerm_enw fold env self uuidA e a f ts ht
    | cons p ps =>
      cases ps with
      | cons q qs => simp [optCount] at h1 <;> omega
      | nil =>
        cases fin with
        | some f => simp [optCount] at h1 <;> omega
        | none => exact subTerm_cnt fold env self uuidA e a p ts ht

/-! ### `from_ldap_ro` preserves meaning (single-component substrings) -/

theorem avTr_meaning (fold : Nat → Nat) (env : Env) (self : Val) (uuidA : Nat) (e : Entry)
    (a v : List Nat) (g : FC) (h : avTr env (.eq true) a v = .ok g) :
    g.matches (foldSem fold) self uuidA e =
      (match env.ldapVal (ldapAttrMap env a) v with
        | .ok pv => (e (ldapAttrMap env a)).contains pv
        | .error _ => false) := by
  unfold avTr at h
  simp only at h
  cases hv : env.ldapVal (ldapAttrMap env a) v with
  | ok pv => simp [hv] at h; subst h; simp [FC.matches]
  | error err =>
    simp only [hv] at h
    split at h
    · cases h; simp [FC.matches]
    · cases h

theorem avTr_reject (env : Env) (a v : List Nat) : avTr env .reject a v = .error .filterGeneration := rfl

/-- children: all / any of the translated list = all / any of the standard meanings -/
theorem ldapTrList_meaning (fold : Nat → Nat) (env : Env) (self : Val) (uuidA : Nat) (e : Entry) :
    ∀ (l : List LF), (∀ f ∈ l, f.subSingle = true → ∀ d n fc n', ldapTr env d n f = .ok (fc, n') →
        fc.matches (foldSem fold) self uuidA e = ldapSem fold env e f) →
      LF.subSingleAll l = true → ∀ d n fs n', ldapTrList env d n l = .ok (fs, n') →
      FC.matchesAll (foldSem fold) self uuidA e fs = ldapSemAll fold env e l ∧
      FC.matchesAny (foldSem fold) self uuidA e fs = ldapSemAny fold env e l := by
  intro l
  induction l with
  | nil =>
    intro _ _ d n fs n' h
    simp [ldapTrList] at h
    obtain ⟨rfl, _⟩ := h
    simp [FC.matchesAll, FC.matchesAny, ldapSemAll, ldapSemAny]
  | cons x xs ihx =>
    intro ih hs d n fs n' h
    simp only [LF.subSingleAll, Bool.and_eq_true] at hs
    unfold ldapTrList at h
    cases h1 : ldapTr env d n x with
    | error err => simp [h1] at h
    | ok r =>
      obtain ⟨g, ne⟩ := r
      simp only [h1] at h
      cases h2 : ldapTrList env d ne xs with
      | error err => simp [h2] at h
      | ok r2 =>
        obtain ⟨gs, ne2⟩ := r2
        simp [h2] at h
        obtain ⟨rfl, _⟩ := h
        have hx := ih x (by simp) hs.1 d n g ne h1
        have hxs := ihx (fun f hf => ih f (by simp [hf])) hs.2 d ne gs ne2 h2
        simp only [FC.matchesAll, FC.matchesAny, ldapSemAll, ldapSemAny, hx, hxs.1, hxs.2, and_self]

theorem ldapTr_meaning_aux (fold : Nat → Nat) (env : Env) (self : Val) (uuidA : Nat) (e : Entry) :
    ∀ lf : LF, lf.subSingle = true → ∀ d n fc n', ldapTr env d n lf = .ok (fc, n') →
      fc.matches (foldSem fold) self uuidA e = ldapSem fold env e lf := by
  intro lf
  induction lf using LF.ind with
  | hand l ih =>
    intro hs d n fc n' h
    unfold ldapTr at h
    cases he : enter d n with
    | error err => simp [he] at h
    | ok r =>
      obtain ⟨nd, ne⟩ := r
      simp only [he, ldapAndArm] at h
      cases hL : ldapTrList env nd ne l with
      | error err => simp [hL] at h
      | ok r2 =>
        obtain ⟨fs, ne'⟩ := r2
        simp [hL, GroupK.wrap] at h
        obtain ⟨rfl, _⟩ := h
        simp only [FC.matches, ldapSem]
        exact (ldapTrList_meaning fold env self uuidA e l ih (by simpa [LF.subSingle] using hs) nd ne fs ne' hL).1
  | hor l ih =>
    intro hs d n fc n' h
    unfold ldapTr at h
    cases he : enter d n with
    | error err => simp [he] at h
    | ok r =>
      obtain ⟨nd, ne⟩ := r
      simp only [he, ldapOrArm] at h
      cases hL : ldapTrList env nd ne l with
      | error err => simp [hL] at h
      | ok r2 =>
        obtain ⟨fs, ne'⟩ := r2
        simp [hL, GroupK.wrap] at h
        obtain ⟨rfl, _⟩ := h
        simp only [FC.matches, ldapSem]
        exact (ldapTrList_meaning fold env self uuidA e l ih (by simpa [LF.subSingle] using hs) nd ne fs ne' hL).2
  | hnot f ih =>
    intro hs d n fc n' h
    unfold ldapTr at h
    cases he : enter d n with
    | error err => simp [he] at h
    | ok r =>
      obtain ⟨nd, ne⟩ := r
      simp only [he, ldapNotArm] at h
      cases hL : ldapTr env nd ne f with
      | error err => simp [hL] at h
      | ok r2 =>
        obtain ⟨g, ne'⟩ := r2
        simp [hL] at h
        obtain ⟨rfl, _⟩ := h
        simp only [FC.matches, ldapSem]
        rw [ih (by simpa [LF.subSingle] using hs) nd ne g ne' hL]
  | heq a v =>
    intro hs d n fc n' h
    unfold ldapTr at h
    cases he : enter d n with
    | error err => simp [he] at h
    | ok r =>
      obtain ⟨nd, ne⟩ := r
      simp only [he, ldapEqualityArm] at h
      cases hL : avTr env (.eq true) a v with
      | error err => simp [hL] at h
      | ok g =>
        simp [hL] at h
        obtain ⟨rfl, _⟩ := h
        rw [avTr_meaning fold env self uuidA e a v g hL]
        simp only [ldapSem]
        cases env.ldapVal (ldapAttrMap env a) v <;> rfl
  | hsub a i any f =>
    intro hs d n fc n' h
    unfold ldapTr at h
    cases he : enter d n with
    | error err => simp [he] at h
    | ok r =>
      obtain ⟨nd, ne⟩ := r
      simp only [he, ldapSubstringArm] at h
      cases hL : subTerms env .stw .cnt .enw (ldapAttrMap env a) i any f with
      | error err => simp [hL] at h
      | ok ts =>
        simp [hL, GroupK.wrap] at h
        obtain ⟨rfl, _⟩ := h
        simp only [FC.matches, ldapSem]
        exact subTerms_single fold env self uuidA e _ i any f ts (by simpa [LF.subSingle] using hs) hL
  | hge a v =>
    intro hs d n fc n' h
    unfold ldapTr at h
    cases he : enter d n with
    | error err => simp [he] at h
    | ok r => obtain ⟨nd, ne⟩ := r; simp [he, ldapGeArm, avTr_reject] at h
  | hle a v =>
    intro hs d n fc n' h
    unfold ldapTr at h
    cases he : enter d n with
    | error err => simp [he] at h
    | ok r => obtain ⟨nd, ne⟩ := r; simp [he, ldapLeArm, avTr_reject] at h
  | hpres a =>
    intro hs d n fc n' h
    unfold ldapTr at h
    cases he : enter d n with
    | error err => simp [he] at h
    | ok r =>
      obtain ⟨nd, ne⟩ := r
      simp [he, ldapPresentArm] at h
      obtain ⟨rfl, _⟩ := h
      simp [FC.matches, ldapSem]
  | happrox a v =>
    intro hs d n fc n' h
    unfold ldapTr at h
    cases he : enter d n with
    | error err => simp [he] at h
    | ok r => obtain ⟨nd, ne⟩ := r; simp [he, ldapApproxArm, avTr_reject] at h
  | hext =>
    intro hs d n fc n' h
    unfold ldapTr at h
    cases he : enter d n with
    | error err => simp [he] at h
    | ok r => obtain ⟨nd, ne⟩ := r; simp [he] at h

/-! ### `from_scim_ro` preserves meaning -/
/-- entries and comparison values are typed by the schema as far as ordering is concerned:
a single-valued attribute of an orderable syntax holds at most one value, and the values of an
orderable syntax (stored or parsed from a filter) are numbers -/
structure OrdTyped (env : Env) (e : Entry) : Prop where
  single : ∀ a s, env.syn a = some (s, false) → orderableSyn.contains s = true → (e a).length ≤ 1
  numE : ∀ a s m, env.syn a = some (s, m) → orderableSyn.contains s = true → ∀ x ∈ e a, ∃ n, x = .num n
  numV : ∀ a s m j pv, env.syn a = some (s, m) → orderableSyn.contains s = true →
    env.scimVal a j = .ok pv → ∃ n, pv = .num n

theorem orderingSupported_ok {env : Env} {a : Nat} (h : orderingSupported env a = .ok ()) :
    ∃ s, env.syn a = some (s, false) ∧ orderableSyn.contains s = true := by
  unfold orderingSupported at h
  cases hs : env.syn a with
  | none => simp [hs] at h
  | some p =>
    obtain ⟨s, m⟩ := p
    simp only [hs] at h
    split at h
    · rename_i hc
      simp only [scimOrderingCond, Bool.and_eq_true, Bool.not_eq_true'] at hc
      exact ⟨s, by rw [hc.2], hc.1⟩
    · cases h

theorem cmp_num (k n : Nat) : Val.cmp (.num k) (.num n) =
    if k < n then .lt else if n < k then .gt else .eq := rfl

/-- an ordered single numeric value: the four rewrites mean `>`, `<`, `≥`, `≤` -/
theorem ord_templates (fold : Nat → Nat) (self : Val) (uuidA : Nat) (e : Entry) (a : Nat) (n : Nat)
    (hlen : (e a).length ≤ 1) (hnum : ∀ x ∈ e a, ∃ k, x = .num k) :
    ((Tmpl.and [.pres, .not (.or [.lt, .eq])]).inst a (.num n)).matches (foldSem fold) self uuidA e
        = (e a).any (fun x => scimOpVal fold .gt x (.num n)) ∧
    ((Tmpl.lt).inst a (.num n)).matches (foldSem fold) self uuidA e
        = (e a).any (fun x => scimOpVal fold .lt x (.num n)) ∧
    ((Tmpl.and [.pres, .not .lt]).inst a (.num n)).matches (foldSem fold) self uuidA e
        = (e a).any (fun x => scimOpVal fold .ge x (.num n)) ∧
    ((Tmpl.or [.lt, .eq]).inst a (.num n)).matches (foldSem fold) self uuidA e
        = (e a).any (fun x => scimOpVal fold .le x (.num n)) := by
  cases hl : e a with
  | nil => simp [Tmpl.inst, Tmpl.instList, FC.matches, FC.matchesAll, FC.matchesAny, hl]
  | cons x xs =>
    cases xs with
    | cons y ys => rw [hl] at hlen; simp at hlen
    | nil =>
      obtain ⟨k, rfl⟩ := hnum x (by simp [hl])
      simp only [Tmpl.inst, Tmpl.instList, FC.matches, FC.matchesAll, FC.matchesAny, hl, scimOpVal, cmp_num,
        foldSem, List.any_cons, List.any_nil, List.contains_cons, List.contains_nil, List.isEmpty_cons,
        Bool.or_false, Bool.and_true, Bool.not_false, Bool.true_and]
      by_cases h1 : k < n
      · have : ¬ n < k := by omega
        have : n ≠ k := by omega
        simp [h1, *]
      · by_cases h2 : n < k
        · have : n ≠ k := by omega
          simp [h1, h2, *]
        · have : n = k := by omega
          subst this
          simp

theorem contains_eq_any (l : List Val) (v : Val) : l.contains v = l.any (fun x => x == v) := by
  induction l with
  | nil => rfl
  | cons y ys ih =>
    simp only [List.contains_cons, List.any_cons, ih]
    congr 1
    exact Bool.eq_iff_iff.mpr ⟨fun h => by simpa using (beq_iff_eq.mp h).symm, fun h => by simpa using (beq_iff_eq.mp h).symm⟩

theorem scimCmp_meaning (fold : Nat → Nat) (env : Env) (self : Val) (uuidA : Nat) (e : Entry)
    (ht : OrdTyped env e) (op : SOp) (a : Nat) (v : J) (g : FC)
    (h : scimCmp env (scimArm op) a v = .ok g) :
    g.matches (foldSem fold) self uuidA e = scimSem fold env e (.cmp op a false v) := by
  have ord : ∀ (t : Tmpl), scimCmp env (.tr true true t) a v = .ok g →
      ∃ s n, env.syn a = some (s, false) ∧ orderableSyn.contains s = true ∧
        env.scimVal a v = .ok (.num n) ∧ g = t.inst a (.num n) := by
    intro t h
    unfold scimCmp at h
    simp only [if_true] at h
    cases hg : orderingSupported env a with
    | error err => simp [hg] at h
    | ok u =>
      obtain ⟨s, hs, hc⟩ := orderingSupported_ok hg
      simp only [hg] at h
      cases hv : env.scimVal a v with
      | error err => simp [hv] at h
      | ok pv =>
        simp [hv] at h
        obtain ⟨n, rfl⟩ := ht.numV a s false v pv hs hc hv
        exact ⟨s, n, hs, hc, rfl, h.symm⟩
  have plain : ∀ (t : Tmpl), scimCmp env (.tr false true t) a v = .ok g →
      ∃ pv, env.scimVal a v = .ok pv ∧ g = t.inst a pv := by
    intro t h
    unfold scimCmp at h
    simp only [Bool.false_eq_true, if_false, if_true] at h
    cases hv : env.scimVal a v with
    | error err => simp [hv] at h
    | ok pv => simp [hv] at h; exact ⟨pv, rfl, h.symm⟩
  cases op with
  | pr =>
    simp [scimArm, scimCmp] at h
    subst h
    simp [Tmpl.inst, FC.matches, scimSem]
  | eq =>
    obtain ⟨pv, hv, rfl⟩ := plain _ h
    simp only [Tmpl.inst, FC.matches, scimSem, hv, scimOpVal, Bool.false_eq_true, if_false]
    exact contains_eq_any _ _
  | ne => simp [scimArm, scimCmp] at h
  | co =>
    obtain ⟨pv, hv, rfl⟩ := plain _ h
    simp [Tmpl.inst, FC.matches, scimSem, hv, scimOpVal]
  | sw =>
    obtain ⟨pv, hv, rfl⟩ := plain _ h
    simp [Tmpl.inst, FC.matches, scimSem, hv, scimOpVal]
  | ew =>
    obtain ⟨pv, hv, rfl⟩ := plain _ h
    simp [Tmpl.inst, FC.matches, scimSem, hv, scimOpVal]
  | gt =>
    obtain ⟨s, n, hs, hc, hv, rfl⟩ := ord _ h
    have := ord_templates fold self uuidA e a n (ht.single a s hs hc) (ht.numE a s false hs hc)
    simp only [scimSem, hv, Bool.false_eq_true, if_false]
    exact this.1
  | lt =>
    obtain ⟨s, n, hs, hc, hv, rfl⟩ := ord _ h
    have := ord_templates fold self uuidA e a n (ht.single a s hs hc) (ht.numE a s false hs hc)
    simp only [scimSem, hv, Bool.false_eq_true, if_false]
    exact this.2.1
  | ge =>
    obtain ⟨s, n, hs, hc, hv, rfl⟩ := ord _ h
    have := ord_templates fold self uuidA e a n (ht.single a s hs hc) (ht.numE a s false hs hc)
    simp only [scimSem, hv, Bool.false_eq_true, if_false]
    exact this.2.2.1
  | le =>
    obtain ⟨s, n, hs, hc, hv, rfl⟩ := ord _ h
    have := ord_templates fold self uuidA e a n (ht.single a s hs hc) (ht.numE a s false hs hc)
    simp only [scimSem, hv, Bool.false_eq_true, if_false]
    exact this.2.2.2

theorem scimTr_meaning_aux (fold : Nat → Nat) (env : Env) (self : Val) (uuidA : Nat) (e : Entry)
    (ht : OrdTyped env e) :
    ∀ sf : SF, ∀ d n fc n', scimTr env d n sf = .ok (fc, n') →
      fc.matches (foldSem fold) self uuidA e = scimSem fold env e sf := by
  intro sf
  induction sf with
  | cmp op a sub v =>
    intro d n fc n' h
    unfold scimTr at h
    cases he : enter d n with
    | error err => simp [he] at h
    | ok r =>
      obtain ⟨nd, ne⟩ := r
      simp only [he] at h
      cases sub with
      | true => simp at h
      | false =>
        simp only [Bool.false_eq_true, if_false] at h
        cases hc : scimCmp env (scimArm op) a v with
        | error err => simp [hc] at h
        | ok g =>
          simp [hc] at h
          obtain ⟨rfl, _⟩ := h
          exact scimCmp_meaning fold env self uuidA e ht op a v g hc
  | not f ih =>
    intro d n fc n' h
    unfold scimTr at h
    cases he : enter d n with
    | error err => simp [he] at h
    | ok r =>
      obtain ⟨nd, ne⟩ := r
      simp only [he] at h
      cases h1 : scimTr env nd ne f with
      | error err => simp [h1] at h
      | ok r1 =>
        obtain ⟨g, ne1⟩ := r1
        simp [h1] at h
        obtain ⟨rfl, _⟩ := h
        simp only [FC.matches, scimSem, ih nd ne g ne1 h1]
  | or l r ihl ihr =>
    intro d n fc n' h
    unfold scimTr at h
    cases he : enter d n with
    | error err => simp [he] at h
    | ok r0 =>
      obtain ⟨nd, ne⟩ := r0
      simp only [he] at h
      cases h1 : scimTr env nd ne l with
      | error err => simp [h1] at h
      | ok r1 =>
        obtain ⟨gl, ne1⟩ := r1
        simp only [h1] at h
        cases h2 : scimTr env nd ne1 r with
        | error err => simp [h2] at h
        | ok r2 =>
          obtain ⟨gr, ne2⟩ := r2
          simp [h2] at h
          obtain ⟨rfl, _⟩ := h
          simp only [FC.matches, FC.matchesAny, scimSem, ihl nd ne gl ne1 h1, ihr nd ne1 gr ne2 h2, Bool.or_false]
  | and l r ihl ihr =>
    intro d n fc n' h
    unfold scimTr at h
    cases he : enter d n with
    | error err => simp [he] at h
    | ok r0 =>
      obtain ⟨nd, ne⟩ := r0
      simp only [he] at h
      cases h1 : scimTr env nd ne l with
      | error err => simp [h1] at h
      | ok r1 =>
        obtain ⟨gl, ne1⟩ := r1
        simp only [h1] at h
        cases h2 : scimTr env nd ne1 r with
        | error err => simp [h2] at h
        | ok r2 =>
          obtain ⟨gr, ne2⟩ := r2
          simp [h2] at h
          obtain ⟨rfl, _⟩ := h
          simp only [FC.matches, FC.matchesAll, scimSem, ihl nd ne gl ne1 h1, ihr nd ne1 gr ne2 h2, Bool.and_true]
  | complex =>
    intro d n fc n' h
    unfold scimTr at h
    cases he : enter d n with
    | error err => simp [he] at h
    | ok r => obtain ⟨nd, ne⟩ := r; simp [he] at h

/-! ### unsupported operations are rejected -/

theorem ldapTrList_rejects (env : Env) :
    ∀ (l : List LF), (∀ f ∈ l, f.hasUnsupported = true → ∀ d n, ∃ e, ldapTr env d n f = .error e) →
      LF.hasUnsupportedAny l = true → ∀ d n, ∃ e, ldapTrList env d n l = .error e := by
  intro l
  induction l with
  | nil => intro _ h; simp [LF.hasUnsupportedAny] at h
  | cons x xs ihx =>
    intro ih h d n
    unfold ldapTrList
    cases h1 : ldapTr env d n x with
    | error err => exact ⟨err, rfl⟩
    | ok r =>
      obtain ⟨g, ne⟩ := r
      simp only [LF.hasUnsupportedAny, Bool.or_eq_true] at h
      rcases h with h | h
      · obtain ⟨e', he'⟩ := ih x (by simp) h d n
        rw [he'] at h1; cases h1
      · obtain ⟨e', he'⟩ := ihx (fun f hf => ih f (by simp [hf])) h d ne
        exact ⟨e', by simp [he']⟩

theorem ldapTr_rejects (env : Env) :
    ∀ lf : LF, lf.hasUnsupported = true → ∀ d n, ∃ e, ldapTr env d n lf = .error e := by
  intro lf
  induction lf using LF.ind with
  | hand l ih =>
    intro h d n
    unfold ldapTr
    cases he : enter d n with
    | error err => exact ⟨err, rfl⟩
    | ok r =>
      obtain ⟨nd, ne⟩ := r
      obtain ⟨e', he'⟩ := ldapTrList_rejects env l ih (by simpa [LF.hasUnsupported] using h) nd ne
      exact ⟨e', by simp [ldapAndArm, he']⟩
  | hor l ih =>
    intro h d n
    unfold ldapTr
    cases he : enter d n with
    | error err => exact ⟨err, rfl⟩
    | ok r =>
      obtain ⟨nd, ne⟩ := r
      obtain ⟨e', he'⟩ := ldapTrList_rejects env l ih (by simpa [LF.hasUnsupported] using h) nd ne
      exact ⟨e', by simp [ldapOrArm, he']⟩
  | hnot f ih =>
    intro h d n
    unfold ldapTr
    cases he : enter d n with
    | error err => exact ⟨err, rfl⟩
    | ok r =>
      obtain ⟨nd, ne⟩ := r
      obtain ⟨e', he'⟩ := ih (by simpa [LF.hasUnsupported] using h) nd ne
      exact ⟨e', by simp [ldapNotArm, he']⟩
  | heq a v => intro h; simp [LF.hasUnsupported] at h
  | hsub a i any f => intro h; simp [LF.hasUnsupported] at h
  | hge a v =>
    intro _ d n
    unfold ldapTr
    cases he : enter d n with
    | error err => exact ⟨err, rfl⟩
    | ok r => obtain ⟨nd, ne⟩ := r; exact ⟨.filterGeneration, by simp [ldapGeArm, avTr]⟩
  | hle a v =>
    intro _ d n
    unfold ldapTr
    cases he : enter d n with
    | error err => exact ⟨err, rfl⟩
    | ok r => obtain ⟨nd, ne⟩ := r; exact ⟨.filterGeneration, by simp [ldapLeArm, avTr]⟩
  | hpres a => intro h; simp [LF.hasUnsupported] at h
  | happrox a v =>
    intro _ d n
    unfold ldapTr
    cases he : enter d n with
    | error err => exact ⟨err, rfl⟩
    | ok r => obtain ⟨nd, ne⟩ := r; exact ⟨.filterGeneration, by simp [ldapApproxArm, avTr]⟩
  | hext =>
    intro _ d n
    unfold ldapTr
    cases he : enter d n with
    | error err => exact ⟨err, rfl⟩
    | ok r => obtain ⟨nd, ne⟩ := r; exact ⟨.filterGeneration, rfl⟩

/-- the common shape of the three SCIM rejection results: a property of attribute-operator nodes
that forces their rejection propagates to every filter containing such a node -/
theorem scimTr_rejects_of (env : Env) (bad : SF → Bool)
    (hcmp : ∀ op a sub v, bad (.cmp op a sub v) = true → ∀ d n, ∃ e, scimTr env d n (.cmp op a sub v) = .error e)
    (hnot : ∀ f, bad (.not f) = bad f)
    (hor : ∀ l r, bad (.or l r) = (bad l || bad r))
    (hand : ∀ l r, bad (.and l r) = (bad l || bad r))
    (hcomplex : bad .complex = true → ∀ d n, ∃ e, scimTr env d n .complex = .error e) :
    ∀ sf : SF, bad sf = true → ∀ d n, ∃ e, scimTr env d n sf = .error e := by
  intro sf
  induction sf with
  | cmp op a sub v => exact hcmp op a sub v
  | not f ih =>
    intro h d n
    rw [hnot] at h
    unfold scimTr
    cases he : enter d n with
    | error err => exact ⟨err, rfl⟩
    | ok r =>
      obtain ⟨nd, ne⟩ := r
      obtain ⟨e', he'⟩ := ih h nd ne
      exact ⟨e', by simp [he']⟩
  | or l r ihl ihr =>
    intro h d n
    rw [hor, Bool.or_eq_true] at h
    unfold scimTr
    cases he : enter d n with
    | error err => exact ⟨err, rfl⟩
    | ok r0 =>
      obtain ⟨nd, ne⟩ := r0
      cases h1 : scimTr env nd ne l with
      | error err => exact ⟨err, by simp [h1]⟩
      | ok r1 =>
        obtain ⟨gl, ne1⟩ := r1
        rcases h with h | h
        · obtain ⟨e', he'⟩ := ihl h nd ne; rw [he'] at h1; cases h1
        · obtain ⟨e', he'⟩ := ihr h nd ne1
          exact ⟨e', by simp [h1, he']⟩
  | and l r ihl ihr =>
    intro h d n
    rw [hand, Bool.or_eq_true] at h
    unfold scimTr
    cases he : enter d n with
    | error err => exact ⟨err, rfl⟩
    | ok r0 =>
      obtain ⟨nd, ne⟩ := r0
      cases h1 : scimTr env nd ne l with
      | error err => exact ⟨err, by simp [h1]⟩
      | ok r1 =>
        obtain ⟨gl, ne1⟩ := r1
        rcases h with h | h
        · obtain ⟨e', he'⟩ := ihl h nd ne; rw [he'] at h1; cases h1
        · obtain ⟨e', he'⟩ := ihr h nd ne1
          exact ⟨e', by simp [h1, he']⟩
  | complex => exact hcomplex

theorem scimTr_complex_rejects (env : Env) (d n : Nat) : ∃ e, scimTr env d n .complex = .error e := by
  unfold scimTr
  cases he : enter d n with
  | error err => exact ⟨err, rfl⟩
  | ok r => obtain ⟨nd, ne⟩ := r; exact ⟨.filterGeneration, rfl⟩

theorem orderable_not_resolvable (s : Nat) (h : orderableSyn.contains s = true) :
    scimResolvableSyn.contains s = false := by
  simp only [orderableSyn, List.contains_cons, List.contains_nil, Bool.or_false, Bool.or_eq_true,
    beq_iff_eq] at h
  rcases h with rfl | rfl | rfl | rfl <;> decide


/-! ### the greedy substring matcher decides the declarative specification -/

theorem afterFirst_some (p : List Nat) : ∀ (x r : List Nat), afterFirst p x = some r → ∃ g, x = g ++ p ++ r
  | [], r, h => by
    unfold afterFirst at h
    split at h
    · rename_i hp
      cases h
      cases p with
      | nil => exact ⟨[], rfl⟩
      | cons a as => simp at hp
    · cases h
  | y :: ys, r, h => by
    unfold afterFirst at h
    split at h
    · rename_i hp
      cases h
      obtain ⟨t, ht⟩ := List.isPrefixOf_iff_prefix.mp hp
      refine ⟨[], ?_⟩
      rw [← ht]
      simp
    · obtain ⟨g, hg⟩ := afterFirst_some p ys r h
      exact ⟨y :: g, by rw [hg]; simp⟩

theorem afterFirst_of_occ (p : List Nat) : ∀ (x g r' : List Nat), x = g ++ p ++ r' →
    ∃ r0 h, afterFirst p x = some r0 ∧ r0 = h ++ r'
  | [], g, r', hx => by
    have : g = [] ∧ p = [] ∧ r' = [] := by
      have h2 := hx.symm
      simpa [List.append_eq_nil_iff] using h2
    obtain ⟨rfl, rfl, rfl⟩ := this
    exact ⟨[], [], by simp [afterFirst], rfl⟩
  | y :: ys, g, r', hx => by
    unfold afterFirst
    by_cases hp : p.isPrefixOf (y :: ys) = true
    · simp only [hp, if_true]
      refine ⟨_, (g ++ p).drop p.length, rfl, ?_⟩
      rw [hx, List.drop_append_of_le_length (by simp)]
    · simp only [hp, Bool.false_eq_true, if_false]
      cases g with
      | nil =>
        exfalso
        apply hp
        rw [hx]
        exact List.isPrefixOf_iff_prefix.mpr ⟨r', by simp⟩
      | cons y' g' =>
        simp only [List.cons_append, List.cons.injEq] at hx
        exact afterFirst_of_occ p ys g' r' hx.2

theorem anySpec_mono : ∀ (as : List (List Nat)) (fin : Option (List Nat)) (h r' : List Nat),
    anySpec as fin r' → anySpec as fin (h ++ r')
  | [], none, _, _, _ => trivial
  | [], some f, h, r', ⟨g, hg⟩ => ⟨h ++ g, by rw [hg]; simp⟩
  | a :: as, fin, h, r', ⟨g, r'', hg, hs⟩ => ⟨h ++ g, r'', by rw [hg]; simp, hs⟩

/-- the tail of `subMatchStr`: the `any` components, then the final one -/
def matchAnyFin (any : List (List Nat)) (fin : Option (List Nat)) (r : List Nat) : Bool :=
  match matchAny any r with
  | none => false
  | some r' =>
    match fin with
    | none => true
    | some f => f.isSuffixOf r'

theorem matchAnyFin_iff : ∀ (as : List (List Nat)) (fin : Option (List Nat)) (r : List Nat),
    matchAnyFin as fin r = true ↔ anySpec as fin r
  | [], none, r => by simp [matchAnyFin, matchAny, anySpec]
  | [], some f, r => by
    simp only [matchAnyFin, matchAny, anySpec]
    rw [List.isSuffixOf_iff_suffix]
    constructor
    · rintro ⟨t, ht⟩; exact ⟨t, ht.symm⟩
    · rintro ⟨g, hg⟩; exact ⟨g, hg.symm⟩
  | a :: as, fin, r => by
    have ih := matchAnyFin_iff as fin
    constructor
    · intro h
      unfold matchAnyFin at h
      simp only [matchAny] at h
      cases ha : afterFirst a r with
      | none => simp [ha] at h
      | some r0 =>
        simp only [ha] at h
        obtain ⟨g, hg⟩ := afterFirst_some a r r0 ha
        exact ⟨g, r0, hg, (ih r0).mp (by unfold matchAnyFin; exact h)⟩
    · rintro ⟨g, r', hg, hs⟩
      obtain ⟨r0, h, ha, hr0⟩ := afterFirst_of_occ a r g r' hg
      have := (ih r0).mpr (by rw [hr0]; exact anySpec_mono as fin h r' hs)
      unfold matchAnyFin at this ⊢
      simp only [matchAny, ha]
      exact this


end Kanidm.ProtoFilter
