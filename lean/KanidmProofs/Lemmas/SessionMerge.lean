import KanidmModel.SessionMerge
/-!
Helper lemmas for C11: `lookup` characterisations of the merge loop, of `filter`-style trims,
and the algebra of the per-key choice `pick` for a replace test that is a strict weak order.
-/
namespace Kanidm.SessionMerge
open Kanidm.Gen.SessionOrd

variable {α : Type}

/-- The `BTreeMap` invariant: one value per key. -/
def KeysNodup (m : List (Nat × α)) : Prop := (m.map (·.1)).Nodup

/-- Observational equality of maps. -/
def SEq (m m' : List (Nat × α)) : Prop := ∀ k, lookup m k = lookup m' k

/-- Per key: the value kept when `n` is in the newer map and `o` in the older one. -/
def pick (repl : α → α → Bool) (n o : α) : α := if repl o n then o else n

def pickOpt (repl : α → α → Bool) : Option α → Option α → Option α
  | some n, some o => some (pick repl n o)
  | some n, none => some n
  | none, some o => some o
  | none, none => none

@[simp] theorem pickOpt_none_right (repl : α → α → Bool) (x : Option α) : pickOpt repl x none = x := by
  cases x <;> rfl

@[simp] theorem pickOpt_none_left (repl : α → α → Bool) (x : Option α) : pickOpt repl none x = x := by
  cases x <;> rfl

theorem lookup_eq_none_of_not_mem (m : List (Nat × α)) (k : Nat) (h : k ∉ m.map (·.1)) :
    lookup m k = none := by
  induction m with
  | nil => rfl
  | cons hd tl ih =>
    obtain ⟨k', v⟩ := hd
    simp only [List.map_cons, List.mem_cons, not_or] at h
    simp [lookup, h.1, ih h.2]

theorem mem_keys_of_lookup {m : List (Nat × α)} {k : Nat} {v : α} (h : lookup m k = some v) :
    k ∈ m.map (·.1) := by
  induction m with
  | nil => simp [lookup] at h
  | cons hd tl ih =>
    obtain ⟨k', v'⟩ := hd
    by_cases hk : k = k'
    · simp [hk]
    · simp only [lookup, hk, if_false] at h
      simp [ih h]

theorem lookup_mergeOne (repl : α → α → Bool) (m : List (Nat × α)) (k : Nat) (v : α) (j : Nat) :
    lookup (mergeOne repl m k v) j =
      if j = k then pickOpt repl (lookup m k) (some v) else lookup m j := by
  induction m with
  | nil => by_cases h : j = k <;> simp [mergeOne, lookup, h, pickOpt]
  | cons hd tl ih =>
    obtain ⟨k', v'⟩ := hd
    by_cases hk : k = k'
    · subst hk
      by_cases hj : j = k <;> simp [mergeOne, lookup, hj, pickOpt, pick]
    · by_cases hj : j = k
      · subst hj
        simp [mergeOne, lookup, hk, ih]
      · by_cases hj' : j = k'
        · subst hj'
          simp [mergeOne, lookup, hk, hj]
        · simp [mergeOne, lookup, hk, hj, hj', ih]

theorem keys_mergeOne (repl : α → α → Bool) (m : List (Nat × α)) (k : Nat) (v : α) :
    (mergeOne repl m k v).map (·.1) =
      if k ∈ m.map (·.1) then m.map (·.1) else m.map (·.1) ++ [k] := by
  induction m with
  | nil => simp [mergeOne]
  | cons hd tl ih =>
    obtain ⟨k', v'⟩ := hd
    by_cases hk : k = k'
    · simp [mergeOne, hk]
    · by_cases hm : k ∈ tl.map (·.1)
      · simp only [mergeOne, hk, if_false, List.map_cons, ih, hm, if_true, List.mem_cons, or_true]
      · simp only [mergeOne, hk, if_false, List.map_cons, ih, hm, List.mem_cons, or_false,
          List.cons_append]

theorem keysNodup_mergeOne (repl : α → α → Bool) (m : List (Nat × α)) (k : Nat) (v : α)
    (h : KeysNodup m) : KeysNodup (mergeOne repl m k v) := by
  unfold KeysNodup at *
  rw [keys_mergeOne]
  by_cases hm : k ∈ m.map (·.1)
  · simpa [hm] using h
  · simp only [hm, if_false]
    rw [List.nodup_append]
    refine ⟨h, by simp, ?_⟩
    intro a ha b hb
    simp only [List.mem_singleton] at hb
    subst hb
    intro hab; subst hab; exact hm ha

theorem length_mergeOne_le (repl : α → α → Bool) (m : List (Nat × α)) (k : Nat) (v : α) :
    (mergeOne repl m k v).length ≤ m.length + 1 := by
  induction m with
  | nil => simp [mergeOne]
  | cons hd tl ih =>
    obtain ⟨k', v'⟩ := hd
    by_cases hk : k = k' <;> simp [mergeOne, hk] <;> omega

theorem keysNodup_coreMerge (repl : α → α → Bool) (newer older : List (Nat × α))
    (h : KeysNodup newer) : KeysNodup (coreMerge repl newer older) := by
  unfold coreMerge
  induction older generalizing newer with
  | nil => simpa using h
  | cons hd tl ih => exact ih _ (keysNodup_mergeOne repl newer hd.1 hd.2 h)

theorem length_coreMerge_le (repl : α → α → Bool) (newer older : List (Nat × α)) :
    (coreMerge repl newer older).length ≤ newer.length + older.length := by
  unfold coreMerge
  induction older generalizing newer with
  | nil => simp
  | cons hd tl ih =>
    have h1 := ih (mergeOne repl newer hd.1 hd.2)
    have h2 := length_mergeOne_le repl newer hd.1 hd.2
    simp only [List.foldl_cons, List.length_cons] at *
    omega

/-- The merge loop, per key. Needs only that the *older* map has distinct keys. -/
theorem lookup_coreMerge (repl : α → α → Bool) (newer older : List (Nat × α))
    (ho : KeysNodup older) (j : Nat) :
    lookup (coreMerge repl newer older) j = pickOpt repl (lookup newer j) (lookup older j) := by
  unfold coreMerge
  induction older generalizing newer with
  | nil => simp [lookup]
  | cons hd tl ih =>
    obtain ⟨k, v⟩ := hd
    have hnd : k ∉ tl.map (·.1) ∧ KeysNodup tl := by
      simpa [KeysNodup] using ho
    simp only [List.foldl_cons]
    rw [ih _ hnd.2, lookup_mergeOne]
    by_cases hj : j = k
    · subst hj
      simp [lookup, lookup_eq_none_of_not_mem tl j hnd.1]
    · simp [lookup, hj]

theorem lookup_filter' (p : Nat × α → Bool) (m : List (Nat × α)) (h : KeysNodup m) (k : Nat) :
    lookup (m.filter p) k = (lookup m k).filter (fun v => p (k, v)) := by
  induction m with
  | nil => simp [lookup]
  | cons hd tl ih =>
    obtain ⟨k', v⟩ := hd
    have hnd : k' ∉ tl.map (·.1) ∧ KeysNodup tl := by
      simpa [KeysNodup] using h
    by_cases hp : p (k', v) = true
    · by_cases hk : k = k'
      · simp [List.filter, hp, lookup, hk, Option.filter]
      · simp [List.filter, hp, lookup, hk, ih hnd.2]
    · by_cases hk : k = k'
      · subst hk
        simp [List.filter, hp, lookup, Option.filter, ih hnd.2,
          lookup_eq_none_of_not_mem tl k hnd.1]
      · simp [List.filter, hp, lookup, hk, ih hnd.2]

theorem lookup_filter (p : α → Bool) (m : List (Nat × α)) (h : KeysNodup m) (k : Nat) :
    lookup (m.filter (fun e => p e.2)) k = (lookup m k).filter p :=
  lookup_filter' (fun e => p e.2) m h k

theorem keysNodup_filter (p : Nat × α → Bool) (m : List (Nat × α)) (h : KeysNodup m) :
    KeysNodup (m.filter p) := by
  unfold KeysNodup at *
  exact List.Sublist.nodup (List.Sublist.map _ List.filter_sublist) h

/-! ### Algebra of `pick` for a strict weak order -/

structure StrictWeak (repl : α → α → Bool) : Prop where
  asymm : ∀ a b, repl a b = true → repl b a = false
  trans : ∀ a b c, repl a b = true → repl b c = true → repl a c = true
  negtrans : ∀ a b c, repl a b = false → repl b c = false → repl a c = false

/-- Incomparable values are equal (what the payload hypothesis H1 provides). -/
def Tie (repl : α → α → Bool) (a b : α) : Prop := repl a b = false → repl b a = false → a = b

theorem StrictWeak.irrefl {repl : α → α → Bool} (h : StrictWeak repl) (a : α) : repl a a = false := by
  cases hr : repl a a with
  | false => rfl
  | true => have := h.asymm a a hr; simp [hr] at this

theorem StrictWeak.comap {β : Type} {repl : α → α → Bool} (h : StrictWeak repl) (f : β → α) :
    StrictWeak (fun a b => repl (f a) (f b)) :=
  ⟨fun _ _ => h.asymm _ _, fun _ _ _ => h.trans _ _ _, fun _ _ _ => h.negtrans _ _ _⟩

theorem pick_idem {repl : α → α → Bool} (h : StrictWeak repl) (a : α) : pick repl a a = a := by
  simp [pick, h.irrefl]

theorem pick_comm {repl : α → α → Bool} (h : StrictWeak repl) (a b : α) (t : Tie repl a b) :
    pick repl a b = pick repl b a := by
  unfold pick
  cases hba : repl b a with
  | true => simp [h.asymm b a hba]
  | false =>
    cases hab : repl a b with
    | true => simp
    | false => simp [t hab hba]

/-- Left-biased maximum is associative — no tie hypothesis needed as long as the roles
(newer/older) are not permuted. -/
theorem pick_assoc {repl : α → α → Bool} (h : StrictWeak repl) (a b c : α) :
    pick repl (pick repl a b) c = pick repl a (pick repl b c) := by
  unfold pick
  cases hba : repl b a <;> cases hcb : repl c b <;> cases hca : repl c a <;> simp [hba, hcb, hca]
  · have := h.negtrans c b a hcb hba
    simp [this] at hca
  · have := h.trans c b a hcb hba
    simp [this] at hca

theorem pickOpt_idem {repl : α → α → Bool} (h : StrictWeak repl) (x : Option α) :
    pickOpt repl x x = x := by
  cases x <;> simp [pickOpt, pick_idem h]

/-- Pairwise tie hypothesis on optional values. -/
def TieOpt (repl : α → α → Bool) (x y : Option α) : Prop :=
  ∀ a b, x = some a → y = some b → Tie repl a b

theorem Tie.symm {repl : α → α → Bool} {a b : α} (t : Tie repl a b) : Tie repl b a :=
  fun h1 h2 => (t h2 h1).symm

theorem pickOpt_comm {repl : α → α → Bool} (h : StrictWeak repl) (x y : Option α)
    (t : TieOpt repl x y) : pickOpt repl x y = pickOpt repl y x := by
  cases x with
  | none => simp
  | some a =>
    cases y with
    | none => simp
    | some b => simp [pickOpt, pick_comm h a b (t a b rfl rfl)]

theorem pickOpt_assoc {repl : α → α → Bool} (h : StrictWeak repl) (x y z : Option α) :
    pickOpt repl (pickOpt repl x y) z = pickOpt repl x (pickOpt repl y z) := by
  cases x with
  | none => simp
  | some a =>
    cases y with
    | none => simp
    | some b =>
      cases z with
      | none => simp
      | some c =>
        simp [pickOpt, pick_assoc h a b c]

/-- `pick` returns one of its arguments. -/
theorem pick_cases (repl : α → α → Bool) (a b : α) : pick repl a b = a ∨ pick repl a b = b := by
  unfold pick; cases repl b a <;> simp

/-! ### Core merge: commutative (under ties), associative, idempotent — observationally -/

def TieMaps (repl : α → α → Bool) (a b : List (Nat × α)) : Prop :=
  ∀ k, TieOpt repl (lookup a k) (lookup b k)

theorem TieMaps.symm {repl : α → α → Bool} {a b : List (Nat × α)} (t : TieMaps repl a b) :
    TieMaps repl b a := fun k x y hx hy => (t k y x hy hx).symm

theorem core_comm {repl : α → α → Bool} (h : StrictWeak repl) (a b : List (Nat × α))
    (ha : KeysNodup a) (hb : KeysNodup b) (t : TieMaps repl a b) :
    SEq (coreMerge repl a b) (coreMerge repl b a) := by
  intro k
  rw [lookup_coreMerge _ _ _ hb, lookup_coreMerge _ _ _ ha]
  exact pickOpt_comm h _ _ (t k)

theorem core_assoc {repl : α → α → Bool} (h : StrictWeak repl) (a b c : List (Nat × α))
    (hb : KeysNodup b) (hc : KeysNodup c) :
    SEq (coreMerge repl (coreMerge repl a b) c) (coreMerge repl a (coreMerge repl b c)) := by
  intro k
  rw [lookup_coreMerge _ _ _ hc, lookup_coreMerge _ _ _ hb,
    lookup_coreMerge _ _ _ (keysNodup_coreMerge _ _ _ hb), lookup_coreMerge _ _ _ hc]
  exact pickOpt_assoc h _ _ _

theorem core_idem {repl : α → α → Bool} (h : StrictWeak repl) (a : List (Nat × α))
    (ha : KeysNodup a) : SEq (coreMerge repl a a) a := by
  intro k
  rw [lookup_coreMerge _ _ _ ha]
  exact pickOpt_idem h _

/-! ### Merge followed by a `retain`-style trim -/

/-- `repl_merge_valueset` = merge loop, then `retain(keep)`. -/
def filtMerge (repl : α → α → Bool) (keep : α → Bool) (n o : List (Nat × α)) : List (Nat × α) :=
  (coreMerge repl n o).filter (fun e => keep e.2)

theorem lookup_filtMerge (repl : α → α → Bool) (keep : α → Bool) (n o : List (Nat × α))
    (hn : KeysNodup n) (ho : KeysNodup o) (k : Nat) :
    lookup (filtMerge repl keep n o) k = (pickOpt repl (lookup n k) (lookup o k)).filter keep := by
  unfold filtMerge
  rw [lookup_filter keep _ (keysNodup_coreMerge _ _ _ hn), lookup_coreMerge _ _ _ ho]

theorem keysNodup_filtMerge (repl : α → α → Bool) (keep : α → Bool) (n o : List (Nat × α))
    (hn : KeysNodup n) : KeysNodup (filtMerge repl keep n o) :=
  keysNodup_filter _ _ (keysNodup_coreMerge _ _ _ hn)

theorem length_filtMerge_le (repl : α → α → Bool) (keep : α → Bool) (n o : List (Nat × α)) :
    (filtMerge repl keep n o).length ≤ n.length + o.length :=
  Nat.le_trans (List.length_filter_le _ _) (length_coreMerge_le _ _ _)

/-- Nothing in the map is past the trim window. -/
def AllKeep (keep : α → Bool) (m : List (Nat × α)) : Prop :=
  ∀ k v, lookup m k = some v → keep v = true

def KeepOpt (keep : α → Bool) (x : Option α) : Prop := ∀ v, x = some v → keep v = true

theorem pickOpt_mem (repl : α → α → Bool) (x y : Option α) :
    pickOpt repl x y = x ∨ pickOpt repl x y = y := by
  cases x with
  | none => simp
  | some a =>
    cases y with
    | none => simp
    | some b => rcases pick_cases repl a b with h | h <;> simp [pickOpt, h]

theorem keepOpt_pickOpt {repl : α → α → Bool} {keep : α → Bool} {x y : Option α}
    (hx : KeepOpt keep x) (hy : KeepOpt keep y) : KeepOpt keep (pickOpt repl x y) := by
  rcases pickOpt_mem repl x y with h | h <;> rw [h] <;> assumption

theorem filter_of_keepOpt {keep : α → Bool} {x : Option α} (hx : KeepOpt keep x) :
    x.filter keep = x := by
  cases x with
  | none => rfl
  | some v => simp [Option.filter, hx v rfl]

theorem keepOpt_filter (keep : α → Bool) (x : Option α) : KeepOpt keep (x.filter keep) := by
  intro v hv
  cases x with
  | none => simp at hv
  | some w =>
    by_cases hw : keep w = true
    · simp [Option.filter, hw] at hv; subst hv; exact hw
    · simp [Option.filter, hw] at hv

theorem tieOpt_filter_pickOpt {repl : α → α → Bool} {keep : α → Bool} {x y z : Option α}
    (txz : TieOpt repl x z) (tyz : TieOpt repl y z) :
    TieOpt repl ((pickOpt repl x y).filter keep) z := by
  intro a b ha hb
  have hmem : pickOpt repl x y = some a := by
    cases hp : pickOpt repl x y with
    | none => simp [hp] at ha
    | some w =>
      by_cases hw : keep w = true
      · simp [hp, Option.filter, hw] at ha; subst ha; rfl
      · simp [hp, Option.filter, hw] at ha
  rcases pickOpt_mem repl x y with h | h
  · exact txz a b (h ▸ hmem) hb
  · exact tyz a b (h ▸ hmem) hb

/-! ### Role choice of `Entry::merge_state` on top of a merge-then-trim function -/

theorem takeLeft_cases (a b : Nat) :
    (takeLeft a b = true → b ≤ a) ∧ (takeLeft a b = false → a ≤ b) := by
  unfold takeLeft
  constructor <;> intro h <;> simp at h <;> omega

section Attr
variable {repl : α → α → Bool} {keep : α → Bool}
variable (f : List (Nat × α) → List (Nat × α) → Nat → List (Nat × α)) (t B : Nat)

/-- `f` is merge-then-trim on all inputs of total size ≤ `B` (for sessions `B = SESSION_MAXIMUM`,
below which the forced trim is the identity; for the others `B` is arbitrary). -/
def Agrees (repl : α → α → Bool) (keep : α → Bool)
    (f : List (Nat × α) → List (Nat × α) → Nat → List (Nat × α)) (t B : Nat) : Prop :=
  ∀ n o, n.length + o.length ≤ B → f n o t = filtMerge repl keep n o

theorem attr_fst (l r : Nat × List (Nat × α)) :
    (attrMerge f t l r).1 = max l.1 r.1 := by
  unfold attrMerge
  have := takeLeft_cases l.1 r.1
  cases h : takeLeft l.1 r.1 <;> simp [h] at this ⊢ <;> omega

theorem attr_snd (hs : StrictWeak repl) (hf : Agrees repl keep f t B)
    (l r : Nat × List (Nat × α)) (hl : KeysNodup l.2) (hr : KeysNodup r.2)
    (tie : TieMaps repl l.2 r.2) (hB : l.2.length + r.2.length ≤ B) :
    SEq (attrMerge f t l r).2 (filtMerge repl keep l.2 r.2) := by
  unfold attrMerge
  cases h : takeLeft l.1 r.1
  · simp only [Bool.false_eq_true, if_false]
    rw [hf _ _ (by omega)]
    intro k
    rw [lookup_filtMerge _ _ _ _ hr hl, lookup_filtMerge _ _ _ _ hl hr,
      pickOpt_comm hs _ _ (tie.symm k)]
  · simp only [if_true]
    rw [hf _ _ hB]
    intro k; rfl

theorem attr_nodup (hf : Agrees repl keep f t B)
    (l r : Nat × List (Nat × α)) (hl : KeysNodup l.2) (hr : KeysNodup r.2)
    (hB : l.2.length + r.2.length ≤ B) : KeysNodup (attrMerge f t l r).2 := by
  unfold attrMerge
  cases h : takeLeft l.1 r.1
  · simp only [Bool.false_eq_true, if_false]
    rw [hf _ _ (by omega)]; exact keysNodup_filtMerge _ _ _ _ hr
  · simp only [if_true]
    rw [hf _ _ hB]; exact keysNodup_filtMerge _ _ _ _ hl

theorem attr_length (hf : Agrees repl keep f t B)
    (l r : Nat × List (Nat × α)) (hB : l.2.length + r.2.length ≤ B) :
    (attrMerge f t l r).2.length ≤ l.2.length + r.2.length := by
  unfold attrMerge
  cases h : takeLeft l.1 r.1
  · simp only [Bool.false_eq_true, if_false]
    rw [hf _ _ (by omega)]
    have := length_filtMerge_le repl keep r.2 l.2
    omega
  · simp only [if_true]
    rw [hf _ _ hB]; exact length_filtMerge_le _ _ _ _

/-- Commutativity of the role-choosing merge (cid and, observationally, the map). -/
theorem attr_comm (hs : StrictWeak repl) (hf : Agrees repl keep f t B)
    (l r : Nat × List (Nat × α)) (hl : KeysNodup l.2) (hr : KeysNodup r.2)
    (tie : TieMaps repl l.2 r.2) (hB : l.2.length + r.2.length ≤ B) :
    (attrMerge f t l r).1 = (attrMerge f t r l).1 ∧
      SEq (attrMerge f t l r).2 (attrMerge f t r l).2 := by
  refine ⟨by rw [attr_fst, attr_fst, Nat.max_comm], ?_⟩
  intro k
  rw [attr_snd f t B hs hf l r hl hr tie hB k,
    attr_snd f t B hs hf r l hr hl tie.symm (by omega) k,
    lookup_filtMerge _ _ _ _ hl hr, lookup_filtMerge _ _ _ _ hr hl,
    pickOpt_comm hs _ _ (tie k)]

/-- Idempotence, for a map with nothing past the trim window. -/
theorem attr_idem (hs : StrictWeak repl) (hf : Agrees repl keep f t B)
    (l : Nat × List (Nat × α)) (hl : KeysNodup l.2) (hk : AllKeep keep l.2)
    (hB : l.2.length + l.2.length ≤ B) :
    (attrMerge f t l l).1 = l.1 ∧ SEq (attrMerge f t l l).2 l.2 := by
  refine ⟨by rw [attr_fst, Nat.max_self], ?_⟩
  intro k
  have tie : TieMaps repl l.2 l.2 := by
    intro k x y hx hy _ _
    rw [hx] at hy; exact Option.some.inj hy
  rw [attr_snd f t B hs hf l l hl hl tie hB k, lookup_filtMerge _ _ _ _ hl hl, pickOpt_idem hs]
  exact filter_of_keepOpt (fun v hv => hk k v hv)

/-- Associativity, for maps with nothing past the trim window and pairwise ties. -/
theorem attr_assoc (hs : StrictWeak repl) (hf : Agrees repl keep f t B)
    (a b c : Nat × List (Nat × α))
    (ha : KeysNodup a.2) (hb : KeysNodup b.2) (hc : KeysNodup c.2)
    (ka : AllKeep keep a.2) (kb : AllKeep keep b.2) (kc : AllKeep keep c.2)
    (tab : TieMaps repl a.2 b.2) (tbc : TieMaps repl b.2 c.2) (tac : TieMaps repl a.2 c.2)
    (hB : a.2.length + b.2.length + c.2.length ≤ B) :
    (attrMerge f t (attrMerge f t a b) c).1 = (attrMerge f t a (attrMerge f t b c)).1 ∧
      SEq (attrMerge f t (attrMerge f t a b) c).2 (attrMerge f t a (attrMerge f t b c)).2 := by
  refine ⟨by simp only [attr_fst, Nat.max_assoc], ?_⟩
  intro k
  -- facts about the inner results
  have nab := attr_nodup f t B hf a b ha hb (by omega)
  have nbc := attr_nodup f t B hf b c hb hc (by omega)
  have lab := attr_length f t B hf a b (by omega)
  have lbc := attr_length f t B hf b c (by omega)
  have sab : ∀ j, lookup (attrMerge f t a b).2 j =
      (pickOpt repl (lookup a.2 j) (lookup b.2 j)).filter keep := fun j => by
    rw [attr_snd f t B hs hf a b ha hb tab (by omega) j, lookup_filtMerge _ _ _ _ ha hb]
  have sbc : ∀ j, lookup (attrMerge f t b c).2 j =
      (pickOpt repl (lookup b.2 j) (lookup c.2 j)).filter keep := fun j => by
    rw [attr_snd f t B hs hf b c hb hc tbc (by omega) j, lookup_filtMerge _ _ _ _ hb hc]
  have t1 : TieMaps repl (attrMerge f t a b).2 c.2 := fun j => by
    rw [sab j]; exact tieOpt_filter_pickOpt (tac j) (tbc j)
  have t2 : TieMaps repl a.2 (attrMerge f t b c).2 := fun j => by
    rw [sbc j]
    intro x y hx hy
    exact (tieOpt_filter_pickOpt (keep := keep) (fun p q hp hq => (tab j q p hq hp).symm)
      (fun p q hp hq => (tac j q p hq hp).symm) y x hy hx).symm
  have kx : KeepOpt keep (lookup a.2 k) := fun v hv => ka k v hv
  have ky : KeepOpt keep (lookup b.2 k) := fun v hv => kb k v hv
  have kz : KeepOpt keep (lookup c.2 k) := fun v hv => kc k v hv
  rw [attr_snd f t B hs hf _ c nab hc t1 (by omega) k,
    attr_snd f t B hs hf a _ ha nbc t2 (by omega) k,
    lookup_filtMerge _ _ _ _ nab hc, lookup_filtMerge _ _ _ _ ha nbc, sab k, sbc k,
    filter_of_keepOpt (keepOpt_pickOpt kx ky), filter_of_keepOpt (keepOpt_pickOpt ky kz),
    filter_of_keepOpt (keepOpt_pickOpt (keepOpt_pickOpt kx ky) kz),
    filter_of_keepOpt (keepOpt_pickOpt kx (keepOpt_pickOpt ky kz)),
    pickOpt_assoc hs]

end Attr

end Kanidm.SessionMerge
