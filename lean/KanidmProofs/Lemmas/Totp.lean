import KanidmModel.Totp
/-!
Helper lemmas for C29: output length and byte range of the hash functions and HMAC,
list slicing, and the bridge from the code's truncation (slice, `u32::from_be_bytes`, mask,
`%`) to RFC 4226's `DT`.
-/
namespace Kanidm.Totp
open Kanidm.Gen.Totp
open Kanidm.Totp.Hash

theorem beBytes_length (n w : Nat) : (beBytes n w).length = n := by
  induction n with
  | zero => rfl
  | succ n ih => simp [beBytes, ih]

theorem beBytes_lt (n w b : Nat) (h : b ∈ beBytes n w) : b < 256 := by
  induction n with
  | zero => simp [beBytes] at h
  | succ n ih =>
    simp only [beBytes, List.mem_cons] at h
    rcases h with h | h
    · subst h; exact Nat.mod_lt _ (by decide)
    · exact ih h

theorem sha1_length (m : List Nat) : (sha1 m).length = 20 := by
  simp [sha1, beBytes_length]

theorem sha1_lt (m : List Nat) (b : Nat) (h : b ∈ sha1 m) : b < 256 := by
  simp only [sha1, List.mem_append] at h
  rcases h with (((h | h) | h) | h) | h <;> exact beBytes_lt _ _ _ h

theorem sha2_length (p : Sha2P) (init : S8) (m : List Nat) :
    (sha2 p init m).length = 8 * (p.bits / 8) := by
  simp only [sha2, List.length_append, beBytes_length]
  omega

theorem sha2_lt (p : Sha2P) (init : S8) (m : List Nat) (b : Nat) (h : b ∈ sha2 p init m) :
    b < 256 := by
  simp only [sha2, List.mem_append] at h
  rcases h with ((((((h | h) | h) | h) | h) | h) | h) | h <;> exact beBytes_lt _ _ _ h

/-- A hash function as HMAC and the truncation need it: fixed output length of at least 20
bytes that fits a block, bytes in range. -/
structure Hash.HashAlg.WF (h : HashAlg) : Prop where
  len : ∀ m, (h.hash m).length = h.outLen
  lt : ∀ m b, b ∈ h.hash m → b < 256
  out_ge : 20 ≤ h.outLen
  out_le_block : h.outLen ≤ h.blockLen

theorem hashAlg_wf (i : HashId) : (hashAlg i).WF := by
  cases i
  · exact ⟨sha1_length, sha1_lt, by decide, by decide⟩
  · exact ⟨fun m => by simp [hashAlg, algSha256, sha256, sha2_length, p256], fun m b h => sha2_lt _ _ _ _ h,
      by decide, by decide⟩
  · exact ⟨fun m => by simp [hashAlg, algSha512, sha512, sha2_length, p512], fun m b h => sha2_lt _ _ _ _ h,
      by decide, by decide⟩

theorem hmac_length {h : HashAlg} (wf : h.WF) (key msg : List Nat) :
    (hmac h key msg).length = h.outLen := by
  simp [hmac, wf.len]

theorem hmac_lt {h : HashAlg} (wf : h.WF) (key msg : List Nat) (b : Nat)
    (hb : b ∈ hmac h key msg) : b < 256 := wf.lt _ _ hb

/-- RFC 2104: a key longer than the block is replaced by its hash. -/
theorem hmacKey_long {h : HashAlg} (wf : h.WF) (key : List Nat) (hlong : h.blockLen < key.length) :
    hmacKey h key = hmacKey h (h.hash key) := by
  have h1 : ¬ h.blockLen < (h.hash key).length := by
    rw [wf.len]; exact Nat.not_lt.mpr wf.out_le_block
  simp [hmacKey, hlong, h1]

/-- RFC 2104: a key of at most one block is used as it is, zero-filled to the block. -/
theorem hmacKey_short (h : HashAlg) (key : List Nat) (hshort : key.length ≤ h.blockLen) :
    hmacKey h key = key ++ List.replicate (h.blockLen - key.length) 0 := by
  simp [hmacKey, Nat.not_lt.mpr hshort]

theorem hmacKey_length {h : HashAlg} (wf : h.WF) (key : List Nat) :
    (hmacKey h key).length = h.blockLen := by
  unfold hmacKey
  by_cases hl : h.blockLen < key.length
  · simp only [hl, if_true, List.length_append, List.length_replicate, wf.len]
    have := wf.out_le_block; omega
  · simp only [hl, if_false, List.length_append, List.length_replicate]
    omega

/-! ### slicing -/

theorem getLast?_eq_getD (l : List Nat) (h : l ≠ []) :
    l.getLast? = some (l.getD (l.length - 1) 0) := by
  rw [List.getLast?_eq_getElem?]
  have hl : l.length - 1 < l.length := by
    cases l with
    | nil => exact absurd rfl h
    | cons a t => simp
  simp [List.getD, List.getElem?_eq_getElem hl]

theorem drop_take4 (l : List Nat) (o : Nat) (h : o + 4 ≤ l.length) :
    (l.drop o).take 4 = [l.getD o 0, l.getD (o + 1) 0, l.getD (o + 2) 0, l.getD (o + 3) 0] := by
  induction o generalizing l with
  | zero =>
    match l, h with
    | a :: b :: c :: d :: t, _ => simp
  | succ o ih =>
    match l, h with
    | a :: t, h =>
      have h' : o + 4 ≤ t.length := by simp at h; omega
      have := ih t h'
      simp only [List.drop_succ_cons, this]
      simp [List.getD, Nat.add_right_comm _ 1]

theorem beNum4 (a b c d : Nat) :
    beNum [a, b, c, d] = a * 2 ^ 24 + b * 2 ^ 16 + c * 2 ^ 8 + d := by
  simp [beNum]; omega

/-- The code's truncation of an HMAC value of at least 20 bytes never fails and is RFC 4226's
`DT` followed by the modulus.  (`&&& 0xf` is `% 16`, `&&& 0x7fff_ffff` is `% 2^31`; both
constants come from the generated file.) -/
theorem truncate_eq_dynTrunc (hm : List Nat) (hlen : 20 ≤ hm.length) (modulus : Nat) :
    truncate hm modulus = some (.ok (Rfc.dynTrunc hm % modulus)) := by
  have hne : hm ≠ [] := by intro h; simp [h] at hlen
  have hoff : ∀ v, offsetOf v = v % 16 := fun v => Nat.and_two_pow_sub_one_eq_mod v 4
  have hmask : ∀ x, x &&& 2147483647 = x % 2 ^ 31 := fun x => Nat.and_two_pow_sub_one_eq_mod x 31
  have ho : hm.getD (hm.length - 1) 0 % 16 + 4 ≤ hm.length := by
    have := Nat.mod_lt (hm.getD (hm.length - 1) 0) (show 0 < 16 by decide)
    omega
  unfold truncate
  rw [getLast?_eq_getD hm hne]
  simp only [hoff, sliceStart, sliceEnd, slice, Nat.le_add_right, ho, and_self, if_true,
    Nat.add_sub_cancel_left, drop_take4 hm _ ho, List.length_cons, List.length_nil, arrayLen,
    ne_eq, not_true_eq_false, if_false, u32OfBytes, otpBigEndian, beNum4, finalise, hmask,
    Rfc.dynTrunc]

/-! ### RFC 4226 §5.4 reference expression -/

theorem ref_expr (b0 b1 b2 b3 : Nat) (h1 : b1 < 256) (h2 : b2 < 256) (h3 : b3 < 256) :
    (b0 * 2 ^ 24 + b1 * 2 ^ 16 + b2 * 2 ^ 8 + b3) % 2 ^ 31 =
    ((b0 &&& 0x7f) <<< 24) ||| ((b1 &&& 0xff) <<< 16) ||| ((b2 &&& 0xff) <<< 8) ||| (b3 &&& 0xff) := by
  have e0 : b0 &&& 0x7f = b0 % 128 := Nat.and_two_pow_sub_one_eq_mod b0 7
  have e1 : b1 &&& 0xff = b1 := by rw [show (0xff:Nat) = 2^8 - 1 from rfl, Nat.and_two_pow_sub_one_eq_mod]; omega
  have e2 : b2 &&& 0xff = b2 := by rw [show (0xff:Nat) = 2^8 - 1 from rfl, Nat.and_two_pow_sub_one_eq_mod]; omega
  have e3 : b3 &&& 0xff = b3 := by rw [show (0xff:Nat) = 2^8 - 1 from rfl, Nat.and_two_pow_sub_one_eq_mod]; omega
  rw [e0, e1, e2, e3]
  have s1 : (b0 % 128) <<< 24 ||| b1 <<< 16 = ((b0 % 128) <<< 8 + b1) <<< 16 := by
    rw [Nat.shiftLeft_add_eq_or_of_lt (by omega : b1 < 2 ^ 8), Nat.shiftLeft_or_distrib, ← Nat.shiftLeft_add]
  have s2 : ((b0 % 128) <<< 8 + b1) <<< 16 ||| b2 <<< 8 = (((b0 % 128) <<< 8 + b1) <<< 8 + b2) <<< 8 := by
    rw [Nat.shiftLeft_add_eq_or_of_lt (by omega : b2 < 2 ^ 8), Nat.shiftLeft_or_distrib, ← Nat.shiftLeft_add]
  rw [s1, s2, ← Nat.shiftLeft_add_eq_or_of_lt (by omega : b3 < 2 ^ 8)]
  simp only [Nat.shiftLeft_eq]
  omega

theorem getD_lt (hs : List Nat) (hlt : ∀ b ∈ hs, b < 256) (i : Nat) : hs.getD i 0 < 256 := by
  induction hs generalizing i with
  | nil => simp
  | cons x xs ih =>
    cases i with
    | zero => simpa using hlt x (by simp)
    | succ n => simpa using ih (fun b hb => hlt b (by simp [hb])) n

theorem dynTrunc_eq_refTrunc (hs : List Nat) (hlt : ∀ b ∈ hs, b < 256) :
    Rfc.dynTrunc hs = Rfc.refTrunc hs := by
  have ho : hs.getD (hs.length - 1) 0 &&& 0xf = hs.getD (hs.length - 1) 0 % 16 :=
    Nat.and_two_pow_sub_one_eq_mod _ 4
  unfold Rfc.dynTrunc Rfc.refTrunc
  simp only [ho]
  exact ref_expr _ _ _ _ (getD_lt hs hlt _) (getD_lt hs hlt _) (getD_lt hs hlt _)

/-- `verify` when both digests return codes (stated over opaque codes: the tactics below never
see a hash). -/
theorem verify_of_digests (t : Totp) (chal secs c1 c2 : Nat) (hstep : t.step ≠ 0)
    (h1 : digestAt t (firstCounter (counterOf secs t.step)) = some (.ok c1))
    (h2 : digestAt t (secondCounter (counterOf secs t.step)) = some (.ok c2)) :
    verify t chal secs = some (chal == c1 || chal == c2) := by
  unfold verify
  rw [if_neg hstep]
  simp only [checkAt, h1, h2, matchCode, codeMatches]
  rw [@BEq.comm _ _ _ chal c1, @BEq.comm _ _ _ chal c2]
  cases (c1 == chal) <;> cases (c2 == chal) <;> rfl

/-- `verify` when the second digest's argument overflows (`0 - 1`): `||` short-circuits on a
match of the first code, otherwise the panic surfaces. -/
theorem verify_of_first_only (t : Totp) (chal secs c0 : Nat) (hstep : t.step ≠ 0)
    (h1 : digestAt t (firstCounter (counterOf secs t.step)) = some (.ok c0))
    (h2 : digestAt t (secondCounter (counterOf secs t.step)) = none) :
    verify t chal secs = if chal == c0 then some true else none := by
  unfold verify
  rw [if_neg hstep]
  simp only [checkAt, h1, h2, matchCode, codeMatches]
  rw [@BEq.comm _ _ _ chal c0]
  cases (c0 == chal) <;> rfl

/-- A `u64` argument that is in range is simply passed to `digest`. -/
theorem digestAt_of_nat (t : Totp) (n : Nat) (h : n < 18446744073709551616) :
    digestAt t (n : Int) = digest t n := by
  unfold digestAt
  rw [if_neg (by omega)]
  rfl

/-- A negative `u64` argument is an overflow panic. -/
theorem digestAt_neg (t : Totp) (a : Int) (h : a < 0) : digestAt t a = none := by
  unfold digestAt
  rw [if_pos (Or.inl h)]

end Kanidm.Totp
