import KanidmModel.SchemaCheck
/-! Lemmas for C15: `validate` against the declarative conformance spec. -/
namespace Kanidm.SchemaCheck
open Gen

/-! ## The declarative specification (written from the property text; no `Gen.*` inside) -/

/-- the value set fits the attribute definition: cardinality, syntax, every value valid -/
def AvaOk (sa : SAttr) (ava : Ava) : Prop :=
  (sa.multivalue = true ∨ ava.vals.length ≤ 1) ∧ sa.syn = ava.syn ∧ ∀ v ∈ ava.vals, v.ok = true

/-- `a` is required by one of the entry's classes -/
def Required (s : Schema) (ecs : List Nat) (a : Nat) : Prop :=
  ∃ c ∈ ecs, ∃ sc, findClass s c = some sc ∧ (a ∈ sc.systemmust ∨ a ∈ sc.must)

/-- `a` is allowed by one of the entry's classes -/
def Allowed (s : Schema) (ecs : List Nat) (a : Nat) : Prop :=
  ∃ c ∈ ecs, ∃ sc, findClass s c = some sc ∧
    (a ∈ sc.systemmust ∨ a ∈ sc.must ∨ a ∈ sc.systemmay ∨ a ∈ sc.may)

/-- some class of the entry names `d` as a supplement target -/
def Supplements (s : Schema) (ecs : List Nat) (d : Nat) : Prop :=
  ∃ c ∈ ecs, ∃ sc, findClass s c = some sc ∧ (d ∈ sc.systemsupplements ∨ d ∈ sc.supplements)

/-- some class of the entry excludes `d` -/
def Excludes (s : Schema) (ecs : List Nat) (d : Nat) : Prop :=
  ∃ c ∈ ecs, ∃ sc, findClass s c = some sc ∧ (d ∈ sc.systemexcludes ∨ d ∈ sc.excludes)

structure ConformsBody (s : Schema) (e : Entry) (ecs : List Nat) : Prop where
  classesKnown : ∀ c ∈ ecs, ∃ sc, findClass s c = some sc
  supplements : (∀ d, ¬ Supplements s ecs d) ∨ ∃ d, Supplements s ecs d ∧ d ∈ ecs
  excludes : ∀ d, Excludes s ecs d → d ∉ ecs
  requiredDefined : ∀ a, Required s ecs a → ∃ sa, findAttr s a = some sa
  requiredPresent : cRecycled ∈ ecs ∨ ∀ a, Required s ecs a → ∃ ava, getAva e a = some ava
  attrs :
    (cExtensible ∈ ecs ∧
      ∀ p ∈ e, ∃ sa, findAttr s p.1 = some sa ∧ sa.phantom = false ∧ AvaOk sa p.2) ∨
    (cExtensible ∉ ecs ∧ (∀ a, Allowed s ecs a → ∃ sa, findAttr s a = some sa) ∧
      ∀ p ∈ e, Allowed s ecs p.1 ∧ ∃ sa, findAttr s p.1 = some sa ∧ AvaOk sa p.2)

/-- the entry satisfies the schema: it has a well-typed class attribute and is either a conflict
entry (exempt) or meets every rule -/
def Conforms (s : Schema) (e : Entry) : Prop :=
  ∃ ecs, classSet e = some ecs ∧ (cConflict ∈ ecs ∨ ConformsBody s e ecs)

/-! ## Regenerated operators are the ones modelled -/

theorem ops_as_modelled_lemma :
    exemptClass = .conflict ∧ recycledFlagClass = .recycled ∧ extensibleFlagClass = .extensibleObject
    ∧ missingMustSoftenedByRecycled = true ∧ supplementsEmptyOk = true ∧ supplementsQuant = .any
    ∧ supplementsFields = [.systemsupplements, .supplements]
    ∧ excludesFields = [.systemexcludes, .excludes]
    ∧ mustFields = [.systemmust, .must]
    ∧ mayFields = [.systemmust, .must, .systemmay, .may]
    ∧ extensibleRejectsPhantom = true
    ∧ (∀ m n, singleValueViolated m n = (!m && decide (n > 1)))
    ∧ avaRequiresSyntaxEq = true ∧ avaRequiresValuesValid = true
    ∧ invalidChecksUuidFirst = true ∧ refreshChecksUuidFirst = true
    ∧ replFailClasses = [.recycled, .conflict] ∧ replFailAttr = .sourceUuid
    ∧ sealAttrs = [.lastModifiedCid, .createdAtCid]
    ∧ validateReturns = [.noClassFound, .okConflict, .noClassFound, .noClassFound, .invalidClass,
        .supplementsNotSatisfied, .excludesNotSatisfied, .corrupted, .missingMustAttribute,
        .phantomAttribute, .avaCheck, .invalidAttribute, .corrupted, .avaCheck,
        .attributeNotValidForClass, .okEnd] := by
  refine ⟨rfl, rfl, rfl, rfl, rfl, rfl, rfl, rfl, rfl, rfl, rfl, ?_, rfl, rfl, rfl, rfl, rfl, rfl, rfl, rfl⟩
  intro m n; rfl

/-! ## gather -/

theorem mem_gather {fs : List Field} {s : Schema} {ecs : List Nat} {a : Nat} :
    a ∈ gather fs (ecs.filterMap (findClass s)) ↔
      ∃ c ∈ ecs, ∃ sc, findClass s c = some sc ∧ ∃ f ∈ fs, a ∈ fieldOf f sc := by
  simp only [gather, List.mem_flatMap, List.mem_filterMap]
  constructor
  · rintro ⟨sc, ⟨c, hc, hsc⟩, f, hf, ha⟩
    exact ⟨c, hc, sc, hsc, f, hf, ha⟩
  · rintro ⟨c, hc, sc, hsc, f, hf, ha⟩
    exact ⟨sc, ⟨c, hc, hsc⟩, f, hf, ha⟩

theorem mem_gather_must {s : Schema} {ecs : List Nat} {a : Nat} :
    a ∈ gather mustFields (ecs.filterMap (findClass s)) ↔ Required s ecs a := by
  rw [mem_gather]
  simp only [mustFields, Required, List.mem_cons, List.not_mem_nil, or_false]
  constructor
  · rintro ⟨c, hc, sc, hsc, f, hf, ha⟩
    refine ⟨c, hc, sc, hsc, ?_⟩
    rcases hf with rfl | rfl
    · exact Or.inl ha
    · exact Or.inr ha
  · rintro ⟨c, hc, sc, hsc, ha⟩
    rcases ha with ha | ha
    · exact ⟨c, hc, sc, hsc, .systemmust, Or.inl rfl, ha⟩
    · exact ⟨c, hc, sc, hsc, .must, Or.inr rfl, ha⟩

theorem mem_gather_may {s : Schema} {ecs : List Nat} {a : Nat} :
    a ∈ gather mayFields (ecs.filterMap (findClass s)) ↔ Allowed s ecs a := by
  rw [mem_gather]
  simp only [mayFields, Allowed, List.mem_cons, List.not_mem_nil, or_false]
  constructor
  · rintro ⟨c, hc, sc, hsc, f, hf, ha⟩
    refine ⟨c, hc, sc, hsc, ?_⟩
    rcases hf with rfl | rfl | rfl | rfl
    · exact Or.inl ha
    · exact Or.inr (Or.inl ha)
    · exact Or.inr (Or.inr (Or.inl ha))
    · exact Or.inr (Or.inr (Or.inr ha))
  · rintro ⟨c, hc, sc, hsc, ha⟩
    rcases ha with ha | ha | ha | ha
    · exact ⟨c, hc, sc, hsc, .systemmust, Or.inl rfl, ha⟩
    · exact ⟨c, hc, sc, hsc, .must, Or.inr (Or.inl rfl), ha⟩
    · exact ⟨c, hc, sc, hsc, .systemmay, Or.inr (Or.inr (Or.inl rfl)), ha⟩
    · exact ⟨c, hc, sc, hsc, .may, Or.inr (Or.inr (Or.inr rfl)), ha⟩

theorem mem_gather_supp {s : Schema} {ecs : List Nat} {a : Nat} :
    a ∈ gather supplementsFields (ecs.filterMap (findClass s)) ↔ Supplements s ecs a := by
  rw [mem_gather]
  simp only [supplementsFields, Supplements, List.mem_cons, List.not_mem_nil, or_false]
  constructor
  · rintro ⟨c, hc, sc, hsc, f, hf, ha⟩
    refine ⟨c, hc, sc, hsc, ?_⟩
    rcases hf with rfl | rfl
    · exact Or.inl ha
    · exact Or.inr ha
  · rintro ⟨c, hc, sc, hsc, ha⟩
    rcases ha with ha | ha
    · exact ⟨c, hc, sc, hsc, .systemsupplements, Or.inl rfl, ha⟩
    · exact ⟨c, hc, sc, hsc, .supplements, Or.inr rfl, ha⟩

theorem mem_gather_excl {s : Schema} {ecs : List Nat} {a : Nat} :
    a ∈ gather excludesFields (ecs.filterMap (findClass s)) ↔ Excludes s ecs a := by
  rw [mem_gather]
  simp only [excludesFields, Excludes, List.mem_cons, List.not_mem_nil, or_false]
  constructor
  · rintro ⟨c, hc, sc, hsc, f, hf, ha⟩
    refine ⟨c, hc, sc, hsc, ?_⟩
    rcases hf with rfl | rfl
    · exact Or.inl ha
    · exact Or.inr ha
  · rintro ⟨c, hc, sc, hsc, ha⟩
    rcases ha with ha | ha
    · exact ⟨c, hc, sc, hsc, .systemexcludes, Or.inl rfl, ha⟩
    · exact ⟨c, hc, sc, hsc, .excludes, Or.inr rfl, ha⟩

/-! ## validate_ava -/

theorem validateAva_ok_iff (sa : SAttr) (a : Nat) (ava : Ava) :
    validateAva sa a ava = .ok () ↔ AvaOk sa ava := by
  unfold validateAva AvaOk singleValueViolated avaRequiresSyntaxEq avaRequiresValuesValid
  cases hm : sa.multivalue <;> by_cases hl : ava.vals.length > 1 <;>
    by_cases hs : sa.syn = ava.syn <;> cases hv : ava.vals.all (·.ok) <;>
    simp_all [List.all_eq_true] <;> omega

theorem validateAva_cases (sa : SAttr) (a : Nat) (ava : Ava) :
    validateAva sa a ava = .ok () ∨ validateAva sa a ava = .error (.invalidAttributeSyntax a) := by
  unfold validateAva
  split
  · exact Or.inr rfl
  · split
    · exact Or.inl rfl
    · exact Or.inr rfl

theorem checkAttrsExt_ok_iff (s : Schema) (e : Entry) :
    checkAttrsExt s e = .ok () ↔
      ∀ p ∈ e, ∃ sa, findAttr s p.1 = some sa ∧ sa.phantom = false ∧ AvaOk sa p.2 := by
  induction e with
  | nil => simp [checkAttrsExt]
  | cons p r ih =>
    obtain ⟨a, ava⟩ := p
    simp only [checkAttrsExt, List.mem_cons, forall_eq_or_imp, extensibleRejectsPhantom, Bool.true_and]
    cases hf : findAttr s a with
    | none => simp
    | some sa =>
      cases hp : sa.phantom with
      | true => simp [hp]
      | false =>
        rcases validateAva_cases sa a ava with h | h
        · have := (validateAva_ok_iff sa a ava).1 h
          simp [h, ih, hp, this]
        · have hn : ¬ AvaOk sa ava := fun hk => by
            rw [(validateAva_ok_iff sa a ava).2 hk] at h; cases h
          simp [h, hn, hp]

theorem checkAttrsMay_ok_iff (s : Schema) (may : List Nat) (e : Entry)
    (hdef : ∀ a ∈ may, ∃ sa, findAttr s a = some sa) :
    checkAttrsMay s may e = .ok () ↔
      ∀ p ∈ e, p.1 ∈ may ∧ ∃ sa, findAttr s p.1 = some sa ∧ AvaOk sa p.2 := by
  induction e with
  | nil => simp [checkAttrsMay]
  | cons p r ih =>
    obtain ⟨a, ava⟩ := p
    simp only [checkAttrsMay, List.mem_cons, forall_eq_or_imp, List.contains_iff_mem]
    by_cases hm : a ∈ may
    · obtain ⟨sa, hsa⟩ := hdef a hm
      simp only [hm, if_true, hsa]
      rcases validateAva_cases sa a ava with h | h
      · have := (validateAva_ok_iff sa a ava).1 h
        simp [h, ih, this]
      · have hn : ¬ AvaOk sa ava := fun hk => by
          rw [(validateAva_ok_iff sa a ava).2 hk] at h; cases h
        simp [h, hn]
    · simp [hm]

/-! ## validate = the specification -/

theorem filter_isNone_isEmpty (s : Schema) (ecs : List Nat) :
    (ecs.filter (fun c => (findClass s c).isNone)).isEmpty = true ↔
      ∀ c ∈ ecs, ∃ sc, findClass s c = some sc := by
  rw [List.isEmpty_iff, List.filter_eq_nil_iff]
  constructor
  · intro h c hc
    have := h c hc
    cases hf : findClass s c with
    | none => simp [hf] at this
    | some sc => exact ⟨sc, rfl⟩
  · intro h c hc
    obtain ⟨sc, hsc⟩ := h c hc
    simp [hsc]

theorem any_isNone_false (s : Schema) (l : List Nat) :
    l.any (fun a => (findAttr s a).isNone) = false ↔ ∀ a ∈ l, ∃ sa, findAttr s a = some sa := by
  rw [List.any_eq_false]
  constructor
  · intro h a ha
    have := h a ha
    cases hf : findAttr s a with
    | none => simp [hf] at this
    | some sa => exact ⟨sa, rfl⟩
  · intro h a ha
    obtain ⟨sa, hsa⟩ := h a ha
    simp [hsa]

theorem missing_isEmpty (e : Entry) (l : List Nat) :
    (l.filter (fun a => (getAva e a).isNone)).isEmpty = true ↔
      ∀ a ∈ l, ∃ ava, getAva e a = some ava := by
  rw [List.isEmpty_iff, List.filter_eq_nil_iff]
  constructor
  · intro h a ha
    have := h a ha
    cases hf : getAva e a with
    | none => simp [hf] at this
    | some x => exact ⟨x, rfl⟩
  · intro h a ha
    obtain ⟨x, hx⟩ := h a ha
    simp [hx]

theorem validateBody_ok_iff (s : Schema) (e : Entry) (ecs : List Nat) :
    validateBody s e ecs = .ok () ↔ ConformsBody s e ecs := by
  unfold validateBody
  rw [show recycledFlagClass.atom = cRecycled from rfl,
      show extensibleFlagClass.atom = cExtensible from rfl]
  simp only [supplementsEmptyOk, supplementsQuant, missingMustSoftenedByRecycled, Bool.true_and]
  -- A: classes known
  by_cases hA : ∀ c ∈ ecs, ∃ sc, findClass s c = some sc
  case neg =>
    have : (ecs.filter (fun c => (findClass s c).isNone)).isEmpty = false := by
      cases h : (ecs.filter (fun c => (findClass s c).isNone)).isEmpty with
      | false => rfl
      | true => exact absurd ((filter_isNone_isEmpty s ecs).1 h) hA
    simp only [this, Bool.not_false, if_true]
    constructor
    · intro h; cases h
    · intro h; exact absurd h.classesKnown hA
  have hA' := (filter_isNone_isEmpty s ecs).2 hA
  simp only [hA', Bool.not_true, Bool.false_eq_true, if_false]
  -- B: supplements
  by_cases hB : (∀ d, ¬ Supplements s ecs d) ∨ ∃ d, Supplements s ecs d ∧ d ∈ ecs
  case neg =>
    have : (if (gather supplementsFields (ecs.filterMap (findClass s))).isEmpty = true then true
        else (gather supplementsFields (ecs.filterMap (findClass s))).any (fun c => ecs.contains c)) = false := by
      split
      · rename_i h
        exfalso; apply hB; left
        intro d hd
        have := mem_gather_supp.2 hd
        rw [List.isEmpty_iff] at h
        rw [h] at this; cases this
      · rw [List.any_eq_false]
        intro d hd hc
        apply hB; right
        exact ⟨d, mem_gather_supp.1 hd, by simpa using hc⟩
    simp only [this, Bool.not_false, if_true]
    constructor
    · intro h; cases h
    · intro h; exact absurd h.supplements hB
  have hB' : (if (gather supplementsFields (ecs.filterMap (findClass s))).isEmpty = true then true
        else (gather supplementsFields (ecs.filterMap (findClass s))).any (fun c => ecs.contains c)) = true := by
    split
    · rfl
    · rename_i hne
      rcases hB with h | ⟨d, hd, hin⟩
      · exfalso; apply hne
        rw [List.isEmpty_iff]
        cases hg : gather supplementsFields (ecs.filterMap (findClass s)) with
        | nil => rfl
        | cons x r =>
          exact absurd (mem_gather_supp.1 (by rw [hg]; exact List.mem_cons_self)) (h x)
      · rw [List.any_eq_true]
        exact ⟨d, mem_gather_supp.2 hd, by simpa using hin⟩
  simp only [hB', Bool.not_true, Bool.false_eq_true, if_false]
  -- C: excludes
  by_cases hC : ∀ d, Excludes s ecs d → d ∉ ecs
  case neg =>
    have : ((gather excludesFields (ecs.filterMap (findClass s))).filter (fun c => ecs.contains c)).isEmpty = false := by
      cases h : ((gather excludesFields (ecs.filterMap (findClass s))).filter (fun c => ecs.contains c)).isEmpty with
      | false => rfl
      | true =>
        exfalso; apply hC
        intro d hd hin
        rw [List.isEmpty_iff, List.filter_eq_nil_iff] at h
        exact h d (mem_gather_excl.2 hd) (by simpa using hin)
    simp only [this, Bool.not_false, if_true]
    constructor
    · intro h; cases h
    · intro h; exact absurd h.excludes hC
  have hC' : ((gather excludesFields (ecs.filterMap (findClass s))).filter (fun c => ecs.contains c)).isEmpty = true := by
    rw [List.isEmpty_iff, List.filter_eq_nil_iff]
    intro d hd hin
    exact hC d (mem_gather_excl.1 hd) (by simpa using hin)
  simp only [hC', Bool.not_true, Bool.false_eq_true, if_false]
  -- D: must attributes defined
  by_cases hD : ∀ a, Required s ecs a → ∃ sa, findAttr s a = some sa
  case neg =>
    have : (gather mustFields (ecs.filterMap (findClass s))).any (fun a => (findAttr s a).isNone) = true := by
      cases h : (gather mustFields (ecs.filterMap (findClass s))).any (fun a => (findAttr s a).isNone) with
      | true => rfl
      | false =>
        exfalso; apply hD
        intro a ha
        exact (any_isNone_false s _).1 h a (mem_gather_must.2 ha)
    simp only [this, if_true]
    constructor
    · intro h; cases h
    · intro h; exact absurd h.requiredDefined hD
  have hD' : (gather mustFields (ecs.filterMap (findClass s))).any (fun a => (findAttr s a).isNone) = false :=
    (any_isNone_false s _).2 (fun a ha => hD a (mem_gather_must.1 ha))
  simp only [hD', Bool.false_eq_true, if_false]
  -- E: must attributes present (unless recycled)
  by_cases hE : cRecycled ∈ ecs ∨ ∀ a, Required s ecs a → ∃ ava, getAva e a = some ava
  case neg =>
    have h1 : ecs.contains cRecycled = false := by
      cases h : ecs.contains cRecycled with
      | false => rfl
      | true => exact absurd (Or.inl (by simpa using h)) hE
    have h2 : ((gather mustFields (ecs.filterMap (findClass s))).filter (fun a => (getAva e a).isNone)).isEmpty = false := by
      cases h : ((gather mustFields (ecs.filterMap (findClass s))).filter (fun a => (getAva e a).isNone)).isEmpty with
      | false => rfl
      | true =>
        exfalso; apply hE; right
        intro a ha
        exact (missing_isEmpty e _).1 h a (mem_gather_must.2 ha)
    simp only [h1, h2, Bool.not_false, Bool.and_self, if_true]
    constructor
    · intro h; cases h
    · intro h; exact absurd h.requiredPresent hE
  have hE' : (!((gather mustFields (ecs.filterMap (findClass s))).filter (fun a => (getAva e a).isNone)).isEmpty
      && !(ecs.contains cRecycled)) = false := by
    rcases hE with h | h
    · have : ecs.contains cRecycled = true := by simpa using h
      rw [this]; simp
    · have := (missing_isEmpty e _).2 (fun a ha => h a (mem_gather_must.1 ha))
      simp [this]
  simp only [hE', Bool.false_eq_true, if_false]
  -- F: attributes
  by_cases hX : cExtensible ∈ ecs
  · have : ecs.contains cExtensible = true := by simpa using hX
    simp only [this, if_true]
    rw [checkAttrsExt_ok_iff]
    constructor
    · intro h
      exact ⟨hA, hB, hC, hD, hE, Or.inl ⟨hX, h⟩⟩
    · intro h
      rcases h.attrs with ⟨_, h⟩ | ⟨hn, _⟩
      · exact h
      · exact absurd hX hn
  · have : ecs.contains cExtensible = false := by
      cases h : ecs.contains cExtensible with
      | false => rfl
      | true => exact absurd (by simpa using h) hX
    simp only [this, Bool.false_eq_true, if_false]
    by_cases hM : ∀ a, Allowed s ecs a → ∃ sa, findAttr s a = some sa
    case neg =>
      have : (gather mayFields (ecs.filterMap (findClass s))).any (fun a => (findAttr s a).isNone) = true := by
        cases h : (gather mayFields (ecs.filterMap (findClass s))).any (fun a => (findAttr s a).isNone) with
        | true => rfl
        | false =>
          exfalso; apply hM
          intro a ha
          exact (any_isNone_false s _).1 h a (mem_gather_may.2 ha)
      simp only [this, if_true]
      constructor
      · intro h; cases h
      · intro h
        rcases h.attrs with ⟨hx, _⟩ | ⟨_, h, _⟩
        · exact absurd hx hX
        · exact absurd h hM
    have hM' : (gather mayFields (ecs.filterMap (findClass s))).any (fun a => (findAttr s a).isNone) = false :=
      (any_isNone_false s _).2 (fun a ha => hM a (mem_gather_may.1 ha))
    simp only [hM', Bool.false_eq_true, if_false]
    rw [checkAttrsMay_ok_iff s _ e (fun a ha => hM a (mem_gather_may.1 ha))]
    constructor
    · intro h
      refine ⟨hA, hB, hC, hD, hE, Or.inr ⟨hX, hM, ?_⟩⟩
      intro p hp
      exact ⟨mem_gather_may.1 (h p hp).1, (h p hp).2⟩
    · intro h
      rcases h.attrs with ⟨hx, _⟩ | ⟨_, _, h⟩
      · exact absurd hx hX
      · intro p hp
        exact ⟨mem_gather_may.2 (h p hp).1, (h p hp).2⟩

/-- `validate` accepts exactly the conforming entries -/
theorem validate_ok_iff_conforms (s : Schema) (e : Entry) :
    validate s e = .ok () ↔ Conforms s e := by
  unfold validate Conforms
  cases hcs : classSet e with
  | none => simp
  | some ecs =>
    rw [show exemptClass.atom = cConflict from rfl]
    by_cases hc : cConflict ∈ ecs
    · have : ecs.contains cConflict = true := by simpa using hc
      simp only [this, if_true, true_iff]
      exact ⟨ecs, rfl, Or.inl hc⟩
    · have : ecs.contains cConflict = false := by
        cases h : ecs.contains cConflict with
        | false => rfl
        | true => exact absurd (by simpa using h) hc
      simp only [this, Bool.false_eq_true, if_false, validateBody_ok_iff]
      constructor
      · intro h; exact ⟨ecs, rfl, Or.inr h⟩
      · rintro ⟨ecs', h1, h2⟩
        cases h1
        rcases h2 with h2 | h2
        · exact absurd h2 hc
        · exact h2

/-! ## lookup / setAva / addAvaInt -/

theorem getAva_cons (p : Nat × Ava) (r : Entry) (a : Nat) :
    getAva (p :: r) a = if a == p.1 then some p.2 else getAva r a := by
  obtain ⟨k, v⟩ := p
  simp only [getAva, List.lookup]
  cases h : a == k <;> simp

theorem getAva_append_none {e l : Entry} {a : Nat} (h : getAva e a = none) :
    getAva (e ++ l) a = getAva l a := by
  induction e with
  | nil => rfl
  | cons p r ih =>
    rw [getAva_cons] at h
    rw [List.cons_append, getAva_cons]
    cases hk : a == p.1 with
    | true => simp [hk] at h
    | false => simp only [hk] at h ⊢; exact ih h

theorem getAva_append_some {e l : Entry} {a : Nat} {x : Ava} (h : getAva e a = some x) :
    getAva (e ++ l) a = some x := by
  induction e with
  | nil => simp [getAva] at h
  | cons p r ih =>
    rw [getAva_cons] at h
    rw [List.cons_append, getAva_cons]
    cases hk : a == p.1 with
    | true => simpa [hk] using h
    | false => simp only [hk] at h ⊢; exact ih h

theorem any_key_iff_getAva (e : Entry) (a : Nat) :
    e.any (fun p => p.1 == a) = (getAva e a).isSome := by
  induction e with
  | nil => rfl
  | cons p r ih =>
    rw [getAva_cons, List.any_cons, ih]
    by_cases h : p.1 = a
    · subst h; simp
    · have h1 : (p.1 == a) = false := by simpa using h
      have h2 : (a == p.1) = false := by simpa using fun h' => h h'.symm
      simp [h1, h2]

theorem getAva_map_replace_self {e : Entry} {a : Nat} {x : Ava} (h : (getAva e a).isSome) :
    getAva (e.map (fun p => if p.1 == a then (a, x) else p)) a = some x := by
  induction e with
  | nil => simp [getAva] at h
  | cons p r ih =>
    rw [List.map_cons, getAva_cons]
    rw [getAva_cons] at h
    by_cases hk : p.1 = a
    · subst hk; simp
    · have h1 : (p.1 == a) = false := by simpa using hk
      have h2 : (a == p.1) = false := by simpa using fun h' => hk h'.symm
      simp only [h1, h2, Bool.false_eq_true, if_false] at h ⊢
      exact ih h

theorem getAva_map_replace_ne {e : Entry} {a b : Nat} {x : Ava} (hne : b ≠ a) :
    getAva (e.map (fun p => if p.1 == a then (a, x) else p)) b = getAva e b := by
  induction e with
  | nil => rfl
  | cons p r ih =>
    rw [List.map_cons, getAva_cons, getAva_cons, ih]
    by_cases hk : p.1 = a
    · subst hk
      have : (b == p.1) = false := by simpa using hne
      simp [this]
    · have h1 : (p.1 == a) = false := by simpa using hk
      simp [h1]

theorem getAva_setAva_self (e : Entry) (a : Nat) (x : Ava) : getAva (setAva e a x) a = some x := by
  unfold setAva
  split
  · rename_i h
    rw [any_key_iff_getAva] at h
    exact getAva_map_replace_self h
  · rename_i h
    rw [any_key_iff_getAva] at h
    have hn : getAva e a = none := by
      cases hg : getAva e a with
      | none => rfl
      | some _ => simp [hg] at h
    rw [getAva_append_none hn]
    simp [getAva, List.lookup]

theorem getAva_setAva_ne (e : Entry) {a b : Nat} (x : Ava) (hne : b ≠ a) :
    getAva (setAva e a x) b = getAva e b := by
  unfold setAva
  split
  · exact getAva_map_replace_ne hne
  · cases hg : getAva e b with
    | none =>
      rw [getAva_append_none hg]
      have : (b == a) = false := by simpa using hne
      simp [getAva, List.lookup, this]
    | some y => exact getAva_append_some hg

theorem mem_setAva {e : Entry} {a : Nat} {x : Ava} {p : Nat × Ava} (h : p ∈ setAva e a x) :
    p = (a, x) ∨ (p ∈ e ∧ p.1 ≠ a) := by
  unfold setAva at h
  split at h
  · rw [List.mem_map] at h
    obtain ⟨q, hq, rfl⟩ := h
    by_cases hk : q.1 = a
    · left; simp [hk]
    · right
      have h1 : (q.1 == a) = false := by simpa using hk
      simp only [h1, Bool.false_eq_true, if_false]
      exact ⟨hq, hk⟩
  · rename_i hany
    rw [List.mem_append] at h
    rcases h with h | h
    · right
      refine ⟨h, fun hk => hany ?_⟩
      rw [List.any_eq_true]
      exact ⟨p, h, by simpa using hk⟩
    · left; simpa using h

/-- the class attribute, if there is one, is a set of class names (an iutf8 set) -/
def ClassWellTyped (e : Entry) : Prop := ∀ ava, getAva e aClass = some ava → ava.syn = synIutf8

theorem classSet_setAva_ne (e : Entry) {a : Nat} (x : Ava) (hne : a ≠ aClass) :
    classSet (setAva e a x) = classSet e := by
  unfold classSet
  rw [getAva_setAva_ne e x (Ne.symm hne)]

theorem classWellTyped_setAva_ne (e : Entry) {a : Nat} (x : Ava) (hne : a ≠ aClass) :
    ClassWellTyped (setAva e a x) ↔ ClassWellTyped e := by
  unfold ClassWellTyped
  rw [getAva_setAva_ne e x (Ne.symm hne)]

/-- adding a class name: afterwards the class is there, nothing is lost, typing is kept -/
theorem classSet_addClass (e : Entry) (c : Nat) (hwt : ClassWellTyped e) :
    ∃ ecs, classSet (addAvaInt e aClass synIutf8 ⟨c, true⟩) = some ecs ∧ c ∈ ecs
      ∧ (∀ ecs0, classSet e = some ecs0 → ∀ d ∈ ecs0, d ∈ ecs)
      ∧ ClassWellTyped (addAvaInt e aClass synIutf8 ⟨c, true⟩) := by
  unfold addAvaInt
  cases hg : getAva e aClass with
  | none =>
    have hl : getAva (e ++ [(aClass, (⟨synIutf8, [⟨c, true⟩]⟩ : Ava))]) aClass = some ⟨synIutf8, [⟨c, true⟩]⟩ := by
      rw [getAva_append_none hg]; simp [getAva, List.lookup]
    refine ⟨[c], ?_, by simp, ?_, ?_⟩
    · simp [classSet, hl]
    · intro ecs0 h0; simp [classSet, hg] at h0
    · intro ava h; rw [hl] at h; cases h; rfl
  | some ava =>
    have hs : ava.syn = synIutf8 := hwt ava hg
    simp only [hs, beq_self_eq_true, if_true]
    split
    · rename_i hany
      refine ⟨ava.vals.map (·.atom), ?_, ?_, ?_, hwt⟩
      · simp [classSet, hg, hs]
      · rw [List.any_eq_true] at hany
        obtain ⟨x, hx, hxc⟩ := hany
        rw [List.mem_map]
        exact ⟨x, hx, by simpa using hxc⟩
      · intro ecs0 h0 d hd
        simp only [classSet, hg, hs, beq_self_eq_true, if_true, Option.some.injEq] at h0
        rw [← h0] at hd; exact hd
    · have hl := getAva_setAva_self e aClass (⟨synIutf8, ava.vals ++ [(⟨c, true⟩ : Val)]⟩ : Ava)
      refine ⟨(ava.vals ++ [(⟨c, true⟩ : Val)]).map (·.atom), ?_, ?_, ?_, ?_⟩
      · simp only [classSet, hl, beq_self_eq_true, if_true]
      · simp
      · intro ecs0 h0 d hd
        simp only [classSet, hg, hs, beq_self_eq_true, if_true, Option.some.injEq] at h0
        rw [← h0] at hd
        rw [List.map_append, List.mem_append]; exact Or.inl hd
      · intro ava' h; rw [hl] at h; cases h; rfl

theorem addAvaInt_ne_class (e : Entry) {a : Nat} (syn : Nat) (v : Val) (hne : a ≠ aClass) :
    classSet (addAvaInt e a syn v) = classSet e
      ∧ (ClassWellTyped (addAvaInt e a syn v) ↔ ClassWellTyped e) := by
  unfold addAvaInt
  cases hg : getAva e a with
  | none =>
    have hl : ∀ l : Entry, (∀ p ∈ l, p.1 = a) → getAva (e ++ l) aClass = getAva e aClass := by
      intro l hl
      cases hc : getAva e aClass with
      | some y => exact getAva_append_some hc
      | none =>
        rw [getAva_append_none hc]
        induction l with
        | nil => rfl
        | cons p r ih =>
          rw [getAva_cons]
          have : (aClass == p.1) = false := by
            have := hl p List.mem_cons_self
            simpa [this] using Ne.symm hne
          simp only [this, Bool.false_eq_true, if_false]
          exact ih (fun q hq => hl q (List.mem_cons_of_mem _ hq))
    have := hl [(a, ⟨syn, [v]⟩)] (by simp)
    exact ⟨by simp [classSet, this], by simp [ClassWellTyped, this]⟩
  | some ava =>
    simp only
    split
    · split
      · exact ⟨rfl, Iff.rfl⟩
      · exact ⟨classSet_setAva_ne e _ hne, classWellTyped_setAva_ne e _ hne⟩
    · exact ⟨rfl, Iff.rfl⟩

/-! ## validate_repl -/

theorem validateRepl_of_ok {s : Schema} {u : Nat} {e : Entry} (h : validate s e = .ok ()) :
    validateRepl s u e = e := by
  unfold validateRepl; rw [h]

/-- a merged entry that fails the schema leaves `validate_repl` as a recycled conflict entry -/
theorem validateRepl_of_err {s : Schema} {u : Nat} {e : Entry} {x : SErr}
    (h : validate s e = .error x) (hwt : ClassWellTyped e) :
    ∃ ecs, classSet (validateRepl s u e) = some ecs ∧ cConflict ∈ ecs ∧ cRecycled ∈ ecs := by
  unfold validateRepl; rw [h]
  simp only [replFailClasses, replFailAttr, List.foldl_cons, List.foldl_nil]
  obtain ⟨ecs1, h1, hr1, _, hwt1⟩ := classSet_addClass e Cls.recycled.atom hwt
  obtain ⟨ecs2, h2, hc2, hsub2, _⟩ :=
    classSet_addClass (addAvaInt e aClass synIutf8 ⟨Cls.recycled.atom, true⟩) Cls.conflict.atom hwt1
  have hne : AttrName.sourceUuid.atom ≠ aClass := by decide
  refine ⟨ecs2, ?_, hc2, hsub2 ecs1 h1 _ hr1⟩
  rw [(addAvaInt_ne_class _ synUuid ⟨u, true⟩ hne).1]
  exact h2

theorem validateRepl_illtyped {s : Schema} {u : Nat} {e : Entry} (hwt : ¬ ClassWellTyped e) :
    ¬ ClassWellTyped (validateRepl s u e) := by
  unfold validateRepl
  split
  · exact hwt
  · simp only [replFailClasses, replFailAttr, List.foldl_cons, List.foldl_nil]
    have hne : AttrName.sourceUuid.atom ≠ aClass := by decide
    rw [(addAvaInt_ne_class _ synUuid ⟨u, true⟩ hne).2]
    -- an ill-typed class attribute refuses both class names
    have key : ∀ (e : Entry) (c : Nat), ¬ ClassWellTyped e →
        addAvaInt e aClass synIutf8 ⟨c, true⟩ = e := by
      intro e c hw
      unfold addAvaInt
      cases hg : getAva e aClass with
      | none => exact absurd (fun ava h => by rw [hg] at h; cases h) hw
      | some ava =>
        have : ava.syn ≠ synIutf8 := fun hs => hw (fun ava' h => by rw [hg] at h; cases h; exact hs)
        have : (ava.syn == synIutf8) = false := by simpa using this
        simp [this]
    rw [key e _ hwt, key e _ hwt]
    exact hwt

/-! ## The two attributes `seal` rewrites after validation -/

theorem mem_of_getAva {e : Entry} {a : Nat} {v : Ava} (h : getAva e a = some v) : (a, v) ∈ e := by
  induction e with
  | nil => simp [getAva] at h
  | cons p r ih =>
    rw [getAva_cons] at h
    by_cases hk : a = p.1
    · have : (a == p.1) = true := by simpa using hk
      simp only [this, if_true, Option.some.injEq] at h
      subst h; subst hk
      exact List.mem_cons_self
    · have : (a == p.1) = false := by simpa using hk
      simp only [this, Bool.false_eq_true, if_false] at h
      exact List.mem_cons_of_mem _ (ih h)

/-- the candidate carries `last_modified_cid` and `created_at_cid` as cid sets when it is validated
(`assign_cid`, `from_repl_entry_v1` and every earlier `seal` put them there; class `object`
requires them) -/
def HasCid (e : Entry) : Prop :=
  (∃ ava, getAva e aLastMod = some ava ∧ ava.syn = synCid) ∧
  (∃ ava, getAva e aCreatedAt = some ava ∧ ava.syn = synCid)

/-- replacing an existing cid set by a single valid cid keeps the entry conforming -/
theorem conforms_setAva_cid {s : Schema} {e : Entry} {a cid : Nat} {old : Ava}
    (h : Conforms s e) (hold : getAva e a = some old) (hsyn : old.syn = synCid) (hne : a ≠ aClass) :
    Conforms s (setAva e a ⟨synCid, [⟨cid, true⟩]⟩) := by
  obtain ⟨ecs, hcs, h⟩ := h
  refine ⟨ecs, by rw [classSet_setAva_ne e _ hne]; exact hcs, ?_⟩
  rcases h with h | h
  · exact Or.inl h
  right
  have hmem := mem_of_getAva hold
  have newOk : ∀ sa : SAttr, AvaOk sa old → AvaOk sa ⟨synCid, [⟨cid, true⟩]⟩ := by
    intro sa hk
    refine ⟨Or.inr (by simp), ?_, ?_⟩
    · rw [hk.2.1]; exact hsyn
    · intro v hv; simp at hv; subst hv; rfl
  refine ⟨h.classesKnown, h.supplements, h.excludes, h.requiredDefined, ?_, ?_⟩
  · rcases h.requiredPresent with hr | hr
    · exact Or.inl hr
    · right
      intro b hb
      by_cases hba : b = a
      · subst hba; exact ⟨_, getAva_setAva_self e b _⟩
      · rw [getAva_setAva_ne e _ hba]; exact hr b hb
  · rcases h.attrs with ⟨hx, ha⟩ | ⟨hx, hd, ha⟩
    · left
      refine ⟨hx, fun p hp => ?_⟩
      rcases mem_setAva hp with rfl | ⟨hp, _⟩
      · obtain ⟨sa, h1, h2, h3⟩ := ha _ hmem
        exact ⟨sa, h1, h2, newOk sa h3⟩
      · exact ha p hp
    · right
      refine ⟨hx, hd, fun p hp => ?_⟩
      rcases mem_setAva hp with rfl | ⟨hp, _⟩
      · obtain ⟨h0, sa, h1, h3⟩ := ha _ hmem
        exact ⟨h0, sa, h1, newOk sa h3⟩
      · exact ha p hp

theorem conforms_seal {s : Schema} {e : Entry} (cid : Nat) (h : Conforms s e) (hc : HasCid e) :
    Conforms s (sealEntry cid e) := by
  obtain ⟨⟨o1, h1, s1⟩, ⟨o2, h2, s2⟩⟩ := hc
  unfold sealEntry
  simp only [sealAttrs, List.foldl_cons, List.foldl_nil]
  have step1 := conforms_setAva_cid (cid := cid) h h1 s1 (by decide)
  have h2' : getAva (setAva e aLastMod ⟨synCid, [⟨cid, true⟩]⟩) aCreatedAt = some o2 := by
    rw [getAva_setAva_ne e _ (by decide)]; exact h2
  exact conforms_setAva_cid (cid := cid) step1 h2' s2 (by decide)

theorem hasCid_seal (cid : Nat) (e : Entry) : HasCid (sealEntry cid e) := by
  unfold sealEntry
  simp only [sealAttrs, List.foldl_cons, List.foldl_nil]
  have h2 : getAva (setAva (setAva e aLastMod ⟨synCid, [⟨cid, true⟩]⟩) aCreatedAt ⟨synCid, [⟨cid, true⟩]⟩)
      aCreatedAt = some ⟨synCid, [⟨cid, true⟩]⟩ := getAva_setAva_self _ _ _
  have h1 : getAva (setAva (setAva e aLastMod ⟨synCid, [⟨cid, true⟩]⟩) aCreatedAt ⟨synCid, [⟨cid, true⟩]⟩)
      aLastMod = some ⟨synCid, [⟨cid, true⟩]⟩ := by
    rw [getAva_setAva_ne _ _ (by decide)]
    exact getAva_setAva_self e aLastMod _
  exact ⟨⟨_, h1, rfl⟩, ⟨_, h2, rfl⟩⟩

theorem classSet_seal (cid : Nat) (e : Entry) : classSet (sealEntry cid e) = classSet e := by
  unfold sealEntry
  simp only [sealAttrs, List.foldl_cons, List.foldl_nil]
  show classSet (setAva (setAva e aLastMod _) aCreatedAt _) = classSet e
  rw [classSet_setAva_ne _ _ (by decide), classSet_setAva_ne _ _ (by decide)]

theorem classWellTyped_seal (cid : Nat) (e : Entry) :
    ClassWellTyped (sealEntry cid e) ↔ ClassWellTyped e := by
  unfold sealEntry
  simp only [sealAttrs, List.foldl_cons, List.foldl_nil]
  show ClassWellTyped (setAva (setAva e aLastMod _) aCreatedAt _) ↔ ClassWellTyped e
  rw [classWellTyped_setAva_ne _ _ (by decide), classWellTyped_setAva_ne _ _ (by decide)]

/-- two facts of the shipped schema (checked by the harness on every schema it dumps): class
`object` requires `last_modified_cid` and `created_at_cid`, and both are cid-typed -/
structure SchemaCidFacts (s : Schema) : Prop where
  objectRequires : ∃ sc, findClass s cObject = some sc ∧
    (aLastMod ∈ sc.systemmust ∨ aLastMod ∈ sc.must) ∧ (aCreatedAt ∈ sc.systemmust ∨ aCreatedAt ∈ sc.must)
  cidTyped : ∀ a sa, (a = aLastMod ∨ a = aCreatedAt) → findAttr s a = some sa → sa.syn = synCid

/-- a live entry of class `object` that passes the schema check carries both cid attributes -/
theorem hasCid_of_object {s : Schema} {e : Entry} {ecs : List Nat} (hf : SchemaCidFacts s)
    (h : Conforms s e) (hcs : classSet e = some ecs) (ho : cObject ∈ ecs)
    (hnc : cConflict ∉ ecs) (hnr : cRecycled ∉ ecs) : HasCid e := by
  obtain ⟨ecs', hcs', hb⟩ := h
  rw [hcs] at hcs'; cases hcs'
  rcases hb with hb | hb
  · exact absurd hb hnc
  obtain ⟨sc, hsc, r1, r2⟩ := hf.objectRequires
  have present : ∀ a, Required s ecs a → ∃ ava, getAva e a = some ava := by
    rcases hb.requiredPresent with hr | hr
    · exact absurd hr hnr
    · exact hr
  have typed : ∀ a ava, (a = aLastMod ∨ a = aCreatedAt) → getAva e a = some ava → ava.syn = synCid := by
    intro a ava ha hg
    have hm := mem_of_getAva hg
    rcases hb.attrs with ⟨_, hx⟩ | ⟨_, _, hx⟩
    · obtain ⟨sa, h1, _, h3⟩ := hx _ hm
      rw [← h3.2.1]; exact hf.cidTyped a sa ha h1
    · obtain ⟨_, sa, h1, h3⟩ := hx _ hm
      rw [← h3.2.1]; exact hf.cidTyped a sa ha h1
  obtain ⟨a1, g1⟩ := present aLastMod ⟨cObject, ho, sc, hsc, r1⟩
  obtain ⟨a2, g2⟩ := present aCreatedAt ⟨cObject, ho, sc, hsc, r2⟩
  exact ⟨⟨a1, g1, typed _ _ (Or.inl rfl) g1⟩, ⟨a2, g2, typed _ _ (Or.inr rfl) g2⟩⟩

/-! ## Schema extension keeps valid entries valid -/

/-- `s'` extends `s`: attribute definitions are kept, every class keeps its must / supplements /
excludes lists and may only gain `may` attributes; new attributes and classes are unrestricted;
the classes of `s'` only name attributes `s'` defines (`SchemaTransaction::validate`) -/
structure SchemaExt (s s' : Schema) : Prop where
  attrs : ∀ a sa, findAttr s a = some sa → findAttr s' a = some sa
  classes : ∀ c sc, findClass s c = some sc → ∃ sc', findClass s' c = some sc' ∧
      sc'.systemmust = sc.systemmust ∧ sc'.must = sc.must ∧
      (∀ a, a ∈ sc.systemmay → a ∈ sc'.systemmay) ∧ (∀ a, a ∈ sc.may → a ∈ sc'.may) ∧
      sc'.systemsupplements = sc.systemsupplements ∧ sc'.supplements = sc.supplements ∧
      sc'.systemexcludes = sc.systemexcludes ∧ sc'.excludes = sc.excludes
  consistent : ∀ c sc', findClass s' c = some sc' → ∀ a,
      (a ∈ sc'.systemmust ∨ a ∈ sc'.must ∨ a ∈ sc'.systemmay ∨ a ∈ sc'.may) →
      ∃ sa, findAttr s' a = some sa

theorem conforms_mono {s s' : Schema} {e : Entry} (hx : SchemaExt s s') (h : Conforms s e) :
    Conforms s' e := by
  obtain ⟨ecs, hcs, h⟩ := h
  refine ⟨ecs, hcs, ?_⟩
  rcases h with h | h
  · exact Or.inl h
  right
  -- every class of the entry, seen in s', is the s-class with possibly more `may`
  have back : ∀ c ∈ ecs, ∀ sc', findClass s' c = some sc' → ∃ sc, findClass s c = some sc ∧
      sc'.systemmust = sc.systemmust ∧ sc'.must = sc.must ∧
      (∀ a, a ∈ sc.systemmay → a ∈ sc'.systemmay) ∧ (∀ a, a ∈ sc.may → a ∈ sc'.may) ∧
      sc'.systemsupplements = sc.systemsupplements ∧ sc'.supplements = sc.supplements ∧
      sc'.systemexcludes = sc.systemexcludes ∧ sc'.excludes = sc.excludes := by
    intro c hc sc' hsc'
    obtain ⟨sc, hsc⟩ := h.classesKnown c hc
    obtain ⟨sc2, h2, rest⟩ := hx.classes c sc hsc
    rw [hsc'] at h2; cases h2
    exact ⟨sc, hsc, rest⟩
  have req : ∀ a, Required s' ecs a → Required s ecs a := by
    rintro a ⟨c, hc, sc', hsc', hm⟩
    obtain ⟨sc, hsc, e1, e2, _⟩ := back c hc sc' hsc'
    exact ⟨c, hc, sc, hsc, by rw [← e1, ← e2]; exact hm⟩
  have sup : ∀ d, Supplements s' ecs d → Supplements s ecs d := by
    rintro d ⟨c, hc, sc', hsc', hm⟩
    obtain ⟨sc, hsc, _, _, _, _, e1, e2, _⟩ := back c hc sc' hsc'
    exact ⟨c, hc, sc, hsc, by rw [← e1, ← e2]; exact hm⟩
  have sup' : ∀ d, Supplements s ecs d → Supplements s' ecs d := by
    rintro d ⟨c, hc, sc, hsc, hm⟩
    obtain ⟨sc', hsc', _, _, _, _, e1, e2, _⟩ := hx.classes c sc hsc
    exact ⟨c, hc, sc', hsc', by rw [e1, e2]; exact hm⟩
  have exc : ∀ d, Excludes s' ecs d → Excludes s ecs d := by
    rintro d ⟨c, hc, sc', hsc', hm⟩
    obtain ⟨sc, hsc, _, _, _, _, _, _, e1, e2⟩ := back c hc sc' hsc'
    exact ⟨c, hc, sc, hsc, by rw [← e1, ← e2]; exact hm⟩
  have alw : ∀ a, Allowed s ecs a → Allowed s' ecs a := by
    rintro a ⟨c, hc, sc, hsc, hm⟩
    obtain ⟨sc', hsc', e1, e2, m1, m2, _⟩ := hx.classes c sc hsc
    refine ⟨c, hc, sc', hsc', ?_⟩
    rcases hm with hm | hm | hm | hm
    · exact Or.inl (by rw [e1]; exact hm)
    · exact Or.inr (Or.inl (by rw [e2]; exact hm))
    · exact Or.inr (Or.inr (Or.inl (m1 a hm)))
    · exact Or.inr (Or.inr (Or.inr (m2 a hm)))
  refine ⟨?_, ?_, ?_, ?_, ?_, ?_⟩
  · intro c hc
    obtain ⟨sc, hsc⟩ := h.classesKnown c hc
    obtain ⟨sc', hsc', _⟩ := hx.classes c sc hsc
    exact ⟨sc', hsc'⟩
  · rcases h.supplements with hn | ⟨d, hd, hin⟩
    · exact Or.inl (fun d hd => hn d (sup d hd))
    · exact Or.inr ⟨d, sup' d hd, hin⟩
  · exact fun d hd => h.excludes d (exc d hd)
  · intro a ha
    obtain ⟨sa, hsa⟩ := h.requiredDefined a (req a ha)
    exact ⟨sa, hx.attrs a sa hsa⟩
  · rcases h.requiredPresent with hr | hr
    · exact Or.inl hr
    · exact Or.inr (fun a ha => hr a (req a ha))
  · rcases h.attrs with ⟨hxt, ha⟩ | ⟨hxt, _, ha⟩
    · left
      refine ⟨hxt, fun p hp => ?_⟩
      obtain ⟨sa, h1, h2, h3⟩ := ha p hp
      exact ⟨sa, hx.attrs _ sa h1, h2, h3⟩
    · right
      refine ⟨hxt, ?_, fun p hp => ?_⟩
      · rintro a ⟨c, hc, sc', hsc', hm⟩
        exact hx.consistent c sc' hsc' a hm
      · obtain ⟨h0, sa, h1, h3⟩ := ha p hp
        exact ⟨alw _ h0, sa, hx.attrs _ sa h1, h3⟩

/-! ## Store paths -/

/-- what reaches the backend: a candidate that passed the schema check — or, on the replication
path only, one whose class attribute is not a set of class names, which `validate_repl` cannot
refuse — and was then sealed -/
inductive Checked (s : Schema) : Entry → Prop
  | passed {x : Entry} : validate s x = .ok () → Checked s x
  | illTyped {x : Entry} : ¬ ClassWellTyped x → Checked s x
  | sealed {x : Entry} (cid : Nat) : Checked s x → Checked s (sealEntry cid x)

theorem checked_of_conflict {s : Schema} {e : Entry}
    (h : ∃ ecs, classSet e = some ecs ∧ cConflict ∈ ecs) : Checked s e := by
  obtain ⟨ecs, hcs, hc⟩ := h
  exact .passed ((validate_ok_iff_conforms s e).2 ⟨ecs, hcs, Or.inl hc⟩)

theorem checked_validateRepl (s : Schema) (u : Nat) (e : Entry) :
    Checked s (validateRepl s u e) := by
  by_cases hwt : ClassWellTyped e
  · cases hv : validate s e with
    | ok _ => rw [validateRepl_of_ok hv]; exact .passed hv
    | error x =>
      obtain ⟨ecs, h1, h2, _⟩ := validateRepl_of_err (u := u) hv hwt
      exact checked_of_conflict ⟨ecs, h1, h2⟩
  · exact .illTyped (validateRepl_illtyped hwt)

theorem checked_mono {s s' : Schema} {e : Entry} (hx : SchemaExt s s') (h : Checked s e) :
    Checked s' e := by
  induction h with
  | passed hv =>
    exact .passed ((validate_ok_iff_conforms _ _).2 (conforms_mono hx ((validate_ok_iff_conforms _ _).1 hv)))
  | illTyped hw => exact .illTyped hw
  | sealed cid _ ih => exact .sealed cid ih

/-- a checked entry that is live (its class attribute lists neither `conflict` nor `recycled`)
and carries class `object` satisfies the schema as stored -/
theorem checked_live_valid {s : Schema} (hf : SchemaCidFacts s) {e : Entry} (h : Checked s e) :
    ∀ ecs, classSet e = some ecs → cObject ∈ ecs → cConflict ∉ ecs → cRecycled ∉ ecs →
      validate s e = .ok () := by
  induction h with
  | passed hv => intro _ _ _ _ _; exact hv
  | illTyped hw =>
    intro ecs hcs _ _ _
    exfalso; apply hw
    intro ava hava
    unfold classSet at hcs
    rw [hava] at hcs
    by_cases hs : ava.syn = synIutf8
    · exact hs
    · have : (ava.syn == synIutf8) = false := by simpa using hs
      simp [this] at hcs
  | sealed cid _ ih =>
    intro ecs hcs ho hnc hnr
    rw [classSet_seal] at hcs
    have hv := ih ecs hcs ho hnc hnr
    have hc := (validate_ok_iff_conforms _ _).1 hv
    exact (validate_ok_iff_conforms _ _).2
      (conforms_seal cid hc (hasCid_of_object hf hc hcs ho hnc hnr))

theorem validateInvalid_ok {s : Schema} {e : Entry} (h : validateInvalid s e = .ok ()) :
    validate s e = .ok () := by
  unfold validateInvalid at h
  split at h
  · cases h
  · exact h

theorem validateAll_ok {s : Schema} {c : List Entry} (h : validateAll s c = .ok ()) :
    ∀ e ∈ c, validate s e = .ok () := by
  induction c with
  | nil => intro e he; cases he
  | cons x r ih =>
    unfold validateAll at h
    split at h
    · cases h
    · rename_i hx
      intro e he
      rcases List.mem_cons.1 he with rfl | he
      · exact validateInvalid_ok (by rw [hx])
      · exact ih h e he

theorem runSteps_checked {s : Schema} (env : Env)
    (hcc : ∀ e ∈ env.conflictCopies, Checked s e) :
    ∀ (steps : List Step) (v : Bool) (c w out : List Entry),
      wellOrderedFrom v steps = true → (v = true → ∀ e ∈ c, Checked s e) → (∀ e ∈ w, Checked s e) →
      runSteps env s steps c w = .ok out → ∀ e ∈ out, Checked s e := by
  intro steps
  induction steps with
  | nil =>
    intro v c w out _ _ hw hr
    simp only [runSteps] at hr; cases hr; exact hw
  | cons st r ih =>
    intro v c w out hwo hc hw hr
    cases st with
    | mutate t =>
      simp only [runSteps] at hr
      split at hr
      · cases hr
      · exact ih false _ w out (by simpa [wellOrderedFrom] using hwo) (fun h => by cases h) hw hr
    | validate =>
      simp only [runSteps] at hr
      split at hr
      · cases hr
      · rename_i hv
        exact ih true c w out (by simpa [wellOrderedFrom] using hwo)
          (fun _ e he => .passed (validateAll_ok hv e he)) hw hr
    | validateRepl =>
      simp only [runSteps] at hr
      refine ih true _ w out (by simpa [wellOrderedFrom] using hwo) (fun _ e he => ?_) hw hr
      rw [List.mem_map] at he
      obtain ⟨x, _, rfl⟩ := he
      exact checked_validateRepl s _ x
    | sealing =>
      simp only [runSteps] at hr
      refine ih v _ w out (by simpa [wellOrderedFrom] using hwo) (fun hv e he => ?_) hw hr
      rw [List.mem_map] at he
      obtain ⟨x, hx, rfl⟩ := he
      exact .sealed _ (hc hv x hx)
    | store m =>
      simp only [runSteps] at hr
      simp only [wellOrderedFrom, Bool.and_eq_true] at hwo
      refine ih v c _ out hwo.2 hc (fun e he => ?_) hr
      rcases List.mem_append.1 he with he | he
      · exact hw e he
      · exact hc hwo.1 e he
    | storeConflictCopies =>
      simp only [runSteps] at hr
      refine ih v c _ out (by simpa [wellOrderedFrom] using hwo) hc (fun e he => ?_) hr
      rcases List.mem_append.1 he with he | he
      · exact hw e he
      · exact hcc e he
    | check t =>
      simp only [runSteps] at hr
      split at hr
      · cases hr
      · exact ih v c w out (by simpa [wellOrderedFrom] using hwo) hc hw hr
    | post t =>
      simp only [runSteps] at hr
      split at hr
      · cases hr
      · exact ih v c w out (by simpa [wellOrderedFrom] using hwo) hc hw hr

/-! ## Histories -/

def DbChecked (s : Schema) (db : Db) : Prop := ∀ e ∈ db, Checked s e

/-- an operation as the code performs it: a well-ordered store path; the conflict copies the
replication path stores unvalidated carry class `conflict` (`resolve_add_conflict`) -/
structure OpOk (o : Op) : Prop where
  ordered : wellOrdered o.steps = true
  copies : ∀ e ∈ o.env.conflictCopies, ∃ ecs, classSet e = some ecs ∧ cConflict ∈ ecs

theorem applyOp_checked {s : Schema} {db : Db} {o : Op} (ho : OpOk o)
    (hdb : DbChecked s db) : DbChecked s (applyOp s db o).1 := by
  unfold applyOp
  split
  · rename_i w hw
    intro e he
    rcases List.mem_append.1 he with he | he
    · exact hdb e (List.mem_filter.1 he).1
    · exact runSteps_checked o.env (fun e he => checked_of_conflict (ho.copies e he)) o.steps false _ []
        w ho.ordered (fun h => by cases h) (fun e he => by cases he) hw e he
  · exact hdb

theorem applyOp_rejected {s : Schema} {db : Db} {o : Op} (h : (applyOp s db o).2 = false) :
    (applyOp s db o).1 = db := by
  unfold applyOp at h ⊢
  split
  · rename_i w hw; rw [hw] at h; cases h
  · rfl

/-- the histories of the property's quantifier: operations through the store paths, schema
reloads that only extend -/
def HistoryOk : Schema → List HStep → Prop
  | _, [] => True
  | s, .op o :: r => OpOk o ∧ HistoryOk s r
  | s, .reload s' :: r => SchemaExt s s' ∧ HistoryOk s' r

theorem runHistory_checked : ∀ (h : List HStep) (s : Schema) (db : Db),
    DbChecked s db → HistoryOk s h →
    DbChecked (runHistory s db h).1 (runHistory s db h).2 := by
  intro h
  induction h with
  | nil => intro s db hdb _; exact hdb
  | cons st r ih =>
    intro s db hdb hok
    cases st with
    | op o =>
      simp only [runHistory]
      exact ih s _ (applyOp_checked hok.1 hdb) hok.2
    | reload s' =>
      simp only [runHistory]
      exact ih s' db (fun e he => checked_mono hok.1 (hdb e he)) hok.2

end Kanidm.SchemaCheck
