import KanidmModel.SchemaCheck
/-! Lemmas for C15: `validate` against the declarative conformance spec. -/
namespace Kanidm.SchemaCheck
open Gen

/-! ## The declarative specification (written from the property text; no `Gen.*` inside) -/

/-- the value set fits the attribute definition: cardinality, syntax, every value valid -/
def AvaOk (sa : SAttr) (ava : Ava) : Prop :=
  (sa.multivalue = true ∨ ava.vals.length ≤ 1) ∧ sa.syn = ava.syn ∧ ∀ v ∈ ava.vals, v.ok = true

/-- `a` is required by one of the entry's classes -/
def Required (s : Schema) (ecs : List Nat) (a : Nat) : Prop :=
  ∃ c ∈ ecs, ∃ sc, findClass s c = some sc ∧ (a ∈ sc.systemmust ∨ a ∈ sc.must)

/-- `a` is allowed by one of the entry's classes -/
def Allowed (s : Schema) (ecs : List Nat) (a : Nat) : Prop :=
  ∃ c ∈ ecs, ∃ sc, findClass s c = some sc ∧
    (a ∈ sc.systemmust ∨ a ∈ sc.must ∨ a ∈ sc.systemmay ∨ a ∈ sc.may)

/-- some class of the entry names `d` as a supplement target -/
def Supplements (s : Schema) (ecs : List Nat) (d : Nat) : Prop :=
  ∃ c ∈ ecs, ∃ sc, findClass s c = some sc ∧ (d ∈ sc.systemsupplements ∨ d ∈ sc.supplements)

/-- some class of the entry excludes `d` -/
def Excludes (s : Schema) (ecs : List Nat) (d : Nat) : Prop :=
  ∃ c ∈ ecs, ∃ sc, findClass s c = some sc ∧ (d ∈ sc.systemexcludes ∨ d ∈ sc.excludes)

structure ConformsBody (s : Schema) (e : Entry) (ecs : List Nat) : Prop where
  classesKnown : ∀ c ∈ ecs, ∃ sc, findClass s c = some sc
  supplements : (∀ d, ¬ Supplements s ecs d) ∨ ∃ d, Supplements s ecs d ∧ d ∈ ecs
  excludes : ∀ d, Excludes s ecs d → d ∉ ecs
  requiredDefined : ∀ a, Required s ecs a → ∃ sa, findAttr s a = some sa
  requiredPresent : cRecycled ∈ ecs ∨ ∀ a, Required s ecs a → ∃ ava, getAva e a = some ava
  attrs :
    (cExtensible ∈ ecs ∧
      ∀ p ∈ e, ∃ sa, findAttr s p.1 = some sa ∧ sa.phantom = false ∧ AvaOk sa p.2) ∨
    (cExtensible ∉ ecs ∧ (∀ a, Allowed s ecs a → ∃ sa, findAttr s a = some sa) ∧
      ∀ p ∈ e, Allowed s ecs p.1 ∧ ∃ sa, findAttr s p.1 = some sa ∧ AvaOk sa p.2)

/-- the entry satisfies the schema: it has a well-typed class attribute and is either a conflict
entry (exempt) or meets every rule -/
def Conforms (s : Schema) (e : Entry) : Prop :=
  ∃ ecs, classSet e = some ecs ∧ (cConflict ∈ ecs ∨ ConformsBody s e ecs)

/-! ## Regenerated operators are the ones modelled -/

theorem ops_as_modelled_lemma :
    exemptClass = .conflict ∧ recycledFlagClass = .recycled ∧ extensibleFlagClass = .extensibleObject
    ∧ missingMustSoftenedByRecycled = true ∧ supplementsEmptyOk = true ∧ supplementsQuant = .any
    ∧ supplementsFields = [.systemsupplements, .supplements]
    ∧ excludesFields = [.systemexcludes, .excludes]
    ∧ mustFields = [.systemmust, .must]
    ∧ mayFields = [.systemmust, .must, .systemmay, .may]
    ∧ extensibleRejectsPhantom = true
    ∧ (∀ m n, singleValueViolated m n = (!m && decide (n > 1)))
    ∧ avaRequiresSyntaxEq = true ∧ avaRequiresValuesValid = true
    ∧ invalidChecksUuidFirst = true ∧ refreshChecksUuidFirst = true
    ∧ replFailClasses = [.recycled, .conflict] ∧ replFailAttr = .sourceUuid
    ∧ sealAttrs = [.lastModifiedCid, .createdAtCid]
    ∧ validateReturns = [.noClassFound, .okConflict, .noClassFound, .invalidClass,
        .supplementsNotSatisfied, .excludesNotSatisfied, .corrupted, .missingMustAttribute,
        .phantomAttribute, .avaCheck, .invalidAttribute, .corrupted, .avaCheck,
        .attributeNotValidForClass, .okEnd] := by
  refine ⟨rfl, rfl, rfl, rfl, rfl, rfl, rfl, rfl, rfl, rfl, rfl, ?_, rfl, rfl, rfl, rfl, rfl, rfl, rfl, rfl⟩
  intro m n; rfl

/-! ## gather -/

theorem mem_gather {fs : List Field} {s : Schema} {ecs : List Nat} {a : Nat} :
    a ∈ gather fs (ecs.filterMap (findClass s)) ↔
      ∃ c ∈ ecs, ∃ sc, findClass s c = some sc ∧ ∃ f ∈ fs, a ∈ fieldOf f sc := by
  simp only [gather, List.mem_flatMap, List.mem_filterMap]
  constructor
  · rintro ⟨sc, ⟨c, hc, hsc⟩, f, hf, ha⟩
    exact ⟨c, hc, sc, hsc, f, hf, ha⟩
  · rintro ⟨c, hc, sc, hsc, f, hf, ha⟩
    exact ⟨sc, ⟨c, hc, hsc⟩, f, hf, ha⟩

theorem mem_gather_must {s : Schema} {ecs : List Nat} {a : Nat} :
    a ∈ gather mustFields (ecs.filterMap (findClass s)) ↔ Required s ecs a := by
  rw [mem_gather]
  simp only [mustFields, Required, List.mem_cons, List.not_mem_nil, or_false]
  constructor
  · rintro ⟨c, hc, sc, hsc, f, hf, ha⟩
    refine ⟨c, hc, sc, hsc, ?_⟩
    rcases hf with rfl | rfl
    · exact Or.inl ha
    · exact Or.inr ha
  · rintro ⟨c, hc, sc, hsc, ha⟩
    rcases ha with ha | ha
    · exact ⟨c, hc, sc, hsc, .systemmust, Or.inl rfl, ha⟩
    · exact ⟨c, hc, sc, hsc, .must, Or.inr rfl, ha⟩

theorem mem_gather_may {s : Schema} {ecs : List Nat} {a : Nat} :
    a ∈ gather mayFields (ecs.filterMap (findClass s)) ↔ Allowed s ecs a := by
  rw [mem_gather]
  simp only [mayFields, Allowed, List.mem_cons, List.not_mem_nil, or_false]
  constructor
  · rintro ⟨c, hc, sc, hsc, f, hf, ha⟩
    refine ⟨c, hc, sc, hsc, ?_⟩
    rcases hf with rfl | rfl | rfl | rfl
    · exact Or.inl ha
    · exact Or.inr (Or.inl ha)
    · exact Or.inr (Or.inr (Or.inl ha))
    · exact Or.inr (Or.inr (Or.inr ha))
  · rintro ⟨c, hc, sc, hsc, ha⟩
    rcases ha with ha | ha | ha | ha
    · exact ⟨c, hc, sc, hsc, .systemmust, Or.inl rfl, ha⟩
    · exact ⟨c, hc, sc, hsc, .must, Or.inr (Or.inl rfl), ha⟩
    · exact ⟨c, hc, sc, hsc, .systemmay, Or.inr (Or.inr (Or.inl rfl)), ha⟩
    · exact ⟨c, hc, sc, hsc, .may, Or.inr (Or.inr (Or.inr rfl)), ha⟩

theorem mem_gather_supp {s : Schema} {ecs : List Nat} {a : Nat} :
    a ∈ gather supplementsFields (ecs.filterMap (findClass s)) ↔ Supplements s ecs a := by
  rw [mem_gather]
  simp only [supplementsFields, Supplements, List.mem_cons, List.not_mem_nil, or_false]
  constructor
  · rintro ⟨c, hc, sc, hsc, f, hf, ha⟩
    refine ⟨c, hc, sc, hsc, ?_⟩
    rcases hf with rfl | rfl
    · exact Or.inl ha
    · exact Or.inr ha
  · rintro ⟨c, hc, sc, hsc, ha⟩
    rcases ha with ha | ha
    · exact ⟨c, hc, sc, hsc, .systemsupplements, Or.inl rfl, ha⟩
    · exact ⟨c, hc, sc, hsc, .supplements, Or.inr rfl, ha⟩

theorem mem_gather_excl {s : Schema} {ecs : List Nat} {a : Nat} :
    a ∈ gather excludesFields (ecs.filterMap (findClass s)) ↔ Excludes s ecs a := by
  rw [mem_gather]
  simp only [excludesFields, Excludes, List.mem_cons, List.not_mem_nil, or_false]
  constructor
  · rintro ⟨c, hc, sc, hsc, f, hf, ha⟩
    refine ⟨c, hc, sc, hsc, ?_⟩
    rcases hf with rfl | rfl
    · exact Or.inl ha
    · exact Or.inr ha
  · rintro ⟨c, hc, sc, hsc, ha⟩
    rcases ha with ha | ha
    · exact ⟨c, hc, sc, hsc, .systemexcludes, Or.inl rfl, ha⟩
    · exact ⟨c, hc, sc, hsc, .excludes, Or.inr rfl, ha⟩

/-! ## validate_ava -/

theorem validateAva_ok_iff (sa : SAttr) (a : Nat) (ava : Ava) :
    validateAva sa a ava = .ok () ↔ AvaOk sa ava := by
  unfold validateAva AvaOk singleValueViolated avaRequiresSyntaxEq avaRequiresValuesValid
  cases hm : sa.multivalue <;> by_cases hl : ava.vals.length > 1 <;>
    by_cases hs : sa.syn = ava.syn <;> cases hv : ava.vals.all (·.ok) <;>
    simp_all [List.all_eq_true] <;> omega

theorem validateAva_cases (sa : SAttr) (a : Nat) (ava : Ava) :
    validateAva sa a ava = .ok () ∨ validateAva sa a ava = .error (.invalidAttributeSyntax a) := by
  unfold validateAva
  split
  · exact Or.inr rfl
  · split
    · exact Or.inl rfl
    · exact Or.inr rfl

theorem checkAttrsExt_ok_iff (s : Schema) (e : Entry) :
    checkAttrsExt s e = .ok () ↔
      ∀ p ∈ e, ∃ sa, findAttr s p.1 = some sa ∧ sa.phantom = false ∧ AvaOk sa p.2 := by
  induction e with
  | nil => simp [checkAttrsExt]
  | cons p r ih =>
    obtain ⟨a, ava⟩ := p
    simp only [checkAttrsExt, List.mem_cons, forall_eq_or_imp, extensibleRejectsPhantom, Bool.true_and]
    cases hf : findAttr s a with
    | none => simp
    | some sa =>
      cases hp : sa.phantom with
      | true => simp [hp]
      | false =>
        rcases validateAva_cases sa a ava with h | h
        · have := (validateAva_ok_iff sa a ava).1 h
          simp [h, ih, hp, this]
        · have hn : ¬ AvaOk sa ava := fun hk => by
            rw [(validateAva_ok_iff sa a ava).2 hk] at h; cases h
          simp [h, hn, hp]

theorem checkAttrsMay_ok_iff (s : Schema) (may : List Nat) (e : Entry)
    (hdef : ∀ a ∈ may, ∃ sa, findAttr s a = some sa) :
    checkAttrsMay s may e = .ok () ↔
      ∀ p ∈ e, p.1 ∈ may ∧ ∃ sa, findAttr s p.1 = some sa ∧ AvaOk sa p.2 := by
  induction e with
  | nil => simp [checkAttrsMay]
  | cons p r ih =>
    obtain ⟨a, ava⟩ := p
    simp only [checkAttrsMay, List.mem_cons, forall_eq_or_imp, List.contains_iff_mem]
    by_cases hm : a ∈ may
    · obtain ⟨sa, hsa⟩ := hdef a hm
      simp only [hm, if_true, hsa]
      rcases validateAva_cases sa a ava with h | h
      · have := (validateAva_ok_iff sa a ava).1 h
        simp [h, ih, this]
      · have hn : ¬ AvaOk sa ava := fun hk => by
          rw [(validateAva_ok_iff sa a ava).2 hk] at h; cases h
        simp [h, hn]
    · simp [hm]

/-! ## validate = the specification -/

theorem filter_isNone_isEmpty (s : Schema) (ecs : List Nat) :
    (ecs.filter (fun c => (findClass s c).isNone)).isEmpty = true ↔
      ∀ c ∈ ecs, ∃ sc, findClass s c = some sc := by
  rw [List.isEmpty_iff, List.filter_eq_nil_iff]
  constructor
  · intro h c hc
    have := h c hc
    cases hf : findClass s c with
    | none => simp [hf] at this
    | some sc => exact ⟨sc, rfl⟩
  · intro h c hc
    obtain ⟨sc, hsc⟩ := h c hc
    simp [hsc]

theorem any_isNone_false (s : Schema) (l : List Nat) :
    l.any (fun a => (findAttr s a).isNone) = false ↔ ∀ a ∈ l, ∃ sa, findAttr s a = some sa := by
  rw [List.any_eq_false]
  constructor
  · intro h a ha
    have := h a ha
    cases hf : findAttr s a with
    | none => simp [hf] at this
    | some sa => exact ⟨sa, rfl⟩
  · intro h a ha
    obtain ⟨sa, hsa⟩ := h a ha
    simp [hsa]

theorem missing_isEmpty (e : Entry) (l : List Nat) :
    (l.filter (fun a => (getAva e a).isNone)).isEmpty = true ↔
      ∀ a ∈ l, ∃ ava, getAva e a = some ava := by
  rw [List.isEmpty_iff, List.filter_eq_nil_iff]
  constructor
  · intro h a ha
    have := h a ha
    cases hf : getAva e a with
    | none => simp [hf] at this
    | some x => exact ⟨x, rfl⟩
  · intro h a ha
    obtain ⟨x, hx⟩ := h a ha
    simp [hx]

theorem validateBody_ok_iff (s : Schema) (e : Entry) (ecs : List Nat) :
    validateBody s e ecs = .ok () ↔ ConformsBody s e ecs := by
  unfold validateBody
  rw [show recycledFlagClass.atom = cRecycled from rfl,
      show extensibleFlagClass.atom = cExtensible from rfl]
  simp only [supplementsEmptyOk, supplementsQuant, missingMustSoftenedByRecycled, Bool.true_and]
  -- A: classes known
  by_cases hA : ∀ c ∈ ecs, ∃ sc, findClass s c = some sc
  case neg =>
    have : (ecs.filter (fun c => (findClass s c).isNone)).isEmpty = false := by
      cases h : (ecs.filter (fun c => (findClass s c).isNone)).isEmpty with
      | false => rfl
      | true => exact absurd ((filter_isNone_isEmpty s ecs).1 h) hA
    simp only [this, Bool.not_false, if_true]
    constructor
    · intro h; cases h
    · intro h; exact absurd h.classesKnown hA
  have hA' := (filter_isNone_isEmpty s ecs).2 hA
  simp only [hA', Bool.not_true, Bool.false_eq_true, if_false]
  -- B: supplements
  by_cases hB : (∀ d, ¬ Supplements s ecs d) ∨ ∃ d, Supplements s ecs d ∧ d ∈ ecs
  case neg =>
    have : (if (gather supplementsFields (ecs.filterMap (findClass s))).isEmpty = true then true
        else (gather supplementsFields (ecs.filterMap (findClass s))).any (fun c => ecs.contains c)) = false := by
      split
      · rename_i h
        exfalso; apply hB; left
        intro d hd
        have := mem_gather_supp.2 hd
        rw [List.isEmpty_iff] at h
        rw [h] at this; cases this
      · rw [List.any_eq_false]
        intro d hd hc
        apply hB; right
        exact ⟨d, mem_gather_supp.1 hd, by simpa using hc⟩
    simp only [this, Bool.not_false, if_true]
    constructor
    · intro h; cases h
    · intro h; exact absurd h.supplements hB
  have hB' : (if (gather supplementsFields (ecs.filterMap (findClass s))).isEmpty = true then true
        else (gather supplementsFields (ecs.filterMap (findClass s))).any (fun c => ecs.contains c)) = true := by
    split
    · rfl
    · rename_i hne
      rcases hB with h | ⟨d, hd, hin⟩
      · exfalso; apply hne
        rw [List.isEmpty_iff]
        cases hg : gather supplementsFields (ecs.filterMap (findClass s)) with
        | nil => rfl
        | cons x r =>
          exact absurd (mem_gather_supp.1 (by rw [hg]; exact List.mem_cons_self)) (h x)
      · rw [List.any_eq_true]
        exact ⟨d, mem_gather_supp.2 hd, by simpa using hin⟩
  simp only [hB', Bool.not_true, Bool.false_eq_true, if_false]
  -- C: excludes
  by_cases hC : ∀ d, Excludes s ecs d → d ∉ ecs
  case neg =>
    have : ((gather excludesFields (ecs.filterMap (findClass s))).filter (fun c => ecs.contains c)).isEmpty = false := by
      cases h : ((gather excludesFields (ecs.filterMap (findClass s))).filter (fun c => ecs.contains c)).isEmpty with
      | false => rfl
      | true =>
        exfalso; apply hC
        intro d hd hin
        rw [List.isEmpty_iff, List.filter_eq_nil_iff] at h
        exact h d (mem_gather_excl.2 hd) (by simpa using hin)
    simp only [this, Bool.not_false, if_true]
    constructor
    · intro h; cases h
    · intro h; exact absurd h.excludes hC
  have hC' : ((gather excludesFields (ecs.filterMap (findClass s))).filter (fun c => ecs.contains c)).isEmpty = true := by
    rw [List.isEmpty_iff, List.filter_eq_nil_iff]
    intro d hd hin
    exact hC d (mem_gather_excl.1 hd) (by simpa using hin)
  simp only [hC', Bool.not_true, Bool.false_eq_true, if_false]
  -- D: must attributes defined
  by_cases hD : ∀ a, Required s ecs a → ∃ sa, findAttr s a = some sa
  case neg =>
    have : (gather mustFields (ecs.filterMap (findClass s))).any (fun a => (findAttr s a).isNone) = true := by
      cases h : (gather mustFields (ecs.filterMap (findClass s))).any (fun a => (findAttr s a).isNone) with
      | true => rfl
      | false =>
        exfalso; apply hD
        intro a ha
        exact (any_isNone_false s _).1 h a (mem_gather_must.2 ha)
    simp only [this, if_true]
    constructor
    · intro h; cases h
    · intro h; exact absurd h.requiredDefined hD
  have hD' : (gather mustFields (ecs.filterMap (findClass s))).any (fun a => (findAttr s a).isNone) = false :=
    (any_isNone_false s _).2 (fun a ha => hD a (mem_gather_must.1 ha))
  simp only [hD', Bool.false_eq_true, if_false]
  -- E: must attributes present (unless recycled)
  by_cases hE : cRecycled ∈ ecs ∨ ∀ a, Required s ecs a → ∃ ava, getAva e a = some ava
  case neg =>
    have h1 : ecs.contains cRecycled = false := by
      cases h : ecs.contains cRecycled with
      | false => rfl
      | true => exact absurd (Or.inl (by simpa using h)) hE
    have h2 : ((gather mustFields (ecs.filterMap (findClass s))).filter (fun a => (getAva e a).isNone)).isEmpty = false := by
      cases h : ((gather mustFields (ecs.filterMap (findClass s))).filter (fun a => (getAva e a).isNone)).isEmpty with
      | false => rfl
      | true =>
        exfalso; apply hE; right
        intro a ha
        exact (missing_isEmpty e _).1 h a (mem_gather_must.2 ha)
    simp only [h1, h2, Bool.not_false, Bool.and_self, if_true]
    constructor
    · intro h; cases h
    · intro h; exact absurd h.requiredPresent hE
  have hE' : (!((gather mustFields (ecs.filterMap (findClass s))).filter (fun a => (getAva e a).isNone)).isEmpty
      && !(ecs.contains cRecycled)) = false := by
    rcases hE with h | h
    · have : ecs.contains cRecycled = true := by simpa using h
      rw [this]; simp
    · have := (missing_isEmpty e _).2 (fun a ha => h a (mem_gather_must.1 ha))
      simp [this]
  simp only [hE', Bool.false_eq_true, if_false]
  -- F: attributes
  by_cases hX : cExtensible ∈ ecs
  · have : ecs.contains cExtensible = true := by simpa using hX
    simp only [this, if_true]
    rw [checkAttrsExt_ok_iff]
    constructor
    · intro h
      exact ⟨hA, hB, hC, hD, hE, Or.inl ⟨hX, h⟩⟩
    · intro h
      rcases h.attrs with ⟨_, h⟩ | ⟨hn, _⟩
      · exact h
      · exact absurd hX hn
  · have : ecs.contains cExtensible = false := by
      cases h : ecs.contains cExtensible with
      | false => rfl
      | true => exact absurd (by simpa using h) hX
    simp only [this, Bool.false_eq_true, if_false]
    by_cases hM : ∀ a, Allowed s ecs a → ∃ sa, findAttr s a = some sa
    case neg =>
      have : (gather mayFields (ecs.filterMap (findClass s))).any (fun a => (findAttr s a).isNone) = true := by
        cases h : (gather mayFields (ecs.filterMap (findClass s))).any (fun a => (findAttr s a).isNone) with
        | true => rfl
        | false =>
          exfalso; apply hM
          intro a ha
          exact (any_isNone_false s _).1 h a (mem_gather_may.2 ha)
      simp only [this, if_true]
      constructor
      · intro h; cases h
      · intro h
        rcases h.attrs with ⟨hx, _⟩ | ⟨_, h, _⟩
        · exact absurd hx hX
        · exact absurd h hM
    have hM' : (gather mayFields (ecs.filterMap (findClass s))).any (fun a => (findAttr s a).isNone) = false :=
      (any_isNone_false s _).2 (fun a ha => hM a (mem_gather_may.1 ha))
    simp only [hM', Bool.false_eq_true, if_false]
    rw [checkAttrsMay_ok_iff s _ e (fun a ha => hM a (mem_gather_may.1 ha))]
    constructor
    · intro h
      refine ⟨hA, hB, hC, hD, hE, Or.inr ⟨hX, hM, ?_⟩⟩
      intro p hp
      exact ⟨mem_gather_may.1 (h p hp).1, (h p hp).2⟩
    · intro h
      rcases h.attrs with ⟨hx, _⟩ | ⟨_, _, h⟩
      · exact absurd hx hX
      · intro p hp
        exact ⟨mem_gather_may.2 (h p hp).1, (h p hp).2⟩

/-- `validate` accepts exactly the conforming entries -/
theorem validate_ok_iff_conforms (s : Schema) (e : Entry) :
    validate s e = .ok () ↔ Conforms s e := by
  unfold validate Conforms
  cases hcs : classSet e with
  | none => simp
  | some ecs =>
    rw [show exemptClass.atom = cConflict from rfl]
    by_cases hc : cConflict ∈ ecs
    · have : ecs.contains cConflict = true := by simpa using hc
      simp only [this, if_true, true_iff]
      exact ⟨ecs, rfl, Or.inl hc⟩
    · have : ecs.contains cConflict = false := by
        cases h : ecs.contains cConflict with
        | false => rfl
        | true => exact absurd (by simpa using h) hc
      simp only [this, Bool.false_eq_true, if_false, validateBody_ok_iff]
      constructor
      · intro h; exact ⟨ecs, rfl, Or.inr h⟩
      · rintro ⟨ecs', h1, h2⟩
        cases h1
        rcases h2 with h2 | h2
        · exact absurd h2 hc
        · exact h2

end Kanidm.SchemaCheck
