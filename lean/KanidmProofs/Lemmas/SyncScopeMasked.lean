import KanidmProofs.Lemmas.SyncScopeApply
/-
C50: recycled and tombstoned entries — whoever owns them — come out of `scim_sync_apply` exactly as
they went in.
-/
namespace Kanidm.SyncScope
open Kanidm.Access.Write
open Kanidm.Gen.Access
open Kanidm.Gen.SyncScope

/-- a masked entry is left exactly as it is -/
def KeepMasked (e e' : Entry) : Prop := e.masked = true → e' = e

theorem KeepMasked.trans (a b c : Entry) (f : KeepMasked a b) (g : KeepMasked b c) :
    KeepMasked a c := fun h => by
  have h1 := f h
  have h2 := g (by rw [h1]; exact h)
  rw [h2, h1]

/-- no masked entry has one of these uuids -/
def MaskedOut (ids : List Nat) (l : State) : Prop := ∀ e, e ∈ l → e.masked = true → e.uuid ∉ ids

theorem deleteWhere_keepMasked (sch : Schema) (p : Entry → Bool) (st : State) :
    Rel2 KeepMasked st (deleteWhere sch p st) := by
  unfold deleteWhere
  apply Rel2.map_right
  intro x _ hm
  simp [hm]

theorem deleteWhere_maskedOut (sch : Schema) (p : Entry → Bool) (ids : List Nat) (st : State)
    (hp : ∀ e, p e = true → e.uuid ∉ ids) (h : MaskedOut ids st) :
    MaskedOut ids (deleteWhere sch p st) := by
  unfold deleteWhere
  intro e' he' hm'
  obtain ⟨e, he, rfl⟩ := List.mem_map.mp he'
  by_cases h1 : (!e.masked && p e) = true
  · simp only [h1, if_true]
    have := (Bool.and_eq_true _ _).mp h1
    exact hp e this.2
  · have h1' : (!e.masked && p e) = false := by simpa using h1
    simp only [h1'] at hm' ⊢
    by_cases h2 : (!e.masked) = true
    · simp only [h2, if_true] at hm' ⊢
      have : e.masked = true := hm'
      simp [this] at h2
    · have h2' : (!e.masked) = false := by simpa using h2
      simp only [h2'] at hm' ⊢
      exact h e he hm'

theorem extIdPairs_sub (ce : List ScimEntry) (k : Nat) (h : k ∈ (extIdPairs ce).map (·.1)) :
    k ∈ ceIds ce := by
  unfold extIdPairs at h
  obtain ⟨p, hp, rfl⟩ := List.mem_map.mp h
  obtain ⟨s, hs, hsp⟩ := List.mem_filterMap.mp hp
  cases hx : s.extId with
  | none => simp [hx] at hsp
  | some x =>
    simp only [hx, Option.map] at hsp
    injection hsp with hsp
    subst hsp
    exact List.mem_map.mpr ⟨s, hs, rfl⟩

theorem phase2_masked (st out : State) (ce : List ScimEntry) (su : Nat)
    (h : phase2 st ce su = .ok out) :
    ∃ pre' news, out = pre' ++ news ∧ Rel2 KeepMasked st pre' ∧ MaskedOut (ceIds ce) out := by
  unfold phase2 at h
  split at h
  · rename_i hemp
    injection h with h
    subst h
    have : ce = [] := List.isEmpty_iff.mp hemp
    subst this
    exact ⟨st, [], by simp, Rel2.refl (fun _ _ => rfl) _, fun _ _ _ hin => by simp [ceIds] at hin⟩
  · simp only at h
    split at h
    · cases h
    · rename_i hmask
      split at h
      · cases h
      · split at h
        · cases h
        · split at h
          · cases h
          · injection h with h
            subst h
            have hm : ∀ e, e ∈ st → e.masked = true → e.uuid ∉ ceIds ce := by
              intro e he hme hin
              have hm' : (st.any fun e => (ceIds ce).contains e.uuid && e.masked) = false := by
                simpa using hmask
              have := List.any_eq_false.mp hm' e he
              have hc : (ceIds ce).contains e.uuid = true := List.contains_iff_mem.mpr hin
              rw [hc, hme] at this
              exact this rfl
            have hkeep : ∀ e : Entry, e.uuid ∉ ceIds ce →
                (match (extIdPairs ce).lookup e.uuid with
                  | some x => { e with extId := some x }
                  | none => e) = e := by
              intro e hn
              cases hl : (extIdPairs ce).lookup e.uuid with
              | none => rfl
              | some v => exact absurd (extIdPairs_sub ce _ (lookup_some_mem_fst hl)) hn
            rw [List.map_append]
            refine ⟨_, _, rfl, ?_, ?_⟩
            · apply Rel2.map_right
              intro x hx hmx
              exact hkeep x (hm x hx hmx)
            · intro e' he' hm'
              rcases List.mem_append.mp he' with h1 | h1
              · obtain ⟨e, he, rfl⟩ := List.mem_map.mp h1
                cases hl : (extIdPairs ce).lookup e.uuid with
                | none =>
                  simp only [hl] at hm' ⊢
                  exact hm e he hm'
                | some v =>
                  have hme : e.masked = true := by simpa [hl, Entry.masked] using hm'
                  exact absurd (extIdPairs_sub ce _ (lookup_some_mem_fst hl)) (hm e he hme)
              · obtain ⟨y, hy, rfl⟩ := List.mem_map.mp h1
                obtain ⟨u, _, rfl⟩ := List.mem_map.mp hy
                exfalso
                have hlive : ∀ x : Option Nat, ({ stub su u with extId := x } : Entry).masked = false := by
                  intro x; rfl
                cases hl : (extIdPairs ce).lookup (stub su u).uuid with
                | none =>
                  simp only [hl] at hm'
                  have : (stub su u).masked = false := rfl
                  rw [this] at hm'
                  cases hm'
                | some v =>
                  simp only [hl] at hm'
                  have := hlive (some v)
                  rw [this] at hm'
                  cases hm'

theorem applyPlans_keepMasked (sch : Schema) (ps : List Plan) : ∀ (st st' : State),
    (∀ e, e ∈ st → e.masked = true → planFor ps e.uuid = none) →
    applyPlans sch ps st = some st' → Rel2 KeepMasked st st' := by
  intro st
  induction st with
  | nil =>
    intro st' _ h
    simp only [applyPlans] at h
    injection h with h
    subst h
    exact .nil
  | cons e rest ih =>
    intro st' hall h
    simp only [applyPlans] at h
    cases hr : applyPlans sch ps rest with
    | none =>
      simp only [hr] at h
      split at h <;> simp_all
    | some r =>
      simp only [hr] at h
      have ihr := ih r (fun x hx => hall x (List.mem_cons_of_mem _ hx)) hr
      cases hpf : planFor ps e.uuid with
      | none =>
        simp only [hpf] at h
        injection h with h
        subst h
        exact .cons (fun _ => rfl) ihr
      | some p =>
        simp only [hpf] at h
        cases ha : applyPlan sch p e with
        | none => simp [ha] at h
        | some e' =>
          simp only [ha] at h
          injection h with h
          subst h
          refine .cons (fun hm => ?_) ihr
          have := hall e List.mem_cons_self hm
          rw [hpf] at this
          cases this

theorem phase3_keepMasked (sch : Schema) (st st' : State) (ce : List ScimEntry) (su : Nat)
    (auth : List Nat) (hmo : MaskedOut (ceIds ce) st) (h : phase3 sch st ce su auth = .ok st') :
    Rel2 KeepMasked st st' := by
  unfold phase3 at h
  split at h
  · injection h with h
    subst h
    exact Rel2.refl (fun _ _ => rfl) _
  · cases hp : plans sch auth ce with
    | error e => simp [hp] at h
    | ok ps =>
      simp only [hp] at h
      split at h
      · cases h
      · split at h
        · cases h
        · cases ha : applyPlans sch ps st with
          | none => simp [ha] at h
          | some out =>
            simp only [ha] at h
            injection h with h
            subst h
            apply applyPlans_keepMasked sch ps st _ _ ha
            intro e he hm
            cases hpf : planFor ps e.uuid with
            | none => rfl
            | some p =>
              exfalso
              obtain ⟨hmem, hid⟩ := planFor_some hpf
              obtain ⟨s, hs, hem⟩ := plans_ok sch auth ce ps hp p hmem
              obtain ⟨hid', _⟩ := entryToMod_ok sch auth s p hem
              exact hmo e he hm (List.mem_map.mpr ⟨s, hs, by rw [← hid', hid]⟩)

theorem phase4_keepMasked (sch : Schema) (st st' : State) (r : Retention) (su : Nat)
    (h : phase4 sch st r su = .ok st') : Rel2 KeepMasked st st' := by
  unfold phase4 at h
  cases r with
  | ignore =>
    injection h with h
    subst h
    exact Rel2.refl (fun _ _ => rfl) _
  | retain ids =>
    injection h with h
    subst h
    exact deleteWhere_keepMasked _ _ _
  | delete ids =>
    simp only at h
    split at h
    · injection h with h
      subst h
      exact Rel2.refl (fun _ _ => rfl) _
    · split at h
      · cases h
      · injection h with h
        subst h
        exact deleteWhere_keepMasked _ _ _

theorem phase5_keepMasked (st st' : State) (su : Nat) (to : SyncState)
    (h : phase5 st su to = .ok st') : Rel2 KeepMasked st st' := by
  unfold phase5 at h
  split at h
  · cases h
  · injection h with h
    subst h
    apply Rel2.map_right
    intro x _ hm
    simp [hm]

/-- **Recycled and tombstoned entries are never touched**, whoever owns them. -/
theorem apply_keepMasked (sch : Schema) (id : Ident) (st : State) (req : Request) (st' : State)
    (h : apply sch id st req = .ok st') :
    ∃ pre' news, st' = pre' ++ news ∧ Rel2 KeepMasked st pre' := by
  unfold apply at h
  cases h1 : phase1 id st req with
  | error e => simp [h1] at h
  | ok p1 =>
    simp only [h1] at h
    cases h2 : phase2 st p1.ce p1.syncUuid with
    | error e => simp [h2] at h
    | ok out2 =>
      simp only [h2] at h
      cases hc : (if p1.refresh then refreshCleanup sch out2 p1.ce p1.syncUuid else .ok out2) with
      | error e => simp [hc] at h
      | ok out2c =>
        simp only [hc] at h
        cases h3 : phase3 sch out2c p1.ce p1.syncUuid p1.authority with
        | error e => simp [h3] at h
        | ok out3 =>
          simp only [h3] at h
          cases h4 : phase4 sch out3 req.retain p1.syncUuid with
          | error e => simp [h4] at h
          | ok out4 =>
            simp only [h4] at h
            obtain ⟨pre2, news2, he2, r2, mo2⟩ := phase2_masked st out2 p1.ce p1.syncUuid h2
            have hcl : Rel2 KeepMasked out2 out2c ∧ MaskedOut (ceIds p1.ce) out2c := by
              by_cases hr : p1.refresh = true
              · simp only [hr, if_true] at hc
                unfold refreshCleanup at hc
                injection hc with hc
                subst hc
                refine ⟨deleteWhere_keepMasked _ _ _, deleteWhere_maskedOut _ _ _ _ ?_ mo2⟩
                intro e he
                have := (Bool.and_eq_true _ _).mp he
                have h2 : (ceIds p1.ce).contains e.uuid = false := by simpa using this.2
                intro hin
                rw [List.contains_iff_mem.mpr hin] at h2
                cases h2
              · have hr' : p1.refresh = false := by simpa using hr
                simp only [hr'] at hc
                injection hc with hc
                subst hc
                exact ⟨Rel2.refl (fun _ _ => rfl) _, mo2⟩
            have r3 := phase3_keepMasked sch out2c out3 p1.ce p1.syncUuid p1.authority hcl.2 h3
            have r4 := phase4_keepMasked sch out3 out4 req.retain p1.syncUuid h4
            have r5 := phase5_keepMasked out4 st' p1.syncUuid req.toState h
            have rall : Rel2 KeepMasked out2 st' :=
              Rel2.trans KeepMasked.trans (Rel2.trans KeepMasked.trans
                (Rel2.trans KeepMasked.trans hcl.1 r3) r4) r5
            rw [he2] at rall
            obtain ⟨pa, pb, hsplit, ra, _⟩ := Rel2.split_append rall
            exact ⟨pa, pb, hsplit, Rel2.trans KeepMasked.trans r2 ra⟩

end Kanidm.SyncScope
