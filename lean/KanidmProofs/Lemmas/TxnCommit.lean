import KanidmModel.TxnCommit
/-! Helper lemmas for C04 (generic in the step list). -/
namespace Kanidm.TxnCommit
open Kanidm.Gen.CommitOrder

theorem St.ext' {s t : St} (hc : ∀ c, s.cells c = t.cells c) (hd : s.db = t.db) : s = t := by
  cases s; cases t
  simp only [St.mk.injEq]
  exact ⟨funext hc, hd⟩

theorem Cell.mem_all (c : Cell) : c ∈ Cell.all := by
  cases c <;> decide

/-! ### operations only touch pending copies -/

theorem applyOp_committed (s : St) (o : Op) :
    (∀ c, ((applyOp s o).cells c).committed = (s.cells c).committed) ∧
    (applyOp s o).db.committed = s.db.committed := by
  cases o with
  | stage c v =>
    refine ⟨fun d => ?_, rfl⟩
    simp only [applyOp]
    split <;> rfl
  | dbStage v => exact ⟨fun _ => rfl, rfl⟩

theorem applyOps_committed (ops : List Op) : ∀ (s : St),
    (∀ c, ((applyOps s ops).cells c).committed = (s.cells c).committed) ∧
    (applyOps s ops).db.committed = s.db.committed := by
  induction ops with
  | nil => intro s; exact ⟨fun _ => rfl, rfl⟩
  | cons o rest ih =>
    intro s
    have h1 := applyOp_committed s o
    have h2 := ih (applyOp s o)
    refine ⟨fun c => ?_, ?_⟩
    · show ((applyOps (applyOp s o) rest).cells c).committed = _
      rw [h2.1 c, h1.1 c]
    · show (applyOps (applyOp s o) rest).db.committed = _
      rw [h2.2, h1.2]

theorem dropTxn_of_committed_eq {s t : St} (hs : Clean s)
    (hc : ∀ c, (t.cells c).committed = (s.cells c).committed)
    (hd : t.db.committed = s.db.committed) : dropTxn t = s := by
  apply St.ext'
  · intro c
    show (t.cells c).discard = s.cells c
    have := hs.1 c
    cases h : s.cells c with
    | mk cm pd =>
      rw [h] at this
      simp only [CellSt.discard, hc c, h]
      simp only at this
      rw [this]
  · show t.db.discard = s.db
    have := hs.2
    cases h : s.db with
    | mk cm pd =>
      rw [h] at this
      simp only [CellSt.discard, hd, h]
      simp only at this
      rw [this]

theorem dropTxn_clean (s : St) : Clean (dropTxn s) := ⟨fun _ => rfl, rfl⟩

/-! ### runSteps = execute a prefix -/

theorem runSteps_eq (steps : List CStep) : ∀ (i : Nat) (fail : Option Nat) (s : St),
    runSteps steps i fail s = (applyAll (steps.take (execCount steps i fail)) s, okOf steps i fail) := by
  induction steps with
  | nil => intro i fail s; rfl
  | cons st rest ih =>
    intro i fail s
    simp only [runSteps, execCount, okOf]
    split
    · rfl
    · rw [ih]
      rfl

theorem okOf_of_all_infallible (steps : List CStep) (h : steps.all (fun r => !r.fallible) = true) :
    ∀ i fail, okOf steps i fail = true := by
  induction steps with
  | nil => intro i fail; rfl
  | cons st rest ih =>
    intro i fail
    simp only [List.all_cons, Bool.and_eq_true, Bool.not_eq_true'] at h
    simp only [okOf, h.1, Bool.false_and, Bool.false_eq_true, if_false]
    exact ih h.2 _ _

theorem okOf_true_execCount (steps : List CStep) : ∀ i fail, okOf steps i fail = true →
    execCount steps i fail = steps.length := by
  induction steps with
  | nil => intro i fail _; rfl
  | cons st rest ih =>
    intro i fail h
    simp only [okOf] at h
    simp only [execCount]
    split at h
    · cases h
    · rename_i hc
      rw [if_neg hc, ih _ _ h, List.length_cons]

/-- A failing commit executed exactly the steps before the failing index. -/
theorem okOf_false_execCount (steps : List CStep) : ∀ i j, okOf steps i (some j) = false →
    i ≤ j ∧ execCount steps i (some j) = j - i := by
  induction steps with
  | nil => intro i j h; cases h
  | cons st rest ih =>
    intro i j h
    simp only [okOf] at h
    simp only [execCount]
    split at h
    · rename_i hc
      simp only [Bool.and_eq_true, beq_iff_eq, Option.some.injEq] at hc
      simp only [hc, Bool.true_and, beq_self_eq_true, and_self, if_true]
      omega
    · rename_i hc
      have := ih (i + 1) j h
      rw [if_neg hc]
      omega

/-! ### what a list of steps publishes -/

theorem applyKind_nopublish (st : CStep) (h : publishes st = false) (s : St) : applyKind st.kind s = s := by
  cases hk : st.kind <;> simp_all [publishes, applyKind]

theorem applyAll_nopublish (steps : List CStep) (h : ∀ st ∈ steps, publishes st = false) :
    ∀ s, applyAll steps s = s := by
  induction steps with
  | nil => intro s; rfl
  | cons st rest ih =>
    intro s
    show applyAll rest (applyKind st.kind s) = s
    rw [applyKind_nopublish st (h st (List.mem_cons_self ..))]
    exact ih (fun x hx => h x (List.mem_cons_of_mem _ hx)) s

theorem take_firstPublish_nopublish (steps : List CStep) : ∀ k, k ≤ firstPublish steps →
    ∀ st ∈ steps.take k, publishes st = false := by
  induction steps with
  | nil => intro k _ st h; simp at h
  | cons x rest ih =>
    intro k hk st h
    cases k with
    | zero => simp at h
    | succ k =>
      simp only [firstPublish] at hk
      split at hk
      · omega
      · rename_i hx
        simp only [List.take_succ_cons, List.mem_cons] at h
        rcases h with h | h
        · subst h; simpa using hx
        · exact ih k (by omega) st h

theorem CellSt.publish_publish (x : CellSt) : x.publish.publish = x.publish := by
  cases x with
  | mk c p => cases p <;> rfl

/-- Committed value of a cell after executing `steps`. -/
theorem applyAll_cell (steps : List CStep) : ∀ (s : St) (c : Cell),
    (applyAll steps s).cells c =
      if c ∈ publishedCells steps then (s.cells c).publish else s.cells c := by
  induction steps with
  | nil => intro s c; simp [applyAll, publishedCells]
  | cons st rest ih =>
    intro s c
    show (applyAll rest (applyKind st.kind s)).cells c = _
    rw [ih]
    cases hk : st.kind with
    | publish d =>
      simp only [publishedCells, hk, applyKind, List.mem_cons]
      by_cases hcd : c = d
      · subst hcd
        simp only [if_true, true_or, CellSt.publish_publish]
        split <;> rfl
      · simp only [hcd, if_false, false_or]
    | stage => simp only [publishedCells, hk, applyKind]
    | dbWrite => simp only [publishedCells, hk, applyKind]
    | dbCommit => simp only [publishedCells, hk, applyKind]
    | call l => simp only [publishedCells, hk, applyKind]

theorem applyAll_db (steps : List CStep) : ∀ (s : St),
    (applyAll steps s).db = if steps.any isDbCommit then s.db.publish else s.db := by
  induction steps with
  | nil => intro s; simp [applyAll]
  | cons st rest ih =>
    intro s
    show (applyAll rest (applyKind st.kind s)).db = _
    rw [ih]
    cases hk : st.kind with
    | dbCommit =>
      simp only [applyKind, List.any_cons, isDbCommit, hk, Bool.true_or, if_true, CellSt.publish_publish]
      split <;> rfl
    | publish d => simp only [applyKind, List.any_cons, isDbCommit, hk, Bool.false_or]
    | stage => simp only [applyKind, List.any_cons, isDbCommit, hk, Bool.false_or]
    | dbWrite => simp only [applyKind, List.any_cons, isDbCommit, hk, Bool.false_or]
    | call l => simp only [applyKind, List.any_cons, isDbCommit, hk, Bool.false_or]

/-! ### order predicates -/

/-- In a safe order a failing commit has executed no publishing step. -/
theorem ordered_fail_nopublish (steps : List CStep) (ho : Ordered steps = true) : ∀ i fail,
    okOf steps i fail = false → ∀ st ∈ steps.take (execCount steps i fail), publishes st = false := by
  induction steps with
  | nil => intro i fail h; cases h
  | cons x rest ih =>
    intro i fail h st hst
    simp only [Ordered, Bool.and_eq_true] at ho
    simp only [okOf] at h
    simp only [execCount] at hst
    split at h
    · rename_i hc
      simp [hc] at hst
    · rename_i hc
      rw [if_neg hc, List.take_succ_cons, List.mem_cons] at hst
      have hx : publishes x = false := by
        cases hp : publishes x with
        | false => rfl
        | true =>
          have := ho.1
          simp only [hp, if_true] at this
          rw [okOf_of_all_infallible rest this] at h
          cases h
      rcases hst with hst | hst
      · subst hst; exact hx
      · exact ih ho.2 _ _ h st hst

/-- If nothing can fail after the SQLite commit, a failing commit never reached it. -/
theorem fail_no_dbCommit (steps : List CStep) (ho : noFallibleAfterDbCommit steps = true) : ∀ i fail,
    okOf steps i fail = false → (steps.take (execCount steps i fail)).any isDbCommit = false := by
  induction steps with
  | nil => intro i fail h; cases h
  | cons x rest ih =>
    intro i fail h
    simp only [noFallibleAfterDbCommit, Bool.and_eq_true] at ho
    simp only [okOf] at h
    simp only [execCount]
    split at h
    · rename_i hc
      simp [hc]
    · rename_i hc
      rw [if_neg hc, List.take_succ_cons, List.any_cons, Bool.or_eq_false_iff]
      refine ⟨?_, ih ho.2 _ _ h⟩
      cases hp : isDbCommit x with
      | false => rfl
      | true =>
        have := ho.1
        simp only [hp, if_true] at this
        rw [okOf_of_all_infallible rest this] at h
        cases h

end Kanidm.TxnCommit
