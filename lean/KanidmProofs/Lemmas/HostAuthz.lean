import KanidmModel.HostAuthz
/-!
Helper lemmas for C45 (`KanidmProofs/C45.lean`): the duplicate-free-list reading of `BTreeSet`,
and the declarative membership predicate of the property text.
-/
namespace Kanidm.HostAuthz
open Kanidm.Gen.HostAuthz

theorem mem_dedup (x : Nat) (l : List Nat) : x ∈ dedup l ↔ x ∈ l := by
  induction l with
  | nil => simp [dedup]
  | cons y ys ih =>
    by_cases h : y ∈ ys
    · simp only [dedup, List.contains_iff_mem, h, if_true, ih, List.mem_cons]
      constructor
      · intro hx; exact Or.inr hx
      · intro hx
        rcases hx with rfl | hx
        · exact h
        · exact hx
    · simp only [dedup, List.contains_iff_mem, h, if_false, List.mem_cons, ih]

theorem dedup_eq_nil (l : List Nat) : dedup l = [] ↔ l = [] := by
  constructor
  · intro h
    cases l with
    | nil => rfl
    | cons y ys =>
      have : y ∈ dedup (y :: ys) := (mem_dedup y (y :: ys)).mpr (by simp)
      rw [h] at this
      simp at this
  · intro h; subst h; rfl

/-- **The property's membership clause**, declaratively: some group of the record is named in
the allowed-login list by its name or by its uuid. -/
def Member (allow : List Nat) (t : UserTok) : Prop :=
  ∃ g ∈ t.groups, g.name ∈ allow ∨ g.uuid ∈ allow

instance (allow : List Nat) (t : UserTok) : Decidable (Member allow t) := by
  unfold Member; infer_instance

theorem mem_userSet (x : Nat) (t : UserTok) :
    x ∈ userSet t ↔ ∃ g ∈ t.groups, x ∈ groupKeys g.name g.uuid := by
  simp [userSet, mem_dedup, List.mem_flatMap]

theorem intersectionCount_pos (allow : List Nat) (t : UserTok) :
    0 < intersectionCount allow t ↔ ∃ x, x ∈ userSet t ∧ x ∈ allow := by
  unfold intersectionCount
  rw [List.length_pos_iff_exists_mem]
  constructor
  · rintro ⟨x, hx⟩
    rw [List.mem_filter] at hx
    refine ⟨x, hx.1, ?_⟩
    have := hx.2
    simp only [List.contains_iff_mem] at this
    exact (mem_dedup x allow).mp this
  · rintro ⟨x, h1, h2⟩
    refine ⟨x, ?_⟩
    rw [List.mem_filter]
    refine ⟨h1, ?_⟩
    simp only [List.contains_iff_mem]
    exact (mem_dedup x allow).mpr h2

/-- The set intersection of the code is non-empty exactly when the declarative clause holds
(depends on the generated `groupKeys`: which fields of a group are compared). -/
theorem inter_iff_member (allow : List Nat) (t : UserTok) :
    (∃ x, x ∈ userSet t ∧ x ∈ allow) ↔ Member allow t := by
  simp only [mem_userSet, groupKeys, Member]
  constructor
  · rintro ⟨x, ⟨g, hg, hx⟩, ha⟩
    simp only [List.mem_cons, List.not_mem_nil, or_false] at hx
    rcases hx with rfl | rfl
    · exact ⟨g, hg, Or.inl ha⟩
    · exact ⟨g, hg, Or.inr ha⟩
  · rintro ⟨g, hg, h | h⟩
    · exact ⟨g.name, ⟨g, hg, by simp⟩, h⟩
    · exact ⟨g.uuid, ⟨g, hg, by simp⟩, h⟩

theorem dedup_isEmpty (l : List Nat) : (dedup l).isEmpty = l.isEmpty := by
  cases l with
  | nil => rfl
  | cons y ys =>
    cases h : dedup (y :: ys) with
    | nil => exact absurd ((dedup_eq_nil _).mp h) (by simp)
    | cons _ _ => rfl

/-! ## The cache as a finite map -/

theorem cacheGet_nil (j : Nat) : cacheGet [] j = none := rfl

theorem cacheGet_cons (k : Nat) (e : Entry) (c : List (Nat × Entry)) (j : Nat) :
    cacheGet ((k, e) :: c) j = if k = j then some e else cacheGet c j := by
  unfold cacheGet
  by_cases h : k = j
  · simp [List.find?, h]
  · have hb : (k == j) = false := by simp [h]
    simp [List.find?, hb, h]

theorem cacheGet_erase (c : List (Nat × Entry)) (id j : Nat) :
    cacheGet (cacheErase c id) j = if j = id then none else cacheGet c j := by
  induction c with
  | nil => simp [cacheErase, cacheGet_nil]
  | cons p c ih =>
    obtain ⟨k, e⟩ := p
    unfold cacheErase at ih ⊢
    by_cases hk : k = id
    · subst hk
      simp only [List.filter, bne_self_eq_false, ih, cacheGet_cons]
      by_cases hj : j = k
      · simp [hj]
      · have : ¬ k = j := fun h => hj h.symm
        simp [hj, this]
    · have : (k != id) = true := by simp [hk]
      simp only [List.filter, this, cacheGet_cons, ih]
      by_cases hj : j = id
      · subst hj
        have : ¬ k = j := hk
        simp [this]
      · simp [hj]

theorem cacheGet_put (c : List (Nat × Entry)) (id : Nat) (e : Entry) (j : Nat) :
    cacheGet (cachePut c id e) j = if j = id then some e else cacheGet c j := by
  unfold cachePut
  rw [cacheGet_cons, cacheGet_erase]
  by_cases h : j = id
  · simp [h]
  · have : ¬ id = j := fun h' => h h'.symm
    simp [h, this]

theorem cacheGet_map_expire (c : List (Nat × Entry)) (j : Nat) :
    cacheGet (c.map (fun (i, e) => (i, { e with expired := true }))) j =
      (cacheGet c j).map (fun e => { e with expired := true }) := by
  induction c with
  | nil => rfl
  | cons p c ih =>
    obtain ⟨k, e⟩ := p
    simp only [List.map, cacheGet_cons, ih]
    by_cases h : k = j <;> simp [h]

/-! ## Which record is judged -/

theorem unixUserGet_cases (w : World) (net : Net) (id : Nat) :
    (∃ n gs v, w.dir id = .tok gs v ∧ unixUserGet w net id = (n, .update, some ⟨true, gs, v⟩)) ∨
    (∃ n r, r ≠ .update ∧ unixUserGet w net id = (n, r, none)) := by
  unfold unixUserGet
  cases hc : checkOnline w net with
  | mk n b =>
    cases b with
    | false => right; exact ⟨n, offlineState, by simp [offlineState], rfl⟩
    | true =>
      cases hd : w.dir id with
      | tok gs v => left; exact ⟨n, gs, v, rfl, rfl⟩
      | other r =>
        right
        refine ⟨_, replyState r, ?_, rfl⟩
        cases r <;> simp [replyState]

theorem refresh_spec (w : World) (st : St) (id : Nat) :
    ((refreshUsertoken w st id).2 = none ∨
     ((refreshUsertoken w st id).2 = (getCached st id).2 ∧ (refreshUsertoken w st id).1.cache = st.cache) ∨
     (∃ gs v, w.dir id = .tok gs v ∧ (refreshUsertoken w st id).2 = some ⟨true, gs, v⟩ ∧
        (refreshUsertoken w st id).1.cache = cachePut st.cache id ⟨⟨true, gs, v⟩, false⟩)) ∧
    ((refreshUsertoken w st id).2 = none →
       (refreshUsertoken w st id).1.cache = st.cache ∨ (refreshUsertoken w st id).1.cache = cacheErase st.cache id) := by
  rcases unixUserGet_cases w st.net id with ⟨n, gs, v, hd, hu⟩ | ⟨n, r, hr, hu⟩
  · cases hcached : (getCached st id).2 with
    | none =>
      have : refreshUsertoken w st id =
          ({ net := n, cache := cachePut st.cache id ⟨⟨true, gs, v⟩, false⟩, nx := st.nx }, some ⟨true, gs, v⟩) := by
        simp [refreshUsertoken, hcached, hu, refreshAction]
      rw [this]
      exact ⟨Or.inr (Or.inr ⟨gs, v, hd, rfl, rfl⟩), by simp⟩
    | some t =>
      by_cases hk : t.known = true
      · have : refreshUsertoken w st id =
            ({ net := n, cache := cachePut st.cache id ⟨⟨true, gs, v⟩, false⟩, nx := st.nx }, some ⟨true, gs, v⟩) := by
          simp [refreshUsertoken, hcached, hu, refreshAction, hk]
        rw [this]
        exact ⟨Or.inr (Or.inr ⟨gs, v, hd, rfl, rfl⟩), by simp⟩
      · have : refreshUsertoken w st id =
            ({ net := st.net, cache := cacheErase st.cache id, nx := id :: st.nx }, none) := by
          simp [refreshUsertoken, hcached, refreshAction, hk]
        rw [this]
        exact ⟨Or.inl rfl, fun _ => Or.inr rfl⟩
  · cases hcached : (getCached st id).2 with
    | none => cases r <;> simp_all [refreshUsertoken, refreshAction]
    | some t =>
      by_cases hk : t.known = true
      · cases r <;> simp_all [refreshUsertoken, refreshAction]
      · simp [refreshUsertoken, hcached, hk, refreshAction]

theorem getCached_some (st : St) (id : Nat) (t : UserTok) (h : (getCached st id).2 = some t) :
    ∃ e, cacheGet st.cache id = some e ∧ e.tok = t := by
  unfold getCached at h
  by_cases hn : id ∈ st.nx
  · simp [hn] at h
  · cases hc : cacheGet st.cache id with
    | none => simp [hn, hc] at h
    | some e =>
      simp only [List.contains_iff_mem, hn, hc, if_false] at h
      exact ⟨e, rfl, by simpa using h⟩

/-- Which record `get_usertoken` hands to the decision, and what it leaves in the cache. -/
theorem getUsertoken_spec (w : World) (st : St) (id : Nat) :
    ((getUsertoken w st id).2 = none ∨
     (∃ e, cacheGet st.cache id = some e ∧ (getUsertoken w st id).2 = some e.tok) ∨
     (∃ gs v, w.dir id = .tok gs v ∧ (getUsertoken w st id).2 = some ⟨true, gs, v⟩)) ∧
    (∀ j e, cacheGet (getUsertoken w st id).1.cache j = some e →
      cacheGet st.cache j = some e ∨
      (j = id ∧ ∃ gs v, w.dir id = .tok gs v ∧ e = ⟨⟨true, gs, v⟩, false⟩)) := by
  have hval : ∀ o : Option UserTok, o = (getCached st id).2 →
      (o = none ∨ (∃ e, cacheGet st.cache id = some e ∧ o = some e.tok)) := by
    intro o ho
    cases o with
    | none => exact Or.inl rfl
    | some t =>
      obtain ⟨e, h1, h2⟩ := getCached_some st id t ho.symm
      exact Or.inr ⟨e, h1, by rw [h2]⟩
  unfold getUsertoken
  cases hg : getCached st id with
  | mk ex item =>
    cases ex with
    | valid =>
      refine ⟨?_, fun j e h => Or.inl h⟩
      rcases hval item (by rw [hg]) with h | h
      · exact Or.inl h
      · exact Or.inr (Or.inl h)
    | expired =>
      obtain ⟨h1, h2⟩ := refresh_spec w st id
      refine ⟨?_, ?_⟩
      · rcases h1 with h | ⟨h, _⟩ | ⟨gs, v, hd, h, _⟩
        · exact Or.inl h
        · rcases hval _ h with h' | h'
          · exact Or.inl h'
          · exact Or.inr (Or.inl h')
        · exact Or.inr (Or.inr ⟨gs, v, hd, h⟩)
      · intro j e he
        rcases h1 with h | ⟨_, hc⟩ | ⟨gs, v, hd, _, hc⟩
        · rcases h2 h with hc | hc
          · rw [hc] at he; exact Or.inl he
          · rw [hc, cacheGet_erase] at he
            by_cases hj : j = id
            · simp [hj] at he
            · simp only [hj, if_false] at he; exact Or.inl he
        · rw [hc] at he; exact Or.inl he
        · rw [hc, cacheGet_put] at he
          by_cases hj : j = id
          · simp only [hj, if_true, Option.some.injEq] at he
            exact Or.inr ⟨hj, gs, v, hd, he.symm⟩
          · simp only [hj, if_false] at he; exact Or.inl he

/-! ## Histories -/

/-- A record of account `id` that existed at some point of a history: a row seeded into the cache
database, or a token the directory published for that account. -/
def Published (hist : List Op) (id : Nat) (t : UserTok) : Prop :=
  (∃ e, Op.seed id e ∈ hist ∧ e.tok = t) ∨
  (∃ gs v, Op.setDir id (.tok gs v) ∈ hist ∧ t = ⟨true, gs, v⟩)

theorem Published.mono {hist : List Op} {id : Nat} {t : UserTok} (more : List Op)
    (h : Published hist id t) : Published (hist ++ more) id t := by
  rcases h with ⟨e, h1, h2⟩ | ⟨gs, v, h1, h2⟩
  · exact Or.inl ⟨e, List.mem_append_left _ h1, h2⟩
  · exact Or.inr ⟨gs, v, List.mem_append_left _ h1, h2⟩

/-- Invariant of every reachable state: cache rows and directory tokens have a source in the history. -/
def Inv (hist : List Op) (w : World) (st : St) : Prop :=
  (∀ id e, cacheGet st.cache id = some e → Published hist id e.tok) ∧
  (∀ id gs v, w.dir id = .tok gs v → Op.setDir id (.tok gs v) ∈ hist)

theorem pam_state (cfg : Cfg) (w : World) (st : St) (id : Nat) :
    (pamAccountAllowed cfg w st id).1 = st ∨ (pamAccountAllowed cfg w st id).1 = (getUsertoken w st id).1 := by
  unfold pamAccountAllowed
  cases sysAuthorise cfg.sys id with
  | some a => exact Or.inl rfl
  | none =>
    right
    cases hg : getUsertoken w st id with
    | mk st' tok =>
      cases tok with
      | none => rfl
      | some t => by_cases hk : t.known = true <;> simp [hk]

theorem step_inv (cfg : Cfg) (hist : List Op) (w : World) (st : St) (op : Op) (h : Inv hist w st) :
    Inv (hist ++ [op]) (step cfg w st op).1 (step cfg w st op).2.1 := by
  obtain ⟨hc, hd⟩ := h
  have hc' : ∀ id e, cacheGet st.cache id = some e → Published (hist ++ [op]) id e.tok :=
    fun id e he => (hc id e he).mono _
  have hd' : ∀ id gs v, w.dir id = .tok gs v → Op.setDir id (.tok gs v) ∈ hist ++ [op] :=
    fun id gs v he => List.mem_append_left _ (hd id gs v he)
  cases op with
  | setDir i d =>
    refine ⟨hc', ?_⟩
    intro j gs v hj
    simp only [step, World.set] at hj
    by_cases hji : j = i
    · simp only [hji, if_true] at hj
      subst hj; subst hji
      simp
    · simp only [hji, if_false] at hj
      exact hd' j gs v hj
  | setSelf b => exact ⟨hc', hd'⟩
  | invalidate =>
    refine ⟨?_, hd'⟩
    intro j e he
    simp only [step, invalidate, cacheGet_map_expire] at he
    cases hg : cacheGet st.cache j with
    | none => simp [hg] at he
    | some e0 =>
      simp only [hg, Option.map_some, Option.some.injEq] at he
      have := hc' j e0 hg
      rw [← he]; exact this
  | markOffline => exact ⟨hc', hd'⟩
  | markNextCheck => exact ⟨hc', hd'⟩
  | seed i e0 =>
    refine ⟨?_, hd'⟩
    intro j e he
    simp only [step, cacheGet_put] at he
    by_cases hji : j = i
    · simp only [hji, if_true, Option.some.injEq] at he
      subst he; subst hji
      exact Or.inl ⟨e0, by simp, rfl⟩
    · simp only [hji, if_false] at he
      exact hc' j e he
  | query i =>
    refine ⟨?_, hd'⟩
    intro j e he
    have hst : (step cfg w st (.query i)).2.1 = (pamAccountAllowed cfg w st i).1 := rfl
    rw [hst] at he
    rcases pam_state cfg w st i with hs | hs
    · rw [hs] at he; exact hc' j e he
    · rw [hs] at he
      rcases (getUsertoken_spec w st i).2 j e he with h1 | ⟨hji, gs, v, hdi, hev⟩
      · exact hc' j e h1
      · subst hev; subst hji
        exact Or.inr ⟨gs, v, hd' j gs v hdi, rfl⟩

end Kanidm.HostAuthz
