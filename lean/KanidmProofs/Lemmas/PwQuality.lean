import KanidmModel.PwQuality
import KanidmProofs.Lemmas.AccountPolicy
/-!
Helper lemmas for C31: what the regenerated comparisons guarantee when they do not fire, the
first-objection fold, UTF-8 length, the session invariant, and `lowerGreek` on sigma-free text.
-/
namespace Kanidm.PwQuality
open Kanidm.Gen.PwQuality
open Kanidm.AccountPolicy (Resolved AccountPolicy foldFrom)

/-! ## The regenerated comparisons (soundness direction only: what *not firing* guarantees) -/

theorem cu_short_sound (g b mn mx : Nat) (h : cuTooShort g b mn mx = false) : mn ≤ g := by
  simp only [cuTooShort, decide_eq_false_iff_not] at h; omega

theorem cu_long_sound (g b mn mx : Nat) (h : cuTooLong g b mn mx = false) : g ≤ mx := by
  simp only [cuTooLong, decide_eq_false_iff_not] at h; omega

theorem posix_short_sound (g b mn mx : Nat) (h : posixTooShort g b mn mx = false) :
    mn ≤ g ∧ pwSfaMin ≤ g := by
  simp only [posixTooShort, decide_eq_false_iff_not, pwSfaMin] at h ⊢; omega

theorem posix_long_sound (g b mn mx : Nat) (h : posixTooLong g b mn mx = false) : b ≤ pwMaxNist := by
  simp only [posixTooLong, decide_eq_false_iff_not, pwMaxNist] at h ⊢; omega

theorem cu_weak_sound (s : Nat) (h : cuWeak s = false) : 4 ≤ s := by
  simp only [cuWeak, decide_eq_false_iff_not] at h; omega

theorem posix_weak_sound (s : Nat) (h : posixWeak s = false) : 4 ≤ s := by
  simp only [posixWeak, decide_eq_false_iff_not] at h; omega

/-! ## First objection -/

theorem firstReject_none {gates : List Nat} {g : Nat → Option Reject}
    (h : firstReject gates g = none) : ∀ c ∈ gates, g c = none := by
  induction gates with
  | nil => intro c hc; cases hc
  | cons a t ih =>
    intro c hc
    unfold firstReject at h
    cases hga : g a with
    | some r => rw [hga] at h; cases h
    | none =>
      rw [hga] at h
      rcases List.mem_cons.mp hc with rfl | hc'
      · exact hga
      · exact ih h c hc'

theorem firstReject_some {gates : List Nat} {g : Nat → Option Reject} {r : Reject}
    (h : firstReject gates g = some r) : ∃ c ∈ gates, g c = some r := by
  induction gates with
  | nil => simp [firstReject] at h
  | cons a t ih =>
    unfold firstReject at h
    cases hga : g a with
    | some r' =>
      rw [hga] at h
      exact ⟨a, List.mem_cons_self, by rw [hga]; exact h⟩
    | none =>
      rw [hga] at h
      obtain ⟨c, hc, hgc⟩ := ih h
      exact ⟨c, List.mem_cons_of_mem _ hc, hgc⟩

/-! ## Per-gate consequences -/

theorem lengthGate_none {short long : Nat → Nat → Nat → Nat → Bool} {sr lr : Nat → Nat → Nat}
    {pol : Resolved} {i : Input} (h : lengthGate short long sr lr pol i = none) :
    short i.graphemes (utf8Len i.text) pol.pwMinLength pol.pwMaxLength = false ∧
    long i.graphemes (utf8Len i.text) pol.pwMinLength pol.pwMaxLength = false := by
  unfold lengthGate at h
  split at h
  · cases h
  · rename_i h1
    split at h
    · cases h
    · rename_i h2
      exact ⟨by simpa using h1, by simpa using h2⟩

theorem radiusGate_none {ctx : Ctx} {i : Input} (h : radiusGate ctx i = none) :
    ∀ r, ctx.radius = some r → containsSub i.text r = false := by
  intro r hr
  unfold radiusGate at h
  rw [hr] at h
  simp only at h
  split at h
  · cases h
  · rename_i hc; simpa using hc

theorem relatedGate_none {ctx : Ctx} {i : Input} (h : relatedGate ctx i = none) :
    ∀ r ∈ ctx.related, containsSub i.text r = false := by
  intro r hr
  unfold relatedGate at h
  split at h
  · cases h
  · rename_i hc
    simp only [Bool.not_eq_true, List.any_eq_false] at hc
    simpa using hc r hr

theorem scoreGate_none {weak : Nat → Bool} {i : Input} (h : scoreGate weak i = none) :
    weak i.score = false := by
  unfold scoreGate at h
  split at h
  · cases h
  · rename_i hc; simpa using hc

theorem badlistGate_none {lowered : Bool} {lower : List Nat → List Nat} {ctx : Ctx} {i : Input}
    (h : badlistGate lowered lower ctx i = none) : lookupKey lowered lower i.text ∉ ctx.badlist := by
  unfold badlistGate at h
  split at h
  · cases h
  · rename_i hc
    intro hm
    exact hc (List.contains_iff_mem.mpr hm)

theorem cuGate_zero (lower ctx pol i) :
    cuGate lower ctx pol i 0 = lengthGate cuTooShort cuTooLong cuShortReport cuLongReport pol i := rfl
theorem cuGate_one (lower ctx pol i) : cuGate lower ctx pol i 1 = radiusGate ctx i := rfl
theorem cuGate_two (lower ctx pol i) : cuGate lower ctx pol i 2 = relatedGate ctx i := rfl
theorem cuGate_three (lower ctx pol i) : cuGate lower ctx pol i 3 = scoreGate cuWeak i := rfl
theorem cuGate_four (lower ctx pol i) :
    cuGate lower ctx pol i 4 = badlistGate cuKeyLowered lower ctx i := rfl
theorem posixGate_zero (lower ctx pol i) :
    posixGate lower ctx pol i 0 =
      lengthGate posixTooShort posixTooLong posixShortReport posixLongReport pol i := rfl
theorem posixGate_three (lower ctx pol i) : posixGate lower ctx pol i 3 = scoreGate posixWeak i := rfl
theorem posixGate_four (lower ctx pol i) :
    posixGate lower ctx pol i 4 = badlistGate posixKeyLowered lower ctx i := rfl

/-! ## UTF-8 length -/

theorem utf8Width_pos (c : Nat) : 1 ≤ utf8Width c := by
  unfold utf8Width; split <;> (try split) <;> (try split) <;> omega

theorem length_le_utf8Len (t : List Nat) : t.length ≤ utf8Len t := by
  induction t with
  | nil => simp [utf8Len]
  | cons c t ih =>
    have := utf8Width_pos c
    simp only [List.length_cons, utf8Len]; omega

/-! ## The resolved policy's maximum is the constant -/

theorem foldFrom_pwMax (l : List AccountPolicy) :
    (foldFrom l).pwMaxLength = Kanidm.Gen.AccountPolicy.initPwMaxLength := by
  unfold foldFrom
  rw [(Kanidm.AccountPolicy.finish_other _).2.2.1, Kanidm.AccountPolicy.fold_pwMax]
  rfl

/-! ## `lowerGreek` on text without a capital sigma is character-wise -/

theorem lowerGreekAux_no_capital_sigma (t : List Nat) (h : ∀ c ∈ t, c ≠ 0x3A3) (p : Bool) :
    lowerGreekAux p t = t.map lower1 := by
  induction t generalizing p with
  | nil => rfl
  | cons c t ih =>
    have hc : c ≠ 0x3A3 := h c List.mem_cons_self
    have ht : ∀ d ∈ t, d ≠ 0x3A3 := fun d hd => h d (List.mem_cons_of_mem _ hd)
    simp only [lowerGreekAux, hc, if_false, List.map_cons, ih ht]

theorem fold1_eq_lower1_of_not_sigma (c : Nat) (h : isSigma c = false) : fold1 c = lower1 c := by
  simp only [isSigma, Bool.or_eq_false_iff, decide_eq_false_iff_not] at h
  simp [fold1, h.2]

theorem map_fold1_of_sigma_free (t : List Nat) (h : ∀ c ∈ t, isSigma c = false) :
    t.map fold1 = t.map lower1 := by
  induction t with
  | nil => rfl
  | cons c t ih =>
    simp only [List.map_cons]
    rw [fold1_eq_lower1_of_not_sigma c (h c List.mem_cons_self),
      ih (fun d hd => h d (List.mem_cons_of_mem _ hd))]

theorem lowerGreek_of_sigma_free (t : List Nat) (h : ∀ c ∈ t, isSigma c = false) :
    lowerGreek t = t.map fold1 := by
  rw [map_fold1_of_sigma_free t h]
  apply lowerGreekAux_no_capital_sigma
  intro c hc
  have := h c hc
  simp only [isSigma, Bool.or_eq_false_iff, decide_eq_false_iff_not] at this
  exact this.1.1

end Kanidm.PwQuality
