import KanidmModel.SyncScope
/-
Helper lemmas for C50 (`KanidmProofs/C50.lean`): attribute-map algebra, the pointwise relation
between the stored entries before and after a phase, and one frame lemma per phase of
`scim_sync_apply`.
-/
namespace Kanidm.SyncScope
open Kanidm.Access.Write
open Kanidm.Gen.Access
open Kanidm.Gen.SyncScope

/-! ### attribute maps -/

theorem getA_nil (a : Nat) : getA [] a = [] := rfl

theorem getA_cons (k : Nat) (vs : List Nat) (m : List (Nat × List Nat)) (a : Nat) :
    getA ((k, vs) :: m) a = if a = k then vs else getA m a := by
  unfold getA
  by_cases h : a = k
  · subst h; simp [List.lookup]
  · have : (a == k) = false := by simpa using h
    simp [List.lookup, this, h]

theorem getA_purgeA (a : Nat) (m : List (Nat × List Nat)) (b : Nat) :
    getA (purgeA a m) b = if b = a then [] else getA m b := by
  induction m with
  | nil => simp [purgeA, getA]
  | cons p rest ih =>
    obtain ⟨k, vs⟩ := p
    unfold purgeA at ih ⊢
    by_cases hk : k = a
    · subst hk
      simp only [List.filter, bne_self_eq_false]
      rw [ih, getA_cons]
      by_cases hb : b = k <;> simp [hb]
    · have : (k != a) = true := by simpa using hk
      simp only [List.filter, this]
      rw [getA_cons, getA_cons, ih]
      by_cases hb : b = k
      · subst hb; simp [hk]
      · simp [hb]

theorem getA_addA (a : Nat) (vs : List Nat) (m : List (Nat × List Nat)) (b : Nat) :
    getA (addA a vs m) b = if b = a then union (getA m a) vs else getA m b := by
  unfold addA
  by_cases he : (union (getA m a) vs).isEmpty = true
  · simp only [he, if_true]
    rw [getA_purgeA]
    by_cases hb : b = a
    · simp [hb, List.isEmpty_iff.mp he]
    · simp [hb]
  · have he' : (union (getA m a) vs).isEmpty = false := by simpa using he
    simp only [he']
    rw [if_neg (by simp), getA_cons, getA_purgeA]
    by_cases hb : b = a <;> simp [hb]

theorem getA_setA (a : Nat) (vs : List Nat) (m : List (Nat × List Nat)) (b : Nat) :
    getA (setA a vs m) b = if b = a then vs else getA m b := by
  unfold setA
  by_cases he : vs.isEmpty = true
  · simp only [he, if_true]
    rw [getA_purgeA]
    by_cases hb : b = a
    · simp [hb, List.isEmpty_iff.mp he]
    · simp [hb]
  · have he' : vs.isEmpty = false := by simpa using he
    simp only [he']
    rw [if_neg (by simp), getA_cons, getA_purgeA]
    by_cases hb : b = a <;> simp [hb]

/-- the value set of `a` after referential integrity removed the references to `D` -/
def stripped (R D : List Nat) (m : List (Nat × List Nat)) (a : Nat) : List Nat :=
  if R.contains a then (getA m a).filter (fun v => !D.contains v) else getA m a

theorem getA_stripAttrs (R D : List Nat) (m : List (Nat × List Nat)) (a : Nat) :
    getA (stripAttrs R D m) a = stripped R D m a := by
  induction m with
  | nil => simp [stripAttrs, stripped, getA]
  | cons p rest ih =>
    obtain ⟨k, vs⟩ := p
    unfold stripAttrs at ih ⊢
    unfold stripped at ih ⊢
    by_cases hk : R.contains k = true
    · simp only [List.map, hk, if_true]
      rw [getA_cons, getA_cons, ih]
      by_cases ha : a = k
      · subst ha; simp only [if_true, hk]
      · simp [ha]
    · have hk' : R.contains k = false := by simpa using hk
      simp only [List.map, hk']
      rw [if_neg (by simp), getA_cons, getA_cons, ih]
      by_cases ha : a = k
      · subst ha; simp only [if_true, hk']; simp
      · simp [ha]

theorem stripped_nil (R : List Nat) (m : List (Nat × List Nat)) (a : Nat) :
    stripped R [] m a = getA m a := by
  unfold stripped
  by_cases h : R.contains a = true <;> simp [h]

/-- `stripped` only reads the value set of `a` -/
def stripVals (R D : List Nat) (a : Nat) (vs : List Nat) : List Nat :=
  if R.contains a then vs.filter (fun v => !D.contains v) else vs

theorem stripped_eq (R D : List Nat) (m : List (Nat × List Nat)) (a : Nat) :
    stripped R D m a = stripVals R D a (getA m a) := rfl

theorem stripVals_stripVals (R D1 D2 : List Nat) (a : Nat) (vs : List Nat) :
    stripVals R D2 a (stripVals R D1 a vs) = stripVals R (D1 ++ D2) a vs := by
  unfold stripVals
  by_cases h : R.contains a = true
  · simp only [h, if_true, List.filter_filter]
    congr 1
    funext v
    simp [List.contains_eq_mem, List.mem_append, Bool.and_comm]
  · have h' : R.contains a = false := by simpa using h
    simp only [h']
    simp

/-! ### pointwise relation between two lists -/

inductive Rel2 {α β : Type} (R : α → β → Prop) : List α → List β → Prop
  | nil : Rel2 R [] []
  | cons {a : α} {b : β} {l : List α} {l' : List β} : R a b → Rel2 R l l' → Rel2 R (a :: l) (b :: l')

namespace Rel2
variable {α β γ : Type}

theorem map_right {R : α → β → Prop} (f : α → β) (l : List α) (h : ∀ x, x ∈ l → R x (f x)) :
    Rel2 R l (l.map f) := by
  induction l with
  | nil => exact .nil
  | cons x xs ih =>
    exact .cons (h x List.mem_cons_self) (ih fun y hy => h y (List.mem_cons_of_mem _ hy))

theorem refl {R : α → α → Prop} (h : ∀ a, R a a) (l : List α) : Rel2 R l l := by
  induction l with
  | nil => exact .nil
  | cons x xs ih => exact .cons (h x) ih

theorem mono {R S : α → β → Prop} (h : ∀ a b, R a b → S a b) {l : List α} {l' : List β}
    (r : Rel2 R l l') : Rel2 S l l' := by
  induction r with
  | nil => exact .nil
  | cons hab _ ih => exact .cons (h _ _ hab) ih

theorem trans {R : α → β → Prop} {S : β → γ → Prop} {T : α → γ → Prop}
    (hT : ∀ a b c, R a b → S b c → T a c) {l : List α} {l' : List β} {l'' : List γ}
    (r : Rel2 R l l') (s : Rel2 S l' l'') : Rel2 T l l'' := by
  induction r generalizing l'' with
  | nil => cases s; exact .nil
  | cons hab _ ih =>
    cases s with
    | cons hbc s' => exact .cons (hT _ _ _ hab hbc) (ih s')

theorem length_eq {R : α → β → Prop} {l : List α} {l' : List β} (r : Rel2 R l l') :
    l.length = l'.length := by
  induction r with
  | nil => rfl
  | cons _ _ ih => simp [ih]

theorem mem_left {R : α → β → Prop} {l : List α} {l' : List β} (r : Rel2 R l l') {a : α}
    (ha : a ∈ l) : ∃ b, b ∈ l' ∧ R a b := by
  induction r with
  | nil => cases ha
  | cons hab _ ih =>
    rcases List.mem_cons.mp ha with rfl | h
    · exact ⟨_, List.mem_cons_self, hab⟩
    · obtain ⟨b, hb, hr⟩ := ih h
      exact ⟨b, List.mem_cons_of_mem _ hb, hr⟩

theorem mem_right {R : α → β → Prop} {l : List α} {l' : List β} (r : Rel2 R l l') {b : β}
    (hb : b ∈ l') : ∃ a, a ∈ l ∧ R a b := by
  induction r with
  | nil => cases hb
  | cons hab _ ih =>
    rcases List.mem_cons.mp hb with rfl | h
    · exact ⟨_, List.mem_cons_self, hab⟩
    · obtain ⟨a, ha, hr⟩ := ih h
      exact ⟨a, List.mem_cons_of_mem _ ha, hr⟩

theorem append {R : α → β → Prop} {l1 l2 : List α} {l1' l2' : List β} (r1 : Rel2 R l1 l1')
    (r2 : Rel2 R l2 l2') : Rel2 R (l1 ++ l2) (l1' ++ l2') := by
  induction r1 with
  | nil => exact r2
  | cons hab _ ih => exact .cons hab ih

theorem split_append {R : α → β → Prop} {l1 l2 : List α} {l' : List β}
    (r : Rel2 R (l1 ++ l2) l') : ∃ l1' l2', l' = l1' ++ l2' ∧ Rel2 R l1 l1' ∧ Rel2 R l2 l2' := by
  induction l1 generalizing l' with
  | nil => exact ⟨[], l', rfl, .nil, r⟩
  | cons x xs ih =>
    cases r with
    | cons hab r' =>
      obtain ⟨a', b', he, h1, h2⟩ := ih r'
      exact ⟨_ :: a', b', by rw [he]; rfl, .cons hab h1, h2⟩

theorem get {R : α → β → Prop} {l : List α} {l' : List β} (r : Rel2 R l l') (i : Nat)
    (h : i < l.length) (h' : i < l'.length) : R l[i] l'[i] := by
  induction r generalizing i with
  | nil => cases h
  | cons hab _ ih =>
    cases i with
    | zero => exact hab
    | succ j => exact ih j (by simpa using h) (by simpa using h')

end Rel2

/-! ### what one sync request of agreement `su` may do to a stored entry -/

/-- a class the schema marks `sync_allowed` -/
def SyncClassOf (sch : Schema) (c : Nat) : Prop :=
  ∃ d, d ∈ sch.classes ∧ d.name = c ∧ d.syncAllowed = true

/-- the stored target of an import attribute the request may carry -/
def ImportTarget (sch : Schema) (auth : List Nat) (t : Nat) : Prop :=
  ∃ p, (p, t) ∈ credImportTargets ∧ (p ∈ phantomAttrSet sch ∨ p ∈ syncAllowAttrSet sch auth)

/-- attributes a request of an agreement with yield set `auth` can change on its entries -/
def Changeable (sch : Schema) (auth : List Nat) (a : Nat) : Prop :=
  a ∈ syncAllowAttrSet sch auth ∨ ImportTarget sch auth a

/-- uuids of entries of `l` owned by `su` -/
def okIn (su : Nat) (l : List Entry) (d : Nat) : Prop :=
  ∃ x, x ∈ l ∧ x.uuid = d ∧ x.syncParent = some su

structure Frame (sch : Schema) (su : Nat) (auth : List Nat) (ok : Nat → Prop) (e e' : Entry) :
    Prop where
  uuid : e'.uuid = e.uuid
  parent : e'.syncParent = e.syncParent
  yld : e'.yieldAuth = e.yieldAuth
  cookie : e'.cookie = e.cookie ∨ e.uuid = su
  life : e'.life = e.life ∨ (e.syncParent = some su ∧ e.life = .live ∧ e'.life = .recycled)
  ext : e'.extId = e.extId ∨ e.syncParent = some su
  sc : e'.syncClasses = e.syncClasses ∨ e.syncParent = some su
  clsKeep : ∀ c, c ∈ e.classes → c ∈ e'.classes
  clsNew : ∀ c, c ∈ e'.classes → c ∈ e.classes ∨ (e.syncParent = some su ∧ SyncClassOf sch c)
  attrs : ∃ D, (∀ d, d ∈ D → ok d) ∧
    ∀ a, getA e'.attrs a ≠ stripped sch.refAttrs D e.attrs a →
      e.syncParent = some su ∧ Changeable sch auth a

theorem Frame.refl (sch : Schema) (su : Nat) (auth : List Nat) (ok : Nat → Prop) (e : Entry) :
    Frame sch su auth ok e e where
  uuid := rfl
  parent := rfl
  yld := rfl
  cookie := .inl rfl
  life := .inl rfl
  ext := .inl rfl
  sc := .inl rfl
  clsKeep := fun _ h => h
  clsNew := fun _ h => .inl h
  attrs := ⟨[], by simp, fun a h => absurd (stripped_nil _ _ a).symm h⟩

theorem Frame.mono {sch : Schema} {su : Nat} {auth : List Nat} {ok ok' : Nat → Prop}
    (h : ∀ d, ok d → ok' d) {e e' : Entry} (f : Frame sch su auth ok e e') :
    Frame sch su auth ok' e e' :=
  { f with
    attrs :=
      match f.attrs with
      | ⟨D, hD, ha⟩ => ⟨D, fun d hd => h d (hD d hd), ha⟩ }

theorem Frame.trans {sch : Schema} {su : Nat} {auth : List Nat} {ok : Nat → Prop} {e e' e'' : Entry}
    (f : Frame sch su auth ok e e') (g : Frame sch su auth ok e' e'') :
    Frame sch su auth ok e e'' where
  uuid := by rw [g.uuid, f.uuid]
  parent := by rw [g.parent, f.parent]
  yld := by rw [g.yld, f.yld]
  cookie := by
    rcases f.cookie with h1 | h1
    · rcases g.cookie with h2 | h2
      · exact .inl (by rw [h2, h1])
      · exact .inr (by rw [← f.uuid]; exact h2)
    · exact .inr h1
  life := by
    rcases f.life with h1 | ⟨o, l, r⟩
    · rcases g.life with h2 | ⟨o, l, r⟩
      · exact .inl (by rw [h2, h1])
      · exact .inr ⟨by rw [← f.parent]; exact o, by rw [← h1]; exact l, r⟩
    · rcases g.life with h2 | ⟨_, l2, _⟩
      · exact .inr ⟨o, l, by rw [h2]; exact r⟩
      · rw [r] at l2; cases l2
  ext := by
    rcases f.ext with h1 | h1
    · rcases g.ext with h2 | h2
      · exact .inl (by rw [h2, h1])
      · exact .inr (by rw [← f.parent]; exact h2)
    · exact .inr h1
  sc := by
    rcases f.sc with h1 | h1
    · rcases g.sc with h2 | h2
      · exact .inl (by rw [h2, h1])
      · exact .inr (by rw [← f.parent]; exact h2)
    · exact .inr h1
  clsKeep := fun c h => g.clsKeep c (f.clsKeep c h)
  clsNew := fun c h => by
    rcases g.clsNew c h with h2 | ⟨o, s⟩
    · exact f.clsNew c h2
    · exact .inr ⟨by rw [← f.parent]; exact o, s⟩
  attrs := by
    obtain ⟨D1, hD1, h1⟩ := f.attrs
    obtain ⟨D2, hD2, h2⟩ := g.attrs
    refine ⟨D1 ++ D2, ?_, ?_⟩
    · intro d hd
      rcases List.mem_append.mp hd with h | h
      · exact hD1 d h
      · exact hD2 d h
    · intro a hne
      by_cases hs1 : getA e'.attrs a = stripped sch.refAttrs D1 e.attrs a
      · have hs2 : getA e''.attrs a ≠ stripped sch.refAttrs D2 e'.attrs a := by
          intro hc
          apply hne
          rw [hc, stripped_eq, hs1, stripped_eq, stripVals_stripVals, ← stripped_eq]
        obtain ⟨o, c⟩ := h2 a hs2
        exact ⟨by rw [← f.parent]; exact o, c⟩
      · exact h1 a hs1

theorem okIn_of_rel2 {sch : Schema} {su : Nat} {auth : List Nat} {ok : Nat → Prop}
    {l l' : List Entry} (r : Rel2 (Frame sch su auth ok) l l') (d : Nat) (h : okIn su l d) :
    okIn su l' d := by
  obtain ⟨x, hx, hu, hp⟩ := h
  obtain ⟨y, hy, f⟩ := r.mem_left hx
  exact ⟨y, hy, by rw [f.uuid]; exact hu, by rw [f.parent]; exact hp⟩

end Kanidm.SyncScope
