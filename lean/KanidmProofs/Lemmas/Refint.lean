import KanidmModel.Refint
import Mathlib.Data.List.Perm.Subperm
/-!
Helper lemmas for C16 (`KanidmProofs/C16.lean`): value-level facts about `remove`, the work-set
selection, the counting argument behind `check_uuids_exist_fast`, and the fix-up lemma
(`inv_removeRefs`): a state in which every reference is live *or about to be removed* satisfies
the invariant after `remove_references`.
-/
namespace Kanidm.Refint
open Kanidm.Gen.Refint

/-! ## the invariant -/

/-- The attributes the code exempts from its own checks: `memberof` on every entry, `dynmember`
on a dynamic group (both are recomputed by other plugins). -/
def Entry.exempt (e : Entry) (a : Nat) : Bool := a == aMemberOf || (e.dyn && a == aDynMember)

/-- The references of an entry the property speaks about: every active reference of every
non-exempt attribute. -/
def Entry.propRefs (e : Entry) : List Nat :=
  e.attrs.flatMap (fun p => if e.exempt p.1 then [] else p.2.active)

/-- Uuids are unique, and every (non-exempt, active) reference of **every** stored entry — live,
recycled or tombstoned — is the uuid of a live entry. -/
def Inv (s : State) : Prop :=
  (s.map (·.uuid)).Nodup ∧ ∀ e ∈ s, ∀ r ∈ e.propRefs, isLive s r = true

/-- Every reference is live or in `us` (the uuids `remove_references` is about to sweep). -/
def WeakInv (us : List Nat) (s : State) : Prop :=
  (s.map (·.uuid)).Nodup ∧ ∀ e ∈ s, ∀ r ∈ e.propRefs, isLive s r = true ∨ r ∈ us

/-- No session id of the state is one of `us`. -/
def SidFree (us : List Nat) (s : State) : Prop :=
  ∀ e ∈ s, ∀ p ∈ e.attrs, ∀ u ∈ us, u ∉ p.2.sids

theorem mem_propRefs {e : Entry} {r : Nat} :
    r ∈ e.propRefs ↔ ∃ p ∈ e.attrs, e.exempt p.1 = false ∧ r ∈ p.2.active := by
  unfold Entry.propRefs
  simp only [List.mem_flatMap]
  constructor
  · rintro ⟨p, hp, hr⟩
    by_cases hx : e.exempt p.1 = true
    · simp [hx] at hr
    · exact ⟨p, hp, by simpa using hx, by simpa [hx] using hr⟩
  · rintro ⟨p, hp, hx, hr⟩
    exact ⟨p, hp, by simpa [hx] using hr⟩

theorem isLive_iff {s : State} {u : Nat} :
    isLive s u = true ↔ ∃ e ∈ s, e.uuid = u ∧ e.st = .live := by
  unfold isLive
  simp [List.any_eq_true]

theorem inIndex_iff {s : State} {u : Nat} : inIndex s u = true ↔ ∃ e ∈ s, e.uuid = u := by
  unfold inIndex
  simp [List.any_eq_true]

/-! ## values -/

theorem active_sub_refs {vs : VS} {r : Nat} (h : r ∈ vs.active) : r ∈ vs.refs := by
  cases vs with
  | keys k ks => cases k <;> simpa [VS.active, VS.refs] using h
  | claims m => simpa [VS.active, VS.refs] using h
  | sessions m =>
    simp only [VS.active, VS.refs, List.mem_map, List.mem_filter] at h ⊢
    obtain ⟨x, ⟨hx, hr⟩, rfl⟩ := h
    exact ⟨x, ⟨hx, by simpa using Or.inr (by simpa using hr)⟩, rfl⟩

theorem refs_sub_active (hflag : sessionRefsSkipRevoked = true) {vs : VS} {r : Nat}
    (h : r ∈ vs.refs) : r ∈ vs.active := by
  cases vs with
  | keys k ks => cases k <;> simpa [VS.active, VS.refs] using h
  | claims m => simpa [VS.active, VS.refs] using h
  | sessions m =>
    simp only [VS.active, VS.refs, hflag, List.mem_map, List.mem_filter] at h ⊢
    obtain ⟨x, ⟨hx, hr⟩, rfl⟩ := h
    exact ⟨x, ⟨hx, by simpa using hr⟩, rfl⟩

theorem active_idxHas {vs : VS} {r : Nat} (h : r ∈ vs.active) : vs.idxHas r = true := by
  cases vs with
  | keys k ks => cases k <;> simp_all [VS.active, VS.idxHas]
  | claims m =>
    simp only [VS.active, List.mem_flatMap] at h
    obtain ⟨c, hc, hr⟩ := h
    simp only [VS.idxHas, List.any_eq_true]
    exact ⟨c, hc, by simpa using hr⟩
  | sessions m =>
    simp only [VS.active, List.mem_map, List.mem_filter] at h
    obtain ⟨x, ⟨hx, _⟩, rfl⟩ := h
    simp only [VS.idxHas, List.any_eq_true]
    exact ⟨x, hx, by simp⟩

/-- A value with an active reference has a syntax that `schema.rs` puts into the `ref_cache`
(this is where the regenerated syntax rule enters every theorem). -/
theorem refcache_of_active (hc : ∀ y : Syn, y ≠ .other → inRefCache y = true)
    {vs : VS} {r : Nat} (h : r ∈ vs.active) : inRefCache vs.syn = true := by
  cases vs with
  | keys k ks =>
    cases k with
    | plainUuid => simp [VS.active] at h
    | refer => exact hc _ (by simp [VS.syn, KSyn.syn])
    | scopeMap => exact hc _ (by simp [VS.syn, KSyn.syn])
    | appPwd => exact hc _ (by simp [VS.syn, KSyn.syn])
  | claims m => exact hc _ (by simp [VS.syn])
  | sessions m => exact hc _ (by simp [VS.syn])

theorem remove_sids (u : Nat) (vs : VS) : (vs.remove u).sids = vs.sids := by
  cases vs with
  | keys k ks => cases k <;> simp [VS.remove, VS.sids]
  | claims m => simp [VS.remove, VS.sids]
  | sessions m =>
    simp only [VS.remove]
    split <;> simp only [VS.sids, List.map_map] <;> apply List.map_congr_left <;> intro x _ <;>
      simp only [Function.comp, revokeSid, revokeRs] <;> split <;> rfl

theorem remove_active_sub {u r : Nat} {vs : VS} (h : r ∈ (vs.remove u).active) : r ∈ vs.active := by
  cases vs with
  | keys k ks =>
    cases k <;> simp_all [VS.remove, VS.active]
  | claims m =>
    simp only [VS.remove, VS.active, List.mem_flatMap, List.mem_filter, List.mem_map] at h ⊢
    obtain ⟨c, ⟨⟨c0, hc0, rfl⟩, _⟩, hr⟩ := h
    exact ⟨c0, hc0, (List.mem_filter.mp hr).1⟩
  | sessions m =>
    simp only [VS.remove] at h
    split at h <;>
    · simp only [VS.active, List.mem_map, List.mem_filter] at h ⊢
      obtain ⟨y, ⟨⟨x, hx, rfl⟩, hrev⟩, rfl⟩ := h
      refine ⟨x, ⟨hx, ?_⟩, ?_⟩
      · simp only [revokeSid, revokeRs] at hrev
        split at hrev <;> simp_all
      · simp only [revokeSid, revokeRs]; split <;> rfl

theorem remove_active_not {u : Nat} {vs : VS} (hs : u ∉ vs.sids) : u ∉ (vs.remove u).active := by
  cases vs with
  | keys k ks => cases k <;> simp [VS.remove, VS.active]
  | claims m =>
    simp only [VS.remove, VS.active, List.mem_flatMap, List.mem_filter, List.mem_map, not_exists, not_and]
    rintro c ⟨⟨c0, _, rfl⟩, _⟩
    simp
  | sessions m =>
    have hno : m.any (fun x => x.sid == u) = false := by
      simp only [VS.sids, List.mem_map, not_exists, not_and] at hs
      simp only [List.any_eq_false, beq_iff_eq]
      intro x hx hxe
      exact hs x hx hxe
    have hrm : (VS.sessions m).remove u = .sessions (m.map (revokeRs u)) := by simp [VS.remove, hno]
    rw [hrm]
    simp only [VS.active, List.mem_map, List.mem_filter, not_exists, not_and]
    rintro y ⟨⟨x, _, rfl⟩, hrev⟩ hrs
    simp only [revokeRs] at hrev hrs
    split at hrev
    · simp at hrev
    · rename_i hne
      split at hrs
      · rename_i h2; exact hne h2
      · rename_i h2; simp at h2; exact hne (by simpa using hrs)

theorem removeAll_sids (us : List Nat) (vs : VS) : (vs.removeAll us).sids = vs.sids := by
  unfold VS.removeAll
  induction us generalizing vs with
  | nil => rfl
  | cons u us ih => simp only [List.foldl_cons]; rw [ih, remove_sids]

theorem removeAll_active {us : List Nat} {vs : VS} {r : Nat}
    (hs : ∀ u ∈ us, u ∉ vs.sids) (h : r ∈ (vs.removeAll us).active) : r ∈ vs.active ∧ r ∉ us := by
  unfold VS.removeAll at h
  induction us generalizing vs with
  | nil => exact ⟨h, by simp⟩
  | cons u us ih =>
    simp only [List.foldl_cons] at h
    have hs' : ∀ v ∈ us, v ∉ (vs.remove u).sids := by
      intro v hv; rw [remove_sids]; exact hs v (List.mem_cons_of_mem _ hv)
    obtain ⟨h1, h2⟩ := ih hs' h
    refine ⟨remove_active_sub h1, ?_⟩
    intro hmem
    rcases List.mem_cons.mp hmem with rfl | hmem
    · exact remove_active_not (hs _ (List.mem_cons_self ..)) h1
    · exact h2 hmem

/-! ## entries -/

theorem refcache_covers : ∀ y : Syn, y ≠ .other → inRefCache y = true := by
  intro y hy; cases y <;> simp_all [inRefCache]

theorem strip_exempt (us : List Nat) (e : Entry) (a : Nat) : (e.strip us).exempt a = e.exempt a := rfl

theorem strip_propRefs {us : List Nat} {e : Entry} {r : Nat}
    (hs : ∀ p ∈ e.attrs, ∀ u ∈ us, u ∉ p.2.sids) (h : r ∈ (e.strip us).propRefs) :
    r ∈ e.propRefs ∧ r ∉ us := by
  obtain ⟨q, hq, hx, hr⟩ := mem_propRefs.mp h
  rw [strip_exempt] at hx
  simp only [Entry.strip, List.mem_filterMap] at hq
  obtain ⟨p, hp, hf⟩ := hq
  by_cases hc : inRefCache p.2.syn = true
  · simp only [removeSweepsEveryRefType, hc, Bool.and_self, if_true] at hf
    split at hf
    · simp at hf
    · simp only [Option.some.injEq] at hf
      subst hf
      obtain ⟨h1, h2⟩ := removeAll_active (hs p hp) hr
      exact ⟨mem_propRefs.mpr ⟨p, hp, hx, h1⟩, h2⟩
  · have : (removeSweepsEveryRefType && inRefCache p.2.syn) = false := by simp [hc]
    simp only [this] at hf
    simp only [Bool.false_eq_true, if_false, Option.some.injEq] at hf
    subst hf
    exact absurd (refcache_of_active refcache_covers hr) hc

theorem not_matches_propRefs {us : List Nat} {e : Entry} {r : Nat}
    (hm : e.matchesAny us = false) (h : r ∈ e.propRefs) : r ∉ us := by
  obtain ⟨p, hp, _, hr⟩ := mem_propRefs.mp h
  intro hu
  have : e.matchesAny us = true := by
    simp only [Entry.matchesAny, List.any_eq_true, Bool.and_eq_true]
    exact ⟨p, hp, refcache_of_active refcache_covers hr, r, hu, active_idxHas hr⟩
  simp [this] at hm

theorem rawRefs_iff {e : Entry} {r : Nat} : r ∈ e.rawRefs ↔ r ∈ e.propRefs := by
  simp only [Entry.rawRefs, List.mem_flatMap, List.mem_filter, mem_propRefs]
  constructor
  · rintro ⟨p, ⟨hp, hc⟩, hr⟩
    refine ⟨p, hp, ?_, refs_sub_active rfl hr⟩
    simp only [Entry.collected, skipDynMemberOnDynGroup, skipMemberOf, Bool.true_and, Bool.and_eq_true,
      Bool.not_eq_true'] at hc
    simp only [Entry.exempt, Bool.or_eq_false_iff]
    exact ⟨hc.2, hc.1.2⟩
  · rintro ⟨p, hp, hx, hr⟩
    refine ⟨p, ⟨hp, ?_⟩, active_sub_refs hr⟩
    simp only [Entry.exempt, Bool.or_eq_false_iff] at hx
    simp only [Entry.collected, skipDynMemberOnDynGroup, skipMemberOf, Bool.true_and, Bool.and_eq_true,
      Bool.not_eq_true']
    exact ⟨⟨refcache_of_active refcache_covers hr, hx.2⟩, hx.1⟩

theorem mem_refSet {es : List Entry} {r : Nat} : r ∈ refSet es ↔ ∃ e ∈ es, r ∈ e.propRefs := by
  simp only [refSet, List.mem_flatMap, rawRefs_iff]

/-- Attributes may only come from the old entry or carry references with property `Q`. -/
theorem propRefs_mono {e e' : Entry} {Q : Nat → Prop} (hd : e'.dyn = e.dyn)
    (h : ∀ p ∈ e'.attrs, p ∈ e.attrs ∨ ∀ r ∈ p.2.active, Q r) {r : Nat} (hr : r ∈ e'.propRefs) :
    r ∈ e.propRefs ∨ Q r := by
  obtain ⟨p, hp, hx, hra⟩ := mem_propRefs.mp hr
  rcases h p hp with h1 | h2
  · left
    refine mem_propRefs.mpr ⟨p, h1, ?_, hra⟩
    simpa [Entry.exempt, hd] using hx
  · exact Or.inr (h2 r hra)

theorem mem_erase_attrs {e : Entry} {a : Nat} {p : Nat × VS} (h : p ∈ (e.erase a).attrs) : p ∈ e.attrs :=
  (List.mem_filter.mp h).1

theorem mem_set_attrs {e : Entry} {a : Nat} {vs : VS} {p : Nat × VS} (h : p ∈ (e.set a vs).attrs) :
    p ∈ e.attrs ∨ p = (a, vs) := by
  unfold Entry.set at h
  split at h
  · exact Or.inl (mem_erase_attrs h)
  · split at h
    · simp only [List.mem_map] at h
      obtain ⟨q, hq, hqe⟩ := h
      split at hqe
      · exact Or.inr hqe.symm
      · exact Or.inl (hqe ▸ hq)
    · simp only [List.mem_append, List.mem_singleton] at h
      exact h

theorem recycle_fields (stash : List (Nat × List Nat)) (c : Bool) (e : Entry) :
    (recycle stash c e).uuid = e.uuid ∧ (recycle stash c e).st = .recycled ∧ (recycle stash c e).dyn = e.dyn := by
  unfold recycle
  refine ⟨?_, rfl, ?_⟩ <;>
  · simp only
    split <;> split <;> (try split) <;> simp [Entry.erase, Entry.set] <;> (repeat' split) <;> rfl

theorem recycle_attrs {stash : List (Nat × List Nat)} {c : Bool} {e : Entry} {p : Nat × VS}
    (h : p ∈ (recycle stash c e).attrs) :
    p ∈ e.attrs ∨ (p.2.sids = [] ∧ ∀ r ∈ p.2.active, r ∈ stashOf stash e.uuid) := by
  unfold recycle at h
  simp only at h
  -- peel the rdmo step
  have step3 : ∀ (e2 : Entry) (dmo : List Nat), e2.uuid = e.uuid →
      (p ∈ (if dmo.isEmpty then e2.erase aRdmo else (e2.erase aRdmo).set aRdmo (.keys .refer dmo)).attrs) →
      p ∈ e2.attrs ∨ p = (aRdmo, .keys .refer dmo) := by
    intro e2 dmo _ hp
    split at hp
    · exact Or.inl (mem_erase_attrs hp)
    · rcases mem_set_attrs hp with h1 | h1
      · exact Or.inl (mem_erase_attrs h1)
      · exact Or.inr h1
  have step1 : ∀ q : Nat × VS,
      q ∈ (if c then (match e.refersTarget with
          | some r => { e with attrs := (e.erase aCascade).attrs ++ [(aCascade, VS.keys .plainUuid [r])] }
          | none => e) else e).attrs →
      q ∈ e.attrs ∨ (q.2.sids = [] ∧ ∀ r ∈ q.2.active, r ∈ stashOf stash e.uuid) := by
    intro q hq
    split at hq
    · split at hq
      · simp only [List.mem_append, List.mem_singleton] at hq
        rcases hq with h1 | h1
        · exact Or.inl (mem_erase_attrs h1)
        · right; subst h1; simp [VS.active, VS.sids]
      · exact Or.inl hq
    · exact Or.inl hq
  generalize he1 : (if c then (match e.refersTarget with
          | some r => { e with attrs := (e.erase aCascade).attrs ++ [(aCascade, VS.keys .plainUuid [r])] }
          | none => e) else e) = e1 at h step1
  have hu1 : e1.uuid = e.uuid := by
    subst he1; split <;> (try split) <;> rfl
  rcases step3 ((e1.erase aMemberOf).erase aDirectMemberOf) _ (by simpa [Entry.erase] using hu1) h with h3 | h3
  · exact step1 p (mem_erase_attrs (mem_erase_attrs h3))
  · right
    subst h3
    refine ⟨by simp [VS.sids], ?_⟩
    intro r hr
    simpa [VS.active, hu1] using hr

/-! ## states -/

theorem nodup_uuid_eq {s : State} (hn : (s.map (·.uuid)).Nodup) {x y : Entry}
    (hx : x ∈ s) (hy : y ∈ s) (h : x.uuid = y.uuid) : x = y := by
  induction s with
  | nil => simp at hx
  | cons a t ih =>
    simp only [List.map_cons, List.nodup_cons, List.mem_map, not_exists, not_and] at hn
    rcases List.mem_cons.mp hx with rfl | hx' <;> rcases List.mem_cons.mp hy with rfl | hy'
    · rfl
    · exact absurd h.symm (hn.1 y hy')
    · exact absurd h (hn.1 x hx')
    · exact ih hn.2 hx' hy'

theorem map_fields_uuid {s : State} {f : Entry → Entry} (hf : ∀ e ∈ s, (f e).uuid = e.uuid) :
    (s.map f).map (·.uuid) = s.map (·.uuid) := by
  rw [List.map_map]
  exact List.map_congr_left (fun e he => by simpa using hf e he)

theorem isLive_map_mono {s : State} {f : Entry → Entry}
    (hf : ∀ e ∈ s, (f e).uuid = e.uuid ∧ (e.st = .live → (f e).st = .live)) {u : Nat}
    (h : isLive s u = true) : isLive (s.map f) u = true := by
  obtain ⟨e, he, hu, hl⟩ := isLive_iff.mp h
  exact isLive_iff.mpr ⟨f e, List.mem_map_of_mem he, (hf e he).1.trans hu, (hf e he).2 hl⟩

theorem strip_fields (us : List Nat) (e : Entry) : (e.strip us).uuid = e.uuid ∧ (e.strip us).st = e.st := ⟨rfl, rfl⟩

/-- The fix-up lemma: after `remove_references us` nothing refers to a non-live uuid any more. -/
theorem inv_removeRefs {us : List Nat} {s : State} (hw : WeakInv us s) (hs : SidFree us s) :
    Inv (removeRefsState s us) := by
  have hfield : ∀ e ∈ s, ((fun e : Entry => if e.inWorkSet us then e.strip us else e) e).uuid = e.uuid ∧
      (e.st = .live → ((fun e : Entry => if e.inWorkSet us then e.strip us else e) e).st = .live) := by
    intro e _; simp only; split <;> simp [Entry.strip]
  refine ⟨?_, ?_⟩
  · unfold removeRefsState
    rw [map_fields_uuid (fun e he => (hfield e he).1)]
    exact hw.1
  · intro e' he' r hr
    unfold removeRefsState at he' ⊢
    obtain ⟨e, he, rfl⟩ := List.mem_map.mp he'
    apply isLive_map_mono hfield
    by_cases hws : e.inWorkSet us = true
    · simp only [hws, if_true] at hr
      obtain ⟨h1, h2⟩ := strip_propRefs (hs e he) hr
      rcases hw.2 e he r h1 with h | h
      · exact h
      · exact absurd h h2
    · simp only [hws] at hr
      have hm : e.matchesAny us = false := by
        simpa [Entry.inWorkSet, removeSearchesAllStates] using hws
      rcases hw.2 e he r hr with h | h
      · exact h
      · exact absurd h (not_matches_propRefs hm hr)

theorem mem_insertSorted {x y : Nat} {l : List Nat} : y ∈ insertSorted x l ↔ y = x ∨ y ∈ l := by
  induction l with
  | nil => simp [insertSorted]
  | cons z zs ih =>
    unfold insertSorted
    split
    · simp
    · split
      · rename_i h; simp only [beq_iff_eq] at h; subst h; simp
      · simp only [List.mem_cons, ih]; tauto

theorem mem_sortDedup {y : Nat} {l : List Nat} : y ∈ sortDedup l ↔ y ∈ l := by
  unfold sortDedup
  induction l with
  | nil => simp
  | cons x xs ih => simp only [List.foldr_cons, mem_insertSorted, ih, List.mem_cons]

/-- `check_uuids_exist_fast` answers `true` only if every uuid asked for is a live entry
(the counting argument: the entries found are distinct, all among the uuids asked for, and as
many as the distinct uuids asked for). -/
theorem existFast_sound {s : State} (hn : (s.map (·.uuid)).Nodup) {us : List Nat}
    (h : existFast s us = true) {u : Nat} (hu : u ∈ us) : isLive s u = true := by
  unfold existFast at h
  have hne : us.isEmpty = false := by cases us <;> simp_all
  simp only [hne, Bool.false_eq_true, if_false, existsFastHidesMasked, Bool.not_true, Bool.false_or,
    fastAllFound, beq_iff_eq] at h
  generalize hfound : (if (sortDedup us).all (inIndex s) = true then
      s.filter (fun e => (sortDedup us).contains e.uuid && e.st == .live) else []) = found at h
  have hsub : found.Sublist s := by
    subst hfound; split
    · exact List.filter_sublist
    · exact List.nil_sublist _
  have hprop : ∀ e ∈ found, e.uuid ∈ sortDedup us ∧ e.st = .live := by
    subst hfound; intro e he; split at he
    · simp only [List.mem_filter, Bool.and_eq_true, List.contains_eq_mem, decide_eq_true_eq, beq_iff_eq] at he
      exact he.2
    · simp at he
  have hnd : (found.map (·.uuid)).Nodup := List.Nodup.sublist (hsub.map _) hn
  have hss : found.map (·.uuid) ⊆ sortDedup us := by
    intro x hx
    obtain ⟨e, he, rfl⟩ := List.mem_map.mp hx
    exact (hprop e he).1
  have hperm := (List.subperm_of_subset hnd hss).perm_of_length_le (by simp [h])
  have : u ∈ found.map (·.uuid) := hperm.symm.subset (mem_sortDedup.mpr hu)
  obtain ⟨e, he, rfl⟩ := List.mem_map.mp this
  exact isLive_iff.mpr ⟨e, hsub.subset he, rfl, (hprop e he).2⟩

theorem existSlow_complete {s : State} {us : List Nat} {u : Nat} (hu : u ∈ us) :
    isLive s u = true ∨ u ∈ existSlow s us := by
  by_cases h : isLive s u = true
  · exact Or.inl h
  · right
    simp only [existSlow, List.mem_filter, slowMissingWhen, existsSlowHidesMasked, Bool.not_true,
      Bool.false_or]
    refine ⟨hu, ?_⟩
    simpa [isLive] using h

/-- An operation that rewrites some entries (`post`, written over `pre ⊆ s`) under the
`post_modify_inner` existence check keeps the invariant. -/
theorem inv_checked {s s1 : State} {pre : Option (List Entry)} {post : List Entry}
    (hinv : Inv s) (hn : (s1.map (·.uuid)).Nodup)
    (hpre : ∀ p ∈ pre.getD [], p ∈ s)
    (hlive : ∀ u, isLive s u = true → isLive s1 u = true)
    (hmem : ∀ e ∈ s1, e ∈ s ∨ e ∈ post)
    (hchk : existFast s1 (newRefs pre post) = true) : Inv s1 := by
  refine ⟨hn, ?_⟩
  intro e he r hr
  rcases hmem e he with h | h
  · exact hlive r (hinv.2 e h r hr)
  · have hpost : r ∈ refSet post := mem_refSet.mpr ⟨e, h, hr⟩
    by_cases hprev : r ∈ refSet (pre.getD [])
    · obtain ⟨p, hp, hrp⟩ := mem_refSet.mp hprev
      exact hlive r (hinv.2 p (hpre p hp) r hrp)
    · apply existFast_sound hn hchk
      unfold newRefs
      simp only [newRefsAreDifference, if_true, List.mem_filter]
      refine ⟨hpost, ?_⟩
      cases pre with
      | none => simp
      | some p => simpa using hprev

theorem postModifyInner_none {s : State} {pre : Option (List Entry)} {post : List Entry}
    (h : postModifyInner s pre post = none) : existFast s (newRefs pre post) = true := by
  unfold postModifyInner at h
  split at h
  · simp at h
  · rename_i hr; simpa [refuseWhen] using hr

end Kanidm.Refint
