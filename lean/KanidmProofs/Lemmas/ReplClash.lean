import KanidmProofs.Lemmas.ReplMerge
/-! C08: delivery trees over `applyEntry` — the same uuid created on several replicas included. -/
namespace Kanidm.ReplMerge
open Kanidm.Cid (Cid cidLt)
open Kanidm.Gen.ReplMergeOps

/-- `applyEntry` as seen on the replicated stratum: a uuid clash (different creation cids) keeps the
earlier creation whole, otherwise `vmerge`. -/
def vapply : View → View → View
  | .live a f, .live b g =>
    if cidLt a b || cidLt b a then (if cidLt b a then .live b g else .live a f)
    else .live a (fun x => lww (f x) (g x))
  | .tomb a, .live _ _ => .tomb a
  | .live _ _, .tomb b => .tomb b
  | .tomb a, .tomb b => if cidLt a b then .tomb a else .tomb b

theorem view_sealSt' (repl : Nat → Bool) (s : St) : view repl (sealSt repl s) = view repl s := by
  cases s with
  | tomb a => rfl
  | live e =>
    simp only [sealSt, view]
    congr 1
    funext a
    unfold rcell
    rw [lookup_filter_key]
    by_cases h : repl a = true <;> simp [h]

/-- `applyEntry` acts on the replicated stratum as `vapply`. -/
theorem view_applyEntry (vm : Nat → Nat → Option Nat) (hvm : ∀ n o, vm n o = none) (repl : Nat → Bool)
    (txn : Cid) (s t : St) :
    view repl (applyEntry vm repl txn s t) = vapply (view repl s) (view repl t) := by
  unfold applyEntry
  rw [view_sealSt']
  cases s with
  | tomb a =>
    cases t with
    | tomb b => rw [view_mergeState vm hvm]; rfl
    | live R => rw [view_mergeState vm hvm]; rfl
  | live L =>
    cases t with
    | tomb b => rw [view_mergeState vm hvm]; rfl
    | live R =>
      by_cases h1 : cidLt L.crAt R.crAt = true
      · have h2 := cidLt_asymm h1
        simp [isAddConflict, addConflictWhen, resolveAdd, incomingLoses, view, vapply, h1, h2]
      · by_cases h2 : cidLt R.crAt L.crAt = true
        · simp only [Bool.not_eq_true] at h1
          simp [isAddConflict, addConflictWhen, resolveAdd, incomingLoses, view, vapply, h1, h2]
        · simp only [Bool.not_eq_true] at h1 h2
          have hc : isAddConflict (.live L) (.live R) = false := by
            simp [isAddConflict, addConflictWhen, h1, h2]
          simp only [hc, Bool.false_eq_true, if_false]
          rw [view_mergeState vm hvm]
          simp [view, vmerge, vapply, h1, h2]

def Tree.evalA (vm : Nat → Nat → Option Nat) (repl : Nat → Bool) (txn : Cid) (w : Nat → St) : Tree → St
  | .leaf i => w i
  | .node l r => applyEntry vm repl txn (l.evalA vm repl txn w) (r.evalA vm repl txn w)

def Tree.evalVA (W : Nat → View) : Tree → View
  | .leaf i => W i
  | .node l r => vapply (l.evalVA W) (r.evalVA W)

theorem view_evalA (vm : Nat → Nat → Option Nat) (hvm : ∀ n o, vm n o = none) (repl : Nat → Bool)
    (txn : Cid) (w : Nat → St) (t : Tree) :
    view repl (t.evalA vm repl txn w) = t.evalVA (fun i => view repl (w i)) := by
  induction t with
  | leaf i => rfl
  | node l r ihl ihr => simp only [Tree.evalA, Tree.evalVA, view_applyEntry vm hvm, ihl, ihr]

/-- creation cid of a live view -/
def atOf : View → Option Cid
  | .live a _ => some a
  | .tomb _ => none

/-- Coherence for clashing creations: one cid names one write *within one creation*. -/
def VCohA : View → View → Prop
  | .live a f, .live b g => a = b → ∀ x, Agree (f x) (g x)
  | _, _ => True

/-- What a delivery tree over `applyEntry` evaluates to, over the set `P` of delivered states: a
tombstone with the earliest `at` if any; otherwise the earliest creation, with per attribute the
greatest change cid among the delivered states *of that creation*. -/
def TreeSpecA (W : Nat → View) (P : Nat → Prop) : View → Prop
  | .tomb c => (∃ i, P i ∧ W i = .tomb c) ∧ ∀ j c', P j → W j = .tomb c' → cidLt c' c = false
  | .live a F =>
    (∃ i f, P i ∧ W i = .live a f) ∧ (∀ i, P i → ∃ b f, W i = .live b f ∧ cidLt b a = false)
      ∧ ∀ x, TopCell W (fun i => P i ∧ atOf (W i) = some a) x (F x)

theorem topCell_congr {W : Nat → View} {P Q : Nat → Prop} (h : ∀ i, P i ↔ Q i) {a : Nat}
    {x : Option (Cid × Option Nat)} (hx : TopCell W P a x) : TopCell W Q a x := by
  have : P = Q := funext (fun i => propext (h i))
  subst this; exact hx

theorem treeSpecA_congr {W : Nat → View} {P Q : Nat → Prop} (h : ∀ i, P i ↔ Q i) {v : View}
    (hv : TreeSpecA W P v) : TreeSpecA W Q v := by
  have : P = Q := funext (fun i => propext (h i))
  subst this; exact hv

theorem treeSpecA_leaf (W : Nat → View) (i : Nat) : TreeSpecA W (fun j => j = i) (W i) := by
  cases h : W i with
  | tomb c =>
    refine ⟨⟨i, rfl, h⟩, ?_⟩
    intro j c' hj hw
    subst hj
    rw [h] at hw; cases hw; exact cidLt_irrefl _
  | live a f =>
    refine ⟨⟨i, f, rfl, h⟩, ?_, ?_⟩
    · intro j hj; subst hj; exact ⟨a, f, h, cidLt_irrefl a⟩
    · intro x
      cases hx : f x with
      | none =>
        intro j hj; obtain ⟨hj, _⟩ := hj; subst hj; simp [h, cellOf, hx]
      | some cv =>
        obtain ⟨c, v⟩ := cv
        refine ⟨⟨i, ⟨rfl, by simp [h, atOf]⟩, by simp [h, cellOf, hx]⟩, ?_⟩
        intro j c' v' hj hc
        obtain ⟨hj, _⟩ := hj
        subst hj
        simp only [h, cellOf, hx, Option.some.injEq, Prod.mk.injEq] at hc
        obtain ⟨e, _⟩ := hc
        subst e; exact cidLt_irrefl _

/-- the earlier creation absorbs: spec of the union when the left creation is strictly earlier -/
theorem treeSpecA_keep_left {W : Nat → View} {P Q : Nat → Prop} {a b : Cid} {F G : Nat → Option (Cid × Option Nat)}
    (hv : TreeSpecA W P (.live a F)) (hw : TreeSpecA W Q (.live b G)) (hab : cidLt a b = true) :
    TreeSpecA W (fun i => P i ∨ Q i) (.live a F) := by
  obtain ⟨⟨i, f, hi, hwi⟩, hPge, hPt⟩ := hv
  obtain ⟨_, hQge, _⟩ := hw
  refine ⟨⟨i, f, Or.inl hi, hwi⟩, ?_, ?_⟩
  · intro j hj
    rcases hj with hj | hj
    · exact hPge j hj
    · obtain ⟨c, g, hg, hc⟩ := hQge j hj
      refine ⟨c, g, hg, ?_⟩
      -- a < b ≤ c
      cases h : cidLt c a
      · rfl
      · have := cidLt_trans h hab; rw [hc] at this; cases this
  · intro x
    refine topCell_congr ?_ (hPt x)
    intro j
    constructor
    · rintro ⟨hj, ha⟩; exact ⟨Or.inl hj, ha⟩
    · rintro ⟨hj | hj, ha⟩
      · exact ⟨hj, ha⟩
      · obtain ⟨c, g, hg, hc⟩ := hQge j hj
        rw [hg] at ha
        simp only [atOf, Option.some.injEq] at ha
        subst ha
        rw [hab] at hc; cases hc

theorem treeSpecA_vapply {W : Nat → View} (hcoh : ∀ i j, VCohA (W i) (W j)) {P Q : Nat → Prop} {v w : View}
    (hv : TreeSpecA W P v) (hw : TreeSpecA W Q w) : TreeSpecA W (fun i => P i ∨ Q i) (vapply v w) := by
  cases v with
  | live a F =>
    cases w with
    | live b G =>
      simp only [vapply]
      by_cases h1 : cidLt a b = true
      · have h2 := cidLt_asymm h1
        simp only [h1, h2, Bool.true_or, if_true, Bool.false_eq_true, if_false]
        exact treeSpecA_keep_left hv hw h1
      · by_cases h2 : cidLt b a = true
        · simp only [Bool.not_eq_true] at h1
          simp only [h1, h2, Bool.false_or, if_true]
          have := treeSpecA_keep_left hw hv h2
          exact treeSpecA_congr (fun i => Or.comm) this
        · simp only [Bool.not_eq_true] at h1 h2
          have hab := cidLt_connex h1 h2
          subst hab
          simp only [h1, Bool.or_self, Bool.false_eq_true, if_false]
          obtain ⟨⟨i, f, hi, hwi⟩, hPge, hPt⟩ := hv
          obtain ⟨_, hQge, hQt⟩ := hw
          refine ⟨⟨i, f, Or.inl hi, hwi⟩, ?_, ?_⟩
          · intro j hj
            rcases hj with hj | hj
            · exact hPge j hj
            · exact hQge j hj
          · intro x
            refine topCell_congr ?_ (topCell_lww (hPt x) (hQt x))
            intro j
            constructor
            · rintro (⟨hj, ha⟩ | ⟨hj, ha⟩)
              · exact ⟨Or.inl hj, ha⟩
              · exact ⟨Or.inr hj, ha⟩
            · rintro ⟨hj | hj, ha⟩
              · exact Or.inl ⟨hj, ha⟩
              · exact Or.inr ⟨hj, ha⟩
    | tomb d =>
      obtain ⟨_, hPge, _⟩ := hv
      obtain ⟨⟨k, hk, hwk⟩, hmin⟩ := hw
      refine ⟨⟨k, Or.inr hk, hwk⟩, ?_⟩
      intro j c' hj hwj
      rcases hj with hj | hj
      · obtain ⟨b, f, hf, _⟩ := hPge j hj
        rw [hf] at hwj; cases hwj
      · exact hmin j c' hj hwj
  | tomb c =>
    cases w with
    | live b G =>
      obtain ⟨⟨i, hi, hwi⟩, hmin⟩ := hv
      obtain ⟨_, hQge, _⟩ := hw
      refine ⟨⟨i, Or.inl hi, hwi⟩, ?_⟩
      intro j c' hj hwj
      rcases hj with hj | hj
      · exact hmin j c' hj hwj
      · obtain ⟨b', f, hf, _⟩ := hQge j hj
        rw [hf] at hwj; cases hwj
    | tomb d =>
      obtain ⟨⟨i, hi, hwi⟩, hminc⟩ := hv
      obtain ⟨⟨k, hk, hwk⟩, hmind⟩ := hw
      simp only [vapply]
      cases hlt : cidLt c d
      · simp only [Bool.false_eq_true, if_false]
        refine ⟨⟨k, Or.inr hk, hwk⟩, ?_⟩
        intro j c' hj hwj
        rcases hj with hj | hj
        · have h1 := hminc j c' hj hwj
          cases h2 : cidLt c' d
          · rfl
          · cases h3 : cidLt d c
            · have e := cidLt_connex hlt h3; subst e; rw [h1] at h2; cases h2
            · have := cidLt_trans h2 h3; rw [h1] at this; cases this
        · exact hmind j c' hj hwj
      · simp only [if_true]
        refine ⟨⟨i, Or.inl hi, hwi⟩, ?_⟩
        intro j c' hj hwj
        rcases hj with hj | hj
        · exact hminc j c' hj hwj
        · have h1 := hmind j c' hj hwj
          cases h2 : cidLt c' c
          · rfl
          · have := cidLt_trans h2 hlt; rw [h1] at this; cases this

theorem topCell_unique_on {W : Nat → View} {P : Nat → Prop} {a : Nat} {x y : Option (Cid × Option Nat)}
    (hag : ∀ i j, P i → P j → Agree (cellOf (W i) a) (cellOf (W j) a))
    (hx : TopCell W P a x) (hy : TopCell W P a y) : x = y := by
  rcases x with _ | ⟨cx, vx⟩ <;> rcases y with _ | ⟨cy, vy⟩
  · rfl
  · obtain ⟨⟨i, hi, hc⟩, _⟩ := hy
    rw [hx i hi] at hc; cases hc
  · obtain ⟨⟨i, hi, hc⟩, _⟩ := hx
    rw [hy i hi] at hc; cases hc
  · obtain ⟨⟨i, hi, hci⟩, hmx⟩ := hx
    obtain ⟨⟨k, hk, hck⟩, hmy⟩ := hy
    have h1 := hmx k cy vy hk hck
    have h2 := hmy i cx vx hi hci
    have e := cidLt_connex h1 h2
    subst e
    have := hag i k hi hk cx vx vy hci hck
    subst this
    rfl

theorem treeSpecA_unique {W : Nat → View} (hcoh : ∀ i j, VCohA (W i) (W j)) {P : Nat → Prop} {v w : View}
    (hv : TreeSpecA W P v) (hw : TreeSpecA W P w) : v = w := by
  cases v with
  | live a F =>
    cases w with
    | live b G =>
      obtain ⟨⟨i, f, hi, hwi⟩, hPge, hPt⟩ := hv
      obtain ⟨⟨k, g, hk, hwk⟩, hQge, hQt⟩ := hw
      -- a and b are both minimal and attained
      obtain ⟨b', g', hg', hb'⟩ := hPge k hk
      rw [hwk] at hg'; cases hg'
      obtain ⟨a', f', hf', ha'⟩ := hQge i hi
      rw [hwi] at hf'; cases hf'
      have hab := cidLt_connex ha' hb'
      subst hab
      congr 1
      funext x
      refine topCell_unique_on ?_ (hPt x) (hQt x)
      intro p q hp hq
      obtain ⟨_, hpa⟩ := hp
      obtain ⟨_, hqa⟩ := hq
      cases hwp : W p with
      | tomb t => rw [hwp] at hpa; simp [atOf] at hpa
      | live ap fp =>
        cases hwq : W q with
        | tomb t => rw [hwq] at hqa; simp [atOf] at hqa
        | live aq fq =>
          rw [hwp] at hpa; rw [hwq] at hqa
          simp only [atOf, Option.some.injEq] at hpa hqa
          have hc := hcoh p q
          rw [hwp, hwq] at hc
          exact hc (by rw [hpa, hqa]) x
    | tomb d =>
      obtain ⟨_, hPge, _⟩ := hv
      obtain ⟨⟨k, hk, hwk⟩, _⟩ := hw
      obtain ⟨b, f, hf, _⟩ := hPge k hk
      rw [hf] at hwk; cases hwk
  | tomb c =>
    cases w with
    | live b G =>
      obtain ⟨⟨i, hi, hwi⟩, _⟩ := hv
      obtain ⟨_, hQge, _⟩ := hw
      obtain ⟨b', f, hf, _⟩ := hQge i hi
      rw [hf] at hwi; cases hwi
    | tomb d =>
      obtain ⟨⟨i, hi, hwi⟩, hminc⟩ := hv
      obtain ⟨⟨k, hk, hwk⟩, hmind⟩ := hw
      have h1 := hminc k d hk hwk
      have h2 := hmind i c hi hwi
      rw [cidLt_connex h1 h2]

theorem treeSpecA_evalVA {W : Nat → View} (hcoh : ∀ i j, VCohA (W i) (W j)) (t : Tree) :
    TreeSpecA W (fun i => i ∈ t.leaves) (t.evalVA W) := by
  induction t with
  | leaf i =>
    exact treeSpecA_congr (by intro j; simp [Tree.leaves]) (treeSpecA_leaf W i)
  | node l r ihl ihr =>
    exact treeSpecA_congr (by intro j; simp [Tree.leaves]) (treeSpecA_vapply hcoh ihl ihr)

end Kanidm.ReplMerge

