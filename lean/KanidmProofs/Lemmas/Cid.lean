import KanidmModel.Cid
/-! Helper lemmas for C07 (`KanidmProofs/C07.lean`). -/
namespace Kanidm.Cid
open Kanidm.Gen.Cid Kanidm.Gen.CidCommit

/-- A commit step list is safe when every backend commit is preceded by both the persisting of
`ts_max` inside the same backend transaction and the in-memory commit of `cid_max`. -/
def orderOkAux : List CStep → Bool → Bool → Bool
  | [], _, _ => true
  | st :: rest, p, c =>
    match st.kind with
    | .persistTsMax => orderOkAux rest true c
    | .cidCommit => orderOkAux rest p true
    | .beCommit => p && c && orderOkAux rest p c
    | .other => orderOkAux rest p c

def orderOk (steps : List CStep) : Bool := orderOkAux steps false false

/-- What is known about a running commit of a transaction stamped `cid` that started from
in-memory maximum `mem0` and durable `ts_max` `db0`; `p`/`c` = persist / cid-commit already ran. -/
structure WorkInv (cid mem0 : Cid) (db0 : Option Nat) (p c : Bool) (w : Work) : Prop where
  pend : p = true → w.pendingTs = some cid.ts
  memC : c = true → w.mem = cid
  memEither : w.mem = cid ∨ w.mem = mem0
  dur : w.durable = true → w.dbTs = some cid.ts ∧ w.mem = cid
  notDur : w.durable = false → w.dbTs = db0

/-- The final state of a commit run, whatever step failed. -/
structure WorkPost (cid mem0 : Cid) (db0 : Option Nat) (w : Work) : Prop where
  memEither : w.mem = cid ∨ w.mem = mem0
  dur : w.durable = true → w.dbTs = some cid.ts ∧ w.mem = cid
  notDur : w.durable = false → w.dbTs = db0

theorem runSteps_post (cid mem0 : Cid) (db0 : Option Nat) (fail : Option Nat) :
    ∀ (steps : List CStep) (i : Nat) (p c : Bool) (w : Work),
      orderOkAux steps p c = true → WorkInv cid mem0 db0 p c w →
      WorkPost cid mem0 db0 (runSteps cid steps i fail w).1 := by
  intro steps
  induction steps with
  | nil =>
    intro i p c w _ h
    exact ⟨h.memEither, h.dur, h.notDur⟩
  | cons st rest ih =>
    intro i p c w hok h
    unfold runSteps
    by_cases hf : (st.fallible && fail == some i) = true
    · simp only [hf, if_true]
      exact ⟨h.memEither, h.dur, h.notDur⟩
    · simp only [hf]
      obtain ⟨k, fb⟩ := st
      cases k with
      | persistTsMax =>
        have hok' : orderOkAux rest true c = true := by simpa [orderOkAux] using hok
        refine ih (i + 1) true c _ hok' ⟨?_, ?_, ?_, ?_, ?_⟩
        · intro _; simp [applyStep]
        · intro hc; simpa [applyStep] using h.memC hc
        · simpa [applyStep] using h.memEither
        · intro hd; simpa [applyStep] using h.dur (by simpa [applyStep] using hd)
        · intro hd; simpa [applyStep] using h.notDur (by simpa [applyStep] using hd)
      | cidCommit =>
        have hok' : orderOkAux rest p true = true := by simpa [orderOkAux] using hok
        refine ih (i + 1) p true _ hok' ⟨?_, ?_, ?_, ?_, ?_⟩
        · intro hp; simpa [applyStep] using h.pend hp
        · intro _; simp [applyStep]
        · simp [applyStep]
        · intro hd
          have := h.dur (by simpa [applyStep] using hd)
          simp [applyStep, this.1]
        · intro hd; simpa [applyStep] using h.notDur (by simpa [applyStep] using hd)
      | beCommit =>
        have hok' : p = true ∧ c = true ∧ orderOkAux rest p c = true := by
          simpa [orderOkAux, Bool.and_eq_true, and_assoc] using hok
        obtain ⟨hp, hc, hrest⟩ := hok'
        have hpend := h.pend hp
        have hmem := h.memC hc
        refine ih (i + 1) p c _ hrest ⟨?_, ?_, ?_, ?_, ?_⟩
        · intro _; simpa [applyStep] using hpend
        · intro _; simpa [applyStep] using hmem
        · simp [applyStep, hmem]
        · intro _; simp [applyStep, hpend, hmem]
        · intro hd; simp [applyStep] at hd
      | other =>
        have hok' : orderOkAux rest p c = true := by simpa [orderOkAux] using hok
        exact ih (i + 1) p c _ hok' (by simpa [applyStep] using h)

/-- The invariant of the event machine. -/
structure Inv (s : Server) : Prop where
  /-- the in-memory maximum dominates every committed transaction -/
  memDom : ∀ c ∈ s.hist, c.ts ≤ s.mem.ts
  /-- the durable maximum dominates every committed transaction -/
  dbDom : ∀ c ∈ s.hist, ∃ d, s.dbTs = some d ∧ c.ts ≤ d
  /-- an open transaction is stamped strictly above the in-memory maximum -/
  txnAbove : ∀ t, s.txn = some t → s.mem.ts < t.cid.ts
  /-- committed cids strictly increase -/
  sorted : s.hist.Pairwise (fun a b => cidLt a b = true)

end Kanidm.Cid
