import KanidmModel.Filter.Idl
/-
Helper lemmas for C01: the approximation invariant of `filter2idl` and its step lemmas.
-/
namespace Kanidm.Filter

/-- What an id list claims about the set `P` of ids it stands for: `Indexed` = exactly `P`,
`Partial`/`PartialThreshold` = a superset of `P`, `AllIds` = nothing. -/

def Approx (P : Nat → Prop) (i : IdList) : Prop :=
  match i.kind with
  | .idxd => ∀ id, id ∈ i.ids ↔ P id
  | .part => ∀ id, P id → id ∈ i.ids
  | .thres => ∀ id, P id → id ∈ i.ids
  | .allIds => True

def RetOk (P : Nat → Prop) (r : IdList) : Prop :=
  ∀ P' : Nat → Prop, (∀ id, P' id → P id) → Approx P' r

theorem mem_interL {a b : List Nat} {x : Nat} : x ∈ interL a b ↔ x ∈ a ∧ x ∈ b := by
  simp [interL, List.mem_filter]
theorem mem_diffL {a b : List Nat} {x : Nat} : x ∈ diffL a b ↔ x ∈ a ∧ x ∉ b := by
  simp [diffL, List.mem_filter]
theorem mem_unionL {a b : List Nat} {x : Nat} : x ∈ unionL a b ↔ x ∈ a ∨ x ∈ b := by
  simp only [unionL, List.mem_append, List.mem_filter, List.contains_eq_mem, Bool.not_eq_eq_eq_not,
    Bool.not_true, decide_eq_false_iff_not]
  by_cases h : x ∈ a <;> simp [h]

theorem isEmpty_no_mem {l : List Nat} (h : l.isEmpty = true) (x : Nat) : x ∉ l := by
  cases l with
  | nil => simp
  | cons a t => simp at h

theorem retOk_thres {R : Nat → Prop} {r : List Nat} {b : Bool} (h : ∀ id, R id → id ∈ r) :
    RetOk R ⟨.thres, r, b⟩ := by
  intro P' hP' id hid
  exact h id (hP' id hid)

theorem retOk_empty {R : Nat → Prop} (h : ∀ id, ¬ R id) : RetOk R ⟨.idxd, [], false⟩ := by
  intro P' hP' id
  simp only [List.not_mem_nil, false_iff]
  exact fun hp => h id (hP' id hp)

theorem applyArm_ok (arm : Arm) (thres rem : Nat) (c i : IdList) (R : Nat → Prop)
    (hsup : (arm.thresRet = true ∨ arm.emptyRet = true) → ∀ id, R id → id ∈ (arm.op.apply c i).1)
    (hout : Approx R ⟨arm.out, (arm.op.apply c i).1, (arm.op.apply c i).2⟩) :
    match applyArm arm thres rem c i with
    | .ret r => RetOk R r
    | .cont c' => Approx R c' := by
  unfold applyArm
  by_cases h1 : (arm.thresRet && belowThreshold (arm.op.apply c i).1 (arm.op.apply c i).2 thres
      && decide (rem > 0)) = true
  · simp only [h1, if_true]
    simp only [Bool.and_eq_true] at h1
    exact retOk_thres (hsup (Or.inl h1.1.1))
  · by_cases h2 : (arm.emptyRet && (arm.op.apply c i).1.isEmpty) = true
    · simp only [h1, h2, if_true, if_false]
      simp only [Bool.and_eq_true] at h2
      exact retOk_empty (fun id hr => isEmpty_no_mem h2.2 id (hsup (Or.inr h2.1) id hr))
    · simp only [h1, h2, if_false]
      exact hout

theorem andArm_step {P Q : Nat → Prop} {c i : IdList} (thres rem : Nat)
    (hc : Approx P c) (hi : Approx Q i) :
    match applyArm (andArm c.kind i.kind) thres rem c i with
    | .ret r => RetOk (fun id => P id ∧ Q id) r
    | .cont c' => Approx (fun id => P id ∧ Q id) c' := by
  apply applyArm_ok
  · obtain ⟨ck, cs, cc⟩ := c
    obtain ⟨ik, is, ic⟩ := i
    cases ck <;> cases ik <;> simp only [andArm, SetOp.apply, Approx] at * <;>
      intro h id <;> (try simp only [mem_interL]) <;> grind
  · obtain ⟨ck, cs, cc⟩ := c
    obtain ⟨ik, is, ic⟩ := i
    cases ck <;> cases ik <;> simp only [andArm, SetOp.apply, Approx] at * <;>
      (try trivial) <;> intro id <;> (try simp only [mem_interL]) <;> grind

theorem approx_congr {P Q : Nat → Prop} {i : IdList} (h : ∀ id, P id ↔ Q id) (hp : Approx P i) :
    Approx Q i := by
  have : P = Q := funext (fun id => propext (h id))
  exact this ▸ hp

theorem retOk_mono {P Q : Nat → Prop} {r : IdList} (h : ∀ id, Q id → P id) (hp : RetOk P r) :
    RetOk Q r := fun P' hP' => hp P' (fun id hid => h id (hP' id hid))

theorem retOk_approx {P : Nat → Prop} {r : IdList} (hp : RetOk P r) : Approx P r :=
  hp P (fun _ h => h)

theorem notArm_step {P Q : Nat → Prop} {c i : IdList} (thres rem : Nat)
    (hc : Approx P c) (hi : Approx Q i) :
    match applyArm (notArm c.kind (notPre i).kind) thres rem c (notPre i) with
    | .ret r => RetOk (fun id => P id ∧ ¬ Q id) r
    | .cont c' => Approx (fun id => P id ∧ ¬ Q id) c' := by
  apply applyArm_ok
  · obtain ⟨ck, cs, cc⟩ := c
    obtain ⟨ik, is, ic⟩ := i
    cases ck <;> cases ik <;> simp only [notArm, notPre, notPreKind, SetOp.apply, Approx] at * <;>
      intro h id <;> (try simp only [mem_diffL]) <;> grind
  · obtain ⟨ck, cs, cc⟩ := c
    obtain ⟨ik, is, ic⟩ := i
    cases ck <;> cases ik <;> simp only [notArm, notPre, notPreKind, SetOp.apply, Approx] at * <;>
      (try trivial) <;> intro id <;> (try simp only [mem_diffL]) <;> grind

theorem firstCheck_ok {P : Nat → Prop} {c : IdList} (thres rem : Nat) (hc : Approx P c) :
    match firstCheck thres rem c with
    | .ret r => RetOk P r
    | .cont c' => Approx P c' := by
  obtain ⟨ck, cs, cc⟩ := c
  have key : ck ≠ .allIds → ∀ id, P id → id ∈ cs := by
    intro hk id hp
    cases ck <;> simp only [Approx] at hc
    · exact absurd rfl hk
    · exact hc id hp
    · exact hc id hp
    · exact (hc id).2 hp
  unfold firstCheck
  cases ck
  · exact hc
  all_goals
    simp only
    by_cases h1 : (belowThreshold cs cc thres && decide (rem > 0)) = true
    · simp only [h1, if_true]
      exact retOk_thres (key (by decide))
    · by_cases h2 : cs.isEmpty = true
      · simp only [h1, h2, if_true]
        exact retOk_empty (fun id hr => isEmpty_no_mem h2 id (key (by decide) id hr))
      · simp only [h1, h2]
        exact hc

theorem andPosLoop_ok {α : Type} (Pp : α → Nat → Prop) (ip : α → IdList) (thres : Nat) :
    ∀ (ps : List α) (c : IdList) (rem : Nat) (P : Nat → Prop), Approx P c →
      (∀ x ∈ ps, Approx (Pp x) (ip x)) →
      match (andPosLoop thres c rem (ps.map ip)).1 with
      | .ret r => RetOk (fun id => P id ∧ ∀ x ∈ ps, Pp x id) r
      | .cont c' => Approx (fun id => P id ∧ ∀ x ∈ ps, Pp x id) c' := by
  intro ps
  induction ps with
  | nil =>
    intro c rem P hc _
    simp only [List.map_nil, andPosLoop]
    exact approx_congr (fun id => by simp) hc
  | cons x xs ih =>
    intro c rem P hc hall
    have hx := hall x (List.mem_cons_self)
    have hstep := andArm_step (P := P) (Q := Pp x) thres (rem - 1) hc hx
    simp only [List.map_cons, andPosLoop]
    cases hs : applyArm (andArm c.kind (ip x).kind) thres (rem - 1) c (ip x) with
    | ret r =>
      rw [hs] at hstep
      simp only
      exact retOk_mono (fun id h => ⟨h.1, h.2 x (List.mem_cons_self)⟩) hstep
    | cont c' =>
      rw [hs] at hstep
      simp only
      have := ih c' (rem - 1) (fun id => P id ∧ Pp x id) hstep
        (fun y hy => hall y (List.mem_cons_of_mem _ hy))
      have heq : ∀ id, ((P id ∧ Pp x id) ∧ ∀ y ∈ xs, Pp y id) ↔ (P id ∧ ∀ y ∈ x :: xs, Pp y id) := by
        intro id; simp only [List.mem_cons, forall_eq_or_imp]; exact and_assoc
      cases hl : (andPosLoop thres c' (rem - 1) (xs.map ip)).1 with
      | ret r =>
        rw [hl] at this
        exact retOk_mono (fun id h => (heq id).2 h) this
      | cont c'' =>
        rw [hl] at this
        exact approx_congr heq this

theorem andNegLoop_ok {β : Type} (Pn : β → Nat → Prop) (inn : β → IdList) (thres : Nat) :
    ∀ (ns : List β) (c : IdList) (rem : Nat) (P : Nat → Prop), Approx P c →
      (∀ y ∈ ns, Approx (Pn y) (inn y)) →
      Approx (fun id => P id ∧ ∀ y ∈ ns, ¬ Pn y id) (andNegLoop thres c rem (ns.map inn)) := by
  intro ns
  induction ns with
  | nil =>
    intro c rem P hc _
    simp only [List.map_nil, andNegLoop]
    exact approx_congr (fun id => by simp) hc
  | cons y ys ih =>
    intro c rem P hc hall
    have hy := hall y (List.mem_cons_self)
    have hstep := notArm_step (P := P) (Q := Pn y) thres (rem - 1) hc hy
    simp only [List.map_cons, andNegLoop]
    have heq : ∀ id, ((P id ∧ ¬ Pn y id) ∧ ∀ z ∈ ys, ¬ Pn z id) ↔ (P id ∧ ∀ z ∈ y :: ys, ¬ Pn z id) := by
      intro id; simp only [List.mem_cons, forall_eq_or_imp]; exact and_assoc
    cases hs : applyArm (notArm c.kind (notPre (inn y)).kind) thres (rem - 1) c (notPre (inn y)) with
    | ret r =>
      rw [hs] at hstep
      simp only
      exact hstep _ (fun id h => ⟨h.1, h.2 y (List.mem_cons_self)⟩)
    | cont c' =>
      rw [hs] at hstep
      simp only
      exact approx_congr heq (ih c' (rem - 1) (fun id => P id ∧ ¬ Pn y id) hstep
        (fun z hz => hall z (List.mem_cons_of_mem _ hz)))

theorem andCombine_approx {α β : Type} (Pp : α → Nat → Prop) (ip : α → IdList)
    (Pn : β → Nat → Prop) (inn : β → IdList) (thres : Nat) (pos : List α) (neg : List β)
    (hp : ∀ x ∈ pos, Approx (Pp x) (ip x)) (hn : ∀ y ∈ neg, Approx (Pn y) (inn y))
    (hne : pos ≠ []) :
    Approx (fun id => (∀ x ∈ pos, Pp x id) ∧ (∀ y ∈ neg, ¬ Pn y id))
      (andCombine thres (pos.map ip) (neg.map inn)) := by
  cases pos with
  | nil => exact absurd rfl hne
  | cons x xs =>
    simp only [List.map_cons, andCombine]
    have hx := hp x (List.mem_cons_self)
    have h1 := firstCheck_ok (P := Pp x) thres
      ((ip x :: xs.map ip).length + (neg.map inn).length - 1) hx
    cases hf : firstCheck thres ((ip x :: xs.map ip).length + (neg.map inn).length - 1) (ip x) with
    | ret r =>
      rw [hf] at h1
      simp only
      exact h1 _ (fun id h => h.1 x (List.mem_cons_self))
    | cont c =>
      rw [hf] at h1
      simp only
      have h2 := andPosLoop_ok Pp ip thres xs c
        ((ip x :: xs.map ip).length + (neg.map inn).length - 1) (Pp x) h1
        (fun y hy => hp y (List.mem_cons_of_mem _ hy))
      have heq : ∀ id, (Pp x id ∧ ∀ y ∈ xs, Pp y id) ↔ (∀ y ∈ x :: xs, Pp y id) := by
        intro id; simp only [List.mem_cons, forall_eq_or_imp]
      cases hl : andPosLoop thres c ((ip x :: xs.map ip).length + (neg.map inn).length - 1)
          (xs.map ip) with
      | mk st rem' =>
        rw [hl] at h2
        cases st with
        | ret r =>
          simp only at h2 ⊢
          exact h2 _ (fun id h => (heq id).2 h.1)
        | cont c' =>
          simp only at h2 ⊢
          have h3 := andNegLoop_ok Pn inn thres neg c' rem' _ h2 hn
          exact approx_congr (fun id => by rw [heq id]) h3

/-! ### OR -/

theorem orLoop_ok {α : Type} (Po : α → Nat → Prop) (io : α → IdList) :
    ∀ (l : List α) (acc : OrAcc) (A : Nat → Prop),
      (if acc.part then (∀ id, A id → id ∈ acc.result) else (∀ id, id ∈ acc.result ↔ A id)) →
      (∀ x ∈ l, Approx (Po x) (io x)) →
      Approx (fun id => A id ∨ ∃ x ∈ l, Po x id) (orLoop acc (l.map io)) := by
  intro l
  induction l with
  | nil =>
    intro acc A hacc _
    simp only [List.map_nil, orLoop]
    by_cases hp : acc.part = true
    · simp only [hp, if_true] at hacc ⊢
      by_cases ht : acc.thres = true
      · simp only [ht, if_true, Approx]; intro id h; simpa using hacc id (by simpa using h)
      · simp only [ht, Approx]; intro id h; simpa using hacc id (by simpa using h)
    · simp only [hp] at hacc ⊢
      simp only [Approx]; intro id; simpa using hacc id
  | cons x xs ih =>
    intro acc A hacc hall
    have hx := hall x (List.mem_cons_self)
    simp only [List.map_cons, orLoop]
    have heq : ∀ id, ((A id ∨ Po x id) ∨ ∃ y ∈ xs, Po y id) ↔ (A id ∨ ∃ y ∈ x :: xs, Po y id) := by
      intro id; simp only [List.mem_cons, exists_eq_or_imp]; exact or_assoc
    have hsup : ∀ p t, orArm (io x).kind = some (p, t) → p = true ∨ acc.part = true →
        ∀ id, A id ∨ Po x id → id ∈ unionL acc.result (io x).ids := by
      intro p t hk hp id h
      rw [mem_unionL]
      cases h with
      | inl h =>
        by_cases hpp : acc.part = true
        · simp only [hpp, if_true] at hacc; exact Or.inl (hacc id h)
        · simp only [hpp] at hacc; exact Or.inl ((hacc id).2 h)
      | inr h =>
        refine Or.inr ?_
        cases hkk : (io x).kind <;> simp only [Approx, hkk] at hx
        · simp [hkk, orArm] at hk
        · exact hx id h
        · exact hx id h
        · exact (hx id).2 h
    cases hk : orArm (io x).kind with
    | none => simp only [Approx]
    | some pt =>
      obtain ⟨p, t⟩ := pt
      simp only
      refine approx_congr heq (ih _ (fun id => A id ∨ Po x id) ?_
        (fun y hy => hall y (List.mem_cons_of_mem _ hy)))
      by_cases hp : (acc.part || p) = true
      · simp only [hp, if_true]
        refine hsup p t hk ?_
        simp only [Bool.or_eq_true] at hp
        exact hp.symm
      · simp only [hp]
        simp only [Bool.or_eq_true, not_or] at hp
        have hidx : (io x).kind = .idxd := by
          cases hkk : (io x).kind <;> simp [hkk, orArm] at hk <;> simp_all
        simp only [Approx, hidx] at hx
        simp only [hp.1] at hacc
        intro id
        rw [mem_unionL, hacc id, hx id]

/-! ### substring keys: every trigraph of a needle is a trigraph of any value containing it -/

theorem isInfix_iff (xs ys : List Nat) : isInfix xs ys = true ↔ xs <:+: ys := by
  induction ys with
  | nil => simp [isInfix, List.isEmpty_iff]
  | cons y ys ih =>
    simp only [isInfix, Bool.or_eq_true, ih, List.isPrefixOf_iff_prefix, List.infix_cons_iff]

theorem mem_windows_infix (k : Nat) : ∀ (l w : List Nat), w ∈ windows k l → w.length = k ∧ w <:+: l := by
  intro l
  induction l with
  | nil => intro w h; simp [windows] at h
  | cons x xs ih =>
    intro w h
    simp only [windows] at h
    split at h
    · rename_i hk
      cases h with
      | head =>
        exact ⟨by simp only [List.length_take]; omega, (List.take_prefix _ _).isInfix⟩
      | tail _ h =>
        have := ih w h
        exact ⟨this.1, List.infix_cons this.2⟩
    · simp at h

theorem infix_mem_windows (k : Nat) (hk : 1 ≤ k) :
    ∀ (l w : List Nat), w.length = k → w <:+: l → w ∈ windows k l := by
  intro l
  induction l with
  | nil =>
    intro w hl hw
    have : w = [] := List.infix_nil.mp hw
    subst this
    simp at hl; omega
  | cons x xs ih =>
    intro w hl hw
    simp only [windows]
    have hlen := hw.length_le
    rw [hl] at hlen
    rw [if_pos hlen]
    rcases List.infix_cons_iff.mp hw with hpre | hin
    · have : w = (x :: xs).take k := by
        rw [← hl]; exact (List.prefix_iff_eq_take.mp hpre)
      rw [this]; exact List.mem_cons_self
    · exact List.mem_cons_of_mem _ (ih w hl hin)

theorem mem_trigraphs_infix {l m w : List Nat} (hlm : l <:+: m) (hw : w ∈ trigraphs l) :
    w ∈ trigraphs m := by
  simp only [trigraphs, List.mem_append] at hw ⊢
  rcases hw with (h | h) | h
  · have := mem_windows_infix 3 l w h
    exact Or.inl (Or.inl (infix_mem_windows 3 (by omega) m w this.1 (this.2.trans hlm)))
  · have := mem_windows_infix 2 l w h
    exact Or.inl (Or.inr (infix_mem_windows 2 (by omega) m w this.1 (this.2.trans hlm)))
  · have := mem_windows_infix 1 l w h
    exact Or.inr (infix_mem_windows 1 (by omega) m w this.1 (this.2.trans hlm))

theorem trigraphs_ne_nil {l : List Nat} (h : l ≠ []) : trigraphs l ≠ [] := by
  cases l with
  | nil => exact absurd rfl h
  | cons x xs =>
    intro hn
    have : [x] ∈ trigraphs (x :: xs) := by
      simp only [trigraphs, List.mem_append]
      refine Or.inr ?_
      simp [windows]
    rw [hn] at this
    simp at this

/-- How the per-value substring relations relate to index keys: whenever a stored value `x`
contains / starts with / ends with the needle `n`, every index key of the needle is among the
substring index keys of `x`. -/
def SubSem (S : ValSem) : Prop :=
  ∀ x n key, (S.sub x n = true ∨ S.stw x n = true ∨ S.enw x n = true) → subKey n = some key →
    ∀ w ∈ trigraphs key, w ∈ subKeysOf x

theorem subSem_std : SubSem ValSem.std := by
  intro x n key h hk w hw
  cases x with
  | num a => cases n <;> simp [ValSem.std] at h
  | str xs =>
    cases n with
    | num b => simp [ValSem.std] at h
    | str ns =>
      simp only [subKey, Option.some.injEq] at hk
      subst hk
      simp only [subKeysOf]
      have hin : ns <:+: xs := by
        simp only [ValSem.std] at h
        rcases h with h | h | h
        · exact (isInfix_iff ns xs).mp h
        · exact (List.isPrefixOf_iff_prefix.mp h).isInfix
        · exact (List.isSuffixOf_iff_suffix.mp h).isInfix
      exact mem_trigraphs_infix (List.IsInfix.map lowerNat hin) hw

/-! ### the index hypothesis and the meaning of a filter over the database -/

/-- The index tables that exist mirror the stored entries (C03's invariant, restricted to what
`filter2idl` reads). `uniform`: a table exists for all keys or for none. -/
structure IdxSound (w : World) (idx : Idx) : Prop where
  eq : ∀ a v s, idx a .equality v = some s →
    ∀ id, id ∈ s ↔ (id ∈ w.live ∧ (w.ent id a).contains v = true)
  pres : ∀ a s, idx a .presence presKey = some s →
    ∀ id, id ∈ s ↔ (id ∈ w.live ∧ (w.ent id a).isEmpty = false)
  sub : ∀ a k s, idx a .substring (.str k) = some s →
    ∀ id, id ∈ s ↔ (id ∈ w.live ∧ ∃ x ∈ w.ent id a, k ∈ subKeysOf x)
  uniform : ∀ a t k k', (idx a t k).isSome = (idx a t k').isSome

/-- `id` is a stored entry that satisfies `f` under ordinary boolean semantics. -/
def sem (S : ValSem) (w : World) (f : F) (id : Nat) : Prop :=
  id ∈ w.live ∧ f.matches S (w.ent id) = true

theorem subLoop_sup (get : List Nat → Option (List Nat × Bool)) (R : Nat → Prop) :
    ∀ (ks : List (List Nat)) (idl : List Nat × Bool), (∀ id, R id → id ∈ idl.1) →
      (∀ k ∈ ks, ∃ s, get k = some s ∧ ∀ id, R id → id ∈ s.1) →
      ∀ id, R id → id ∈ (subLoop get idl ks).1 := by
  intro ks
  induction ks with
  | nil => intro idl h _ id hr; simpa [subLoop] using h id hr
  | cons k ks ih =>
    intro idl h hall id hr
    obtain ⟨s, hs, hsup⟩ := hall k (List.mem_cons_self)
    simp only [subLoop, hs]
    have hin : ∀ id, R id → id ∈ interL s.1 idl.1 := fun id hr => mem_interL.mpr ⟨hsup id hr, h id hr⟩
    split
    · exact hin id hr
    · exact ih _ hin (fun k' hk' => hall k' (List.mem_cons_of_mem _ hk')) id hr

theorem idlSub_ok {w : World} {idx : Idx} (rep : Rep) (hI : IdxSound w idx) (a : Nat) (key : List Nat)
    (hne : key ≠ []) (R : Nat → Prop)
    (hR : ∀ id, R id → id ∈ w.live ∧ ∃ x ∈ w.ent id a, ∀ t ∈ trigraphs key, t ∈ subKeysOf x) :
    Approx R (idlSub idx rep a key) := by
  unfold idlSub
  cases ht : trigraphs key with
  | nil => exact absurd ht (trigraphs_ne_nil hne)
  | cons k ks =>
    simp only
    have hkey : ∀ k' ∈ k :: ks, ∀ s, idx a .substring (.str k') = some s → ∀ id, R id → id ∈ s := by
      intro k' hk' s hs id hr
      obtain ⟨hl, x, hx, hall⟩ := hR id hr
      exact (hI.sub a k' s hs id).2 ⟨hl, x, hx, hall k' (ht ▸ hk')⟩
    cases h0 : idx a .substring (.str k) with
    | none => simp only [Approx]
    | some idl =>
      simp only
      have h0sup := hkey k (List.mem_cons_self) idl h0
      split
      · simp only [Approx]
        refine subLoop_sup _ R ks (idl, _) h0sup ?_
        intro k' hk'
        have hu := hI.uniform a .substring (.str k) (.str k')
        rw [h0] at hu
        cases hk2 : idx a .substring (.str k') with
        | none => rw [hk2] at hu; simp at hu
        | some s =>
          exact ⟨(s, rep a .substring (.str k')), by simp [hk2], hkey k' (List.mem_cons_of_mem _ hk') s hk2⟩
      · simp only [Approx]; exact h0sup

theorem needleOk_key {v : Val} {key : List Nat} (h : needleOk v = true) (hk : subKey v = some key) :
    key ≠ [] := by
  cases v with
  | num n => simp [subKey] at hk
  | str s =>
    cases s with
    | nil => simp [needleOk] at h
    | cons c cs => simp only [subKey, Option.some.injEq] at hk; subst hk; simp

theorem idlSubTerm_ok {S : ValSem} (hS : SubSem S) {w : World} {idx : Idx} (rep : Rep) (hI : IdxSound w idx)
    (a : Nat) (v : Val) (s : Option Nat) (hsafe : (s.isNone || needleOk v) = true)
    (rel : Val → Val → Bool)
    (hrel : ∀ x, rel x v = true → (S.sub x v = true ∨ S.stw x v = true ∨ S.enw x v = true)) :
    Approx (fun id => id ∈ w.live ∧ (w.ent id a).any (fun x => rel x v) = true)
      (idlSubTerm idx rep a v s) := by
  unfold idlSubTerm
  cases hs : s.isSome with
  | false => simp only [Approx]
  | true =>
    cases hk : subKey v with
    | none => simp only [Approx]
    | some key =>
      simp only
      have hn : needleOk v = true := by
        cases s with
        | none => simp at hs
        | some _ => simpa using hsafe
      refine idlSub_ok rep hI a key (needleOk_key hn hk) _ ?_
      intro id ⟨hl, hany⟩
      obtain ⟨x, hx, hr⟩ := List.any_eq_true.mp hany
      exact ⟨hl, x, hx, fun t ht => hS x v key (hrel x hr) hk t ht⟩

theorem idlEq_ok {w : World} {idx : Idx} (rep : Rep) (hI : IdxSound w idx) (a : Nat) (v : Val) (s : Option Nat) :
    Approx (fun id => id ∈ w.live ∧ (w.ent id a).contains v = true) (idlEq idx rep a v s) := by
  unfold idlEq
  split
  · cases h : idx a .equality v with
    | none => simp only [Approx]
    | some l => simp only [Approx]; exact hI.eq a v l h
  · simp only [Approx]

theorem idlPres_ok {w : World} {idx : Idx} (rep : Rep) (hI : IdxSound w idx) (a : Nat) (s : Option Nat) :
    Approx (fun id => id ∈ w.live ∧ (!(w.ent id a).isEmpty) = true) (idlPres idx rep a s) := by
  unfold idlPres
  split
  · cases h : idx a .presence presKey with
    | none => simp only [Approx]
    | some l =>
      simp only [Approx]
      intro id
      rw [hI.pres a l h id]
      simp
  · simp only [Approx]

theorem idlLt_ok {S : ValSem} {w : World} {idx : Idx} (rep : Rep) (hI : IdxSound w idx) (a : Nat) (v : Val)
    (s : Option Nat) :
    Approx (fun id => id ∈ w.live ∧ (w.ent id a).any (fun x => S.lt x v) = true)
      (idlLt idx rep a s) := by
  unfold idlLt
  split
  · cases h : idx a .presence presKey with
    | none => simp only [Approx]
    | some l =>
      simp only [Approx]
      intro id ⟨hl, hany⟩
      refine (hI.pres a l h id).2 ⟨hl, ?_⟩
      cases hh : w.ent id a with
      | nil => rw [hh] at hany; simp at hany
      | cons _ _ => rfl
  · simp only [Approx]

/-! ### list views of the mutual definitions -/

/-- the inner filter of an `AndNot` -/
def F.inner? : F → Option F
  | .andnot g _ => some g
  | _ => none

theorem idlAll_eq (idx : Idx) (rep : Rep) (thres : Nat) (l : List F) :
    F.idlAll idx rep thres l = l.map (fun f => f.idl idx rep thres) := by
  induction l with
  | nil => rfl
  | cons f fs ih => simp [F.idlAll, ih]

theorem idlPos_eq (idx : Idx) (rep : Rep) (thres : Nat) (l : List F) :
    F.idlPos idx rep thres l = (l.filter (fun f => !f.isAndNot)).map (fun f => f.idl idx rep thres) := by
  induction l with
  | nil => rfl
  | cons f fs ih => cases f <;> simp [F.idlPos, F.isAndNot, ih]

theorem idlNeg_eq (idx : Idx) (rep : Rep) (thres : Nat) (l : List F) :
    F.idlNeg idx rep thres l = (l.filterMap F.inner?).map (fun f => f.idl idx rep thres) := by
  induction l with
  | nil => rfl
  | cons f fs ih => cases f <;> simp [F.idlNeg, F.inner?, List.filterMap_cons, ih]

theorem safeAll_iff (l : List F) : F.safeAll l = true ↔ ∀ f ∈ l, f.safe = true := by
  induction l with
  | nil => simp [F.safeAll]
  | cons f fs ih => simp [F.safeAll, ih]

theorem safeAnd_iff (l : List F) : F.safeAnd l = true ↔
    ∀ f ∈ l, (f.isAndNot = false → f.safe = true) ∧ (∀ g, f.inner? = some g → g.safe = true) := by
  induction l with
  | nil => simp [F.safeAnd]
  | cons f fs ih => cases f <;> simp [F.safeAnd, F.isAndNot, F.inner?, ih]

theorem hasPos_iff (l : List F) : F.hasPos l = true ↔ l.filter (fun f => !f.isAndNot) ≠ [] := by
  induction l with
  | nil => simp [F.hasPos]
  | cons f fs ih => cases f <;> simp [F.hasPos, F.isAndNot, ih]

theorem safe_not_andnot {f : F} (h : f.safe = true) : f.isAndNot = false := by
  cases f <;> simp [F.safe, F.isAndNot] at h ⊢

/-! ### the central lemma -/

theorem filter2idl_sound_aux (S : ValSem) (hS : SubSem S) (w : World) (idx : Idx) (rep : Rep)
    (hI : IdxSound w idx) (thres : Nat) :
    ∀ f : F, (f.safe = true → Approx (sem S w f) (f.idl idx rep thres)) ∧
      (∀ g, f.inner? = some g → g.safe = true → Approx (sem S w g) (g.idl idx rep thres)) := by
  intro f
  induction f using F.ind with
  | heq a v s =>
    refine ⟨fun _ => ?_, fun g h => by simp [F.inner?] at h⟩
    simp only [F.idl]
    exact approx_congr (fun id => by simp [sem, F.matches]) (idlEq_ok rep hI a v s)
  | hcnt a v s =>
    refine ⟨fun hsafe => ?_, fun g h => by simp [F.inner?] at h⟩
    simp only [F.idl]
    exact approx_congr (fun id => by simp [sem, F.matches])
      (idlSubTerm_ok hS rep hI a v s (by simpa [F.safe] using hsafe) S.sub (fun x h => Or.inl h))
  | hstw a v s =>
    refine ⟨fun hsafe => ?_, fun g h => by simp [F.inner?] at h⟩
    simp only [F.idl]
    exact approx_congr (fun id => by simp [sem, F.matches])
      (idlSubTerm_ok hS rep hI a v s (by simpa [F.safe] using hsafe) S.stw
        (fun x h => Or.inr (Or.inl h)))
  | henw a v s =>
    refine ⟨fun hsafe => ?_, fun g h => by simp [F.inner?] at h⟩
    simp only [F.idl]
    exact approx_congr (fun id => by simp [sem, F.matches])
      (idlSubTerm_ok hS rep hI a v s (by simpa [F.safe] using hsafe) S.enw
        (fun x h => Or.inr (Or.inr h)))
  | hpres a s =>
    refine ⟨fun _ => ?_, fun g h => by simp [F.inner?] at h⟩
    simp only [F.idl]
    exact approx_congr (fun id => by simp [sem, F.matches]) (idlPres_ok rep hI a s)
  | hlt a v s =>
    refine ⟨fun _ => ?_, fun g h => by simp [F.inner?] at h⟩
    simp only [F.idl]
    exact approx_congr (fun id => by simp [sem, F.matches]) (idlLt_ok (S := S) rep hI a v s)
  | hor l s ih =>
    refine ⟨fun hsafe => ?_, fun g h => by simp [F.inner?] at h⟩
    have hall : ∀ f ∈ l, f.safe = true := (safeAll_iff l).mp (by simpa [F.safe] using hsafe)
    have := orLoop_ok (sem S w) (fun f => f.idl idx rep thres) l ⟨[], false, false, false⟩ (fun _ => False)
      (by simp) (fun f hf => (ih f hf).1 (hall f hf))
    simp only [F.idl, idlAll_eq]
    refine approx_congr (fun id => ?_) this
    simp only [sem, F.matches_or, List.any_eq_true, false_or]
    constructor
    · rintro ⟨f, hf, hl, hm⟩; exact ⟨hl, f, hf, hm⟩
    · rintro ⟨hl, f, hf, hm⟩; exact ⟨f, hf, hl, hm⟩
  | hand l s ih =>
    refine ⟨fun hsafe => ?_, fun g h => by simp [F.inner?] at h⟩
    simp only [F.safe, Bool.and_eq_true] at hsafe
    have hpos := (hasPos_iff l).mp hsafe.1
    have hsa := (safeAnd_iff l).mp hsafe.2
    have := andCombine_approx (sem S w) (fun f => f.idl idx rep thres) (sem S w)
      (fun f => f.idl idx rep thres) thres (l.filter (fun f => !f.isAndNot)) (l.filterMap F.inner?)
      (by
        intro f hf
        simp only [List.mem_filter, Bool.not_eq_true'] at hf
        exact (ih f hf.1).1 ((hsa f hf.1).1 hf.2))
      (by
        intro g hg
        obtain ⟨f, hf, hfg⟩ := List.mem_filterMap.mp hg
        exact (ih f hf).2 g hfg ((hsa f hf).2 g hfg))
      hpos
    simp only [F.idl, idlPos_eq, idlNeg_eq]
    refine approx_congr (fun id => ?_) this
    simp only [sem, F.matches_and, List.all_eq_true, List.mem_filter, Bool.not_eq_true',
      List.mem_filterMap]
    constructor
    · rintro ⟨hp, hn⟩
      obtain ⟨f0, hf0⟩ := List.exists_mem_of_ne_nil _ hpos
      simp only [List.mem_filter, Bool.not_eq_true'] at hf0
      have hlive := (hp f0 hf0).1
      refine ⟨hlive, fun f hf => ?_⟩
      cases hfa : f.isAndNot with
      | false => exact (hp f ⟨hf, hfa⟩).2
      | true =>
        cases f <;> simp [F.isAndNot] at hfa
        rename_i g s'
        have := hn g ⟨_, hf, rfl⟩
        simp only [F.matches_andnot, Bool.not_eq_eq_eq_not, Bool.not_true]
        cases hm : g.matches S (w.ent id) with
        | false => rfl
        | true => exact absurd ⟨hlive, hm⟩ this
    · rintro ⟨hl, hall⟩
      refine ⟨fun f hf => ⟨hl, hall f hf.1⟩, ?_⟩
      rintro g ⟨f, hf, hfg⟩ ⟨_, hm⟩
      cases f <;> simp [F.inner?] at hfg
      subst hfg
      have := hall _ hf
      simp [hm] at this
  | hinv a =>
    refine ⟨fun _ => ?_, fun g h => by simp [F.inner?] at h⟩
    simp [sem, F.idl, Approx]
  | hinc l s ih =>
    refine ⟨fun hsafe => by simp [F.safe] at hsafe, fun g h => by simp [F.inner?] at h⟩
  | hnot g s ih =>
    refine ⟨fun hsafe => by simp [F.safe] at hsafe, fun g' h hs => ?_⟩
    simp only [F.inner?, Option.some.injEq] at h
    subst h
    exact ih.1 hs

end Kanidm.Filter
