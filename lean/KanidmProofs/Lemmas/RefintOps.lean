import KanidmProofs.Lemmas.Refint
/-!
C16: every server operation of `KanidmModel/Refint.lean` preserves `Inv`
(`inv_create … inv_repl`), under the side conditions `stepOk`.
-/
namespace Kanidm.Refint
open Kanidm.Gen.Refint

/-! ## side conditions of a step (decidable) -/

/-- Every session id stored in the state. -/
def stateSids (s : State) : List Nat := s.flatMap (fun e => e.attrs.flatMap (·.2.sids))

/-- What the proofs need from the environment of one step:
* `delete`: no OAuth2 session id equals the uuid of an entry (`remove(Refer(u))` on a session map
  treats `u` as a session id first), and the `directmemberof` values memberof stashes are live;
* `repl`: no session id equals an entry uuid, a referenced uuid or a conflict uuid. -/
def stepOk (s : State) : Op → Bool
  | .delete _ stash =>
    (stateSids s).all (fun sid => !(s.map (·.uuid)).contains sid)
      && stash.all (fun p => p.2.all (isLive s))
  | .repl cand conflicts =>
    let s1 := upsertAll s cand
    (stateSids s1).all (fun sid =>
      !((s1.map (·.uuid)) ++ refSet cand ++ conflicts ++ cand.map (·.uuid)).contains sid)
  | _ => true

def histOk : State → List Op → Bool
  | _, [] => true
  | s, op :: ops => stepOk s op && histOk (apply s op) ops

theorem mem_stateSids {s : State} {u : Nat} :
    u ∈ stateSids s ↔ ∃ e ∈ s, ∃ p ∈ e.attrs, u ∈ p.2.sids := by
  simp [stateSids, List.mem_flatMap]

/-! ## small facts -/

theorem nodupNat_nodup {l : List Nat} (h : nodupNat l = true) : l.Nodup := by
  induction l with
  | nil => exact List.nodup_nil
  | cons x xs ih =>
    simp only [nodupNat, Bool.and_eq_true, Bool.not_eq_true', List.contains_eq_mem,
      decide_eq_false_iff_not] at h
    exact List.nodup_cons.mpr ⟨h.1, ih h.2⟩

theorem erase_fields (e : Entry) (a : Nat) :
    (e.erase a).uuid = e.uuid ∧ (e.erase a).st = e.st ∧ (e.erase a).dyn = e.dyn := ⟨rfl, rfl, rfl⟩

theorem set_fields (e : Entry) (a : Nat) (vs : VS) :
    (e.set a vs).uuid = e.uuid ∧ (e.set a vs).st = e.st ∧ (e.set a vs).dyn = e.dyn := by
  unfold Entry.set
  split
  · exact erase_fields e a
  · split <;> exact ⟨rfl, rfl, rfl⟩

theorem applyMod_fields {e e' : Entry} {m : Mod} (h : applyMod e m = some e') :
    e'.uuid = e.uuid ∧ e'.st = e.st := by
  cases m with
  | present a v =>
    simp only [applyMod] at h
    split at h
    · simp only [Option.some.injEq] at h; subst h; exact ⟨rfl, rfl⟩
    · split at h
      · simp only [Option.some.injEq] at h; subst h; exact ⟨rfl, rfl⟩
      · simp at h
  | removed a u =>
    simp only [applyMod] at h
    split at h
    · simp only [Option.some.injEq] at h; subst h; exact ⟨rfl, rfl⟩
    · simp only [Option.some.injEq] at h; subst h
      exact ⟨(set_fields ..).1, (set_fields ..).2.1⟩
  | purged a =>
    simp only [applyMod] at h
    split at h
    · simp only [Option.some.injEq] at h; subst h; exact ⟨rfl, rfl⟩
    · split at h
      · simp only [Option.some.injEq] at h; subst h
        exact ⟨(set_fields ..).1, (set_fields ..).2.1⟩
      · simp only [Option.some.injEq] at h; subst h; exact ⟨rfl, rfl⟩

theorem applyMods_fields {e e' : Entry} {ms : List Mod} (h : applyMods e ms = some e') :
    e'.uuid = e.uuid ∧ e'.st = e.st := by
  induction ms generalizing e with
  | nil => simp only [applyMods, Option.some.injEq] at h; subst h; exact ⟨rfl, rfl⟩
  | cons m ms ih =>
    simp only [applyMods] at h
    split at h
    · rename_i e1 h1
      obtain ⟨a, b⟩ := ih h
      obtain ⟨c, d⟩ := applyMod_fields h1
      exact ⟨a.trans c, b.trans d⟩
    · simp at h

theorem find_some {s : State} {u : Nat} {e : Entry} (h : find s u = some e) : e ∈ s ∧ e.uuid = u := by
  unfold find at h
  exact ⟨List.mem_of_find?_eq_some h, by simpa using List.find?_some h⟩

theorem find_of_live {s : State} (hn : (s.map (·.uuid)).Nodup) {u : Nat} (h : isLive s u = true) :
    ∃ x, find s u = some x ∧ x.st = .live := by
  obtain ⟨x, hx, hu, hl⟩ := isLive_iff.mp h
  cases hf : find s u with
  | none =>
    unfold find at hf
    have := List.find?_eq_none.mp hf x hx
    simp [hu] at this
  | some y =>
    obtain ⟨hy, hyu⟩ := find_some hf
    have : y = x := nodup_uuid_eq hn hy hx (hyu.trans hu.symm)
    exact ⟨y, rfl, this ▸ hl⟩

/-! ## create -/

theorem inv_create {s : State} (hinv : Inv s) (es : List Entry) : Inv (apply s (.create es)) := by
  unfold apply step opCreate
  simp only
  split
  · exact hinv
  · split
    · exact hinv
    · rename_i hdup
      split
      · exact hinv
      · split
        · exact hinv
        · rename_i hchk
          simp only [Res.state]
          generalize hes' : es.map (fun e => { e with st := St.live }) = es' at *
          have hnd : nodupNat (es'.map (·.uuid)) = true := by
            cases h1 : nodupNat (es'.map (·.uuid)) <;> simp_all
          have hidx : (es'.map (·.uuid)).any (inIndex s) = false := by
            cases h2 : (es'.map (·.uuid)).any (inIndex s) <;> simp_all
          have hidx' : ∀ e ∈ es', ∀ x ∈ s, x.uuid ≠ e.uuid := by
            intro e he x hx hxe
            have h3 := List.any_eq_false.mp hidx e.uuid (List.mem_map_of_mem he)
            exact h3 (inIndex_iff.mpr ⟨x, hx, hxe⟩)
          apply inv_checked (pre := none) hinv
          · rw [List.map_append]
            refine List.nodup_append.mpr ⟨hinv.1, nodupNat_nodup hnd, ?_⟩
            intro a ha b hb hab
            obtain ⟨x, hx, rfl⟩ := List.mem_map.mp ha
            obtain ⟨e, he, rfl⟩ := List.mem_map.mp hb
            exact hidx' e he x hx hab
          · intro p hp; simp at hp
          · intro u hu
            obtain ⟨x, hx, h1, h2⟩ := isLive_iff.mp hu
            exact isLive_iff.mpr ⟨x, List.mem_append_left _ hx, h1, h2⟩
          · intro e he; exact List.mem_append.mp he
          · exact postModifyInner_none hchk

/-! ## modify -/

theorem inv_modify {s : State} (hinv : Inv s) (u : Nat) (mods : List Mod) :
    Inv (apply s (.modify u mods)) := by
  unfold apply step opModify
  simp only
  split
  · exact hinv
  · rename_i e hfind
    have he : e ∈ s := List.mem_of_find?_eq_some hfind
    have hcond : e.uuid = u ∧ e.st = .live := by simpa using List.find?_some hfind
    split
    · exact hinv
    · rename_i e' hm
      obtain ⟨hu', hst'⟩ := applyMods_fields hm
      split
      · exact hinv
      · split
        · exact hinv
        · rename_i hchk
          simp only [Res.state]
          have hf : ∀ x ∈ s, ((fun x : Entry => if (x.uuid == u && x.st == St.live) = true then e' else x) x).uuid = x.uuid ∧
              (x.st = .live → ((fun x : Entry => if (x.uuid == u && x.st == St.live) = true then e' else x) x).st = .live) := by
            intro x _
            simp only
            split
            · rename_i hc
              simp only [Bool.and_eq_true, beq_iff_eq] at hc
              exact ⟨by rw [hu', hcond.1, hc.1], fun _ => by rw [hst', hcond.2]⟩
            · exact ⟨rfl, id⟩
          apply inv_checked (pre := some [e]) (post := [e']) hinv
          · rw [map_fields_uuid (fun x hx => (hf x hx).1)]; exact hinv.1
          · intro p hp; simp only [Option.getD_some, List.mem_singleton] at hp; exact hp ▸ he
          · intro r hr; exact isLive_map_mono hf hr
          · intro x hx
            obtain ⟨y, hy, rfl⟩ := List.mem_map.mp hx
            split
            · exact Or.inr (List.mem_singleton.mpr rfl)
            · exact Or.inl hy
          · exact postModifyInner_none hchk

/-! ## delete -/

theorem stashOf_live {s : State} {stash : List (Nat × List Nat)}
    (h : stash.all (fun p => p.2.all (isLive s)) = true) (u r : Nat) (hr : r ∈ stashOf stash u) :
    isLive s r = true := by
  unfold stashOf at hr
  split at hr
  · rename_i p hp
    have hmem := List.mem_of_find?_eq_some hp
    simp only [List.all_eq_true] at h
    exact h p hmem r hr
  · simp at hr

theorem inv_delete {s : State} (hinv : Inv s) (us : List Nat) (stash : List (Nat × List Nat))
    (hok : stepOk s (.delete us stash) = true) : Inv (apply s (.delete us stash)) := by
  simp only [stepOk, Bool.and_eq_true] at hok
  obtain ⟨hsid, hstash⟩ := hok
  generalize htu : deleteTargets s us = tu
  generalize hcu : deleteCascade s tu = cu
  have hgu : ∀ x, ((fun e : Entry =>
      if (e.st == St.live && tu.contains e.uuid) = true then recycle stash false e
      else if (e.st == St.live && cu.contains e.uuid) = true then recycle stash true e
      else e) x).uuid = x.uuid := by
    intro x; simp only
    split
    · exact (recycle_fields ..).1
    · split
      · exact (recycle_fields ..).1
      · rfl
  have htu_sub : ∀ u ∈ tu, ∃ x ∈ s, x.uuid = u := by
    intro u hu; subst htu
    obtain ⟨x, hx, rfl⟩ := List.mem_map.mp hu
    exact ⟨x, (List.mem_filter.mp hx).1, rfl⟩
  have hcu_sub : ∀ u ∈ cu, ∃ x ∈ s, x.uuid = u := by
    intro u hu; subst hcu
    unfold deleteCascade at hu
    split at hu
    · obtain ⟨x, hx, rfl⟩ := List.mem_map.mp hu
      exact ⟨x, (List.mem_filter.mp hx).1, rfl⟩
    · simp at hu
  -- liveness across the recycling step
  have hlive : ∀ r, isLive s r = true → isLive (recycleAll s stash tu cu) r = true ∨ r ∈ tu ++ cu := by
    intro r hr
    obtain ⟨x, hx, hxu, hxl⟩ := isLive_iff.mp hr
    by_cases h1 : tu.contains x.uuid = true
    · right; exact List.mem_append_left _ (by simpa [hxu] using h1)
    · by_cases h2 : cu.contains x.uuid = true
      · right; exact List.mem_append_right _ (by simpa [hxu] using h2)
      · left
        unfold recycleAll
        refine isLive_iff.mpr ⟨_, List.mem_map_of_mem hx, (hgu x).trans hxu, ?_⟩
        simp only [h1, h2, Bool.and_false, Bool.false_eq_true, if_false]
        exact hxl
  have hweak : WeakInv (tu ++ cu) (recycleAll s stash tu cu) := by
    unfold recycleAll
    refine ⟨by rw [map_fields_uuid (fun x _ => hgu x)]; exact hinv.1, ?_⟩
    intro e1 he1 r hr
    obtain ⟨e, he, rfl⟩ := List.mem_map.mp he1
    have key : r ∈ e.propRefs ∨ r ∈ stashOf stash e.uuid := by
      split at hr
      · exact propRefs_mono (recycle_fields ..).2.2
          (fun p hp => (recycle_attrs hp).imp id (fun h => h.2)) hr
      · split at hr
        · exact propRefs_mono (recycle_fields ..).2.2
            (fun p hp => (recycle_attrs hp).imp id (fun h => h.2)) hr
        · exact Or.inl hr
    have hl := hlive r (by
      rcases key with h | h
      · exact hinv.2 e he r h
      · exact stashOf_live hstash _ r h)
    unfold recycleAll at hl
    exact hl
  have hsidfree : SidFree (tu ++ cu) (recycleAll s stash tu cu) := by
    unfold recycleAll
    intro e1 he1 p hp u hu hmem
    obtain ⟨e, he, rfl⟩ := List.mem_map.mp he1
    have hp' : p ∈ e.attrs ∨ p.2.sids = [] := by
      split at hp
      · exact (recycle_attrs hp).imp id (fun h => h.1)
      · split at hp
        · exact (recycle_attrs hp).imp id (fun h => h.1)
        · exact Or.inl hp
    rcases hp' with h | h
    · have hs : u ∈ stateSids s := mem_stateSids.mpr ⟨e, he, p, h, hmem⟩
      simp only [List.all_eq_true, Bool.not_eq_true', List.contains_eq_mem, decide_eq_false_iff_not] at hsid
      obtain ⟨x, hx, hxu⟩ : ∃ x ∈ s, x.uuid = u := by
        rcases List.mem_append.mp hu with h1 | h1
        · exact htu_sub u h1
        · exact hcu_sub u h1
      exact hsid u hs (List.mem_map.mpr ⟨x, hx, hxu⟩)
    · simp [h] at hmem
  have hfinal := inv_removeRefs hweak hsidfree
  unfold apply step opDelete
  simp only [htu, hcu, postDeleteRemovesCandidates, if_true]
  split
  · exact hinv
  · split
    · exact hinv
    · cases hrr : removeReferences (recycleAll s stash tu cu) (tu ++ cu) with
      | none => simp only [Res.state]; exact hinv
      | some s2 =>
        simp only [Res.state]
        unfold removeReferences at hrr
        split at hrr
        · simp at hrr
        · simp only [Option.some.injEq] at hrr; exact hrr ▸ hfinal

/-! ## revive -/

theorem reviveEntry_fields (e : Entry) : (reviveEntry e).uuid = e.uuid ∧ (reviveEntry e).st = .live := by
  unfold reviveEntry
  refine ⟨?_, rfl⟩
  simp only
  split
  · exact (erase_fields ..).1.trans ((erase_fields ..).1.trans ((set_fields ..).1.trans (erase_fields ..).1))
  · rfl

theorem inv_readd {s s' : State} (hinv : Inv s) {g : Nat} {ms : List Nat}
    (h : readd s g ms = .ok s') : Inv s' := by
  unfold readd at h
  split at h
  · simp only [Res.ok.injEq] at h; exact h ▸ hinv
  · rename_i ge hfind
    obtain ⟨hge, hgu⟩ := find_some hfind
    split at h
    · simp at h
    · split at h
      · simp at h
      · rename_i ge' hm
        obtain ⟨hu', hst'⟩ := applyMods_fields hm
        split at h
        · simp at h
        · dsimp only at h
          split at h
          · simp at h
          · rename_i hchk
            simp only [Res.ok.injEq] at h
            subst h
            have hf : ∀ x ∈ s, ((fun x : Entry => if (x.uuid == g) = true then ge' else x) x).uuid = x.uuid ∧
                (x.st = .live → ((fun x : Entry => if (x.uuid == g) = true then ge' else x) x).st = .live) := by
              intro x hx
              simp only
              split
              · rename_i hc
                simp only [beq_iff_eq] at hc
                have : x = ge := nodup_uuid_eq hinv.1 hx hge (hc.trans hgu.symm)
                exact ⟨by rw [hu', hgu, hc], fun hl => by rw [hst', ← this]; exact hl⟩
              · exact ⟨rfl, id⟩
            apply inv_checked (pre := some [ge]) (post := [ge']) hinv
            · rw [map_fields_uuid (fun x hx => (hf x hx).1)]; exact hinv.1
            · intro p hp; simp only [Option.getD_some, List.mem_singleton] at hp; exact hp ▸ hge
            · intro r hr; exact isLive_map_mono hf hr
            · intro x hx
              obtain ⟨y, hy, rfl⟩ := List.mem_map.mp hx
              split
              · exact Or.inr (List.mem_singleton.mpr rfl)
              · exact Or.inl hy
            · exact postModifyInner_none hchk

theorem inv_readdAll {s s' : State} (hinv : Inv s) {mods : List (Nat × List Nat)}
    (h : readdAll s mods = .ok s') : Inv s' := by
  induction mods generalizing s with
  | nil => simp only [readdAll, Res.ok.injEq] at h; exact h ▸ hinv
  | cons m ms ih =>
    obtain ⟨g, l⟩ := m
    simp only [readdAll] at h
    split at h
    · rename_i s1 h1
      exact ih (inv_readd hinv h1) h
    · simp at h

theorem inv_revive {s : State} (hinv : Inv s) (us : List Nat) : Inv (apply s (.revive us)) := by
  generalize hpre : reviveCands s us = pre
  have hpre_sub : ∀ p ∈ pre, p ∈ s := by
    intro p hp; subst hpre
    unfold reviveCands at hp
    rcases List.mem_append.mp hp with h | h <;> exact (List.mem_filter.mp h).1
  have hf : ∀ x ∈ s, ((fun e : Entry => if (e.st == St.recycled && (pre.map (·.uuid)).contains e.uuid) = true
      then reviveEntry e else e) x).uuid = x.uuid ∧
      (x.st = .live → ((fun e : Entry => if (e.st == St.recycled && (pre.map (·.uuid)).contains e.uuid) = true
      then reviveEntry e else e) x).st = .live) := by
    intro x _
    simp only
    split
    · exact ⟨(reviveEntry_fields x).1, fun _ => (reviveEntry_fields x).2⟩
    · exact ⟨rfl, id⟩
  have hinv1 : postModifyInner (reviveState s (pre.map (·.uuid))) (some pre) (pre.map reviveEntry) = none →
      Inv (reviveState s (pre.map (·.uuid))) := by
    intro hchk
    unfold reviveState at hchk ⊢
    apply inv_checked (pre := some pre) (post := pre.map reviveEntry) hinv
    · rw [map_fields_uuid (fun x hx => (hf x hx).1)]; exact hinv.1
    · intro p hp; exact hpre_sub p (by simpa using hp)
    · intro r hr; exact isLive_map_mono hf hr
    · intro x hx
      obtain ⟨y, hy, rfl⟩ := List.mem_map.mp hx
      split
      · rename_i hc
        simp only [Bool.and_eq_true, List.contains_eq_mem, decide_eq_true_eq, List.mem_map] at hc
        obtain ⟨_, z, hz, hzu⟩ := hc
        have : z = y := nodup_uuid_eq hinv.1 (hpre_sub z hz) hy hzu
        exact Or.inr (List.mem_map.mpr ⟨y, this ▸ hz, rfl⟩)
      · exact Or.inl hy
    · exact postModifyInner_none hchk
  unfold apply step opRevive
  simp only [hpre]
  split
  · exact hinv
  · split
    · exact hinv
    · split
      · exact hinv
      · rename_i hchk
        cases hr : readdAll (reviveState s (pre.map (·.uuid))) (reviveMods pre) with
        | ok s' => simp only [Res.state]; exact inv_readdAll (hinv1 hchk) hr
        | err e => simp only [Res.state]; exact hinv

/-! ## purges -/

theorem inv_purgeRecycled {s : State} (hinv : Inv s) : Inv (apply s .purgeRecycled) := by
  unfold apply step opPurgeRecycled
  simp only [Res.state]
  have hf : ∀ x ∈ s, ((fun e : Entry => if (e.st == St.recycled) = true then
      { e with st := St.tombstone, attrs := [], dyn := false, must := [] } else e) x).uuid = x.uuid ∧
      (x.st = .live → ((fun e : Entry => if (e.st == St.recycled) = true then
      { e with st := St.tombstone, attrs := [], dyn := false, must := [] } else e) x).st = .live) := by
    intro x _
    simp only
    split
    · rename_i hc
      refine ⟨rfl, fun hl => ?_⟩
      simp [hl] at hc
    · exact ⟨rfl, id⟩
  refine ⟨by rw [map_fields_uuid (fun x hx => (hf x hx).1)]; exact hinv.1, ?_⟩
  intro e1 he1 r hr
  obtain ⟨e, he, rfl⟩ := List.mem_map.mp he1
  apply isLive_map_mono hf
  split at hr
  · simp [Entry.propRefs] at hr
  · exact hinv.2 e he r hr

theorem inv_purgeTombstones {s : State} (hinv : Inv s) : Inv (apply s .purgeTombstones) := by
  unfold apply step opPurgeTombstones
  simp only [Res.state]
  refine ⟨List.Nodup.sublist (List.filter_sublist.map _) hinv.1, ?_⟩
  intro e he r hr
  obtain ⟨he', _⟩ := List.mem_filter.mp he
  obtain ⟨x, hx, hxu, hxl⟩ := isLive_iff.mp (hinv.2 e he' r hr)
  exact isLive_iff.mpr ⟨x, List.mem_filter.mpr ⟨hx, by simp [hxl]⟩, hxu, hxl⟩

end Kanidm.Refint
