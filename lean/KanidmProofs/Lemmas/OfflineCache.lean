import KanidmModel.OfflineCache
/-!
C44 — specification vocabulary and helper lemmas for `KanidmProofs/C44.lean`.
-/
namespace Kanidm.OfflineCache
open Kanidm.Gen.HostAuthz (TokState RefreshAction refreshAction offlineState DirReply replyState replyNet)
open Kanidm.Gen.PwFormat (KdfTag fromDb)
open Kanidm.Gen.OfflineCache

/-! ## Specification vocabulary (written from the property, not from the code) -/

/-- the credential this machine's provider makes from a password: HMAC-bound Argon2id under
this machine's key -/
def sealed (hostKey pw : Nat) : Blob := .kdf .TPM_ARGON2ID pw hostKey

/-- a value that was not sealed by this machine: nothing, junk, another kind of hash, or an
HMAC-bound credential under another key -/
def NotSealedHere (hostKey : Nat) (b : Option Blob) : Prop :=
  ∀ p, b ≠ some (sealed hostKey p)

/-- the most recent password the directory verified for `id` on this machine -/
def lastVerifiedStep (id : Nat) (acc : Option Nat) : Ev → Option Nat
  | .auth i p true => if i = id then some p else acc
  | _ => acc

def lastVerified (id : Nat) (evs : List Ev) : Option Nat :=
  evs.foldl (lastVerifiedStep id) none

/-- what the cached credential of `id` should be after the events so far -/
def expStep (hostKey id : Nat) (acc : Option Blob) : Ev → Option Blob
  | .auth i p true => if i = id then some (sealed hostKey p) else acc
  | .kdfFailed i => if i = id then none else acc
  | .purged i => if i = id then none else acc
  | .cleared => none
  | .planted i b => if i = id then b else acc
  | _ => acc

def expected (hostKey id : Nat) (evs : List Ev) : Option Blob :=
  evs.foldl (expStep hostKey id) none

/-- login attempts are not interleaved with anything -/
def Op.sequential : Op → Bool
  | .init _ _ => false
  | .stepS _ _ => false
  | _ => true

/-- the credential the host holds for an account -/
def credOf (st : St) (id : Nat) : Option Blob :=
  match st.cache id with
  | some r => r.tok.cred
  | none => none

/-- `e` explains how the held credentials changed between `st` and `st'` -/
def Tracks (hostKey : Nat) (st : St) (e : List Ev) (st' : St) : Prop :=
  ∀ j, credOf st' j = e.foldl (expStep hostKey j) (credOf st j)

/-- states reached by sequential histories from a fresh host, with the events so far -/
def Reachable (hostKey : Nat) (w : World) (st : St) (evs : List Ev) : Prop :=
  ∃ ops : List Op, (∀ op ∈ ops, op.sequential = true) ∧ exec hostKey ops = (w, st, evs)

/-! ## The helpers -/

theorem assoc_fromDb (t : KdfTag) : assoc t fromDb = some t := by
  cases t <;> decide

theorem ctx_tpm : assoc KdfTag.TPM_ARGON2ID ctxTable = some .hmac := by decide

theorem ctx_other (t : KdfTag) (h : t ≠ .TPM_ARGON2ID) : assoc t ctxTable = some .ignore := by
  cases t <;> first | (exact absurd rfl h) | decide

theorem checkCached_tpm (hostKey pw key cred : Nat) :
    checkCached hostKey (some (.kdf .TPM_ARGON2ID pw key)) cred = (pw == cred && key == hostKey) := by
  simp [checkCached, chkSealedTags, assoc_fromDb, verifyCtx, ctx_tpm, chkFinal]

theorem checkCached_other (hostKey pw key cred : Nat) (t : KdfTag) (h : t ≠ .TPM_ARGON2ID) :
    checkCached hostKey (some (.kdf t pw key)) cred = false := by
  simp [checkCached, chkSealedTags, chkNotSealed, h]

theorem checkCached_none (hostKey cred : Nat) : checkCached hostKey none cred = false := by
  simp [checkCached, chkMissing]

theorem checkCached_junk (hostKey cred : Nat) : checkCached hostKey (some .junk) cred = false := by
  simp [checkCached, chkBadJson]

theorem checkCached_iff (hostKey cred : Nat) (b : Option Blob) :
    checkCached hostKey b cred = true ↔ b = some (sealed hostKey cred) := by
  match b with
  | none => simp [checkCached_none]
  | some .junk => simp [checkCached_junk, sealed]
  | some (.kdf tag pw key) =>
    by_cases ht : tag = .TPM_ARGON2ID
    · subst ht
      rw [checkCached_tpm]
      simp [sealed]
    · rw [checkCached_other _ _ _ _ _ ht]
      simp [sealed, ht]

theorem updateCached_ok (hostKey cred : Nat) (old : Option Blob) :
    updateCached hostKey true cred old = some (sealed hostKey cred) := by
  simp [updateCached, updOnOk, updTag, updSealsWithHmacKey, sealed]

theorem updateCached_fail (hostKey cred : Nat) (old : Option Blob) :
    updateCached hostKey false cred old = none := by
  simp [updateCached, updOnKdfErr]

/-! ## Folding the specification over events -/

theorem expected_append (hostKey id : Nat) (a b : List Ev) :
    expected hostKey id (a ++ b) = b.foldl (expStep hostKey id) (expected hostKey id a) := by
  simp [expected, List.foldl_append]

theorem Tracks.refl (hostKey : Nat) (st : St) : Tracks hostKey st [] st := fun _ => rfl

theorem Tracks.trans {hostKey : Nat} {a b c : St} {e f : List Ev}
    (h1 : Tracks hostKey a e b) (h2 : Tracks hostKey b f c) : Tracks hostKey a (e ++ f) c := by
  intro j
  rw [h2 j, h1 j, List.foldl_append]

/-- a state change that leaves every held credential alone is explained by events without effect -/
def Quiet (hostKey : Nat) (e : List Ev) : Prop :=
  ∀ j acc, e.foldl (expStep hostKey j) acc = acc

theorem quiet_nil (hostKey : Nat) : Quiet hostKey [] := fun _ _ => rfl

theorem quiet_probe (hostKey : Nat) : Quiet hostKey [.probe] := fun _ _ => rfl

theorem Quiet.append {hostKey : Nat} {a b : List Ev} (ha : Quiet hostKey a) (hb : Quiet hostKey b) :
    Quiet hostKey (a ++ b) := by
  intro j acc
  rw [List.foldl_append, ha, hb]

theorem tracks_of_quiet {hostKey : Nat} {st st' : St} {e : List Ev}
    (hq : Quiet hostKey e) (hc : ∀ j, credOf st' j = credOf st j) : Tracks hostKey st e st' := by
  intro j
  rw [hq, hc]

/-! ## The state machine, function by function -/

@[simp] theorem credOf_net (st : St) (n : Net) (j : Nat) : credOf { st with net := n } j = credOf st j := rfl

theorem credOf_putRow (st : St) (id : Nat) (t : Tok) (j : Nat) :
    credOf (putRow st id t) j = if j = id then t.cred else credOf st j := by
  unfold credOf putRow upd
  by_cases h : j = id <;> simp [h]

theorem checkOnline_spec (w : World) (n : Net) :
    (checkOnline w n).2.2 = [] ∨ (checkOnline w n).2.2 = [.probe] := by
  cases n <;> simp [checkOnline, attemptOnline] <;> split <;> simp

theorem checkOnlineNow_spec (w : World) (n : Net) :
    (checkOnlineNow w n).2.2 = [] ∨ (checkOnlineNow w n).2.2 = [.probe] := by
  cases n <;> simp [checkOnlineNow, attemptOnline] <;> split <;> simp

/-- what `get_usertoken` guarantees -/
def GetOk (hostKey : Nat) (st : St) (id : Nat) (res : St × Option Tok × List Ev) : Prop :=
  Tracks hostKey st res.2.2 res.1 ∧ res.1.sess = st.sess ∧
    ∀ tok, res.2.1 = some tok → res.1.nx id = false ∧ ∃ r, res.1.cache id = some r ∧ r.tok = tok

theorem refresh_spec (hostKey : Nat) (w : World) (st : St) (id : Nat) (hnx : st.nx id = false) :
    GetOk hostKey st id (refreshUsertoken w st id) := by
  unfold refreshUsertoken unixUserGet getCached
  simp only [hnx]
  rcases checkOnline_spec w st.net with he | he
  all_goals
    rcases hco : checkOnline w st.net with ⟨n', on, evs⟩
    rw [hco] at he
    simp at he
    subst he
    cases on
    · cases hc : st.cache id <;>
        simp [GetOk, offlineState, refreshAction, Tracks, credOf, expStep, hnx, hc, List.foldl]
    · cases htok : w.token id with
      | inl v =>
        cases hc : st.cache id <;>
          simp [GetOk, refreshAction, Tracks, credOf_putRow, expStep, hnx, hc, List.foldl, getCarriesKeys, carry, putRow, upd]
        all_goals (intro j; by_cases h : j = id <;> first | (subst h; simp [credOf, upd, hc]) | simp [credOf, upd, h, Ne.symm h])
      | inr r =>
        cases r <;> cases hc : st.cache id <;>
          simp [GetOk, refreshAction, replyState, replyNet, applyNet, Tracks, credOf, expStep, hnx, hc, List.foldl, upd]
        all_goals (intro j; by_cases h : j = id <;> first | (subst h; simp [credOf, upd, hc]) | simp [credOf, upd, h, Ne.symm h])

theorem getUsertoken_spec (hostKey : Nat) (w : World) (st : St) (id : Nat) :
    GetOk hostKey st id (getUsertoken w st id) := by
  unfold getUsertoken
  cases hnx : st.nx id
  · cases hc : st.cache id with
    | none =>
      have := refresh_spec hostKey w st id hnx
      simpa [getCached, hnx, hc] using this
    | some r =>
      cases hex : r.expired
      · simp [getCached, hnx, hc, hex, GetOk, Tracks]
      · have := refresh_spec hostKey w st id hnx
        simpa [getCached, hnx, hc, hex] using this
  · simp [getCached, hnx, GetOk, Tracks]

/-- what `pam_account_authenticate_init` guarantees -/
theorem authInit_spec (hostKey : Nat) (w : World) (st : St) (id : Nat) :
    match authInit w st id with
    | (st', s, _, e) =>
      Tracks hostKey st e st' ∧ st'.sess = st.sess ∧
        (∀ i snap, s = some (.offline i snap) →
          i = id ∧ st'.net ≠ .online ∧ snap.cred.isSome = true ∧ st'.nx id = false ∧
            ∃ r, st'.cache id = some r ∧ r.tok = snap) ∧
        (∀ i, s = some (.online i) → i = id) := by
  have hg := getUsertoken_spec hostKey w st id
  unfold authInit
  rcases hgu : getUsertoken w st id with ⟨st1, t, e1⟩
  rw [hgu] at hg
  obtain ⟨htr, hsess, htok⟩ := hg
  simp only at htr hsess htok
  cases t with
  | none =>
    rcases hcn : checkOnlineNow w st1.net with ⟨n2, on, e2⟩
    have he2 := checkOnlineNow_spec w st1.net
    rw [hcn] at he2
    simp at he2
    simp only [hcn]
    refine ⟨?_, hsess, ?_, ?_⟩
    · refine Tracks.trans htr (tracks_of_quiet ?_ (fun j => rfl))
      rcases he2 with rfl | rfl
      · exact quiet_nil _
      · exact quiet_probe _
    · intro i snap h; simp at h
    · intro i h; simp at h
  | some t =>
    obtain ⟨hnx, r, hr, hrt⟩ := htok t rfl
    cases hcred : t.cred.isSome
    · rcases hcn : checkOnlineNow w st1.net with ⟨n2, on, e2⟩
      have he2 := checkOnlineNow_spec w st1.net
      rw [hcn] at he2
      simp at he2
      have hq : Quiet hostKey e2 := by
        rcases he2 with rfl | rfl
        · exact quiet_nil _
        · exact quiet_probe _
      cases on <;>
        simp [hasOffline, initProbe, initGoesOnline, offlineInitNeedsCreds, hcred, hcn, hsess] <;>
        exact Tracks.trans htr (tracks_of_quiet hq (fun j => rfl))
    · cases hnet : decide (st1.net = Net.online) <;>
        simp [hasOffline, initProbe, initGoesOnline, offlineInitNeedsCreds, hcred, hnet, hsess]
      all_goals (first | exact htr | exact ⟨htr, by simpa using hnet, hnx, r, hr, hrt⟩)

theorem onlineStep_spec (hostKey : Nat) (w : World) (st : St) (id cred : Nat) :
    match onlineStep hostKey w st id cred with
    | (st', r, e) =>
      Tracks hostKey st e st' ∧ st'.sess = st.sess ∧ st'.net = st.net ∧
        (r = .success → Ev.auth id cred true ∈ e) ∧
        ((w.auth id cred).1 ≠ .token → st' = st ∧ r ≠ .success) := by
  unfold onlineStep
  rcases hau : w.auth id cred with ⟨cls, v⟩
  cases cls <;> cases hk : w.kdfOk <;>
    simp [finish, onlineOut, pamOf, successWrites, authUpdatesPw, authCarriesKeys, Tracks, expStep, List.foldl,
      credOf_putRow, updateCached_ok, updateCached_fail, putRow, hk]
  all_goals (intro j; by_cases h : id = j <;> first | (subst h; simp [credOf, upd]) | simp [credOf, upd, h, Ne.symm h])

theorem offlineStep_spec (hostKey : Nat) (st : St) (id : Nat) (snap : Tok) (cred : Nat)
    (hnx : st.nx id = false) (hrow : ∃ r, st.cache id = some r ∧ r.tok = snap) :
    match offlineStep hostKey st id snap cred with
    | (st', r) =>
      Tracks hostKey st [] st' ∧ st'.sess = st.sess ∧ st'.net = st.net ∧
        (r = .success ↔ checkCached hostKey (credOf st id) cred = true) := by
  obtain ⟨r, hr, hrt⟩ := hrow
  have hcred : credOf st id = snap.cred := by simp [credOf, hr, hrt]
  unfold offlineStep
  cases hchk : checkCached hostKey snap.cred cred <;>
    simp [finish, offlineOnMatch, offlineOnMiss, pamOf, successWrites, offlineWritesCurrentElseSession,
      Tracks, getCached, hnx, hr, hcred, hchk, putRow]
  intro j
  by_cases h : j = id
  · subst h; simp [credOf, upd, hr]
  · simp [credOf, upd, h]

/-- one sequential login attempt -/
theorem auth_spec (hostKey : Nat) (w : World) (st : St) (id cred : Nat)
    {w' : World} {st' : St} {r : Reply} {e : List Ev}
    (h : step hostKey w st (.auth id cred) = (w', st', r, e)) :
    w' = w ∧ Tracks hostKey st e st' ∧ st'.sess = st.sess ∧
      (∀ i res, r = .auth i .offline (some res) →
        st'.net ≠ .online ∧ (res = .success ↔ checkCached hostKey (credOf st' id) cred = true)) ∧
      (∀ i, r = .auth i .online (some .success) → Ev.auth id cred true ∈ e) ∧
      (∀ i res, r = .auth i .none (some res) → res ≠ .success) := by
  have hi := authInit_spec hostKey w st id
  simp only [step] at h
  rcases hai : authInit w st id with ⟨st1, s, ir, e1⟩
  rw [hai] at hi h
  obtain ⟨htr, hsess, hoff, hon⟩ := hi
  cases ir with
  | password =>
    cases s with
    | none =>
      simp [authStep, Session.path] at h
      obtain ⟨rfl, rfl, rfl, rfl⟩ := h
      simp [htr, hsess]
    | some ss =>
      cases ss with
      | closed =>
        simp [authStep, Session.path] at h
        obtain ⟨rfl, rfl, rfl, rfl⟩ := h
        simp [htr, hsess]
      | online i =>
        have hid := hon i rfl
        subst hid
        have ho := onlineStep_spec hostKey w st1 i cred
        rcases hos : onlineStep hostKey w st1 i cred with ⟨st2, r2, e2⟩
        rw [hos] at ho
        obtain ⟨htr2, hs2, _, hsucc, _⟩ := ho
        simp [authStep, Session.path, hos] at h
        obtain ⟨rfl, rfl, rfl, rfl⟩ := h
        refine ⟨rfl, Tracks.trans htr htr2, by simp [hs2, hsess], ?_, ?_, ?_⟩
        · intro i res hh; simp at hh
        · intro i' hh
          simp at hh
          exact List.mem_append_right _ (hsucc hh.2)
        · intro i' res hh; simp at hh
      | offline i snap =>
        obtain ⟨hid, hnet, _, hnx, hrow⟩ := hoff i snap rfl
        subst hid
        have ho := offlineStep_spec hostKey st1 i snap cred hnx hrow
        rcases hos : offlineStep hostKey st1 i snap cred with ⟨st2, r2⟩
        rw [hos] at ho
        obtain ⟨htr2, hs2, hn2, hiff⟩ := ho
        have hc2 : credOf st2 i = credOf st1 i := by simpa using htr2 i
        simp [authStep, Session.path, hos] at h
        obtain ⟨rfl, rfl, rfl, rfl⟩ := h
        refine ⟨rfl, by simpa using Tracks.trans htr htr2, by simp [hs2, hsess], ?_, ?_, ?_⟩
        · intro i' res hh
          simp at hh
          obtain ⟨_, rfl⟩ := hh
          exact ⟨by rw [hn2]; exact hnet, by rw [hc2]; exact hiff⟩
        · intro i' hh; simp at hh
        · intro i' res hh; simp at hh
  | unknown =>
    simp at h
    obtain ⟨rfl, rfl, rfl, rfl⟩ := h
    simp [htr, hsess]
  | err =>
    simp at h
    obtain ⟨rfl, rfl, rfl, rfl⟩ := h
    simp [htr, hsess]
/-! ## Histories -/

theorem step_tracks (hostKey : Nat) (w : World) (st : St) (op : Op) (hseq : op.sequential = true)
    {w' : World} {st' : St} {r : Reply} {e : List Ev}
    (h : step hostKey w st op = (w', st', r, e)) : Tracks hostKey st e st' := by
  cases op with
  | auth id cred => exact (auth_spec hostKey w st id cred h).2.1
  | init _ _ => simp [Op.sequential] at hseq
  | stepS _ _ => simp [Op.sequential] at hseq
  | lookup id =>
    have hg := getUsertoken_spec hostKey w st id
    simp only [step] at h
    rcases hgu : getUsertoken w st id with ⟨st1, t, e1⟩
    rw [hgu] at hg h
    simp at h
    obtain ⟨rfl, rfl, rfl, rfl⟩ := h
    exact hg.1
  | plant id b =>
    simp only [step] at h
    cases hc : st.cache id with
    | none =>
      rw [hc] at h
      simp at h
      obtain ⟨rfl, rfl, rfl, rfl⟩ := h
      exact Tracks.refl _ _
    | some row =>
      rw [hc] at h
      simp at h
      obtain ⟨rfl, rfl, rfl, rfl⟩ := h
      intro j
      by_cases hj : j = id
      · subst hj; simp [credOf, upd, expStep, List.foldl]
      · simp [credOf, upd, expStep, List.foldl, hj, Ne.symm hj]
  | clearCache =>
    simp [step] at h
    obtain ⟨rfl, rfl, rfl, rfl⟩ := h
    intro j
    simp [credOf, clearCache, expStep, List.foldl]
  | invalidate =>
    simp [step] at h
    obtain ⟨rfl, rfl, rfl, rfl⟩ := h
    intro j
    simp [credOf, invalidate, List.foldl]
    cases st.cache j <;> simp
  | _ =>
    simp [step] at h
    obtain ⟨rfl, rfl, rfl, rfl⟩ := h
    exact Tracks.refl _ _

/-- the invariant of sequential histories: the held credentials are what the events say -/
def Inv (hostKey : Nat) (st : St) (evs : List Ev) : Prop :=
  ∀ j, credOf st j = expected hostKey j evs

theorem Inv.step {hostKey : Nat} {st st' : St} {evs e : List Ev}
    (hinv : Inv hostKey st evs) (ht : Tracks hostKey st e st') : Inv hostKey st' (evs ++ e) := by
  intro j
  rw [ht j, hinv j, expected_append]

theorem execFrom_inv (hostKey : Nat) (ops : List Op) :
    ∀ (w : World) (st : St) (evs : List Ev), (∀ op ∈ ops, op.sequential = true) → Inv hostKey st evs →
      Inv hostKey (execFrom hostKey w st evs ops).2.1 (execFrom hostKey w st evs ops).2.2 := by
  induction ops with
  | nil => intro w st evs _ h; simpa [execFrom] using h
  | cons op rest ih =>
    intro w st evs hseq hinv
    rcases hs : step hostKey w st op with ⟨w', st', r, e⟩
    have ht := step_tracks hostKey w st op (hseq op (by simp)) hs
    simp only [execFrom, hs]
    exact ih w' st' (evs ++ e) (fun o ho => hseq o (by simp [ho])) (hinv.step ht)

theorem reachable_inv {hostKey : Nat} {w : World} {st : St} {evs : List Ev}
    (h : Reachable hostKey w st evs) : Inv hostKey st evs := by
  obtain ⟨ops, hseq, hex⟩ := h
  have := execFrom_inv hostKey ops World.init St.init [] hseq (by intro j; simp [credOf, St.init, expected])
  unfold exec at hex
  rw [hex] at this
  exact this
/-! ## The expected credential and the most recent verification -/

/-- the expected credential, when sealed here, is sealed from the most recently verified password -/
def Agree (hostKey : Nat) (accE : Option Blob) (accL : Option Nat) : Prop :=
  ∀ p, accE = some (sealed hostKey p) → accL = some p

theorem sealed_inj {hostKey p q : Nat} (h : sealed hostKey p = sealed hostKey q) : p = q := by
  simpa [sealed] using h

theorem agree_step (hostKey id : Nat) (accE : Option Blob) (accL : Option Nat) (e : Ev)
    (ha : Agree hostKey accE accL) (hp : ∀ i b, e = .planted i b → NotSealedHere hostKey b) :
    Agree hostKey (expStep hostKey id accE e) (lastVerifiedStep id accL e) := by
  intro p
  cases e with
  | auth i q ok =>
    cases ok
    · simpa [expStep, lastVerifiedStep] using ha p
    · by_cases hi : i = id
      · simp [expStep, lastVerifiedStep, hi]
        intro h
        exact sealed_inj h
      · simpa [expStep, lastVerifiedStep, hi] using ha p
  | kdfFailed i =>
    by_cases hi : i = id
    · simp [expStep, lastVerifiedStep, hi]
    · simpa [expStep, lastVerifiedStep, hi] using ha p
  | purged i =>
    by_cases hi : i = id
    · simp [expStep, lastVerifiedStep, hi]
    · simpa [expStep, lastVerifiedStep, hi] using ha p
  | cleared => simp [expStep, lastVerifiedStep]
  | planted i b =>
    by_cases hi : i = id
    · simp [expStep, lastVerifiedStep, hi]
      intro h
      exact absurd h (hp i b rfl p)
    · simpa [expStep, lastVerifiedStep, hi] using ha p
  | probe => simpa [expStep, lastVerifiedStep] using ha p
  | tokReq i => simpa [expStep, lastVerifiedStep] using ha p

theorem agree_foldl (hostKey id : Nat) (evs : List Ev) :
    ∀ (accE : Option Blob) (accL : Option Nat), Agree hostKey accE accL →
      (∀ i b, Ev.planted i b ∈ evs → NotSealedHere hostKey b) →
      Agree hostKey (evs.foldl (expStep hostKey id) accE) (evs.foldl (lastVerifiedStep id) accL) := by
  induction evs with
  | nil => intro accE accL h _; simpa using h
  | cons e rest ih =>
    intro accE accL h hp
    simp only [List.foldl]
    exact ih _ _ (agree_step hostKey id accE accL e h (fun i b he => hp i b (by simp [he])))
      (fun i b hm => hp i b (by simp [hm]))

theorem expected_sealed_is_last {hostKey id p : Nat} {evs : List Ev}
    (hp : ∀ i b, Ev.planted i b ∈ evs → NotSealedHere hostKey b)
    (h : expected hostKey id evs = some (sealed hostKey p)) : lastVerified id evs = some p :=
  agree_foldl hostKey id evs none none (by intro p h; simp at h) hp p h
end Kanidm.OfflineCache
