import KanidmModel.OfflineCache
/-!
C44 — specification vocabulary and helper lemmas for `KanidmProofs/C44.lean`.
-/
namespace Kanidm.OfflineCache
open Kanidm.Gen.HostAuthz (TokState RefreshAction refreshAction offlineState DirReply replyState replyNet)
open Kanidm.Gen.PwFormat (KdfTag fromDb)
open Kanidm.Gen.OfflineCache

/-! ## Specification vocabulary (written from the property, not from the code) -/

/-- the credential this machine's provider makes from a password: HMAC-bound Argon2id under
this machine's key -/
def sealed (hostKey pw : Nat) : Blob := .kdf .TPM_ARGON2ID pw hostKey

/-- a value that was not sealed by this machine: nothing, junk, another kind of hash, or an
HMAC-bound credential under another key -/
def NotSealedHere (hostKey : Nat) (b : Option Blob) : Prop :=
  ∀ p, b ≠ some (sealed hostKey p)

/-- the most recent password the directory verified for `id` on this machine -/
def lastVerifiedStep (id : Nat) (acc : Option Nat) : Ev → Option Nat
  | .auth i p true => if i = id then some p else acc
  | _ => acc

def lastVerified (id : Nat) (evs : List Ev) : Option Nat :=
  evs.foldl (lastVerifiedStep id) none

/-- what the cached credential of `id` should be after the events so far -/
def expStep (hostKey id : Nat) (acc : Option Blob) : Ev → Option Blob
  | .auth i p true => if i = id then some (sealed hostKey p) else acc
  | .kdfFailed i => if i = id then none else acc
  | .purged i => if i = id then none else acc
  | .cleared => none
  | .planted i b => if i = id then b else acc
  | _ => acc

def expected (hostKey id : Nat) (evs : List Ev) : Option Blob :=
  evs.foldl (expStep hostKey id) none

/-- login attempts are not interleaved with anything -/
def Op.sequential : Op → Bool
  | .init _ _ => false
  | .stepS _ _ => false
  | _ => true

/-- the credential the host holds for an account -/
def credOf (st : St) (id : Nat) : Option Blob :=
  match st.cache id with
  | some r => r.tok.cred
  | none => none

/-- `e` explains how the held credentials changed between `st` and `st'` -/
def Tracks (hostKey : Nat) (st : St) (e : List Ev) (st' : St) : Prop :=
  ∀ j, credOf st' j = e.foldl (expStep hostKey j) (credOf st j)

/-- states reached by sequential histories from a fresh host, with the events so far -/
def Reachable (hostKey : Nat) (w : World) (st : St) (evs : List Ev) : Prop :=
  ∃ ops : List Op, (∀ op ∈ ops, op.sequential = true) ∧ exec hostKey ops = (w, st, evs)

/-! ## The helpers -/

theorem assoc_fromDb (t : KdfTag) : assoc t fromDb = some t := by
  cases t <;> decide

theorem ctx_tpm : assoc KdfTag.TPM_ARGON2ID ctxTable = some .hmac := by decide

theorem ctx_other (t : KdfTag) (h : t ≠ .TPM_ARGON2ID) : assoc t ctxTable = some .ignore := by
  cases t <;> first | (exact absurd rfl h) | decide

theorem checkCached_tpm (hostKey pw key cred : Nat) :
    checkCached hostKey (some (.kdf .TPM_ARGON2ID pw key)) cred = (pw == cred && key == hostKey) := by
  simp [checkCached, chkSealedTags, assoc_fromDb, verifyCtx, ctx_tpm, chkFinal]

theorem checkCached_other (hostKey pw key cred : Nat) (t : KdfTag) (h : t ≠ .TPM_ARGON2ID) :
    checkCached hostKey (some (.kdf t pw key)) cred = false := by
  simp [checkCached, chkSealedTags, chkNotSealed, h]

theorem checkCached_none (hostKey cred : Nat) : checkCached hostKey none cred = false := by
  simp [checkCached, chkMissing]

theorem checkCached_junk (hostKey cred : Nat) : checkCached hostKey (some .junk) cred = false := by
  simp [checkCached, chkBadJson]

theorem checkCached_iff (hostKey cred : Nat) (b : Option Blob) :
    checkCached hostKey b cred = true ↔ b = some (sealed hostKey cred) := by
  match b with
  | none => simp [checkCached_none]
  | some .junk => simp [checkCached_junk, sealed]
  | some (.kdf tag pw key) =>
    by_cases ht : tag = .TPM_ARGON2ID
    · subst ht
      rw [checkCached_tpm]
      simp [sealed]
    · rw [checkCached_other _ _ _ _ _ ht]
      simp [sealed, ht]

theorem updateCached_ok (hostKey cred : Nat) (old : Option Blob) :
    updateCached hostKey true cred old = some (sealed hostKey cred) := by
  simp [updateCached, updOnOk, updTag, updSealsWithHmacKey, sealed]

theorem updateCached_fail (hostKey cred : Nat) (old : Option Blob) :
    updateCached hostKey false cred old = none := by
  simp [updateCached, updOnKdfErr]

/-! ## Folding the specification over events -/

theorem expected_append (hostKey id : Nat) (a b : List Ev) :
    expected hostKey id (a ++ b) = b.foldl (expStep hostKey id) (expected hostKey id a) := by
  simp [expected, List.foldl_append]

theorem Tracks.refl (hostKey : Nat) (st : St) : Tracks hostKey st [] st := fun _ => rfl

theorem Tracks.trans {hostKey : Nat} {a b c : St} {e f : List Ev}
    (h1 : Tracks hostKey a e b) (h2 : Tracks hostKey b f c) : Tracks hostKey a (e ++ f) c := by
  intro j
  rw [h2 j, h1 j, List.foldl_append]

/-- a state change that leaves every held credential alone is explained by events without effect -/
def Quiet (hostKey : Nat) (e : List Ev) : Prop :=
  ∀ j acc, e.foldl (expStep hostKey j) acc = acc

theorem quiet_nil (hostKey : Nat) : Quiet hostKey [] := fun _ _ => rfl

theorem quiet_probe (hostKey : Nat) : Quiet hostKey [.probe] := fun _ _ => rfl

theorem Quiet.append {hostKey : Nat} {a b : List Ev} (ha : Quiet hostKey a) (hb : Quiet hostKey b) :
    Quiet hostKey (a ++ b) := by
  intro j acc
  rw [List.foldl_append, ha, hb]

theorem tracks_of_quiet {hostKey : Nat} {st st' : St} {e : List Ev}
    (hq : Quiet hostKey e) (hc : ∀ j, credOf st' j = credOf st j) : Tracks hostKey st e st' := by
  intro j
  rw [hq, hc]

end Kanidm.OfflineCache
