import KanidmModel.Migration
/-! Helper lemmas for C48: modification lists, the assert list of a definition, list frames. -/
namespace Kanidm.Migration
open Kanidm.Gen.Migration

theorem applyMods_cons (e : Ent) (m : Mod) (ms : List Mod) :
    applyMods e (m :: ms) = applyMods (applyMod e m) ms := rfl

theorem applyMods_append (e : Ent) (ms ns : List Mod) :
    applyMods e (ms ++ ns) = applyMods (applyMods e ms) ns := by
  simp [applyMods, List.foldl_append]

theorem applyMod_other (e : Ent) (m : Mod) (a : Nat) (h : m.attr ≠ a) : applyMod e m a = e a := by
  cases m with
  | purged b =>
    have : a ≠ b := fun hab => h (by simp [Mod.attr, hab])
    simp [applyMod, this]
  | present b v =>
    have : a ≠ b := fun hab => h (by simp [Mod.attr, hab])
    simp [applyMod, this]

theorem applyMods_other (e : Ent) (ms : List Mod) (a : Nat) (h : ∀ m ∈ ms, m.attr ≠ a) :
    applyMods e ms a = e a := by
  induction ms generalizing e with
  | nil => rfl
  | cons m ms ih =>
    rw [applyMods_cons, ih _ (fun m' hm' => h m' (List.mem_cons_of_mem _ hm')),
      applyMod_other _ _ _ (h m (List.mem_cons_self))]

theorem applyMod_present_self (e : Ent) (k w v : Nat) :
    v ∈ applyMod e (.present k w) k ↔ v ∈ e k ∨ v = w := by
  by_cases hw : w ∈ e k
  · simp only [applyMod, if_true, hw]
    constructor
    · intro h; exact Or.inl h
    · intro h
      cases h with
      | inl h => exact h
      | inr h => exact h ▸ hw
  · simp [applyMod, hw]

theorem mem_applyMods_present (e : Ent) (k : Nat) (vs : List Nat) (v : Nat) :
    v ∈ applyMods e (vs.map (Mod.present k)) k ↔ v ∈ e k ∨ v ∈ vs := by
  induction vs generalizing e with
  | nil => simp [applyMods]
  | cons w ws ih =>
    simp only [List.map_cons, applyMods_cons, ih, applyMod_present_self, List.mem_cons]
    constructor
    · intro h
      rcases h with (h | h) | h
      · exact Or.inl h
      · exact Or.inr (Or.inl h)
      · exact Or.inr (Or.inr h)
    · intro h
      rcases h with h | h | h
      · exact Or.inl (Or.inl h)
      · exact Or.inl (Or.inr h)
      · exact Or.inr h

theorem modsFor_attr (r : Bool) (k : Nat) (vs : List Nat) : ∀ m ∈ modsFor r k vs, m.attr = k := by
  intro m hm
  unfold modsFor at hm
  rcases List.mem_append.mp hm with h | h
  · split at h
    · simp at h; subst h; rfl
    · simp at h
  · rcases List.mem_map.mp h with ⟨v, _, rfl⟩
    rfl

theorem modsFor_other (e : Ent) (r : Bool) (k : Nat) (vs : List Nat) (a : Nat) (h : a ≠ k) :
    applyMods e (modsFor r k vs) a = e a :=
  applyMods_other _ _ _ (fun m hm => by rw [modsFor_attr r k vs m hm]; exact fun hk => h hk.symm)

theorem mem_modsFor_self (e : Ent) (r : Bool) (k : Nat) (vs : List Nat) (v : Nat) :
    v ∈ applyMods e (modsFor r k vs) k ↔
      (if purgeWhen r (forcePurgeAttrs.contains k) then v ∈ vs else (v ∈ e k ∨ v ∈ vs)) := by
  unfold modsFor
  split
  · rw [show ([Mod.purged k] ++ vs.map (Mod.present k)) = Mod.purged k :: vs.map (Mod.present k) from rfl,
      applyMods_cons, mem_applyMods_present]
    simp [applyMod]
  · rw [List.nil_append, mem_applyMods_present]

/-- keys of a definition -/
def keys (d : Def) : List Nat := d.map (·.1)

theorem gen_attrs (multi : Nat → Option Bool) :
    ∀ (d : Def) (ms : List Mod), genModlistAssert multi d = some ms →
      ∀ m ∈ ms, m.attr ∈ keys d ∧ m.attr ≠ attrUuid := by
  intro d
  induction d with
  | nil =>
    intro ms h m hm
    simp [genModlistAssert] at h
    subst h
    simp at hm
  | cons p rest ih =>
    obtain ⟨k, vs⟩ := p
    intro ms h m hm
    unfold genModlistAssert at h
    by_cases hk : (skipUuid && k == attrUuid) = true
    · rw [if_pos hk] at h
      have := ih ms h m hm
      exact ⟨List.mem_cons_of_mem _ this.1, this.2⟩
    · rw [if_neg hk] at h
      cases hm' : multi k with
      | none => simp [hm'] at h
      | some r =>
        cases hr : genModlistAssert multi rest with
        | none => simp [hm', hr] at h
        | some ms' =>
          simp [hm', hr] at h
          subst h
          rcases List.mem_append.mp hm with h1 | h1
          · have := modsFor_attr r k vs m h1
            refine ⟨by simp [keys, this], ?_⟩
            rw [this]
            intro hku
            apply hk
            simp [skipUuid, hku]
          · have := ih ms' hr m h1
            exact ⟨List.mem_cons_of_mem _ this.1, this.2⟩

/-- attributes the definition does not name, and the uuid, are not touched -/
theorem gen_untouched (multi : Nat → Option Bool) (d : Def) (ms : List Mod) (e : Ent) (a : Nat)
    (h : genModlistAssert multi d = some ms) (ha : a ∉ keys d ∨ a = attrUuid) :
    applyMods e ms a = e a := by
  apply applyMods_other
  intro m hm heq
  have := gen_attrs multi d ms h m hm
  rcases ha with ha | ha
  · exact ha (heq ▸ this.1)
  · exact this.2 (heq.trans ha)

/-- a successful assert list knows the multiplicity of every named attribute but the uuid -/
theorem gen_multi_known (multi : Nat → Option Bool) :
    ∀ (d : Def) (ms : List Mod), genModlistAssert multi d = some ms →
      ∀ a ∈ keys d, a ≠ attrUuid → ∃ r, multi a = some r := by
  intro d
  induction d with
  | nil => intro ms _ a ha; simp [keys] at ha
  | cons p rest ih =>
    obtain ⟨k, vs⟩ := p
    intro ms h a ha hau
    unfold genModlistAssert at h
    by_cases hk : (skipUuid && k == attrUuid) = true
    · rw [if_pos hk] at h
      simp [keys] at ha
      rcases ha with ha | ha
      · subst ha
        exfalso
        simp [skipUuid] at hk
        exact hau hk
      · exact ih ms h a (by simpa [keys] using ha) hau
    · rw [if_neg hk] at h
      cases hm' : multi k with
      | none => simp [hm'] at h
      | some r =>
        cases hr : genModlistAssert multi rest with
        | none => simp [hm', hr] at h
        | some ms' =>
          simp [keys] at ha
          rcases ha with ha | ha
          · subst ha; exact ⟨r, hm'⟩
          · exact ih ms' hr a (by simpa [keys] using ha) hau

/-- the exact effect on a named attribute -/
theorem gen_defined (multi : Nat → Option Bool) :
    ∀ (d : Def) (ms : List Mod) (e : Ent), genModlistAssert multi d = some ms → (keys d).Nodup →
      ∀ a vs r, (a, vs) ∈ d → a ≠ attrUuid → multi a = some r → ∀ v,
        (v ∈ applyMods e ms a ↔
          (if purgeWhen r (forcePurgeAttrs.contains a) then v ∈ vs else (v ∈ e a ∨ v ∈ vs))) := by
  intro d
  induction d with
  | nil => intro ms e _ _ a vs r hmem; simp at hmem
  | cons p rest ih =>
    obtain ⟨k, ws⟩ := p
    intro ms e h hnd a vs r hmem hau hmr v
    have hnd' : (keys rest).Nodup := (List.nodup_cons.mp hnd).2
    have hk_notin : k ∉ keys rest := (List.nodup_cons.mp hnd).1
    unfold genModlistAssert at h
    by_cases hk : (skipUuid && k == attrUuid) = true
    · rw [if_pos hk] at h
      rcases List.mem_cons.mp hmem with heq | hin
      · exfalso
        have : a = k := by injection heq
        subst this
        simp [skipUuid] at hk
        exact hau hk
      · exact ih ms e h hnd' a vs r hin hau hmr v
    · rw [if_neg hk] at h
      cases hm' : multi k with
      | none => simp [hm'] at h
      | some r' =>
        cases hr : genModlistAssert multi rest with
        | none => simp [hm', hr] at h
        | some ms' =>
          simp [hm', hr] at h
          subst h
          rw [applyMods_append]
          rcases List.mem_cons.mp hmem with heq | hin
          · have hak : a = k := by injection heq
            have hvs : vs = ws := by injection heq
            subst hak; subst hvs
            have hrr : r' = r := by rw [hm'] at hmr; injection hmr
            subst hrr
            rw [gen_untouched multi rest ms' _ a hr (Or.inl hk_notin)]
            exact mem_modsFor_self e r' a vs v
          · have ha_in : a ∈ keys rest := List.mem_map.mpr ⟨(a, vs), hin, rfl⟩
            have hne : a ≠ k := fun hak => hk_notin (hak ▸ ha_in)
            rw [ih ms' _ hr hnd' a vs r hin hau hmr v, modsFor_other e r' k ws a hne]

theorem keys_strip_sub (d : Def) : ∀ a ∈ keys (stripForMigrate d), a ∈ keys d := by
  intro a ha
  rcases List.mem_map.mp ha with ⟨p, hp, rfl⟩
  exact List.mem_map.mpr ⟨p, (List.mem_filter.mp hp).1, rfl⟩

theorem keys_strip_nodup (d : Def) (h : (keys d).Nodup) : (keys (stripForMigrate d)).Nodup := by
  unfold keys stripForMigrate
  exact List.Nodup.sublist (List.Sublist.map _ List.filter_sublist) h

theorem mem_strip (d : Def) (a : Nat) (vs : List Nat) (h : (a, vs) ∈ d)
    (h1 : a ≠ attrMemberCreateOnce) (h2 : a ∉ ignoreAttrs) : (a, vs) ∈ stripForMigrate d := by
  unfold stripForMigrate
  apply List.mem_filter.mpr
  refine ⟨h, ?_⟩
  simp [h1, h2]

theorem not_mem_keys_strip (d : Def) (a : Nat) (h : a = attrMemberCreateOnce ∨ a ∈ ignoreAttrs) :
    a ∉ keys (stripForMigrate d) := by
  intro ha
  rcases List.mem_map.mp ha with ⟨p, hp, rfl⟩
  have := (List.mem_filter.mp hp).2
  rcases h with h | h
  · simp [h] at this
  · simp [h] at this

end Kanidm.Migration
