import KanidmModel.Crash
import KanidmProofs.Lemmas.Cid
/-! Helper lemmas for C05 (`KanidmProofs/C05.lean`). -/
namespace Kanidm.Crash
open Kanidm.Gen.Crash

theorem run_cons (op : Op) (ops : List Op) (s : Sys) : run (op :: ops) s = run ops (step s op) := rfl

theorem run_nil (s : Sys) : run [] s = s := rfl

theorem apply_nil (d : Disk) : d.apply [] = d := rfl

theorem apply_append (d : Disk) (a b : List Write) : d.apply (a ++ b) = (d.apply a).apply b := by
  simp [Disk.apply, List.foldl_append]

/-- All writes of an operation list, in order. -/
def writesOf : List Op → List Write
  | [] => []
  | .stmt _ ws :: r => ws ++ writesOf r
  | _ :: r => writesOf r

/-- After the `COMMIT` (phase `done`, no transaction open) nothing changes the database. -/
theorem done_const (c : Nat) : ∀ (ops : List Op) (s : Sys) (q : Phase),
    shapeRun c .done ops = some q → s.txn = none → ∀ k, (run (ops.take k) s).disk = s.disk := by
  intro ops
  induction ops with
  | nil => intro s q _ _ k; simp [run]
  | cons op rest ih =>
    intro s q h ht k
    cases k with
    | zero => simp [run]
    | succ k =>
      rw [List.take_succ_cons, run_cons]
      cases op with
      | «begin» c' => simp [shapeRun, shapeStep] at h
      | commit c' => simp [shapeRun, shapeStep] at h
      | mem x =>
        have h' : shapeRun c .done rest = some q := by simpa [shapeRun, shapeStep] using h
        have := ih (step s (.mem x)) q h' (by simp [step, ht]) k
        simpa [step] using this
      | stmt c' ws =>
        by_cases hw : ws = []
        · subst hw
          have h' : shapeRun c .done rest = some q := by simpa [shapeRun, shapeStep] using h
          have := ih (step s (.stmt c' [])) q h' (by simp [step, ht]) k
          simpa [step, ht, apply_nil] using this
        · simp [shapeRun, shapeStep, hw] at h

theorem done_const_full (c : Nat) (ops : List Op) (s : Sys) (q : Phase)
    (h : shapeRun c .done ops = some q) (ht : s.txn = none) : (run ops s).disk = s.disk := by
  have := done_const c ops s q h ht ops.length
  simpa using this

/-- The state of a process that has not yet reached the `COMMIT`. -/
def PreCommit (c : Nat) (p : Phase) (s : Sys) : Prop :=
  (p = .idle ∧ s.txn = none) ∨ (p = .inTxn ∧ ∃ pend, s.txn = some (c, pend))

/-- One allowed step before the `COMMIT` leaves the database untouched. -/
theorem pre_step (c : Nat) (p q : Phase) (s : Sys) (op : Op) (hs : shapeStep c p op = some q)
    (hp : PreCommit c p s) (hop : ∀ c', op ≠ .commit c') :
    PreCommit c q (step s op) ∧ (step s op).disk = s.disk := by
  rcases hp with ⟨rfl, ht⟩ | ⟨rfl, pend, ht⟩
  · cases op with
    | «begin» c' =>
      by_cases hc : c' = c
      · subst hc
        have : q = .inTxn := by simpa [shapeStep] using hs.symm
        subst this
        exact ⟨Or.inr ⟨rfl, [], by simp [step, ht]⟩, by simp [step, ht]⟩
      · simp [shapeStep, hc] at hs
    | commit c' => exact absurd rfl (hop c')
    | mem x =>
      have : q = .idle := by simpa [shapeStep] using hs.symm
      subst this
      exact ⟨Or.inl ⟨rfl, by simp [step, ht]⟩, by simp [step]⟩
    | stmt c' ws =>
      by_cases hw : ws = []
      · subst hw
        have : q = .idle := by simpa [shapeStep] using hs.symm
        subst this
        exact ⟨Or.inl ⟨rfl, by simp [step, ht]⟩, by simp [step, ht, apply_nil]⟩
      · simp [shapeStep, hw] at hs
  · cases op with
    | «begin» c' => simp [shapeStep] at hs
    | commit c' => exact absurd rfl (hop c')
    | mem x =>
      have : q = .inTxn := by simpa [shapeStep] using hs.symm
      subst this
      exact ⟨Or.inr ⟨rfl, pend, by simp [step, ht]⟩, by simp [step]⟩
    | stmt c' ws =>
      by_cases hc : c' = c
      · subst hc
        have : q = .inTxn := by simpa [shapeStep] using hs.symm
        subst this
        exact ⟨Or.inr ⟨rfl, pend ++ ws, by simp [step, ht]⟩, by simp [step, ht]⟩
      · by_cases hw : ws = []
        · subst hw
          have : q = .inTxn := by simpa [shapeStep, hc] using hs.symm
          subst this
          exact ⟨Or.inr ⟨rfl, pend, by simp [step, ht, hc]⟩, by simp [step, ht, hc, apply_nil]⟩
        · simp [shapeStep, hc, hw] at hs

/-- Before the `COMMIT` the database is untouched; from the `COMMIT` on it is the final one. -/
theorem pre_commit (c : Nat) (d : Disk) : ∀ (ops : List Op) (p : Phase) (s : Sys) (q : Phase),
    shapeRun c p ops = some q → PreCommit c p s → s.disk = d → ∀ k,
      (k ≤ commitIdx ops → (run (ops.take k) s).disk = d) ∧
      (commitIdx ops < k → (run (ops.take k) s).disk = (run ops s).disk) := by
  intro ops
  induction ops with
  | nil =>
    intro p s q _ _ hd k
    simp [run, hd]
  | cons op rest ih =>
    intro p s q h hp hd k
    cases k with
    | zero =>
      refine ⟨fun _ => by simp [run, hd], fun hk => absurd hk (Nat.not_lt_zero _)⟩
    | succ k =>
      rw [List.take_succ_cons, run_cons, run_cons]
      cases hs : shapeStep c p op with
      | none => simp [shapeRun, hs] at h
      | some p' =>
        have h' : shapeRun c p' rest = some q := by simpa [shapeRun, hs] using h
        by_cases hcm : ∃ c', op = .commit c'
        · obtain ⟨c', rfl⟩ := hcm
          -- the COMMIT itself: only allowed inside the transaction, on its connection
          rcases hp with ⟨rfl, ht⟩ | ⟨rfl, pend, ht⟩
          · simp [shapeStep] at hs
          · by_cases hc : c' = c
            · subst hc
              have : p' = .done := by simpa [shapeStep] using hs.symm
              subst this
              have htn : (step s (.commit c')).txn = none := by simp [step, ht]
              refine ⟨fun hk => by simp [commitIdx] at hk, fun _ => ?_⟩
              rw [done_const c' rest _ q h' htn k, done_const_full c' rest _ q h' htn]
            · simp [shapeStep, hc] at hs
        · have hop : ∀ c', op ≠ .commit c' := fun c' he => hcm ⟨c', he⟩
          obtain ⟨hp', hd'⟩ := pre_step c p p' s op hs hp hop
          have hci : commitIdx (op :: rest) = commitIdx rest + 1 := by
            cases op with
            | commit c' => exact absurd rfl (hop c')
            | _ => rfl
          have := ih p' (step s op) q h' hp' (by rw [hd', hd]) k
          rw [hci]
          exact ⟨fun hk => this.1 (by omega), fun hk => this.2 (by omega)⟩

/-! ### `shapeRun` over the generated transaction -/

theorem shapeRun_append (c : Nat) : ∀ (a b : List Op) (p : Phase),
    shapeRun c p (a ++ b) = (shapeRun c p a).bind fun q => shapeRun c q b := by
  intro a
  induction a with
  | nil => intro b p; simp [shapeRun]
  | cons op rest ih =>
    intro b p
    simp only [List.cons_append, shapeRun]
    cases shapeStep c p op with
    | none => simp
    | some q => simpa using ih b q

theorem allTxn : sqliteFns.all (fun f => f.conn == .txn) = true := by decide

theorem connOf_valid (fn : Nat) (h : fn < sqliteFns.length) : connOf fn = txnConn := by
  unfold connOf
  rw [List.getElem?_eq_getElem h]
  have hm : sqliteFns[fn] ∈ sqliteFns := List.getElem_mem h
  have := List.all_eq_true.mp allTxn _ hm
  simp at this
  simp [this]

theorem shape_stmts_inTxn : ∀ (ss : List Stmt), (∀ s ∈ ss, s.fn < sqliteFns.length) →
    shapeRun txnConn .inTxn (stmtOps ss) = some .inTxn := by
  intro ss
  induction ss with
  | nil => intro _; rfl
  | cons s rest ih =>
    intro h
    have hs := connOf_valid s.fn (h s (by simp))
    have hr := ih (fun x hx => h x (by simp [hx]))
    simp only [stmtOps, List.map_cons, shapeRun, shapeStep, hs, true_or, if_true]
    simpa [stmtOps] using hr

theorem tsMaxFn_valid : tsMaxFn < sqliteFns.length := by decide

theorem shape_expandAll (w : Workload) (hw : w.WF) : ∀ (flat : List Flat) (b : Bool),
    flatOk b flat = true →
    shapeRun txnConn (if b then .done else .inTxn) (expandAll w flat) = some .done := by
  intro flat
  induction flat with
  | nil =>
    intro b h
    cases b <;> simp_all [flatOk, expandAll, shapeRun]
  | cons f rest ih =>
    intro b h
    cases b with
    | true =>
      cases f with
      | mem =>
        have := ih true (by simpa [flatOk] using h)
        simpa [expandAll, expand, shapeRun, shapeStep] using this
      | _ => simp [flatOk] at h
    | false =>
      cases f with
      | mem =>
        have := ih false (by simpa [flatOk] using h)
        simpa [expandAll, expand, shapeRun, shapeStep] using this
      | sqlCommit =>
        have := ih true (by simpa [flatOk] using h)
        simpa [expandAll, expand, shapeRun, shapeStep] using this
      | ts =>
        have := ih false (by simpa [flatOk] using h)
        simpa [expandAll, expand, shapeRun, shapeStep, connOf_valid _ tsMaxFn_valid] using this
      | be fn =>
        have h2 : fn < sqliteFns.length ∧ flatOk false rest = true := by simpa [flatOk] using h
        have := ih false h2.2
        simpa [expandAll, expand, shapeRun, shapeStep, connOf_valid _ h2.1] using this
      | flush i fns =>
        have := ih false (by simpa [flatOk] using h)
        have hfl := shape_stmts_inTxn _ (hw.flush i)
        show shapeRun txnConn .inTxn (stmtOps (w.flush i) ++ expandAll w rest) = some .done
        rw [shapeRun_append, hfl]
        simpa using this

/-! ### The final database holds every write -/

/-- Phase `done`: no write is left. -/
theorem writesOf_done (c : Nat) : ∀ (ops : List Op) (q : Phase), shapeRun c .done ops = some q → writesOf ops = [] := by
  intro ops
  induction ops with
  | nil => intro _ _; rfl
  | cons op rest ih =>
    intro q h
    cases op with
    | «begin» c' => simp [shapeRun, shapeStep] at h
    | commit c' => simp [shapeRun, shapeStep] at h
    | mem x => exact ih q (by simpa [shapeRun, shapeStep] using h)
    | stmt c' ws =>
      by_cases hw : ws = []
      · subst hw
        simpa [writesOf] using ih q (by simpa [shapeRun, shapeStep] using h)
      · simp [shapeRun, shapeStep, hw] at h

/-- Inside the transaction: when the list reaches `done`, the final database is the old one plus
everything written so far and everything still to be written, in order. -/
theorem final_inTxn (c : Nat) : ∀ (ops : List Op) (s : Sys) (pend : List Write),
    shapeRun c .inTxn ops = some .done → s.txn = some (c, pend) →
    (run ops s).disk = s.disk.apply (pend ++ writesOf ops) := by
  intro ops
  induction ops with
  | nil => intro s pend h _; simp [shapeRun] at h
  | cons op rest ih =>
    intro s pend h ht
    rw [run_cons]
    cases op with
    | «begin» c' => simp [shapeRun, shapeStep] at h
    | mem x =>
      have h' : shapeRun c .inTxn rest = some .done := by simpa [shapeRun, shapeStep] using h
      have := ih (step s (.mem x)) pend h' (by simp [step, ht])
      simpa [step, writesOf] using this
    | commit c' =>
      by_cases hc : c' = c
      · subst hc
        have h' : shapeRun c' .done rest = some .done := by simpa [shapeRun, shapeStep] using h
        have htn : (step s (.commit c')).txn = none := by simp [step, ht]
        have e1 := done_const_full c' rest _ .done h' htn
        have e2 := writesOf_done c' rest .done h'
        rw [e1]
        simp [step, ht, writesOf, e2]
      · simp [shapeRun, shapeStep, hc] at h
    | stmt c' ws =>
      by_cases hc : c' = c
      · subst hc
        have h' : shapeRun c' .inTxn rest = some .done := by simpa [shapeRun, shapeStep] using h
        have := ih (step s (.stmt c' ws)) (pend ++ ws) h' (by simp [step, ht])
        simpa [step, ht, writesOf, List.append_assoc] using this
      · by_cases hw : ws = []
        · subst hw
          have h' : shapeRun c .inTxn rest = some .done := by simpa [shapeRun, shapeStep, hc] using h
          have := ih (step s (.stmt c' [])) pend h' (by simp [step, ht, hc])
          simpa [step, ht, hc, writesOf, apply_nil] using this
        · simp [shapeRun, shapeStep, hc, hw] at h

theorem final_idle (c : Nat) : ∀ (ops : List Op) (s : Sys),
    shapeRun c .idle ops = some .done → s.txn = none →
    (run ops s).disk = s.disk.apply (writesOf ops) := by
  intro ops
  induction ops with
  | nil => intro s h _; simp [shapeRun] at h
  | cons op rest ih =>
    intro s h ht
    rw [run_cons]
    cases op with
    | commit c' => simp [shapeRun, shapeStep] at h
    | mem x =>
      have h' : shapeRun c .idle rest = some .done := by simpa [shapeRun, shapeStep] using h
      have := ih (step s (.mem x)) h' (by simp [step, ht])
      simpa [step, writesOf] using this
    | «begin» c' =>
      by_cases hc : c' = c
      · subst hc
        have h' : shapeRun c' .inTxn rest = some .done := by simpa [shapeRun, shapeStep] using h
        have := final_inTxn c' rest (step s (.begin c')) [] h' (by simp [step, ht])
        simpa [step, ht, writesOf] using this
      · simp [shapeRun, shapeStep, hc] at h
    | stmt c' ws =>
      by_cases hw : ws = []
      · subst hw
        have h' : shapeRun c .idle rest = some .done := by simpa [shapeRun, shapeStep] using h
        have := ih (step s (.stmt c' [])) h' (by simp [step, ht])
        simpa [step, ht, writesOf, apply_nil] using this
      · simp [shapeRun, shapeStep, hw] at h

/-! ### C07's commit steps, cut short -/

open Kanidm.Cid Kanidm.Gen.CidCommit in
theorem orderOkAux_take : ∀ (steps : List CStep) (k : Nat) (p c : Bool),
    orderOkAux steps p c = true → orderOkAux (steps.take k) p c = true := by
  intro steps
  induction steps with
  | nil => intro k p c _; simp [orderOkAux]
  | cons st rest ih =>
    intro k p c h
    cases k with
    | zero => simp [orderOkAux]
    | succ k =>
      rw [List.take_succ_cons]
      obtain ⟨kind, fb⟩ := st
      cases kind with
      | persistTsMax => simpa [orderOkAux] using ih k true c (by simpa [orderOkAux] using h)
      | cidCommit => simpa [orderOkAux] using ih k p true (by simpa [orderOkAux] using h)
      | other => simpa [orderOkAux] using ih k p c (by simpa [orderOkAux] using h)
      | beCommit =>
        have h3 : p = true ∧ c = true ∧ orderOkAux rest p c = true := by
          simpa [orderOkAux, Bool.and_eq_true, and_assoc] using h
        have := ih k p c h3.2.2
        simp [orderOkAux, h3.1, h3.2.1]
        simpa [h3.1, h3.2.1] using this

end Kanidm.Crash
