import KanidmModel.Codec
/-! Helper lemmas for C14: closed form of the decoder under the regenerated constants,
prefix stability of `decodeStep`, the fuel-free equation and the append law of the read loop. -/
namespace Kanidm.Codec
open Kanidm.Gen.Codec

theorem beDecode_append_one (l : Bytes) (b : UInt8) :
    beDecode (l ++ [b]) = beDecode l * 256 + b.toNat := by
  simp [beDecode, List.foldl_append]

theorem beEncode_length (k n : Nat) : (beEncode k n).length = k := by
  induction k generalizing n with
  | zero => rfl
  | succ k ih => simp [beEncode, ih]

theorem beDecode_beEncode (k n : Nat) : beDecode (beEncode k n) = n % 256 ^ k := by
  induction k generalizing n with
  | zero => simp [beEncode, beDecode, Nat.mod_one]
  | succ k ih =>
    rw [beEncode, beDecode_append_one, ih, Nat.pow_succ, Nat.mul_comm (256 ^ k) 256, Nat.mod_mul]
    have : (UInt8.ofNat (n % 256)).toNat = n % 256 := by
      simp
    rw [this]; omega

theorem decodeStep_spec (max : Nat) (src : Bytes) :
    decodeStep max src =
      if src.length < 8 then .needMore
      else if beDecode (src.take 8) = 0 then .err .invalidInput
      else if beDecode (src.take 8) > max then .err .outOfMemory
      else if src.length - 8 < beDecode (src.take 8) then .needMore
      else .frame ((src.drop 8).take (beDecode (src.take 8))) (src.drop (8 + beDecode (src.take 8))) := by
  unfold decodeStep
  simp only [hdrShort, hdrShortRet, hdrSplit, lenArr, decLenBytes, decEndian, postChecks, payloadSplit,
    exactTrim, advanceBy, decodeLen, firstHit, earlyStep]
  by_cases h : src.length < 8
  · simp [h]
  · simp only [h, decide_false, if_false, Bool.false_eq_true]
    have hl : (List.take 8 src).length = 8 := by simp; omega
    simp only [hl]
    split
    · simp_all
    · obtain ⟨n, hn⟩ : ∃ n, beDecode (List.take 8 src) = n := ⟨_, rfl⟩
      simp only [hn]
      simp only [List.length_drop, decide_eq_true_eq]
      by_cases h0 : n = 0
      · simp [h0]
      by_cases h1 : n > max
      · simp [h0, h1]
      by_cases h2 : src.length - 8 < n
      · simp [h0, h1, h2]
      · have h3 : ¬ src.length = n := by omega
        have h4 : ¬ src.length < 8 + n := by omega
        simp [h0, h1, h2, h3, h4]

theorem pow_eq : (256 : Nat) ^ 8 = 2 ^ 64 := by decide

theorem hdr_length (n : Nat) : (encodeLen encEndian encLenBytes n).length = 8 := by
  simp [encodeLen, encEndian, encLenBytes, beEncode_length]

theorem hdr_roundtrip (n : Nat) (h : n < 2 ^ 64) :
    decodeLen decEndian (encodeLen encEndian encLenBytes n) = n := by
  simp only [decodeLen, decEndian, encodeLen, encEndian, encLenBytes, beDecode_beEncode]
  rw [pow_eq]; exact Nat.mod_eq_of_lt h

theorem decodeStep_frameOf (max : Nat) (p rest : Bytes)
    (h0 : 0 < p.length) (h1 : p.length ≤ max) (h2 : p.length < 2 ^ 64) :
    decodeStep max (frameOf p ++ rest) = .frame p rest := by
  have hl := hdr_length p.length
  have hr := hdr_roundtrip p.length h2
  simp only [decodeLen, decEndian] at hr
  rw [decodeStep_spec]
  unfold frameOf
  generalize encodeLen encEndian encLenBytes p.length = H at hl hr
  have ht : List.take 8 (H ++ p ++ rest) = H := by
    rw [List.append_assoc, List.take_append_of_le_length (by omega), ← hl, List.take_length]
  have hd : List.drop 8 (H ++ p ++ rest) = p ++ rest := by
    rw [List.append_assoc, ← hl, List.drop_left]
  have hlen : (H ++ p ++ rest).length = 8 + p.length + rest.length := by simp [hl, Nat.add_assoc]
  rw [ht, hd, hr, hlen]
  have hd2 : List.drop (8 + p.length) (H ++ p ++ rest) = rest := by
    have : 8 + p.length = (H ++ p).length := by simp [hl]
    rw [this, List.drop_left]
  rw [hd2]
  have e1 : ¬ (8 + p.length + rest.length < 8) := by omega
  have e2 : ¬ (p.length = 0) := by omega
  have e3 : ¬ (p.length > max) := by omega
  have e4 : ¬ (8 + p.length + rest.length - 8 < p.length) := by omega
  simp only [e1, e2, e3, e4, if_false, List.take_left]

theorem decodeStep_ne_panic (max : Nat) (src : Bytes) : decodeStep max src ≠ .panic := by
  rw [decodeStep_spec]
  repeat' split
  all_goals simp

/-- What a taken frame looks like inside the buffer. -/
theorem decodeStep_frame_inv {max : Nat} {src p rest : Bytes}
    (h : decodeStep max src = .frame p rest) :
    src = src.take 8 ++ p ++ rest ∧ (src.take 8).length = 8 ∧ beDecode (src.take 8) = p.length ∧
      0 < p.length ∧ p.length ≤ max := by
  rw [decodeStep_spec] at h
  split at h; · cases h
  split at h; · cases h
  split at h; · cases h
  split at h; · cases h
  rename_i a b c d
  injection h with hp hr
  have hl : (src.take 8).length = 8 := by simp; omega
  have hpl : p.length = beDecode (src.take 8) := by
    rw [← hp]; simp; omega
  refine ⟨?_, hl, hpl.symm, by omega, by omega⟩
  rw [← hp, ← hr, List.append_assoc]
  conv => lhs; rw [← List.take_append_drop 8 src]
  congr 1
  rw [← List.drop_drop]
  exact (List.take_append_drop _ _).symm

theorem decodeStep_frame_shorter {max : Nat} {src p rest : Bytes}
    (h : decodeStep max src = .frame p rest) : rest.length + 8 + p.length = src.length := by
  obtain ⟨h1, h2, _, _, _⟩ := decodeStep_frame_inv h
  have := congrArg List.length h1
  simp only [List.length_append, h2] at this
  omega

theorem take8_append {src : Bytes} (y : Bytes) (h : 8 ≤ src.length) :
    (src ++ y).take 8 = src.take 8 := by
  rw [List.take_append_of_le_length h]

theorem decodeStep_frame_append {max : Nat} {src p rest : Bytes} (y : Bytes)
    (h : decodeStep max src = .frame p rest) :
    decodeStep max (src ++ y) = .frame p (rest ++ y) := by
  have hs := decodeStep_frame_shorter h
  obtain ⟨h1, h2, h3, h4, h5⟩ := decodeStep_frame_inv h
  have h8 : 8 ≤ src.length := by omega
  rw [decodeStep_spec, take8_append y h8, h3]
  have e1 : ¬ ((src ++ y).length < 8) := by simp; omega
  have e2 : ¬ (p.length = 0) := by omega
  have e3 : ¬ (p.length > max) := by omega
  have e4 : ¬ ((src ++ y).length - 8 < p.length) := by simp; omega
  simp only [e1, e2, e3, e4, if_false]
  have hsrc : src ++ y = src.take 8 ++ (p ++ (rest ++ y)) := by
    conv => lhs; rw [h1]
    simp [List.append_assoc]
  rw [hsrc]
  generalize List.take 8 src = H at h2
  have hd : List.drop 8 (H ++ (p ++ (rest ++ y))) = p ++ (rest ++ y) := by
    rw [← h2, List.drop_left]
  have hd2 : List.drop (8 + p.length) (H ++ (p ++ (rest ++ y))) = rest ++ y := by
    have : 8 + p.length = (H ++ p).length := by simp [h2]
    rw [this, ← List.append_assoc, List.drop_left]
  rw [hd, hd2, List.take_left]

theorem decodeStep_err_append {max : Nat} {src : Bytes} {e : Fault} (y : Bytes)
    (h : decodeStep max src = .err e) : decodeStep max (src ++ y) = .err e := by
  rw [decodeStep_spec] at h ⊢
  split at h; · cases h
  rename_i a
  have h8 : 8 ≤ src.length := by omega
  have e1 : ¬ ((src ++ y).length < 8) := by simp; omega
  rw [take8_append y h8]
  simp only [e1, if_false]
  split at h
  · rename_i b; simp only [b, if_true]; exact h
  rename_i b
  split at h
  · rename_i c; simp only [b, c, if_true, if_false]; exact h
  split at h <;> cases h

section drain
variable {M : Type} (parse : Bytes → Option M) (max : Nat)

theorem decode_msg_shorter {src b : Bytes} {m : M}
    (h : decode parse max src = (.msg m, b)) : b.length < src.length := by
  unfold decode at h
  split at h
  · cases h
  · cases h
  · cases h
  · rename_i p rest hs
    have := decodeStep_frame_shorter hs
    split at h
    · injection h with _ hb; subst hb; omega
    · cases h

theorem drainF_fuel (f1 f2 : Nat) (src : Bytes) (h1 : src.length < f1) (h2 : src.length < f2) :
    drainF parse max f1 src = drainF parse max f2 src := by
  induction f1 generalizing f2 src with
  | zero => omega
  | succ f1 ih =>
    cases f2 with
    | zero => omega
    | succ f2 =>
      unfold drainF
      split
      · rfl
      · rfl
      · rename_i m b hd
        have := decode_msg_shorter parse max hd
        rw [ih f2 b (by omega) (by omega)]

/-- Fuel-free recursion equation of the read loop. -/
theorem drain_eq (src : Bytes) :
    drain parse max src =
      match decode parse max src with
      | (.needMore, b) => ⟨[], b, none⟩
      | (.err e, b) => ⟨[], b, some e⟩
      | (.msg m, b) =>
        ⟨m :: (drain parse max b).msgs, (drain parse max b).buf, (drain parse max b).fault⟩ := by
  unfold drain
  conv => lhs; unfold drainF
  generalize hd : decode parse max src = r
  obtain ⟨o, b⟩ := r
  cases o with
  | needMore => rfl
  | err e => rfl
  | msg m =>
    have := decode_msg_shorter parse max hd
    simp only [drainF_fuel parse max src.length (b.length + 1) b (by omega) (by omega)]

theorem drain_needMore {src : Bytes} (h : decodeStep max src = .needMore) :
    drain parse max src = ⟨[], src, none⟩ := by
  rw [drain_eq]; simp [decode, h]

theorem drain_err {src : Bytes} {e : Fault} (h : decodeStep max src = .err e) :
    drain parse max src = ⟨[], src, some e⟩ := by
  rw [drain_eq]; simp [decode, h]

theorem drain_frame_bad {src p rest : Bytes} (h : decodeStep max src = .frame p rest)
    (hp : parse p = none) : drain parse max src = ⟨[], rest, some .badPayload⟩ := by
  rw [drain_eq]; simp [decode, h, hp]

theorem drain_frame_ok {src p rest : Bytes} {m : M} (h : decodeStep max src = .frame p rest)
    (hp : parse p = some m) :
    drain parse max src =
      ⟨m :: (drain parse max rest).msgs, (drain parse max rest).buf, (drain parse max rest).fault⟩ := by
  rw [drain_eq]; simp [decode, h, hp]

/-- Appending bytes to a buffer: what was decodable stays decoded identically, then the loop
continues on the remainder plus the new bytes. -/
theorem drain_append (src y : Bytes) :
    drain parse max (src ++ y) =
      match (drain parse max src).fault with
      | some f => ⟨(drain parse max src).msgs, (drain parse max src).buf ++ y, some f⟩
      | none =>
        ⟨(drain parse max src).msgs ++ (drain parse max ((drain parse max src).buf ++ y)).msgs,
         (drain parse max ((drain parse max src).buf ++ y)).buf,
         (drain parse max ((drain parse max src).buf ++ y)).fault⟩ := by
  suffices H : ∀ n (src : Bytes), src.length ≤ n →
      drain parse max (src ++ y) =
        match (drain parse max src).fault with
        | some f => ⟨(drain parse max src).msgs, (drain parse max src).buf ++ y, some f⟩
        | none =>
          ⟨(drain parse max src).msgs ++ (drain parse max ((drain parse max src).buf ++ y)).msgs,
           (drain parse max ((drain parse max src).buf ++ y)).buf,
           (drain parse max ((drain parse max src).buf ++ y)).fault⟩ from H _ src (Nat.le_refl _)
  intro n
  induction n with
  | zero =>
    intro src hn
    have hs : decodeStep max src = .needMore := by
      rw [decodeStep_spec]; simp; omega
    simp [drain_needMore parse max hs]
  | succ n ih =>
    intro src hn
    cases hs : decodeStep max src with
    | needMore => simp [drain_needMore parse max hs]
    | err e =>
      simp [drain_err parse max hs, drain_err parse max (decodeStep_err_append y hs)]
    | panic => exact absurd hs (decodeStep_ne_panic max src)
    | frame p rest =>
      have hs' := decodeStep_frame_append y hs
      have hlen := decodeStep_frame_shorter hs
      cases hp : parse p with
      | none =>
        simp [drain_frame_bad parse max hs hp, drain_frame_bad parse max hs' hp]
      | some m =>
        rw [drain_frame_ok parse max hs hp, drain_frame_ok parse max hs' hp]
        have := ih rest (by omega)
        rw [this]
        cases (drain parse max rest).fault <;> simp

theorem feedAll_cons (c : Conn) (x : Bytes) (xs : List Bytes) :
    feedAll parse max c (x :: xs) =
      ((feedAll parse max (feed parse max c x).1 xs).1,
       (feed parse max c x).2 ++ (feedAll parse max (feed parse max c x).1 xs).2) := rfl

theorem feedAll_dead (c : Conn) (chunks : List Bytes) (h : c.fault ≠ none) :
    feedAll parse max c chunks = (c, []) := by
  induction chunks with
  | nil => rfl
  | cons x xs ih =>
    obtain ⟨f, hf⟩ := Option.ne_none_iff_exists'.mp h
    simp [feedAll, feed, hf, ih]

theorem feed_live (c : Conn) (z : Bytes) (hc : c.fault = none) :
    feed parse max c z =
      (⟨(drain parse max (c.buf ++ z)).buf, (drain parse max (c.buf ++ z)).fault⟩,
       (drain parse max (c.buf ++ z)).msgs) := by
  simp [feed, hc]

/-- A non-empty schedule of reads on a live connection yields the same messages and the same
terminal error as one read of the concatenation, and the same buffer when no error occurred. -/
theorem feedAll_cons_fuse (xs : List Bytes) (c : Conn) (x : Bytes) (hc : c.fault = none) :
    (feedAll parse max c (x :: xs)).2 = (feed parse max c (x ++ xs.flatten)).2 ∧
    (feedAll parse max c (x :: xs)).1.fault = (feed parse max c (x ++ xs.flatten)).1.fault ∧
    ((feed parse max c (x ++ xs.flatten)).1.fault = none →
      (feedAll parse max c (x :: xs)).1.buf = (feed parse max c (x ++ xs.flatten)).1.buf) := by
  induction xs generalizing c x with
  | nil => simp [feedAll]
  | cons y ys ih =>
    have hfuse := drain_append parse max (c.buf ++ x) (y ++ ys.flatten)
    simp only [List.flatten_cons]
    rw [feedAll_cons, feed_live parse max c (x ++ (y ++ ys.flatten)) hc, ← List.append_assoc c.buf x,
      hfuse]
    cases hf : (drain parse max (c.buf ++ x)).fault with
    | some f =>
      have hdead : (feed parse max c x).1.fault ≠ none := by
        rw [feed_live parse max c x hc]; simp [hf]
      rw [feedAll_dead parse max _ _ hdead, feed_live parse max c x hc]
      simp [hf]
    | none =>
      have hlive : (feed parse max c x).1.fault = none := by
        rw [feed_live parse max c x hc]; simp [hf]
      obtain ⟨i1, i2, i3⟩ := ih (feed parse max c x).1 y hlive
      rw [feed_live parse max _ (y ++ ys.flatten) hlive] at i1 i2 i3
      have hb : (feed parse max c x).1.buf = (drain parse max (c.buf ++ x)).buf := by
        rw [feed_live parse max c x hc]
      have hm : (feed parse max c x).2 = (drain parse max (c.buf ++ x)).msgs := by
        rw [feed_live parse max c x hc]
      rw [hb] at i1 i2 i3
      simp only at i1 i2 i3 ⊢
      exact ⟨by rw [i1, hm], i2, i3⟩

theorem encodeAll_foldl (print : M → Bytes) (msgs : List M) (dst : Bytes) :
    msgs.foldl (fun dst m => encode print m dst) dst = dst ++ encodeAll print msgs := by
  induction msgs generalizing dst with
  | nil => simp [encodeAll]
  | cons m ms ih =>
    simp only [encodeAll, List.foldl_cons]
    rw [ih, ih (encode print m [])]
    simp [encode, List.append_assoc]

theorem encodeAll_cons (print : M → Bytes) (m : M) (msgs : List M) :
    encodeAll print (m :: msgs) = frameOf (print m) ++ encodeAll print msgs := by
  conv => lhs; unfold encodeAll
  rw [List.foldl_cons, encodeAll_foldl]; simp [encode]

/-- A payload the peer may legitimately send under limit `max`. -/
def ValidPayload (max : Nat) (p : Bytes) : Prop := 0 < p.length ∧ p.length ≤ max ∧ p.length < 2 ^ 64

theorem drain_encodeAll (print : M → Bytes) (hpp : ∀ m, parse (print m) = some m)
    (msgs : List M) (hv : ∀ m ∈ msgs, ValidPayload max (print m)) (t : Bytes) :
    drain parse max (encodeAll print msgs ++ t) =
      ⟨msgs ++ (drain parse max t).msgs, (drain parse max t).buf, (drain parse max t).fault⟩ := by
  induction msgs with
  | nil => simp [encodeAll]
  | cons m ms ih =>
    obtain ⟨v0, v1, v2⟩ := hv m (List.mem_cons_self ..)
    rw [encodeAll_cons, List.append_assoc,
      drain_frame_ok parse max (decodeStep_frameOf max (print m) _ v0 v1 v2) (hpp m),
      ih (fun m' hm' => hv m' (List.mem_cons_of_mem _ hm'))]
    simp

theorem decodeStep_ne_err_panic (src : Bytes) : decodeStep max src ≠ .err .panic := by
  rw [decodeStep_spec]
  repeat' split
  all_goals simp

/-- A proper prefix of a legitimate frame is never decoded and never an error. -/
theorem decodeStep_strict_prefix {p t u : Bytes} (hv : ValidPayload max p)
    (hu : u ≠ []) (h : t ++ u = frameOf p) : decodeStep max t = .needMore := by
  obtain ⟨v0, v1, v2⟩ := hv
  rw [decodeStep_spec]
  by_cases h8 : t.length < 8
  · simp [h8]
  · have hl := hdr_length p.length
    have hr := hdr_roundtrip p.length v2
    simp only [decodeLen, decEndian] at hr
    have hlen := congrArg List.length h
    have hulen : 0 < u.length := List.length_pos_iff.mpr hu
    simp only [frameOf, List.length_append, hl] at hlen
    have ht : t.take 8 = encodeLen encEndian encLenBytes p.length := by
      rw [← take8_append u (by omega), h, frameOf, List.take_append_of_le_length (by omega), ← hl,
        List.take_length]
    rw [ht, hr]
    have e2 : ¬ (p.length = 0) := by omega
    have e3 : ¬ (p.length > max) := by omega
    have e4 : t.length - 8 < p.length := by omega
    simp [h8, e2, e3, e4]
end drain
end Kanidm.Codec
