import KanidmModel.AccountPolicy
/-!
Helper lemmas for C35 (account policy resolution): permutation invariance of folds with a
right-commutative step, selection folds (min/max-like), and the meaning of CA-list intersection.
-/
namespace Kanidm.AccountPolicy
open Kanidm.Gen.AccountPolicy

/-! ## Folds and permutations -/

theorem perm_foldl {α β : Type} (f : β → α → β)
    (hcomm : ∀ b x y, f (f b x) y = f (f b y) x) {l₁ l₂ : List α} (h : l₁.Perm l₂) :
    ∀ b, l₁.foldl f b = l₂.foldl f b := by
  induction h with
  | nil => intro b; rfl
  | cons x _ ih => intro b; simp only [List.foldl_cons]; exact ih _
  | swap x y l => intro b; simp only [List.foldl_cons]; rw [hcomm]
  | trans _ _ ih1 ih2 => intro b; exact (ih1 b).trans (ih2 b)

theorem perm_all {α : Type} (f : α → Bool) {l₁ l₂ : List α} (h : l₁.Perm l₂) :
    l₁.all f = l₂.all f := by
  induction h with
  | nil => rfl
  | cons x _ ih => simp only [List.all_cons, ih]
  | swap x y l => simp only [List.all_cons]; rw [← Bool.and_assoc, ← Bool.and_assoc, Bool.and_comm (f y)]
  | trans _ _ ih1 ih2 => exact ih1.trans ih2

theorem perm_any {α : Type} (f : α → Bool) {l₁ l₂ : List α} (h : l₁.Perm l₂) :
    l₁.any f = l₂.any f := by
  induction h with
  | nil => rfl
  | cons x _ ih => simp only [List.any_cons, ih]
  | swap x y l => simp only [List.any_cons]; rw [← Bool.or_assoc, ← Bool.or_assoc, Bool.or_comm (f y)]
  | trans _ _ ih1 ih2 => exact ih1.trans ih2

/-- A field of the fold depends only on that field of the accumulator. -/
theorem foldl_proj {γ : Type} (proj : Resolved → γ) (g : γ → AccountPolicy → γ)
    (h : ∀ a p, proj (step a p) = g (proj a) p) :
    ∀ (l : List AccountPolicy) (a : Resolved), proj (l.foldl step a) = l.foldl g (proj a) := by
  intro l
  induction l with
  | nil => intro a; rfl
  | cons p t ih => intro a; simp only [List.foldl_cons]; rw [ih, h]

/-! ## Selection folds: `m ↦ if takes v m then v else m` -/

/-- The accumulator update of the four scalar fields. -/
def sel (takes : Nat → Nat → Bool) (m v : Nat) : Nat := if takes v m then v else m

def selFold (takes : Nat → Nat → Bool) (x : AccountPolicy → Nat) (l : List AccountPolicy) (m : Nat) : Nat :=
  l.foldl (fun m p => sel takes m (x p)) m

/-- The update never yields more than either argument (true of `<` and of `<=`). -/
def IsMin (takes : Nat → Nat → Bool) : Prop := ∀ m v, sel takes m v ≤ m ∧ sel takes m v ≤ v
/-- The update never yields less than either argument (true of `>` and of `>=`). -/
def IsMax (takes : Nat → Nat → Bool) : Prop := ∀ m v, m ≤ sel takes m v ∧ v ≤ sel takes m v

theorem isMin_eq {takes} (h : IsMin takes) (m v : Nat) : sel takes m v = min m v := by
  have := h m v
  unfold sel at this ⊢
  split <;> simp_all <;> omega

theorem isMax_eq {takes} (h : IsMax takes) (m v : Nat) : sel takes m v = max m v := by
  have := h m v
  unfold sel at this ⊢
  split <;> simp_all <;> omega

theorem sel_comm_of_min {takes} (h : IsMin takes) (m u v : Nat) :
    sel takes (sel takes m u) v = sel takes (sel takes m v) u := by
  simp only [isMin_eq h]; omega

theorem sel_comm_of_max {takes} (h : IsMax takes) (m u v : Nat) :
    sel takes (sel takes m u) v = sel takes (sel takes m v) u := by
  simp only [isMax_eq h]; omega

theorem selFold_le {takes} (h : IsMin takes) (x : AccountPolicy → Nat) (l : List AccountPolicy) (m : Nat) :
    selFold takes x l m ≤ m ∧ ∀ p ∈ l, selFold takes x l m ≤ x p := by
  induction l generalizing m with
  | nil => exact ⟨Nat.le_refl _, fun _ hp => by cases hp⟩
  | cons q t ih =>
    have := ih (sel takes m (x q))
    have hq := h m (x q)
    simp only [selFold, List.foldl_cons] at this ⊢
    refine ⟨by omega, fun p hp => ?_⟩
    rcases List.mem_cons.mp hp with rfl | hp
    · omega
    · exact this.2 p hp

theorem selFold_ge {takes} (h : IsMax takes) (x : AccountPolicy → Nat) (l : List AccountPolicy) (m : Nat) :
    m ≤ selFold takes x l m ∧ ∀ p ∈ l, x p ≤ selFold takes x l m := by
  induction l generalizing m with
  | nil => exact ⟨Nat.le_refl _, fun _ hp => by cases hp⟩
  | cons q t ih =>
    have := ih (sel takes m (x q))
    have hq := h m (x q)
    simp only [selFold, List.foldl_cons] at this ⊢
    refine ⟨by omega, fun p hp => ?_⟩
    rcases List.mem_cons.mp hp with rfl | hp
    · omega
    · exact this.2 p hp

theorem selFold_perm {takes} (hc : ∀ m u v, sel takes (sel takes m u) v = sel takes (sel takes m v) u)
    (x : AccountPolicy → Nat) {l₁ l₂ : List AccountPolicy} (h : l₁.Perm l₂) (m : Nat) :
    selFold takes x l₁ m = selFold takes x l₂ m :=
  perm_foldl _ (fun b p q => hc b (x p) (x q)) h m

/-! The generated comparisons are of the right kind. -/
theorem priv_isMin : IsMin privTakes := by
  intro m v; unfold sel; simp only [privTakes]; by_cases h : v < m <;> simp [h] <;> omega
theorem sess_isMin : IsMin sessTakes := by
  intro m v; unfold sel; simp only [sessTakes]; by_cases h : v < m <;> simp [h] <;> omega
theorem pwMin_isMax : IsMax pwMinTakes := by
  intro m v; unfold sel; simp only [pwMinTakes]; by_cases h : v > m <;> simp [h] <;> omega
theorem cred_isMax : IsMax credTakes := by
  intro m v; unfold sel; simp only [credTakes]; by_cases h : v > m <;> simp [h] <;> omega
theorem limResults_isMax : IsMax limResultsTakes := by
  intro m v; unfold sel; simp only [limResultsTakes]; by_cases h : v > m <;> simp [h] <;> omega
theorem limFilter_isMax : IsMax limFilterTakes := by
  intro m v; unfold sel; simp only [limFilterTakes]; by_cases h : v > m <;> simp [h] <;> omega

/-! ## The scalar fields of the fold in closed form -/

theorem fold_priv (l : List AccountPolicy) (a : Resolved) :
    (l.foldl step a).privilegeExpiry = selFold privTakes (·.privilegeExpiry) l a.privilegeExpiry :=
  foldl_proj (·.privilegeExpiry) _ (fun _ _ => rfl) l a
theorem fold_sess (l : List AccountPolicy) (a : Resolved) :
    (l.foldl step a).authsessionExpiry = selFold sessTakes (·.authsessionExpiry) l a.authsessionExpiry :=
  foldl_proj (·.authsessionExpiry) _ (fun _ _ => rfl) l a
theorem fold_pwMin (l : List AccountPolicy) (a : Resolved) :
    (l.foldl step a).pwMinLength = selFold pwMinTakes (·.pwMinLength) l a.pwMinLength :=
  foldl_proj (·.pwMinLength) _ (fun _ _ => rfl) l a
theorem fold_cred (l : List AccountPolicy) (a : Resolved) :
    (l.foldl step a).credentialPolicy = selFold credTakes (·.credentialPolicy) l a.credentialPolicy :=
  foldl_proj (·.credentialPolicy) _ (fun _ _ => rfl) l a
theorem fold_pwMax (l : List AccountPolicy) (a : Resolved) :
    (l.foldl step a).pwMaxLength = a.pwMaxLength := by
  have := foldl_proj (·.pwMaxLength) (fun m _ => m) (fun _ _ => rfl) l a
  rw [this]; clear this
  induction l with
  | nil => rfl
  | cons _ t ih => simpa using ih
theorem fold_limResults (l : List AccountPolicy) (a : Resolved) :
    (l.foldl step a).limitResults = l.foldl (fun m p => limStep limResultsTakes m p.limitResults) a.limitResults :=
  foldl_proj (·.limitResults) _ (fun _ _ => rfl) l a
theorem fold_limFilter (l : List AccountPolicy) (a : Resolved) :
    (l.foldl step a).limitFilterTest = l.foldl (fun m p => limStep limFilterTakes m p.limitFilterTest) a.limitFilterTest :=
  foldl_proj (·.limitFilterTest) _ (fun _ _ => rfl) l a
theorem fold_fb (l : List AccountPolicy) (a : Resolved) :
    (l.foldl step a).allowFallback = l.foldl (fun m p => fbStep m p.allowFallback) a.allowFallback :=
  foldl_proj (·.allowFallback) _ (fun _ _ => rfl) l a
theorem fold_ca (l : List AccountPolicy) (a : Resolved) :
    (l.foldl step a).caList = l.foldl (fun m p => caStep m p.caList) a.caList :=
  foldl_proj (·.caList) _ (fun _ _ => rfl) l a

theorem limStep_comm {takes} (h : IsMax takes) (m x y : Option Nat) :
    limStep takes (limStep takes m x) y = limStep takes (limStep takes m y) x := by
  have e : ∀ a b, (if takes b a = true then some b else some a) = some (sel takes a b) := by
    intro a b; unfold sel; split <;> rfl
  cases m <;> cases x <;> cases y <;> simp only [limStep, e, isMax_eq h, Option.some.injEq] <;> omega

theorem fbStep_comm (m x y : Option Bool) : fbStep (fbStep m x) y = fbStep (fbStep m y) x := by
  cases m <;> cases x <;> cases y <;> simp [fbStep] <;> (rename_i a b; cases a <;> cases b <;> rfl)

/-! ## CA lists -/

/-- `BTreeMap` invariant: one entry per key. -/
def caWF : CaList → Prop
  | [] => True
  | (k, _) :: t => caFind t k = none ∧ caWF t

def optWF : Option CaList → Prop
  | none => True
  | some l => caWF l

theorem caFind_inter_none (s o : CaList) (k : Nat) (h : caFind s k = none) :
    caFind (caInter s o) k = none := by
  induction s with
  | nil => rfl
  | cons hd t ih =>
    obtain ⟨k', e⟩ := hd
    simp only [caFind] at h
    by_cases hk : k' = k
    · simp [hk] at h
    · simp only [hk, if_false] at h
      simp only [caInter, List.filterMap_cons]
      have ih' := ih h
      simp only [caInter] at ih'
      split
      · exact ih'
      · rename_i b hb
        split at hb
        · split at hb
          · cases hb; simp only [caFind, hk, if_false]; exact ih'
          · cases hb
        · cases hb

theorem caWF_inter (s o : CaList) (h : caWF s) : caWF (caInter s o) := by
  induction s with
  | nil => trivial
  | cons hd t ih =>
    obtain ⟨k', e⟩ := hd
    have ih' := ih h.2
    have hn := caFind_inter_none t o k' h.1
    simp only [caInter, List.filterMap_cons] at ih' hn ⊢
    split
    · exact ih'
    · rename_i b hb
      split at hb
      · split at hb
        · cases hb; exact ⟨hn, ih'⟩
        · cases hb
      · cases hb

/-- What the intersection holds for a key (one entry per key in `s`). -/
theorem caFind_inter (s o : CaList) (k : Nat) (h : caWF s) :
    caFind (caInter s o) k =
      match caFind s k, caFind o k with
      | some se, some oe => if canRetain (entryInter se oe) then some (entryInter se oe) else none
      | _, _ => none := by
  induction s with
  | nil => simp [caInter, caFind]
  | cons hd t ih =>
    obtain ⟨k', e⟩ := hd
    have ih' := ih h.2
    have hn := caFind_inter_none t o k' h.1
    simp only [caInter, List.filterMap_cons] at ih' hn ⊢
    by_cases hk : k' = k
    · subst hk
      simp only [caFind, if_true]
      cases ho : caFind o k' with
      | none => simp only [hn]
      | some oe =>
        simp only
        by_cases hr : canRetain (entryInter e oe) = true
        · simp [hr, caFind]
        · simp only [hr]
          exact hn
    · simp only [caFind, hk, if_false]
      split
      · exact ih'
      · rename_i b hb
        split at hb
        · split at hb
          · cases hb; simp only [caFind, hk, if_false]; exact ih'
          · cases hb
        · cases hb

theorem contains_filter (sd od : List Nat) (g : Nat) :
    (sd.filter fun x => od.contains x).contains g = (sd.contains g && od.contains g) := by
  rw [Bool.eq_iff_iff]
  simp [List.mem_filter]

theorem entryTrusts_inter (s o : CaEntry) (g : Nat) :
    entryTrusts (entryInter s o) g = (entryTrusts s g && entryTrusts o g) := by
  cases s <;> cases o <;> simp [entryInter, entryTrusts]

theorem entryTrusts_of_not_retain (e : CaEntry) (g : Nat) (h : canRetain e = false) :
    entryTrusts e g = false := by
  cases e with
  | blanket => simp [canRetain] at h
  | devices d =>
    simp only [canRetain, Bool.not_eq_false', List.isEmpty_iff] at h
    subst h; rfl

/-- **Meaning of the intersection**: it trusts exactly what both lists trust. -/
theorem caTrusts_inter (s o : CaList) (k g : Nat) (h : caWF s) :
    caTrusts (caInter s o) k g = (caTrusts s k g && caTrusts o k g) := by
  unfold caTrusts
  rw [caFind_inter s o k h]
  cases hs : caFind s k with
  | none => simp
  | some se =>
    cases ho : caFind o k with
    | none => simp
    | some oe =>
      simp only
      by_cases hr : canRetain (entryInter se oe) = true
      · simp only [hr, if_true]; exact entryTrusts_inter se oe g
      · simp only [hr]
        have := entryTrusts_of_not_retain _ g (by simpa using hr)
        rw [entryTrusts_inter] at this
        simp [this]

theorem caStep_trusts (a p : Option CaList) (k g : Nat) (h : optWF a) :
    caOptTrusts (caStep a p) k g = (caOptTrusts a k g && caOptTrusts p k g) := by
  cases p with
  | none => simp [caStep, caOptTrusts]
  | some pl =>
    cases a with
    | none => simp [caStep, caOptTrusts]
    | some al => simp only [caStep, caOptTrusts]; exact caTrusts_inter al pl k g h

theorem caStep_wf (a p : Option CaList) (ha : optWF a) (hp : optWF p) : optWF (caStep a p) := by
  cases p with
  | none => exact ha
  | some pl =>
    cases a with
    | none => exact hp
    | some al => exact caWF_inter al pl ha

theorem caFold_wf (l : List AccountPolicy) (a : Option CaList) (ha : optWF a)
    (hl : ∀ p ∈ l, optWF p.caList) : optWF (l.foldl (fun m p => caStep m p.caList) a) := by
  induction l generalizing a with
  | nil => exact ha
  | cons q t ih =>
    simp only [List.foldl_cons]
    exact ih _ (caStep_wf a q.caList ha (hl q List.mem_cons_self))
      (fun p hp => hl p (List.mem_cons_of_mem _ hp))

/-- What the folded CA list trusts: what the accumulator and every policy trust. -/
theorem caFold_trusts (l : List AccountPolicy) (a : Option CaList) (k g : Nat) (ha : optWF a)
    (hl : ∀ p ∈ l, optWF p.caList) :
    caOptTrusts (l.foldl (fun m p => caStep m p.caList) a) k g =
      (caOptTrusts a k g && l.all fun p => caOptTrusts p.caList k g) := by
  induction l generalizing a with
  | nil => simp
  | cons q t ih =>
    simp only [List.foldl_cons, List.all_cons]
    rw [ih _ (caStep_wf a q.caList ha (hl q List.mem_cons_self))
      (fun p hp => hl p (List.mem_cons_of_mem _ hp)), caStep_trusts a q.caList k g ha, Bool.and_assoc]

theorem caFold_isSome (l : List AccountPolicy) (a : Option CaList) :
    (l.foldl (fun m p => caStep m p.caList) a).isSome = (a.isSome || l.any fun p => p.caList.isSome) := by
  induction l generalizing a with
  | nil => simp
  | cons q t ih =>
    simp only [List.foldl_cons, List.any_cons]
    rw [ih, ← Bool.or_assoc]
    congr 1
    cases a <;> cases h : q.caList <;> simp [caStep]

/-! ## `finish` -/

theorem finish_other (a : Resolved) :
    (finish a).privilegeExpiry = a.privilegeExpiry ∧ (finish a).authsessionExpiry = a.authsessionExpiry ∧
    (finish a).pwMaxLength = a.pwMaxLength ∧ (finish a).credentialPolicy = a.credentialPolicy ∧
    (finish a).caList = a.caList ∧ (finish a).limitFilterTest = a.limitFilterTest ∧
    (finish a).limitResults = a.limitResults ∧ (finish a).allowFallback = a.allowFallback := by
  unfold finish; split <;> simp

theorem finish_pwMin (a : Resolved) :
    (finish a).pwMinLength = if nistApplies a.credentialPolicy a.pwMinLength then pwSfaMin else a.pwMinLength := by
  unfold finish; split <;> simp_all

end Kanidm.AccountPolicy
