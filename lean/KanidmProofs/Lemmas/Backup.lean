import KanidmModel.Backup
import KanidmProofs.Lemmas.IndexMaint
/-
Helper lemmas for C13 (backup then restore reproduces the database).
-/
namespace Kanidm.Backup
open Kanidm.Index (aget insertId Tables mem_insertId)

/-! ### association lists in insertion order -/

section AMap
variable {κ ν : Type} [DecidableEq κ]

theorem aget_aput (m : List (κ × ν)) (k : κ) (v : ν) (k' : κ) :
    aget (aput m k v) k' = if k = k' then some v else aget m k' := by
  induction m with
  | nil => simp [aput, aget]
  | cons p r ih =>
    obtain ⟨pk, pv⟩ := p
    by_cases h : pk = k
    · subst h
      simp only [aput, if_true, aget]
      by_cases h2 : pk = k' <;> simp [h2]
    · simp only [aput, h, if_false, aget, ih]
      by_cases h2 : pk = k'
      · subst h2
        have : ¬ k = pk := fun e => h e.symm
        simp [this]
      · simp [h2]

theorem aget_none_of_not_mem (m : List (κ × ν)) (k : κ) (h : k ∉ m.map (·.1)) : aget m k = none := by
  induction m with
  | nil => rfl
  | cons p r ih =>
    obtain ⟨pk, pv⟩ := p
    simp only [List.map_cons, List.mem_cons, not_or] at h
    have : ¬ pk = k := fun e => h.1 e.symm
    simp [aget, this, ih h.2]

theorem aget_isSome_iff (m : List (κ × ν)) (k : κ) : (aget m k).isSome = true ↔ k ∈ m.map (·.1) := by
  induction m with
  | nil => simp [aget]
  | cons p r ih =>
    obtain ⟨pk, pv⟩ := p
    by_cases h : pk = k
    · subst h; simp [aget]
    · have h' : ¬ k = pk := fun e => h e.symm
      simp [aget, h, h', ih]

theorem aput_fresh (m : List (κ × ν)) (k : κ) (v : ν) (h : k ∉ m.map (·.1)) : aput m k v = m ++ [(k, v)] := by
  induction m with
  | nil => rfl
  | cons p r ih =>
    obtain ⟨pk, pv⟩ := p
    simp only [List.map_cons, List.mem_cons, not_or] at h
    have : ¬ pk = k := fun e => h.1 e.symm
    simp [aput, this, ih h.2]

theorem aput_keys (m : List (κ × ν)) (k : κ) (v : ν) :
    (aput m k v).map (·.1) = if k ∈ m.map (·.1) then m.map (·.1) else m.map (·.1) ++ [k] := by
  induction m with
  | nil => simp [aput]
  | cons p r ih =>
    obtain ⟨pk, pv⟩ := p
    by_cases h : pk = k
    · subst h; simp [aput]
    · have h' : ¬ k = pk := fun e => h e.symm
      simp only [aput, h, if_false, List.map_cons, ih, List.mem_cons, h', false_or]
      split <;> simp

theorem aput_keys_nodup (m : List (κ × ν)) (k : κ) (v : ν) (h : (m.map (·.1)).Nodup) :
    ((aput m k v).map (·.1)).Nodup := by
  rw [aput_keys]
  split
  · exact h
  · rename_i hk
    exact List.nodup_append.2 ⟨h, by simp, by
      intro a ha b hb
      simp only [List.mem_singleton] at hb
      subst hb
      intro e; subst e; exact hk ha⟩

theorem extend_append (n m : List (κ × ν)) (h : ((m ++ n).map (·.1)).Nodup) : extend m n = m ++ n := by
  induction n generalizing m with
  | nil => simp [extend]
  | cons p r ih =>
    obtain ⟨pk, pv⟩ := p
    have hk : pk ∉ m.map (·.1) := by
      intro hm
      rw [List.map_append, List.nodup_append] at h
      exact h.2.2 pk hm pk (by simp) rfl
    have : extend m ((pk, pv) :: r) = extend (aput m pk pv) r := rfl
    rw [this, aput_fresh m pk pv hk, ih (m ++ [(pk, pv)]) (by simpa using h)]
    simp

theorem extend_nil (n : List (κ × ν)) (h : (n.map (·.1)).Nodup) : extend [] n = n := by
  simpa using extend_append n [] (by simpa using h)

end AMap

/-! ### numbering -/

theorem number_ids {δ : Type} (l : List δ) (n : Nat) : (number n l).map (·.1) = List.range' n l.length := by
  induction l generalizing n with
  | nil => rfl
  | cons d r ih => simp [number, ih, List.range'_succ]

theorem number_payloads {δ : Type} (l : List δ) (n : Nat) : (number n l).map (·.2) = l := by
  induction l generalizing n with
  | nil => rfl
  | cons d r ih => simp [number, ih]

theorem number_ids_nodup {δ : Type} (l : List δ) (n : Nat) : ((number n l).map (·.1)).Nodup := by
  rw [number_ids]; exact List.nodup_range'

theorem number_length {δ : Type} (l : List δ) (n : Nat) : (number n l).length = l.length := by
  induction l generalizing n with
  | nil => rfl
  | cons d r ih => simp [number, ih]

theorem number_map {δ ε : Type} (f : δ → ε) (l : List δ) (n : Nat) :
    (number n l).map (fun r => (r.1, f r.2)) = number n (l.map f) := by
  induction l generalizing n with
  | nil => rfl
  | cons d r ih => simp [number, ih]

theorem mem_number_id {δ : Type} {l : List δ} {n : Nat} {r : Nat × δ} (h : r ∈ number n l) :
    n ≤ r.1 ∧ r.1 < n + l.length := by
  have : r.1 ∈ (number n l).map (·.1) := List.mem_map.2 ⟨r, h, rfl⟩
  rw [number_ids, List.mem_range'_1] at this
  exact this

theorem foldl_max_le (l : List Nat) (a b : Nat) (ha : a ≤ b) (h : ∀ x ∈ l, x ≤ b) : l.foldl max a ≤ b := by
  induction l generalizing a with
  | nil => simpa
  | cons x r ih =>
    simp only [List.foldl_cons]
    exact ih _ (Nat.max_le.2 ⟨ha, h x (by simp)⟩) (fun y hy => h y (by simp [hy]))

theorem le_foldl_max (l : List Nat) (a : Nat) : a ≤ l.foldl max a ∧ ∀ x ∈ l, x ≤ l.foldl max a := by
  induction l generalizing a with
  | nil => simp
  | cons x r ih =>
    simp only [List.foldl_cons]
    obtain ⟨h1, h2⟩ := ih (max a x)
    refine ⟨Nat.le_trans (Nat.le_max_left a x) h1, ?_⟩
    intro y hy
    rcases List.mem_cons.1 hy with rfl | hy
    · exact Nat.le_trans (Nat.le_max_right a y) h1
    · exact h2 y hy

theorem maxId_number {δ : Type} (l : List δ) : maxId (number firstId l) = l.length := by
  apply Nat.le_antisymm
  · apply foldl_max_le _ _ _ (Nat.zero_le _)
    intro x hx
    rw [number_ids, List.mem_range'_1] at hx
    simp only [firstId] at hx
    omega
  · cases l with
    | nil => simp
    | cons d r =>
      have hmem : (d :: r).length ∈ (number firstId (d :: r)).map (·.1) := by
        rw [number_ids, List.mem_range'_1]
        simp [firstId]
      exact (le_foldl_max _ 0).2 _ hmem

/-! ### the RUV -/

/-- what `ranged` becomes when the cids are inserted one by one -/
def rangedOf (cids : List Cid) : List (Nat × List Nat) := cids.foldl rangeAdd []

theorem ruvRestore_fold_snd (cids : List Cid) (acc : List (Cid × List Nat) × List (Nat × List Nat)) :
    (cids.foldl ruvRestoreStep acc).2 = cids.foldl rangeAdd acc.2 := by
  induction cids generalizing acc with
  | nil => rfl
  | cons c r ih => simp only [List.foldl_cons, ih]; rfl

theorem ruvRestore_fold_fst (cids : List Cid) (acc : List (Cid × List Nat) × List (Nat × List Nat))
    (h : (acc.1.map (·.1) ++ cids).Nodup) :
    (cids.foldl ruvRestoreStep acc).1 = acc.1 ++ cids.map (fun c => (c, [])) := by
  induction cids generalizing acc with
  | nil => simp
  | cons c r ih =>
    have hc : c ∉ acc.1.map (·.1) := by
      intro hm
      rw [List.nodup_append] at h
      exact h.2.2 c hm c (by simp) rfl
    have hnone : aget acc.1 c = none := aget_none_of_not_mem _ _ hc
    simp only [List.foldl_cons]
    rw [ih]
    · simp [ruvRestoreStep, hnone, ruvRestoreEmptyIdl]
    · simp only [ruvRestoreStep, hnone, Option.isSome_none, Bool.false_eq_true, if_false, List.map_append,
        List.map_cons, List.map_nil, List.append_assoc, List.singleton_append]
      exact h

theorem rangeAdd_keys_nodup (r : List (Nat × List Nat)) (c : Cid) (h : (r.map (·.1)).Nodup) :
    ((rangeAdd r c).map (·.1)).Nodup := by
  unfold rangeAdd
  split <;> exact aput_keys_nodup _ _ _ h

theorem foldl_rangeAdd_keys_nodup (cids : List Cid) (r : List (Nat × List Nat)) (h : (r.map (·.1)).Nodup) :
    ((cids.foldl rangeAdd r).map (·.1)).Nodup := by
  induction cids generalizing r with
  | nil => exact h
  | cons c cs ih => exact ih _ (rangeAdd_keys_nodup r c h)

theorem rangedOf_keys_nodup (cids : List Cid) : ((rangedOf cids).map (·.1)).Nodup :=
  foldl_rangeAdd_keys_nodup cids [] (by simp)

/-- the timestamps recorded for server `u` -/
def tsOf (r : List (Nat × List Nat)) (u : Nat) : List Nat := (aget r u).getD []

theorem mem_tsOf_rangeAdd (r : List (Nat × List Nat)) (c : Cid) (u t : Nat) :
    t ∈ tsOf (rangeAdd r c) u ↔ t ∈ tsOf r u ∨ (c.sid = u ∧ c.ts = t) := by
  unfold rangeAdd tsOf
  cases hg : aget r c.sid with
  | none =>
    simp only [aget_aput]
    by_cases hu : c.sid = u
    · subst hu
      simp only [if_true, Option.getD_some, List.mem_singleton, hg, Option.getD_none, List.not_mem_nil, false_or,
        true_and]
      exact eq_comm
    · simp [hu]
  | some ts =>
    simp only [aget_aput]
    by_cases hu : c.sid = u
    · subst hu
      simp only [if_true, Option.getD_some, hg, true_and]
      by_cases hc : ts.contains c.ts = true
      · simp only [hc, if_true]
        constructor
        · exact Or.inl
        · rintro (h | h)
          · exact h
          · subst h; simpa using hc
      · simp only [hc, Bool.false_eq_true, if_false, List.mem_append, List.mem_singleton]
        constructor
        · rintro (h | h)
          · exact Or.inl h
          · exact Or.inr h.symm
        · rintro (h | h)
          · exact Or.inl h
          · exact Or.inr h.symm
    · simp [hu]

theorem mem_tsOf_foldl (cids : List Cid) (r : List (Nat × List Nat)) (u t : Nat) :
    t ∈ tsOf (cids.foldl rangeAdd r) u ↔ t ∈ tsOf r u ∨ (⟨t, u⟩ : Cid) ∈ cids := by
  induction cids generalizing r with
  | nil => simp
  | cons c cs ih =>
    simp only [List.foldl_cons, ih, mem_tsOf_rangeAdd, List.mem_cons]
    constructor
    · rintro ((h | ⟨h1, h2⟩) | h)
      · exact Or.inl h
      · refine Or.inr (Or.inl ?_)
        cases c; simp only at h1 h2; subst h1 h2; rfl
      · exact Or.inr (Or.inr h)
    · rintro (h | h | h)
      · exact Or.inl (Or.inl h)
      · subst h; exact Or.inl (Or.inr ⟨rfl, rfl⟩)
      · exact Or.inr h

/-- `ranged` rebuilt from cids holds exactly their projection -/
theorem mem_rangedOf (cids : List Cid) (u t : Nat) : t ∈ tsOf (rangedOf cids) u ↔ (⟨t, u⟩ : Cid) ∈ cids := by
  have := mem_tsOf_foldl cids [] u t
  simpa [rangedOf, tsOf, aget] using this

/-- the ids recorded under a cid -/
def idsOf (data : List (Cid × List Nat)) (c : Cid) : List Nat := (aget data c).getD []

theorem rebuildRow_keys (id : Nat) (data : List (Cid × List Nat)) (c : Cid) :
    (rebuildRow id data c).map (·.1) = data.map (·.1) := by
  unfold rebuildRow
  cases hg : aget data c with
  | none => simp [ruvRebuildOnlyExisting]
  | some idl =>
    have : c ∈ data.map (·.1) := (aget_isSome_iff data c).1 (by simp [hg])
    simp only [aput_keys, this, if_true]

theorem mem_idsOf_rebuildRow (id : Nat) (data : List (Cid × List Nat)) (c c' : Cid) (x : Nat) :
    x ∈ idsOf (rebuildRow id data c) c' ↔
      x ∈ idsOf data c' ∨ (c = c' ∧ c ∈ data.map (·.1) ∧ x = id) := by
  unfold rebuildRow idsOf
  cases hg : aget data c with
  | none =>
    have : c ∉ data.map (·.1) := fun h => by
      have := (aget_isSome_iff data c).2 h
      simp [hg] at this
    simp [ruvRebuildOnlyExisting, this]
  | some idl =>
    have hmem : c ∈ data.map (·.1) := (aget_isSome_iff data c).1 (by simp [hg])
    simp only [aget_aput]
    by_cases hc : c = c'
    · subst hc
      simp only [if_true, Option.getD_some, mem_insertId, hg, true_and, hmem]
      constructor
      · rintro (h | h)
        · exact Or.inr h
        · exact Or.inl h
      · rintro (h | h)
        · exact Or.inr h
        · exact Or.inl h
    · simp [hc]

theorem foldl_rebuildRow_keys (id : Nat) (cs : List Cid) (data : List (Cid × List Nat)) :
    (cs.foldl (rebuildRow id) data).map (·.1) = data.map (·.1) := by
  induction cs generalizing data with
  | nil => rfl
  | cons c r ih => simp only [List.foldl_cons, ih, rebuildRow_keys]

theorem mem_idsOf_foldl_rebuildRow (id : Nat) (cs : List Cid) (data : List (Cid × List Nat)) (c' : Cid) (x : Nat) :
    x ∈ idsOf (cs.foldl (rebuildRow id) data) c' ↔
      x ∈ idsOf data c' ∨ (c' ∈ cs ∧ c' ∈ data.map (·.1) ∧ x = id) := by
  induction cs generalizing data with
  | nil => simp
  | cons c r ih =>
    simp only [List.foldl_cons, ih, mem_idsOf_rebuildRow, rebuildRow_keys, List.mem_cons]
    constructor
    · rintro ((h | ⟨rfl, h2, h3⟩) | ⟨h1, h2, h3⟩)
      · exact Or.inl h
      · exact Or.inr ⟨Or.inl rfl, h2, h3⟩
      · exact Or.inr ⟨Or.inr h1, h2, h3⟩
    · rintro (h | ⟨rfl | h1, h2, h3⟩)
      · exact Or.inl (Or.inl h)
      · exact Or.inl (Or.inr ⟨rfl, h2, h3⟩)
      · exact Or.inr ⟨h1, h2, h3⟩

theorem ruvRebuild_keys {δ : Type} (cidsOf : δ → List Cid) (rows : List (Nat × δ)) (data : List (Cid × List Nat)) :
    (ruvRebuild cidsOf rows data).map (·.1) = data.map (·.1) := by
  unfold ruvRebuild
  induction rows generalizing data with
  | nil => rfl
  | cons r rs ih => simp only [List.foldl_cons, ih, foldl_rebuildRow_keys]

/-- after `rebuild`, a cid that is present holds its former ids and the id of every entry whose change state
mentions it; absent cids stay absent -/
theorem mem_idsOf_ruvRebuild {δ : Type} (cidsOf : δ → List Cid) (rows : List (Nat × δ))
    (data : List (Cid × List Nat)) (c : Cid) (x : Nat) :
    x ∈ idsOf (ruvRebuild cidsOf rows data) c ↔
      x ∈ idsOf data c ∨ (c ∈ data.map (·.1) ∧ ∃ r ∈ rows, r.1 = x ∧ c ∈ cidsOf r.2) := by
  unfold ruvRebuild
  induction rows generalizing data with
  | nil => simp
  | cons r rs ih =>
    simp only [List.foldl_cons, ih, mem_idsOf_foldl_rebuildRow, foldl_rebuildRow_keys, List.mem_cons]
    constructor
    · rintro ((h | ⟨h1, h2, h3⟩) | ⟨h1, r', h2, h3, h4⟩)
      · exact Or.inl h
      · exact Or.inr ⟨h2, r, Or.inl rfl, h3.symm, h1⟩
      · exact Or.inr ⟨h1, r', Or.inr h2, h3, h4⟩
    · rintro (h | ⟨h1, r', rfl | h2, h3, h4⟩)
      · exact Or.inl (Or.inl h)
      · exact Or.inl (Or.inr ⟨h4, h1, h3.symm⟩)
      · exact Or.inr ⟨h1, r', h2, h3, h4⟩

theorem idsOf_map_nil (l : List Cid) (c : Cid) : idsOf (l.map (fun c => (c, ([] : List Nat)))) c = [] := by
  induction l with
  | nil => rfl
  | cons a r ih =>
    unfold idsOf at ih ⊢
    simp only [List.map_cons, aget]
    split
    · rfl
    · exact ih

/-! ### the `ruv` table -/

theorem foldl_addCid (added l : List Cid) (h : (l ++ added).Nodup) : added.foldl addCid l = l ++ added := by
  induction added generalizing l with
  | nil => simp
  | cons c r ih =>
    have hc : c ∉ l := by
      intro hm
      rw [List.nodup_append] at h
      exact h.2.2 c hm c (by simp) rfl
    simp only [List.foldl_cons, addCid, List.contains_iff_mem, hc, if_false]
    rw [ih (l ++ [c]) (by simpa using h)]
    simp

theorem mem_foldl_addCid (added l : List Cid) (c : Cid) : c ∈ added.foldl addCid l ↔ c ∈ l ∨ c ∈ added := by
  induction added generalizing l with
  | nil => simp
  | cons a r ih =>
    simp only [List.foldl_cons, ih, List.mem_cons]
    unfold addCid
    by_cases ha : l.contains a = true
    · simp only [ha, if_true]
      have : a ∈ l := by simpa using ha
      constructor
      · rintro (h | h)
        · exact Or.inl h
        · exact Or.inr (Or.inr h)
      · rintro (h | rfl | h)
        · exact Or.inl h
        · exact Or.inl this
        · exact Or.inr h
    · simp only [ha, Bool.false_eq_true, if_false, List.mem_append, List.mem_singleton]
      constructor
      · rintro ((h | h) | h)
        · exact Or.inl h
        · exact Or.inr (Or.inl h)
        · exact Or.inr (Or.inr h)
      · rintro (h | h | h)
        · exact Or.inl (Or.inl h)
        · exact Or.inl (Or.inr h)
        · exact Or.inr h

end Kanidm.Backup
