import KanidmModel.Actors
/-! Helper lemmas for C47: the inductive invariant of the supervisor-tree stop protocol. -/
namespace Kanidm.Actors
open Kanidm.Gen.Actors

theorem Node.done_iff (n : Node) : n.done = true ↔ 3 ≤ n.pc := by
  cases h : n.kind <;> simp [Node.done, Node.prog, h, supRun, actorRun]

theorem Node.done_false_iff (n : Node) : n.done = false ↔ n.pc < 3 := by
  have := n.done_iff
  cases h : n.done <;> simp_all <;> omega

theorem list012 (pc k : Nat) : ([0, 1, 2] : List Nat)[pc]? = some k ↔ pc = k ∧ k < 3 := by
  match pc with
  | 0 => simp; omega
  | 1 => simp; omega
  | 2 => simp; omega
  | n + 3 => simp; omega

theorem Node.op_iff (n : Node) (k : Nat) : n.op = some k ↔ n.pc = k ∧ k < 3 := by
  cases h : n.kind <;> simp [Node.op, Node.prog, h, supRun, actorRun, list012]

/-- Per-task facts. -/
def Local (n : Node) : Prop :=
  n.pc ≤ 3 ∧
  (n.kind = .sup → (n.sent = true ↔ 2 ≤ n.pc) ∧ (n.returned = true → 3 ≤ n.pc)) ∧
  (n.kind = .actor → (n.cleaned = true ↔ 3 ≤ n.pc) ∧ (n.sawStop = true → 2 ≤ n.pc)
      ∧ (n.inStep = true → n.pc = 1))

/-- The inductive invariant. -/
structure Inv (σ : State) : Prop where
  bound : ∀ i, σ.size ≤ i → σ.nodes i = none
  par : ∀ i n p, σ.nodes i = some n → n.parent = some p →
      p < i ∧ ∃ pn, σ.nodes p = some pn ∧ pn.kind = .sup
  loc : ∀ i n, σ.nodes i = some n → Local n
  /-- a task subscribed before its supervisor's broadcast has the message (or is gone) -/
  sentKids : ∀ c cn p pn, σ.nodes c = some cn → cn.parent = some p → σ.nodes p = some pn →
      pn.sent = true → cn.late = false → cn.pending = true ∨ cn.done = true
  /-- a task subscribed before its supervisor task completed has completed before it -/
  doneKids : ∀ c cn p pn, σ.nodes c = some cn → cn.parent = some p → σ.nodes p = some pn →
      pn.done = true → cn.orphan = false → cn.done = true

/-- A local, monotone update of one task. -/
structure Upd (n n' : Node) : Prop where
  kind : n'.kind = n.kind
  parent : n'.parent = n.parent
  late : n'.late = n.late
  orphan : n'.orphan = n.orphan
  pc : n.pc ≤ n'.pc
  pending : n.pending = true → n'.pending = true

theorem Inv.init : Inv init := by
  constructor <;> intros <;> simp_all [Kanidm.Actors.init]

theorem Inv.lt_size {σ : State} (h : Inv σ) {i : Nat} {n : Node} (hi : σ.nodes i = some n) :
    i < σ.size := by
  apply Decidable.byContradiction
  intro hc
  have := h.bound i (by omega)
  simp_all

theorem Inv.set {σ : State} {i : Nat} {n n' : Node} (h : Inv σ) (hi : σ.nodes i = some n)
    (u : Upd n n') (hl : Local n')
    (hs : n'.sent = true → n.sent = true ∨
      ∀ c cn, σ.nodes c = some cn → cn.parent = some i → cn.pending = true ∨ cn.done = true)
    (hd : n'.done = true → n.done = true ∨
      ∀ c cn, σ.nodes c = some cn → cn.parent = some i → cn.done = true) :
    Inv (σ.set i n') := by
  have mono : n.done = true → n'.done = true := by
    intro hdn; rw [Node.done_iff] at *; have := u.pc; omega
  constructor
  · intro j hj
    have hlt := h.lt_size hi
    simp only [State.set] at hj ⊢
    split
    · omega
    · exact h.bound j hj
  · intro j m p hj hp
    simp only [State.set] at hj ⊢
    split at hj
    · injection hj with hj; subst hj; subst j
      rw [u.parent] at hp
      obtain ⟨hlt, pn, hpn, hk⟩ := h.par i n p hi hp
      refine ⟨hlt, ?_⟩
      have : p ≠ i := by omega
      simp [this, hpn, hk]
    · obtain ⟨hlt, pn, hpn, hk⟩ := h.par j m p hj hp
      refine ⟨hlt, ?_⟩
      by_cases hpi : p = i
      · subst hpi; simp; rw [u.kind]; rw [hi] at hpn; injection hpn with e; rw [e]; exact hk
      · simp [hpi, hpn, hk]
  · intro j m hj
    simp only [State.set] at hj
    split at hj
    · injection hj with hj; subst hj; exact hl
    · exact h.loc j m hj
  · intro c cn p pn hc hp hpn hsent hlate
    simp only [State.set] at hc hpn
    split at hc
    · -- the child is the updated task
      injection hc with hc; subst hc; subst c
      rw [u.parent] at hp
      have hlt := (h.par i n p hi hp).1
      have hne : p ≠ i := by omega
      simp [hne] at hpn
      rw [u.late] at hlate
      rcases h.sentKids i n p pn hi hp hpn hsent hlate with h1 | h1
      · exact Or.inl (u.pending h1)
      · exact Or.inr (mono h1)
    · split at hpn
      · -- the parent is the updated task
        injection hpn with hpn; subst hpn; subst p
        rcases hs hsent with h1 | h1
        · exact h.sentKids c cn i n hc hp hi h1 hlate
        · exact h1 c cn hc hp
      · exact h.sentKids c cn p pn hc hp hpn hsent hlate
  · intro c cn p pn hc hp hpn hdone horph
    simp only [State.set] at hc hpn
    split at hc
    · injection hc with hc; subst hc; subst c
      rw [u.parent] at hp
      have hlt := (h.par i n p hi hp).1
      have hne : p ≠ i := by omega
      simp [hne] at hpn
      rw [u.orphan] at horph
      exact mono (h.doneKids i n p pn hi hp hpn hdone horph)
    · split at hpn
      · injection hpn with hpn; subst hpn; subst p
        rcases hd hdone with h1 | h1
        · exact h.doneKids c cn i n hc hp hi h1 horph
        · exact h1 c cn hc hp
      · exact h.doneKids c cn p pn hc hp hpn hdone horph

theorem broadcast_nodes {σ : State} {s j : Nat} {m' : Node}
    (h : (σ.broadcast s).nodes j = some m') :
    ∃ m, σ.nodes j = some m ∧
      ((liveChildOf s m = false ∧ m' = m) ∨ (liveChildOf s m = true ∧ m' = { m with pending := true })) := by
  simp only [State.broadcast] at h
  cases hm : σ.nodes j with
  | none => simp [hm] at h
  | some m =>
    simp only [hm] at h
    refine ⟨m, rfl, ?_⟩
    cases hl : liveChildOf s m <;> simp [hl] at h <;> simp [h.symm]

theorem broadcast_child {σ : State} {s c : Nat} {cn : Node}
    (h : (σ.broadcast s).nodes c = some cn) (hp : cn.parent = some s) :
    cn.pending = true ∨ cn.done = true := by
  obtain ⟨m, _, h1 | h1⟩ := broadcast_nodes h
  · obtain ⟨hl, e⟩ := h1
    subst e
    simp [liveChildOf, hp] at hl
    exact Or.inr hl
  · obtain ⟨_, e⟩ := h1
    subst e
    exact Or.inl rfl

theorem Inv.broadcast {σ : State} (h : Inv σ) (s : Nat) : Inv (σ.broadcast s) := by
  have key : ∀ {j m'}, (σ.broadcast s).nodes j = some m' →
      ∃ m, σ.nodes j = some m ∧ m'.kind = m.kind ∧ m'.parent = m.parent ∧ m'.late = m.late
        ∧ m'.orphan = m.orphan ∧ m'.pc = m.pc ∧ m'.sent = m.sent ∧ m'.done = m.done
        ∧ (m.pending = true → m'.pending = true) ∧ (Local m → Local m') := by
    intro j m' hj
    obtain ⟨m, hm, h1 | h1⟩ := broadcast_nodes hj
    · obtain ⟨_, e⟩ := h1; subst e; exact ⟨m', hm, rfl, rfl, rfl, rfl, rfl, rfl, rfl, id, id⟩
    · obtain ⟨_, e⟩ := h1; subst e
      exact ⟨m, hm, rfl, rfl, rfl, rfl, rfl, rfl, rfl, fun _ => rfl, id⟩
  constructor
  · intro j hj
    simp [State.broadcast, h.bound j hj]
  · intro j m' p hj hp
    obtain ⟨m, hm, hk, hpar, _⟩ := key hj
    rw [hpar] at hp
    obtain ⟨hlt, pn, hpn, hkp⟩ := h.par j m p hm hp
    refine ⟨hlt, ?_⟩
    simp only [State.broadcast, hpn]
    split <;> simp [hkp]
  · intro j m' hj
    obtain ⟨m, hm, _, _, _, _, _, _, _, _, hl⟩ := key hj
    exact hl (h.loc j m hm)
  · intro c cn' p pn' hc hp hpn hsent hlate
    obtain ⟨cn, hcn, _, hpar, hlt, _, _, _, hdn, hpe, _⟩ := key hc
    obtain ⟨pn, hpn0, _, _, _, _, _, hse, _, _, _⟩ := key hpn
    rw [hpar] at hp; rw [hlt] at hlate; rw [hse] at hsent
    rcases h.sentKids c cn p pn hcn hp hpn0 hsent hlate with h1 | h1
    · exact Or.inl (hpe h1)
    · exact Or.inr (by rw [hdn]; exact h1)
  · intro c cn' p pn' hc hp hpn hdone horph
    obtain ⟨cn, hcn, _, hpar, _, hor, _, _, hdn, _, _⟩ := key hc
    obtain ⟨pn, hpn0, _, _, _, _, _, _, hdp, _, _⟩ := key hpn
    rw [hpar] at hp; rw [hor] at horph; rw [hdp] at hdone
    rw [hdn]
    exact h.doneKids c cn p pn hcn hp hpn0 hdone horph

theorem Inv.push {σ : State} (h : Inv σ) (nn : Node) (hl : Local nn)
    (hp : ∀ p, nn.parent = some p → ∃ pn, σ.nodes p = some pn ∧ pn.kind = .sup ∧
      (pn.sent = true → nn.late = true) ∧ (pn.done = true → nn.orphan = true)) :
    Inv (σ.push nn) := by
  have old : ∀ {j m}, σ.nodes j = some m → j ≠ σ.size := by
    intro j m hj; have := h.lt_size hj; omega
  constructor
  · intro j hj
    simp only [State.push] at hj ⊢
    have : j ≠ σ.size := by omega
    simp [this]; exact h.bound j (by omega)
  · intro j m p hj hpar
    simp only [State.push] at hj ⊢
    split at hj
    · injection hj with hj; subst hj; subst j
      obtain ⟨pn, hpn, hk, _⟩ := hp p hpar
      have := h.lt_size hpn
      refine ⟨this, pn, ?_, hk⟩
      simp [old hpn, hpn]
    · obtain ⟨hlt, pn, hpn, hk⟩ := h.par j m p hj hpar
      exact ⟨hlt, pn, by simp [old hpn, hpn], hk⟩
  · intro j m hj
    simp only [State.push] at hj
    split at hj
    · injection hj with hj; subst hj; exact hl
    · exact h.loc j m hj
  · intro c cn p pn hc hpar hpn hsent hlate
    simp only [State.push] at hc hpn
    split at hpn
    · -- the new task has no children yet
      rename_i hps
      split at hc
      · subst hps; rename_i hcs; subst hcs
        injection hc with hc; subst hc
        obtain ⟨pn', hpn', _⟩ := hp _ hpar
        exact absurd rfl (old hpn')
      · have := (h.par c cn p hc hpar).1
        have := h.lt_size hc
        omega
    · split at hc
      · injection hc with hc; subst hc
        obtain ⟨pn', hpn', _, hla, _⟩ := hp p hpar
        rw [hpn] at hpn'; injection hpn' with e; subst e
        rw [hla hsent] at hlate; cases hlate
      · exact h.sentKids c cn p pn hc hpar hpn hsent hlate
  · intro c cn p pn hc hpar hpn hdone horph
    simp only [State.push] at hc hpn
    split at hpn
    · rename_i hps
      split at hc
      · subst hps; rename_i hcs; subst hcs
        injection hc with hc; subst hc
        obtain ⟨pn', hpn', _⟩ := hp _ hpar
        exact absurd rfl (old hpn')
      · have := (h.par c cn p hc hpar).1
        have := h.lt_size hc
        omega
    · split at hc
      · injection hc with hc; subst hc
        obtain ⟨pn', hpn', _, _, hor⟩ := hp p hpar
        rw [hpn] at hpn'; injection hpn' with e; subst e
        rw [hor hdone] at horph; cases horph
      · exact h.doneKids c cn p pn hc hpar hpn hdone horph

theorem noLiveChild_spec {σ : State} (h : Inv σ) {s : Nat} (hn : σ.noLiveChild s = true) :
    ∀ c cn, σ.nodes c = some cn → cn.parent = some s → cn.done = true := by
  intro c cn hc hp
  have hlt := h.lt_size hc
  simp only [State.noLiveChild, List.all_eq_true, List.mem_range] at hn
  have := hn c hlt
  simp [hc, liveChildOf, hp] at this
  exact this

theorem supEnv_spec {σ σ' : State} {s : Nat} {f : Node → Option Node}
    (h : supEnv σ s f = some σ') :
    ∃ n n', σ.nodes s = some n ∧ n.kind = .sup ∧ f n = some n' ∧ σ' = σ.set s n' := by
  unfold supEnv at h
  cases hn : σ.nodes s with
  | none => simp [hn] at h
  | some n =>
    simp only [hn] at h
    split at h
    · rename_i hk
      cases hf : f n with
      | none => simp [hf] at h
      | some n' => simp [hf] at h; exact ⟨n, n', rfl, hk, hf, h.symm⟩
    · cases h

theorem actorStep_spec {σ σ' : State} {a : Nat} {f : Node → Option Node}
    (h : actorStep σ a f = some σ') :
    ∃ n n', σ.nodes a = some n ∧ n.kind = .actor ∧ f n = some n' ∧ σ' = σ.set a n' := by
  unfold actorStep at h
  cases hn : σ.nodes a with
  | none => simp [hn] at h
  | some n =>
    simp only [hn] at h
    split at h
    · rename_i hk
      cases hf : f n with
      | none => simp [hf] at h
      | some n' => simp [hf] at h; exact ⟨n, n', rfl, hk, hf, h.symm⟩
    · cases h

theorem Inv.actor_no_kids {σ : State} (h : Inv σ) {a : Nat} {n : Node}
    (ha : σ.nodes a = some n) (hk : n.kind = .actor) :
    ∀ c cn, σ.nodes c = some cn → cn.parent = some a → cn.done = true := by
  intro c cn hc hp
  obtain ⟨_, pn, hpn, hks⟩ := h.par c cn a hc hp
  rw [ha] at hpn; injection hpn with e; subst e
  rw [hk] at hks; cases hks

/-- An update of a task that leaves `sent` and `done` alone. -/
theorem Inv.set_quiet {σ : State} {i : Nat} {n n' : Node} (h : Inv σ) (hi : σ.nodes i = some n)
    (u : Upd n n') (hl : Local n') (hs : n'.sent = n.sent) (hd : 3 ≤ n'.pc → 3 ≤ n.pc) :
    Inv (σ.set i n') := by
  refine h.set hi u hl (fun e => Or.inl (by rw [← hs]; exact e)) (fun e => Or.inl ?_)
  rw [Node.done_iff] at *; exact hd e

/-- An update of an actor task. -/
theorem Inv.set_actor {σ : State} {i : Nat} {n n' : Node} (h : Inv σ) (hi : σ.nodes i = some n)
    (hk : n.kind = .actor) (u : Upd n n') (hl : Local n') (hs : n'.sent = n.sent) :
    Inv (σ.set i n') :=
  h.set hi u hl (fun e => Or.inl (by rw [← hs]; exact e))
    (fun _ => Or.inr (h.actor_no_kids hi hk))

theorem Inv.spawn {σ σ' : State} (h : Inv σ) {k : Kind} {p : Option Nat}
    (hs : spawn σ k p = some σ') : Inv σ' := by
  unfold Kanidm.Actors.spawn at hs
  cases p with
  | none =>
    simp only at hs
    split at hs
    · injection hs with hs; subst hs
      apply h.push
      · simp [Local]
      · intro p hp; cases hp
    · cases hs
  | some pi =>
    simp only at hs
    cases hpn : σ.nodes pi with
    | none => simp [hpn] at hs
    | some pn =>
      simp only [hpn] at hs
      split at hs
      · rename_i hc
        injection hs with hs; subst hs
        apply h.push
        · cases k <;> simp [Local]
        · intro p hp
          injection hp with hp; subst hp
          simp at hc
          exact ⟨pn, hpn, hc.1.1.1.1.1, fun e => e, fun e => e⟩
      · cases hs

theorem Inv.supStep {σ σ' : State} (h : Inv σ) {s : Nat}
    (hs : supStep σ s = some σ') : Inv σ' := by
  unfold Kanidm.Actors.supStep at hs
  cases hn : σ.nodes s with
  | none => simp [hn] at hs
  | some n =>
    simp only [hn] at hs
    split at hs
    · rename_i hk
      have hl := h.loc s n hn
      obtain ⟨hl1, hl2, _⟩ := hl
      obtain ⟨hsent, hret⟩ := hl2 hk
      split at hs
      · -- leave the loop
        rename_i hop
        rw [Node.op_iff] at hop
        split at hs
        · injection hs with hs; subst hs
          apply h.set_quiet hn
          · constructor <;> simp
          · simp only [Local]; simp [hk]; refine ⟨by omega, ⟨?_, ?_⟩⟩
            · constructor
              · intro e; have := hsent.mp e; omega
              · intro e; omega
            · intro e; have := hret e; omega
          · rfl
          · simp; omega
        · cases hs
      · -- broadcast
        rename_i hop
        rw [Node.op_iff] at hop
        injection hs with hs; subst hs
        have hb := h.broadcast s
        obtain ⟨m, hm, hcase⟩ : ∃ m, (σ.broadcast s).nodes s = some m ∧
            (m = n ∨ m = { n with pending := true }) := by
          simp only [State.broadcast, hn]
          split
          · exact ⟨_, rfl, Or.inr rfl⟩
          · exact ⟨_, rfl, Or.inl rfl⟩
        have hself : liveChildOf s n = false := by
          cases hp : n.parent with
          | none => simp [liveChildOf, hp]
          | some q =>
            have := (h.par s n q hn hp).1
            have hne : q ≠ s := by omega
            simp [liveChildOf, hp, hne]
        have hns : (σ.broadcast s).nodes s = some n := by
          simp [State.broadcast, hn, hself]
        apply hb.set hns
        · constructor <;> simp
        · simp only [Local]; simp [hk]; refine ⟨by omega, ?_, ?_⟩
          · omega
          · intro e; have := hret e; omega
        · intro _
          exact Or.inr (fun c cn hc hp => broadcast_child hc hp)
        · intro e
          rw [Node.done_iff] at e; simp at e; omega
      · -- all receivers closed: the task completes
        rename_i hop
        rw [Node.op_iff] at hop
        split at hs
        · rename_i hnl
          injection hs with hs; subst hs
          apply h.set hn
          · constructor <;> simp
          · simp only [Local]; simp [hk]; refine ⟨by omega, ?_⟩
            · have := hsent.mpr (by omega)
              simp [this]; omega
          · intro e; exact Or.inl e
          · intro _; exact Or.inr (noLiveChild_spec h hnl)
        · cases hs
      · cases hs
    · cases hs

theorem Inv.step {σ σ' : State} (h : Inv σ) {e : Ev} (hs : step σ e = some σ') : Inv σ' := by
  cases e with
  | spawnSup p => exact h.spawn (k := .sup) (p := p) hs
  | spawnActor p => exact h.spawn (k := .actor) (p := some p) hs
  | supStep s => exact h.supStep hs
  | terminate r =>
    simp only [Kanidm.Actors.step] at hs
    obtain ⟨n, n', hn, hk, hf, rfl⟩ := supEnv_spec hs
    obtain ⟨hl1, hl2, _⟩ := h.loc r n hn
    split at hf
    · injection hf with hf; subst hf
      apply h.set_quiet hn
      · constructor <;> simp <;> intro e <;> simp [e]
      · simp only [Local]; simp [hk]; exact ⟨hl1, hl2 hk⟩
      · rfl
      · exact id
    · cases hf
  | execReturn r =>
    simp only [Kanidm.Actors.step] at hs
    obtain ⟨n, n', hn, hk, hf, rfl⟩ := supEnv_spec hs
    obtain ⟨hl1, hl2, _⟩ := h.loc r n hn
    split at hf
    · rename_i hc
      injection hf with hf; subst hf
      apply h.set_quiet hn
      · constructor <;> simp
      · simp only [Local]; simp [hk]; refine ⟨hl1, (hl2 hk).1, ?_⟩
        simp [execAwaitsTask, execTail] at hc
        have := hc.2; rw [Node.done_iff] at this; exact this
      · rfl
      · exact id
    · cases hf
  | stopReq s =>
    simp only [Kanidm.Actors.step] at hs
    obtain ⟨n, n', hn, hk, hf, rfl⟩ := supEnv_spec hs
    obtain ⟨hl1, hl2, _⟩ := h.loc s n hn
    split at hf
    · injection hf with hf; subst hf
      apply h.set_quiet hn
      · constructor <;> simp
      · simp only [Local]; simp [hk]; exact ⟨hl1, hl2 hk⟩
      · rfl
      · exact id
    · cases hf
  | stopReturn s =>
    simp only [Kanidm.Actors.step] at hs
    obtain ⟨n, n', hn, hk, hf, rfl⟩ := supEnv_spec hs
    obtain ⟨hl1, hl2, _⟩ := h.loc s n hn
    split at hf
    · rename_i hc
      injection hf with hf; subst hf
      apply h.set_quiet hn
      · constructor <;> simp
      · simp only [Local]; simp [hk]; refine ⟨hl1, (hl2 hk).1, ?_⟩
        simp [stopAwaitsTask, stopOps] at hc
        have := hc.2; rw [Node.done_iff] at this; exact this
      · rfl
      · exact id
    · cases hf
  | dropHandle s =>
    simp only [Kanidm.Actors.step] at hs
    obtain ⟨n, n', hn, hk, hf, rfl⟩ := supEnv_spec hs
    obtain ⟨hl1, hl2, _⟩ := h.loc s n hn
    split at hf
    · injection hf with hf; subst hf
      apply h.set_quiet hn
      · constructor <;> simp
      · simp only [Local]; simp [hk]; exact ⟨hl1, hl2 hk⟩
      · rfl
      · exact id
    · cases hf
  | setupDone a =>
    simp only [Kanidm.Actors.step] at hs
    obtain ⟨n, n', hn, hk, hf, rfl⟩ := actorStep_spec hs
    obtain ⟨hl1, _, hl3⟩ := h.loc a n hn
    obtain ⟨hc, hsaw, hin⟩ := hl3 hk
    split at hf
    · rename_i hop
      rw [Node.op_iff] at hop
      injection hf with hf; subst hf
      apply h.set_actor hn hk
      · constructor <;> simp
      · simp only [Local]; simp [hk]; refine ⟨by omega, ?_, ?_, ?_⟩
        · constructor
          · intro e; have := hc.mp e; omega
          · intro e; omega
        · intro e; have := hsaw e; omega
        · intro e; have := hin e; omega
      · rfl
    · cases hf
  | ready a =>
    simp only [Kanidm.Actors.step] at hs
    obtain ⟨n, n', hn, hk, hf, rfl⟩ := actorStep_spec hs
    obtain ⟨hl1, _, hl3⟩ := h.loc a n hn
    obtain ⟨hc, hsaw, hin⟩ := hl3 hk
    split at hf
    · rename_i hop
      simp only [Bool.and_eq_true, decide_eq_true_eq] at hop
      have hop1 := hop.1.1; rw [Node.op_iff] at hop1
      injection hf with hf; subst hf
      apply h.set_actor hn hk
      · constructor <;> simp
      · simp only [Local]; simp [hk]; exact ⟨hl1, hc, hsaw, hop1.1⟩
      · rfl
    · cases hf
  | stepDone a =>
    simp only [Kanidm.Actors.step] at hs
    obtain ⟨n, n', hn, hk, hf, rfl⟩ := actorStep_spec hs
    obtain ⟨hl1, _, hl3⟩ := h.loc a n hn
    obtain ⟨hc, hsaw, hin⟩ := hl3 hk
    split at hf
    · injection hf with hf; subst hf
      apply h.set_actor hn hk
      · constructor <;> simp
      · simp only [Local]; simp [hk]; exact ⟨hl1, hc, hsaw⟩
      · rfl
    · cases hf
  | selfStop a =>
    simp only [Kanidm.Actors.step] at hs
    obtain ⟨n, n', hn, hk, hf, rfl⟩ := actorStep_spec hs
    obtain ⟨hl1, _, hl3⟩ := h.loc a n hn
    obtain ⟨hc, hsaw, hin⟩ := hl3 hk
    split at hf
    · rename_i hop
      simp only [Bool.and_eq_true, decide_eq_true_eq, Bool.not_eq_true'] at hop
      have hop1 := hop.1.1; rw [Node.op_iff] at hop1
      injection hf with hf; subst hf
      apply h.set_actor hn hk
      · constructor <;> simp
      · simp only [Local]; simp [hk]; refine ⟨by omega, ?_, ?_, ?_⟩
        · constructor
          · intro e; have := hc.mp e; omega
          · intro e; omega
        · intro e; omega
        · intro e; simp [hop.1.2] at e
      · rfl
    · cases hf
  | seeStop a =>
    simp only [Kanidm.Actors.step] at hs
    obtain ⟨n, n', hn, hk, hf, rfl⟩ := actorStep_spec hs
    obtain ⟨hl1, _, hl3⟩ := h.loc a n hn
    obtain ⟨hc, hsaw, hin⟩ := hl3 hk
    split at hf
    · rename_i hop
      simp only [Bool.and_eq_true, decide_eq_true_eq, Bool.not_eq_true'] at hop
      have hop1 := hop.1.1.1; rw [Node.op_iff] at hop1
      injection hf with hf; subst hf
      apply h.set_actor hn hk
      · constructor <;> simp
      · simp only [Local]; simp [hk]; refine ⟨by omega, ?_, ?_, ?_⟩
        · constructor
          · intro e; have := hc.mp e; omega
          · intro e; omega
        · omega
        · intro e; simp [hop.1.1.2] at e
      · rfl
    · cases hf
  | cleanupDone a =>
    simp only [Kanidm.Actors.step] at hs
    obtain ⟨n, n', hn, hk, hf, rfl⟩ := actorStep_spec hs
    obtain ⟨hl1, _, hl3⟩ := h.loc a n hn
    obtain ⟨hc, hsaw, hin⟩ := hl3 hk
    split at hf
    · rename_i hop
      rw [Node.op_iff] at hop
      injection hf with hf; subst hf
      apply h.set_actor hn hk
      · constructor <;> simp
      · simp only [Local]; simp [hk]; refine ⟨by omega, by omega, ?_, ?_⟩
        · intro e; omega
        · intro e; have := hin e; omega
      · rfl
    · cases hf

theorem Reach.inv {σ : State} (h : Reach σ) : Inv σ := by
  induction h with
  | init => exact Inv.init
  | step e _ hs ih => exact ih.step hs

/-- What never changes / only grows for a task along a schedule. -/
def Mono (n n' : Node) : Prop :=
  n'.kind = n.kind ∧ n'.parent = n.parent ∧ n'.orphan = n.orphan ∧ n'.late = n.late ∧ n.pc ≤ n'.pc ∧
  (n.sawStop = true → n'.sawStop = true) ∧ (n.returned = true → n'.returned = true) ∧
  (n.cleaned = true → n'.cleaned = true)

theorem Mono.rfl' (n : Node) : Mono n n := ⟨rfl, rfl, rfl, rfl, Nat.le_refl _, id, id, id⟩

theorem Mono.trans {a b c : Node} (h1 : Mono a b) (h2 : Mono b c) : Mono a c := by
  obtain ⟨a1, a2, a3, a4, a5, a6, a7, a8⟩ := h1
  obtain ⟨b1, b2, b3, b4, b5, b6, b7, b8⟩ := h2
  exact ⟨b1.trans a1, b2.trans a2, b3.trans a3, b4.trans a4, Nat.le_trans a5 b5,
    fun e => b6 (a6 e), fun e => b7 (a7 e), fun e => b8 (a8 e)⟩

theorem set_mono {σ : State} {i j : Nat} {n n' m : Node} (hi : σ.nodes i = some n)
    (hm : Mono n n') (hj : σ.nodes j = some m) :
    ∃ m', (σ.set i n').nodes j = some m' ∧ Mono m m' := by
  simp only [State.set]
  split
  · rename_i e; subst e
    rw [hi] at hj; injection hj with hj; subst hj
    exact ⟨n', rfl, hm⟩
  · exact ⟨m, hj, Mono.rfl' m⟩

theorem push_mono {σ : State} (h : Inv σ) {nn m : Node} {j : Nat} (hj : σ.nodes j = some m) :
    ∃ m', (σ.push nn).nodes j = some m' ∧ Mono m m' := by
  have := h.lt_size hj
  have hne : j ≠ σ.size := by omega
  exact ⟨m, by simp [State.push, hne, hj], Mono.rfl' m⟩

theorem broadcast_mono {σ : State} {s j : Nat} {m : Node} (hj : σ.nodes j = some m) :
    ∃ m', (σ.broadcast s).nodes j = some m' ∧ Mono m m' := by
  simp only [State.broadcast, hj]
  split
  · exact ⟨_, rfl, ⟨rfl, rfl, rfl, rfl, Nat.le_refl _, id, id, id⟩⟩
  · exact ⟨_, rfl, Mono.rfl' m⟩

theorem step_mono {σ σ' : State} (h : Inv σ) {e : Ev} (hs : step σ e = some σ')
    {j : Nat} {m : Node} (hj : σ.nodes j = some m) :
    ∃ m', σ'.nodes j = some m' ∧ Mono m m' := by
  have spawnCase : ∀ k p, spawn σ k p = some σ' → ∃ m', σ'.nodes j = some m' ∧ Mono m m' := by
    intro k p hs
    unfold Kanidm.Actors.spawn at hs
    cases p with
    | none =>
      simp only at hs
      split at hs
      · injection hs with hs; subst hs; exact push_mono h hj
      · cases hs
    | some pi =>
      simp only at hs
      cases hpn : σ.nodes pi with
      | none => simp [hpn] at hs
      | some pn =>
        simp only [hpn] at hs
        split at hs
        · injection hs with hs; subst hs; exact push_mono h hj
        · cases hs
  have envCase : ∀ s f, supEnv σ s f = some σ' →
      (∀ n n', f n = some n' → Mono n n') → ∃ m', σ'.nodes j = some m' ∧ Mono m m' := by
    intro s f hs hf
    obtain ⟨n, n', hn, _, hfn, rfl⟩ := supEnv_spec hs
    exact set_mono hn (hf n n' hfn) hj
  have actCase : ∀ s f, actorStep σ s f = some σ' →
      (∀ n n', f n = some n' → Mono n n') → ∃ m', σ'.nodes j = some m' ∧ Mono m m' := by
    intro s f hs hf
    obtain ⟨n, n', hn, _, hfn, rfl⟩ := actorStep_spec hs
    exact set_mono hn (hf n n' hfn) hj
  cases e with
  | spawnSup p => exact spawnCase .sup p hs
  | spawnActor p => exact spawnCase .actor (some p) hs
  | supStep s =>
    simp only [Kanidm.Actors.step] at hs
    unfold Kanidm.Actors.supStep at hs
    cases hn : σ.nodes s with
    | none => simp [hn] at hs
    | some n =>
      simp only [hn] at hs
      split at hs
      · split at hs
        · split at hs
          · injection hs with hs; subst hs
            exact set_mono hn ⟨rfl, rfl, rfl, rfl, by simp, id, id, id⟩ hj
          · cases hs
        · injection hs with hs; subst hs
          obtain ⟨m1, hm1, hmono1⟩ := broadcast_mono (s := s) hj
          obtain ⟨n1, hn1, hmonon⟩ := broadcast_mono (s := s) hn
          have : Mono n1 { n with pc := n.pc + 1, sent := true } := by
            obtain ⟨b1, b2, b3, b4, b5, b6, b7, b8⟩ := hmonon
            simp only [State.broadcast, hn] at hn1
            split at hn1 <;> (injection hn1 with hn1; subst hn1) <;>
              exact ⟨rfl, rfl, rfl, rfl, by simp, id, id, id⟩
          obtain ⟨m2, hm2, hmono2⟩ := set_mono hn1 this hm1
          exact ⟨m2, hm2, hmono1.trans hmono2⟩
        · split at hs
          · injection hs with hs; subst hs
            exact set_mono hn ⟨rfl, rfl, rfl, rfl, by simp, id, id, id⟩ hj
          · cases hs
        · cases hs
      · cases hs
  | terminate r =>
    refine envCase r _ hs ?_
    intro n n' hf; split at hf
    · injection hf with hf; subst hf; exact ⟨rfl, rfl, rfl, rfl, Nat.le_refl _, id, id, id⟩
    · cases hf
  | execReturn r =>
    refine envCase r _ hs ?_
    intro n n' hf; split at hf
    · injection hf with hf; subst hf; exact ⟨rfl, rfl, rfl, rfl, Nat.le_refl _, id, fun _ => rfl, id⟩
    · cases hf
  | stopReq r =>
    refine envCase r _ hs ?_
    intro n n' hf; split at hf
    · injection hf with hf; subst hf; exact ⟨rfl, rfl, rfl, rfl, Nat.le_refl _, id, id, id⟩
    · cases hf
  | stopReturn r =>
    refine envCase r _ hs ?_
    intro n n' hf; split at hf
    · injection hf with hf; subst hf; exact ⟨rfl, rfl, rfl, rfl, Nat.le_refl _, id, fun _ => rfl, id⟩
    · cases hf
  | dropHandle r =>
    refine envCase r _ hs ?_
    intro n n' hf; split at hf
    · injection hf with hf; subst hf; exact ⟨rfl, rfl, rfl, rfl, Nat.le_refl _, id, id, id⟩
    · cases hf
  | setupDone a =>
    refine actCase a _ hs ?_
    intro n n' hf; split at hf
    · injection hf with hf; subst hf; exact ⟨rfl, rfl, rfl, rfl, by simp, id, id, id⟩
    · cases hf
  | ready a =>
    refine actCase a _ hs ?_
    intro n n' hf; split at hf
    · injection hf with hf; subst hf; exact ⟨rfl, rfl, rfl, rfl, Nat.le_refl _, id, id, id⟩
    · cases hf
  | stepDone a =>
    refine actCase a _ hs ?_
    intro n n' hf; split at hf
    · injection hf with hf; subst hf; exact ⟨rfl, rfl, rfl, rfl, Nat.le_refl _, id, id, id⟩
    · cases hf
  | selfStop a =>
    refine actCase a _ hs ?_
    intro n n' hf; split at hf
    · injection hf with hf; subst hf; exact ⟨rfl, rfl, rfl, rfl, by simp, id, id, id⟩
    · cases hf
  | seeStop a =>
    refine actCase a _ hs ?_
    intro n n' hf; split at hf
    · injection hf with hf; subst hf; exact ⟨rfl, rfl, rfl, rfl, by simp, fun _ => rfl, id, id⟩
    · cases hf
  | cleanupDone a =>
    refine actCase a _ hs ?_
    intro n n' hf; split at hf
    · injection hf with hf; subst hf; exact ⟨rfl, rfl, rfl, rfl, by simp, id, id, fun _ => rfl⟩
    · cases hf

theorem reach_run {σ σ' : State} (h : Reach σ) {es : List Ev} (hr : run σ es = some σ') :
    Reach σ' := by
  induction es generalizing σ with
  | nil => simp [Kanidm.Actors.run] at hr; subst hr; exact h
  | cons e es ih =>
    simp only [Kanidm.Actors.run] at hr
    cases hs : Kanidm.Actors.step σ e with
    | none => simp [hs] at hr
    | some σ1 => simp only [hs] at hr; exact ih (Reach.step e h hs) hr

theorem run_mono {σ σ' : State} (h : Reach σ) {es : List Ev} (hr : run σ es = some σ')
    {j : Nat} {m : Node} (hj : σ.nodes j = some m) :
    ∃ m', σ'.nodes j = some m' ∧ Mono m m' := by
  induction es generalizing σ m with
  | nil => simp [Kanidm.Actors.run] at hr; subst hr; exact ⟨m, hj, Mono.rfl' m⟩
  | cons e es ih =>
    simp only [Kanidm.Actors.run] at hr
    cases hs : Kanidm.Actors.step σ e with
    | none => simp [hs] at hr
    | some σ1 =>
      simp only [hs] at hr
      obtain ⟨m1, hm1, hmono1⟩ := step_mono h.inv hs hj
      obtain ⟨m2, hm2, hmono2⟩ := ih (Reach.step e h hs) hr hm1
      exact ⟨m2, hm2, hmono1.trans hmono2⟩

/-- Some step of task `i` itself (not of the environment) is enabled. -/
def Enabled (σ : State) (i : Nat) : Prop :=
  ∃ e, e ∈ [Ev.supStep i, .setupDone i, .stepDone i, .seeStop i, .cleanupDone i] ∧
    (step σ e).isSome = true

theorem Desc.trans_child {σ : State} {s c d : Nat} {cn : Node} (hc : σ.nodes c = some cn)
    (hp : cn.parent = some s) (h : Desc σ c d) : Desc σ s d := by
  induction h with
  | refl => exact Desc.child hc hp Desc.refl
  | child hd hpd _ ih => exact Desc.child hd hpd ih

theorem live_child_of_not_noLiveChild {σ : State} {s : Nat} (h : σ.noLiveChild s = false) :
    ∃ c cn, c < σ.size ∧ σ.nodes c = some cn ∧ cn.parent = some s ∧ cn.done = false := by
  simp only [State.noLiveChild] at h
  rw [List.all_eq_false] at h
  obtain ⟨c, hc, hcc⟩ := h
  rw [List.mem_range] at hc
  cases hn : σ.nodes c with
  | none => simp [hn] at hcc
  | some cn =>
    simp [hn, liveChildOf] at hcc
    exact ⟨c, cn, hc, hn, hcc.1, hcc.2⟩

theorem actor_enabled {σ : State} (inv : Inv σ) {c : Nat} {cn : Node} (hc : σ.nodes c = some cn)
    (hk : cn.kind = .actor) (hp : cn.pending = true) (hd : cn.done = false) : Enabled σ c := by
  obtain ⟨hl1, _, hl3⟩ := inv.loc c cn hc
  obtain ⟨_, _, hin⟩ := hl3 hk
  rw [Node.done_false_iff] at hd
  have h012 : cn.pc = 0 ∨ cn.pc = 1 ∨ cn.pc = 2 := by omega
  rcases h012 with h0 | h1 | h2
  · refine ⟨.setupDone c, by simp, ?_⟩
    have : cn.op = some 0 := (Node.op_iff cn 0).mpr ⟨h0, by omega⟩
    simp [step, actorStep, hc, hk, this]
  · have hop : cn.op = some 1 := (Node.op_iff cn 1).mpr ⟨h1, by omega⟩
    cases hi : cn.inStep with
    | true =>
      refine ⟨.stepDone c, by simp, ?_⟩
      simp [step, actorStep, hc, hk, hop, hi]
    | false =>
      refine ⟨.seeStop c, by simp, ?_⟩
      simp [step, actorStep, hc, hk, hop, hi, hp, actParentRecvBreaks]
  · refine ⟨.cleanupDone c, by simp, ?_⟩
    have : cn.op = some 2 := (Node.op_iff cn 2).mpr ⟨h2, by omega⟩
    simp [step, actorStep, hc, hk, this]

theorem stopping_progress_aux {σ : State} (inv : Inv σ)
    (hno : ∀ i n, σ.nodes i = some n → n.late = false) :
    ∀ k s sn, σ.size - s ≤ k → σ.nodes s = some sn → sn.kind = .sup →
      (σ.canBreak sn = true ∨ 1 ≤ sn.pc) → sn.done = false → ∃ d, Desc σ s d ∧ Enabled σ d := by
  intro k
  induction k with
  | zero =>
    intro s sn hk hs
    have := inv.lt_size hs
    omega
  | succ k ih =>
    intro s sn hle hs hk hb hnd
    obtain ⟨hl1, hl2, _⟩ := inv.loc s sn hs
    obtain ⟨hsent, _⟩ := hl2 hk
    rw [Node.done_false_iff] at hnd
    have h012 : sn.pc = 0 ∨ sn.pc = 1 ∨ sn.pc = 2 := by omega
    rcases h012 with h0 | h1 | h2
    · have hcb : σ.canBreak sn = true := by
        rcases hb with hb | hb
        · exact hb
        · omega
      refine ⟨s, Desc.refl, .supStep s, by simp, ?_⟩
      have : sn.op = some 0 := (Node.op_iff sn 0).mpr ⟨h0, by omega⟩
      simp [step, Kanidm.Actors.supStep, hs, hk, this, hcb]
    · refine ⟨s, Desc.refl, .supStep s, by simp, ?_⟩
      have : sn.op = some 1 := (Node.op_iff sn 1).mpr ⟨h1, by omega⟩
      simp [step, Kanidm.Actors.supStep, hs, hk, this]
    · have hop : sn.op = some 2 := (Node.op_iff sn 2).mpr ⟨h2, by omega⟩
      cases hnl : σ.noLiveChild s with
      | true =>
        refine ⟨s, Desc.refl, .supStep s, by simp, ?_⟩
        simp [step, Kanidm.Actors.supStep, hs, hk, hop, hnl]
      | false =>
        obtain ⟨c, cn, hclt, hc, hp, hcd⟩ := live_child_of_not_noLiveChild hnl
        have hsn : sn.sent = true := hsent.mpr (by omega)
        have hpend : cn.pending = true := by
          rcases inv.sentKids c cn s sn hc hp hs hsn (hno c cn hc) with h1 | h1
          · exact h1
          · rw [hcd] at h1; cases h1
        have hsc := (inv.par c cn s hc hp).1
        cases hkc : cn.kind with
        | actor =>
          exact ⟨c, Desc.child hc hp Desc.refl, actor_enabled inv hc hkc hpend hcd⟩
        | sup =>
          have hcb : σ.canBreak cn = true := by
            simp [State.canBreak, hpend, supParentRecvBreaks]
          obtain ⟨d, hd, he⟩ := ih c cn (by omega) hc hkc (Or.inl hcb) hcd
          exact ⟨d, Desc.trans_child hc hp hd, he⟩

end Kanidm.Actors
