import KanidmModel.Bearer
/-!
Helper lemmas for C32: the specification predicates (plain arithmetic, no generated operator on
the right-hand sides — so that a changed comparison or constant in the source breaks a proof
instead of silently re-stating the theorem), the decision tables of the single checks, and the
step lemmas of the write side used by the history invariants.
-/
namespace Kanidm.Bearer
open Kanidm.Gen.Bearer

/-! ### Specification predicates -/

/-- The key is known to the domain key object and not revoked. -/
def KeyOk (w : World) (k : Nat) : Prop := w.keys k = some false

/-- `valid_from ≤ ct ≤ expire`, each bound only if present. -/
def InWindow (acc : Account) (ct : Nat) : Prop :=
  (∀ v, acc.validFrom = some v → v ≤ ct) ∧ (∀ x, acc.expire = some x → ct ≤ x)

/-- The recorded session state is consistent with the token's expiry and not revoked. -/
def SessionLive (st : SState) (uexp : Option Nat) : Prop :=
  (∃ e, st = .expiresAt e ∧ uexp = some e) ∨ (st = .neverExpires ∧ uexp = none)

/-- Strictly inside the five-minute grace window after issue (nanoseconds, literal). -/
def InGrace (issuedAt ct : Nat) : Prop := ct < issuedAt + 300 * 1000000000

/-- A session is recorded on the account, live and consistent with the token. -/
def Recorded (acc : Account) (sid : Nat) (uexp : Option Nat) : Prop :=
  ∃ s, acc.sessions sid = some s ∧ SessionLive s.state uexp

/-! ### Single checks -/

theorem graceWindow_eq : graceWindow = 300 * 1000000000 := by decide

theorem jwsVerify_iff (w : World) (t : Token) :
    jwsVerify w t = true ↔ KeyOk w t.kid ∧ t.sigok = true := by
  unfold jwsVerify KeyOk
  cases h : w.keys t.kid with
  | none => simp
  | some b => cases b <;> simp

theorem withinWindow_iff (acc : Account) (ct : Nat) :
    withinWindow acc ct = true ↔ InWindow acc ct := by
  unfold withinWindow InWindow withinValidTime validFromOk expireOk
  cases acc.validFrom <;> cases acc.expire <;> simp

theorem sessionArms_total (st : SState) (uexp : Option Nat) :
    evalArms uatSessionExpEq uatSessionArms st uexp ≠ none := by
  cases st <;> cases uexp <;>
    simp [uatSessionArms, evalArms, Arm.fires, StPat.matches, ExpPat.matches, guardHolds,
      uatSessionExpEq] <;> split <;> simp

theorem sessionArms_iff (st : SState) (uexp : Option Nat) :
    evalArms uatSessionExpEq uatSessionArms st uexp = some true ↔ SessionLive st uexp := by
  unfold SessionLive
  cases st <;> cases uexp <;>
    simp [uatSessionArms, evalArms, Arm.fires, StPat.matches, ExpPat.matches, guardHolds,
      uatSessionExpEq]
  rename_i e u
  by_cases h : e = u
  · simp [h]
  · simp [h]; exact fun h' => h h'.symm

theorem uatNoSession_iff (ct iat : Nat) :
    uatNoSession ct (uatGrace iat graceWindow) = true ↔ InGrace iat ct := by
  unfold uatNoSession uatGrace InGrace
  rw [graceWindow_eq]
  by_cases h : ct ≥ iat + 300 * 1000000000 <;> simp [h] <;> omega

theorem apitNoSession_iff (ct iat : Nat) :
    apitNoSession ct (apitGrace iat graceWindow) = true ↔ InGrace iat ct := by
  unfold apitNoSession apitGrace InGrace
  rw [graceWindow_eq]
  by_cases h : ct ≥ iat + 300 * 1000000000 <;> simp [h] <;> omega

/-- `Account::check_user_auth_token_valid` as a decision table. -/
theorem checkUat_iff (ct uuid sid iat : Nat) (exp : Option Nat) (acc : Account) :
    checkUat ct uuid sid iat exp acc = true ↔
      InWindow acc ct ∧
        (uuid = anonymous ∨
          (uuid ≠ anonymous ∧
            ((Recorded acc sid exp) ∨ (acc.sessions sid = none ∧ InGrace iat ct)))) := by
  by_cases hw : withinWindow acc ct = true
  · have hW := (withinWindow_iff acc ct).mp hw
    by_cases ha : uuid = anonymous
    · subst ha
      have hL : checkUat ct anonymous sid iat exp acc = true := by
        unfold checkUat; simp [hw, uatIsAnonymous, uatAnonymousResult]
      simp [hL, hW]
    · have hL : checkUat ct uuid sid iat exp acc =
          (match acc.sessions sid with
           | some session =>
             (match evalArms uatSessionExpEq uatSessionArms session.state exp with
              | some r => r
              | none => false)
           | none => uatNoSession ct (uatGrace iat graceWindow)) := by
        unfold checkUat; simp [hw, uatIsAnonymous, ha]; rfl
      rw [hL]
      cases hs : acc.sessions sid with
      | none =>
        simp only [uatNoSession_iff]
        constructor
        · intro h; refine ⟨hW, Or.inr ⟨ha, Or.inr ⟨?_, h⟩⟩⟩; first | rfl | trivial
        · rintro ⟨_, h | ⟨_, ⟨s', hs', _⟩ | ⟨_, h⟩⟩⟩
          · exact absurd h ha
          · rw [hs] at hs'; cases hs'
          · exact h
      | some s =>
        simp only
        have ht := sessionArms_total s.state exp
        have hiff := sessionArms_iff s.state exp
        cases he : evalArms uatSessionExpEq uatSessionArms s.state exp with
        | none => exact absurd he ht
        | some r =>
          rw [he] at hiff
          constructor
          · intro hr
            subst hr
            exact ⟨hW, Or.inr ⟨ha, Or.inl ⟨s, hs, hiff.mp rfl⟩⟩⟩
          · rintro ⟨_, h | ⟨_, ⟨s', hs', hl⟩ | ⟨h, _⟩⟩⟩
            · exact absurd h ha
            · rw [hs] at hs'; cases hs'
              have := hiff.mpr hl
              simpa using this
            · cases h
  · have hW : ¬ InWindow acc ct := fun h => hw ((withinWindow_iff acc ct).mpr h)
    have hL : checkUat ct uuid sid iat exp acc = false := by
      unfold checkUat; simp [hw]
    simp [hL, hW]

/-- `ServiceAccount::check_api_token_valid` as a decision table. -/
theorem checkApit_iff (ct tid iat : Nat) (acc : Account) :
    checkApit ct tid iat acc = true ↔
      InWindow acc ct ∧ ((acc.apiTokens tid).isSome = true ∨
        (acc.apiTokens tid = none ∧ InGrace iat ct)) := by
  unfold checkApit
  by_cases hw : withinWindow acc ct = true
  · have hW := (withinWindow_iff acc ct).mp hw
    simp only [hw, Bool.not_true, Bool.false_eq_true, if_false]
    cases hs : acc.apiTokens tid with
    | none => simp [apitNoSession_iff, hW]
    | some r => simp [apitSessionPresentResult, hW]
  · have hW : ¬ InWindow acc ct := fun h => hw ((withinWindow_iff acc ct).mpr h)
    simp [hw, hW]

end Kanidm.Bearer
